(* Lemmas_C01s.v — property C01, tying the ghost counters gL / gS / gR of the model to the byte
   streams of the trace:
     sections 1-7 (top level)  gL = number of non-blank lines in the bytes actually consumed (P1),
                               reads happen only when settled, at trace level (P3),
                               scripted worlds: consumed ++ queued = input, every line answered (P5);
     Module P2                 one increment of gR = the accepted ATCMD bytes  nl OK/ERROR nl  (P2);
     Module P2b                gS changes only at ack_ok / ack_error, the starting states of P2;
     Module P4                 AT<unresolved name>=<anything> LF as a whole-line theorem (P4).
   Statements: Properties_C01s.v. *)
From Coq Require Import List NArith ZArith Bool Arith Lia.
From CatV Require Import Bytes Defs Codec Fsm Script SchedDefs TermDefs Skel SkelInv SkelSim EvSkel EvSkelSim Lemmas_Ctl Lemmas_C03 Lemmas_Domain.
From CatV Require Lemmas_C12 Lemmas_Inv.
Import ListNotations.
Local Open Scope nat_scope.

(* ================================================================== *)
(* 1. the byte stream actually consumed, and the lines it contains      *)
(* ================================================================== *)

(* the bytes delivered by io_read, oldest first (the trace is newest first) *)
Definition consumed (t : list event) : list N :=
  flat_map (fun e => match e with ERd (Some c) => [c] | _ => [] end) (rev t).

(* number of LF-terminated lines that contain at least one byte other than CR;
   seen = "the current line already contains such a byte" *)
Fixpoint nonblank_lines (seen : bool) (bs : list N) : nat :=
  match bs with
  | [] => 0
  | c :: r => if (c =? ch_LF)%N then (if seen then 1 else 0) + nonblank_lines false r
              else nonblank_lines (seen || negb (c =? ch_CR)%N) r
  end.

(* the flag after the bytes bs *)
Fixpoint seen_after (seen : bool) (bs : list N) : bool :=
  match bs with
  | [] => seen
  | c :: r => if (c =? ch_LF)%N then seen_after false r
              else seen_after (seen || negb (c =? ch_CR)%N) r
  end.

Lemma nonblank_lines_app : forall a seen b,
  nonblank_lines seen (a ++ b) = nonblank_lines seen a + nonblank_lines (seen_after seen a) b.
Proof.
  induction a as [|c a IH]; intros seen b; cbn [app nonblank_lines seen_after]; [reflexivity|].
  destruct (c =? ch_LF)%N; rewrite IH; lia.
Qed.

Lemma seen_after_app : forall a seen b, seen_after seen (a ++ b) = seen_after (seen_after seen a) b.
Proof.
  induction a as [|c a IH]; intros seen b; cbn [app seen_after]; [reflexivity|].
  destruct (c =? ch_LF)%N; apply IH.
Qed.

Definition rd_byte (e : event) : list N := match e with ERd (Some c) => [c] | _ => [] end.

Lemma consumed_cons : forall e t, consumed (e :: t) = consumed t ++ rd_byte e.
Proof.
  intros e t. unfold consumed. cbn [rev]. rewrite flat_map_app. cbn [flat_map]. rewrite app_nil_r. reflexivity.
Qed.

Lemma consumed_app : forall evs t, consumed (evs ++ t) = consumed t ++ consumed evs.
Proof. intros evs t. unfold consumed. rewrite rev_app_distr, flat_map_app. reflexivity. Qed.

Definition nord (evs : list event) : Prop := forall r, ~ In (ERd r) evs.

Lemma consumed_nord_nil : forall evs, nord evs -> consumed evs = [].
Proof.
  intros evs H. unfold consumed.
  assert (G : forall l, (forall r, ~ In (ERd r) l) ->
              flat_map (fun e => match e with ERd (Some c) => [c] | _ => [] end) l = []).
  { induction l as [|e l IH]; intros Hl; [reflexivity|]. cbn [flat_map].
    rewrite IH by (intros r Hr; apply (Hl r); right; exact Hr).
    destruct e as [[c|]| | | | | | |]; try reflexivity.
    exfalso. apply (Hl (Some c)). left. reflexivity. }
  apply G. intros r Hr. apply (H r). apply in_rev. exact Hr.
Qed.

Lemma consumed_app_nord : forall evs t, nord evs -> consumed (evs ++ t) = consumed t.
Proof. intros evs t H. rewrite consumed_app, (consumed_nord_nil evs H). apply app_nil_r. Qed.

Lemma nord_nil : nord [].
Proof. intros r []. Qed.
Lemma nord_app : forall a b, nord a -> nord b -> nord (a ++ b).
Proof. intros a b Ha Hb r H. apply in_app_or in H. destruct H; [apply (Ha r) | apply (Hb r)]; assumption. Qed.
Lemma nord_inner : forall evs, forallb is_inner_ev evs = true -> nord evs.
Proof.
  intros evs H r Hin. rewrite forallb_forall in H. specialize (H _ Hin). discriminate H.
Qed.

(* bytes as the reader sees them *)
Lemma to_upper_lf : forall c, (to_upper c =? ch_LF)%N = (c =? ch_LF)%N.
Proof.
  intros c. unfold to_upper, ch_LF.
  destruct ((97 <=? c) && (c <=? 122))%N eqn:E; [|reflexivity].
  apply andb_prop in E. destruct E as [E1 E2]. apply N.leb_le in E1. apply N.leb_le in E2.
  destruct (N.eqb_spec (c - 32) 10), (N.eqb_spec c 10); try reflexivity; lia.
Qed.
Lemma to_upper_cr : forall c, (to_upper c =? ch_CR)%N = (c =? ch_CR)%N.
Proof.
  intros c. unfold to_upper, ch_CR.
  destruct ((97 <=? c) && (c <=? 122))%N eqn:E; [|reflexivity].
  apply andb_prop in E. destruct E as [E1 E2]. apply N.leb_le in E1. apply N.leb_le in E2.
  destruct (N.eqb_spec (c - 32) 13), (N.eqb_spec c 13); try reflexivity; lia.
Qed.

Definition rd_char (X : cstate) (c : N) : N :=
  if cstate_beq X CS_PARSE_COMMAND_ARGS then c else to_upper c.

Lemma rd_char_lf : forall X c, (rd_char X c =? ch_LF)%N = (c =? ch_LF)%N.
Proof. intros X c. unfold rd_char. destruct (cstate_beq X _); [reflexivity | apply to_upper_lf]. Qed.
Lemma rd_char_cr : forall X c, (rd_char X c =? ch_CR)%N = (c =? ch_CR)%N.
Proof. intros X c. unfold rd_char. destruct (cstate_beq X _); [reflexivity | apply to_upper_cr]. Qed.

(* ================================================================== *)
(* 2. the invariant tying the control state to the consumed bytes      *)
(* ================================================================== *)

(* K c seen: the command machine is idle exactly when the bytes consumed since the last LF are
   all CR; in the lookup states the flag is the complement of "last byte was LF" *)
Definition K (c : ctl) (seen : bool) : Prop :=
  match ck c with
  | CS_IDLE => seen = false
  | CS_ERROR | CS_PARSE_PREFIX | CS_PARSE_COMMAND_CHAR | CS_WAIT_READ_ACK | CS_WAIT_TEST_ACK
  | CS_PARSE_COMMAND_ARGS | CS_UPDATE_COMMAND_STATE => seen = true
  | CS_SEARCH_COMMAND | CS_COMMAND_FOUND => seen = negb (clf c)
  | _ => seen = false
  end.

Definition P (c : ctl) (bs : list N) : Prop :=
  K c (seen_after false bs) /\ gl c = nonblank_lines false bs.

Lemma K_heff : forall c c1 b, heff c c1 -> K c b -> K c1 b.
Proof. intros c c1 b [-> | [_ [z ->]]] H; exact H. Qed.
Lemma gl_heff : forall c c1, heff c c1 -> gl c1 = gl c.
Proof. intros c c1 [-> | [_ [z ->]]]; reflexivity. Qed.

(* the event machine never touches the fields K and the counters depend on *)
Lemma uns_next_frame : forall c c' r, uns_next c c' r ->
  ck c' = ck c /\ clf c' = clf c /\ gl c' = gl c /\ gs c' = gs c /\ gr c' = gr c.
Proof.
  intros c c' r H. dctl c. destruct u0; cbn in H; unfrel.
  all: repeat (progress (unfrel; decomp; cbn in * )).
  all: try discriminate.
  all: unfa; cbn; auto.
Qed.

Lemma K_same : forall c c' b, ck c' = ck c -> clf c' = clf c -> K c b -> K c' b.
Proof. intros c c' b E1 E2 H. unfold K in *. rewrite E1, E2. exact H. Qed.

Lemma P_uns : forall c c' r bs, uns_next c c' r -> P c bs -> P c' bs.
Proof.
  intros c c' r bs H [HK HG]. destruct (uns_next_frame _ _ _ H) as (E1 & E2 & E3 & _).
  split; [eapply K_same; eassumption | congruence].
Qed.

Lemma P_heff : forall c c1 bs, heff c c1 -> P c bs -> P c1 bs.
Proof.
  intros c c1 bs H [HK HG]. split; [eapply K_heff; eassumption | rewrite (gl_heff _ _ H); exact HG].
Qed.

Ltac unfK := unfold K, J, Jphase, settled, proc, result, flush_cont in *.

(* a step of the command machine in a state that does not read *)
Lemma K_cmd_nonreading : forall c c' r b,
  J c -> K c b -> reading_state (ck c) = false -> cmd_next False c c' r ->
  K c' b /\ gl c' = gl c.
Proof.
  intros c c' r b HJ HK HR H. dctl c. destruct k0; cbn in HR; try discriminate HR; cbn in H; unfrel.
  3: destruct ty; cbn in H.
  all: repeat (progress (unfrel; decomp; cbn in * )).
  all: try solve [unfK; unfa; cbn in *; intuition congruence].
  all: try solve [destruct lf; unfK; unfa; cbn in *; intuition congruence].
  all: try solve [destruct hold; unfK; unfa; cbn in *; intuition congruence].
  all: try solve [destruct wa; unfK; unfa; cbn in *; intuition congruence].
Qed.

(* the rows of the skeleton for the reading states other than CS_IDLE, with the LF test of the
   byte actually read made explicit *)
Definition rd_next (bad : Prop) (c : ctl) (lf : bool) (c' : ctl) : Prop :=
  let c1 := a_read lf c in
  match ck c with
  | CS_ERROR =>
       (lf = true /\ c' = a_ack c1) \/ (lf = false /\ (c' = w_ccr true c1 \/ c' = c1))
  | CS_PARSE_PREFIX =>
       (lf = false /\ c' = (c1 |> w_cty T_RUN |> w_ck CS_PARSE_COMMAND_CHAR)) \/
       (lf = true /\ c' = a_ack c1) \/
       (lf = false /\ (c' = w_ccr true c1 \/ c' = w_ck CS_ERROR c1))
  | CS_PARSE_COMMAND_CHAR =>
       (lf = true /\ (c' = w_ck CS_SEARCH_COMMAND c1 \/ c' = a_ack c1)) \/
       (lf = false /\ (c' = w_ccr true c1 \/ c' = w_ck CS_ERROR c1 \/
                       c' = (c1 |> w_cty T_READ |> w_ck CS_WAIT_READ_ACK) \/
                       c' = (c1 |> w_cty T_WRITE |> w_ck CS_SEARCH_COMMAND) \/
                       c' = w_ck CS_UPDATE_COMMAND_STATE c1))
  | CS_WAIT_READ_ACK =>
       (lf = true /\ c' = w_ck CS_SEARCH_COMMAND c1) \/
       (lf = false /\ (c' = w_ccr true c1 \/ c' = w_ck CS_ERROR c1))
  | CS_PARSE_COMMAND_ARGS =>
       (lf = true /\ ((bad /\ c' = c1) \/ c' = a_ack c1 \/ c' = w_ck CS_PARSE_WRITE_ARGS c1 \/ c' = w_ck CS_WRITE_LOOP c1)) \/
       (lf = false /\ (c' = c1 \/ c' = w_ccr true c1 \/ c' = w_ck CS_ERROR c1 \/
                       c' = (c1 |> w_cty T_TEST |> w_ck CS_WAIT_TEST_ACK)))
  | CS_WAIT_TEST_ACK =>
       (lf = true /\ ((bad /\ c' = c1) \/ c' = a_end ATCMD c1 \/ c' = a_set_fmt ATCMD false c1 \/
                      c' = a_set_loop ATCMD false c1 \/ c' = a_flush_after_ok ATCMD c1)) \/
       (lf = false /\ (c' = w_ccr true c1 \/ c' = w_ck CS_ERROR c1))
  | _ => False
  end.

(* reading a byte in one of those states: the line gets a non-CR byte or ends *)
Lemma K_rd_next : forall c lf c',
  K c true -> rd_next False c lf c' ->
  K c' (negb lf) /\ gl c' = (if lf then S (gl c) else gl c).
Proof.
  intros c lf c' HK H. dctl c. destruct k0; cbn in H; try contradiction.
  all: repeat (progress (decomp; cbn in * )).
  all: try solve [unfold K in *; unfa; cbn in *; auto].
Qed.

(* reading a byte while idle *)
Definition idle_next (c : ctl) (ch : N) (c' : ctl) : Prop :=
  let c1 := w_clf (ch =? ch_LF)%N c in
  if (ch =? ch_LF)%N || (ch =? ch_CR)%N then c' = c1
  else c' = w_ck CS_PARSE_PREFIX c1 \/ c' = w_ck CS_ERROR c1.

Lemma K_idle_next : forall c ch c',
  ck c = CS_IDLE -> idle_next c ch c' ->
  K c' (if (ch =? ch_LF)%N then false else negb (ch =? ch_CR)%N) /\ gl c' = gl c.
Proof.
  intros c ch c' Hk H. unfold idle_next in H. cbv zeta in H.
  destruct (ch =? ch_LF)%N eqn:E1; cbn [orb] in H.
  - subst c'. unfold K. cbn. rewrite Hk. auto.
  - destruct (ch =? ch_CR)%N eqn:E2; cbn [negb].
    + subst c'. unfold K. cbn. rewrite Hk. auto.
    + destruct H as [-> | ->]; unfold K; cbn; auto.
Qed.

(* ================================================================== *)
(* 3. the model obeys these rows                                        *)
(* ================================================================== *)

#[local] Hint Rewrite C_setk_index C_setk_partial C_setk_length C_setk_position C_setk_write_size
  C_setk_cmd C_setk_var C_setk_type C_setk_char C_setk_state C_setk_cr C_setk_hold C_setk_hold_exit
  C_setk_wbuf C_setk_wstate C_setk_wafter C_setk_implicit C_setu_state C_setu_index C_setu_position
  C_setu_cmd C_setu_var C_setu_type C_setu_wbuf C_setu_wstate C_setu_wafter C_setu_ring C_setu_tail
  C_setu_head C_setu_count C_set_cbuf C_set_ubuf C_set_mem C_set_dis_cmd C_set_dis_grp C_set_fault
  C_set_gL C_set_gS C_set_gR C_setg_pos C_setg_buf C_setg_var C_setg_index
  C_set_fault_flag C_put_cur C_apply_edit C_apply_poke C_pokes
  C_start_flush_c C_start_flush_raw_c C_start_flush_u C_ack_ok C_ack_error
  C_reset_state C_unsolicited_reset_state C_enable_hold_state C_end_with_error C_end_with_ok
  C_set_loop_state C_start_flush_after_ok C_start_flush_after C_prepare_search_command
  C_prepare_parse_command : ctl1.

Ltac crw1 := autorewrite with ctl1 in *.
Ltac chars1 :=
  repeat match goal with H : (_ =? _)%N = true |- _ => apply N.eqb_eq in H end; subst.
Ltac contra1 := solve [chars1; discriminate].
Ltac body_tac1 := repeat (cbn [orb andb negb]; brk); try contra1; crw1; disj.

Section Model.
Variable D : desc.
Variables ioS muS hS : Type.
Variable io_read : ioS -> ioS * option N.
Variable io_write : ioS -> N -> ioS * bool.
Variable mu_lock : muS -> muS * bool.
Variable mu_unlock : muS -> muS * bool.
Variable h_call : hS -> hreq -> hS * hres.
Hypothesis no_uhold : forall hs q, unsol_req q = true -> r_code (snd (h_call hs q)) <> RC_HOLD.

Notation world := (Fsm.world ioS muS hS).
Notation mkWorld := (Fsm.mkWorld ioS muS hS).
Notation st := (Fsm.st ioS muS hS).
Notation io := (Fsm.io ioS muS hS).
Notation mu := (Fsm.mu ioS muS hS).
Notation tr := (Fsm.tr ioS muS hS).
Notation set_st := (Fsm.set_st ioS muS hS).
Notation set_io := (Fsm.set_io ioS muS hS).
Notation set_mu := (Fsm.set_mu ioS muS hS).
Notation logw := (Fsm.logw ioS muS hS).
Notation reading := (Fsm.reading ioS muS hS io_read).
Notation bracket := (Fsm.bracket D ioS muS hS mu_lock mu_unlock).
Notation cmd_service := (Fsm.cmd_service D ioS muS hS io_read io_write mu_lock mu_unlock h_call).
Notation unsolicited_events_service := (Fsm.unsolicited_events_service D ioS muS hS io_write mu_lock mu_unlock h_call).
Notation service_body := (Fsm.service_body D ioS muS hS io_read io_write mu_lock mu_unlock h_call).
Notation do_op := (Fsm.do_op D ioS muS hS io_read io_write mu_lock mu_unlock h_call).
Notation step := (Fsm.step D ioS muS hS io_read io_write mu_lock mu_unlock h_call).
Notation run := (Fsm.run D ioS muS hS io_read io_write mu_lock mu_unlock h_call).

(* the state handed to the body of a reading state: char stored, gL updated *)
Definition rd_pre (ch : N) (s : state) : state :=
  let ch' := rd_char (k_state (k s)) ch in
  let s1 := setk_char ch' s in
  if (ch' =? ch_LF)%N && negb (cstate_beq (k_state (k s)) CS_IDLE) then set_gL (S (gL s1)) s1 else s1.

Lemma reading_eq : forall (w : world) body,
  reading w body =
  let (io', r) := io_read (io w) in
  let w1 := logw (ERd r) (set_io io' w) in
  match r with
  | None => (w1, ST_OK)
  | Some ch => (set_st (body (rd_char (k_state (k (st w))) ch) (rd_pre ch (st w))) w1, ST_BUSY)
  end.
Proof.
  intros w body. unfold Fsm.reading, Fsm.read_cmd_char, rd_pre, rd_char.
  destruct (io_read (io w)) as [io' [ch|]]; [|reflexivity].
  cbn [Fsm.st Fsm.logw Fsm.set_io].
  destruct ((_ =? ch_LF)%N && _); reflexivity.
Qed.

Lemma ctl_rd_pre : forall ch s,
  ctl_of (rd_pre ch s) = a_read (rd_char (k_state (k s)) ch =? ch_LF)%N (ctl_of s).
Proof.
  intros ch s. unfold rd_pre, a_read. cbv zeta.
  change (ck (ctl_of s)) with (k_state (k s)).
  destruct (_ && _); reflexivity.
Qed.

(* one command-machine step in a reading state, with the byte it consumed *)
Lemma cmd_service_reading : forall w : world,
  reading_state (k_state (k (st w))) = true ->
  (exists io', io_read (io w) = (io', None) /\ io (fst (cmd_service w)) = io' /\
     st (fst (cmd_service w)) = st w /\ tr (fst (cmd_service w)) = ERd None :: tr w) \/
  (exists io' ch, io_read (io w) = (io', Some ch) /\ io (fst (cmd_service w)) = io' /\
     tr (fst (cmd_service w)) = ERd (Some ch) :: tr w /\
     let ch' := rd_char (k_state (k (st w))) ch in
     let c := ctl_of (st w) in let c' := ctl_of (st (fst (cmd_service w))) in
     if cstate_beq (k_state (k (st w))) CS_IDLE then idle_next c ch' c'
     else rd_next (fault (st (fst (cmd_service w))) = true) c (ch' =? ch_LF)%N c').
Proof.
  intros w HR. unfold Fsm.cmd_service.
  destruct (k_state (k (st w))) eqn:Hk; cbn in HR; try discriminate HR; clear HR;
    cbn [cstate_beq];
    [ unfold Fsm.error_state | unfold Fsm.process_idle_state | unfold Fsm.parse_prefix
    | unfold Fsm.parse_command | unfold Fsm.wait_read_acknowledge | unfold Fsm.parse_command_args
    | unfold Fsm.wait_test_acknowledge ];
    rewrite reading_eq; rewrite Hk;
    destruct (io_read (io w)) as [io' [ch|]]; cbv zeta;
    try (left; exists io'; repeat split; reflexivity);
    right; exists io', ch; (split; [reflexivity|]); (split; [reflexivity|]); (split; [reflexivity|]);
    cbn [fst Fsm.st Fsm.set_st Fsm.logw Fsm.set_io];
    pose proof (ctl_rd_pre ch (st w)) as Hc; rewrite Hk in Hc;
    set (s1 := rd_pre ch (st w)) in *; clearbody s1;
    set (ch' := rd_char _ ch) in *; clearbody ch'.
  - (* CS_ERROR *)
    unfold rd_next. change (ck (ctl_of (st w))) with (k_state (k (st w))). rewrite Hk. cbv zeta.
    rewrite <- Hc. destruct (ch' =? ch_LF)%N eqn:ELF; body_tac1.
  - (* CS_IDLE *)
    unfold idle_next. cbv zeta.
    assert (Hc' : ctl_of s1 = w_clf (ch' =? ch_LF)%N (ctl_of (st w))).
    { rewrite Hc. unfold a_read. change (ck (ctl_of (st w))) with (k_state (k (st w))). rewrite Hk.
      cbn [cstate_beq negb]. rewrite andb_false_r. destruct (ctl_of (st w)); reflexivity. }
    rewrite <- Hc'.
    destruct (ch' =? ch_A)%N eqn:EA.
    + apply N.eqb_eq in EA. subst ch'.
      change (ch_A =? ch_LF)%N with false. change (ch_A =? ch_CR)%N with false. cbn [orb].
      left. crw1. reflexivity.
    + destruct ((ch' =? ch_LF)%N || (ch' =? ch_CR)%N); [reflexivity|]. right. crw1. reflexivity.
  - (* CS_PARSE_PREFIX *)
    unfold rd_next. change (ck (ctl_of (st w))) with (k_state (k (st w))). rewrite Hk. cbv zeta.
    rewrite <- Hc. destruct (ch' =? ch_LF)%N eqn:ELF; body_tac1.
  - (* CS_PARSE_COMMAND_CHAR *)
    unfold rd_next. change (ck (ctl_of (st w))) with (k_state (k (st w))). rewrite Hk. cbv zeta.
    rewrite <- Hc. destruct (ch' =? ch_LF)%N eqn:ELF; body_tac1.
  - (* CS_WAIT_READ_ACK *)
    unfold rd_next. change (ck (ctl_of (st w))) with (k_state (k (st w))). rewrite Hk. cbv zeta.
    rewrite <- Hc. destruct (ch' =? ch_LF)%N eqn:ELF; body_tac1.
  - (* CS_PARSE_COMMAND_ARGS *)
    unfold rd_next. change (ck (ctl_of (st w))) with (k_state (k (st w))). rewrite Hk. cbv zeta.
    rewrite <- Hc. destruct (ch' =? ch_LF)%N eqn:ELF; body_tac1.
  - (* CS_WAIT_TEST_ACK *)
    unfold rd_next. change (ck (ctl_of (st w))) with (k_state (k (st w))). rewrite Hk. cbv zeta.
    rewrite <- Hc. destruct (ch' =? ch_LF)%N eqn:ELF.
    + left. split; [reflexivity|]. apply spft_strong.
    + body_tac1.
Qed.


(* ================================================================== *)
(* 4. one operation of the model                                        *)
(* ================================================================== *)

Local Notation usim := (uns_service_sim D ioS muS hS io_write mu_lock mu_unlock h_call no_uhold).
Local Notation csim := (cmd_service_sim D ioS muS hS io_read io_write mu_lock mu_unlock h_call no_uhold).
Local Notation osim := (do_op_sim D ioS muS hS io_read io_write mu_lock mu_unlock h_call no_uhold).
Local Notation uevs := (uns_service_evs D ioS muS hS io_write mu_lock mu_unlock h_call).
Local Notation cevs := (cmd_service_evs D ioS muS hS io_read io_write mu_lock mu_unlock h_call).

Lemma op_eq_dec_service : forall o : op, {o = OService} + {o <> OService}.
Proof. destruct o; try (right; discriminate); left; reflexivity. Qed.

Lemma nord_one : forall e, (forall r, e <> ERd r) -> nord [e].
Proof. intros e H r [E|[]]. exact (H r E). Qed.

(* lock; body; unlock: what it adds around the body *)
Lemma bracket_shape : forall (w : world) body,
  (st (fst (bracket w body)) = st w /\ exists pre, tr (fst (bracket w body)) = pre ++ tr w /\ nord pre) \/
  (exists (w1 : world) pre post, st w1 = st w /\ tr w1 = pre ++ tr w /\ nord pre /\ nord post /\
     st (fst (bracket w body)) = st (fst (body w1)) /\
     tr (fst (bracket w body)) = post ++ tr (fst (body w1))).
Proof.
  intros w body. unfold Fsm.bracket. destruct (d_mutex D).
  - destruct (mu_lock (mu w)) as [m1 ok]. destruct ok; cbn [negb].
    + right. exists (logw (ELock true) (set_mu m1 w)), [ELock true].
      destruct (body (logw (ELock true) (set_mu m1 w))) as [w2 r] eqn:EB.
      destruct (mu_unlock (mu w2)) as [m2 ok2]. exists [EUnlock ok2].
      split; [reflexivity|]. split; [reflexivity|].
      split; [apply nord_one; intros r0; discriminate|].
      split; [apply nord_one; intros r0; discriminate|].
      destruct ok2; cbn [negb fst Fsm.st Fsm.tr Fsm.logw Fsm.set_mu]; split; reflexivity.
    + left. cbn [fst Fsm.st Fsm.tr Fsm.logw Fsm.set_mu]. split; [reflexivity|].
      exists [ELock false]. split; [reflexivity|]. apply nord_one; intros r0; discriminate.
  - right. exists w, [], []. repeat split; try reflexivity; apply nord_nil.
Qed.

(* new events of one operation: it is the command machine's step inside cat_service, taken in a
   reading state, that consumes input; nothing else does *)
Lemma service_body_shape : forall w : world,
  let w1 := fst (unsolicited_events_service w) in
  exists e1 e2, tr w1 = e1 ++ tr w /\ nord e1 /\
    st (fst (service_body w)) = st (fst (cmd_service w1)) /\
    tr (fst (service_body w)) = tr (fst (cmd_service w1)) /\
    tr (fst (cmd_service w1)) = e2 ++ tr w1 /\ cmd_evs (st w1) e2.
Proof.
  intros w w1. subst w1. unfold Fsm.service_body.
  destruct (uevs w) as [e1 [T1 U]].
  destruct (unsolicited_events_service w) as [w1 us]. cbn [fst] in *.
  destruct (cevs w1) as [e2 [T2 C]].
  destruct (cmd_service w1) as [w2 s]. cbn [fst] in *.
  exists e1, e2. split; [exact T1|]. split; [intros r; eapply uns_evs_rd; exact U|].
  destruct (negb (us =? ST_OK)%Z || negb (ustate_beq (u_state (u (st w2))) US_IDLE)); cbn [fst]; auto.
Qed.

Definition WI (w : world) : Prop := P (ctl_of (st w)) (consumed (tr w)).

Lemma WI_uns : forall w : world, WI w -> WI (fst (unsolicited_events_service w)).
Proof.
  intros w H. unfold WI in *. destruct (uevs w) as [e1 [T1 U]].
  rewrite T1, consumed_app_nord by (intros r; eapply uns_evs_rd; exact U).
  eapply P_uns; [apply usim | exact H].
Qed.

Lemma P_snoc : forall c bs ch c',
  P c bs ->
  K c' (let b := seen_after false bs in if (ch =? ch_LF)%N then false else b || negb (ch =? ch_CR)%N) ->
  gl c' = (if (ch =? ch_LF)%N && seen_after false bs then S (gl c) else gl c) ->
  P c' (bs ++ [ch]).
Proof.
  intros c bs ch c' [HK HG] HK' HG'. unfold P.
  rewrite seen_after_app, nonblank_lines_app. cbn [seen_after nonblank_lines].
  split.
  - destruct (ch =? ch_LF)%N; exact HK'.
  - rewrite HG', HG. destruct (ch =? ch_LF)%N; cbn [andb]; [destruct (seen_after false bs)|]; lia.
Qed.

Lemma WI_cmd : forall w : world,
  J (ctl_of (st w)) -> WI w -> fault (st (fst (cmd_service w))) = false -> WI (fst (cmd_service w)).
Proof.
  intros w HJ H Hf. unfold WI in *.
  destruct (reading_state (k_state (k (st w)))) eqn:HR.
  - destruct (cmd_service_reading w HR) as [(io' & _ & _ & Es & Et) | (io' & ch & _ & _ & Et & Hn)].
    + rewrite Es, Et, consumed_cons. cbn [rd_byte]. rewrite app_nil_r. exact H.
    + rewrite Et, consumed_cons. cbn [rd_byte]. cbv zeta in Hn.
      pose proof H as HP. destruct H as [HK HG].
      destruct (cstate_beq (k_state (k (st w))) CS_IDLE) eqn:EI.
      * assert (Hk : ck (ctl_of (st w)) = CS_IDLE).
        { change (ck (ctl_of (st w))) with (k_state (k (st w))).
          destruct (k_state (k (st w))); try discriminate EI; reflexivity. }
        destruct (K_idle_next _ _ _ Hk Hn) as [K' G'].
        assert (Es : seen_after false (consumed (tr w)) = false).
        { unfold K in HK. rewrite Hk in HK. exact HK. }
        rewrite rd_char_lf, rd_char_cr in K'.
        eapply P_snoc; [exact HP | |].
        -- cbv zeta. rewrite Es. cbn [orb]. exact K'.
        -- rewrite Es, andb_false_r. exact G'.
      * assert (Hs : seen_after false (consumed (tr w)) = true).
        { unfold K in HK. change (ck (ctl_of (st w))) with (k_state (k (st w))) in HK.
          destruct (k_state (k (st w))); try discriminate HR; try discriminate EI; exact HK. }
        rewrite Hs in HK.
        assert (Hn' : rd_next False (ctl_of (st w))
                        (rd_char (k_state (k (st w))) ch =? ch_LF)%N
                        (ctl_of (st (fst (cmd_service w))))).
        { revert Hn. unfold rd_next. cbv zeta. rewrite Hf.
          destruct (ck (ctl_of (st w))); try exact (fun x => x);
            intros [[E [[Hb _] | Hx]] | Hx]; try discriminate Hb; auto. }
        destruct (K_rd_next _ _ _ HK Hn') as [K' G'].
        rewrite rd_char_lf in K', G'.
        eapply P_snoc; [exact HP | |].
        -- cbv zeta. rewrite Hs. cbn [orb]. destruct (ch =? ch_LF)%N; exact K'.
        -- rewrite Hs, andb_true_r. exact G'.
  - destruct (cevs w) as [e2 [T2 C]].
    rewrite T2, consumed_app_nord.
    2:{ intros r Hin. pose proof (cmd_evs_rd _ _ _ C Hin) as X. rewrite HR in X. discriminate X. }
    pose proof (csim w) as S. apply (cmd_next_weaken _ False) in S; [|rewrite Hf; discriminate].
    destruct H as [HK HG].
    destruct (K_cmd_nonreading _ _ _ _ HJ HK HR S) as [K' G'].
    split; [exact K' | rewrite G'; exact HG].
Qed.

Lemma WI_service_body : forall w : world,
  J (ctl_of (st w)) -> WI w -> fault (st (fst (service_body w))) = false -> WI (fst (service_body w)).
Proof.
  intros w HJ H Hf.
  destruct (service_body_shape w) as (e1 & e2 & _ & _ & Es & Et & _ & _).
  unfold WI. rewrite Es, Et. rewrite Es in Hf.
  apply WI_cmd; [| apply WI_uns; exact H | exact Hf].
  eapply J_uns_next; [exact HJ | apply usim].
Qed.

Lemma WI_ext : forall w w' : world, st w' = st w -> consumed (tr w') = consumed (tr w) -> WI w -> WI w'.
Proof. intros w w' E1 E2 H. unfold WI in *. rewrite E1, E2. exact H. Qed.

(* operations other than cat_service log no read *)
Lemma other_op_nord : forall (w : world) o, o <> OService ->
  exists evs, tr (fst (do_op w o)) = evs ++ tr w /\ nord evs.
Proof.
  intros w o Ho.
  assert (B : forall body : world -> world * Z, (forall w0, tr (fst (body w0)) = tr w0) ->
              exists evs, tr (fst (bracket w body)) = evs ++ tr w /\ nord evs).
  { intros body Hb. destruct (bracket_evs D ioS muS hS mu_lock mu_unlock w body Hb) as [evs [T I]].
    exists evs. split; [exact T | apply nord_inner; exact I]. }
  destruct o; cbn [Fsm.do_op]; try (exists []; split; [reflexivity | apply nord_nil]).
  - contradiction Ho; reflexivity.
  - unfold Fsm.api_trigger. apply B. intros w0. destruct (push_unsolicited_cmd D (st w0) ci t); reflexivity.
  - unfold Fsm.api_hold_exit. apply B. intros w0. destruct (hold_exit (st w0) status); reflexivity.
  - unfold Fsm.api_is_busy. apply B. reflexivity.
  - unfold Fsm.api_is_hold. apply B. reflexivity.
  - unfold Fsm.api_is_full. apply B. reflexivity.
Qed.

Lemma WI_do_op : forall (w : world) o,
  J (ctl_of (st w)) -> WI w -> fault (st (fst (do_op w o))) = false -> WI (fst (do_op w o)).
Proof.
  intros w o HJ H Hf.
  destruct (op_eq_dec_service o) as [->|Ho].
  - cbn [Fsm.do_op] in *. unfold Fsm.api_service in *.
    destruct (bracket_shape w service_body) as [[Es [pre [Et Hp]]] | (w1 & pre & post & E1 & T1 & Hp & Hq & Es & Et)].
    + eapply WI_ext; [exact Es | rewrite Et; apply consumed_app_nord; exact Hp | exact H].
    + assert (H1 : WI w1) by (eapply WI_ext; [exact E1 | rewrite T1; apply consumed_app_nord; exact Hp | exact H]).
      rewrite Es in Hf.
      assert (H2 : WI (fst (service_body w1))) by (apply WI_service_body; [rewrite E1; exact HJ | exact H1 | exact Hf]).
      eapply WI_ext; [exact Es | rewrite Et; apply consumed_app_nord; exact Hq | exact H2].
  - destruct (other_op_nord w o Ho) as [evs [T Hn]].
    unfold WI. rewrite T, consumed_app_nord by exact Hn.
    pose proof (osim w o) as S. unfold op_next in S.
    destruct o; try (rewrite S; exact H); try (contradiction Ho; reflexivity).
    eapply P_heff; [exact S | exact H].
Qed.


Lemma step_tr : forall (w : world) o, tr (step w o) = ERet o (snd (do_op w o)) :: tr (fst (do_op w o)).
Proof. intros w o. unfold Fsm.step. destruct (do_op w o) as [w' r]. reflexivity. Qed.

Local Notation st_step := (Lemmas_Ctl.st_step D ioS muS hS io_read io_write mu_lock mu_unlock h_call).
Local Notation run_snoc := (Lemmas_Ctl.run_snoc D ioS muS hS io_read io_write mu_lock mu_unlock h_call).

Lemma WI_step : forall (w : world) o,
  J (ctl_of (st w)) -> WI w -> fault (st (step w o)) = false -> WI (step w o).
Proof.
  intros w o HJ H Hf. rewrite st_step in Hf.
  eapply WI_ext; [apply st_step | | apply WI_do_op; eassumption].
  rewrite step_tr, consumed_cons. apply app_nil_r.
Qed.

Lemma WI_init : forall m x mx h, WI (mkWorld (init_state D m) x mx h []).
Proof. intros. unfold WI, P, K. cbn. auto. Qed.

(* ================================================================== *)
(* 5. whole histories                                                   *)
(* ================================================================== *)
Notation reach m x mx h ops := (run (mkWorld (init_state D m) x mx h []) ops).

Theorem WI_reachable : forall m x mx h ops,
  fault (st (reach m x mx h ops)) = false -> WI (reach m x mx h ops).
Proof.
  intros m x mx h ops. induction ops as [|o ops IH] using rev_ind; intros Hf.
  - apply WI_init.
  - rewrite run_snoc in *.
    assert (Hf0 : fault (st (reach m x mx h ops)) = false).
    { eapply (fault_step_back D ioS muS hS io_read io_write mu_lock mu_unlock h_call); exact Hf. }
    apply WI_step; [| apply IH; exact Hf0 | exact Hf].
    exact (J_reachable D ioS muS hS io_read io_write mu_lock mu_unlock h_call no_uhold m x mx h ops Hf0).
Qed.

(* P1: the ghost counter gL is the number of non-blank lines in the bytes actually consumed *)
Theorem C01_gL_counts_lines_nofault : forall m x mx h ops,
  let w := reach m x mx h ops in
  fault (st w) = false -> gL (st w) = nonblank_lines false (consumed (tr w)).
Proof. intros m x mx h ops w Hf. exact (proj2 (WI_reachable m x mx h ops Hf)). Qed.

(* ... and the command machine is idle exactly when the line being consumed is blank so far *)
Theorem C01_idle_iff_blank_nofault : forall m x mx h ops,
  let w := reach m x mx h ops in
  fault (st w) = false -> reading_state (k_state (k (st w))) = true ->
  (k_state (k (st w)) = CS_IDLE <-> seen_after false (consumed (tr w)) = false).
Proof.
  intros m x mx h ops w Hf HR. pose proof (proj1 (WI_reachable m x mx h ops Hf)) as HK.
  fold w in HK. unfold K in HK. change (ck (ctl_of (st w))) with (k_state (k (st w))) in HK.
  destruct (k_state (k (st w))); try discriminate HR; rewrite HK; split; intros E; try discriminate E; reflexivity.
Qed.

(* P3: a step whose new events contain a read is a cat_service call taken while the command
   machine is in a reading state *)
Theorem step_read_reading : forall (w : world) o evs r,
  tr (step w o) = evs ++ tr w -> In (ERd r) evs ->
  o = OService /\ reading_state (k_state (k (st w))) = true.
Proof.
  intros w o evs r T Hin. rewrite step_tr in T.
  destruct (op_eq_dec_service o) as [->|Ho].
  - split; [reflexivity|]. cbn [Fsm.do_op] in T. unfold Fsm.api_service in T.
    destruct (bracket_shape w service_body) as [[_ [pre [Et Hp]]] | (w1 & pre & post & E1 & T1 & Hp & Hq & _ & Et)].
    + rewrite Et in T. change (ERet OService ?x :: pre ++ tr w) with ((ERet OService x :: pre) ++ tr w) in T.
      apply app_inv_tail in T. subst evs. destruct Hin as [Hin|Hin]; [discriminate Hin|].
      destruct (Hp r Hin).
    + destruct (service_body_shape w1) as (e1 & e2 & Tu & Hu & _ & Ts & Tc & C).
      rewrite Et, Ts, Tc, Tu, T1 in T.
      assert (T' : (ERet OService (snd (bracket w service_body)) :: post ++ e2 ++ e1 ++ pre) ++ tr w = evs ++ tr w).
      { rewrite <- T. cbn [app]. rewrite <- !app_assoc. reflexivity. }
      apply app_inv_tail in T'. subst evs.
      destruct Hin as [Hin|Hin]; [discriminate Hin|].
      apply in_app_or in Hin. destruct Hin as [Hin|Hin]; [destruct (Hq r Hin)|].
      apply in_app_or in Hin. destruct Hin as [Hin|Hin].
      * pose proof (cmd_evs_rd _ _ _ C Hin) as X.
        destruct (uns_next_frame _ _ _ (usim w1)) as (E & _).
        change (ck (ctl_of ?s)) with (k_state (k s)) in E. rewrite E, E1 in X. exact X.
      * apply in_app_or in Hin. destruct Hin as [Hin|Hin]; [destruct (Hu r Hin) | destruct (Hp r Hin)].
  - exfalso. destruct (other_op_nord w o Ho) as [evs' [T' Hn]]. rewrite T' in T.
    change (ERet o ?x :: evs' ++ tr w) with ((ERet o x :: evs') ++ tr w) in T.
    apply app_inv_tail in T. subst evs. destruct Hin as [Hin|Hin]; [discriminate Hin|]. exact (Hn r Hin).
Qed.

Theorem C01_read_only_when_settled_nofault : forall m x mx h ops o evs r,
  let w := reach m x mx h ops in
  fault (st w) = false ->
  tr (step w o) = evs ++ tr w -> In (ERd r) evs ->
  gL (st w) = gR (st w) /\ gS (st w) = gR (st w).
Proof.
  intros m x mx h ops o evs r w Hf T Hin.
  destruct (step_read_reading w o evs r T Hin) as [_ HR].
  apply J_reading_settled; [|exact HR].
  exact (J_reachable D ioS muS hS io_read io_write mu_lock mu_unlock h_call no_uhold m x mx h ops Hf).
Qed.

(* at the moment any input byte is requested, every non-blank line consumed so far has had its
   result code completely emitted *)
Theorem C01_no_read_ahead_nofault : forall m x mx h ops o evs r,
  let w := reach m x mx h ops in
  fault (st w) = false ->
  tr (step w o) = evs ++ tr w -> In (ERd r) evs ->
  gR (st w) = nonblank_lines false (consumed (tr w)) /\ gS (st w) = gR (st w).
Proof.
  intros m x mx h ops o evs r w Hf T Hin.
  destruct (C01_read_only_when_settled_nofault m x mx h ops o evs r Hf T Hin) as [A B].
  split; [|exact B]. fold w in A. rewrite <- A. exact (C01_gL_counts_lines_nofault m x mx h ops Hf).
Qed.

End Model.

(* ================================================================== *)
(* 6. the same in the supported domain: no fault hypothesis             *)
(* ================================================================== *)
Section InDomain.
Variable D : desc.
Variables ioS muS hS : Type.
Variable io_read : ioS -> ioS * option N.
Variable io_write : ioS -> N -> ioS * bool.
Variable mu_lock : muS -> muS * bool.
Variable mu_unlock : muS -> muS * bool.
Variable h_call : hS -> hreq -> hS * hres.
Hypothesis no_uhold : forall hs q, unsol_req q = true -> r_code (snd (h_call hs q)) <> RC_HOLD.
Hypothesis handlers_valid : forall hs q, Forall (valid_icall D) (r_calls (snd (h_call hs q))).

Notation st := (Fsm.st ioS muS hS).
Notation tr := (Fsm.tr ioS muS hS).
Notation step := (Fsm.step D ioS muS hS io_read io_write mu_lock mu_unlock h_call).
Notation run := (Fsm.run D ioS muS hS io_read io_write mu_lock mu_unlock h_call).
Notation reach m x mx h ops := (run (mkWorld ioS muS hS (init_state D m) x mx h []) ops).
Notation JD := (J_in_domain D ioS muS hS io_read io_write mu_lock mu_unlock h_call no_uhold handlers_valid).

Theorem C01_gL_counts_lines_proof : forall m x mx h ops,
  wf_desc D m -> Forall (valid_op D) ops ->
  let w := reach m x mx h ops in
  gL (st w) = nonblank_lines false (consumed (tr w)).
Proof.
  intros m x mx h ops Hwf Hops w. destruct (JD m x mx h ops Hwf Hops) as [Hf _].
  exact (C01_gL_counts_lines_nofault D ioS muS hS io_read io_write mu_lock mu_unlock h_call no_uhold m x mx h ops Hf).
Qed.

Theorem C01_idle_iff_blank_proof : forall m x mx h ops,
  wf_desc D m -> Forall (valid_op D) ops ->
  let w := reach m x mx h ops in
  reading_state (k_state (k (st w))) = true ->
  (k_state (k (st w)) = CS_IDLE <-> seen_after false (consumed (tr w)) = false).
Proof.
  intros m x mx h ops Hwf Hops w. destruct (JD m x mx h ops Hwf Hops) as [Hf _].
  exact (C01_idle_iff_blank_nofault D ioS muS hS io_read io_write mu_lock mu_unlock h_call no_uhold m x mx h ops Hf).
Qed.

Theorem C01_read_only_when_settled_proof : forall m x mx h ops o evs r,
  wf_desc D m -> Forall (valid_op D) ops ->
  let w := reach m x mx h ops in
  tr (step w o) = evs ++ tr w -> In (ERd r) evs ->
  gL (st w) = gR (st w) /\ gS (st w) = gR (st w).
Proof.
  intros m x mx h ops o evs r Hwf Hops w. destruct (JD m x mx h ops Hwf Hops) as [Hf _].
  exact (C01_read_only_when_settled_nofault D ioS muS hS io_read io_write mu_lock mu_unlock h_call no_uhold m x mx h ops o evs r Hf).
Qed.

Theorem C01_no_read_ahead_proof : forall m x mx h ops o evs r,
  wf_desc D m -> Forall (valid_op D) ops ->
  let w := reach m x mx h ops in
  tr (step w o) = evs ++ tr w -> In (ERd r) evs ->
  gR (st w) = nonblank_lines false (consumed (tr w)) /\ gS (st w) = gR (st w).
Proof.
  intros m x mx h ops o evs r Hwf Hops w. destruct (JD m x mx h ops Hwf Hops) as [Hf _].
  exact (C01_no_read_ahead_nofault D ioS muS hS io_read io_write mu_lock mu_unlock h_call no_uhold m x mx h ops o evs r Hf).
Qed.
End InDomain.


(* ================================================================== *)
(* 7. the scripted environment: the consumed bytes are a prefix of the  *)
(*    input, and every line is eventually answered                      *)
(* ================================================================== *)
Section Scripted.
Variable D : desc.

Local Notation st := (Fsm.st sio smu shs).
Local Notation io := (Fsm.io sio smu shs).
Local Notation hs := (Fsm.hs sio smu shs).
Local Notation tr := (Fsm.tr sio smu shs).
Local Notation s_cmd := (Fsm.cmd_service D sio smu shs s_read s_write s_lock s_unlock s_call).
Local Notation s_uns := (Fsm.unsolicited_events_service D sio smu shs s_write s_lock s_unlock s_call).
Local Notation s_body := (Fsm.service_body D sio smu shs s_read s_write s_lock s_unlock s_call).
Local Notation s_bracket := (Fsm.bracket D sio smu shs s_lock s_unlock).
Local Notation s_do_op := (Fsm.do_op D sio smu shs s_read s_write s_lock s_unlock s_call).
Local Notation s_step := (Fsm.step D sio smu shs s_read s_write s_lock s_unlock s_call).
Local Notation s_run := (Fsm.run D sio smu shs s_read s_write s_lock s_unlock s_call).

(* what has been consumed, followed by what is still queued, is the input *)
Definition QI (input : list N) (w : sworld) : Prop := consumed (tr w) ++ inq (io w) = input.

Lemma QI_ext : forall input (w w' : sworld),
  consumed (tr w') = consumed (tr w) -> inq (io w') = inq (io w) -> QI input w -> QI input w'.
Proof. intros input w w' E1 E2 H. unfold QI in *. rewrite E1, E2. exact H. Qed.

Lemma QI_uns : forall input w, QI input w -> QI input (fst (s_uns w)).
Proof.
  intros input w H. eapply QI_ext; [| apply Lemmas_C12.uns_inq | exact H].
  destruct (uns_service_evs D sio smu shs s_write s_lock s_unlock s_call w) as [e1 [T1 U]].
  rewrite T1. apply consumed_app_nord. intros r. eapply uns_evs_rd. exact U.
Qed.

Lemma QI_cmd : forall input w, QI input w -> QI input (fst (s_cmd w)).
Proof.
  intros input w H.
  destruct (reading_state (k_state (k (st w)))) eqn:HR.
  - destruct (cmd_service_reading D sio smu shs s_read s_write s_lock s_unlock s_call w HR)
      as [(io' & Er & Ei & _ & Et) | (io' & ch & Er & Ei & Et & _)].
    + eapply QI_ext; [| | exact H].
      * rewrite Et, consumed_cons. apply app_nil_r.
      * rewrite Ei. exact (Lemmas_C12.s_read_none _ _ Er).
    + unfold QI in *. rewrite Et, consumed_cons, Ei. cbn [rd_byte].
      rewrite (Lemmas_C12.s_read_some _ _ _ Er) in H. rewrite <- app_assoc. exact H.
  - eapply QI_ext; [| | exact H].
    + destruct (cmd_service_evs D sio smu shs s_read s_write s_lock s_unlock s_call w) as [e2 [T2 C]].
      rewrite T2. apply consumed_app_nord.
      intros r Hin. pose proof (cmd_evs_rd _ _ _ C Hin) as X. rewrite HR in X. discriminate X.
    + destruct (cstate_eq_dec (k_state (k (st w))) CS_FLUSH) as [EF|NF].
      * unfold Fsm.cmd_service. rewrite EF. unfold Fsm.process_io_write.
        destruct (wbuf_char _ _ _) as [ch|]; [|reflexivity].
        destruct (ch =? 0)%N; [reflexivity|].
        pose proof (Lemmas_C12.s_write_inq (io w) ch) as Q.
        destruct (s_write (io w) ch) as [io' ok]. cbn [fst] in Q.
        destruct ok; cbn [fst Fsm.busy Fsm.upd_st Fsm.set_st Fsm.io Fsm.logw Fsm.set_io]; exact Q.
      * destruct (Lemmas_C12.C12_no_io_cmd D sio smu shs s_read s_write s_lock s_unlock s_call w (io w) HR NF) as [_ E].
        rewrite E. reflexivity.
Qed.

Lemma QI_body : forall input w, QI input w -> QI input (fst (s_body w)).
Proof.
  intros input w H. unfold Fsm.service_body.
  pose proof (QI_uns input w H) as H1. destruct (s_uns w) as [w1 us]. cbn [fst] in H1.
  pose proof (QI_cmd input w1 H1) as H2. destruct (s_cmd w1) as [w2 r]. cbn [fst] in H2.
  destruct (_ || _); exact H2.
Qed.

Lemma QI_bracket : forall input w body,
  (forall w1, QI input w1 -> QI input (fst (body w1))) -> QI input w -> QI input (fst (s_bracket w body)).
Proof.
  intros input w body Hb H. unfold Fsm.bracket. destruct (d_mutex D); [|apply Hb; exact H].
  destruct (s_lock (Fsm.mu sio smu shs w)) as [m1 ok]. destruct ok; cbn [negb].
  - assert (H1 : QI input (Fsm.logw sio smu shs (ELock true) (Fsm.set_mu sio smu shs m1 w))).
    { eapply QI_ext; [| | exact H]; [|reflexivity].
      cbn [Fsm.tr Fsm.logw Fsm.set_mu]. rewrite consumed_cons. apply app_nil_r. }
    apply Hb in H1. destruct (body _) as [w2 r]. cbn [fst] in H1.
    destruct (s_unlock (Fsm.mu sio smu shs w2)) as [m2 ok2].
    assert (H2 : QI input (Fsm.logw sio smu shs (EUnlock ok2) (Fsm.set_mu sio smu shs m2 w2))).
    { eapply QI_ext; [| | exact H1]; [|reflexivity].
      cbn [Fsm.tr Fsm.logw Fsm.set_mu]. rewrite consumed_cons. apply app_nil_r. }
    destruct ok2; exact H2.
  - cbn [fst]. eapply QI_ext; [| | exact H]; [|reflexivity].
    cbn [Fsm.tr Fsm.logw Fsm.set_mu]. rewrite consumed_cons. apply app_nil_r.
Qed.

Lemma QI_step : forall input w o, QI input w -> QI input (s_step w o).
Proof.
  intros input w o H.
  assert (G : QI input (fst (s_do_op w o))).
  { destruct o; cbn [Fsm.do_op fst]; try exact H.
    - apply QI_bracket; [apply QI_body | exact H].
    - unfold Fsm.api_trigger. apply QI_bracket; [|exact H].
      intros w1 H1. destruct (push_unsolicited_cmd D (st w1) ci t). exact H1.
    - unfold Fsm.api_hold_exit. apply QI_bracket; [|exact H].
      intros w1 H1. destruct (hold_exit (st w1) status). exact H1.
    - unfold Fsm.api_is_busy. apply QI_bracket; [|exact H]. intros w1 H1. exact H1.
    - unfold Fsm.api_is_hold. apply QI_bracket; [|exact H]. intros w1 H1. exact H1.
    - unfold Fsm.api_is_full. apply QI_bracket; [|exact H]. intros w1 H1. exact H1. }
  unfold Fsm.step. destruct (s_do_op w o) as [w' r]. cbn [fst] in G.
  eapply QI_ext; [| | exact G]; [|reflexivity].
  cbn [Fsm.tr Fsm.logw]. rewrite consumed_cons. apply app_nil_r.
Qed.

Lemma QI_run : forall input ops w, QI input w -> QI input (s_run w ops).
Proof.
  intros input ops. induction ops as [|o ops IH]; intros w H; [exact H|].
  cbn [Fsm.run fold_left]. apply IH. apply QI_step. exact H.
Qed.

(* every history of API calls on a scripted world started with the input queue `input`: the bytes
   consumed so far followed by the bytes still queued are the input (no hypothesis at all) *)
Theorem consumed_prefix_proof : forall m input rs ws mx h ops,
  let w := s_run (sinit D m (mkSio input rs ws) mx h) ops in
  consumed (tr w) ++ inq (io w) = input.
Proof. intros m input rs ws mx h ops w. apply QI_run. unfold QI. reflexivity. Qed.

(* the counting theorem for scripted histories, hypotheses on the scripts instead of on s_call *)
Local Notation HIH := (fun h : shs => Lemmas_Inv.no_rt_hold h = true).

Theorem gL_counts_lines_scripted : forall m x mx h ops,
  Lemmas_Inv.no_rt_hold h = true ->
  let w := s_run (sinit D m x mx h) ops in
  fault (st w) = false -> gL (st w) = nonblank_lines false (consumed (tr w)).
Proof.
  intros m x mx h ops Hh. cbv zeta. unfold sinit.
  rewrite <- (proj1 (Lemmas_Inv.run_sanH D sio smu shs s_read s_write s_lock s_unlock s_call HIH
                       Lemmas_Inv.no_rt_hold_step (mkWorld sio smu shs (init_state D m) x mx h []) ops Hh)).
  exact (C01_gL_counts_lines_nofault D sio smu shs s_read s_write s_lock s_unlock
           (Lemmas_Inv.h_sanH shs s_call) (Lemmas_Inv.h_sanH_no_uhold shs s_call) m x mx h ops).
Qed.

Lemma nsvc_run : forall n (w : sworld), nsvc D n w = s_run w (repeat OService n).
Proof.
  induction n as [|n IH]; intros w; [reflexivity|].
  exact (IH (svc D w)).
Qed.

(* P5: from cat_init with `input` queued, under every finite readiness schedule, after finitely
   many cat_service calls the whole input has been consumed and every non-blank line of it has
   received its completely emitted result code *)
Theorem C01_all_lines_answered_proof : forall m input rs ws h,
  d_mutex D = false -> wf_desc D m ->
  Lemmas_Inv.no_rt_hold h = true -> script_ok (Lemmas_Inv.res_calls_valid D) h = true ->
  script_ok no_hold_res h = true ->
  let w0 := sinit D m (mkSio input rs ws) (mkSmu [] []) h in
  exists n, let w := nsvc D n w0 in
    inq (io w) = [] /\ consumed (tr w) = input /\
    gR (st w) = nonblank_lines false input /\ gS (st w) = gR (st w) /\ gL (st w) = gR (st w) /\
    reading_state (k_state (k (st w))) = true.
Proof.
  intros m input rs ws h M WF A B C w0.
  destruct (Lemmas_Inv.C15_scenario_nothing_left D m (mkSio input rs ws) (mkSmu [] []) h []
              M WF (Forall_nil _) A B) as (n & _ & Hq & _ & _ & HR & _).
  { cbn. discriminate. }
  { exact C. }
  cbv zeta in Hq, HR. change (srun D (sinit D m (mkSio input rs ws) (mkSmu [] []) h) []) with w0 in *.
  exists n. cbv zeta. rewrite nsvc_run in *.
  pose proof (consumed_prefix_proof m input rs ws (mkSmu [] []) h (repeat OService n)) as HP.
  cbv zeta in HP. fold w0 in HP. rewrite Hq, app_nil_r in HP.
  assert (HV : Forall (valid_op D) (repeat OService n)).
  { apply Forall_forall. intros o Ho. apply repeat_spec in Ho. subst o. exact I. }
  destruct (Lemmas_Inv.J_in_domain_scripted D m (mkSio input rs ws) (mkSmu [] []) h (repeat OService n) WF HV A B)
    as [Hf HJ].
  rewrite Lemmas_Inv.srun_SOp in Hf, HJ. fold w0 in Hf, HJ.
  pose proof (gL_counts_lines_scripted m (mkSio input rs ws) (mkSmu [] []) h (repeat OService n) A) as HL.
  cbv zeta in HL. fold w0 in HL. specialize (HL Hf). rewrite HP in HL.
  destruct (J_reading_settled _ HJ HR) as [E1 E2].
  split; [exact Hq|]. split; [exact HP|]. split; [congruence|]. split; [exact E2|]. split; [exact E1 | exact HR].
Qed.
End Scripted.

Print Assumptions C01_gL_counts_lines_proof.
Print Assumptions C01_idle_iff_blank_proof.
Print Assumptions C01_read_only_when_settled_proof.
Print Assumptions C01_no_read_ahead_proof.
Print Assumptions step_read_reading.
Print Assumptions consumed_prefix_proof.
Print Assumptions C01_all_lines_answered_proof.


(* ================================================================== *)
(* Module P2: one increment of gR = the accepted ATCMD bytes nl OK/ERROR nl *)
(* ================================================================== *)
From Coq Require Import List NArith ZArith Bool Arith Lia.
From CatV Require Import Bytes Defs Codec Fsm TextDefs Skel SkelSim Lemmas_C11.
Module P2.
Import ListNotations.
Local Open Scope nat_scope.

(* the bytes accepted on the output from the command machine (producer tag ATCMD), oldest first,
   of a newest-first list of events *)
Definition out_cmd (t : list event) : list N :=
  flat_map (fun e => match e with EWr ATCMD ch true => [ch] | _ => [] end) (rev t).

(* ------------------------------------------------------------------ *)
(* 0. out_cmd                                                           *)
(* ------------------------------------------------------------------ *)
Lemma out_cmd_app : forall a b, out_cmd (a ++ b) = out_cmd b ++ out_cmd a.
Proof. intros a b. unfold out_cmd. rewrite rev_app_distr, flat_map_app. reflexivity. Qed.

Lemma out_cmd_cons : forall e a,
  out_cmd (e :: a) = out_cmd a ++ match e with EWr ATCMD ch true => [ch] | _ => [] end.
Proof.
  intros e a. change (e :: a) with ([e] ++ a). rewrite out_cmd_app.
  unfold out_cmd at 2. cbn [rev app flat_map]. rewrite app_nil_r. reflexivity.
Qed.

Lemma out_of_accepted : forall l bytes, accepted_wr l = map (pair ATCMD) bytes ->
  flat_map (fun e => match e with EWr ATCMD ch true => [ch] | _ => [] end) l = bytes.
Proof.
  induction l as [|e l IH]; intros bytes H.
  - cbn [accepted_wr flat_map] in H. destruct bytes; [reflexivity|discriminate].
  - unfold accepted_wr in H. cbn [flat_map] in *. fold (accepted_wr l) in H.
    destruct e as [r|f ch ok|ok|ok|q c|c z|o z|ci t]; cbn [app] in *; try (apply IH; exact H).
    destruct ok; cbn [app] in H.
    + destruct bytes as [|b bytes]; [discriminate|]. cbn [map] in H. inversion H. subst.
      cbn [app]. f_equal. apply IH. assumption.
    + destruct f; cbn [app]; apply IH; exact H.
Qed.

Lemma out_cmd_accepted : forall evs bytes, accepted_wr (rev evs) = map (pair ATCMD) bytes ->
  out_cmd evs = bytes.
Proof. intros evs bytes H. unfold out_cmd. apply out_of_accepted. exact H. Qed.

Lemma out_cmd_nowr : forall evs, nowr evs = true -> out_cmd evs = [].
Proof. intros evs H. apply out_cmd_accepted. rewrite accepted_wr_nowr by exact H. reflexivity. Qed.

(* ------------------------------------------------------------------ *)
(* 1. the text of the result code in the buffer                          *)
(* ------------------------------------------------------------------ *)
Lemma text_of_app0 : forall t r, ~ In 0%N t -> text_of (t ++ 0%N :: r) = t.
Proof.
  induction t as [|c t IH]; intros r H; [reflexivity|].
  cbn [app text_of]. destruct (N.eqb_spec c 0) as [E|E].
  - exfalso. apply H. left. exact E.
  - f_equal. apply IH. intro Hi. apply H. right. exact Hi.
Qed.

Lemma text_of_strncpy : forall n t, length t < n -> ~ In 0%N t -> text_of (strncpy_buf n t) = t.
Proof.
  intros n t Hl H0. unfold strncpy_buf. rewrite firstn_app, (firstn_all2 t) by lia.
  destruct (n - length t) as [|d] eqn:E; [lia|]. destruct n as [|m]; [lia|].
  cbn [repeat firstn]. apply text_of_app0. exact H0.
Qed.

Lemma no0_OK : ~ In 0%N txt_OK.
Proof. unfold txt_OK. intros [H|[H|[]]]; discriminate. Qed.
Lemma no0_ERROR : ~ In 0%N txt_ERROR.
Proof. unfold txt_ERROR. intros [H|[H|[H|[H|[H|[]]]]]]; discriminate. Qed.

Lemma nl_chars_text : forall s, nl_chars s = nl_text (k_cr (k s)).
Proof. reflexivity. Qed.

Lemma remaining_wait_fresh : forall s after,
  remaining (start_flush_c after s) = nl_text (k_cr (k s)) ++ text_of (cbuf s) ++ nl_text (k_cr (k s)).
Proof.
  intros s after. rewrite <- (remaining_fresh s after).
  symmetry. apply remaining_kpart. reflexivity.
Qed.

Lemma remaining_ack_ok : forall s, length txt_OK < asz s ->
  remaining (ack_ok s) = nl_chars s ++ txt_OK ++ nl_chars s.
Proof.
  intros s H. unfold ack_ok. rewrite remaining_wait_fresh.
  change (nl_text _) with (nl_chars s).
  change (cbuf _) with (strncpy_buf (asz s) txt_OK).
  rewrite text_of_strncpy by (exact H || exact no0_OK). reflexivity.
Qed.

Lemma remaining_ack_error : forall s, length txt_ERROR < asz s ->
  remaining (ack_error s) = nl_chars s ++ txt_ERROR ++ nl_chars s.
Proof.
  intros s H. unfold ack_error. rewrite remaining_wait_fresh.
  change (nl_text _) with (nl_chars s).
  change (cbuf _) with (strncpy_buf (asz s) txt_ERROR).
  rewrite text_of_strncpy by (exact H || exact no0_ERROR). reflexivity.
Qed.

(* ------------------------------------------------------------------ *)
(* 2. the ghost counters, on the control skeleton                        *)
(* ------------------------------------------------------------------ *)
Definition wfs (x : cstate) : Prop := x = CS_FLUSH_WAIT \/ x = CS_FLUSH.

Ltac brk :=
  repeat match goal with
  | H : _ /\ _ |- _ => destruct H
  | H : _ \/ _ |- _ => destruct H
  | H : exists _, _ |- _ => destruct H
  end.

Lemma uns_next_frame : forall c c1 us, uns_next c c1 us ->
  ck c1 = ck c /\ cwa c1 = cwa c /\ gl c1 = gl c /\ gs c1 = gs c /\ gr c1 = gr c.
Proof.
  intros c c1 us H. unfold uns_next in H.
  destruct (uk c);
    unfold fra_next, fta_next, rt_next, spfr, spft, heff in H; brk; try discriminate; subst;
    try (repeat split; reflexivity).
Qed.

(* what one operation does to the control fields while the command machine is in one of its two
   flush states *)
Definition flush_rel (c c' : ctl) : Prop :=
  gl c' = gl c /\ gs c' = gs c /\ cwa c' = cwa c /\
  ((wfs (ck c') /\ gr c' = gr c) \/
   (ck c' = cwa c /\ gr c' = (if cstate_beq (cwa c) CS_AFTER_RESET then S (gr c) else gr c))).

Lemma cmd_next_flush : forall bad c c' r, wfs (ck c) -> cmd_next bad c c' r -> flush_rel c c'.
Proof.
  intros bad c c' r W H. unfold cmd_next in H. unfold flush_rel.
  destruct W as [W|W]; rewrite W in H; brk; subst.
  - repeat split; try reflexivity. left. split; [left; exact W|reflexivity].
  - repeat split; try reflexivity. left. split; [right; reflexivity|reflexivity].
  - repeat split; try reflexivity. left. split; [right; exact W|reflexivity].
  - repeat split; try reflexivity. right. split; reflexivity.
Qed.

Lemma op_next_flush : forall bad o c c' r, wfs (ck c) -> op_next bad o c c' r -> flush_rel c c'.
Proof.
  intros bad o c c' r W H.
  assert (Hid : flush_rel c c).
  { unfold flush_rel. repeat split; try reflexivity. left. split; [exact W|reflexivity]. }
  destruct o; cbn [op_next] in H; try (subst c'; exact Hid).
  - destruct H as [[H _]|(r0 & (c1 & us & rc & U & C & _) & _)]; [subst c'; exact Hid|].
    destruct (uns_next_frame _ _ _ U) as (A1 & A2 & A3 & A4 & A5).
    assert (W1 : wfs (ck c1)) by (rewrite A1; exact W).
    destruct (cmd_next_flush _ _ _ _ W1 C) as (B1 & B2 & B3 & B4).
    unfold flush_rel. rewrite B1, B2, B3, A2, A3, A4. repeat split; try reflexivity.
    rewrite A2, A5 in B4. exact B4.
  - unfold heff in H. destruct H as [H|[_ [z H]]]; subst c'; [exact Hid|].
    unfold flush_rel. repeat split; try reflexivity. left. split; [exact W|reflexivity].
Qed.

(* ------------------------------------------------------------------ *)
(* 3. worlds                                                            *)
(* ------------------------------------------------------------------ *)
Section C01s.
Variable D : desc.
Variables ioS muS hS : Type.
Variable io_read : ioS -> ioS * option N.
Variable io_write : ioS -> N -> ioS * bool.
Variable mu_lock : muS -> muS * bool.
Variable mu_unlock : muS -> muS * bool.
Variable h_call : hS -> hreq -> hS * hres.

Local Notation world := (Fsm.world ioS muS hS).
Local Notation st := (Fsm.st ioS muS hS).
Local Notation tr := (Fsm.tr ioS muS hS).
Local Notation mu := (Fsm.mu ioS muS hS).
Local Notation logw := (Fsm.logw ioS muS hS).
Local Notation set_mu := (Fsm.set_mu ioS muS hS).
Local Notation set_st := (Fsm.set_st ioS muS hS).
Local Notation unsolicited_events_service :=
  (Fsm.unsolicited_events_service D ioS muS hS io_write mu_lock mu_unlock h_call).
Local Notation cmd_service :=
  (Fsm.cmd_service D ioS muS hS io_read io_write mu_lock mu_unlock h_call).
Local Notation service_body :=
  (Fsm.service_body D ioS muS hS io_read io_write mu_lock mu_unlock h_call).
Local Notation do_op := (Fsm.do_op D ioS muS hS io_read io_write mu_lock mu_unlock h_call).
Local Notation step := (Fsm.step D ioS muS hS io_read io_write mu_lock mu_unlock h_call).
Local Notation run := (Fsm.run D ioS muS hS io_read io_write mu_lock mu_unlock h_call).

(* scope decision D3: an event-side read/test handler never returns HOLD *)
Hypothesis no_uhold : forall hs q, unsol_req q = true -> r_code (snd (h_call hs q)) <> RC_HOLD.

Lemma Hn : no_uns_hold hS h_call.
Proof. exact no_uhold. Qed.

Lemma st_step_c01 : forall (w : world) o, st (step w o) = st (fst (do_op w o)).
Proof. intros w o. unfold Fsm.step. destruct (do_op w o) as [w' r]. reflexivity. Qed.

Lemma run_snoc_c01 : forall (w : world) l o, run w (l ++ [o]) = step (run w l) o.
Proof. intros. unfold Fsm.run. rewrite fold_left_app. reflexivity. Qed.

Lemma firstn_snoc_le : forall (l : list op) o m, m <= length l -> firstn m (l ++ [o]) = firstn m l.
Proof.
  intros l o m Hle. rewrite firstn_app. replace (m - length l) with 0 by lia.
  cbn [firstn]. apply app_nil_r.
Qed.

(* the hypothesis "all proper prefixes are in a flush state", for the list without its last op *)
Lemma prefixes_snoc : forall (w0 : world) l o,
  (forall m, m < length (l ++ [o]) -> wfs (k_state (k (st (run w0 (firstn m (l ++ [o]))))))) ->
  (forall m, m < length l -> wfs (k_state (k (st (run w0 (firstn m l)))))) /\
  wfs (k_state (k (st (run w0 l)))).
Proof.
  intros w0 l o Hm. split.
  - intros m Hlt. rewrite <- (firstn_snoc_le l o) by lia. apply Hm. rewrite app_length. cbn [length]. lia.
  - rewrite <- (firstn_all l) at 1. rewrite <- (firstn_snoc_le l o) by lia.
    apply Hm. rewrite app_length. cbn [length]. lia.
Qed.

Lemma step_flush_rel : forall (w : world) o, wfs (k_state (k (st w))) ->
  flush_rel (ctl_of (st w)) (ctl_of (st (step w o))).
Proof.
  intros w o W. rewrite st_step_c01.
  change (wfs (ck (ctl_of (st w)))) in W.
  exact (op_next_flush _ _ _ _ _ W
           (do_op_sim D ioS muS hS io_read io_write mu_lock mu_unlock h_call no_uhold w o)).
Qed.

Lemma run_counters : forall (w0 : world),
  wfs (k_state (k (st w0))) -> k_wafter (k (st w0)) = CS_AFTER_RESET ->
  forall ops,
  (forall m, m < length ops -> wfs (k_state (k (st (run w0 (firstn m ops)))))) ->
  let s0 := st w0 in let s := st (run w0 ops) in
  gL s = gL s0 /\ gS s = gS s0 /\ k_wafter (k s) = CS_AFTER_RESET /\
  ((wfs (k_state (k s)) /\ gR s = gR s0) \/ (k_state (k s) = CS_AFTER_RESET /\ gR s = S (gR s0))).
Proof.
  intros w0 W0 A0 ops. cbv zeta. induction ops as [|o l IH] using rev_ind; intros Hm.
  - cbn [Fsm.run fold_left]. repeat split; try reflexivity; try assumption. left. split; [exact W0|reflexivity].
  - destruct (prefixes_snoc w0 l o Hm) as [Hl Wl].
    destruct (IH Hl) as (I1 & I2 & I3 & I4).
    rewrite run_snoc_c01.
    destruct (step_flush_rel (run w0 l) o Wl) as (R1 & R2 & R3 & R4).
    cbn [ctl_of gl gs gr cwa ck] in R1, R2, R3, R4.
    assert (G : gR (st (run w0 l)) = gR (st w0)).
    { destruct I4 as [[_ G]|[K _]]; [exact G|]. exfalso. destruct Wl as [Wl|Wl]; congruence. }
    split; [congruence|]. split; [congruence|]. split; [congruence|].
    destruct R4 as [[R4 R5]|[R4 R5]].
    + left. split; [exact R4|congruence].
    + right. rewrite I3 in R4, R5. cbn [cstate_beq] in R5. split; [exact R4|congruence].
Qed.

(* ---- one service call while the command machine waits for the output (CS_FLUSH_WAIT) ---- *)

(* the event machine's step: whatever it writes is tagged UNSOL *)
Lemma uns_step_no_cmd_bytes : forall w : world,
  exists evs, tr (fst (unsolicited_events_service w)) = evs ++ tr w /\ out_cmd evs = [].
Proof.
  intros w. destruct (ustate_flush_dec (u_state (u (st w)))) as [F|F].
  - destruct (uns_flush_summary D ioS muS hS io_write mu_lock mu_unlock h_call w F)
      as [(T & _ & _) | (ch & ok & rest & T & _ & _)]; cbv zeta in T.
    + exists []. split; [exact T|reflexivity].
    + exists [EWr UNSOL ch ok]. split; [exact T|]. rewrite out_cmd_cons. reflexivity.
  - destruct (ustate_wait_dec (u_state (u (st w)))) as [W|W].
    + rewrite (uns_service_wait D ioS muS hS io_write mu_lock mu_unlock h_call w W).
      exists []. split; reflexivity.
    + destruct (uns_service_fr D ioS muS hS io_write mu_lock mu_unlock h_call false
                  (no_hyp_false hS h_call) w F W) as [_ (evs & T & N)].
      exists evs. split; [exact T|apply out_cmd_nowr; exact N].
Qed.

Definition wait_post (w w' : world) (evs : list event) : Prop :=
  tr w' = evs ++ tr w /\ out_cmd evs = [] /\ kpart (st w') = kpart (st w) /\
  (k_state (k (st w')) = CS_FLUSH_WAIT \/
   (k_state (k (st w')) = CS_FLUSH /\ u_state (u (st w')) <> US_FLUSH)).

Lemma wait_svc_step : forall w : world, k_state (k (st w)) = CS_FLUSH_WAIT ->
  exists evs, wait_post w (fst (service_body w)) evs.
Proof.
  intros w W. unfold wait_post.
  rewrite (service_body_fst D ioS muS hS io_read io_write mu_lock mu_unlock h_call).
  destruct (C11_frame_uns_nohold_proof D ioS muS hS io_write mu_lock mu_unlock h_call Hn w)
    as (KP & KS & _). cbv zeta in KP, KS.
  destruct (uns_step_no_cmd_bytes w) as (e1 & T1 & O1).
  set (w1 := fst (unsolicited_events_service w)) in *.
  assert (W1 : k_state (k (st w1)) = CS_FLUSH_WAIT) by congruence.
  rewrite (cmd_service_wait D ioS muS hS io_read io_write mu_lock mu_unlock h_call w1 W1).
  cbn [fst Fsm.set_st Fsm.st Fsm.tr].
  exists e1. split; [exact T1|]. split; [exact O1|].
  destruct (C11_wait_cmd_proof (st w1) W1) as (_ & E1 & E2).
  destruct (ustate_flush_dec (u_state (u (st w1)))) as [F|F].
  - rewrite (E2 F). split; [exact KP|]. left. exact W1.
  - rewrite (E1 F). split; [exact KP|]. right. split; [reflexivity|exact F].
Qed.

(* one API operation in CS_FLUSH_WAIT *)
Lemma wait_op_step : forall (w : world) o, k_state (k (st w)) = CS_FLUSH_WAIT ->
  exists evs, wait_post w (step w o) evs.
Proof.
  intros w o W. unfold Fsm.step.
  assert (G : exists evs, wait_post w (fst (do_op w o)) evs).
  { destruct (op_eq_service o) as [E|E].
    - subst o. cbn [Fsm.do_op]. unfold Fsm.api_service, Fsm.bracket.
      destruct (d_mutex D).
      + destruct (mu_lock (mu w)) as [m1 ok]. destruct ok; cbn [negb].
        * set (w1 := logw (ELock true) (set_mu m1 w)).
          destruct (wait_svc_step w1 W) as (e & T & O & KP & K2).
          destruct (service_body w1) as [w2 r]. cbn [fst] in *.
          destruct (mu_unlock (mu w2)) as [m2 ok2].
          exists (EUnlock ok2 :: e ++ [ELock true]).
          assert (P : wait_post w (logw (EUnlock ok2) (set_mu m2 w2)) (EUnlock ok2 :: e ++ [ELock true])).
          { unfold wait_post. cbn [Fsm.logw Fsm.tr Fsm.st Fsm.set_mu].
            split; [rewrite T; unfold w1; cbn [Fsm.logw Fsm.tr Fsm.set_mu app];
                    rewrite <- app_assoc; reflexivity|].
            split; [rewrite out_cmd_cons, out_cmd_app, O; reflexivity|].
            split; [exact KP|exact K2]. }
          destruct ok2; cbn [negb fst]; exact P.
        * cbn [fst]. exists [ELock false]. unfold wait_post.
          cbn [Fsm.logw Fsm.st Fsm.tr Fsm.set_mu]. repeat split; auto.
      + apply wait_svc_step. exact W.
    - destruct (other_op_fr D ioS muS hS io_read io_write mu_lock mu_unlock h_call true UNSOL w o E)
        as [(KP & _ & KS & _) (evs & T & N)].
      exists evs. unfold wait_post. split; [exact T|]. split; [apply out_cmd_nowr; exact N|].
      split; [exact KP|]. left. congruence. }
  destruct (do_op w o) as [w' r]. cbn [fst] in G.
  destruct G as (evs & T & O & G). exists (ERet o r :: evs). unfold wait_post.
  cbn [Fsm.logw Fsm.tr Fsm.st]. split; [rewrite T; reflexivity|].
  split; [rewrite out_cmd_cons, O; reflexivity|exact G].
Qed.

(* ---- the whole stretch CS_FLUSH_WAIT ... CS_FLUSH ... continuation, any operation list ---- *)
Lemma run_bytes : forall w0 : world,
  k_state (k (st w0)) = CS_FLUSH_WAIT -> k_wafter (k (st w0)) = CS_AFTER_RESET ->
  forall ops,
  (forall m, m < length ops -> wfs (k_state (k (st (run w0 (firstn m ops)))))) ->
  let w := run w0 ops in
  exists evs, tr w = evs ++ tr w0 /\ k_wafter (k (st w)) = CS_AFTER_RESET /\
    ((k_state (k (st w)) = CS_FLUSH_WAIT /\ out_cmd evs = [] /\ kpart (st w) = kpart (st w0)) \/
     (k_state (k (st w)) = CS_FLUSH /\ u_state (u (st w)) <> US_FLUSH /\
      out_cmd evs ++ remaining (st w) = remaining (st w0)) \/
     (k_state (k (st w)) = CS_AFTER_RESET /\ out_cmd evs = remaining (st w0))).
Proof.
  intros w0 W0 A0 ops. cbv zeta. induction ops as [|o l IH] using rev_ind; intros Hm.
  - exists []. cbn [Fsm.run fold_left]. split; [reflexivity|]. split; [exact A0|].
    left. repeat split; [exact W0].
  - destruct (prefixes_snoc w0 l o Hm) as [Hl Wl].
    destruct (IH Hl) as (evs & T & A & I). clear IH.
    rewrite run_snoc_c01. set (wl := run w0 l) in *.
    destruct I as [(K & O & KP) | [(K & X & R) | (K & _)]].
    + destruct (wait_op_step wl o K) as (e2 & T2 & O2 & KP2 & K2).
      exists (e2 ++ evs). split; [rewrite T2, T; apply app_assoc|].
      destruct (remaining_kpart _ _ KP2) as [R2 A2].
      split; [congruence|]. rewrite out_cmd_app, O, O2. cbn [app].
      destruct K2 as [K2|[K2 X2]].
      * left. repeat split; [exact K2|congruence].
      * right. left. split; [exact K2|]. split; [exact X2|].
        destruct (remaining_kpart _ _ KP) as [R0 _]. congruence.
    + destruct (session_op_step D ioS muS hS io_read io_write mu_lock mu_unlock h_call Hn wl o K X)
        as (e2 & b2 & T2 & A2 & R2 & W2 & X2 & K2). cbv zeta in *.
      apply out_cmd_accepted in A2.
      exists (e2 ++ evs). split; [rewrite T2, T; apply app_assoc|].
      split; [congruence|]. rewrite out_cmd_app, A2.
      destruct K2 as [K2|[K2 K3]].
      * right. left. split; [exact K2|]. split; [exact X2|].
        rewrite <- app_assoc, R2. exact R.
      * right. right. split; [congruence|].
        rewrite K3, app_nil_r in R2. rewrite R2. exact R.
    + exfalso. destruct Wl as [Wl|Wl]; congruence.
Qed.

Theorem C01_result_unit_proof :
  forall (w0 : world) s txt,
  (st w0 = ack_ok s /\ txt = txt_OK) \/ (st w0 = ack_error s /\ txt = txt_ERROR) ->
  length txt < asz s ->
  forall ops,
  (forall m, m < length ops ->
      k_state (k (st (run w0 (firstn m ops)))) = CS_FLUSH_WAIT \/
      k_state (k (st (run w0 (firstn m ops)))) = CS_FLUSH) ->
  k_state (k (st (run w0 ops))) = CS_AFTER_RESET ->
  exists evs, tr (run w0 ops) = evs ++ tr w0 /\
    out_cmd evs = nl_chars s ++ txt ++ nl_chars s /\
    gR (st (run w0 ops)) = S (gR (st w0)) /\
    gS (st (run w0 ops)) = gS (st w0) /\
    gL (st (run w0 ops)) = gL (st w0).
Proof.
  intros w0 s txt H0 Hlen ops Hm Hend.
  assert (W0 : k_state (k (st w0)) = CS_FLUSH_WAIT).
  { destruct H0 as [[E _]|[E _]]; rewrite E; reflexivity. }
  assert (A0 : k_wafter (k (st w0)) = CS_AFTER_RESET).
  { destruct H0 as [[E _]|[E _]]; rewrite E; reflexivity. }
  assert (R0 : remaining (st w0) = nl_chars s ++ txt ++ nl_chars s).
  { destruct H0 as [[E Et]|[E Et]]; rewrite E; subst txt;
      [apply remaining_ack_ok|apply remaining_ack_error]; exact Hlen. }
  destruct (run_bytes w0 W0 A0 ops Hm) as (evs & T & _ & I).
  destruct (run_counters w0 (or_introl W0) A0 ops Hm) as (C1 & C2 & _ & C4).
  exists evs. split; [exact T|].
  split.
  - destruct I as [(K & _) | [(K & _) | (_ & O)]]; try congruence.
  - split; [|split; assumption].
    destruct C4 as [[[K|K] _]|[_ G]]; [congruence|congruence|exact G].
Qed.

End C01s.


(* ------------------------------------------------------------------ *)
(* non-vacuity: a concrete instance                                     *)
(* ------------------------------------------------------------------ *)

(* one command "+X" with read and run handlers; mutex in use; queue capacity 2; separate event buffer *)
Definition c01s_D : desc :=
  mkDesc [[mkCmd [43; 88]%N None false true true false [] false false false]] [] 16 (Some 16) 0%N 2 true.

(* oracles: no input; write readiness and lock success taken from schedules (exhausted = yes);
   unlock always succeeds; every handler answers DATA_OK (in particular never HOLD) *)
Definition c01s_pop (l : list bool) : list bool * bool :=
  match l with [] => ([], true) | b :: r => (r, b) end.
Definition c01s_read (x : list bool) : list bool * option N := (x, None).
Definition c01s_write (x : list bool) (ch : N) : list bool * bool := c01s_pop x.
Definition c01s_lock (x : list bool) : list bool * bool := c01s_pop x.
Definition c01s_unlock (x : list bool) : list bool * bool := (x, true).
Definition c01s_call (h : unit) (q : hreq) : unit * hres := (tt, mkHres RC_DATA_OK None [] []).
Definition c01s_world : Type := Fsm.world (list bool) (list bool) unit.
Local Notation c01s_run :=
  (Fsm.run c01s_D (list bool) (list bool) unit c01s_read c01s_write c01s_lock c01s_unlock c01s_call).

(* a read event of +X has been triggered and the event machine has just entered US_FLUSH with its
   unit "\n+X=\n" *)
Definition c01s_pre : c01s_world :=
  c01s_run (mkWorld _ _ _ (init_state c01s_D []) [] [] tt [])
           [OTrigger 0 T_READ; OService; OService; OService].
Definition c01s_s : state := st _ _ _ c01s_pre.
(* ... when the command machine starts the result code ERROR; from now on the output refuses
   8 of the first 15 write attempts and the third mutex lock fails *)
Definition c01s_w0 : c01s_world :=
  mkWorld _ _ _ (ack_error c01s_s)
          [true; false; true; false; false; true; true; false; true; false; true; false; false; false; true]
          [true; true; false; true] tt (tr _ _ _ c01s_pre).
(* 27 service calls with a cat_is_busy in between *)
Definition c01s_ops : list op := repeat OService 5 ++ [OIsBusy] ++ repeat OService 22.

Example c01s_ex_start : u_state (u c01s_s) = US_FLUSH /\ k_cr (k c01s_s) = false /\ asz c01s_s = 16.
Proof. vm_compute. repeat split; reflexivity. Qed.

(* the hypotheses hold: the command machine is in CS_FLUSH_WAIT / CS_FLUSH after every proper prefix
   (it waits in CS_FLUSH_WAIT until the 14th operation while the event line is sent; one of the
   service calls fails to lock) and in CS_AFTER_RESET
   at the end; the accepted ATCMD bytes of the stretch are LF E R R O R LF although the event line
   LF + X = LF went out in the same stretch; gR is incremented, gS and gL are not *)
Example c01s_ex_computed :
  let w := c01s_run c01s_w0 c01s_ops in
  forallb (fun m => let x := k_state (k (st _ _ _ (c01s_run c01s_w0 (firstn m c01s_ops)))) in
                    cstate_beq x CS_FLUSH_WAIT || cstate_beq x CS_FLUSH)
          (seq 0 (length c01s_ops)) = true /\
  map (fun m => k_state (k (st _ _ _ (c01s_run c01s_w0 (firstn m c01s_ops))))) [0; 6; 13; 14; 27] =
    [CS_FLUSH_WAIT; CS_FLUSH_WAIT; CS_FLUSH_WAIT; CS_FLUSH; CS_FLUSH] /\
  k_state (k (st _ _ _ w)) = CS_AFTER_RESET /\
  out_cmd (firstn (length (tr _ _ _ w) - length (tr _ _ _ c01s_w0)) (tr _ _ _ w)) =
    [10; 69; 82; 82; 79; 82; 10]%N /\
  accepted_wr (rev (firstn (length (tr _ _ _ w) - length (tr _ _ _ c01s_w0)) (tr _ _ _ w))) =
    [(UNSOL, 10); (UNSOL, 43); (UNSOL, 88); (UNSOL, 61); (UNSOL, 10);
     (ATCMD, 10); (ATCMD, 69); (ATCMD, 82); (ATCMD, 82); (ATCMD, 79); (ATCMD, 82); (ATCMD, 10)]%N /\
  length (filter (fun e => match e with EWr _ _ false => true | _ => false end) (tr _ _ _ w)) = 8 /\
  length (filter (fun e => match e with ELock false => true | _ => false end) (tr _ _ _ w)) = 1 /\
  (gR (st _ _ _ w), gS (st _ _ _ w), gL (st _ _ _ w)) =
    (S (gR (st _ _ _ c01s_w0)), gS (st _ _ _ c01s_w0), gL (st _ _ _ c01s_w0)).
Proof. vm_compute. repeat split; reflexivity. Qed.

(* the theorem applies to this instance *)
Example c01s_ex_unit_text :
  nl_chars c01s_s ++ txt_ERROR ++ nl_chars c01s_s = [10; 69; 82; 82; 79; 82; 10]%N.
Proof. vm_compute. reflexivity. Qed.

Example c01s_ex_no_hold :
  forall (hs : unit) q, unsol_req q = true -> r_code (snd (c01s_call hs q)) <> RC_HOLD.
Proof. intros hs q _. unfold c01s_call, RC_HOLD. cbn [snd r_code]. discriminate. Qed.

Example c01s_ex_prefixes : forall m, m < length c01s_ops ->
  k_state (k (st _ _ _ (c01s_run c01s_w0 (firstn m c01s_ops)))) = CS_FLUSH_WAIT \/
  k_state (k (st _ _ _ (c01s_run c01s_w0 (firstn m c01s_ops)))) = CS_FLUSH.
Proof.
  intros m Hm.
  assert (B : forallb (fun m => let x := k_state (k (st _ _ _ (c01s_run c01s_w0 (firstn m c01s_ops)))) in
                  cstate_beq x CS_FLUSH_WAIT || cstate_beq x CS_FLUSH)
                  (seq 0 (length c01s_ops)) = true) by (vm_compute; reflexivity).
  rewrite forallb_forall in B. specialize (B m).
  assert (Hin : In m (seq 0 (length c01s_ops))) by (apply in_seq; lia).
  apply B in Hin. cbv zeta in Hin. apply orb_true_iff in Hin.
  revert Hin. generalize (k_state (k (st _ _ _ (c01s_run c01s_w0 (firstn m c01s_ops))))).
  intros x [E|E]; destruct x; try discriminate; auto.
Qed.

Example c01s_ex_apply :
  exists evs, tr _ _ _ (c01s_run c01s_w0 c01s_ops) = evs ++ tr _ _ _ c01s_w0 /\
    out_cmd evs = nl_chars c01s_s ++ txt_ERROR ++ nl_chars c01s_s /\
    gR (st _ _ _ (c01s_run c01s_w0 c01s_ops)) = S (gR (st _ _ _ c01s_w0)) /\
    gS (st _ _ _ (c01s_run c01s_w0 c01s_ops)) = gS (st _ _ _ c01s_w0) /\
    gL (st _ _ _ (c01s_run c01s_w0 c01s_ops)) = gL (st _ _ _ c01s_w0).
Proof.
  assert (Hend : k_state (k (st _ _ _ (c01s_run c01s_w0 c01s_ops))) = CS_AFTER_RESET)
    by (vm_compute; reflexivity).
  assert (Hlen : length txt_ERROR < asz c01s_s) by (vm_compute; lia).
  assert (H0 : (st _ _ _ c01s_w0 = ack_ok c01s_s /\ txt_ERROR = txt_OK) \/
               (st _ _ _ c01s_w0 = ack_error c01s_s /\ txt_ERROR = txt_ERROR))
    by (right; split; reflexivity).
  exact (C01_result_unit_proof c01s_D (list bool) (list bool) unit c01s_read c01s_write c01s_lock
           c01s_unlock c01s_call c01s_ex_no_hold c01s_w0 c01s_s txt_ERROR H0
           Hlen c01s_ops c01s_ex_prefixes Hend).
Qed.

Print Assumptions C01_result_unit_proof.
Print Assumptions c01s_ex_apply.

End P2.


(* ================================================================== *)
(* Module P2b: gS changes only at ack_ok / ack_error (the starting states of P2) *)
(* ================================================================== *)
From Coq Require Import List NArith ZArith Bool Arith Lia.
From CatV Require Import Bytes Defs Codec Fsm Skel SkelSim.
Module P2b.
(* P2b.v — C01 glue: the ghost counter gS changes only at ack_ok / ack_error. *)
Import ListNotations.
Local Open Scope nat_scope.

(* ---------- 1. gS commutes with every setter ---------- *)
Lemma G_setk_index : forall v s, gS (setk_index v s) = gS s. Proof. reflexivity. Qed.
Lemma G_setk_partial : forall v s, gS (setk_partial v s) = gS s. Proof. reflexivity. Qed.
Lemma G_setk_length : forall v s, gS (setk_length v s) = gS s. Proof. reflexivity. Qed.
Lemma G_setk_position : forall v s, gS (setk_position v s) = gS s. Proof. reflexivity. Qed.
Lemma G_setk_write_size : forall v s, gS (setk_write_size v s) = gS s. Proof. reflexivity. Qed.
Lemma G_setk_cmd : forall v s, gS (setk_cmd v s) = gS s. Proof. reflexivity. Qed.
Lemma G_setk_var : forall v s, gS (setk_var v s) = gS s. Proof. reflexivity. Qed.
Lemma G_setk_type : forall v s, gS (setk_type v s) = gS s. Proof. reflexivity. Qed.
Lemma G_setk_char : forall v s, gS (setk_char v s) = gS s. Proof. reflexivity. Qed.
Lemma G_setk_state : forall v s, gS (setk_state v s) = gS s. Proof. reflexivity. Qed.
Lemma G_setk_cr : forall v s, gS (setk_cr v s) = gS s. Proof. reflexivity. Qed.
Lemma G_setk_hold : forall v s, gS (setk_hold v s) = gS s. Proof. reflexivity. Qed.
Lemma G_setk_hold_exit : forall v s, gS (setk_hold_exit v s) = gS s. Proof. reflexivity. Qed.
Lemma G_setk_wbuf : forall v s, gS (setk_wbuf v s) = gS s. Proof. reflexivity. Qed.
Lemma G_setk_wstate : forall v s, gS (setk_wstate v s) = gS s. Proof. reflexivity. Qed.
Lemma G_setk_wafter : forall v s, gS (setk_wafter v s) = gS s. Proof. reflexivity. Qed.
Lemma G_setk_implicit : forall v s, gS (setk_implicit v s) = gS s. Proof. reflexivity. Qed.
Lemma G_setu_state : forall v s, gS (setu_state v s) = gS s. Proof. reflexivity. Qed.
Lemma G_setu_index : forall v s, gS (setu_index v s) = gS s. Proof. reflexivity. Qed.
Lemma G_setu_position : forall v s, gS (setu_position v s) = gS s. Proof. reflexivity. Qed.
Lemma G_setu_cmd : forall v s, gS (setu_cmd v s) = gS s. Proof. reflexivity. Qed.
Lemma G_setu_var : forall v s, gS (setu_var v s) = gS s. Proof. reflexivity. Qed.
Lemma G_setu_type : forall v s, gS (setu_type v s) = gS s. Proof. reflexivity. Qed.
Lemma G_setu_wbuf : forall v s, gS (setu_wbuf v s) = gS s. Proof. reflexivity. Qed.
Lemma G_setu_wstate : forall v s, gS (setu_wstate v s) = gS s. Proof. reflexivity. Qed.
Lemma G_setu_wafter : forall v s, gS (setu_wafter v s) = gS s. Proof. reflexivity. Qed.
Lemma G_setu_ring : forall v s, gS (setu_ring v s) = gS s. Proof. reflexivity. Qed.
Lemma G_setu_tail : forall v s, gS (setu_tail v s) = gS s. Proof. reflexivity. Qed.
Lemma G_setu_head : forall v s, gS (setu_head v s) = gS s. Proof. reflexivity. Qed.
Lemma G_setu_count : forall v s, gS (setu_count v s) = gS s. Proof. reflexivity. Qed.
Lemma G_set_cbuf : forall v s, gS (set_cbuf v s) = gS s. Proof. reflexivity. Qed.
Lemma G_set_ubuf : forall v s, gS (set_ubuf v s) = gS s. Proof. reflexivity. Qed.
Lemma G_set_mem : forall v s, gS (set_mem v s) = gS s. Proof. reflexivity. Qed.
Lemma G_set_dis_cmd : forall v s, gS (set_dis_cmd v s) = gS s. Proof. reflexivity. Qed.
Lemma G_set_dis_grp : forall v s, gS (set_dis_grp v s) = gS s. Proof. reflexivity. Qed.
Lemma G_set_fault : forall v s, gS (set_fault v s) = gS s. Proof. reflexivity. Qed.
Lemma G_set_gL : forall v s, gS (set_gL v s) = gS s. Proof. reflexivity. Qed.
Lemma G_set_gR : forall v s, gS (set_gR v s) = gS s. Proof. reflexivity. Qed.
Lemma G_setg_pos : forall f v s, gS (setg_pos f v s) = gS s. Proof. destruct f; reflexivity. Qed.
Lemma G_setg_buf : forall f v s, gS (setg_buf f v s) = gS s. Proof. destruct f; reflexivity. Qed.
Lemma G_setg_var : forall f v s, gS (setg_var f v s) = gS s. Proof. destruct f; reflexivity. Qed.
Lemma G_setg_index : forall f v s, gS (setg_index f v s) = gS s. Proof. destruct f; reflexivity. Qed.
#[local] Hint Rewrite G_setk_index G_setk_partial G_setk_length G_setk_position G_setk_write_size G_setk_cmd G_setk_var G_setk_type G_setk_char G_setk_state G_setk_cr G_setk_hold G_setk_hold_exit G_setk_wbuf G_setk_wstate G_setk_wafter G_setk_implicit G_setu_state G_setu_index G_setu_position G_setu_cmd G_setu_var G_setu_type G_setu_wbuf G_setu_wstate G_setu_wafter G_setu_ring G_setu_tail G_setu_head G_setu_count G_set_cbuf G_set_ubuf G_set_mem G_set_dis_cmd G_set_dis_grp G_set_fault G_set_gL G_set_gR G_setg_pos G_setg_buf G_setg_var G_setg_index : gsdb.

Lemma G_set_fault_flag : forall s, gS (set_fault_flag s) = gS s. Proof. reflexivity. Qed.
Lemma G_put_cur : forall f c s, gS (put_cur f c s) = gS s.
Proof. intros f c s. unfold put_cur. destruct f, (cu_fault c); reflexivity. Qed.
Lemma G_apply_edit : forall f e s, gS (apply_edit f e s) = gS s.
Proof.
  intros f e s. unfold apply_edit. destruct e; [|reflexivity].
  destruct (_ <? _); [apply G_put_cur | reflexivity].
Qed.
Lemma G_apply_poke : forall s p, gS (apply_poke s p) = gS s.
Proof.
  intros s p. unfold apply_poke. destruct (nth_error _ _); [|reflexivity].
  destruct (store_prefix _ _); reflexivity.
Qed.
Lemma G_pokes : forall l s, gS (fold_left apply_poke l s) = gS s.
Proof. induction l; intros s; cbn [fold_left]; [reflexivity|]. rewrite IHl. apply G_apply_poke. Qed.
Lemma G_start_flush_c : forall a s, gS (start_flush_c a s) = gS s. Proof. reflexivity. Qed.
Lemma G_start_flush_raw_c : forall a s, gS (start_flush_raw_c a s) = gS s. Proof. reflexivity. Qed.
Lemma G_start_flush_u : forall a s, gS (start_flush_u a s) = gS s. Proof. reflexivity. Qed.
Lemma G_reset_state : forall s, gS (reset_state s) = gS s.
Proof. intros s. unfold reset_state. destruct (k_hold (k s)); reflexivity. Qed.
Lemma G_unsolicited_reset_state : forall s, gS (unsolicited_reset_state s) = gS s. Proof. reflexivity. Qed.
Lemma G_enable_hold_state : forall s, gS (enable_hold_state s) = gS s. Proof. reflexivity. Qed.
Lemma G_set_loop_state : forall f rd s, gS (set_loop_state f rd s) = gS s. Proof. destruct f; reflexivity. Qed.
Lemma G_start_flush_after_ok : forall f s, gS (start_flush_after_ok f s) = gS s. Proof. destruct f; reflexivity. Qed.
Lemma G_start_flush_after : forall f ac au s, gS (start_flush_after f ac au s) = gS s. Proof. destruct f; reflexivity. Qed.
Lemma G_prepare_search_command : forall s, gS (prepare_search_command s) = gS s. Proof. reflexivity. Qed.
Lemma G_prepare_parse_command : forall s, gS (prepare_parse_command s) = gS s. Proof. reflexivity. Qed.
Lemma G_set_cmd_state : forall s i v, gS (set_cmd_state s i v) = gS s.
Proof. intros s i v. unfold set_cmd_state. destruct (nth_error _ _); reflexivity. Qed.
Lemma G_hold_exit : forall s z, gS (fst (hold_exit s z)) = gS s.
Proof. intros s z. unfold hold_exit. destruct (k_hold (k s)); reflexivity. Qed.
Lemma G_process_io_write_wait : forall s, gS (process_io_write_wait s) = gS s.
Proof. intros s. unfold process_io_write_wait. destruct (negb _); reflexivity. Qed.
Lemma G_unsolicited_process_io_write_wait : forall s, gS (unsolicited_process_io_write_wait s) = gS s.
Proof. intros s. unfold unsolicited_process_io_write_wait. destruct (negb _); reflexivity. Qed.
#[local] Hint Rewrite G_set_fault_flag G_put_cur G_apply_edit G_apply_poke G_pokes G_start_flush_c
  G_start_flush_raw_c G_start_flush_u G_reset_state G_unsolicited_reset_state G_enable_hold_state
  G_set_loop_state G_start_flush_after_ok G_start_flush_after G_prepare_search_command
  G_prepare_parse_command G_set_cmd_state G_hold_exit G_process_io_write_wait
  G_unsolicited_process_io_write_wait : gsdb.

Lemma G_print_string : forall f s t s1 ok, print_string f s t = (s1, ok) -> gS s1 = gS s.
Proof.
  intros f s t s1 ok. unfold print_string. destruct (print_nstring _ _).
  intros [= <- <-]. apply G_put_cur.
Qed.
Lemma G_print_strings : forall f s t s1 ok, print_strings f s t = (s1, ok) -> gS s1 = gS s.
Proof.
  intros f s t s1 ok. unfold print_strings. destruct (print_pieces _ _).
  intros [= <- <-]. apply G_put_cur.
Qed.
Lemma G_heff : forall c c1, heff c c1 -> gs c1 = gs c.
Proof. intros c c1 [-> | [_ [z ->]]]; reflexivity. Qed.

(* ---------- 2. the predicate ---------- *)
(* s' has the ghost counter of s, or s' is literally an acknowledge of a state that has it *)
Definition AckOr (s s' : state) : Prop :=
  gS s' = gS s \/ exists s0, (s' = ack_ok s0 \/ s' = ack_error s0) /\ gS s0 = gS s.
(* the event machine never acknowledges *)
Definition AckOrF (f : fsm) (s s' : state) : Prop :=
  match f with ATCMD => AckOr s s' | UNSOL => gS s' = gS s end.

Lemma A_same : forall s s', gS s' = gS s -> AckOr s s'.
Proof. intros s s' H. left. exact H. Qed.
Lemma A_ok : forall s s0, gS s0 = gS s -> AckOr s (ack_ok s0).
Proof. intros s s0 H. right. exists s0. split; [left; reflexivity | exact H]. Qed.
Lemma A_err : forall s s0, gS s0 = gS s -> AckOr s (ack_error s0).
Proof. intros s s0 H. right. exists s0. split; [right; reflexivity | exact H]. Qed.
Lemma AF_same : forall f s s', gS s' = gS s -> AckOrF f s s'.
Proof. intros f s s' H. destruct f; [left|]; exact H. Qed.
Lemma AF_end_ok : forall f s s0, gS s0 = gS s -> AckOrF f s (end_with_ok f s0).
Proof. intros f s s0 H. destruct f; [apply A_ok; exact H | exact H]. Qed.
Lemma AF_end_err : forall f s s0, gS s0 = gS s -> AckOrF f s (end_with_error f s0).
Proof. intros f s s0 H. destruct f; [apply A_err; exact H | exact H]. Qed.
Lemma A_base : forall s s1 s', gS s1 = gS s -> AckOr s1 s' -> AckOr s s'.
Proof.
  intros s s1 s' H [H1 | [s0 [H1 H2]]]; [left; congruence|].
  right. exists s0. split; [exact H1 | congruence].
Qed.
Lemma AF_base : forall f s s1 s', gS s1 = gS s -> AckOrF f s1 s' -> AckOrF f s s'.
Proof. intros f s s1 s' H H1. destruct f; [eapply A_base; eassumption | cbn in *; congruence]. Qed.

(* close  gS X = gS s  where X is a nest of setters over a variable with a known gS *)
Ltac gsol := autorewrite with gsdb in *; solve [reflexivity | assumption | congruence].
Ltac leaf :=
  lazymatch goal with
  | |- AckOr _ (ack_ok _) => apply A_ok; gsol
  | |- AckOr _ (ack_error _) => apply A_err; gsol
  | |- AckOr _ _ => apply A_same; gsol
  | |- AckOrF _ _ (end_with_ok _ _) => apply AF_end_ok; gsol
  | |- AckOrF _ _ (end_with_error _ _) => apply AF_end_err; gsol
  | |- AckOrF _ _ _ => apply AF_same; gsol
  | |- gS _ = gS _ => gsol
  end.
(* learn the gS of the result of a printer call *)
Ltac learn_print :=
  repeat match goal with
  | E : print_string _ _ _ = (_, _) |- _ => apply G_print_string in E
  | E : print_strings _ _ _ = (_, _) |- _ => apply G_print_strings in E
  end.

(* ---------- 3. the pure branching functions ---------- *)
Section Pure.
Variable D : desc.

Lemma G_push : forall s ci t, gS (fst (push_unsolicited_cmd D s ci t)) = gS s.
Proof.
  intros s ci t. unfold push_unsolicited_cmd. destruct (ring_full D s); cbn [fst]; [reflexivity|].
  destruct (_ <? _); reflexivity.
Qed.
Lemma G_pop : forall s, gS (fst (pop_unsolicited_cmd D s)) = gS s.
Proof.
  intros s. unfold pop_unsolicited_cmd. destruct (ring_empty s); cbn [fst]; [reflexivity|].
  destruct (nth_error _ _); reflexivity.
Qed.

Lemma G_prt : forall f s s' ok, print_response_test D f s = (s', ok) -> gS s' = gS s.
Proof.
  intros f s s' ok. unfold print_response_test.
  destruct (cmd_of D f s) as [c|]; [|intros [= <- <-]; reflexivity].
  destruct (c_descr c).
  - destruct (print_strings _ _ _) as [s1 ok1] eqn:E. learn_print.
    destruct ok1; cbn [negb]; [destruct (c_htest c)|]; intros [= <- <-]; gsol.
  - cbn [negb]. destruct (c_htest c); intros [= <- <-]; gsol.
Qed.

Lemma AF_spft : forall f s0 s, gS s = gS s0 -> AckOrF f s0 (start_processing_format_test_args D f s).
Proof.
  intros f s0 s H. unfold start_processing_format_test_args.
  destruct (cmd_of D f (setg_pos f 0 s)) as [c|]; [|leaf].
  destruct (print_string f _ (c_name c)) as [s1 ok1] eqn:E1. learn_print.
  destruct ok1; cbn [negb]; [|leaf].
  destruct (print_string f s1 _) as [s2 ok2] eqn:E2. learn_print.
  destruct ok2; cbn [negb]; [|leaf].
  destruct (c_vars c).
  - destruct (print_response_test D f s2) as [s3 ok3] eqn:E3. apply G_prt in E3.
    destruct ok3; leaf.
  - destruct f; leaf.
Qed.

Lemma AF_spfr : forall f s0 s, gS s = gS s0 -> AckOrF f s0 (start_processing_format_read_args D f s).
Proof.
  intros f s0 s H. unfold start_processing_format_read_args.
  destruct (cmd_of D f (setg_pos f 0 s)) as [c|]; [|leaf].
  destruct (print_string f _ (c_name c)) as [s1 ok1] eqn:E1. learn_print.
  destruct ok1; cbn [negb]; [|leaf].
  destruct (print_string f s1 _) as [s2 ok2] eqn:E2. learn_print.
  destruct ok2; cbn [negb]; [|leaf].
  destruct (vars_access_possible c RO).
  - destruct f; leaf.
  - destruct (c_hread c); cbn [negb]; leaf.
Qed.

(* handled: the returned state is final; not handled: only the index moved *)
Lemma AF_nfv : forall f s0 s s' h, gS s = gS s0 -> next_format_var D f s = (s', h) ->
  (h = true /\ AckOrF f s0 s') \/ (h = false /\ gS s' = gS s0).
Proof.
  intros f s0 s s' h H. unfold next_format_var.
  destruct (cmd_of D f s) as [c|]; [|intros [= <- <-]; left; split; [reflexivity|leaf]].
  destruct (_ <? _).
  - destruct (_ <=? _); intros [= <- <-]; left; (split; [reflexivity|leaf]).
  - intros [= <- <-]. right. split; [reflexivity|leaf].
Qed.

Lemma AF_fta : forall f s0 s, gS s = gS s0 -> AckOrF f s0 (format_test_args D f s).
Proof.
  intros f s0 s H. unfold format_test_args.
  destruct (cmd_of D f s) as [c|]; [|leaf].
  destruct (nth_error _ _) as [v|]; [|leaf].
  destruct (fmt_info v _) as [c1 ok].
  destruct ok; cbn [negb]; [|leaf].
  destruct (next_format_var D f _) as [s2 h] eqn:E2.
  eapply AF_nfv in E2; [|instantiate (1 := s0); gsol].
  destruct E2 as [[-> E2] | [-> E2]]; [exact E2|].
  destruct (print_response_test D f s2) as [s3 ok3] eqn:E3. apply G_prt in E3.
  destruct ok3; leaf.
Qed.

Lemma A_start_list : forall s0 s, gS s = gS s0 -> AckOr s0 (start_print_cmd_list D s).
Proof. intros s0 s H. unfold start_print_cmd_list. destruct (_ =? _); leaf. Qed.

Lemma G_update_command : forall s, gS (update_command D s) = gS s.
Proof.
  intros s. unfold update_command.
  destruct (cmd_by_index _ _) as [cm|]; [|reflexivity].
  destruct (get_cmd_state D s _) as [cs|]; [|reflexivity].
  match goal with |- context [setk_index (S _) ?X] => remember X as s1 eqn:E1 end.
  assert (H : gS s1 = gS s).
  { subst s1. repeat brk; gsol. }
  clear E1. destruct (_ <=? _); [|gsol].
  destruct (negb _); gsol.
Qed.

Lemma G_search_command : forall s, gS (search_command D s) = gS s.
Proof.
  intros s. unfold search_command.
  destruct (get_cmd_state D s _) as [cs|]; [|reflexivity].
  repeat brk; gsol.
Qed.

Lemma A_command_found : forall s0 s, gS s = gS s0 -> AckOr s0 (command_found D s).
Proof.
  intros s0 s H. unfold command_found.
  destruct (cmd_of D ATCMD s) as [cm|]; [|leaf].
  destruct (k_type (k s)); try leaf.
  - destruct (c_only_test cm); [leaf|]. destruct (c_hrun cm); cbn [negb]; leaf.
  - destruct (c_only_test cm); [leaf|]. apply (AF_spfr ATCMD). exact H.
  - destruct (cbuf _); leaf.
Qed.

Lemma G_cmd_list_next_cmd : forall s s1 more, cmd_list_next_cmd D s = (s1, more) -> gS s1 = gS s.
Proof.
  intros s s1 more. unfold cmd_list_next_cmd. destruct (_ <=? _); intros [= <- <-]; reflexivity.
Qed.

Lemma G_print_current_cmd_full_name : forall s cm sfx s1 ok,
  print_current_cmd_full_name s cm sfx = (s1, ok) -> gS s1 = gS s.
Proof.
  intros s cm sfx s1 ok. unfold print_current_cmd_full_name.
  destruct (k_length (k s) =? 0).
  - destruct (print_string ATCMD s _) as [s' ok'] eqn:E. learn_print.
    destruct ok'; cbn [negb].
    + intros H. learn_print. gsol.
    + intros [= <- <-]. exact E.
  - cbn [negb]. apply G_print_strings.
Qed.

Lemma A_print_cmd_form : forall s0 s cm av sfx nx, gS s = gS s0 -> AckOr s0 (print_cmd_form s cm av sfx nx).
Proof.
  intros s0 s cm av sfx nx H. unfold print_cmd_form. destruct av; [|leaf].
  destruct (print_current_cmd_full_name _ _ _) as [s2 ok] eqn:E.
  apply G_print_current_cmd_full_name in E.
  destruct ok; cbn [negb]; leaf.
Qed.

Lemma A_print_cmd_list : forall s0 s, gS s = gS s0 -> AckOr s0 (print_cmd_list D s).
Proof.
  intros s0 s H. unfold print_cmd_list.
  assert (Hnext : forall s1, gS s1 = gS s0 ->
    AckOr s0 (let (s2, more) := cmd_list_next_cmd D s1 in if more then s2 else ack_ok s2)).
  { intros s1 H1. destruct (cmd_list_next_cmd D s1) as [s2 more] eqn:E.
    apply G_cmd_list_next_cmd in E. destruct more; leaf. }
  destruct (cmd_by_index _ _) as [cm|]; [|leaf].
  destruct (k_type (k (setk_cmd _ s))); try (apply A_print_cmd_form; gsol); try (apply Hnext; gsol).
  destruct (is_command_disable _ _ _); [apply Hnext; gsol | leaf].
Qed.

Lemma A_process_hold_state : forall s0 s, gS s = gS s0 -> AckOr s0 (process_hold_state s).
Proof.
  intros s0 s H. unfold process_hold_state.
  destruct (_ =? 0)%Z; [leaf|]. destruct (_ <? _)%Z; leaf.
Qed.

Lemma G_check_unsolicited_buffers : forall s, gS (check_unsolicited_buffers D s) = gS s.
Proof.
  intros s. unfold check_unsolicited_buffers.
  pose proof (G_pop s) as H. destruct (pop_unsolicited_cmd D s) as [s1 it]. cbn [fst] in H.
  destruct it as [[ci t]|]; [|exact H].
  destruct t; try gsol.
  - apply (AF_spfr UNSOL). gsol.
  - apply (AF_spft UNSOL). gsol.
Qed.
End Pure.

(* ---------- 4. the part that talks to the environment ---------- *)
Section Sim.
Variable D : desc.
Variables ioS muS hS : Type.
Variable io_read : ioS -> ioS * option N.
Variable io_write : ioS -> N -> ioS * bool.
Variable mu_lock : muS -> muS * bool.
Variable mu_unlock : muS -> muS * bool.
Variable h_call : hS -> hreq -> hS * hres.

Notation world := (Fsm.world ioS muS hS).
Notation st := (Fsm.st ioS muS hS).
Notation bracket := (Fsm.bracket D ioS muS hS mu_lock mu_unlock).
Notation api_trigger := (Fsm.api_trigger D ioS muS hS mu_lock mu_unlock).
Notation api_hold_exit := (Fsm.api_hold_exit D ioS muS hS mu_lock mu_unlock).
Notation call_h := (Fsm.call_h D ioS muS hS mu_lock mu_unlock h_call).
Notation reading := (Fsm.reading ioS muS hS io_read).
Notation parse_write_args := (Fsm.parse_write_args D ioS muS hS mu_lock mu_unlock h_call).
Notation format_read_args := (Fsm.format_read_args D ioS muS hS mu_lock mu_unlock h_call).
Notation process_write_loop := (Fsm.process_write_loop D ioS muS hS mu_lock mu_unlock h_call).
Notation process_run_loop := (Fsm.process_run_loop D ioS muS hS mu_lock mu_unlock h_call).
Notation process_rt_loop := (Fsm.process_rt_loop D ioS muS hS mu_lock mu_unlock h_call).
Notation process_io_write := (Fsm.process_io_write ioS muS hS io_write).
Notation unsolicited_process_io_write := (Fsm.unsolicited_process_io_write ioS muS hS io_write).
Notation cmd_service := (Fsm.cmd_service D ioS muS hS io_read io_write mu_lock mu_unlock h_call).
Notation unsolicited_events_service := (Fsm.unsolicited_events_service D ioS muS hS io_write mu_lock mu_unlock h_call).
Notation service_body := (Fsm.service_body D ioS muS hS io_read io_write mu_lock mu_unlock h_call).
Notation do_op := (Fsm.do_op D ioS muS hS io_read io_write mu_lock mu_unlock h_call).
Notation step := (Fsm.step D ioS muS hS io_read io_write mu_lock mu_unlock h_call).

Ltac wsimpl := cbn [Fsm.st Fsm.io Fsm.mu Fsm.hs Fsm.tr Fsm.upd_st Fsm.set_st Fsm.set_io Fsm.set_mu
                    Fsm.set_hs Fsm.logw Fsm.busy fst snd] in *.

Lemma G_call_h : forall (w : world) q, gS (st (fst (call_h w q))) = gS (st w).
Proof. intros w q. exact (G_heff _ _ (call_h_heff D ioS muS hS mu_lock mu_unlock h_call w q)). Qed.

Lemma G_api_trigger : forall (w : world) ci t, gS (st (fst (api_trigger w ci t))) = gS (st w).
Proof.
  intros w ci t.
  exact (f_equal gs (C_api_trigger D ioS muS hS mu_lock mu_unlock w ci t)).
Qed.
Lemma G_api_hold_exit : forall (w : world) z, gS (st (fst (api_hold_exit w z))) = gS (st w).
Proof. intros w z. exact (G_heff _ _ (heff_api_hold_exit D ioS muS hS mu_lock mu_unlock w z)). Qed.

Ltac learn_call :=
  repeat match goal with
  | E : call_h ?w ?q = (?w', ?r) |- _ =>
      let H := fresh "Hh" in pose proof (G_call_h w q) as H; rewrite E in H; cbn [fst] in H; clear E
  end.

(* ---- reading states ---- *)
Lemma A_reading : forall (w : world) body,
  (forall ch s, gS s = gS (st w) -> AckOr (st w) (body ch s)) ->
  AckOr (st w) (st (fst (reading w body))).
Proof.
  intros w body Hb.
  destruct (reading_cases ioS muS hS io_read w body) as [[_ Hs] | [_ [ch [s1 [Hc [_ Hs]]]]]]; rewrite Hs.
  - left. reflexivity.
  - apply Hb. change (gs (ctl_of s1) = gs (ctl_of (st w))). rewrite Hc. reflexivity.
Qed.

Ltac rd f := intros w; unfold f; apply A_reading; intros ch s H;
  repeat (cbn [orb andb negb]; brk); leaf.

Lemma A_error_state : forall w : world, AckOr (st w) (st (fst (Fsm.error_state ioS muS hS io_read w))).
Proof. rd Fsm.error_state. Qed.
Lemma A_process_idle_state : forall w : world, AckOr (st w) (st (fst (Fsm.process_idle_state ioS muS hS io_read w))).
Proof. rd Fsm.process_idle_state. Qed.
Lemma A_parse_prefix : forall w : world, AckOr (st w) (st (fst (Fsm.parse_prefix ioS muS hS io_read w))).
Proof. rd Fsm.parse_prefix. Qed.
Lemma A_parse_command : forall w : world, AckOr (st w) (st (fst (Fsm.parse_command ioS muS hS io_read w))).
Proof. rd Fsm.parse_command. Qed.
Lemma A_wait_read_acknowledge : forall w : world, AckOr (st w) (st (fst (Fsm.wait_read_acknowledge ioS muS hS io_read w))).
Proof. rd Fsm.wait_read_acknowledge. Qed.
Lemma A_parse_command_args : forall w : world, AckOr (st w) (st (fst (Fsm.parse_command_args D ioS muS hS io_read w))).
Proof. rd Fsm.parse_command_args. Qed.
Lemma A_wait_test_acknowledge : forall w : world, AckOr (st w) (st (fst (Fsm.wait_test_acknowledge D ioS muS hS io_read w))).
Proof.
  intros w. unfold Fsm.wait_test_acknowledge. apply A_reading. intros ch s H.
  destruct (ch =? ch_LF)%N; [apply (AF_spft D ATCMD); exact H|].
  destruct (ch =? ch_CR)%N; leaf.
Qed.

(* ---- states that call the application ---- *)
Ltac brk2 :=
  match goal with
  | |- context [let (_, _) := (if ?b then _ else _) in _] => let E := fresh "E" in destruct b eqn:E
  | |- context [let (_, _) := (let (_, _) := ?x in _) in _] => let E := fresh "E" in destruct x eqn:E
  | _ => brk
  end.
Lemma A_parse_write_args : forall w : world, AckOr (st w) (st (fst (parse_write_args w))).
Proof.
  intros w. unfold Fsm.parse_write_args.
  repeat brk2; learn_call; wsimpl; repeat brk; leaf.
Qed.

Lemma AF_format_read_args : forall f (w : world), AckOrF f (st w) (st (fst (format_read_args f w))).
Proof.
  intros f w. unfold Fsm.format_read_args.
  repeat brk2; learn_call; wsimpl; try leaf.
  all: repeat match goal with
       | |- context [let (_, _) := fmt_var ?v ?d ?c in _] => destruct (fmt_var v d c)
       | |- context [negb ?b] => is_var b; destruct b; cbn [negb]
       | |- context [match nth_error ?l ?i with _ => _ end] => destruct (nth_error l i)
       end; try leaf.
  all: match goal with |- context [next_format_var D ?f0 ?x] =>
         let E := fresh "E" in destruct (next_format_var D f0 x) as [s2 hd] eqn:E;
         eapply AF_nfv in E; [|instantiate (1 := st w); gsol];
         destruct E as [[-> E] | [-> E]]; [exact E|]
       end.
  all: destruct (c_hread _); leaf.
Qed.

Lemma A_process_write_loop : forall w : world, AckOr (st w) (st (fst (process_write_loop w))).
Proof.
  intros w. unfold Fsm.process_write_loop.
  repeat brk2; learn_call; wsimpl; repeat brk; leaf.
Qed.

Lemma A_process_run_loop : forall w : world, AckOr (st w) (st (fst (process_run_loop w))).
Proof.
  intros w. unfold Fsm.process_run_loop.
  repeat brk2; learn_call; wsimpl; repeat brk; try leaf.
  apply A_start_list. gsol.
Qed.

Lemma AF_process_rt_loop : forall rd f (w : world), AckOrF f (st w) (st (fst (process_rt_loop rd f w))).
Proof.
  intros rd f w. unfold Fsm.process_rt_loop.
  destruct (g_cmd f (st w)) as [ci|]; [|wsimpl; leaf].
  match goal with |- context [call_h w ?q0] => set (q := q0) end. clearbody q.
  destruct (call_h w q) as [w1 r] eqn:E. learn_call. wsimpl.
  set (s' := apply_edit f (r_edit r) (st w1)).
  assert (Hs : gS s' = gS (st w)) by (subst s'; gsol).
  clearbody s'.
  destruct (_ =? RC_OK)%Z; [leaf|].
  destruct (_ =? RC_DATA_OK)%Z; [leaf|].
  destruct (_ =? RC_DATA_NEXT)%Z; [destruct rd; leaf|].
  destruct (_ =? RC_NEXT)%Z; [destruct rd; [apply AF_spfr | apply AF_spft]; exact Hs|].
  destruct (_ =? RC_HOLD)%Z; [leaf|].
  destruct (_ =? RC_HOLD_EXIT_OK)%Z; [leaf|].
  destruct (_ =? RC_HOLD_EXIT_ERROR)%Z; [leaf|].
  destruct (_ && _); [|leaf].
  destruct f; [apply A_start_list; exact Hs | leaf].
Qed.

(* ---- the flush engines ---- *)
Lemma G_process_io_write : forall w : world, gS (st (fst (process_io_write w))) = gS (st w).
Proof.
  intros w. unfold Fsm.process_io_write.
  destruct (wbuf_char _ _ _) as [ch|]; [|reflexivity].
  destruct (ch =? 0)%N.
  - wsimpl. destruct (k_wstate _); try reflexivity. destruct (cstate_beq _ _); reflexivity.
  - destruct (io_write _ _) as [io' ok]. destruct ok; reflexivity.
Qed.
Lemma G_unsolicited_process_io_write : forall w : world, gS (st (fst (unsolicited_process_io_write w))) = gS (st w).
Proof.
  intros w. unfold Fsm.unsolicited_process_io_write.
  destruct (wbuf_char _ _ _) as [ch|]; [|reflexivity].
  destruct (ch =? 0)%N.
  - wsimpl. destruct (u_wstate _); reflexivity.
  - destruct (io_write _ _) as [io' ok]. destruct ok; reflexivity.
Qed.

(* ---- the two machines ---- *)
Theorem A_cmd_service : forall w : world, AckOr (st w) (st (fst (cmd_service w))).
Proof.
  intros w. unfold Fsm.cmd_service. destruct (k_state (k (st w))); wsimpl.
  - apply A_error_state.
  - apply A_process_idle_state.
  - apply A_parse_prefix.
  - apply A_parse_command.
  - apply A_same. apply G_update_command.
  - apply A_wait_read_acknowledge.
  - apply A_same. apply G_search_command.
  - apply A_command_found. reflexivity.
  - leaf.
  - apply A_parse_command_args.
  - apply A_parse_write_args.
  - apply (AF_format_read_args ATCMD).
  - apply A_wait_test_acknowledge.
  - apply (AF_fta D ATCMD). reflexivity.
  - apply A_process_write_loop.
  - apply (AF_process_rt_loop true ATCMD).
  - apply (AF_process_rt_loop false ATCMD).
  - apply A_process_run_loop.
  - apply A_process_hold_state. reflexivity.
  - leaf.
  - apply A_same. apply G_process_io_write.
  - leaf.
  - leaf.
  - apply (AF_spfr D ATCMD). reflexivity.
  - apply (AF_spft D ATCMD). reflexivity.
  - apply A_print_cmd_list. reflexivity.
Qed.

Theorem G_uns_service : forall w : world, gS (st (fst (unsolicited_events_service w))) = gS (st w).
Proof.
  intros w. unfold Fsm.unsolicited_events_service. destruct (u_state (u (st w))); wsimpl.
  - destruct (ring_empty (st w)); cbn [negb]; [reflexivity|].
    destruct (ring_items D (st w)); wsimpl; apply G_check_unsolicited_buffers.
  - apply (AF_format_read_args UNSOL).
  - apply (AF_fta D UNSOL). reflexivity.
  - apply (AF_process_rt_loop true UNSOL).
  - apply (AF_process_rt_loop false UNSOL).
  - gsol.
  - apply G_unsolicited_process_io_write.
  - reflexivity.
  - reflexivity.
  - apply (AF_spfr D UNSOL). reflexivity.
  - apply (AF_spft D UNSOL). reflexivity.
Qed.

Theorem A_service_body : forall w : world, AckOr (st w) (st (fst (service_body w))).
Proof.
  intros w. unfold Fsm.service_body.
  pose proof (G_uns_service w) as Hu. destruct (unsolicited_events_service w) as [w1 us].
  pose proof (A_cmd_service w1) as Hc. destruct (cmd_service w1) as [w2 s].
  cbn [fst] in Hu, Hc.
  eapply A_base; [exact Hu|]. destruct (_ || _); exact Hc.
Qed.

Theorem A_do_op : forall (w : world) o, AckOr (st w) (st (fst (do_op w o))).
Proof.
  intros w o. destruct o; cbn [Fsm.do_op].
  - unfold Fsm.api_service.
    destruct (bracket_cases D ioS muS hS mu_lock mu_unlock w service_body) as [[H _] | [w1 [H1 [H _]]]]; rewrite H.
    + left. reflexivity.
    + rewrite <- H1. apply A_service_body.
  - left. apply G_api_trigger.
  - left. apply G_api_hold_exit.
  - unfold Fsm.api_is_busy. rewrite bracket_pure. left. reflexivity.
  - unfold Fsm.api_is_hold. rewrite bracket_pure. left. reflexivity.
  - unfold Fsm.api_is_full. rewrite bracket_pure. left. reflexivity.
  - left. reflexivity.
  - left. reflexivity.
  - left. reflexivity.
  - left. reflexivity.
Qed.

Lemma st_step : forall (w : world) o, st (step w o) = st (fst (do_op w o)).
Proof. intros w o. unfold Fsm.step. destruct (do_op w o) as [w' r]. reflexivity. Qed.

Theorem gS_changes_only_at_ack : forall (w : world) o,
  gS (st (step w o)) = gS (st w) \/
  exists s, (st (step w o) = ack_ok s \/ st (step w o) = ack_error s) /\ gS s = gS (st w).
Proof. intros w o. rewrite st_step. exact (A_do_op w o). Qed.

Theorem gS_changes_only_at_ack_weak : forall (w : world) o,
  gS (st (step w o)) = gS (st w) \/
  exists s, st (step w o) = ack_ok s \/ st (step w o) = ack_error s.
Proof.
  intros w o. destruct (gS_changes_only_at_ack w o) as [H | [s [H _]]]; [left; exact H|].
  right. exists s. exact H.
Qed.
End Sim.

Print Assumptions gS_changes_only_at_ack.
Print Assumptions gS_changes_only_at_ack_weak.

End P2b.


(* ================================================================== *)
(* Module P4: the pinned historical defect as a whole-line theorem *)
(* ================================================================== *)
From Coq Require Import List NArith ZArith Bool Arith Lia.
From CatV Require Import Bytes Defs Codec Spec Fsm Script ResolveDefs SchedDefs GlueDefs TextDefs.
From CatV Require Lemmas_C02e Lemmas_C11 Lemmas_C19 Lemmas_E2E.
Module P4.
(* P4 — property C01, the pinned historical defect as a whole-line theorem: a WRITE (or READ) request to an
   unknown or ambiguous name is answered with exactly one ERROR after the whole line has been drained;
   the argument text is never re-interpreted as a command line.  Style of Lemmas_E2E.unknown_line_osteps. *)
Import ListNotations.
Local Open Scope nat_scope.

Local Notation wst := (Fsm.st sio smu shs).
Local Notation wio := (Fsm.io sio smu shs).
Local Notation whs := (Fsm.hs sio smu shs).
Local Notation wtr := (Fsm.tr sio smu shs).
Local Notation idle := Lemmas_C02e.idle.
Local Notation run_flush_c := Lemmas_C11.run_flush_c.
Local Notation nl_text := Lemmas_C11.nl_text.
Local Notation keep := Lemmas_E2E.keep.
Local Notation fresh := Lemmas_E2E.fresh.

(* ---------- bytes: upper-casing never produces or hides a line terminator ---------- *)
Lemma to_upper_lf : forall c : N, (to_upper c =? ch_LF)%N = (c =? ch_LF)%N.
Proof.
  intros c. unfold to_upper, ch_LF.
  destruct ((97 <=? c)%N && (c <=? 122)%N) eqn:E; [|reflexivity].
  apply andb_true_iff in E. destruct E as [A B]. apply N.leb_le in A. apply N.leb_le in B.
  transitivity false; [apply N.eqb_neq | symmetry; apply N.eqb_neq]; lia.
Qed.

Lemma to_upper_cr : forall c : N, (to_upper c =? ch_CR)%N = (c =? ch_CR)%N.
Proof.
  intros c. unfold to_upper, ch_CR.
  destruct ((97 <=? c)%N && (c <=? 122)%N) eqn:E; [|reflexivity].
  apply andb_true_iff in E. destruct E as [A B]. apply N.leb_le in A. apply N.leb_le in B.
  transitivity false; [apply N.eqb_neq | symmetry; apply N.eqb_neq]; lia.
Qed.

Definition has_cr (bs : list N) : bool := existsb (N.eqb ch_CR) bs.

Section P4.
Variable D : desc.
Hypothesis Hmx : d_mutex D = false.
Local Notation n := (ncmds D).
Local Notation cmdsvc := (cmd_service D sio smu shs s_read s_write s_lock s_unlock s_call).
Local Notation steps := (Lemmas_C02e.steps D).
Local Notation osteps := (Lemmas_E2E.osteps D).
Local Notation osteps_trans := (Lemmas_E2E.osteps_trans D).
Local Notation osteps_of_steps := (Lemmas_E2E.osteps_of_steps D).

(* ================= 1. the flush unit and the result code, for an arbitrary k_cr ================= *)
Lemma unit_osteps_cr : forall s q txt, idle s -> k_state (k s) = CS_FLUSH ->
  k_position (k s) = 0 -> k_wstate (k s) = WS_BEFORE -> k_wbuf (k s) = WB_NL (k_cr (k s)) ->
  In 0%N (cbuf s) -> text_of (cbuf s) = txt ->
  let nl := nl_text (k_cr (k s)) in
  exists s3, osteps (3 + 2 * length nl + length txt) s q s3 q (nl ++ txt ++ nl) /\ keep s s3 /\
    k_state (k s3) = k_wafter (k s) /\
    gR s3 = (if cstate_beq (k_wafter (k s)) CS_AFTER_RESET then S (gR s) else gR s).
Proof.
  intros s q txt Hi Hs Hp Hw Hb H0 HT nl.
  destruct (Lemmas_E2E.unit_run D s txt Hp Hw Hb H0 HT) as (s3 & R & K & A & G & Hall).
  cbv zeta in *. fold nl in R, Hall.
  exists s3. split; [|auto].
  pose proof (Lemmas_E2E.flush_osteps D Hmx (3 + 2 * length nl + length txt) s q Hi) as F.
  rewrite R in F. cbn [fst snd] in F.
  apply F. intros j Hj. rewrite (Hall j Hj). exact Hs.
Qed.

Lemma emit_unit_cr : forall s q txt, idle s -> fresh s ->
  In 0%N (cbuf s) -> text_of (cbuf s) = txt ->
  let nl := nl_text (k_cr (k s)) in
  exists s3, osteps (1 + (3 + 2 * length nl + length txt)) s q s3 q (nl ++ txt ++ nl) /\ keep s s3 /\
    k_state (k s3) = k_wafter (k s) /\
    gR s3 = (if cstate_beq (k_wafter (k s)) CS_AFTER_RESET then S (gR s) else gR s).
Proof.
  intros s q txt Hi (Hs & Hp & Hw & Hb) H0 HT nl.
  assert (H1 : osteps 1 s q (setk_state CS_FLUSH s) q []).
  { apply (Lemmas_E2E.ostep_pure D Hmx s q (setk_state CS_FLUSH) Hi). intros h t. unfold cmd_service.
    cbn [Fsm.st mkw]. rewrite Hs. unfold busy, upd_st, process_io_write_wait. cbn [Fsm.st mkw].
    destruct Hi as [U _]. rewrite U. reflexivity. }
  destruct (unit_osteps_cr (setk_state CS_FLUSH s) q txt Hi eq_refl Hp Hw Hb H0 HT) as (s3 & O & K & A & G).
  exists s3. split; [|split; [|split; assumption]].
  - exact (osteps_trans _ _ _ _ _ _ _ _ _ _ H1 O).
  - exact K.
Qed.

(* a result code (text in the buffer, continuation CS_AFTER_RESET): the unit, then back to idle;
   the newline of the unit is CR LF iff a CR was seen; the reset clears the flag *)
Lemma result_tail_cr : forall s q txt, idle s -> fresh s -> k_wafter (k s) = CS_AFTER_RESET ->
  k_hold (k s) = false -> In 0%N (cbuf s) -> text_of (cbuf s) = txt ->
  let nl := nl_text (k_cr (k s)) in
  exists calls s4, osteps calls s q s4 q (nl ++ txt ++ nl) /\
    k_state (k s4) = CS_IDLE /\ mem s4 = mem s /\ fault s4 = fault s /\ u s4 = u s /\
    gL s4 = gL s /\ gS s4 = gS s /\ gR s4 = S (gR s) /\
    k_cr (k s4) = false /\ k_hold (k s4) = false /\ k_cmd (k s4) = None /\ cbuf s4 = cbuf s.
Proof.
  intros s q txt Hi Hfr Haf Hh H0 HT nl.
  destruct (emit_unit_cr s q txt Hi Hfr H0 HT) as (s3 & O & K & A & G). fold nl in O.
  rewrite Haf in A, G. cbn [cstate_beq] in G.
  pose proof K as (K1 & K2 & K3 & K4 & K5 & K6 & K7 & K8).
  assert (H2 : osteps 1 s3 q (reset_state s3) q []).
  { apply (Lemmas_E2E.ostep_pure D Hmx s3 q reset_state (Lemmas_E2E.idle_keep s s3 K Hi)). intros h t.
    unfold cmd_service. cbn [Fsm.st mkw]. rewrite A. reflexivity. }
  eexists. exists (reset_state s3). split.
  - eapply Lemmas_E2E.osteps_cast; [exact (osteps_trans _ _ _ _ _ _ _ _ _ _ O H2) | reflexivity | apply app_nil_r].
  - unfold reset_state. rewrite K7, Hh. Lemmas_C11.scbn. repeat split; congruence.
Qed.

(* ERROR has just been acknowledged *)
Lemma ack_error_tail : forall s q, idle s -> k_hold (k s) = false -> 6 <= length (cbuf s) ->
  let nl := nl_text (k_cr (k s)) in
  exists calls s4, osteps calls (ack_error s) q s4 q (nl ++ txt_ERROR ++ nl) /\
    k_state (k s4) = CS_IDLE /\ mem s4 = mem s /\ fault s4 = fault s /\ u s4 = u s /\
    gL s4 = gL s /\ gS s4 = S (gS s) /\ gR s4 = S (gR s) /\
    k_cr (k s4) = false /\ k_hold (k s4) = false /\ k_cmd (k s4) = None.
Proof.
  intros s q Hi Hh H6 nl.
  destruct (Lemmas_C19.ack_error_props s H6) as (_ & _ & _ & HT).
  assert (Hfr : fresh (ack_error s)) by (repeat split; reflexivity).
  assert (H0 : In 0%N (cbuf (ack_error s))).
  { change (In 0%N (strncpy_buf (asz s) txt_ERROR)). apply (Lemmas_E2E.In0_strncpy D). unfold asz.
    cbn [length txt_ERROR]. lia. }
  destruct (result_tail_cr (ack_error s) q txt_ERROR Hi Hfr eq_refl Hh H0 HT) as (calls & s4 & O & R).
  exists calls, s4. split; [exact O|].
  destruct R as (R1 & R2 & R3 & R4 & R5 & R6 & R7 & R8 & R9 & R10 & _).
  repeat split; assumption.
Qed.

(* ================= 2. CS_ERROR drains the line ================= *)
Definition err_body (ch : N) (s : state) : state :=
  if (ch =? ch_LF)%N then ack_error s else if (ch =? ch_CR)%N then setk_cr true s else s.

Lemma step_err : forall s c q, idle s -> k_state (k s) = CS_ERROR ->
  steps 1 s (c :: q)
    (err_body (k_char (k (Lemmas_C02e.rd_state s c))) (Lemmas_C02e.rd_state s c)) q.
Proof.
  intros s c q Hi Hs. apply (Lemmas_C02e.step_read D Hmx s c q err_body Hi).
  intros h t. unfold cmd_service. cbn [Fsm.st mkw]. rewrite Hs. reflexivity.
Qed.

(* everything but k_char and k_cr *)
Definition sameE (s s' : state) : Prop :=
  k_state (k s') = k_state (k s) /\ mem s' = mem s /\ fault s' = fault s /\ u s' = u s /\
  gL s' = gL s /\ gS s' = gS s /\ gR s' = gR s /\ k_hold (k s') = k_hold (k s) /\ cbuf s' = cbuf s.

Lemma sameE_refl : forall s, sameE s s.
Proof. intros s. unfold sameE. repeat split; reflexivity. Qed.

Lemma sameE_trans : forall a b c, sameE a b -> sameE b c -> sameE a c.
Proof.
  intros a b c (A1 & A2 & A3 & A4 & A5 & A6 & A7 & A8 & A9) (B1 & B2 & B3 & B4 & B5 & B6 & B7 & B8 & B9).
  unfold sameE. rewrite B1, B2, B3, B4, B5, B6, B7, B8, B9. repeat split; assumption.
Qed.

Lemma err_one : forall s c q, idle s -> k_state (k s) = CS_ERROR -> c <> ch_LF ->
  exists s', steps 1 s (c :: q) s' q /\ sameE s s' /\
    k_cr (k s') = k_cr (k s) || (ch_CR =? c)%N.
Proof.
  intros s c q Hi Hs Hc.
  pose proof (step_err s c q Hi Hs) as H1.
  assert (El : (to_upper c =? ch_LF)%N = false) by (rewrite to_upper_lf; apply N.eqb_neq; exact Hc).
  assert (Hrd : Lemmas_C02e.rd_state s c = setk_char (to_upper c) s).
  { unfold Lemmas_C02e.rd_state. rewrite Hs. cbn [cstate_beq]. rewrite El. reflexivity. }
  rewrite Hrd in H1. change (k_char (k (setk_char (to_upper c) s))) with (to_upper c) in H1.
  unfold err_body in H1. rewrite El, to_upper_cr in H1. rewrite (N.eqb_sym ch_CR c).
  destruct (c =? ch_CR)%N.
  - eexists. split; [exact H1|]. split; [unfold sameE; repeat split; reflexivity|].
    rewrite orb_true_r. reflexivity.
  - eexists. split; [exact H1|]. split; [unfold sameE; repeat split; reflexivity|].
    rewrite orb_false_r. reflexivity.
Qed.

Lemma err_drain : forall bs s q, idle s -> k_state (k s) = CS_ERROR -> ~ In ch_LF bs ->
  exists s', steps (length bs) s (bs ++ q) s' q /\ sameE s s' /\
    k_cr (k s') = k_cr (k s) || has_cr bs.
Proof.
  induction bs as [|c bs IH]; intros s q Hi Hs Hnl.
  - exists s. split; [apply Lemmas_C02e.steps_0|]. split; [apply sameE_refl|].
    cbn. rewrite orb_false_r. reflexivity.
  - assert (Hc : c <> ch_LF) by (intro E; apply Hnl; left; exact E).
    destruct (err_one s c (bs ++ q) Hi Hs Hc) as (s1 & H1 & K1 & C1).
    pose proof K1 as (S1 & _ & _ & U1 & _).
    destruct (IH s1 q (Lemmas_C02e.idle_of_u s s1 U1 Hi) (eq_trans S1 Hs)) as (s2 & H2 & K2 & C2).
    { intro H. apply Hnl. right. exact H. }
    exists s2. split; [|split].
    + change (length (c :: bs)) with (1 + length bs). cbn [app].
      exact (Lemmas_C02e.steps_trans D _ _ _ _ _ _ _ _ H1 H2).
    + exact (sameE_trans _ _ _ K1 K2).
    + rewrite C2, C1. unfold has_cr. cbn [existsb]. rewrite orb_assoc. reflexivity.
Qed.

(* the rest of a line in CS_ERROR: dropped bytes, the line feed, the result code ERROR, the reset *)
Lemma err_line : forall bs s rest, idle s -> k_state (k s) = CS_ERROR -> ~ In ch_LF bs ->
  k_hold (k s) = false -> 6 <= length (cbuf s) ->
  let nl := nl_text (k_cr (k s) || has_cr bs) in
  exists calls s4, osteps calls s (bs ++ [ch_LF] ++ rest) s4 rest (nl ++ txt_ERROR ++ nl) /\
    k_state (k s4) = CS_IDLE /\ mem s4 = mem s /\ fault s4 = fault s /\ u s4 = u s /\
    gL s4 = S (gL s) /\ gS s4 = S (gS s) /\ gR s4 = S (gR s) /\
    k_cr (k s4) = false /\ k_hold (k s4) = false /\ k_cmd (k s4) = None.
Proof.
  intros bs s rest Hi Hs Hnl Hh H6 nl.
  destruct (err_drain bs s ([ch_LF] ++ rest) Hi Hs Hnl) as (s1 & H1 & K1 & C1).
  destruct K1 as (S1 & M1 & F1 & U1 & L1 & G1 & R1 & Ho1 & B1).
  assert (Hi1 : idle s1) by exact (Lemmas_C02e.idle_of_u s s1 U1 Hi).
  assert (Hs1 : k_state (k s1) = CS_ERROR) by congruence.
  pose proof (step_err s1 ch_LF rest Hi1 Hs1) as H2.
  set (s2 := set_gL (S (gL s1)) (setk_char ch_LF s1)).
  assert (Hrd : Lemmas_C02e.rd_state s1 ch_LF = s2).
  { unfold Lemmas_C02e.rd_state. rewrite Hs1. reflexivity. }
  rewrite Hrd in H2. change (k_char (k s2)) with ch_LF in H2.
  unfold err_body in H2. change (ch_LF =? ch_LF)%N with true in H2. cbv iota in H2.
  assert (Hi2 : idle s2) by exact Hi1.
  destruct (ack_error_tail s2 rest Hi2) as (c3 & s4 & O3 & T1 & T2 & T3 & T4 & T5 & T6 & T7 & T8 & T9 & T10).
  { change (k_hold (k s1) = false). congruence. }
  { change (6 <= length (cbuf s1)). rewrite B1. exact H6. }
  change (k_cr (k s2)) with (k_cr (k s1)) in O3. rewrite C1 in O3. fold nl in O3.
  eexists. exists s4. split.
  - exact (osteps_trans _ _ _ _ _ _ _ _ _ _ (osteps_of_steps _ _ _ _ _ H1)
             (osteps_trans _ _ _ _ _ _ _ _ _ _ (osteps_of_steps _ _ _ _ _ H2) O3)).
  - change (mem s2) with (mem s1) in T2. change (fault s2) with (fault s1) in T3.
    change (u s2) with (u s1) in T4. change (gL s2) with (S (gL s1)) in T5.
    change (gS s2) with (gS s1) in T6. change (gR s2) with (gR s1) in T7.
    repeat split; congruence.
Qed.

(* the name was looked up at the end of the line and not found *)
Lemma nf_tail : forall s q, idle s -> k_state (k s) = CS_COMMAND_NOT_FOUND ->
  k_hold (k s) = false -> 6 <= length (cbuf s) ->
  let nl := nl_text (k_cr (k s)) in
  exists calls s4, osteps calls s q s4 q (nl ++ txt_ERROR ++ nl) /\
    k_state (k s4) = CS_IDLE /\ mem s4 = mem s /\ fault s4 = fault s /\ u s4 = u s /\
    gL s4 = gL s /\ gS s4 = S (gS s) /\ gR s4 = S (gR s) /\
    k_cr (k s4) = false /\ k_hold (k s4) = false /\ k_cmd (k s4) = None.
Proof.
  intros s q Hi Hs Hh H6 nl.
  assert (H1 : osteps 1 s q (ack_error s) q []).
  { apply (Lemmas_E2E.ostep_pure D Hmx s q ack_error Hi). intros h t. unfold cmd_service. cbn [Fsm.st mkw].
    rewrite Hs. reflexivity. }
  destruct (ack_error_tail s q Hi Hh H6) as (calls & s4 & O & R). fold nl in O.
  eexists. exists s4. split; [exact (osteps_trans _ _ _ _ _ _ _ _ _ _ H1 O) | exact R].
Qed.

(* a line splits into leading carriage returns and a tail that does not start with one *)
Lemma cr_split : forall bs : list N, exists m tl, bs = repeat ch_CR m ++ tl /\
  match tl with [] => True | c :: _ => c <> ch_CR end.
Proof.
  induction bs as [|c bs IH]; [exists 0, []; split; [reflexivity | exact I]|].
  destruct (N.eq_dec c ch_CR) as [E|E].
  - destruct IH as (m & tl & -> & H). exists (S m), tl. subst c. split; [reflexivity | exact H].
  - exists 0, (c :: bs). split; [reflexivity | exact E].
Qed.

Lemma has_cr_app : forall a b, has_cr (a ++ b) = has_cr a || has_cr b.
Proof. intros a b. unfold has_cr. apply existsb_app. Qed.

(* ================= 3. whole lines ================= *)
Section Lines.
Variable s : state.
Hypothesis Hn : 0 < n.
Hypothesis HL : n <= 4 * length (cbuf s).
Hypothesis H6 : 6 <= length (cbuf s).
Hypothesis Hf : fault s = false.
Hypothesis Hst : k_state (k s) = CS_IDLE.
Hypothesis Hcr : k_cr (k s) = false.
Hypothesis Himp : k_implicit (k s) = false.
Hypothesis Hhold : k_hold (k s) = false.
Hypothesis Hidle : idle s.

Local Notation line_done := (Lemmas_E2E.line_done s).

(* "AT" name "=" bs LF  for an unknown or ambiguous name *)
Lemma unresolved_write_line_osteps : forall name bs rest,
  name_ok name = true -> implicit_hit D s (upper name) = false ->
  resolve (upper name) (enabled D s) (cmds D) = None -> ~ In ch_LF bs ->
  let nl := nl_text (has_cr bs) in
  exists calls s4,
    osteps calls s ([ch_A; ch_T] ++ name ++ [ch_EQ] ++ bs ++ [ch_LF] ++ rest) s4 rest
      (nl ++ txt_ERROR ++ nl) /\
    line_done s4.
Proof.
  intros name bs rest Hok Hh Hres Hnl nl.
  destruct (Lemmas_E2E.dispatch_eq_ex D Hmx s Hn HL Hf Hst Himp Hidle name (bs ++ [ch_LF] ++ rest) Hok Hh)
    as (c1 & s2 & H1 & (M2 & F2 & U2 & R2) & S2).
  rewrite Hres in R2. unfold Lemmas_C02e.NF in R2. change (ch_EQ =? ch_LF)%N with false in R2. cbv iota in R2.
  unfold Lemmas_E2E.six in S2.
  assert (G2 : gL s2 = gL s /\ gS s2 = gS s /\ gR s2 = gR s /\ k_cr (k s2) = false /\
               k_hold (k s2) = false /\ length (cbuf s2) = length (cbuf s)).
  { repeat split; congruence. }
  destruct G2 as (gl2 & gs2 & gr2 & cr2 & ho2 & len2).
  assert (Hi2 : idle s2) by (apply (Lemmas_C02e.idle_of_u s); assumption).
  destruct (err_line bs s2 rest Hi2 R2 Hnl ho2)
    as (c2 & s6 & O4 & R1 & R3 & R4 & R5 & R6 & R7 & R8 & R9 & R10 & R11); [lia|].
  rewrite cr2 in O4. cbn [orb] in O4. fold nl in O4.
  eexists. exists s6. split.
  - exact (osteps_trans _ _ _ _ _ _ _ _ _ _ (osteps_of_steps _ _ _ _ _ H1) O4).
  - unfold Lemmas_E2E.line_done. repeat split; congruence.
Qed.

Local Notation run := (Lemmas_C02e.run D s).
Local Notation WR := (Lemmas_C02e.WR D s).
Local Notation tweak := Lemmas_C02e.tweak.

(* Lemmas_C02e.cr_steps with the carriage-return flag explicit *)
Lemma cr_steps_ex : forall typed, implicit_hit D s typed = false ->
  forall m cr ch q, exists ch',
    steps m (WR typed cr ch) (repeat ch_CR m ++ q) (WR typed (cr || has_cr (repeat ch_CR m)) ch') q.
Proof.
  intros typed Hh. destruct (Lemmas_C02e.run_good D s Hn HL Hf Himp Hidle typed Hh) as [_ [_ [_ [_ [Hi _]]]]].
  induction m as [|m IH]; intros cr ch q.
  - exists ch. cbn [repeat has_cr existsb app]. rewrite orb_false_r. apply Lemmas_C02e.steps_0.
  - destruct (IH true ch_CR q) as [ch' H2]. exists ch'. cbn [orb] in H2.
    replace (cr || has_cr (repeat ch_CR (S m))) with true by (cbn; rewrite orb_true_r; reflexivity).
    change (S m) with (1 + m). cbn [repeat app].
    eapply Lemmas_C02e.steps_trans; [|exact H2].
    exact (Lemmas_C02e.step_wra D Hmx (WR typed cr ch) ch_CR (repeat ch_CR m ++ q) Hi eq_refl).
Qed.

(* "AT" name "?" bs LF : if bs consists of carriage returns the name is looked up at the line feed;
   otherwise the first other byte sends the machine to CS_ERROR, which drains the line *)
Lemma unresolved_read_line_osteps : forall name bs rest,
  name_ok name = true -> implicit_hit D s (upper name) = false ->
  resolve (upper name) (enabled D s) (cmds D) = None -> ~ In ch_LF bs ->
  let nl := nl_text (has_cr bs) in
  exists calls s4,
    osteps calls s ([ch_A; ch_T] ++ name ++ [ch_QM] ++ bs ++ [ch_LF] ++ rest) s4 rest
      (nl ++ txt_ERROR ++ nl) /\
    line_done s4.
Proof.
  intros name bs rest Hok Hh Hres Hnl nl.
  destruct (Lemmas_C02e.name_ok_split name Hok) as [Hne Hc].
  pose proof (Lemmas_E2E.upper_ne name Hne) as Hne'.
  set (typed := upper name) in *.
  pose proof (Lemmas_E2E.six_run D s typed) as S6. unfold Lemmas_E2E.six in S6.
  assert (G : gL (run typed) = gL s /\ gS (run typed) = gS s /\ gR (run typed) = gR s /\
              k_cr (k (run typed)) = false /\ k_hold (k (run typed)) = false /\
              length (cbuf (run typed)) = length (cbuf s)) by (repeat split; congruence).
  destruct G as (gl & gs & gr & cr0 & ho & len).
  destruct (Lemmas_C02e.run_good D s Hn HL Hf Himp Hidle typed Hh) as (Fr & _ & _ & _ & Hir & Ur & Mr).
  destruct (cr_split bs) as (m & tl & Ebs & Htl).
  destruct (cr_steps_ex typed Hh m (k_cr (k (run typed))) ch_QM (tl ++ [ch_LF] ++ rest)) as (ch' & H3).
  rewrite cr0 in H3. cbn [orb] in H3.
  set (cr' := has_cr (repeat ch_CR m)) in *.
  assert (P : steps (2 + (length name * S n + (1 + m))) s
                ([ch_A; ch_T] ++ name ++ [ch_QM] ++ bs ++ [ch_LF] ++ rest)
                (WR typed cr' ch') (tl ++ [ch_LF] ++ rest)).
  { rewrite Ebs, <- (app_assoc (repeat ch_CR m)). cbn [app].
    eapply Lemmas_C02e.steps_trans; [apply (Lemmas_C02e.at_steps D Hmx s Hst Hidle)|].
    eapply Lemmas_C02e.steps_trans;
      [apply (Lemmas_C02e.name_steps D Hmx s Hn HL Hf Himp Hidle name
                (ch_QM :: repeat ch_CR m ++ tl ++ ch_LF :: rest) Hc Hh)|].
    eapply Lemmas_C02e.steps_trans;
      [apply (Lemmas_C02e.qm_step D Hmx s Hn HL Hf Himp Hidle typed
                (repeat ch_CR m ++ tl ++ ch_LF :: rest) Hne' Hh)|].
    rewrite cr0. exact H3. }
  destruct tl as [|c tl].
  - (* only carriage returns: the lookup fails at the line feed *)
    assert (Enl : has_cr bs = cr') by (rewrite Ebs, app_nil_r; reflexivity).
    destruct (Lemmas_E2E.finish_search_ex D Hmx s Hn HL Hf Himp Hidle typed ch_LF T_READ cr'
                (S (gL (run typed))) rest Hne' Hh) as (j & s2 & Hj & H5 & (M2 & F2 & U2 & R2) & S2).
    rewrite Hres in R2. unfold Lemmas_C02e.NF in R2. change (ch_LF =? ch_LF)%N with true in R2. cbv iota in R2.
    unfold Lemmas_E2E.six in S2.
    assert (G2 : gL s2 = S (gL s) /\ gS s2 = gS s /\ gR s2 = gR s /\ k_cr (k s2) = cr' /\
                 k_hold (k s2) = false /\ length (cbuf s2) = length (cbuf s)).
    { repeat split; congruence. }
    destruct G2 as (gl2 & gs2 & gr2 & cr2 & ho2 & len2).
    assert (Hi2 : idle s2) by (apply (Lemmas_C02e.idle_of_u s); assumption).
    destruct (nf_tail s2 rest Hi2 R2 ho2)
      as (c2 & s6 & O4 & R1 & R3 & R4 & R5 & R6 & R7 & R8 & R9 & R10 & R11); [lia|].
    rewrite cr2 in O4. unfold nl. rewrite Enl.
    pose proof (Lemmas_C02e.lf_step D Hmx s Hn HL Hf Himp Hidle typed Hh cr' ch' rest) as H4.
    eexists. exists s6. split.
    + exact (osteps_trans _ _ _ _ _ _ _ _ _ _ (osteps_of_steps _ _ _ _ _ P)
               (osteps_trans _ _ _ _ _ _ _ _ _ _ (osteps_of_steps _ _ _ _ _ H4)
                  (osteps_trans _ _ _ _ _ _ _ _ _ _ (osteps_of_steps _ _ _ _ _ H5) O4))).
    + unfold Lemmas_E2E.line_done. repeat split; congruence.
  - (* a byte that is neither CR nor LF: CS_ERROR *)
    assert (Hc1 : c <> ch_LF).
    { intro E. apply Hnl. rewrite Ebs. apply in_or_app. right. left. exact E. }
    assert (Hnl' : ~ In ch_LF tl).
    { intro H. apply Hnl. rewrite Ebs. apply in_or_app. right. right. exact H. }
    assert (Enl : has_cr bs = cr' || has_cr tl).
    { rewrite Ebs, has_cr_app. fold cr'. change (has_cr (c :: tl)) with ((ch_CR =? c)%N || has_cr tl).
      rewrite (N.eqb_sym ch_CR c). apply N.eqb_neq in Htl. rewrite Htl. reflexivity. }
    set (W := WR typed cr' ch') in *.
    pose proof (Lemmas_C02e.step_wra D Hmx W c (tl ++ [ch_LF] ++ rest) Hir eq_refl) as H4.
    assert (El : (to_upper c =? ch_LF)%N = false) by (rewrite to_upper_lf; apply N.eqb_neq; exact Hc1).
    assert (Ec : (to_upper c =? ch_CR)%N = false) by (rewrite to_upper_cr; apply N.eqb_neq; exact Htl).
    set (s1 := setk_state CS_ERROR (setk_char (to_upper c) W)).
    assert (Hrd : Lemmas_C02e.wra_body (k_char (k (Lemmas_C02e.rd_state W c))) (Lemmas_C02e.rd_state W c) = s1).
    { assert (E1 : Lemmas_C02e.rd_state W c = setk_char (to_upper c) W).
      { unfold Lemmas_C02e.rd_state. change (k_state (k W)) with CS_WAIT_READ_ACK. cbn [cstate_beq].
        rewrite El. reflexivity. }
      rewrite E1. change (k_char (k (setk_char (to_upper c) W))) with (to_upper c).
      unfold Lemmas_C02e.wra_body. rewrite El, Ec. reflexivity. }
    rewrite Hrd in H4.
    assert (Hi1 : idle s1) by exact Hir.
    destruct (err_line tl s1 rest Hi1 eq_refl Hnl')
      as (c2 & s6 & O4 & R1 & R3 & R4 & R5 & R6 & R7 & R8 & R9 & R10 & R11).
    { change (k_hold (k (run typed)) = false). exact ho. }
    { change (6 <= length (cbuf (run typed))). lia. }
    change (k_cr (k s1)) with cr' in O4. unfold nl. rewrite Enl.
    change (mem s1) with (mem (run typed)) in R3. change (fault s1) with (fault (run typed)) in R4.
    change (u s1) with (u (run typed)) in R5. change (gL s1) with (gL (run typed)) in R6.
    change (gS s1) with (gS (run typed)) in R7. change (gR s1) with (gR (run typed)) in R8.
    eexists. exists s6. split.
    + exact (osteps_trans _ _ _ _ _ _ _ _ _ _ (osteps_of_steps _ _ _ _ _ P)
               (osteps_trans _ _ _ _ _ _ _ _ _ _ (osteps_of_steps _ _ _ _ _ H4) O4)).
    + unfold Lemmas_E2E.line_done. repeat split; congruence.
Qed.

End Lines.
End P4.

(* ================= 4. the final statement ================= *)
Theorem E2E_unresolved_write_line_proof : forall D s name bs rest h,
  d_mutex D = false -> 0 < ncmds D -> ncmds D <= 4 * length (cbuf s) -> 6 <= length (cbuf s) ->
  fault s = false ->
  k_state (k s) = CS_IDLE -> k_cr (k s) = false -> k_implicit (k s) = false -> k_hold (k s) = false ->
  u_state (u s) = US_IDLE -> u_count (u s) = 0 ->
  name_ok name = true -> implicit_hit D s (upper name) = false ->
  resolve (upper name) (enabled D s) (cmds D) = None ->
  ~ In ch_LF bs ->
  let nl := if existsb (N.eqb ch_CR) bs then [ch_CR; ch_LF] else [ch_LF] in
  let w0 := mkw s ([ch_A; ch_T] ++ name ++ [ch_EQ] ++ bs ++ [ch_LF] ++ rest) h [] in
  exists calls, let w := nsvc D calls w0 in
    k_state (k (wst w)) = CS_IDLE /\ inq (wio w) = rest /\ whs w = h /\ calls_of (wtr w) = [] /\
    mem (wst w) = mem s /\ fault (wst w) = false /\
    output_of (wtr w) = nl ++ txt_ERROR ++ nl /\
    gL (wst w) = S (gL s) /\ gS (wst w) = S (gS s) /\ gR (wst w) = S (gR s) /\
    k_cr (k (wst w)) = false.
Proof.
  intros D s name bs rest h Hmx Hn HL H6 Hf Hst Hcr Himp Hhold Hu1 Hu2 Hok Hh Hres Hnl nl w0.
  destruct (unresolved_write_line_osteps D Hmx s Hn HL H6 Hf Hst Hcr Himp Hhold (conj Hu1 Hu2)
              name bs rest Hok Hh Hres Hnl)
    as (calls & s4 & O & (L1 & L2 & L3 & L4 & L5 & L6 & L7 & L8 & _)).
  exists calls. intros w.
  destruct (Lemmas_E2E.osteps_world D calls s _ s4 rest _ h O) as (E1 & E2 & E3 & E4 & E5).
  fold w0 in E1, E2, E3, E4, E5. fold w in E1, E2, E3, E4, E5. rewrite E1.
  repeat (split; [assumption|]). assumption.
Qed.

Theorem E2E_unresolved_read_line_proof : forall D s name bs rest h,
  d_mutex D = false -> 0 < ncmds D -> ncmds D <= 4 * length (cbuf s) -> 6 <= length (cbuf s) ->
  fault s = false ->
  k_state (k s) = CS_IDLE -> k_cr (k s) = false -> k_implicit (k s) = false -> k_hold (k s) = false ->
  u_state (u s) = US_IDLE -> u_count (u s) = 0 ->
  name_ok name = true -> implicit_hit D s (upper name) = false ->
  resolve (upper name) (enabled D s) (cmds D) = None ->
  ~ In ch_LF bs ->
  let nl := if existsb (N.eqb ch_CR) bs then [ch_CR; ch_LF] else [ch_LF] in
  let w0 := mkw s ([ch_A; ch_T] ++ name ++ [ch_QM] ++ bs ++ [ch_LF] ++ rest) h [] in
  exists calls, let w := nsvc D calls w0 in
    k_state (k (wst w)) = CS_IDLE /\ inq (wio w) = rest /\ whs w = h /\ calls_of (wtr w) = [] /\
    mem (wst w) = mem s /\ fault (wst w) = false /\
    output_of (wtr w) = nl ++ txt_ERROR ++ nl /\
    gL (wst w) = S (gL s) /\ gS (wst w) = S (gS s) /\ gR (wst w) = S (gR s) /\
    k_cr (k (wst w)) = false.
Proof.
  intros D s name bs rest h Hmx Hn HL H6 Hf Hst Hcr Himp Hhold Hu1 Hu2 Hok Hh Hres Hnl nl w0.
  destruct (unresolved_read_line_osteps D Hmx s Hn HL H6 Hf Hst Hcr Himp Hhold (conj Hu1 Hu2)
              name bs rest Hok Hh Hres Hnl)
    as (calls & s4 & O & (L1 & L2 & L3 & L4 & L5 & L6 & L7 & L8 & _)).
  exists calls. intros w.
  destruct (Lemmas_E2E.osteps_world D calls s _ s4 rest _ h O) as (E1 & E2 & E3 & E4 & E5).
  fold w0 in E1, E2, E3, E4, E5. fold w in E1, E2, E3, E4, E5. rewrite E1.
  repeat (split; [assumption|]). assumption.
Qed.

Print Assumptions E2E_unresolved_write_line_proof.
Print Assumptions E2E_unresolved_read_line_proof.

(* ================= 5. non-vacuity: the instance E2E_examples of Lemmas_E2E.v =================
   table  +X (variables, no handlers)  and  +XY (run handler): the name + is an ambiguous abbreviation,
   +Q is unknown;  obs = (state, remaining input, handler scripts, calls, output, memory, fault, (gL, gS, gR)) *)
Module C01s_examples.
Import Lemmas_E2E.E2E_examples.

(* the hypotheses hold for the names + and +Q on (D0, s0) *)
Example E2E_ex_unres_hyps :
  hyps_ok D0 s0 = true /\
  name_ok [43]%N = true /\ implicit_hit D0 s0 (upper [43]%N) = false /\
  resolve (upper [43]%N) (enabled D0 s0) (cmds D0) = None /\
  name_ok [43; 81]%N = true /\ implicit_hit D0 s0 (upper [43; 81]%N) = false /\
  resolve (upper [43; 81]%N) (enabled D0 s0) (cmds D0) = None.
Proof. vm_compute. repeat split; reflexivity. Qed.

(* AT+=5,"a" CR LF 1 2 3 : after exactly 29 calls the parser is idle, 1 2 3 is still queued, no call,
   the output is CR LF ERROR CR LF (one result code), memory unchanged, counters (1,1,1) *)
Example E2E_ex_unres_write_run :
  go s0 ([65; 84; 43; 61; 53; 44; 34; 97; 34; 13; 10; 1; 2; 3]%N) 29 =
    (CS_IDLE, [1; 2; 3]%N, [], [], [13; 10; 69; 82; 82; 79; 82; 13; 10]%N, m0, false, (1, 1, 1)).
Proof. vm_compute. reflexivity. Qed.

(* AT+Q=AT+XY LF AT+XY LF : the argument text AT+XY is NOT executed: when the first line is complete
   (29 calls) there is one ERROR, no handler call, and the second line is still in the queue; when the
   second line is complete as well there is exactly one call of the run handler of +XY (command 1), two
   result codes, counters (2,2,2).  In the original library the first line alone produced ERROR, a
   call of the handler and OK. *)
Example E2E_ex_unres_write_noexec :
  go s0 ([65; 84; 43; 81; 61; 65; 84; 43; 88; 89; 10; 65; 84; 43; 88; 89; 10]%N) 29 =
    (CS_IDLE, [65; 84; 43; 88; 89; 10]%N, [], [], [10; 69; 82; 82; 79; 82; 10]%N, m0, false, (1, 1, 1)) /\
  go s0 ([65; 84; 43; 81; 61; 65; 84; 43; 88; 89; 10; 65; 84; 43; 88; 89; 10]%N) 70 =
    (CS_IDLE, [], [], [(HRun 1, 3%Z)], [10; 69; 82; 82; 79; 82; 10; 10; 79; 75; 10]%N, m0, false, (2, 2, 2)).
Proof. vm_compute. split; reflexivity. Qed.

(* the general theorem applied to the first instance *)
Example E2E_ex_unres_write_apply :
  exists calls,
    let w := nsvc D0 calls (mkw s0 ([65; 84; 43; 61; 53; 44; 34; 97; 34; 13; 10; 1; 2; 3]%N) [] []) in
    k_state (k (wst w)) = CS_IDLE /\ inq (wio w) = [1; 2; 3]%N /\ calls_of (wtr w) = [] /\
    output_of (wtr w) = [13; 10; 69; 82; 82; 79; 82; 13; 10]%N /\ k_cr (k (wst w)) = false.
Proof.
  destruct E2E_ex_unres_hyps as (_ & H2 & H3 & H4 & _).
  assert (Hnl : ~ In ch_LF [53; 44; 34; 97; 34; 13]%N).
  { cbn [In]. intros H. repeat (destruct H as [H|H]; [discriminate H|]). exact H. }
  destruct (E2E_unresolved_write_line_proof D0 s0 [43]%N [53; 44; 34; 97; 34; 13]%N [1; 2; 3]%N []
              eq_refl ltac:(apply Nat.ltb_lt; reflexivity) ltac:(apply Nat.leb_le; reflexivity)
              ltac:(apply Nat.leb_le; reflexivity)
              eq_refl eq_refl eq_refl eq_refl eq_refl eq_refl eq_refl H2 H3 H4 Hnl)
    as (calls & A & B & _ & C & _ & _ & O & _ & _ & _ & R).
  exists calls. cbv zeta. split; [exact A|]. split; [exact B|]. split; [exact C|]. split; [exact O | exact R].
Qed.

(* the READ form:  AT+Q? CR x CR LF 7  (a stray byte after the question mark, 27 calls)  and
   AT+? CR CR LF 7  (only carriage returns: the ambiguous name is looked up, 26 calls) *)
Example E2E_ex_unres_read_run :
  go s0 ([65; 84; 43; 81; 63; 13; 120; 13; 10; 7]%N) 27 =
    (CS_IDLE, [7]%N, [], [], [13; 10; 69; 82; 82; 79; 82; 13; 10]%N, m0, false, (1, 1, 1)) /\
  go s0 ([65; 84; 43; 63; 13; 13; 10; 7]%N) 26 =
    (CS_IDLE, [7]%N, [], [], [13; 10; 69; 82; 82; 79; 82; 13; 10]%N, m0, false, (1, 1, 1)).
Proof. vm_compute. split; reflexivity. Qed.

Example E2E_ex_unres_read_apply :
  exists calls,
    let w := nsvc D0 calls (mkw s0 ([65; 84; 43; 81; 63; 13; 120; 13; 10; 7]%N) [] []) in
    k_state (k (wst w)) = CS_IDLE /\ inq (wio w) = [7]%N /\ calls_of (wtr w) = [] /\
    output_of (wtr w) = [13; 10; 69; 82; 82; 79; 82; 13; 10]%N.
Proof.
  destruct E2E_ex_unres_hyps as (_ & _ & _ & _ & H2 & H3 & H4).
  assert (Hnl : ~ In ch_LF [13; 120; 13]%N).
  { cbn [In]. intros H. repeat (destruct H as [H|H]; [discriminate H|]). exact H. }
  destruct (E2E_unresolved_read_line_proof D0 s0 [43; 81]%N [13; 120; 13]%N [7]%N []
              eq_refl ltac:(apply Nat.ltb_lt; reflexivity) ltac:(apply Nat.leb_le; reflexivity)
              ltac:(apply Nat.leb_le; reflexivity)
              eq_refl eq_refl eq_refl eq_refl eq_refl eq_refl eq_refl H2 H3 H4 Hnl)
    as (calls & A & B & _ & C & _ & _ & O & _).
  exists calls. cbv zeta. split; [exact A|]. split; [exact B|]. split; [exact C | exact O].
Qed.
End C01s_examples.

Print Assumptions E2E_unresolved_write_line_proof.

End P4.
