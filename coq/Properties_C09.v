(* Properties_C09.v — property C09: a disabled command (own flag or group flag) is invisible: it
   cannot be matched or abbreviated and does not make other abbreviations ambiguous (1); the request
   forms the dispatcher serves are those of Spec.dispatch_accepts, a test-only command answers only
   '=?', and a form for which the command has neither handler nor accessible variable is answered
   ERROR with no side effect (2); in every history, whenever the command machine can call a handler
   or a variable callback or store into a variable, the selected command is a registered, enabled
   one, and a step of the command machine stores at most into the current variable of that
   command (3).  Proofs are in Lemmas_C09.v (and Lemmas_C02.v for (1)). *)
From Coq Require Import List NArith ZArith Bool Arith.
From CatV Require Import Bytes Defs Codec Spec Fsm Script TraceDefs ResolveDefs TextDefs CollectDefs.
From CatV Require Import Lemmas_C02 Lemmas_C09.
Import ListNotations.
Local Open Scope nat_scope.

(* ------------------------------------------------------------------ *)
(* 1. resolution and the enable flags (Spec.resolve is what search_command computes over the
      enabled commands: C02_resolve, with en i = negb (is_command_disable D s i))              *)
(* ------------------------------------------------------------------ *)
Theorem C09_resolve_enabled : forall typed en cs i,
  resolve typed en cs = Some i -> en i = true /\ i < length cs.
Proof. exact Lemmas_C02.C09_resolve_enabled. Qed.
Print Assumptions C09_resolve_enabled.

Theorem C09_resolve_ext : forall typed en1 en2 cs,
  (forall i, i < length cs -> en1 i = en2 i) -> resolve typed en1 cs = resolve typed en2 cs.
Proof. exact Lemmas_C02.C09_resolve_ext. Qed.
Print Assumptions C09_resolve_ext.

(* ------------------------------------------------------------------ *)
(* 2. the request forms                                                 *)
(* ------------------------------------------------------------------ *)
(* refused: the ERROR result code is started and nothing else happens *)
Definition refused (s s' : state) : Prop := s' = ack_error s.

(* ... i.e. no variable, flag or event-machine field changes, the selection is kept, the buffer
   holds "ERROR" and the flush leads to the reset of the line *)
Theorem C09_refused_means : forall s s', refused s s' -> 5 <= length (cbuf s) ->
  mem s' = mem s /\ u s' = u s /\ dis_cmd s' = dis_cmd s /\ dis_grp s' = dis_grp s /\
  fault s' = fault s /\ k_cmd (k s') = k_cmd (k s) /\
  k_state (k s') = CS_FLUSH_WAIT /\ k_wafter (k s') = CS_AFTER_RESET /\
  text_of (cbuf s') = txt_ERROR /\ gS s' = S (gS s).
Proof. exact Lemmas_C09.refused_facts. Qed.
Print Assumptions C09_refused_means.

Theorem C09_only_test : forall c f, c_only_test c = true -> f <> F_TEST -> dispatch_accepts c f = false.
Proof. exact Lemmas_C09.C09_only_test. Qed.
Print Assumptions C09_only_test.

(* a served READ request: the first readable variable is about to be formatted, or the read handler
   is about to be called; ERROR only when "<name>=" does not fit into the buffer *)
Definition serves_read (c : cmd) (s s' : state) : Prop :=
  mem s' = mem s /\ k_cmd (k s') = k_cmd (k s) /\
  (refused s s' \/
   (readable c = true /\ k_state (k s') = CS_FORMAT_READ_ARGS /\ k_var (k s') = 0 /\ k_index (k s') = 0) \/
   (readable c = false /\ c_hread c = true /\ k_state (k s') = CS_READ_LOOP)).

(* what an ordinary argument character does in CS_PARSE_COMMAND_ARGS *)
Definition arg_char (ch : N) (s : state) : state :=
  let len := k_length (k s) in
  if asz s <=? len then setk_state CS_ERROR s
  else
    let s1 := s |> set_cbuf (upd (cbuf s) len ch) |> setk_length (S len) in
    if S len <? asz s1 then set_cbuf (upd (cbuf s1) (S len) 0%N) s1
    else setk_state CS_ERROR s1.

Section Forms.
Variable D : desc.

(* CS_COMMAND_FOUND, request "AT<name>" *)
Theorem C09_run_form : forall s c, cmd_of D ATCMD s = Some c -> k_type (k s) = T_RUN ->
  if dispatch_accepts c F_RUN then command_found D s = setk_state CS_RUN_LOOP s
  else refused s (command_found D s).
Proof. exact (Lemmas_C09.C09_run_form D). Qed.

(* CS_COMMAND_FOUND, request "AT<name>?" *)
Theorem C09_read_form : forall s c, cmd_of D ATCMD s = Some c -> k_type (k s) = T_READ ->
  if dispatch_accepts c F_READ
  then command_found D s = start_processing_format_read_args D ATCMD s /\
       serves_read c s (command_found D s)
  else refused s (command_found D s).
Proof. exact (Lemmas_C09.C09_read_form D). Qed.

(* CS_PARSE_COMMAND_ARGS (pca_body is the body of that state), end of "AT<name>=<args>" *)
Theorem C09_write_form : forall s c, cmd_of D ATCMD s = Some c ->
  let s' := pca_body D ch_LF s in
  if dispatch_accepts c F_WRITE
  then mem s' = mem s /\ k_cmd (k s') = k_cmd (k s) /\
       ((writable c = true /\ s' = (s |> setk_state CS_PARSE_WRITE_ARGS |> setk_position 0 |> setk_index 0 |> setk_var 0)) \/
        (writable c = false /\ c_hwrite c = true /\ s' = (s |> setk_index 0 |> setk_state CS_WRITE_LOOP)))
  else refused s s'.
Proof. exact (Lemmas_C09.C09_write_form D). Qed.

(* CS_PARSE_COMMAND_ARGS, '?' as first argument character: the TEST request, or an ordinary character *)
Theorem C09_test_form : forall s c, cmd_of D ATCMD s = Some c -> k_length (k s) = 0 ->
  if dispatch_accepts c F_TEST
  then pca_body D ch_QM s = (s |> setk_type T_TEST |> setk_state CS_WAIT_TEST_ACK)
  else pca_body D ch_QM s = arg_char ch_QM s.
Proof. exact (Lemmas_C09.C09_test_form D). Qed.

Theorem C09_test_shortcut_is_dispatch : forall c, test_shortcut c = dispatch_accepts c F_TEST.
Proof. exact Lemmas_C09.test_shortcut_accepts. Qed.
End Forms.

(* an ordinary character never turns the request into TEST and touches no variable *)
Theorem C09_arg_char_facts : forall ch s,
  let s' := arg_char ch s in
  mem s' = mem s /\ k_cmd (k s') = k_cmd (k s) /\ k_type (k s') = k_type (k s) /\
  (k_state (k s') = k_state (k s) \/ k_state (k s') = CS_ERROR).
Proof. exact Lemmas_C09.arg_char_facts. Qed.

Print Assumptions C09_run_form.
Print Assumptions C09_read_form.
Print Assumptions C09_write_form.
Print Assumptions C09_test_form.
Print Assumptions C09_test_shortcut_is_dispatch.
Print Assumptions C09_arg_char_facts.

(* ------------------------------------------------------------------ *)
(* 3. histories                                                         *)
(* ------------------------------------------------------------------ *)
(* states in which the command machine uses k_cmd for callbacks, stores or response texts *)
Definition uses_cmd (x : cstate) : bool :=
  match x with
  | CS_COMMAND_FOUND | CS_PARSE_COMMAND_ARGS | CS_PARSE_WRITE_ARGS | CS_FORMAT_READ_ARGS
  | CS_WAIT_TEST_ACK | CS_FORMAT_TEST_ARGS | CS_WRITE_LOOP | CS_READ_LOOP | CS_TEST_LOOP
  | CS_RUN_LOOP | CS_AFTER_FMT_READ | CS_AFTER_FMT_TEST => true
  | _ => false
  end.
Definition is_flush (x : cstate) : bool :=
  match x with CS_FLUSH_WAIT | CS_FLUSH => true | _ => false end.
Definition fmt_cont (wa : cstate) : bool :=
  match wa with CS_AFTER_FMT_READ | CS_AFTER_FMT_TEST => true | _ => false end.
(* ... including a flush whose continuation comes back to the selected command *)
Definition needs_cmd (s : state) : bool :=
  uses_cmd (k_state (k s)) || (is_flush (k_state (k s)) && fmt_cont (k_wafter (k s))).

Definition sel_enabled (D : desc) (s : state) : Prop :=
  needs_cmd s = true ->
  exists i, k_cmd (k s) = Some i /\ i < ncmds D /\ is_command_disable D s i = false.

Definition flag_op (o : op) : bool :=
  match o with OSetCmdDisable _ _ | OSetGroupDisable _ _ => true | _ => false end.

(* stores into variable storage made by a callback *)
Definition poke_mem (m : list (list N)) (p : nat * list N) : list (list N) :=
  match nth_error m (fst p) with
  | None => m
  | Some data => match store_prefix data (snd p) with None => m | Some d => upd m (fst p) d end
  end.

Section C09.
Variable D : desc.
Variables ioS muS hS : Type.
Variable io_read : ioS -> ioS * option N.
Variable io_write : ioS -> N -> ioS * bool.
Variable mu_lock : muS -> muS * bool.
Variable mu_unlock : muS -> muS * bool.
Variable h_call : hS -> hreq -> hS * hres.

(* at least one registered command (cat_init contract) *)
Hypothesis Hn : 0 < ncmds D.

Local Notation world := (Fsm.world ioS muS hS).
Local Notation st := (Fsm.st ioS muS hS).
Local Notation mkWorld := (Fsm.mkWorld ioS muS hS).
Local Notation step := (Fsm.step D ioS muS hS io_read io_write mu_lock mu_unlock h_call).
Local Notation run := (Fsm.run D ioS muS hS io_read io_write mu_lock mu_unlock h_call).
Local Notation cmd_service := (Fsm.cmd_service D ioS muS hS io_read io_write mu_lock mu_unlock h_call).
Local Notation unsolicited_events_service :=
  (Fsm.unsolicited_events_service D ioS muS hS io_write mu_lock mu_unlock h_call).

(* the enable flags are changed only between lines: every flag operation finds the command
   machine in CS_IDLE *)
Fixpoint flags_between_lines (w : world) (ops : list op) : Prop :=
  match ops with
  | [] => True
  | o :: r => (flag_op o = true -> k_state (k (st w)) = CS_IDLE) /\ flags_between_lines (step w o) r
  end.

(* 3a. whenever the command machine is in a state from which it can call a handler or a variable
   callback, store into a variable or print from the command's description, the selected command is
   a registered and enabled one.  No assumption on the handlers (the event-side HOLD of scope
   decision D3 included), on faults or on the buffer size. *)
Theorem C09_selected_enabled : forall m x mx h ops,
  let w0 := mkWorld (init_state D m) x mx h [] in
  flags_between_lines w0 ops ->
  sel_enabled D (st (run w0 ops)).
Proof.
  exact (Lemmas_C09.C09_selected_enabled D ioS muS hS io_read io_write mu_lock mu_unlock h_call Hn).
Qed.

(* 3b. while the table is searched, the candidate (if any) is a registered, enabled command *)
Theorem C09_candidate_enabled : forall m x mx h ops,
  let w0 := mkWorld (init_state D m) x mx h [] in
  flags_between_lines w0 ops ->
  let s := st (run w0 ops) in
  k_state (k s) = CS_SEARCH_COMMAND ->
  k_index (k s) < ncmds D /\
  forall i, k_cmd (k s) = Some i -> i < ncmds D /\ is_command_disable D s i = false.
Proof.
  exact (Lemmas_C09.C09_candidate_enabled D ioS muS hS io_read io_write mu_lock mu_unlock h_call Hn).
Qed.

(* the pokes of at most one callback *)
Definition handler_pokes (pokes : list (nat * list N)) : Prop :=
  pokes = [] \/ exists h q, pokes = r_pokes (snd (h_call h q)).

(* the library's own store of one command-machine step taken in state s: none, or (argument parsing)
   the storage of the current variable of the selected command *)
Definition own_store (s : state) (m1 : list (list N)) : Prop :=
  m1 = mem s \/
  (k_state (k s) = CS_PARSE_WRITE_ARGS /\
   exists i c v d, k_cmd (k s) = Some i /\ nth_error (pool D) i = Some c /\
                   nth_error (c_vars c) (k_var (k s)) = Some v /\ m1 = upd (mem s) (v_slot v) d).

(* 3c. the store frame of ANY command-machine step: variable storage afterwards = the library's own
   store (if any), then the pokes of the one callback made in that step (if any) *)
Theorem C09_store_frame : forall (w : world), exists pokes m1,
  handler_pokes pokes /\
  mem (st (fst (cmd_service w))) = fold_left poke_mem pokes m1 /\
  own_store (st w) m1.
Proof.
  exact (Lemmas_C09.C09_store_frame D ioS muS hS io_read io_write mu_lock mu_unlock h_call).
Qed.

Theorem C09_store_frame_slots : (forall h q, r_pokes (snd (h_call h q)) = []) ->
  forall (w : world) j,
  nth_error (mem (st (fst (cmd_service w)))) j <> nth_error (mem (st w)) j ->
  k_state (k (st w)) = CS_PARSE_WRITE_ARGS /\
  exists i c v, k_cmd (k (st w)) = Some i /\ nth_error (pool D) i = Some c /\
                nth_error (c_vars c) (k_var (k (st w))) = Some v /\ j = v_slot v.
Proof.
  exact (Lemmas_C09.C09_store_frame_slots D ioS muS hS io_read io_write mu_lock mu_unlock h_call).
Qed.

(* 3d. both together: in a history, the command-machine step of the next cat_service call (taken after
   the event machine's step, from any world w' carrying the reached object state) stores at most into
   a variable of a registered, ENABLED command *)
Theorem C09_stores_concern_enabled : forall m x mx h ops (w' : world),
  let w0 := mkWorld (init_state D m) x mx h [] in
  flags_between_lines w0 ops ->
  st w' = st (run w0 ops) ->
  let w1 := fst (unsolicited_events_service w') in
  exists pokes m1,
    handler_pokes pokes /\
    mem (st (fst (cmd_service w1))) = fold_left poke_mem pokes m1 /\
    (m1 = mem (st w1) \/
     exists i c v d, k_cmd (k (st w1)) = Some i /\ i < ncmds D /\
                     is_command_disable D (st w1) i = false /\
                     nth_error (cmds D) i = Some c /\
                     nth_error (c_vars c) (k_var (k (st w1))) = Some v /\
                     m1 = upd (mem (st w1)) (v_slot v) d).
Proof.
  exact (Lemmas_C09.C09_stores_concern_enabled D ioS muS hS io_read io_write mu_lock mu_unlock h_call Hn).
Qed.

End C09.

Print Assumptions C09_selected_enabled.
Print Assumptions C09_candidate_enabled.
Print Assumptions C09_store_frame.
Print Assumptions C09_store_frame_slots.
Print Assumptions C09_stores_concern_enabled.

(* ------------------------------------------------------------------ *)
(* non-vacuity: scripted runs                                           *)
(* ------------------------------------------------------------------ *)
Definition calls (h : list event) : list hreq :=
  flat_map (fun e => match e with ECall q _ => [q] | _ => [] end) h.
Definition written (h : list event) : list N :=
  flat_map (fun e => match e with EWr _ ch true => [ch] | _ => [] end) h.

(* group 0: "+GO" (run handler), "+GET" (one uint8 RW variable, slot 0, no handler);
   group 1: "+T" (test-only, run and test handlers) *)
Definition exD : desc :=
  mkDesc [[mkCmd [43; 71; 79]%N None false false true false [] false false false;
           mkCmd [43; 71; 69; 84]%N None false false false false
                 [mkVar None VUint 1 RW false false 0] false false false];
          [mkCmd [43; 84]%N None false false true true [] false true false]]
         [] 32 None 0%N 2 false.

(* operations pre, then n cat_service calls on the input line, then operations post; the variable holds 7 *)
Definition exRun (pre : list op) (line : list N) (n : nat) (post : list op) : sworld :=
  run exD sio smu shs s_read s_write s_lock s_unlock s_call
      (sinit exD [[7%N]] (mkSio line [] []) (mkSmu [] []) [])
      (pre ++ repeat OService n ++ post).
(* variable storage, bytes written, callbacks made *)
Definition obs (w : sworld) : list (list N) * list N * list hreq :=
  (mem (Fsm.st _ _ _ w), written (TraceDefs.hist _ _ _ w), calls (TraceDefs.hist _ _ _ w)).

Definition L_GET5 : list N := [65;84;43;71;69;84;61;53;10]%N.     (* AT+GET=5 *)
Definition L_GETq : list N := [65;84;43;71;69;84;63;10]%N.        (* AT+GET?  *)
Definition L_GETr : list N := [65;84;43;71;69;84;10]%N.           (* AT+GET   *)
Definition L_G : list N := [65;84;43;71;10]%N.                    (* AT+G     *)
Definition L_T : list N := [65;84;43;84;10]%N.                    (* AT+T     *)
Definition L_Tq : list N := [65;84;43;84;61;63;10]%N.             (* AT+T=?   *)
Definition T_OK : list N := [10; 79; 75; 10]%N.
Definition T_ERROR : list N := [10; 69; 82; 82; 79; 82; 10]%N.

(* enabled: the write is served *)
Example C09_ex_enabled : obs (exRun [] L_GET5 60 []) = ([[5%N]], T_OK, []).
Proof. vm_compute. reflexivity. Qed.
(* own flag / group flag: ERROR, variable untouched, nothing called *)
Example C09_ex_own_flag : obs (exRun [OSetCmdDisable 1 true] L_GET5 60 []) = ([[7%N]], T_ERROR, []).
Proof. vm_compute. reflexivity. Qed.
Example C09_ex_group_flag : obs (exRun [OSetGroupDisable 0 true] L_GET5 60 []) = ([[7%N]], T_ERROR, []).
Proof. vm_compute. reflexivity. Qed.
(* "+G" is ambiguous while "+GO" and "+GET" are both enabled; with "+GET" disabled it abbreviates "+GO" *)
Example C09_ex_ambiguous : obs (exRun [] L_G 60 []) = ([[7%N]], T_ERROR, []).
Proof. vm_compute. reflexivity. Qed.
Example C09_ex_not_ambiguous : obs (exRun [OSetCmdDisable 1 true] L_G 60 []) = ([[7%N]], T_OK, [HRun 0]).
Proof. vm_compute. reflexivity. Qed.
(* forms: "+GET" has no run handler; its variable is readable *)
Example C09_ex_run_refused : obs (exRun [] L_GETr 60 []) = ([[7%N]], T_ERROR, []).
Proof. vm_compute. reflexivity. Qed.
Example C09_ex_read_served :
  obs (exRun [] L_GETq 80 []) = ([[7%N]], [10; 43; 71; 69; 84; 61; 55; 10]%N ++ T_OK, []).
Proof. vm_compute. reflexivity. Qed.
(* a test-only command answers only '=?' (its run handler is never called) *)
Example C09_ex_only_test_run : obs (exRun [] L_T 60 []) = ([[7%N]], T_ERROR, []).
Proof. vm_compute. reflexivity. Qed.
Example C09_ex_only_test_test :
  obs (exRun [] L_Tq 60 []) = ([[7%N]], T_OK, [HTest ATCMD 2 [43; 84; 61; 0]%N 3 16]).
Proof. vm_compute. reflexivity. Qed.
Example C09_ex_only_test_disabled : obs (exRun [OSetGroupDisable 1 true] L_Tq 60 []) = ([[7%N]], T_ERROR, []).
Proof. vm_compute. reflexivity. Qed.

(* the gating function on the example table: RUN, READ, WRITE, TEST *)
Example C09_ex_accepts :
  map (fun c => map (dispatch_accepts c) [F_RUN; F_READ; F_WRITE; F_TEST]) (cmds exD) =
  [[true; false; false; false]; [false; true; true; true]; [false; false; false; true]].
Proof. vm_compute. reflexivity. Qed.

(* the hypothesis of the history theorems holds on these runs ... *)
Example C09_ex_flags_ok :
  flags_between_lines exD sio smu shs s_read s_write s_lock s_unlock s_call
    (sinit exD [[7%N]] (mkSio L_GET5 [] []) (mkSmu [] []) [])
    ([OSetCmdDisable 1 true] ++ repeat OService 60).
Proof. vm_compute. repeat split; intros; first [reflexivity | discriminate]. Qed.

(* ... and is necessary: after 22 calls "+GET" has been selected (CS_PARSE_COMMAND_ARGS); disabling it
   now leaves a disabled command selected, and its variable is written all the same *)
Example C09_ex_flag_mid_line :
  let s := Fsm.st _ _ _ (exRun [] L_GET5 22 [OSetCmdDisable 1 true]) in
  k_state (k s) = CS_PARSE_COMMAND_ARGS /\ needs_cmd s = true /\ k_cmd (k s) = Some 1 /\
  is_command_disable exD s 1 = true /\
  obs (exRun [] L_GET5 22 (OSetCmdDisable 1 true :: repeat OService 40)) = ([[5%N]], T_OK, []).
Proof. vm_compute. repeat split; reflexivity. Qed.
