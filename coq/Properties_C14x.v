(* Properties_C14x.v - property C14, end to end: the hold is released by an EVENT handler (the pattern
   the library documents: a command handler answers HOLD; later the application triggers an unsolicited
   event whose read handler answers HOLD_EXIT_OK / HOLD_EXIT_ERROR).  Complements Properties_C14w.v
   (release through the cat_hold_exit API; a handler-less READ event during a hold).
   Scripted always-ready world (mkw), no mutex, as the other E2E theorems.  The event's command has a
   read handler and no readable variable, so the event machine prints  name=  and hands the text to
   the handler (text  name = NUL, position |name|+1, capacity of the event buffer).  The handler's
   scripted answers carry a return code and optionally a replacement text (r_edit), no pokes and no
   inner calls.
     E2E_event_handler_held     answers  DATA_NEXT ... DATA_NEXT DATA_OK : one unit  nl text nl  per
                                answer, nothing else; the command machine is exactly as it was (still
                                held), nothing is read, every cat_service answers BUSY;
     E2E_event_releases_hold    answers  DATA_NEXT ... DATA_NEXT HOLD_EXIT_OK|HOLD_EXIT_ERROR : the units
                                of the DATA_NEXT answers FIRST (each complete), the releasing answer
                                itself emits NOTHING for the event (its text is discarded), THEN exactly
                                one result code  nl OK|ERROR nl  of the held command (gS, gR + 1; started
                                in the very cat_service call in which the handler answered); no input is
                                consumed meanwhile; afterwards both machines are idle, the parser is not
                                held, and the next cat_service call reads the next pending byte.
   Proofs: Lemmas_C14x.v. *)
From Coq Require Import List NArith ZArith Bool Arith.
From CatV Require Import Bytes Defs Codec Spec Fsm Script ResolveDefs SchedDefs GlueDefs TextDefs.
From CatV Require Lemmas_C13.
From CatV Require Import Lemmas_C14w Lemmas_C14x.
Import ListNotations.
Local Open Scope nat_scope.

(* ---------- the definitions used in the statements (they live in Lemmas_C14x.v) ---------- *)
(* consecutive answers of the scripted handler oracle to the same request: h --rs--> h' *)
Example answers_def : forall q h rs h',
  answers q h rs h' =
  match rs with
  | [] => h' = h
  | r :: rs' => exists h1, s_call h q = (h1, r) /\ answers q h1 rs' h'
  end.
Proof. intros q h rs h'. destruct rs; reflexivity. Qed.
(* the text of the buffer after the handler's optional replacement *)
Example edited_def : forall T e, edited T e = match e with Some t => t | None => T end.
Proof. reflexivity. Qed.
(* a replacement the library accepts (it fits with its NUL) and that contains no NUL *)
Example edit_ok_def : forall bsz e,
  edit_ok bsz e = match e with Some t => length t < bsz /\ ~ In 0%N t | None => True end.
Proof. reflexivity. Qed.
Example mk_next_def : forall e, mk_next e = mkHres RC_DATA_NEXT e [] [].
Proof. reflexivity. Qed.
(* one unit of the event: newline, text, newline *)
Example unit_text_def : forall nl T e, unit_text nl T e = nl ++ edited T e ++ nl.
Proof. reflexivity. Qed.
Example rel_code_def : forall ok, rel_code ok = if ok then RC_HOLD_EXIT_OK else RC_HOLD_EXIT_ERROR.
Proof. reflexivity. Qed.
Example rel_text_def : forall ok, rel_text ok = if ok then txt_OK else txt_ERROR.
Proof. reflexivity. Qed.

Local Notation wst := (Fsm.st sio smu shs).
Local Notation wio := (Fsm.io sio smu shs).
Local Notation whs := (Fsm.hs sio smu shs).
Local Notation wtr := (Fsm.tr sio smu shs).
Local Notation sdo D := (do_op D sio smu shs s_read s_write s_lock s_unlock s_call).

(* ====================================================================================== *)
(* (a) an event whose command HAS a read handler, delivered during a hold                   *)
(* ====================================================================================== *)
(* s: the command machine is held (no release recorded), the event machine idle with an empty queue,
   ARBITRARY input q pending; c (index ci): a command with a read handler and no readable variable.
   The application triggers a READ event for c; the handler answers DATA_NEXT (with the texts `nexts`)
   any number of times, then DATA_OK (text e).  Repeated cat_service calls: the handler is called
   |nexts| + 1 times with the same request; the output is exactly the units of the answers, in order;
   the command machine's record and buffer are what they were; nothing is read or consumed; every call
   answers BUSY and the parser keeps answering BUSY *)
Theorem E2E_event_handler_held : forall D s q h h' ci c nexts e,
  d_mutex D = false -> Lemmas_C13.ring_wf D s -> fault s = false ->
  k_state (k s) = CS_HOLD -> k_hold (k s) = true -> k_hold_exit (k s) = 0%Z ->
  u_state (u s) = US_IDLE -> u_count (u s) = 0 ->
  cmd_at D ci = Some c -> c_hread c = true -> vars_access_possible c RO = false ->
  ~ In 0%N (c_name c) -> length (c_name c) + 1 < length (ubuf s) ->
  let T := c_name c ++ [ch_EQ] in
  let rq := HRead UNSOL ci (T ++ [0%N]) (length T) (length (ubuf s)) in
  answers rq h (map mk_next nexts ++ [mkHres RC_DATA_OK e [] []]) h' ->
  Forall (edit_ok (length (ubuf s))) (nexts ++ [e]) ->
  let nl := nl_chars s in
  let w0 := mkw s q h [] in
  let (w1, r) := sdo D w0 (OTrigger ci T_READ) in
  r = ST_OK /\
  exists calls, let w := nsvc D calls w1 in
    u_state (u (wst w)) = US_IDLE /\ u_count (u (wst w)) = 0 /\ u_cmd (u (wst w)) = None /\
    k (wst w) = k s /\ cbuf (wst w) = cbuf s /\ inq (wio w) = q /\ (forall r, ~ In (ERd r) (wtr w)) /\
    whs w = h' /\
    calls_of (wtr w) = map (fun _ => (rq, RC_DATA_NEXT)) nexts ++ [(rq, RC_DATA_OK)] /\
    mem (wst w) = mem s /\ fault (wst w) = false /\
    output_of (wtr w) = concat (map (unit_text nl T) (nexts ++ [e])) /\
    gL (wst w) = gL s /\ gS (wst w) = gS s /\ gR (wst w) = gR s /\
    (forall r, In (ERet OService r) (wtr w) -> r = ST_BUSY) /\
    snd (sdo D w OService) = ST_BUSY.
Proof. exact Lemmas_C14x.E2E_event_handler_held_proof. Qed.
Print Assumptions E2E_event_handler_held.

(* ====================================================================================== *)
(* (b) the event's handler releases the hold                                               *)
(* ====================================================================================== *)
(* as above, but the last answer is HOLD_EXIT_OK (ok = true) or HOLD_EXIT_ERROR (ok = false).
   ORDER of the output: the units of the DATA_NEXT answers, then  nl OK|ERROR nl  (nl: the newline of the
   held command line); the releasing answer contributes no unit of its own.  Exactly one result code
   (gS and gR + 1, gL unchanged); the pending input q is untouched when the parser is idle again; then
   the next call consumes its first byte *)
Theorem E2E_event_releases_hold : forall D s q h h' ci c nexts e (ok : bool),
  d_mutex D = false -> Lemmas_C13.ring_wf D s -> fault s = false ->
  k_state (k s) = CS_HOLD -> k_hold (k s) = true -> k_hold_exit (k s) = 0%Z ->
  u_state (u s) = US_IDLE -> u_count (u s) = 0 ->
  cmd_at D ci = Some c -> c_hread c = true -> vars_access_possible c RO = false ->
  ~ In 0%N (c_name c) -> length (c_name c) + 1 < length (ubuf s) -> 6 <= length (cbuf s) ->
  let T := c_name c ++ [ch_EQ] in
  let rq := HRead UNSOL ci (T ++ [0%N]) (length T) (length (ubuf s)) in
  answers rq h (map mk_next nexts ++ [mkHres (rel_code ok) e [] []]) h' ->
  Forall (edit_ok (length (ubuf s))) (nexts ++ [e]) ->
  let nl := nl_chars s in
  let w0 := mkw s q h [] in
  let (w1, r) := sdo D w0 (OTrigger ci T_READ) in
  r = ST_OK /\
  exists calls, let w := nsvc D calls w1 in
    k_state (k (wst w)) = CS_IDLE /\ k_hold (k (wst w)) = false /\ k_cr (k (wst w)) = false /\
    k_cmd (k (wst w)) = None /\
    u_state (u (wst w)) = US_IDLE /\ u_count (u (wst w)) = 0 /\ u_cmd (u (wst w)) = None /\
    inq (wio w) = q /\ whs w = h' /\
    calls_of (wtr w) = map (fun _ => (rq, RC_DATA_NEXT)) nexts ++ [(rq, rel_code ok)] /\
    output_of (wtr w) = concat (map (unit_text nl T) nexts) ++ nl ++ rel_text ok ++ nl /\
    gS (wst w) = S (gS s) /\ gR (wst w) = S (gR s) /\ gL (wst w) = gL s /\
    mem (wst w) = mem s /\ fault (wst w) = false /\
    (forall b q', q = b :: q' ->
       exists s', svc D w = mkw s' q' h' (ERet OService ST_BUSY :: ERd (Some b) :: wtr w)).
Proof. exact Lemmas_C14x.E2E_event_releases_hold_proof. Qed.
Print Assumptions E2E_event_releases_hold.

(* what the releasing call does, exactly (one cat_service call, any pending input q, any trace t): the
   handler is called once, nothing is written; the event machine is reset (idle, u_cmd cleared), the
   release status is recorded and acted upon in the SAME call: the hold flag is dropped and the result
   code is prepared (ack_ok / ack_error: CS_FLUSH_WAIT, gS + 1) *)
Theorem E2E_release_call : forall D s ci T h h' e (ok : bool) q t,
  d_mutex D = false ->
  k_state (k s) = CS_HOLD -> k_hold (k s) = true -> k_hold_exit (k s) = 0%Z ->
  RL ci T s -> edit_ok (length (ubuf s)) e ->
  let rq := HRead UNSOL ci (T ++ [0%N]) (length T) (length (ubuf s)) in
  s_call h rq = (h', mkHres (rel_code ok) e [] []) ->
  let s0 := setk_hold false (unsolicited_reset_state
               (setk_hold_exit (if ok then 1%Z else (-1)%Z) (apply_edit UNSOL e s))) in
  exists t', calls_of t' = [(rq, rel_code ok)] /\ output_of t' = [] /\
    svc D (mkw s q h t) = mkw (if ok then ack_ok s0 else ack_error s0) q h' (t' ++ t).
Proof.
  intros D s ci T h h' e ok q t Hmx Hk Hh Hx HR He rq Hcall s0.
  exact (Lemmas_C14x.y_release_call D Hmx s ci T h h' e ok (conj Hk (conj Hh Hx)) HR He Hcall q t).
Qed.
Print Assumptions E2E_release_call.
(* RL ci T s: the event machine is in its READ loop for command ci with the text T in its buffer *)
Example RL_def : forall ci T s,
  RL ci T s = (u_state (u s) = US_READ_LOOP /\ u_cmd (u s) = Some ci /\ u_position (u s) = length T /\
               (exists r, ubuf s = T ++ 0%N :: r)).
Proof. reflexivity. Qed.

(* ====================================================================================== *)
(* Non-vacuity                                                                             *)
(* ====================================================================================== *)
Module C14x_examples.
(* +W: a command with a write handler (it will answer HOLD); +E: a command with a read handler and no
   variables, used for the event; 40-byte buffers, queue capacity 2, no mutex *)
Definition cW := mkCmd [43; 87]%N None true false false false [] false false false.
Definition cE := mkCmd [43; 69]%N None false true false false [] false false false.
Definition DX := mkDesc [[cW; cE]] [] 40 (Some 40) 85%N 2 false.
(* a held parser (sHc: a CR had been seen on the held line), A T LF pending *)
Definition sH := enable_hold_state (init_state DX []).
Definition sHc := setk_cr true sH.
Definition qAT : list N := [65; 84; 10]%N.
(* the request the read handler of +E receives: text  + E = NUL, position 3, capacity 40 *)
Definition rqE : hreq := HRead UNSOL 1 [43; 69; 61; 0]%N 3 40.
(* scripts of the read handler of +E: first DATA_NEXT with the text +E=1, then DATA_OK (no replacement) /
   HOLD_EXIT_OK / HOLD_EXIT_ERROR *)
Definition hData : shs :=
  [((1, 1, 0), [mkHres RC_DATA_NEXT (Some [43; 69; 61; 49]%N) [] []; mkHres RC_DATA_OK None [] []])].
Definition hRel (ok : bool) : shs :=
  [((1, 1, 0), [mkHres RC_DATA_NEXT (Some [43; 69; 61; 49]%N) [] []; mkHres (rel_code ok) None [] []])].
Definition hDone : shs := [((1, 1, 0), [])].

(* ((state, hold flag), (event state, queue length, event command), pending input, scripts, handler calls,
   output, (gL, gS, gR), fault) *)
Definition obs (w : sworld) :=
  ((k_state (k (wst w)), k_hold (k (wst w))),
   (u_state (u (wst w)), u_count (u (wst w)), u_cmd (u (wst w))),
   inq (wio w), whs w, calls_of (wtr w), output_of (wtr w), (gL (wst w), gS (wst w), gR (wst w)), fault (wst w)).
Definition go (s : state) (h : shs) (calls : nat) :=
  let (w1, r) := sdo DX (mkw s qAT h []) (OTrigger 1 T_READ) in (r, obs (nsvc DX calls w1)).

(* (a) 24 calls: two handler calls, two units  LF +E=1 LF  LF +E= LF; still held, A T LF untouched *)
Example ex_handler_held :
  go sH hData 24 =
  (ST_OK, ((CS_HOLD, true), (US_IDLE, 0, None), qAT, hDone, [(rqE, RC_DATA_NEXT); (rqE, RC_DATA_OK)],
           [10; 43; 69; 61; 49; 10;  10; 43; 69; 61; 10]%N, (0, 0, 0), false)).
Proof. vm_compute. reflexivity. Qed.

(* (b) HOLD_EXIT_OK: after 12 calls the event's unit is complete and nothing else has happened; the
   16th call is the releasing one (the result code is prepared, nothing written yet); after 23 calls:
   LF +E=1 LF, then LF OK LF; idle, not held, A T LF untouched, counters (0,1,1) *)
Example ex_release_ok :
  go sH (hRel true) 12 =
    (ST_OK, ((CS_HOLD, true), (US_AFTER_FMT_READ, 0, Some 1), qAT, [((1, 1, 0), [mkHres RC_HOLD_EXIT_OK None [] []])],
             [(rqE, RC_DATA_NEXT)], [10; 43; 69; 61; 49; 10]%N, (0, 0, 0), false)) /\
  go sH (hRel true) 14 =
    (ST_OK, ((CS_FLUSH_WAIT, false), (US_IDLE, 0, None), qAT, hDone,
             [(rqE, RC_DATA_NEXT); (rqE, RC_HOLD_EXIT_OK)], [10; 43; 69; 61; 49; 10]%N, (0, 1, 0), false)) /\
  go sH (hRel true) 23 =
    (ST_OK, ((CS_IDLE, false), (US_IDLE, 0, None), qAT, hDone,
             [(rqE, RC_DATA_NEXT); (rqE, RC_HOLD_EXIT_OK)],
             [10; 43; 69; 61; 49; 10;  10; 79; 75; 10]%N, (0, 1, 1), false)).
Proof. vm_compute. repeat split; reflexivity. Qed.

(* ... and the next line is read and answered: 15 more calls, a second OK, input empty, counters (1,2,2) *)
Example ex_release_then_next_line :
  go sH (hRel true) 38 =
    (ST_OK, ((CS_IDLE, false), (US_IDLE, 0, None), [], hDone,
             [(rqE, RC_DATA_NEXT); (rqE, RC_HOLD_EXIT_OK)],
             [10; 43; 69; 61; 49; 10;  10; 79; 75; 10;  10; 79; 75; 10]%N, (1, 2, 2), false)).
Proof. vm_compute. reflexivity. Qed.

(* HOLD_EXIT_ERROR, the held line had ended with CR LF: CR LF +E=1 CR LF, then CR LF ERROR CR LF (30 calls) *)
Example ex_release_error_crlf :
  go sHc (hRel false) 30 =
    (ST_OK, ((CS_IDLE, false), (US_IDLE, 0, None), qAT, hDone,
             [(rqE, RC_DATA_NEXT); (rqE, RC_HOLD_EXIT_ERROR)],
             [13; 10; 43; 69; 61; 49; 13; 10;  13; 10; 69; 82; 82; 79; 82; 13; 10]%N, (0, 1, 1), false)).
Proof. vm_compute. reflexivity. Qed.

(* all hypotheses of the two theorems hold for these states and scripts *)
Lemma ex_hyps : forall s, s = sH \/ s = sHc ->
  d_mutex DX = false /\ Lemmas_C13.ring_wf DX s /\ fault s = false /\
  k_state (k s) = CS_HOLD /\ k_hold (k s) = true /\ k_hold_exit (k s) = 0%Z /\
  u_state (u s) = US_IDLE /\ u_count (u s) = 0 /\
  cmd_at DX 1 = Some cE /\ c_hread cE = true /\ vars_access_possible cE RO = false /\
  ~ In 0%N (c_name cE) /\ length (c_name cE) + 1 < length (ubuf s) /\ 6 <= length (cbuf s).
Proof.
  intros s [-> | ->]; (repeat (split; [reflexivity|]));
    (split; [unfold Lemmas_C13.ring_wf; vm_compute; repeat split; apply Nat.leb_le; reflexivity|]);
    (repeat (split; [reflexivity|]));
    (split; [cbn; intros [X|[X|[]]]; discriminate X|]);
    (split; apply Nat.leb_le; reflexivity).
Qed.

Lemma ex_answers : forall s code, s = sH \/ s = sHc ->
  answers (HRead UNSOL 1 ((c_name cE ++ [ch_EQ]) ++ [0%N]) (length (c_name cE ++ [ch_EQ])) (length (ubuf s)))
          [((1, 1, 0), [mkHres RC_DATA_NEXT (Some [43; 69; 61; 49]%N) [] []; mkHres code None [] []])]
          (map mk_next [Some [43; 69; 61; 49]%N] ++ [mkHres code None [] []]) hDone /\
  Forall (edit_ok (length (ubuf s))) ([Some [43; 69; 61; 49]%N] ++ [None]).
Proof.
  intros s code [-> | ->]; (split;
    [ cbn [map app answers]; eexists; split; [reflexivity|]; eexists; split; [reflexivity|]; reflexivity
    | constructor;
        [ split; [apply Nat.leb_le; reflexivity | intros [X|[X|[X|[X|[]]]]]; discriminate X]
        | constructor; [exact I | constructor] ] ]).
Qed.

(* the theorems instantiated: for both newline conventions and both release codes *)
Example ex_releases_inst : forall s (ok : bool), s = sH \/ s = sHc ->
  let (w1, r) := sdo DX (mkw s qAT (hRel ok) []) (OTrigger 1 T_READ) in
  r = ST_OK /\
  exists calls, let w := nsvc DX calls w1 in
    k_state (k (wst w)) = CS_IDLE /\ k_hold (k (wst w)) = false /\ inq (wio w) = qAT /\
    output_of (wtr w) = (nl_chars s ++ [43; 69; 61; 49]%N ++ nl_chars s) ++ nl_chars s ++ rel_text ok ++ nl_chars s /\
    gS (wst w) = S (gS s) /\ gR (wst w) = S (gR s) /\
    exists s', svc DX w = mkw s' [84; 10]%N hDone (ERet OService ST_BUSY :: ERd (Some 65%N) :: wtr w).
Proof.
  intros s ok Hs.
  destruct (ex_hyps s Hs) as (H1 & H2 & H3 & H4 & H5 & H6 & H7 & H8 & H9 & H10 & H11 & H12 & H13 & H14).
  destruct (ex_answers s (rel_code ok) Hs) as [A1 A2].
  pose proof (E2E_event_releases_hold DX s qAT (hRel ok) hDone 1 cE [Some [43; 69; 61; 49]%N] None ok
                H1 H2 H3 H4 H5 H6 H7 H8 H9 H10 H11 H12 H13 H14 A1 A2) as X.
  cbv zeta in X.
  destruct (sdo DX (mkw s qAT (hRel ok) []) (OTrigger 1 T_READ)) as [w1 r].
  destruct X as [X1 (calls & X2)]. split; [exact X1|]. exists calls. cbv zeta in *.
  destruct X2 as (B1 & B2 & _ & _ & _ & _ & _ & B3 & _ & _ & B4 & B5 & B6 & _ & _ & _ & B7).
  split; [exact B1|]. split; [exact B2|]. split; [exact B3|].
  split; [rewrite B4; cbn [map concat unit_text edited app]; rewrite ?app_nil_r; reflexivity|].
  split; [exact B5|]. split; [exact B6|]. exact (B7 65%N [84; 10]%N eq_refl).
Qed.

Example ex_handler_inst : forall s, s = sH \/ s = sHc ->
  let (w1, r) := sdo DX (mkw s qAT hData []) (OTrigger 1 T_READ) in
  r = ST_OK /\
  exists calls, let w := nsvc DX calls w1 in
    k (wst w) = k s /\ inq (wio w) = qAT /\ whs w = hDone /\
    output_of (wtr w) = (nl_chars s ++ [43; 69; 61; 49]%N ++ nl_chars s) ++ (nl_chars s ++ [43; 69; 61]%N ++ nl_chars s).
Proof.
  intros s Hs.
  destruct (ex_hyps s Hs) as (H1 & H2 & H3 & H4 & H5 & H6 & H7 & H8 & H9 & H10 & H11 & H12 & H13 & _).
  destruct (ex_answers s RC_DATA_OK Hs) as [A1 A2].
  pose proof (E2E_event_handler_held DX s qAT hData hDone 1 cE [Some [43; 69; 61; 49]%N] None
                H1 H2 H3 H4 H5 H6 H7 H8 H9 H10 H11 H12 H13 A1 A2) as X.
  cbv zeta in X.
  destruct (sdo DX (mkw s qAT hData []) (OTrigger 1 T_READ)) as [w1 r].
  destruct X as [X1 (calls & X2)]. split; [exact X1|]. exists calls. cbv zeta in *.
  destruct X2 as (_ & _ & _ & B1 & _ & B2 & _ & B3 & _ & _ & _ & B4 & _).
  split; [exact B1|]. split; [exact B2|]. split; [exact B3|].
  rewrite B4. cbn [map concat unit_text edited app]. rewrite ?app_nil_r. reflexivity.
Qed.

(* the whole pattern from cat_init: input  AT+W=1 LF  AT LF ; the write handler of +W answers HOLD; the
   application triggers a READ event of +E whose handler answers DATA_NEXT (+E=1) and then HOLD_EXIT_OK.
   After 15 calls: held, second line queued.  Trigger + 23 calls: the event's unit, then ONE OK for +W,
   second line still queued.  15 more calls: the second line has its own OK. *)
Definition hFull : shs :=
  [((0, 0, 0), [mkHres RC_HOLD None [] []]);
   ((1, 1, 0), [mkHres RC_DATA_NEXT (Some [43; 69; 61; 49]%N) [] []; mkHres RC_HOLD_EXIT_OK None [] []])].
Definition wI : sworld := sinit DX [] (mkSio [65; 84; 43; 87; 61; 49; 10; 65; 84; 10]%N [] []) (mkSmu [] []) hFull.
Definition srunD := Fsm.run DX sio smu shs s_read s_write s_lock s_unlock s_call.
Example ex_scenario :
  obs (srunD wI (repeat OService 15)) =
    ((CS_HOLD, true), (US_IDLE, 0, None), qAT, [((0, 0, 0), []);
      ((1, 1, 0), [mkHres RC_DATA_NEXT (Some [43; 69; 61; 49]%N) [] []; mkHres RC_HOLD_EXIT_OK None [] []])],
     [(HWrite 0 [49; 0]%N 1 0, RC_HOLD)], [], (1, 0, 0), false) /\
  obs (srunD wI (repeat OService 15 ++ [OTrigger 1 T_READ] ++ repeat OService 23)) =
    ((CS_IDLE, false), (US_IDLE, 0, None), qAT, [((0, 0, 0), []); ((1, 1, 0), [])],
     [(HWrite 0 [49; 0]%N 1 0, RC_HOLD); (rqE, RC_DATA_NEXT); (rqE, RC_HOLD_EXIT_OK)],
     [10; 43; 69; 61; 49; 10;  10; 79; 75; 10]%N, (1, 1, 1), false) /\
  obs (srunD wI (repeat OService 15 ++ [OTrigger 1 T_READ] ++ repeat OService 38)) =
    ((CS_IDLE, false), (US_IDLE, 0, None), [], [((0, 0, 0), []); ((1, 1, 0), [])],
     [(HWrite 0 [49; 0]%N 1 0, RC_HOLD); (rqE, RC_DATA_NEXT); (rqE, RC_HOLD_EXIT_OK)],
     [10; 43; 69; 61; 49; 10;  10; 79; 75; 10;  10; 79; 75; 10]%N, (2, 2, 2), false).
Proof. vm_compute. repeat split; reflexivity. Qed.
End C14x_examples.
