(* Lemmas_C13p.v -- property C13, observer half, restated (statements: Properties_C13p.v):
   (1) the event in progress as an option (no default element that could name a bogus event), and
       the observer theorem by cases on idle / not idle -- derived from Lemmas_C13o.in_progress_history
       and Lemmas_C13o.observers_exact;
   (2) cat_is_unsolicited_buffer_full predicts the next trigger with a mutex: only the two lock calls and
       the two unlock calls actually made have to succeed (hypotheses on the mutex states that occur),
       so the theorem applies to scripted mutexes whose schedule fails later. *)
From Coq Require Import List NArith ZArith Bool Arith Lia.
From CatV Require Import Bytes Defs Codec Fsm TraceDefs Script Lemmas_C03b Lemmas_C13 Lemmas_C13o.
Import ListNotations.
Local Open Scope nat_scope.

Definition last_opt {A : Type} (l : list A) : option A :=
  match rev l with [] => None | x :: _ => Some x end.

Lemma last_opt_snoc : forall (A : Type) (p : list A) x, last_opt (p ++ [x]) = Some x.
Proof. intros A p x. unfold last_opt. rewrite rev_app_distr. reflexivity. Qed.

Lemma last_opt_nil : forall (A : Type), @last_opt A [] = None.
Proof. reflexivity. Qed.

Section C13p.
Variable D : desc.
Variables ioS muS hS : Type.
Variable io_read : ioS -> ioS * option N.
Variable io_write : ioS -> N -> ioS * bool.
Variable mu_lock : muS -> muS * bool.
Variable mu_unlock : muS -> muS * bool.
Variable h_call : hS -> hreq -> hS * hres.

Local Notation world := (Fsm.world ioS muS hS).
Local Notation mkWorld := (Fsm.mkWorld ioS muS hS).
Local Notation st := (Fsm.st ioS muS hS).
Local Notation tr := (Fsm.tr ioS muS hS).
Local Notation mu := (Fsm.mu ioS muS hS).
Local Notation hist := (TraceDefs.hist ioS muS hS).
Local Notation run := (Fsm.run D ioS muS hS io_read io_write mu_lock mu_unlock h_call).
Local Notation api_trigger := (Fsm.api_trigger D ioS muS hS mu_lock mu_unlock).
Local Notation api_is_full := (Fsm.api_is_full D ioS muS hS mu_lock mu_unlock).
Local Notation in_progress := (Lemmas_C13o.in_progress ioS muS hS).

(* the event being processed: none while the event machine is idle, otherwise the event popped last *)
Definition in_progress_opt (w : world) : option (nat * ctype) :=
  if ustate_beq (u_state (u (st w))) US_IDLE then None else last_opt (popped (hist w)).

Lemma ustate_beq_idle : forall x, ustate_beq x US_IDLE = true <-> x = US_IDLE.
Proof. intros x. destruct x; cbn; split; intros H; try reflexivity; discriminate H. Qed.

Theorem observers_exact_opt : forall m x mx h ops,
  0 < d_cap D ->
  (forall h q, Forall (valid_icall D) (r_calls (snd (h_call h q)))) ->
  Forall (valid_op D) ops ->
  let w := run (mkWorld (init_state D m) x mx h []) ops in
  (u_state (u (st w)) <> US_IDLE ->
     exists p it, popped (hist w) = p ++ [it] /\ in_progress_opt w = Some it /\
       u_cmd (u (st w)) = Some (fst it) /\ u_type (u (st w)) = snd it /\
       (forall ci t, is_event_buffered D (st w) ci t = ST_BUSY <->
          ev_match ci t it = true \/
          exists it', In it' (ring_items D (st w)) /\ ev_match ci t it' = true) /\
       get_processed (st w) UNSOL = Z.of_nat (fst it)) /\
  (u_state (u (st w)) = US_IDLE ->
     in_progress_opt w = None /\ u_cmd (u (st w)) = None /\
     (forall ci t, is_event_buffered D (st w) ci t = ST_BUSY <->
        exists it', In it' (ring_items D (st w)) /\ ev_match ci t it' = true) /\
     get_processed (st w) UNSOL = (-1)%Z).
Proof.
  intros m x mx h ops Hc Hv Ho w.
  destruct (Lemmas_C13o.in_progress_history D ioS muS hS io_read io_write mu_lock mu_unlock h_call
              m x mx h ops Hc Hv Ho) as [HI HB].
  destruct (Lemmas_C13o.observers_exact D ioS muS hS io_read io_write mu_lock mu_unlock h_call
              m x mx h ops Hc Hv Ho) as [HO HG].
  fold w in HI, HB, HO, HG. split.
  - intros Hn. destruct (HB Hn) as (p & ci & t & Hp & Hcmd & Hty).
    assert (Eb : ustate_beq (u_state (u (st w))) US_IDLE = false).
    { destruct (ustate_beq (u_state (u (st w))) US_IDLE) eqn:E; [|reflexivity].
      apply ustate_beq_idle in E. contradiction. }
    assert (Ein : in_progress w = [(ci, t)]).
    { unfold Lemmas_C13o.in_progress. rewrite Eb, Hp, last_last. reflexivity. }
    exists p, (ci, t). split; [exact Hp|]. split.
    { unfold in_progress_opt. rewrite Eb, Hp. apply last_opt_snoc. }
    split; [exact Hcmd|]. split; [exact Hty|]. split.
    + intros ci' t'. rewrite (HO ci' t'), Ein. cbn [app]. split.
      * intros (it & [<-|Hin] & Hm); [left; exact Hm | right; exists it; split; assumption].
      * intros [Hm|(it & Hin & Hm)]; [exists (ci, t); split; [left; reflexivity | exact Hm]
                                     | exists it; split; [right; exact Hin | exact Hm]].
    + rewrite HG, Ein. reflexivity.
  - intros Hi.
    assert (Eb : ustate_beq (u_state (u (st w))) US_IDLE = true) by (apply ustate_beq_idle; exact Hi).
    assert (Ein : in_progress w = []) by (unfold Lemmas_C13o.in_progress; rewrite Eb; reflexivity).
    split; [unfold in_progress_opt; rewrite Eb; reflexivity|]. split; [exact (HI Hi)|]. split.
    + intros ci' t'. rewrite (HO ci' t'), Ein. reflexivity.
    + rewrite HG, Ein. reflexivity.
Qed.

(* the default-free option agrees with the list of Lemmas_C13o in every reachable world *)
Theorem in_progress_opt_agrees : forall m x mx h ops,
  0 < d_cap D ->
  (forall h q, Forall (valid_icall D) (r_calls (snd (h_call h q)))) ->
  Forall (valid_op D) ops ->
  let w := run (mkWorld (init_state D m) x mx h []) ops in
  in_progress w = match in_progress_opt w with Some it => [it] | None => [] end.
Proof.
  intros m x mx h ops Hc Hv Ho w.
  destruct (Lemmas_C13o.in_progress_history D ioS muS hS io_read io_write mu_lock mu_unlock h_call
              m x mx h ops Hc Hv Ho) as [_ HB]. fold w in HB.
  unfold Lemmas_C13o.in_progress, in_progress_opt.
  destruct (ustate_beq (u_state (u (st w))) US_IDLE) eqn:E; [reflexivity|].
  assert (Hn : u_state (u (st w)) <> US_IDLE).
  { intros H. apply ustate_beq_idle in H. rewrite H in E. discriminate E. }
  destruct (HB Hn) as (p & ci & t & Hp & _). rewrite Hp, last_last, last_opt_snoc. reflexivity.
Qed.

(* ---------------- the query, then the trigger, with a mutex ---------------- *)
Ltac wsimpl := cbn [Fsm.st Fsm.tr Fsm.io Fsm.mu Fsm.hs Fsm.set_st Fsm.set_io Fsm.set_mu Fsm.set_hs
                    Fsm.logw Fsm.upd_st Fsm.busy fst snd].
Ltac zdisc H := unfold ST_OK, ST_BUFFER_FULL, ST_MUTEX_UNLOCK, ST_MUTEX_LOCK in H; discriminate H.

Theorem full_predicts_mutex_calls : forall (w : world) ci t,
  let w1 := fst (api_is_full w) in
  (* the lock and the unlock of the query *)
  (d_mutex D = true -> snd (mu_lock (mu w)) = true /\ snd (mu_unlock (fst (mu_lock (mu w)))) = true) ->
  (* the lock and the unlock of the trigger, in the mutex state the query leaves *)
  (d_mutex D = true -> snd (mu_lock (mu w1)) = true /\ snd (mu_unlock (fst (mu_lock (mu w1)))) = true) ->
  st w1 = st w /\
  (d_mutex D = true -> mu w1 = fst (mu_unlock (fst (mu_lock (mu w))))) /\
  (snd (api_is_full w) = ST_BUFFER_FULL <-> snd (api_trigger w1 ci t) = ST_BUFFER_FULL) /\
  (snd (api_is_full w) = ST_OK <-> snd (api_trigger w1 ci t) = ST_OK).
Proof.
  intros w ci t w1. subst w1. unfold Fsm.api_is_full, Fsm.api_trigger, Fsm.bracket.
  destruct (d_mutex D).
  - intros H1 H2. destruct (H1 eq_refl) as [E1 E2]. revert H2.
    destruct (mu_lock (mu w)) as [m1 ok1]. cbn [fst snd] in E1, E2. subst ok1. cbn [negb]. wsimpl.
    destruct (mu_unlock m1) as [m2 ok2]. cbn [snd] in E2. subst ok2. cbn [negb]. wsimpl.
    intros H2. destruct (H2 eq_refl) as [E3 E4].
    destruct (mu_lock m2) as [m3 ok3]. cbn [fst snd] in E3, E4. subst ok3. cbn [negb]. wsimpl.
    unfold push_unsolicited_cmd. destruct (ring_full D (st w)); wsimpl;
      destruct (mu_unlock m3) as [m4 ok4]; cbn [snd] in E4; subst ok4; cbn [negb snd];
      (split; [reflexivity|]); (split; [intros _; reflexivity|]);
      split; split; intros H; try reflexivity; zdisc H.
  - intros _ _. cbn [fst snd]. unfold push_unsolicited_cmd. destruct (ring_full D (st w)); cbn [fst snd];
      (split; [reflexivity|]); (split; [intros H; discriminate H|]);
      split; split; intros H; try reflexivity; zdisc H.
Qed.

End C13p.
