(* Lemmas_C17d.v -- property C17 (thread safety), continuation of Lemmas_C17c.v.

   Part A  C17_threads_observers_exactly_once of Properties_C17c.v keeps the hypothesis
           forall m, snd (mu_unlock m) = true, which is false of the scripted s_unlock of
           Script.v.  Here the same statement on an invariant MI of the mutex state (as
           Lemmas_Inv.v Section InvMu), and the corollary for the scripted oracles
           (MI := unlock_never_fails).
   Part B  Generic micro-step system with unlocked observers AND unlocked stores: the lstep of
           Lemmas_C17b, OBSERVE (enabled everywhere, changes nothing), SET u (replaces the shared
           state s by store u s, touches neither the holder nor the phases).  In the GUARDED
           system (fstep true) SET u is enabled only if the operation that has the lock and has
           not run its body yet is blind to u at the current shared state; in the unguarded
           system (fstep false) it is enabled everywhere.
           setters_linearizable: for guarded executions the label order (critical sections at
           their ACQUIRE, stores where they happened) is a linearisation, up to an equivalence
           eqv that the bodies and the stores respect.
           setters_exact: for ALL executions (guarded or not) there is a sequential list xs
           (critical sections at their BODY, stores and observations where they happened) whose
           execution gives exactly the final shared state and all observed answers.
   Part C  Instance for the cAT model: store u w := step w (setter_op u), blind := SF.op_blind,
           eqv := equality of state and of the three oracle states (the logs differ by the
           position of the setter's own ERet entry).  *)
From Coq Require Import List NArith ZArith Arith Bool Lia.
From CatV Require Import Bytes Defs Codec Fsm Script TraceDefs Lemmas_C13 Lemmas_C17b Lemmas_C17c.
From CatV Require Lemmas_Inv.
Import ListNotations.
Local Open Scope nat_scope.

(* ================================================================== *)
(* PART A.  exactly-once with observers, on an invariant of the mutex  *)
(* ================================================================== *)
Section InvObs.
Variable D : desc.
Variables ioS muS hS : Type.
Variable io_read : ioS -> ioS * option N.
Variable io_write : ioS -> N -> ioS * bool.
Variable mu_lock : muS -> muS * bool.
Variable mu_unlock : muS -> muS * bool.
Variable h_call : hS -> hreq -> hS * hres.
Variable MI : muS -> Prop.
Hypothesis MI_lock : forall m, MI m -> MI (fst (mu_lock m)).
Hypothesis MI_unlock : forall m, MI m -> MI (fst (mu_unlock m)) /\ snd (mu_unlock m) = true.

Local Notation World := (world ioS muS hS).
Local Notation Step := (step D ioS muS hS io_read io_write mu_lock mu_unlock h_call).
Local Notation Run := (run D ioS muS hS io_read io_write mu_lock mu_unlock h_call).
Local Notation st := (Fsm.st ioS muS hS).

Theorem threads_observers_exactly_once_inv :
  forall (P : nat * ctype -> bool) m x mx h (tl : list (list op)) labs (c : conf World op),
  0 < d_cap D -> (d_mutex D = false \/ MI mx) ->
  let w0 := mkWorld ioS muS hS (init_state D m) x mx h [] in
  osteps (fun o w => Step w o) (fun q w => obs_ans D q (st w)) (start w0 tl) labs c -> all_idle c ->
  let w := shared c in
  w = Run w0 (map snd (acqs labs)) /\
  filter P (accepted (hist ioS muS hS w)) =
  filter P (popped (hist ioS muS hS w)) ++ filter P (ring_items D (st w)).
Proof.
  intros P m x mx h tl labs c Hcap Hun w0 H Hid.
  apply (Lemmas_Inv.C17_threads_exactly_once_inv D ioS muS hS io_read io_write mu_lock mu_unlock h_call
           MI MI_lock MI_unlock P m x mx h tl (acqs labs) c Hcap Hun); [|exact Hid].
  exact (observers_erase World op (fun o w => Step w o) op Z (fun q w => obs_ans D q (st w)) _ _ _ H).
Qed.

End InvObs.

(* the scripted oracles of Script.v: the unlock schedule contains no false *)
Theorem threads_observers_exactly_once_scripted :
  forall D (P : nat * ctype -> bool) m x mx h (tl : list (list op)) labs (c : conf sworld op),
  0 < d_cap D -> (d_mutex D = false \/ Lemmas_Inv.unlock_never_fails mx = true) ->
  let w0 := sinit D m x mx h in
  osteps (fun o w => step D sio smu shs s_read s_write s_lock s_unlock s_call w o)
         (fun q w => obs_ans D q (Fsm.st sio smu shs w)) (start w0 tl) labs c -> all_idle c ->
  let w := shared c in
  w = run D sio smu shs s_read s_write s_lock s_unlock s_call w0 (map snd (acqs labs)) /\
  filter P (accepted (hist sio smu shs w)) =
  filter P (popped (hist sio smu shs w)) ++ filter P (ring_items D (Fsm.st sio smu shs w)).
Proof.
  intros D P m x mx h tl labs c Hcap Hun.
  exact (threads_observers_exactly_once_inv D sio smu shs s_read s_write s_lock s_unlock s_call
           (fun mx => Lemmas_Inv.unlock_never_fails mx = true) Lemmas_Inv.MI_s_lock Lemmas_Inv.MI_s_unlock
           P m x mx h tl labs c Hcap Hun).
Qed.

(* the hypothesis of C17_threads_observers_exactly_once is false of s_unlock *)
Lemma s_unlock_can_fail : exists m, snd (s_unlock m) = false.
Proof. exists (mkSmu [] [false]). reflexivity. Qed.

(* ================================================================== *)
(* PART B.  Generic: unlocked stores                                   *)
(* ================================================================== *)
Section Stores.
Variables (Sh Op : Type).
Variable body : Op -> Sh -> Sh.
Variables (Q R : Type).
Variable ans : Q -> Sh -> R.
Variable U : Type.                           (* store requests *)
Variable store : U -> Sh -> Sh.              (* effect of an unlocked store on the shared state *)
Variable blind : U -> Op -> Sh -> bool.      (* body o, run from s, does not read what u writes *)

Notation conf := (conf Sh Op).

Inductive slab := SAcq (i : nat) (o : Op) | SObs (q : Q) (r : R) | SSet (u : U).
Definition sacq (io : nat * Op) : slab := SAcq (fst io) (snd io).

(* the guard of a store u in configuration c: the operation that holds the lock and has not run
   its body yet (if any) is blind to u at the present shared state *)
Definition set_ok (c : conf) (u : U) : Prop :=
  forall i rest o, holder c = Some i -> nth_error (threads c) i = Some (rest, Holding o) ->
                   blind u o (shared c) = true.

(* one step.  guard = false: SET is enabled in every configuration; guard = true: only if set_ok *)
Inductive fstep (guard : bool) : conf -> list slab -> conf -> Prop :=
  | fstep_lock : forall c l c', lstep body c l c' -> fstep guard c (map sacq l) c'
  | fstep_obs : forall c q, fstep guard c [SObs q (ans q (shared c))] c
  | fstep_set : forall c u, (guard = true -> set_ok c u) ->
      fstep guard c [SSet u] (mkConf (store u (shared c)) (holder c) (threads c)).

Inductive fsteps (guard : bool) (c0 : conf) : list slab -> conf -> Prop :=
  | fsteps_refl : fsteps guard c0 [] c0
  | fsteps_snoc : forall labs c l c',
      fsteps guard c0 labs c -> fstep guard c l c' -> fsteps guard c0 (labs ++ l) c'.

(* sequential execution of a label list, in label order *)
Definition lexec1 (s : Sh) (l : slab) : Sh :=
  match l with SAcq _ o => body o s | SObs _ _ => s | SSet u => store u s end.
Definition lexec (labs : list slab) (s : Sh) : Sh := fold_left lexec1 labs s.

Fixpoint sacqs (labs : list slab) : list (nat * Op) :=
  match labs with
  | [] => []
  | SAcq i o :: r => (i, o) :: sacqs r
  | _ :: r => sacqs r
  end.
(* the entries that are not SAcq, in order *)
Fixpoint snon (labs : list slab) : list slab :=
  match labs with
  | [] => []
  | SAcq _ _ :: r => snon r
  | x :: r => x :: snon r
  end.
Fixpoint ssets (labs : list slab) : list U :=
  match labs with
  | [] => []
  | SSet u :: r => u :: ssets r
  | _ :: r => ssets r
  end.
Definition is_acq (l : slab) : bool := match l with SAcq _ _ => true | _ => false end.

(* executable scheduler *)
Inductive sact := STick (i : nat) | SLook (q : Q) | SStore (u : U).
Definition guard_ok (c : conf) (u : U) : bool :=
  match holding_of c with
  | [] => true
  | io :: _ => blind u (snd io) (shared c)
  end.
Fixpoint fsched (guard : bool) (c : conf) (acts : list sact) : conf * list slab :=
  match acts with
  | [] => (c, [])
  | STick i :: r => match tstep body c i with
                    | Some (c', l) => let (c'', l') := fsched guard c' r in (c'', map sacq l ++ l')
                    | None => fsched guard c r
                    end
  | SLook q :: r => let (c'', l') := fsched guard c r in (c'', SObs q (ans q (shared c)) :: l')
  | SStore u :: r =>
      if negb guard || guard_ok c u
      then let (c'', l') := fsched guard (mkConf (store u (shared c)) (holder c) (threads c)) r in
           (c'', SSet u :: l')
      else fsched guard c r
  end.

(* ---------- lists ---------- *)
Lemma lexec_app : forall a b s, lexec (a ++ b) s = lexec b (lexec a s).
Proof. intros. apply fold_left_app. Qed.
Lemma sacqs_app : forall a b, sacqs (a ++ b) = sacqs a ++ sacqs b.
Proof. induction a as [|[i o|q r|u] a IH]; intro b; cbn; rewrite ?IH; reflexivity. Qed.
Lemma snon_app : forall a b, snon (a ++ b) = snon a ++ snon b.
Proof. induction a as [|[i o|q r|u] a IH]; intro b; cbn; rewrite ?IH; reflexivity. Qed.
Lemma ssets_app : forall a b, ssets (a ++ b) = ssets a ++ ssets b.
Proof. induction a as [|[i o|q r|u] a IH]; intro b; cbn; rewrite ?IH; reflexivity. Qed.
Lemma sacqs_sacq : forall l, sacqs (map sacq l) = l.
Proof. induction l as [|[i o] l IH]; cbn; rewrite ?IH; reflexivity. Qed.
Lemma snon_sacq : forall l, snon (map sacq l) = [].
Proof. induction l as [|[i o] l IH]; cbn; rewrite ?IH; reflexivity. Qed.
Lemma ssets_snon : forall l, ssets (snon l) = ssets l.
Proof. induction l as [|[i o|q r|u] l IH]; cbn; rewrite ?IH; reflexivity. Qed.

(* ---------- executions ---------- *)
Lemma fsteps_one : forall g c l c', fstep g c l c' -> fsteps g c l c'.
Proof. intros g c l c' H. exact (fsteps_snoc g c [] c l c' (fsteps_refl g c) H). Qed.

Lemma fsteps_trans : forall g a l1 b l2 c, fsteps g a l1 b -> fsteps g b l2 c -> fsteps g a (l1 ++ l2) c.
Proof.
  intros g a l1 b l2 c H1 H2. induction H2 as [|labs c1 l c2 _ IH Hs].
  - now rewrite app_nil_r.
  - rewrite app_assoc. eapply fsteps_snoc; eauto.
Qed.

(* a guarded execution is an execution of the unguarded system *)
Lemma fstep_weaken : forall c l c', fstep true c l c' -> fstep false c l c'.
Proof.
  intros c l c' H. destruct H as [c l c' H | c q | c u H]; [now constructor | constructor |].
  constructor. discriminate.
Qed.
Lemma fsteps_weaken : forall c0 labs c, fsteps true c0 labs c -> fsteps false c0 labs c.
Proof.
  intros c0 labs c H. induction H as [|labs c l c' _ IH Hs]; [constructor|].
  eapply fsteps_snoc; [exact IH | exact (fstep_weaken _ _ _ Hs)].
Qed.

(* an execution without stores is an execution of Lemmas_C17c's system, and conversely *)
Definition lab_of (l : slab) : list (lab Op Q R) :=
  match l with SAcq i o => [LAcq i o] | SObs q r => [LObs q r] | SSet _ => [] end.
Definition slab_of (l : lab Op Q R) : slab :=
  match l with LAcq i o => SAcq i o | LObs q r => SObs q r end.

Lemma osteps_embed : forall g c0 labs c, osteps body ans c0 labs c -> fsteps g c0 (map slab_of labs) c.
Proof.
  intros g c0 labs c H. induction H as [|labs c l c' _ IH Hs]; [constructor|].
  rewrite map_app. eapply fsteps_snoc; [exact IH|].
  destruct Hs as [c l c' Hl | c q].
  - rewrite map_map. cbn [slab_of lacq]. exact (fstep_lock g c l c' Hl).
  - cbn [map slab_of]. constructor.
Qed.

(* ---------- the phases: mutual exclusion is untouched by the stores ---------- *)
(* the holder / threads components of an execution are an execution of the lock protocol over
   the trivial shared state *)
Definition strip (c : conf) : Lemmas_C17b.conf unit Op := mkConf tt (holder c) (threads c).
Definition body0 (o : Op) (x : unit) : unit := tt.

Lemma lstep_strip : forall c l c', lstep body c l c' -> lstep body0 (strip c) l (strip c').
Proof.
  intros c l c' H. destruct H as [c i o rest Hh Hn | c i o rest Hh Hn | c i o rest Hh Hn]; unfold strip;
    cbn [holder threads shared].
  - exact (step_acquire unit Op body0 (mkConf tt (holder c) (threads c)) i o rest Hh Hn).
  - exact (step_body unit Op body0 (mkConf tt (holder c) (threads c)) i o rest Hh Hn).
  - exact (step_release unit Op body0 (mkConf tt (holder c) (threads c)) i o rest Hh Hn).
Qed.

Lemma fsteps_strip : forall g c0 labs c, fsteps g c0 labs c -> msteps body0 (strip c0) (sacqs labs) (strip c).
Proof.
  intros g c0 labs c H. induction H as [|labs c l c' _ IH Hs]; [constructor|].
  rewrite sacqs_app. destruct Hs as [c l c' Hl | c q | c u _].
  - rewrite sacqs_sacq. eapply msteps_snoc; [exact IH | exact (lstep_strip _ _ _ Hl)].
  - cbn [sacqs]. rewrite app_nil_r. exact IH.
  - cbn [sacqs]. rewrite app_nil_r. exact IH.
Qed.

Theorem setters_mutual_exclusion : forall g c0 labs c, quiescent c0 -> fsteps g c0 labs c ->
  (forall i rest ph, nth_error (threads c) i = Some (rest, ph) -> ph <> Idle -> holder c = Some i) /\
  (forall i, holder c = Some i ->
     exists rest ph, nth_error (threads c) i = Some (rest, ph) /\ ph <> Idle) /\
  (forall i j ri pi rj pj, nth_error (threads c) i = Some (ri, pi) -> nth_error (threads c) j = Some (rj, pj) ->
     pi <> Idle -> pj <> Idle -> i = j).
Proof.
  intros g c0 labs c Hq H.
  exact (C17_mutual_exclusion unit Op body0 (strip c0) (sacqs labs) (strip c) Hq (fsteps_strip g _ _ _ H)).
Qed.

Lemma holding_of_phase_s : forall g c0 labs c, quiescent c0 -> fsteps g c0 labs c ->
  (forall i rest o, nth_error (threads c) i = Some (rest, Holding o) -> holding_of c = [(i, o)]) /\
  ((forall i rest o, nth_error (threads c) i <> Some (rest, Holding o)) -> holding_of c = []).
Proof.
  intros g c0 labs c Hq H. destruct (setters_mutual_exclusion g c0 labs c Hq H) as [A _]. split.
  - intros i rest o Hn. unfold holding_of. rewrite (A i rest (Holding o) Hn) by discriminate.
    rewrite Hn. reflexivity.
  - intros Hno. unfold holding_of. destruct (holder c) as [i|]; [|reflexivity].
    destruct (nth_error (threads c) i) as [[rest [|o|o]]|] eqn:Hn; try reflexivity.
    exfalso. exact (Hno i rest o Hn).
Qed.

Lemma holding_of_idle : forall c : conf, all_idle c -> holding_of c = [].
Proof.
  intros c Hid. unfold holding_of. destruct (holder c) as [i|]; [|reflexivity].
  destruct (nth_error (threads c) i) as [[rest ph]|] eqn:Hn; [|reflexivity].
  pose proof (proj1 (all_idle_nth _ _ c) Hid i _ Hn) as Hph. cbn in Hph. subst ph. reflexivity.
Qed.

Lemma holding_of_inv : forall (c : conf) i o, holding_of c = [(i, o)] ->
  holder c = Some i /\ exists rest, nth_error (threads c) i = Some (rest, Holding o).
Proof.
  intros c i o H. unfold holding_of in H. destruct (holder c) as [k|]; [|discriminate].
  destruct (nth_error (threads c) k) as [[rest [|o'|o']]|] eqn:Hn; try discriminate.
  injection H as -> ->. split; [reflexivity | eauto].
Qed.

(* ---------- the scheduler is sound ---------- *)
Lemma guard_ok_sound : forall c u, guard_ok c u = true -> set_ok c u.
Proof.
  intros c u H i rest o Hh Hn. unfold guard_ok, holding_of in H. rewrite Hh, Hn in H. exact H.
Qed.

Lemma fsched_sound : forall g acts c, fsteps g c (snd (fsched g c acts)) (fst (fsched g c acts)).
Proof.
  intro g. induction acts as [|[i|q|u] acts IH]; intro c; cbn [fsched].
  - constructor.
  - destruct (tstep body c i) as [[c' l]|] eqn:Ht; [|apply IH].
    specialize (IH c'). destruct (fsched g c' acts) as [c'' l']. cbn [fst snd] in *.
    eapply fsteps_trans; [apply fsteps_one; constructor; eapply tstep_sound; eauto|exact IH].
  - specialize (IH c). destruct (fsched g c acts) as [c'' l']. cbn [fst snd] in *.
    exact (fsteps_trans _ _ _ _ _ _ (fsteps_one _ _ _ _ (fstep_obs g c q)) IH).
  - destruct (negb g || guard_ok c u) eqn:G; [|apply IH].
    specialize (IH (mkConf (store u (shared c)) (holder c) (threads c))).
    destruct (fsched g (mkConf (store u (shared c)) (holder c) (threads c)) acts) as [c'' l'].
    cbn [fst snd] in *.
    refine (fsteps_trans _ _ _ _ _ _ (fsteps_one _ _ _ _ (fstep_set g c u _)) IH).
    intros ->. cbn in G. apply guard_ok_sound. exact G.
Qed.

(* ---------- guarded executions: the label order is a linearisation ---------- *)
Section Guarded.
Variable eqv : Sh -> Sh -> Prop.
Hypothesis eqv_refl : forall s, eqv s s.
Hypothesis eqv_trans : forall a b c, eqv a b -> eqv b c -> eqv a c.
Hypothesis body_eqv : forall o s1 s2, eqv s1 s2 -> eqv (body o s1) (body o s2).
Hypothesis store_eqv : forall u s1 s2, eqv s1 s2 -> eqv (store u s1) (store u s2).
Hypothesis commute : forall u o s, blind u o s = true -> eqv (body o (store u s)) (store u (body o s)).

(* the shared state, completed by the body that has the lock but has not run yet *)
Definition pending (c : conf) : Sh :=
  match holding_of c with
  | [] => shared c
  | io :: _ => body (snd io) (shared c)
  end.

Definition K (s0 : Sh) (labs : list slab) (c : conf) : Prop := eqv (pending c) (lexec labs s0).

Lemma K_step : forall s0 labs c l c', K s0 labs c -> fstep true c l c' -> K s0 (labs ++ l) c'.
Proof.
  intros s0 labs c l c' HK Hs. unfold K in *. rewrite lexec_app.
  destruct Hs as [c l c' Hl | c q | c u Hg].
  - destruct Hl as [c i o rest Hh Hn | c i o rest Hh Hn | c i o rest Hh Hn].
    + (* ACQUIRE *)
      assert (H0 : holding_of c = []) by (unfold holding_of; rewrite Hh; reflexivity).
      assert (H1 : holding_of (mkConf (shared c) (Some i) (set_nth i (rest, Holding o) (threads c))) = [(i, o)]).
      { unfold holding_of. cbn [holder threads]. erewrite nth_error_set_nth_eq by eauto. reflexivity. }
      unfold pending in *. rewrite H1. rewrite H0 in HK. cbn [map sacq lexec fold_left lexec1 fst snd shared].
      apply body_eqv. exact HK.
    + (* BODY *)
      assert (H0 : holding_of c = [(i, o)]) by (unfold holding_of; rewrite Hh, Hn; reflexivity).
      assert (H1 : holding_of (mkConf (body o (shared c)) (Some i) (set_nth i (rest, Done' o) (threads c))) = []).
      { unfold holding_of. cbn [holder threads]. erewrite nth_error_set_nth_eq by eauto. reflexivity. }
      unfold pending in *. rewrite H1. rewrite H0 in HK. cbn [map lexec fold_left snd shared] in *. exact HK.
    + (* RELEASE *)
      assert (H0 : holding_of c = []) by (unfold holding_of; rewrite Hh, Hn; reflexivity).
      assert (H1 : holding_of (mkConf (shared c) None (set_nth i (rest, Idle) (threads c))) = []) by reflexivity.
      unfold pending in *. rewrite H1. rewrite H0 in HK. cbn [map lexec fold_left shared]. exact HK.
  - (* OBSERVE *) cbn [lexec fold_left lexec1]. exact HK.
  - (* SET *)
    cbn [lexec fold_left lexec1].
    assert (H1 : holding_of (mkConf (store u (shared c)) (holder c) (threads c)) = holding_of c) by reflexivity.
    unfold pending in *. rewrite H1. cbn [shared].
    destruct (holding_of c) as [|[i o] r] eqn:H0.
    + apply store_eqv. exact HK.
    + cbn [snd] in *. assert (B : blind u o (shared c) = true).
      { unfold holding_of in H0. destruct (holder c) as [k|] eqn:Hh; [|discriminate].
        destruct (nth_error (threads c) k) as [[rest [|o'|o']]|] eqn:Hn; try discriminate.
        injection H0 as -> -> _. exact (Hg eq_refl _ _ _ Hh Hn). }
      eapply eqv_trans; [exact (commute u o (shared c) B)|]. apply store_eqv. exact HK.
Qed.

Lemma K_fsteps : forall c0 labs c, holder c0 = None -> fsteps true c0 labs c -> K (shared c0) labs c.
Proof.
  intros c0 labs c Hh H. induction H as [|labs c l c' _ IH Hs].
  - unfold K, pending, holding_of. rewrite Hh. apply eqv_refl.
  - eapply K_step; eauto.
Qed.

Theorem setters_linearizable : forall c0 labs c, quiescent c0 -> fsteps true c0 labs c ->
  ((forall i rest o, nth_error (threads c) i <> Some (rest, Holding o)) ->
     eqv (shared c) (lexec labs (shared c0))) /\
  (forall i rest o, nth_error (threads c) i = Some (rest, Holding o) ->
     eqv (body o (shared c)) (lexec labs (shared c0))).
Proof.
  intros c0 labs c Hq H. pose proof (K_fsteps c0 labs c (proj1 Hq) H) as HK.
  destruct (holding_of_phase_s true c0 labs c Hq H) as [P1 P2]. unfold K, pending in HK. split.
  - intros Hno. rewrite (P2 Hno) in HK. exact HK.
  - intros i rest o Hn. rewrite (P1 i rest o Hn) in HK. exact HK.
Qed.

Corollary setters_linearizable_idle : forall c0 labs c, quiescent c0 -> fsteps true c0 labs c ->
  all_idle c -> eqv (shared c) (lexec labs (shared c0)).
Proof.
  intros c0 labs c Hq H Hid. pose proof (K_fsteps c0 labs c (proj1 Hq) H) as HK.
  unfold K, pending in HK. rewrite (holding_of_idle c Hid) in HK. exact HK.
Qed.

End Guarded.

(* ---------- all executions: the exact sequential witness ---------- *)
(* where each store / observation of labs sits in the witness xs *)
Definition SPos (s0 : Sh) (xs labs : list slab) : Prop :=
  forall l1 e l2, labs = l1 ++ e :: l2 -> is_acq e = false ->
  exists x1 x2, xs = x1 ++ e :: x2 /\ snon x1 = snon l1 /\
    (sacqs x1 = sacqs l1 \/ exists io, sacqs l1 = sacqs x1 ++ [io]) /\
    (forall q r, e = SObs q r -> r = ans q (lexec x1 s0)).

Definition JU (s0 : Sh) (labs : list slab) (c : conf) : Prop :=
  exists xs, sacqs labs = sacqs xs ++ holding_of c /\
             snon xs = snon labs /\
             shared c = lexec xs s0 /\
             SPos s0 xs labs.

Lemma SPos_mono : forall s0 xs labs ys l0 c c', lstep body c l0 c' ->
  SPos s0 xs labs -> SPos s0 (xs ++ ys) (labs ++ map sacq l0).
Proof.
  intros s0 xs labs ys l0 c c' Hl P l1 e l2 E He.
  assert (KK : exists l2', labs = l1 ++ e :: l2').
  { destruct (lstep_label _ _ _ _ _ _ Hl) as [-> | [io ->]]; cbn [map] in E.
    - rewrite app_nil_r in E. eauto.
    - apply snoc_split in E. destruct E as [(_ & _ & E) | (l2' & _ & E)]; [|eauto].
      subst e. discriminate He. }
  destruct KK as (l2' & E'). destruct (P _ _ _ E' He) as (x1 & x2 & A & B & C & F).
  exists x1, (x2 ++ ys). split; [|auto]. rewrite A, <- app_assoc. reflexivity.
Qed.

(* a new non-acquire label e, recorded in the witness at the moment it happens *)
Lemma SPos_snoc : forall s0 xs labs e (c : conf), is_acq e = false ->
  sacqs labs = sacqs xs ++ holding_of c -> snon xs = snon labs ->
  (forall q r, e = SObs q r -> r = ans q (lexec xs s0)) ->
  SPos s0 xs labs -> SPos s0 (xs ++ [e]) (labs ++ [e]).
Proof.
  intros s0 xs labs e c He A B F P l1 e' l2 E' He'.
  apply snoc_split in E'. destruct E' as [(-> & -> & E') | (l2' & -> & E')].
  - subst e'. exists xs, []. split; [reflexivity|]. split; [exact B|]. split; [|exact F].
    rewrite A. destruct (holding_of_le1 _ _ c) as [-> | [io ->]]; [left; now rewrite app_nil_r | right; eauto].
  - destruct (P _ _ _ E' He') as (x1 & x2 & A' & B' & C' & F').
    exists x1, (x2 ++ [e]). split; [|auto]. rewrite A', <- app_assoc. reflexivity.
Qed.

Lemma JU_step : forall g s0 labs c l c', JU s0 labs c -> fstep g c l c' -> JU s0 (labs ++ l) c'.
Proof.
  intros g s0 labs c l c' (xs & A & B & E & P) Hs.
  destruct Hs as [c l c' Hl | c q | c u _].
  - pose proof Hl as Hl'. destruct Hl as [c i o rest Hh Hn | c i o rest Hh Hn | c i o rest Hh Hn].
    + (* ACQUIRE *)
      pose proof (SPos_mono s0 xs labs [] _ _ _ Hl' P) as PP. cbn [map] in PP. rewrite ?app_nil_r in PP.
      exists xs. rewrite sacqs_app, snon_app, sacqs_sacq, snon_sacq, app_nil_r.
      assert (H0 : holding_of c = []) by (unfold holding_of; rewrite Hh; reflexivity).
      assert (H1 : holding_of (mkConf (shared c) (Some i) (set_nth i (rest, Holding o) (threads c))) = [(i, o)]).
      { unfold holding_of. cbn [holder threads]. erewrite nth_error_set_nth_eq by eauto. reflexivity. }
      rewrite H1, A, H0, app_nil_r. repeat (split; [assumption || reflexivity|]).
      exact PP.
    + (* BODY *)
      pose proof (SPos_mono s0 xs labs [SAcq i o] _ _ _ Hl' P) as PP. cbn [map] in PP. rewrite ?app_nil_r in PP.
      exists (xs ++ [SAcq i o]). rewrite !sacqs_app, !snon_app, sacqs_sacq, snon_sacq, lexec_app.
      assert (H0 : holding_of c = [(i, o)]) by (unfold holding_of; rewrite Hh, Hn; reflexivity).
      assert (H1 : holding_of (mkConf (body o (shared c)) (Some i) (set_nth i (rest, Done' o) (threads c))) = []).
      { unfold holding_of. cbn [holder threads]. erewrite nth_error_set_nth_eq by eauto. reflexivity. }
      rewrite H1, A, H0. cbn [sacqs snon lexec fold_left lexec1 shared].
      rewrite !app_nil_r, E. repeat (split; [assumption || reflexivity|]).
      exact PP.
    + (* RELEASE *)
      pose proof (SPos_mono s0 xs labs [] _ _ _ Hl' P) as PP. cbn [map] in PP. rewrite ?app_nil_r in PP.
      exists xs. rewrite sacqs_app, snon_app, sacqs_sacq, snon_sacq, !app_nil_r.
      assert (H0 : holding_of c = []) by (unfold holding_of; rewrite Hh, Hn; reflexivity).
      assert (H1 : holding_of (mkConf (shared c) None (set_nth i (rest, Idle) (threads c))) = []) by reflexivity.
      rewrite ?H1, A, H0, ?app_nil_r. repeat (split; [assumption || reflexivity|]).
      exact PP.
  - (* OBSERVE *)
    exists (xs ++ [SObs q (ans q (shared c))]). rewrite !sacqs_app, !snon_app, lexec_app.
    cbn [sacqs snon lexec fold_left lexec1]. rewrite !app_nil_r, B.
    repeat (split; [assumption || reflexivity|]).
    apply (SPos_snoc s0 xs labs (SObs q (ans q (shared c))) c eq_refl A B); [|exact P].
    intros q' r' Eq. injection Eq as <- <-. rewrite E. reflexivity.
  - (* SET *)
    exists (xs ++ [SSet u]). rewrite !sacqs_app, !snon_app, lexec_app.
    cbn [sacqs snon lexec fold_left lexec1 shared]. rewrite !app_nil_r, B, E.
    assert (H1 : holding_of (mkConf (store u (lexec xs s0)) (holder c) (threads c)) = holding_of c) by reflexivity.
    rewrite H1. repeat (split; [assumption || reflexivity|]).
    apply (SPos_snoc s0 xs labs (SSet u) c eq_refl A B); [|exact P].
    intros q' r' Eq. discriminate Eq.
Qed.

Lemma JU_fsteps : forall g c0 labs c, holder c0 = None -> fsteps g c0 labs c -> JU (shared c0) labs c.
Proof.
  intros g c0 labs c Hh H. induction H as [|labs c l c' _ IH Hs].
  - exists []. unfold holding_of. rewrite Hh. cbn. repeat (split; [reflexivity|]).
    intros l1 e l2 E. destruct l1; discriminate E.
  - eapply JU_step; eauto.
Qed.

Theorem setters_exact : forall g c0 labs c, holder c0 = None -> fsteps g c0 labs c ->
  exists xs, sacqs labs = sacqs xs ++ holding_of c /\ snon xs = snon labs /\
             shared c = lexec xs (shared c0) /\ SPos (shared c0) xs labs.
Proof. exact JU_fsteps. Qed.

Theorem setters_exact_idle : forall g c0 labs c, quiescent c0 -> fsteps g c0 labs c -> all_idle c ->
  exists xs, sacqs xs = sacqs labs /\ snon xs = snon labs /\ ssets xs = ssets labs /\
             shared c = lexec xs (shared c0) /\ SPos (shared c0) xs labs.
Proof.
  intros g c0 labs c Hq H Hid. destruct (JU_fsteps g c0 labs c (proj1 Hq) H) as (xs & A & B & E & P).
  exists xs. rewrite A, (holding_of_idle c Hid), app_nil_r.
  split; [reflexivity|]. split; [exact B|]. split; [|split; assumption].
  rewrite <- (ssets_snon xs), B. apply ssets_snon.
Qed.

End Stores.

Arguments SAcq {Op Q R U} i o.
Arguments SObs {Op Q R U} q r.
Arguments SSet {Op Q R U} u.
Arguments sacq {Op Q R U} io.
Arguments set_ok {Sh Op U} blind c u.
Arguments fstep {Sh Op} body {Q R} ans {U} store blind guard _ _ _.
Arguments fsteps {Sh Op} body {Q R} ans {U} store blind guard c0 _ _.
Arguments lexec1 {Sh Op} body {Q R U} store s l.
Arguments lexec {Sh Op} body {Q R U} store labs s.
Arguments sacqs {Op Q R U} labs.
Arguments snon {Op Q R U} labs.
Arguments ssets {Op Q R U} labs.
Arguments is_acq {Op Q R U} l.
Arguments STick {Q U} i.
Arguments SLook {Q U} q.
Arguments SStore {Q U} u.
Arguments guard_ok {Sh Op U} blind c u.
Arguments fsched {Sh Op} body {Q R} ans {U} store blind guard c acts.
Arguments SPos {Sh Op} body {Q R} ans {U} store s0 xs labs.
Arguments slab_of {Op Q R U} l.

(* ================================================================== *)
(* PART C.  Instance: the cAT model with the two unlocked flag stores  *)
(* ================================================================== *)
(* the application stores cmd->disable = b (command i) or group->disable = b (group g) *)
Inductive setter := SetCmd (i : nat) (b : bool) | SetGrp (g : nat) (b : bool).
Definition setter_op (u : setter) : op :=
  match u with SetCmd i b => OSetCmdDisable i b | SetGrp g b => OSetGroupDisable g b end.

(* the operations of a label list, in label order: a critical section at its ACQUIRE, a store
   where it happened, observations dropped *)
Fixpoint lops (labs : list (slab op op Z setter)) : list op :=
  match labs with
  | [] => []
  | SAcq _ o :: r => o :: lops r
  | SObs _ _ :: r => lops r
  | SSet u :: r => setter_op u :: lops r
  end.

Section StoreInstance.
Variable D : desc.
Variables ioS muS hS : Type.
Variable io_read : ioS -> ioS * option N.
Variable io_write : ioS -> N -> ioS * bool.
Variable mu_lock : muS -> muS * bool.
Variable mu_unlock : muS -> muS * bool.
Variable h_call : hS -> hreq -> hS * hres.

Local Notation World := (world ioS muS hS).
Local Notation Step := (step D ioS muS hS io_read io_write mu_lock mu_unlock h_call).
Local Notation Run := (run D ioS muS hS io_read io_write mu_lock mu_unlock h_call).
Local Notation st := (Fsm.st ioS muS hS).
Local Notation io := (Fsm.io ioS muS hS).
Local Notation mu := (Fsm.mu ioS muS hS).
Local Notation hs := (Fsm.hs ioS muS hS).
Local Notation tr := (Fsm.tr ioS muS hS).

Definition cat_body' (o : op) (w : World) : World := Step w o.
Definition cat_ans' (q : op) (w : World) : Z := obs_ans D q (st w).
Definition cat_store (u : setter) (w : World) : World := Step w (setter_op u).
Definition cat_blind (u : setter) (o : op) (w : World) : bool := SF.op_blind o (st w).
(* the same world up to the log *)
Definition weqv (w1 w2 : World) : Prop :=
  st w1 = st w2 /\ io w1 = io w2 /\ mu w1 = mu w2 /\ hs w1 = hs w2.

Lemma weqv_refl : forall w, weqv w w.
Proof. intro w. repeat split. Qed.
Lemma weqv_trans : forall a b c, weqv a b -> weqv b c -> weqv a c.
Proof.
  intros a b c (A1 & A2 & A3 & A4) (B1 & B2 & B3 & B4).
  repeat split; etransitivity; eassumption.
Qed.
Lemma step_weqv : forall o w1 w2, weqv w1 w2 -> weqv (Step w1 o) (Step w2 o).
Proof.
  intros o w1 w2 (A & B & C & E).
  destruct (step_tr_indep D ioS muS hS io_read io_write mu_lock mu_unlock h_call o w1 w2 A B C E)
    as (A' & B' & C' & E' & _).
  repeat split; assumption.
Qed.
Lemma store_commutes : forall u o w, cat_blind u o w = true ->
  weqv (cat_body' o (cat_store u w)) (cat_store u (cat_body' o w)).
Proof.
  intros [i b|g b] o w H; unfold cat_blind in H; unfold cat_body', cat_store, setter_op.
  - destruct (setter_commutes_cmd D ioS muS hS io_read io_write mu_lock mu_unlock h_call w i b o H)
      as (A & B & C & E & _). repeat split; assumption.
  - destruct (setter_commutes_grp D ioS muS hS io_read io_write mu_lock mu_unlock h_call w g b o H)
      as (A & B & C & E & _). repeat split; assumption.
Qed.

Lemma lexec_run : forall labs (w : World), lexec cat_body' cat_store labs w = Run w (lops labs).
Proof.
  induction labs as [|[i o|q r|u] labs IH]; intro w; [reflexivity| | |];
    unfold lexec, run in *; cbn [fold_left lops lexec1]; apply IH.
Qed.

(* guarded executions: configurations at which no thread is between ACQUIRE and BODY, and
   configurations at which thread i is *)
Theorem threads_setters_any : forall (w0 : World) tl labs c,
  fsteps cat_body' cat_ans' cat_store cat_blind true (start w0 tl) labs c ->
  ((forall i rest o, nth_error (threads c) i <> Some (rest, Holding o)) ->
     weqv (shared c) (Run w0 (lops labs))) /\
  (forall i rest o, nth_error (threads c) i = Some (rest, Holding o) ->
     weqv (Step (shared c) o) (Run w0 (lops labs))).
Proof.
  intros w0 tl labs c H. rewrite <- lexec_run.
  exact (setters_linearizable World op cat_body' op Z cat_ans' setter cat_store cat_blind weqv
           weqv_refl weqv_trans (fun o => step_weqv o) (fun u => step_weqv (setter_op u)) store_commutes
           (start w0 tl) labs c (start_quiescent _ _ w0 tl) H).
Qed.

Theorem threads_setters : forall (w0 : World) tl labs c,
  fsteps cat_body' cat_ans' cat_store cat_blind true (start w0 tl) labs c -> all_idle c ->
  let w := shared c in let ws := Run w0 (lops labs) in
  st w = st ws /\ io w = io ws /\ mu w = mu ws /\ hs w = hs ws.
Proof.
  intros w0 tl labs c H Hid. cbv zeta. rewrite <- lexec_run.
  exact (setters_linearizable_idle World op cat_body' op Z cat_ans' setter cat_store cat_blind weqv
           weqv_refl weqv_trans (fun o => step_weqv o) (fun u => step_weqv (setter_op u)) store_commutes
           (start w0 tl) labs c (start_quiescent _ _ w0 tl) H Hid).
Qed.

(* all executions, guarded or not: the exact witness (critical sections at their BODY) *)
Theorem threads_setters_exact : forall g (w0 : World) tl labs c,
  fsteps cat_body' cat_ans' cat_store cat_blind g (start w0 tl) labs c -> all_idle c ->
  exists xs, sacqs xs = sacqs labs /\ snon xs = snon labs /\ ssets xs = ssets labs /\
             shared c = Run w0 (lops xs) /\
             SPos cat_body' cat_ans' cat_store w0 xs labs.
Proof.
  intros g w0 tl labs c H Hid.
  destruct (setters_exact_idle World op cat_body' op Z cat_ans' setter cat_store cat_blind g
              (start w0 tl) labs c (start_quiescent _ _ w0 tl) H Hid) as (xs & A & B & C & E & P).
  exists xs. rewrite <- lexec_run. auto.
Qed.

End StoreInstance.

(* unlocked stores, racing or not, do not disturb the exactly-once guarantee *)
Section InvStores.
Variable D : desc.
Variables ioS muS hS : Type.
Variable io_read : ioS -> ioS * option N.
Variable io_write : ioS -> N -> ioS * bool.
Variable mu_lock : muS -> muS * bool.
Variable mu_unlock : muS -> muS * bool.
Variable h_call : hS -> hreq -> hS * hres.
Variable MI : muS -> Prop.
Hypothesis MI_lock : forall m, MI m -> MI (fst (mu_lock m)).
Hypothesis MI_unlock : forall m, MI m -> MI (fst (mu_unlock m)) /\ snd (mu_unlock m) = true.

Local Notation World := (world ioS muS hS).
Local Notation st := (Fsm.st ioS muS hS).
Local Notation I T := (T D ioS muS hS io_read io_write mu_lock mu_unlock h_call).

Theorem threads_setters_exactly_once_inv :
  forall g (P : nat * ctype -> bool) m x mx h (tl : list (list op)) labs (c : conf World op),
  0 < d_cap D -> (d_mutex D = false \/ MI mx) ->
  let w0 := mkWorld ioS muS hS (init_state D m) x mx h [] in
  fsteps (I cat_body') (cat_ans' D ioS muS hS) (I cat_store) (cat_blind ioS muS hS) g (start w0 tl) labs c ->
  all_idle c ->
  let w := shared c in
  filter P (accepted (hist ioS muS hS w)) =
  filter P (popped (hist ioS muS hS w)) ++ filter P (ring_items D (st w)).
Proof.
  intros g P m x mx h tl labs c Hcap Hun w0 H Hid. cbv zeta.
  destruct (threads_setters_exact D ioS muS hS io_read io_write mu_lock mu_unlock h_call g w0 tl labs c H Hid)
    as (xs & _ & _ & _ & E & _).
  rewrite E.
  exact (Lemmas_Inv.C17_per_producer_inv D ioS muS hS io_read io_write mu_lock mu_unlock h_call
           MI MI_lock MI_unlock P m x mx h (lops xs) Hcap Hun).
Qed.

End InvStores.

Theorem threads_setters_exactly_once_scripted :
  forall D g (P : nat * ctype -> bool) m x mx h (tl : list (list op)) labs (c : conf sworld op),
  0 < d_cap D -> (d_mutex D = false \/ Lemmas_Inv.unlock_never_fails mx = true) ->
  let w0 := sinit D m x mx h in
  fsteps (fun o w => step D sio smu shs s_read s_write s_lock s_unlock s_call w o)
         (fun q w => obs_ans D q (Fsm.st sio smu shs w))
         (fun u w => step D sio smu shs s_read s_write s_lock s_unlock s_call w (setter_op u))
         (fun (u : setter) o w => SF.op_blind o (Fsm.st sio smu shs w))
         g (start w0 tl) labs c ->
  all_idle c ->
  let w := shared c in
  filter P (accepted (hist sio smu shs w)) =
  filter P (popped (hist sio smu shs w)) ++ filter P (ring_items D (Fsm.st sio smu shs w)).
Proof.
  intros D g P m x mx h tl labs c Hcap Hun.
  exact (threads_setters_exactly_once_inv D sio smu shs s_read s_write s_lock s_unlock s_call
           (fun mx => Lemmas_Inv.unlock_never_fails mx = true) Lemmas_Inv.MI_s_lock Lemmas_Inv.MI_s_unlock
           g P m x mx h tl labs c Hcap Hun).
Qed.
