(* Properties_C12.v — property C12: the parser's behaviour does not depend on how io is scheduled.
   When read reports "nothing available" or write reports "refused", the machine makes no
   progress and loses nothing: the same input bytes are acted on and the same output bytes are
   produced, each exactly once, as if io had always been ready.  Proofs are in Lemmas_C12.v. *)
From Coq Require Import List NArith ZArith Bool Arith.
From CatV Require Import Bytes Defs Codec Fsm Script TraceDefs ResolveDefs SchedDefs SkelInv Lemmas_C12.
Import ListNotations.
Local Open Scope nat_scope.

(* ================================================================== *)
(* Part A : one service step, ARBITRARY oracles, every state of both   *)
(*          machines                                                   *)
(* ================================================================== *)
Section C12.
Variable D : desc.
Variables ioS muS hS : Type.
Variable io_read : ioS -> ioS * option N.
Variable io_write : ioS -> N -> ioS * bool.
Variable mu_lock : muS -> muS * bool.
Variable mu_unlock : muS -> muS * bool.
Variable h_call : hS -> hreq -> hS * hres.

Local Notation world := (Fsm.world ioS muS hS).
Local Notation st := (Fsm.st ioS muS hS).
Local Notation io := (Fsm.io ioS muS hS).
Local Notation mu := (Fsm.mu ioS muS hS).
Local Notation hs := (Fsm.hs ioS muS hS).
Local Notation set_io := (Fsm.set_io ioS muS hS).
Local Notation logw := (Fsm.logw ioS muS hS).
Local Notation upd_st := (Fsm.upd_st ioS muS hS).
Local Notation unsolicited_events_service :=
  (Fsm.unsolicited_events_service D ioS muS hS io_write mu_lock mu_unlock h_call).
Local Notation cmd_service :=
  (Fsm.cmd_service D ioS muS hS io_read io_write mu_lock mu_unlock h_call).

(* 1. the seven reading states: "nothing available" changes nothing but the oracle state and the
   log entry of the attempt; the call reports OK (not busy) *)
Theorem C12_read_refused : forall (w : world) io',
  reading_state (k_state (k (st w))) = true ->
  io_read (io w) = (io', None) ->
  cmd_service w = (logw (ERd None) (set_io io' w), ST_OK).
Proof. exact (Lemmas_C12.C12_read_refused D ioS muS hS io_read io_write mu_lock mu_unlock h_call). Qed.

(* 2. CS_FLUSH with a character to send: a refused write changes nothing (the same character is
   offered again by the next call), an accepted write advances the cursor by exactly one *)
Theorem C12_write_refused_cmd : forall (w : world) ch io',
  k_state (k (st w)) = CS_FLUSH ->
  wbuf_char (k_wbuf (k (st w))) (cbuf (st w)) (k_position (k (st w))) = Some ch -> ch <> 0%N ->
  io_write (io w) ch = (io', false) ->
  cmd_service w = (logw (EWr ATCMD ch false) (set_io io' w), ST_BUSY).
Proof. exact (Lemmas_C12.C12_write_refused_cmd D ioS muS hS io_read io_write mu_lock mu_unlock h_call). Qed.

Theorem C12_write_accepted_cmd : forall (w : world) ch io',
  k_state (k (st w)) = CS_FLUSH ->
  wbuf_char (k_wbuf (k (st w))) (cbuf (st w)) (k_position (k (st w))) = Some ch -> ch <> 0%N ->
  io_write (io w) ch = (io', true) ->
  cmd_service w =
    (upd_st (fun s => setk_position (S (k_position (k s))) s)
            (logw (EWr ATCMD ch true) (set_io io' w)), ST_BUSY).
Proof. exact (Lemmas_C12.C12_write_accepted_cmd D ioS muS hS io_read io_write mu_lock mu_unlock h_call). Qed.

(* 3. the same for the event machine in US_FLUSH *)
Theorem C12_write_refused_uns : forall (w : world) ch io',
  u_state (u (st w)) = US_FLUSH ->
  wbuf_char (u_wbuf (u (st w))) (ubuf (st w)) (u_position (u (st w))) = Some ch -> ch <> 0%N ->
  io_write (io w) ch = (io', false) ->
  unsolicited_events_service w = (logw (EWr UNSOL ch false) (set_io io' w), ST_BUSY).
Proof. exact (Lemmas_C12.C12_write_refused_uns D ioS muS hS io_write mu_lock mu_unlock h_call). Qed.

Theorem C12_write_accepted_uns : forall (w : world) ch io',
  u_state (u (st w)) = US_FLUSH ->
  wbuf_char (u_wbuf (u (st w))) (ubuf (st w)) (u_position (u (st w))) = Some ch -> ch <> 0%N ->
  io_write (io w) ch = (io', true) ->
  unsolicited_events_service w =
    (upd_st (fun s => setu_position (S (u_position (u s))) s)
            (logw (EWr UNSOL ch true) (set_io io' w)), ST_BUSY).
Proof. exact (Lemmas_C12.C12_write_accepted_uns D ioS muS hS io_write mu_lock mu_unlock h_call). Qed.

(* 4. a flush step whose current character is the terminating NUL (or lies outside the buffer)
   makes no io attempt and does not depend on the io state *)
Theorem C12_flush_no_char_cmd : forall (w : world) x, k_state (k (st w)) = CS_FLUSH ->
  (wbuf_char (k_wbuf (k (st w))) (cbuf (st w)) (k_position (k (st w))) = None \/
   wbuf_char (k_wbuf (k (st w))) (cbuf (st w)) (k_position (k (st w))) = Some 0%N) ->
  cmd_service (set_io x w) = (set_io x (fst (cmd_service w)), snd (cmd_service w)) /\
  io (fst (cmd_service w)) = io w.
Proof. exact (Lemmas_C12.C12_flush_no_char_cmd D ioS muS hS io_read io_write mu_lock mu_unlock h_call). Qed.

Theorem C12_flush_no_char_uns : forall (w : world) x, u_state (u (st w)) = US_FLUSH ->
  (wbuf_char (u_wbuf (u (st w))) (ubuf (st w)) (u_position (u (st w))) = None \/
   wbuf_char (u_wbuf (u (st w))) (ubuf (st w)) (u_position (u (st w))) = Some 0%N) ->
  unsolicited_events_service (set_io x w) =
    (set_io x (fst (unsolicited_events_service w)), snd (unsolicited_events_service w)) /\
  io (fst (unsolicited_events_service w)) = io w.
Proof. exact (Lemmas_C12.C12_flush_no_char_uns D ioS muS hS io_write mu_lock mu_unlock h_call). Qed.

(* 5. no other state touches io, and its step does not depend on the io state at all *)
Theorem C12_no_io_cmd : forall (w : world) x,
  reading_state (k_state (k (st w))) = false -> k_state (k (st w)) <> CS_FLUSH ->
  cmd_service (set_io x w) = (set_io x (fst (cmd_service w)), snd (cmd_service w)) /\
  io (fst (cmd_service w)) = io w.
Proof. exact (Lemmas_C12.C12_no_io_cmd D ioS muS hS io_read io_write mu_lock mu_unlock h_call). Qed.

Theorem C12_no_io_uns : forall (w : world) x,
  u_state (u (st w)) <> US_FLUSH ->
  unsolicited_events_service (set_io x w) =
    (set_io x (fst (unsolicited_events_service w)), snd (unsolicited_events_service w)) /\
  io (fst (unsolicited_events_service w)) = io w.
Proof. exact (Lemmas_C12.C12_no_io_uns D ioS muS hS io_write mu_lock mu_unlock h_call). Qed.

(* 6. a read that delivers a byte: the result depends on the io oracle only through that byte *)
Theorem C12_read_delivered : forall (w1 w2 : world) io1 io2 ch,
  reading_state (k_state (k (st w1))) = true ->
  st w1 = st w2 -> hs w1 = hs w2 -> mu w1 = mu w2 ->
  io_read (io w1) = (io1, Some ch) -> io_read (io w2) = (io2, Some ch) ->
  st (fst (cmd_service w1)) = st (fst (cmd_service w2)) /\
  hs (fst (cmd_service w1)) = hs (fst (cmd_service w2)) /\
  snd (cmd_service w1) = snd (cmd_service w2).
Proof. exact (Lemmas_C12.C12_read_delivered D ioS muS hS io_read io_write mu_lock mu_unlock h_call). Qed.

End C12.

Print Assumptions C12_read_refused.
Print Assumptions C12_write_refused_cmd.
Print Assumptions C12_write_accepted_cmd.
Print Assumptions C12_write_refused_uns.
Print Assumptions C12_write_accepted_uns.
Print Assumptions C12_flush_no_char_cmd.
Print Assumptions C12_flush_no_char_uns.
Print Assumptions C12_no_io_cmd.
Print Assumptions C12_no_io_uns.
Print Assumptions C12_read_delivered.

(* ================================================================== *)
(* Part B : whole runs on the scripted environment (Script.v)          *)
(* ================================================================== *)
(* SchedDefs:  svc D w   = one cat_service call;  nsvc D n = n calls;
               core w    = (object state, handler scripts, unconsumed input, visible events) where
                           `visible` deletes ERd None, refused EWr and the ERet OService records;
               eager w   = w with both readiness schedules replaced by "always ready".
   A run under ANY readiness schedules passes through the same `core` values as the always-ready
   run, only later (m <= n). *)

(* 7. command-only runs: the event machine is idle with an empty queue and no handler triggers *)
Theorem C12_schedule_independent_cmd : forall D (w : sworld) n,
  d_mutex D = false ->
  u_state (u (Fsm.st _ _ _ w)) = US_IDLE -> u_count (u (Fsm.st _ _ _ w)) = 0 ->
  script_ok res_no_trigger (Fsm.hs _ _ _ w) = true ->
  exists m, m <= n /\ core (nsvc D n w) = core (nsvc D m (eager w)).
Proof. exact Lemmas_C12.C12_schedule_independent_cmd. Qed.
Print Assumptions C12_schedule_independent_cmd.

(* 8. event-only runs: the command machine is idle, there is no input, and no event-side handler
   returns HOLD (scope decision D3); the command machine then attempts a read in every call and
   gets nothing, in both worlds *)
Theorem C12_schedule_independent_uns : forall D (w : sworld) n,
  d_mutex D = false -> k_state (k (Fsm.st _ _ _ w)) = CS_IDLE -> inq (Fsm.io _ _ _ w) = [] ->
  script_ok (fun r => negb (r_code r =? RC_HOLD)%Z) (Fsm.hs _ _ _ w) = true ->
  exists m, m <= n /\ core (nsvc D n w) = core (nsvc D m (eager w)).
Proof. exact Lemmas_C12.C12_schedule_independent_uns. Qed.
Print Assumptions C12_schedule_independent_uns.

(* ================================================================== *)
(* non-vacuity: scripted runs                                          *)
(* ================================================================== *)

Definition written (w : sworld) : list N :=
  flat_map (fun e => match e with EWr _ ch true => [ch] | _ => [] end) (rev (Fsm.tr _ _ _ w)).
Definition refusals (w : sworld) : nat :=
  length (filter (fun e => match e with EWr _ _ false => true | _ => false end) (Fsm.tr _ _ _ w)).

(* one command "+X" with an integer variable (value 5), a description "de", read/run/test handlers *)
Definition exD : desc :=
  mkDesc [[mkCmd [43; 88]%N (Some [100; 101]%N) false true true true
                 [mkVar None VInt 1 RW false false 0] false false false]] [] 128 None 0%N 4 false.

Definition rd1 := [false; true; false; false; true; true; false; true; true; false; false; true].
Definition wr1 := [false; true; true; false; false; true; false; true; true; true; false; true;
                   false; true; false; false; true; true; false; true; true; true].

(* ---- command-only: input "AT+X?\n"; the read handler answers DATA_OK ---- *)
Definition exC : sworld :=
  sinit exD [[5%N]] (mkSio [65; 84; 43; 88; 63; 10]%N rd1 wr1) (mkSmu [] [])
        [((1, 0, 0), [mkHres RC_DATA_OK None [] []])].

Example C12_ex_cmd_hyps :
  u_state (u (Fsm.st _ _ _ exC)) = US_IDLE /\ u_count (u (Fsm.st _ _ _ exC)) = 0 /\
  script_ok res_no_trigger (Fsm.hs _ _ _ exC) = true.
Proof. vm_compute. repeat split. Qed.

(* the scheduled run: "\n+X=5\n\nOK\n" is written exactly once, with 8 refused writes (and 6
   reads refused by the schedule while input was waiting) *)
Example C12_ex_cmd_written :
  written (nsvc exD 60 exC) = [10; 43; 88; 61; 53; 10; 10; 79; 75; 10]%N /\
  written (nsvc exD 60 (eager exC)) = [10; 43; 88; 61; 53; 10; 10; 79; 75; 10]%N /\
  refusals (nsvc exD 60 exC) = 8 /\ refusals (nsvc exD 60 (eager exC)) = 0.
Proof. vm_compute. repeat split. Qed.

(* the same cores, the eager run earlier *)
Example C12_ex_cmd_core_60 : core (nsvc exD 60 exC) = core (nsvc exD 46 (eager exC)).
Proof. vm_compute. reflexivity. Qed.
Example C12_ex_cmd_core_20 : core (nsvc exD 20 exC) = core (nsvc exD 13 (eager exC)).
Proof. vm_compute. reflexivity. Qed.

(* ---- event-only: three queued events, handlers that edit the buffer, trigger another event
        from inside, call hold_exit (harmless: not held), and poke a variable ---- *)
Definition exH : shs :=
  [((1, 0, 0), [mkHres RC_DATA_NEXT (Some [65; 66]%N) [] [ITrigger 0 T_TEST];
                mkHres RC_HOLD_EXIT_OK None [] [IHoldExit 0%Z];
                mkHres RC_HOLD_EXIT_ERROR None [(0, [7%N])] []]);
   ((3, 0, 0), [mkHres RC_DATA_OK (Some [67]%N) [] []; mkHres RC_PRINT_CMD_LIST_OK None [] []])].
Definition wr2 := [false; false; true; false; true; false; false; true; false; true; false; true;
                   false; false; true; true].
Definition exU : sworld :=
  srun exD (sinit exD [[5%N]] (mkSio [] rd1 wr2) (mkSmu [] []) exH)
       [SOp (OTrigger 0 T_READ); SOp (OTrigger 0 T_READ); SOp (OTrigger 0 T_TEST)].

Example C12_ex_uns_hyps :
  k_state (k (Fsm.st _ _ _ exU)) = CS_IDLE /\ inq (Fsm.io _ _ _ exU) = [] /\
  script_ok (fun r => negb (r_code r =? RC_HOLD)%Z) (Fsm.hs _ _ _ exU) = true.
Proof. vm_compute. repeat split. Qed.

Example C12_ex_uns_written :
  written (nsvc exD 100 exU) = [10; 65; 66; 10; 10; 67; 10]%N /\
  written (nsvc exD 100 (eager exU)) = [10; 65; 66; 10; 10; 67; 10]%N /\
  refusals (nsvc exD 100 exU) = 9.
Proof. vm_compute. repeat split. Qed.

Example C12_ex_uns_core_100 : core (nsvc exD 100 exU) = core (nsvc exD 91 (eager exU)).
Proof. vm_compute. reflexivity. Qed.
Example C12_ex_uns_core_12 : core (nsvc exD 12 exU) = core (nsvc exD 7 (eager exU)).
Proof. vm_compute. reflexivity. Qed.

(* ---- why the two theorems are separate: with BOTH machines active the relative order of the
        consumed input bytes and the written output bytes does depend on the schedule (the
        command machine keeps reading while the event machine waits for the output), so no
        prefix of the eager run has the same visible history ---- *)
Definition io_code (e : event) : list nat :=
  match e with
  | ERd (Some c) => [N.to_nat c]                 (* consumed byte c *)
  | EWr _ c true => [1000 + N.to_nat c]          (* written byte c *)
  | _ => []
  end.
Definition io_order (w : sworld) : list nat :=
  flat_map io_code (rev (filter visible (Fsm.tr _ _ _ w))).
Fixpoint nat_list_eqb (a b : list nat) : bool :=
  match a, b with
  | [], [] => true
  | x :: a', y :: b' => (x =? y) && nat_list_eqb a' b'
  | _, _ => false
  end.
(* the same command without handlers: both the event and the command print "+X=5" *)
Definition exD2 : desc :=
  mkDesc [[mkCmd [43; 88]%N None false false false false
                 [mkVar None VInt 1 RW false false 0] false false false]] [] 64 None 0%N 2 false.
(* one queued event, input "AT+X?\nAT\n", the first 12 writes refused *)
Definition exM : sworld :=
  srun exD2 (sinit exD2 [[5%N]] (mkSio [65; 84; 43; 88; 63; 10; 65; 84; 10]%N [] (repeat false 12))
                   (mkSmu [] []) [])
       [SOp (OTrigger 0 T_READ)].

(* scheduled: all of "AT+X?\n" is consumed before the first output byte; eager: interleaved *)
Example C12_ex_mixed_orders :
  firstn 8 (io_order (nsvc exD2 40 exM)) = [65; 84; 43; 88; 63; 10; 1010; 1043] /\
  firstn 8 (io_order (nsvc exD2 40 (eager exM))) = [65; 84; 43; 1010; 88; 1043; 1088; 63].
Proof. vm_compute. split; reflexivity. Qed.

Example C12_ex_mixed_depends_on_schedule :
  forallb (fun m => negb (nat_list_eqb (io_order (nsvc exD2 40 exM))
                                       (io_order (nsvc exD2 m (eager exM)))))
          (seq 0 41) = true.
Proof. vm_compute. reflexivity. Qed.
