(* Lemmas_C20c.v -- property C20, completion (statements: Properties_C20c.v).
   Parts:
   (Walk)  one walk through every function of Fsm.v, arbitrary oracles, no hypothesis: the invariant
           invb (CS_IDLE -> k_cmd = None; in a flush the continuation is not CS_IDLE and a pending
           newline agrees with k_cr) is preserved by every public operation; the disable flags are
           written by the two setters only.
   (Cr)    whole READ line terminated by CR LF (output side of Lemmas_E2E generalised to any k_cr);
           a CR consumed in CS_IDLE.
   (J0)    the control invariant J of SkelInv.v without its ghost-counter part, on the skeleton;
           transferred to oracle-state invariants through Lemmas_Inv.run_sanH.
   (CrSk)  k_cr on the skeleton: constant outside the non-IDLE reading states and CS_AFTER_RESET.
   (Re)    the whole-line lemmas of Lemmas_E2E.v with the size of the working buffer in the frame.
   (Chain) ready / same_ctx / the covered kinds of lines; line_re (re-entrant whole-line theorem, all
           kinds): the extra facts about the final state come from general theorems applied to the run
           under empty handler scripts (osteps determines the final object state): disable flags from
           (Walk), k_implicit from (J0); chain.
   (P12)   C20_idle_cmd_none, the hypotheses of C20_fresh_vs_used in reachable idle states, scripted
           scenarios.
   (Final) world-level forms, the concatenation statement with the fresh parser (reinit_state), the
           explicit re-entrant E2E theorems, the counter-example to the requested newline invariant.
   (Examples) the instance of Lemmas_E2E.E2E_examples. *)
From Coq Require Import List NArith ZArith Bool Arith Lia.
From CatV Require Import Bytes Defs Codec Spec Fsm Script ResolveDefs SchedDefs GlueDefs TextDefs CollectDefs.
From CatV Require Import Skel SkelInv SkelSim Lemmas_Ctl Lemmas_C03 Lemmas_Inv.
From CatV Require Lemmas_C02 Lemmas_C02e Lemmas_C06 Lemmas_C07 Lemmas_C07e Lemmas_C11 Lemmas_C19 Lemmas_E2E Lemmas_C20.
Import ListNotations.
Local Open Scope nat_scope.

(* ===================================================================== *)
(* (Walk)                                                                *)
(* ===================================================================== *)
(* Walk.v -- whole-machine facts about Fsm.v for arbitrary oracles:
   an inductive invariant (invb) and the disable bitmaps frame (dz). *)

Module Walk.
Import Lemmas_C20.

Definition in_flush := Lemmas_C20.in_flush.

Definition invb (s : state) : bool :=
  (if cstate_beq (k_state (k s)) CS_IDLE
   then match k_cmd (k s) with None => true | Some _ => false end else true) &&
  (if in_flush (k_state (k s))
   then negb (cstate_beq (k_wafter (k s)) CS_IDLE) &&
        match k_wbuf (k s) with WB_NL cr => Bool.eqb cr (k_cr (k s)) | WB_MAIN => true end
   else true).

Definition dz (s : state) : list bool * list bool := (dis_cmd s, dis_grp s).

(* ---------- readable corollaries ---------- *)
Lemma invb_idle s : invb s = true -> k_state (k s) = CS_IDLE -> k_cmd (k s) = None.
Proof.
  unfold invb. intros H HX. rewrite HX in H. cbn [cstate_beq in_flush Lemmas_C20.in_flush andb] in H.
  destruct (k_cmd (k s)); [discriminate H | reflexivity].
Qed.

Lemma invb_flush_parts s : invb s = true ->
  (k_state (k s) = CS_FLUSH_WAIT \/ k_state (k s) = CS_FLUSH) ->
  negb (cstate_beq (k_wafter (k s)) CS_IDLE) = true /\
  match k_wbuf (k s) with WB_NL cr => Bool.eqb cr (k_cr (k s)) | WB_MAIN => true end = true.
Proof.
  unfold invb. intros H HX.
  destruct HX as [HX | HX]; rewrite HX in H;
    cbn [cstate_beq in_flush Lemmas_C20.in_flush andb] in H;
    apply andb_true_iff in H; exact H.
Qed.

Lemma invb_wafter s : invb s = true ->
  (k_state (k s) = CS_FLUSH_WAIT \/ k_state (k s) = CS_FLUSH) -> k_wafter (k s) <> CS_IDLE.
Proof.
  intros H HX. destruct (invb_flush_parts s H HX) as [H1 _].
  intros E. rewrite E in H1. discriminate H1.
Qed.

Lemma invb_newline s : invb s = true ->
  (k_state (k s) = CS_FLUSH_WAIT \/ k_state (k s) = CS_FLUSH) ->
  forall cr, k_wbuf (k s) = WB_NL cr -> cr = k_cr (k s).
Proof.
  intros H HX cr E. destruct (invb_flush_parts s H HX) as [_ H2].
  rewrite E in H2. apply Bool.eqb_prop in H2. exact H2.
Qed.

(* ---------- the leaf predicate: invariant preserved and bitmaps untouched ---------- *)
Definition gr (s s' : state) : Prop := (invb s = true -> invb s' = true) /\ dz s' = dz s.
Definition gp (g : state -> state) : Prop := forall s, gr s (g s).
Definition gp_at (X : cstate) (g : state -> state) : Prop :=
  forall s, k_state (k s) = X -> gr s (g s).

Lemma gr_refl s : gr s s.
Proof. split; [intros H; exact H | reflexivity]. Qed.
Lemma gr_trans a b c : gr a b -> gr b c -> gr a c.
Proof.
  intros [A1 B1] [A2 B2]. split; [intros H; apply A2, A1, H | rewrite B2; exact B1].
Qed.

(* the part of the state the two facts depend on *)
Definition pk (s : state) :=
  (k_state (k s), k_cmd (k s), k_wafter (k s), k_wbuf (k s), k_cr (k s), dis_cmd s, dis_grp s).

Lemma invb_pk s s' : pk s' = pk s -> invb s' = invb s.
Proof.
  unfold pk. intros H.
  assert (E1 : k_state (k s') = k_state (k s)) by congruence.
  assert (E2 : k_cmd (k s') = k_cmd (k s)) by congruence.
  assert (E3 : k_wafter (k s') = k_wafter (k s)) by congruence.
  assert (E4 : k_wbuf (k s') = k_wbuf (k s)) by congruence.
  assert (E5 : k_cr (k s') = k_cr (k s)) by congruence.
  unfold invb. rewrite E1, E2, E3, E4, E5. reflexivity.
Qed.
Lemma dz_pk s s' : pk s' = pk s -> dz s' = dz s.
Proof. unfold pk, dz. intros H. congruence. Qed.
Lemma gr_of_pk s s' : pk s' = pk s -> gr s s'.
Proof.
  intros H. split; [rewrite (invb_pk s s' H); intros A; exact A | apply dz_pk, H].
Qed.
Lemma pk_kstate s s' : pk s' = pk s -> k_state (k s') = k_state (k s).
Proof. unfold pk. intros H. congruence. Qed.

Lemma gp_at_of_gp X g : gp g -> gp_at X g.
Proof. intros G s _. apply G. Qed.
Lemma gp_comp g1 g2 : gp g1 -> gp g2 -> gp (fun s => g2 (g1 s)).
Proof. intros G1 G2 s. exact (gr_trans _ _ _ (G1 s) (G2 (g1 s))). Qed.
Lemma gp_id : gp (fun s => s).
Proof. intros s. apply gr_refl. Qed.

Ltac zd s := destruct s as [[zi zp zl zpo zws zc zv zt zch zx zcr zh zhe zwb zwst zwa zim] zuu zb zub zm zdc zdg zf zgl zgs zgr].

Ltac wfin_inv H :=
  first [ reflexivity
        | exact H
        | (lazy in H; discriminate H)
        | (lazy;
           repeat match goal with |- context [match ?b with _ => _ end] => is_var b; destruct b end;
           first [ reflexivity | (lazy in H; first [discriminate H | exact H]) ]) ].

Ltac wfin := split; [ let H := fresh "H" in intro H; wfin_inv H | reflexivity ].

Ltac gleaf unf :=
  let s := fresh "s" in intros s; zd s; unf; rs0; repeat (smatch; rs0); wfin.
Ltac gleaf_at unf :=
  let s := fresh "s" in let HX := fresh "HX" in
  intros s HX; zd s; cbn [k k_state] in HX; subst; unf; rs0; repeat (smatch; rs0); wfin.

Section WalkS.
Variable D : desc.
Variables ioS muS hS : Type.
Variable io_read : ioS -> ioS * option N.
Variable io_write : ioS -> N -> ioS * bool.
Variable mu_lock : muS -> muS * bool.
Variable mu_unlock : muS -> muS * bool.
Variable h_call : hS -> hreq -> hS * hres.

Notation world := (world ioS muS hS).
Notation step := (step D ioS muS hS io_read io_write mu_lock mu_unlock h_call).
Notation run := (run D ioS muS hS io_read io_write mu_lock mu_unlock h_call).
Notation do_op := (do_op D ioS muS hS io_read io_write mu_lock mu_unlock h_call).
Notation cmd_service := (cmd_service D ioS muS hS io_read io_write mu_lock mu_unlock h_call).
Notation service_body := (service_body D ioS muS hS io_read io_write mu_lock mu_unlock h_call).
Notation unsolicited_events_service := (unsolicited_events_service D ioS muS hS io_write mu_lock mu_unlock h_call).
Notation bracket := (bracket D ioS muS hS mu_lock mu_unlock).
Notation api_trigger := (api_trigger D ioS muS hS mu_lock mu_unlock).
Notation api_hold_exit := (api_hold_exit D ioS muS hS mu_lock mu_unlock).
Notation apply_icall := (apply_icall D ioS muS hS mu_lock mu_unlock).
Notation call_h := (call_h D ioS muS hS mu_lock mu_unlock h_call).
Notation busy := (busy ioS muS hS).
Notation upd_st := (upd_st ioS muS hS).
Notation logw := (logw ioS muS hS).
Notation set_st := (set_st ioS muS hS).
Notation set_io := (set_io ioS muS hS).
Notation set_mu := (set_mu ioS muS hS).
Notation set_hs := (set_hs ioS muS hS).
Notation reading := (reading ioS muS hS io_read).
Notation st := (Fsm.st ioS muS hS).
Notation io := (Fsm.io ioS muS hS).
Notation mu := (Fsm.mu ioS muS hS).
Notation hs := (Fsm.hs ioS muS hS).
Notation tr := (Fsm.tr ioS muS hS).
Notation mkWorld := (Fsm.mkWorld ioS muS hS).
Notation parse_write_args := (parse_write_args D ioS muS hS mu_lock mu_unlock h_call).
Notation format_read_args := (format_read_args D ioS muS hS mu_lock mu_unlock h_call).
Notation process_write_loop := (process_write_loop D ioS muS hS mu_lock mu_unlock h_call).
Notation process_run_loop := (process_run_loop D ioS muS hS mu_lock mu_unlock h_call).
Notation process_rt_loop := (process_rt_loop D ioS muS hS mu_lock mu_unlock h_call).
Notation process_io_write := (process_io_write ioS muS hS io_write).
Notation unsolicited_process_io_write := (unsolicited_process_io_write ioS muS hS io_write).

(* ----- generic leaves ----- *)
Lemma gp_fault : gp set_fault_flag.
Proof. gleaf ltac:(idtac). Qed.
Lemma gp_ack_error : gp ack_error.
Proof. gleaf ltac:(unfold ack_error, start_flush_c, strncpy_buf). Qed.
Lemma gp_ack_ok : gp ack_ok.
Proof. gleaf ltac:(unfold ack_ok, start_flush_c, strncpy_buf). Qed.
Lemma gp_enable_hold : gp enable_hold_state.
Proof. gleaf ltac:(unfold enable_hold_state). Qed.
Lemma gp_hold_exit st0 : gp (fun s => fst (hold_exit s st0)).
Proof. gleaf ltac:(unfold hold_exit). Qed.
Lemma gp_unsolicited_reset_state : gp unsolicited_reset_state.
Proof. gleaf ltac:(unfold unsolicited_reset_state). Qed.
Lemma gp_end_with_error f : gp (end_with_error f).
Proof. gleaf ltac:(unfold end_with_error, ack_error, start_flush_c, strncpy_buf, unsolicited_reset_state). Qed.
Lemma gp_end_with_ok f : gp (end_with_ok f).
Proof. gleaf ltac:(unfold end_with_ok, ack_ok, start_flush_c, strncpy_buf, unsolicited_reset_state). Qed.
Lemma gp_reset_state : gp reset_state.
Proof. gleaf ltac:(unfold reset_state). Qed.
Lemma gp_process_hold_state : gp process_hold_state.
Proof. gleaf ltac:(unfold process_hold_state, ack_error, ack_ok, start_flush_c, strncpy_buf). Qed.

Ltac unf_ack := unfold ack_error, ack_ok, start_flush_c, strncpy_buf.
Ltac unf_end := unfold end_with_error, end_with_ok, unsolicited_reset_state; unf_ack.
Ltac unf_prt := unfold print_response_test, cmd_of, cmd_at, print_string, print_strings, set_loop_state,
  start_flush_after_ok, start_flush_c, start_flush_u, nl_chars.

Lemma gp_set_loop_state f rd : gp (set_loop_state f rd).
Proof. gleaf ltac:(unfold set_loop_state). Qed.
Lemma gp_start_flush_after_ok f : gp (start_flush_after_ok f).
Proof. gleaf ltac:(unfold start_flush_after_ok, start_flush_c, start_flush_u). Qed.
Lemma gp_start_flush_after f ac au : ac <> CS_IDLE -> gp (start_flush_after f ac au).
Proof.
  intros Hac s. zd s. unfold start_flush_after, start_flush_c, start_flush_u. rs0.
  destruct f; rs0; [| wfin].
  destruct ac; try (exfalso; apply Hac; reflexivity); wfin.
Qed.

Lemma fr_put_cur f c s : pk (put_cur f c s) = pk s.
Proof. unfold put_cur. destruct (cu_fault c); destruct f; reflexivity. Qed.
Lemma fr_print_string f t s : pk (fst (print_string f s t)) = pk s.
Proof.
  unfold print_string. destruct (print_nstring (get_cur f s) t) as [c ok]. cbn [fst]. apply fr_put_cur.
Qed.
Lemma fr_print_strings f ts s : pk (fst (print_strings f s ts)) = pk s.
Proof.
  unfold print_strings. destruct (print_pieces (get_cur f s) ts) as [c ok]. cbn [fst]. apply fr_put_cur.
Qed.
Lemma fr_setg_pos f v s : pk (setg_pos f v s) = pk s. Proof. destruct f; reflexivity. Qed.
Lemma fr_setg_buf f v s : pk (setg_buf f v s) = pk s. Proof. destruct f; reflexivity. Qed.
Lemma fr_setg_index f v s : pk (setg_index f v s) = pk s. Proof. destruct f; reflexivity. Qed.
Lemma fr_setg_var f v s : pk (setg_var f v s) = pk s. Proof. destruct f; reflexivity. Qed.

Lemma gr_print_response_test f s : gr s (fst (print_response_test D f s)).
Proof.
  unfold print_response_test. destruct (cmd_of D f s) as [c|]; [| apply gp_fault].
  destruct (c_descr c) as [d|].
  - pose proof (gr_of_pk _ _ (fr_print_strings f [nl_chars s; d] s)) as H.
    destruct (print_strings f s [nl_chars s; d]) as [s1 ok]. cbn [fst] in H.
    destruct ok; cbn [negb fst]; [| exact H].
    destruct (c_htest c); cbn [fst]; apply (gr_trans _ _ _ H);
      [apply gp_set_loop_state | apply gp_start_flush_after_ok].
  - cbn [negb]. destruct (c_htest c); cbn [fst];
      [apply gp_set_loop_state | apply gp_start_flush_after_ok].
Qed.

Definition fmt_enter (rd : bool) (f : fsm) (s : state) : state :=
  match f with
  | ATCMD => s |> setk_state (if rd then CS_FORMAT_READ_ARGS else CS_FORMAT_TEST_ARGS) |> setk_index 0 |> setk_var 0
  | UNSOL => s |> setu_state (if rd then US_FORMAT_READ_ARGS else US_FORMAT_TEST_ARGS) |> setu_index 0 |> setu_var 0
  end.
Lemma gp_fmt_enter rd f : gp (fmt_enter rd f).
Proof. gleaf ltac:(unfold fmt_enter). Qed.

Lemma gp_spft f : gp (start_processing_format_test_args D f).
Proof.
  intros s. unfold start_processing_format_test_args.
  set (s0 := setg_pos f 0 s). assert (H0 : gr s s0) by (apply gr_of_pk, fr_setg_pos).
  destruct (cmd_of D f s0) as [c|]; [| exact (gr_trans _ _ _ H0 (gp_fault s0))].
  pose proof (gr_of_pk _ _ (fr_print_string f (c_name c) s0)) as H1.
  destruct (print_string f s0 (c_name c)) as [s1 ok1]. cbn [fst] in H1.
  assert (G1 : gr s s1) by (exact (gr_trans _ _ _ H0 H1)).
  destruct ok1; cbn [negb]; [| exact (gr_trans _ _ _ G1 (gp_end_with_error f s1))].
  pose proof (gr_of_pk _ _ (fr_print_string f [ch_EQ] s1)) as H2.
  destruct (print_string f s1 [ch_EQ]) as [s2 ok2]. cbn [fst] in H2.
  assert (G2 : gr s s2) by (exact (gr_trans _ _ _ G1 H2)).
  destruct ok2; cbn [negb]; [| exact (gr_trans _ _ _ G2 (gp_end_with_error f s2))].
  destruct (c_vars c).
  - pose proof (gr_print_response_test f s2) as H3.
    destruct (print_response_test D f s2) as [s3 ok3]. cbn [fst] in H3.
    assert (G3 : gr s s3) by (exact (gr_trans _ _ _ G2 H3)).
    destruct ok3; [exact G3 | exact (gr_trans _ _ _ G3 (gp_end_with_error f s3))].
  - exact (gr_trans _ _ _ G2 (gp_fmt_enter false f s2)).
Qed.

Lemma gp_spfr f : gp (start_processing_format_read_args D f).
Proof.
  intros s. unfold start_processing_format_read_args.
  set (s0 := setg_pos f 0 s). assert (H0 : gr s s0) by (apply gr_of_pk, fr_setg_pos).
  destruct (cmd_of D f s0) as [c|]; [| exact (gr_trans _ _ _ H0 (gp_fault s0))].
  pose proof (gr_of_pk _ _ (fr_print_string f (c_name c) s0)) as H1.
  destruct (print_string f s0 (c_name c)) as [s1 ok1]. cbn [fst] in H1.
  assert (G1 : gr s s1) by (exact (gr_trans _ _ _ H0 H1)).
  destruct ok1; cbn [negb]; [| exact (gr_trans _ _ _ G1 (gp_end_with_error f s1))].
  pose proof (gr_of_pk _ _ (fr_print_string f [ch_EQ] s1)) as H2.
  destruct (print_string f s1 [ch_EQ]) as [s2 ok2]. cbn [fst] in H2.
  assert (G2 : gr s s2) by (exact (gr_trans _ _ _ G1 H2)).
  destruct ok2; cbn [negb]; [| exact (gr_trans _ _ _ G2 (gp_end_with_error f s2))].
  destruct (vars_access_possible c RO).
  - exact (gr_trans _ _ _ G2 (gp_fmt_enter true f s2)).
  - destruct (negb (c_hread c)).
    + exact (gr_trans _ _ _ G2 (gp_end_with_error f s2)).
    + exact (gr_trans _ _ _ G2 (gp_set_loop_state f true s2)).
Qed.

Lemma gr_next_format_var f s : gr s (fst (next_format_var D f s)).
Proof.
  unfold next_format_var. destruct (cmd_of D f s) as [c|]; [| apply gp_fault].
  set (s1 := setg_index f (S (g_index f s)) s).
  assert (H1 : gr s s1) by (apply gr_of_pk, fr_setg_index).
  destruct (S (g_index f s) <? length (c_vars c)); [| exact H1].
  destruct (g_bsz f s1 <=? g_pos f s1); cbn [fst].
  - exact (gr_trans _ _ _ H1 (gp_end_with_error f s1)).
  - apply (gr_trans _ _ _ H1). apply gr_of_pk.
    rewrite fr_setg_var, fr_setg_pos, fr_setg_buf. reflexivity.
Qed.

Lemma gp_format_test_args f : gp (format_test_args D f).
Proof.
  intros s. unfold format_test_args. destruct (cmd_of D f s) as [c|]; [| apply gp_fault].
  destruct (nth_error (c_vars c) (g_var f s)) as [v|]; [| apply gp_fault].
  destruct (fmt_info v (get_cur f s)) as [c1 ok].
  pose proof (gr_of_pk _ _ (fr_put_cur f c1 s)) as H1. set (s1 := put_cur f c1 s) in *.
  destruct ok; cbn [negb]; [| exact (gr_trans _ _ _ H1 (gp_end_with_error f s1))].
  pose proof (gr_next_format_var f s1) as H2.
  destruct (next_format_var D f s1) as [s2 handled]. cbn [fst] in H2.
  assert (G2 : gr s s2) by (exact (gr_trans _ _ _ H1 H2)).
  destruct handled; [exact G2|].
  pose proof (gr_print_response_test f s2) as H3.
  destruct (print_response_test D f s2) as [s3 ok3]. cbn [fst] in H3.
  assert (G3 : gr s s3) by (exact (gr_trans _ _ _ G2 H3)).
  destruct ok3; [exact G3 | exact (gr_trans _ _ _ G3 (gp_end_with_error f s3))].
Qed.

Lemma gp_fra_post f v c : gp (fra_post D f v c).
Proof.
  intros s. unfold fra_post. destruct (nth_error (mem s) (v_slot v)) as [data|]; [| apply gp_fault].
  destruct (fmt_var v data (get_cur f s)) as [c1 ok].
  pose proof (gr_of_pk _ _ (fr_put_cur f c1 s)) as H1. set (s1 := put_cur f c1 s) in *.
  destruct ok; cbn [negb]; [| exact (gr_trans _ _ _ H1 (gp_end_with_error f s1))].
  pose proof (gr_next_format_var f s1) as H2.
  destruct (next_format_var D f s1) as [s2 handled]. cbn [fst] in H2.
  assert (G2 : gr s s2) by (exact (gr_trans _ _ _ H1 H2)).
  destruct handled; [exact G2|].
  destruct (c_hread c).
  - exact (gr_trans _ _ _ G2 (gp_set_loop_state f true s2)).
  - exact (gr_trans _ _ _ G2 (gp_start_flush_after_ok f s2)).
Qed.
Lemma gp_start_print_cmd_list : gp (start_print_cmd_list D).
Proof. gleaf ltac:(unfold start_print_cmd_list; unf_ack). Qed.
Lemma gp_apply_edit f e : gp (apply_edit f e).
Proof. gleaf ltac:(unfold apply_edit). Qed.

Lemma gp_rt_branch rd f code : gp (rt_branch D rd f code).
Proof.
  intros s. unfold rt_branch.
  destruct (code =? RC_OK)%Z; [apply gp_end_with_ok|].
  destruct (code =? RC_DATA_OK)%Z; [apply gp_start_flush_after; discriminate|].
  destruct (code =? RC_DATA_NEXT)%Z; [destruct rd; apply gp_start_flush_after; discriminate|].
  destruct (code =? RC_NEXT)%Z; [destruct rd; [apply gp_spfr | apply gp_spft]|].
  destruct (code =? RC_HOLD)%Z; [apply gp_enable_hold|].
  destruct (code =? RC_HOLD_EXIT_OK)%Z;
    [apply (gp_comp (fun s => fst (hold_exit s ST_OK)) (end_with_ok f) (gp_hold_exit ST_OK) (gp_end_with_ok f))|].
  destruct (code =? RC_HOLD_EXIT_ERROR)%Z;
    [apply (gp_comp (fun s => fst (hold_exit s ST_ERROR)) (end_with_error f) (gp_hold_exit ST_ERROR) (gp_end_with_error f))|].
  destruct ((code =? RC_PRINT_CMD_LIST_OK)%Z && negb rd).
  - destruct f; [apply gp_start_print_cmd_list | apply gp_end_with_ok].
  - apply gp_end_with_error.
Qed.
Lemma gp_rt_post rd f e code : gp (rt_post D rd f e code).
Proof.
  intros s. rewrite rt_post_eq.
  apply (gp_comp (apply_edit f e) (rt_branch D rd f code) (gp_apply_edit f e) (gp_rt_branch rd f code)).
Qed.

Lemma gp_post_write_loop code : gp (post_write_loop code).
Proof. gleaf ltac:(unfold post_write_loop, enable_hold_state; unf_ack). Qed.
Lemma gp_post_run_loop code : gp (post_run_loop D code).
Proof. gleaf ltac:(unfold post_run_loop, start_print_cmd_list, enable_hold_state; unf_ack). Qed.
Lemma gp_pwa_post c comma : gp (pwa_post c comma).
Proof. gleaf ltac:(unfold pwa_post; unf_ack). Qed.

Lemma gp_uc_mark c cs : gp (uc_mark c cs).
Proof. gleaf ltac:(unfold uc_mark, set_cmd_state). Qed.
Lemma gp_uc_tail i : gp (uc_tail D i).
Proof. gleaf ltac:(unfold uc_tail, prepare_search_command). Qed.
Lemma gp_update_command : gp (update_command D).
Proof.
  intros s. rewrite update_command_eq.
  destruct (cmd_by_index (d_groups D) (k_index (k s))) as [c|]; [| apply gp_fault].
  destruct (get_cmd_state D s (k_index (k s))) as [cs|]; [| apply gp_fault].
  apply (gp_comp (uc_mark c cs) (uc_tail D (k_index (k s))) (gp_uc_mark c cs) (gp_uc_tail _)).
Qed.
Lemma gp_search_command : gp_at CS_SEARCH_COMMAND (search_command D).
Proof. gleaf_at ltac:(unfold search_command, get_cmd_state, is_command_disable). Qed.
Lemma gp_command_found : gp (command_found D).
Proof.
  intros s. unfold command_found. destruct (cmd_of D ATCMD s) as [c|]; [| apply gp_fault].
  destruct (k_type (k s)); try apply gp_ack_error.
  - destruct (c_only_test c); [apply gp_ack_error|].
    destruct (negb (c_hrun c)); [apply gp_ack_error|]. revert s. gleaf ltac:(idtac).
  - destruct (c_only_test c); [apply gp_ack_error | apply gp_spfr].
  - revert s. gleaf ltac:(idtac).
Qed.
Lemma gp_process_io_write_wait : gp_at CS_FLUSH_WAIT process_io_write_wait.
Proof. gleaf_at ltac:(unfold process_io_write_wait). Qed.
Lemma gp_iow_done : gp_at CS_FLUSH iow_done.
Proof. gleaf_at ltac:(unfold iow_done). Qed.
Lemma gp_iow_adv : gp iow_adv.
Proof. gleaf ltac:(unfold iow_adv). Qed.

Lemma gp_pcl_next : gp (pcl_next D).
Proof. gleaf ltac:(unfold pcl_next, cmd_list_next_cmd; unf_ack). Qed.
Lemma gp_pcl_none i c : gp (pcl_none D i c).
Proof. gleaf ltac:(unfold pcl_none, is_command_disable, pcl_next, cmd_list_next_cmd; unf_ack). Qed.
Definition pcl_fin (next : ctype) (s : state) : state :=
  s |> start_flush_raw_c CS_PRINT_CMD |> setk_type next.
Lemma gp_pcl_fin next : gp (pcl_fin next).
Proof. gleaf ltac:(unfold pcl_fin, start_flush_raw_c). Qed.
Lemma gp_setk_type t : gp (setk_type t).
Proof. gleaf ltac:(idtac). Qed.
Lemma fr_setk_position v s : pk (setk_position v s) = pk s. Proof. reflexivity. Qed.
Lemma fr_setk_length v s : pk (setk_length v s) = pk s. Proof. reflexivity. Qed.

Lemma gp_pcl_form c avail suffix next : gp (pcl_form c avail suffix next).
Proof.
  intros s. unfold pcl_form, print_cmd_form. destruct avail; [| apply gp_setk_type].
  set (s1 := setk_position 0 s).
  assert (H0 : gr s s1) by (apply gr_of_pk, fr_setk_position).
  unfold print_current_cmd_full_name.
  destruct (k_length (k s1) =? 0).
  - pose proof (gr_of_pk _ _ (fr_print_string ATCMD (nl_chars s1) s1)) as H1.
    destruct (print_string ATCMD s1 (nl_chars s1)) as [s' ok]. cbn [fst] in H1.
    assert (G1 : gr s s') by (exact (gr_trans _ _ _ H0 H1)).
    destruct ok; cbn [negb].
    + set (s2 := setk_length 1 s').
      assert (G2 : gr s s2) by (exact (gr_trans _ _ _ G1 (gr_of_pk _ _ (fr_setk_length 1 s')))).
      pose proof (gr_of_pk _ _ (fr_print_strings ATCMD [txt_AT; c_name c; suffix; nl_chars s2] s2)) as H2.
      destruct (print_strings ATCMD s2 [txt_AT; c_name c; suffix; nl_chars s2]) as [s3 ok3]. cbn [fst] in H2.
      assert (G3 : gr s s3) by (exact (gr_trans _ _ _ G2 H2)).
      destruct ok3; cbn [negb].
      * exact (gr_trans _ _ _ G3 (gp_pcl_fin next s3)).
      * exact (gr_trans _ _ _ G3 (gp_ack_error s3)).
    + exact (gr_trans _ _ _ G1 (gp_ack_error s')).
  - cbn [negb].
    pose proof (gr_of_pk _ _ (fr_print_strings ATCMD [txt_AT; c_name c; suffix; nl_chars s1] s1)) as H2.
    destruct (print_strings ATCMD s1 [txt_AT; c_name c; suffix; nl_chars s1]) as [s3 ok3]. cbn [fst] in H2.
    assert (G3 : gr s s3) by (exact (gr_trans _ _ _ H0 H2)).
    destruct ok3; cbn [negb].
    + exact (gr_trans _ _ _ G3 (gp_pcl_fin next s3)).
    + exact (gr_trans _ _ _ G3 (gp_ack_error s3)).
Qed.
Lemma gp_pcl_body i c : gp (pcl_body D i c).
Proof.
  intros s. unfold pcl_body. destruct (k_type (k s));
    first [apply gp_pcl_none | apply gp_pcl_form | apply gp_pcl_next].
Qed.
Lemma gp_pcl_setcmd j : gp_at CS_PRINT_CMD (setk_cmd (Some j)).
Proof. gleaf_at ltac:(idtac). Qed.
Lemma gp_print_cmd_list : gp_at CS_PRINT_CMD (print_cmd_list D).
Proof.
  intros s HX. rewrite print_cmd_list_eq.
  destruct (cmd_by_index (d_groups D) (k_index (k s))) as [c|]; [| apply gp_fault].
  exact (gr_trans _ _ _ (gp_pcl_setcmd (k_index (k s)) s HX)
           (gp_pcl_body (k_index (k s)) c (setk_cmd (Some (k_index (k s))) s))).
Qed.

(* ----- the reading states ----- *)
Lemma rd_step_gp X body : (forall ch, gp_at X (body ch)) -> forall ch, gp_at X (rd_step body ch).
Proof.
  intros Hb ch s HX. unfold rd_step. cbv zeta.
  set (ch' := if cstate_beq (k_state (k s)) CS_PARSE_COMMAND_ARGS then ch else to_upper ch).
  destruct ((ch' =? ch_LF)%N && negb (cstate_beq (k_state (k s)) CS_IDLE)).
  - apply (gr_trans _ (set_gL (S (gL (setk_char ch' s))) (setk_char ch' s))).
    + apply gr_of_pk. reflexivity.
    + apply Hb. exact HX.
  - apply (gr_trans _ (setk_char ch' s)).
    + apply gr_of_pk. reflexivity.
    + apply Hb. exact HX.
Qed.

Lemma gp_body_error ch : gp_at CS_ERROR (body_error ch).
Proof. gleaf_at ltac:(unfold body_error; unf_ack). Qed.
Lemma gp_body_idle ch : gp_at CS_IDLE (body_idle ch).
Proof. gleaf_at ltac:(unfold body_idle). Qed.
Lemma gp_body_prefix ch : gp_at CS_PARSE_PREFIX (body_prefix ch).
Proof. gleaf_at ltac:(unfold body_prefix, prepare_parse_command; unf_ack). Qed.
Lemma gp_body_parse_command ch : gp_at CS_PARSE_COMMAND_CHAR (body_parse_command ch).
Proof. gleaf_at ltac:(unfold body_parse_command, prepare_search_command; unf_ack). Qed.
Lemma gp_body_wait_read ch : gp_at CS_WAIT_READ_ACK (body_wait_read ch).
Proof. gleaf_at ltac:(unfold body_wait_read, prepare_search_command). Qed.
Lemma gp_body_wait_test ch : gp_at CS_WAIT_TEST_ACK (body_wait_test D ch).
Proof.
  intros s HX. unfold body_wait_test.
  destruct (ch =? ch_LF)%N; [apply gp_spft|].
  revert s HX. gleaf_at ltac:(idtac).
Qed.
Lemma gp_body_parse_args ch : gp_at CS_PARSE_COMMAND_ARGS (body_parse_args D ch).
Proof. gleaf_at ltac:(unfold body_parse_args, cmd_of, cmd_at; unf_ack). Qed.

(* ----- event-side leaves ----- *)
Lemma gp_apply_poke p : gp (fun s => apply_poke s p).
Proof. gleaf ltac:(unfold apply_poke). Qed.
Lemma gp_fold_pokes ps : gp (fun s => fold_left apply_poke ps s).
Proof.
  induction ps as [|p r IH]; [apply gp_id|].
  cbn [fold_left].
  apply (gp_comp (fun s => apply_poke s p) (fun s => fold_left apply_poke r s) (gp_apply_poke p) IH).
Qed.
Lemma gp_push ci t : gp (fun s => fst (push_unsolicited_cmd D s ci t)).
Proof. gleaf ltac:(unfold push_unsolicited_cmd, ring_full). Qed.
Lemma gp_pop_set hd n ci t :
  gp (fun s => setu_type t (setu_cmd (Some ci) (setu_count n (setu_head hd s)))).
Proof. gleaf ltac:(idtac). Qed.
Lemma gp_check_unsolicited_buffers : gp (check_unsolicited_buffers D).
Proof.
  intros s. unfold check_unsolicited_buffers, pop_unsolicited_cmd, ring_empty.
  destruct (u_count (u s) =? 0); [apply gp_id|].
  destruct (nth_error (u_ring (u s)) (u_head (u s))) as [[ci t]|]; [| apply gp_fault].
  set (hd := if cap D <=? S (u_head (u s)) then 0 else S (u_head (u s))).
  set (n := u_count (u s) - 1).
  destruct t; try exact (gp_pop_set hd n ci _ s).
  - exact (gp_comp _ _ (gp_pop_set hd n ci T_READ) (gp_spfr UNSOL) s).
  - exact (gp_comp _ _ (gp_pop_set hd n ci T_TEST) (gp_spft UNSOL) s).
Qed.
Lemma gp_upiww : gp unsolicited_process_io_write_wait.
Proof. gleaf ltac:(unfold unsolicited_process_io_write_wait). Qed.
Lemma gp_uiow_done : gp uiow_done.
Proof. gleaf ltac:(unfold uiow_done). Qed.
Lemma gp_uiow_adv : gp uiow_adv.
Proof. gleaf ltac:(unfold uiow_adv). Qed.

(* ================= world level ================= *)
Notation kst w := (k_state (k (st w))).

Definition wp (w w' : world) : Prop := gr (st w) (st w').

Lemma wp_refl w : wp w w.
Proof. apply gr_refl. Qed.
Lemma wp_trans a b c : wp a b -> wp b c -> wp a c.
Proof. apply gr_trans. Qed.

Lemma bracket_wp body w : (forall a, wp a (fst (body a))) -> wp w (fst (bracket w body)).
Proof.
  intros Hb. unfold Fsm.bracket. destruct (d_mutex D); [| apply Hb].
  destruct (mu_lock (mu w)) as [m1 ok]. destruct ok; cbn [negb]; [| exact (wp_refl w)].
  pose proof (Hb (logw (ELock true) (set_mu m1 w))) as H.
  destruct (body (logw (ELock true) (set_mu m1 w))) as [w' r]. cbn [fst] in H.
  destruct (mu_unlock (mu w')) as [m2 ok2]. destruct ok2; cbn [negb fst]; exact H.
Qed.
Lemma api_trigger_wp ci t w : wp w (fst (api_trigger w ci t)).
Proof.
  unfold Fsm.api_trigger. apply bracket_wp. intros a.
  pose proof (gp_push ci t (st a)) as H. cbv beta in H.
  destruct (push_unsolicited_cmd D (st a) ci t) as [sa ra]. cbn [fst] in H. exact H.
Qed.
Lemma api_hold_exit_wp status w : wp w (fst (api_hold_exit w status)).
Proof.
  unfold Fsm.api_hold_exit. apply bracket_wp. intros a.
  pose proof (gp_hold_exit status (st a)) as H. cbv beta in H.
  destruct (hold_exit (st a) status) as [sa ra]. cbn [fst] in H. exact H.
Qed.
Lemma apply_icall_wp c w : wp w (apply_icall w c).
Proof.
  unfold Fsm.apply_icall. destruct c as [ci t | status].
  - pose proof (api_trigger_wp ci t w) as H. destruct (api_trigger w ci t) as [a ra]. exact H.
  - pose proof (api_hold_exit_wp status w) as H. destruct (api_hold_exit w status) as [a ra]. exact H.
Qed.
Lemma fold_icalls_wp cs : forall w, wp w (fold_left apply_icall cs w).
Proof.
  induction cs as [|c r IH]; intros w; cbn [fold_left]; [apply wp_refl|].
  exact (wp_trans _ _ _ (apply_icall_wp c w) (IH (apply_icall w c))).
Qed.
Lemma call_h_wp q w : wp w (fst (call_h w q)).
Proof.
  unfold Fsm.call_h. destruct (h_call (hs w) q) as [hs' r]. cbn [fst].
  eapply wp_trans; [| apply fold_icalls_wp].
  exact (gp_fold_pokes (r_pokes r) (st w)).
Qed.

Lemma busy_upd_wp g w : gp g -> wp w (fst (busy (upd_st g w))).
Proof. intros C. exact (C (st w)). Qed.
Lemma busy_upd_wp_at X g w : kst w = X -> gp_at X g -> wp w (fst (busy (upd_st g w))).
Proof. intros HX C. exact (C (st w) HX). Qed.

Lemma process_rt_loop_wp rd f w : wp w (fst (process_rt_loop rd f w)).
Proof.
  unfold Fsm.process_rt_loop. cbv zeta.
  destruct (g_cmd f (st w)) as [ci|]; [| apply busy_upd_wp, gp_fault].
  match goal with |- context [call_h w ?q] =>
    pose proof (call_h_wp q w) as H; destruct (call_h w q) as [w1 r] end.
  cbn [fst] in H. apply (wp_trans _ _ _ H).
  apply (busy_upd_wp (rt_post D rd f (r_edit r) (r_code r))), gp_rt_post.
Qed.

Lemma format_read_args_wp f w : wp w (fst (format_read_args f w)).
Proof.
  unfold Fsm.format_read_args. cbv zeta.
  destruct (g_cmd f (st w)) as [ci|]; [| apply busy_upd_wp, gp_fault].
  destruct (cmd_of D f (st w)) as [c|]; [| apply busy_upd_wp, gp_fault].
  destruct (nth_error (c_vars c) (g_var f (st w))) as [v|]; [| apply busy_upd_wp, gp_fault].
  destruct (v_hread v).
  - match goal with |- context [call_h w ?q] =>
      pose proof (call_h_wp q w) as H; destruct (call_h w q) as [w1 r] end.
    cbn [fst] in H. apply (wp_trans _ _ _ H).
    destruct (negb (r_code r =? 0)%Z).
    + apply (busy_upd_wp (end_with_error f)), gp_end_with_error.
    + apply (busy_upd_wp (fra_post D f v c)), gp_fra_post.
  - apply (busy_upd_wp (fra_post D f v c)), gp_fra_post.
Qed.

Lemma unsolicited_process_io_write_wp w : wp w (fst (unsolicited_process_io_write w)).
Proof.
  unfold Fsm.unsolicited_process_io_write. cbv zeta.
  destruct (wbuf_char _ _ _) as [ch|]; [| apply busy_upd_wp, gp_fault].
  destruct (ch =? 0)%N.
  - apply (busy_upd_wp uiow_done), gp_uiow_done.
  - destruct (io_write (io w) ch) as [io' ok]. destruct ok.
    + exact (gp_uiow_adv (st w)).
    + exact (wp_refl w).
Qed.

(* the event machine *)
Lemma ues_wp w : wp w (fst (unsolicited_events_service w)).
Proof.
  unfold Fsm.unsolicited_events_service.
  destruct (u_state (u (st w))).
  - destruct (negb (ring_empty (st w))); [| apply wp_refl].
    destruct (ring_items D (st w)); exact (gp_check_unsolicited_buffers (st w)).
  - apply format_read_args_wp.
  - apply (busy_upd_wp (format_test_args D UNSOL)), gp_format_test_args.
  - apply process_rt_loop_wp.
  - apply process_rt_loop_wp.
  - apply (busy_upd_wp unsolicited_process_io_write_wait), gp_upiww.
  - apply unsolicited_process_io_write_wp.
  - apply (busy_upd_wp unsolicited_reset_state), gp_unsolicited_reset_state.
  - apply (busy_upd_wp (end_with_ok UNSOL)), gp_end_with_ok.
  - apply (busy_upd_wp (start_processing_format_read_args D UNSOL)), gp_spfr.
  - apply (busy_upd_wp (start_processing_format_test_args D UNSOL)), gp_spft.
Qed.

Lemma reading_wp X body w :
  kst w = X -> (forall ch, gp_at X (body ch)) -> wp w (fst (reading w body)).
Proof.
  intros HX Hb. rewrite (reading_eq ioS muS hS io_read).
  destruct (io_read (io w)) as [io' [c|]]; [| exact (wp_refl w)].
  cbn [fst]. exact (rd_step_gp X body Hb c (st w) HX).
Qed.

(* the command machine, all 26 states *)
Lemma cmd_service_wp w : wp w (fst (cmd_service w)).
Proof.
  unfold Fsm.cmd_service.
  destruct (kst w) eqn:HX.
  - apply (reading_wp CS_ERROR body_error w HX), gp_body_error.
  - apply (reading_wp CS_IDLE body_idle w HX), gp_body_idle.
  - apply (reading_wp CS_PARSE_PREFIX body_prefix w HX), gp_body_prefix.
  - apply (reading_wp CS_PARSE_COMMAND_CHAR body_parse_command w HX), gp_body_parse_command.
  - apply (busy_upd_wp (update_command D)), gp_update_command.
  - apply (reading_wp CS_WAIT_READ_ACK body_wait_read w HX), gp_body_wait_read.
  - apply (busy_upd_wp_at CS_SEARCH_COMMAND (search_command D) w HX), gp_search_command.
  - apply (busy_upd_wp (command_found D)), gp_command_found.
  - apply (busy_upd_wp ack_error), gp_ack_error.
  - apply (reading_wp CS_PARSE_COMMAND_ARGS (body_parse_args D) w HX), gp_body_parse_args.
  - unfold Fsm.parse_write_args. cbv zeta.
    destruct (g_cmd ATCMD (st w)) as [ci|]; [| apply busy_upd_wp, gp_fault].
    destruct (cmd_of D ATCMD (st w)) as [c|]; [| apply busy_upd_wp, gp_fault].
    destruct (nth_error (c_vars c) (k_var (k (st w)))) as [v|]; [| apply busy_upd_wp, gp_fault].
    destruct (nth_error (mem (st w)) (v_slot v)) as [data|]; [| apply busy_upd_wp, gp_fault].
    destruct (decode_var v _ data) as [[[pst data'] wsz] n].
    match goal with |- context [set_mem ?m' (setk_position ?p (st w))] =>
      set (s1 := set_mem m' (setk_position p (st w))) end.
    assert (G1 : gr (st w) s1) by (apply gr_of_pk; reflexivity).
    destruct pst as [| | comma].
    + exact (gr_trans _ _ _ G1 (gp_fault s1)).
    + exact (gr_trans _ _ _ G1 (gp_ack_error s1)).
    + assert (G2 : gr (st w) (setk_write_size wsz s1))
        by (apply (gr_trans _ _ _ G1), gr_of_pk; reflexivity).
      destruct (v_hwrite v).
      * match goal with |- context [call_h ?w0 ?q] =>
          pose proof (call_h_wp q w0) as H; destruct (call_h w0 q) as [w1 r] end.
        cbn [fst] in H.
        assert (G3 : gr (st w) (st w1)) by (exact (gr_trans _ _ _ G2 H)).
        destruct (negb (r_code r =? 0)%Z).
        -- exact (gr_trans _ _ _ G3 (gp_ack_error (st w1))).
        -- exact (gr_trans _ _ _ G3 (gp_pwa_post c comma (st w1))).
      * exact (gr_trans _ _ _ G2 (gp_pwa_post c comma (setk_write_size wsz s1))).
  - apply format_read_args_wp.
  - apply (reading_wp CS_WAIT_TEST_ACK (body_wait_test D) w HX), gp_body_wait_test.
  - apply (busy_upd_wp (format_test_args D ATCMD)), gp_format_test_args.
  - unfold Fsm.process_write_loop. cbv zeta.
    destruct (g_cmd ATCMD (st w)) as [ci|]; [| apply busy_upd_wp, gp_fault].
    match goal with |- context [call_h w ?q] =>
      pose proof (call_h_wp q w) as H; destruct (call_h w q) as [w1 r] end.
    cbn [fst] in H. apply (wp_trans _ _ _ H).
    apply (busy_upd_wp (post_write_loop (r_code r))), gp_post_write_loop.
  - apply process_rt_loop_wp.
  - apply process_rt_loop_wp.
  - unfold Fsm.process_run_loop. cbv zeta.
    destruct (g_cmd ATCMD (st w)) as [ci|]; [| apply busy_upd_wp, gp_fault].
    match goal with |- context [call_h w ?q] =>
      pose proof (call_h_wp q w) as H; destruct (call_h w q) as [w1 r] end.
    cbn [fst] in H. apply (wp_trans _ _ _ H).
    apply (busy_upd_wp (post_run_loop D (r_code r))), gp_post_run_loop.
  - apply (busy_upd_wp process_hold_state), gp_process_hold_state.
  - apply (busy_upd_wp_at CS_FLUSH_WAIT process_io_write_wait w HX), gp_process_io_write_wait.
  - unfold Fsm.process_io_write. cbv zeta.
    destruct (wbuf_char _ _ _) as [ch|]; [| apply busy_upd_wp, gp_fault].
    destruct (ch =? 0)%N.
    + apply (busy_upd_wp_at CS_FLUSH iow_done w HX), gp_iow_done.
    + destruct (io_write (io w) ch) as [io' ok]. destruct ok.
      * exact (gp_iow_adv (st w)).
      * exact (wp_refl w).
  - apply (busy_upd_wp reset_state), gp_reset_state.
  - apply (busy_upd_wp ack_ok), gp_ack_ok.
  - apply (busy_upd_wp (start_processing_format_read_args D ATCMD)), gp_spfr.
  - apply (busy_upd_wp (start_processing_format_test_args D ATCMD)), gp_spft.
  - apply (busy_upd_wp_at CS_PRINT_CMD (print_cmd_list D) w HX), gp_print_cmd_list.
Qed.

Lemma service_body_wp w : wp w (fst (service_body w)).
Proof.
  unfold Fsm.service_body.
  pose proof (ues_wp w) as H1. destruct (unsolicited_events_service w) as [w1 us]. cbn [fst] in H1.
  pose proof (cmd_service_wp w1) as H2. destruct (cmd_service w1) as [w2 r]. cbn [fst] in H2.
  destruct (negb (us =? ST_OK)%Z || negb (ustate_beq (u_state (u (st w2))) US_IDLE));
    exact (wp_trans _ _ _ H1 H2).
Qed.

Lemma do_op_wp w o :
  (forall i b, o <> OSetCmdDisable i b) -> (forall g b, o <> OSetGroupDisable g b) ->
  wp w (fst (do_op w o)).
Proof.
  intros H1 H2. destruct o as [| ci t | status | | | | ci t | f | i b | g b]; cbn [Fsm.do_op fst].
  - unfold Fsm.api_service. apply bracket_wp, service_body_wp.
  - apply api_trigger_wp.
  - apply api_hold_exit_wp.
  - unfold Fsm.api_is_busy. apply bracket_wp. intros a. apply wp_refl.
  - unfold Fsm.api_is_hold. apply bracket_wp. intros a. apply wp_refl.
  - unfold Fsm.api_is_full. apply bracket_wp. intros a. apply wp_refl.
  - apply wp_refl.
  - apply wp_refl.
  - exfalso. exact (H1 i b eq_refl).
  - exfalso. exact (H2 g b eq_refl).
Qed.

Lemma st_step w o : st (step w o) = st (fst (do_op w o)).
Proof. unfold Fsm.step. destruct (do_op w o) as [w' r]. reflexivity. Qed.

(* T1 *)
Theorem inv_step : forall (w : world) o, invb (st w) = true -> invb (st (step w o)) = true.
Proof.
  intros w o H. rewrite st_step.
  destruct o as [| ci t | status | | | | ci t | f | i b | g b];
    try (refine (proj1 (do_op_wp w _ _ _) H); intros; discriminate).
  - cbn [Fsm.do_op fst]. cbn. rewrite <- H. reflexivity.
  - cbn [Fsm.do_op fst]. cbn. rewrite <- H. reflexivity.
Qed.

Theorem inv_run : forall ops (w : world), invb (st w) = true -> invb (st (run w ops)) = true.
Proof.
  induction ops as [|o r IH]; intros w H; [exact H|].
  unfold Fsm.run. cbn [fold_left]. apply IH, inv_step, H.
Qed.

(* T2 *)
Theorem inv_reachable : forall m x mx h ops,
  invb (st (run (mkWorld (init_state D m) x mx h []) ops)) = true.
Proof. intros m x mx h ops. apply inv_run. reflexivity. Qed.

(* T3 *)
Theorem dz_step : forall (w : world) o,
  (forall i b, o <> OSetCmdDisable i b) -> (forall g b, o <> OSetGroupDisable g b) ->
  dz (st (step w o)) = dz (st w).
Proof. intros w o H1 H2. rewrite st_step. exact (proj2 (do_op_wp w o H1 H2)). Qed.

Theorem dz_run : forall ops (w : world),
  Forall (fun o => (forall i b, o <> OSetCmdDisable i b) /\ (forall g b, o <> OSetGroupDisable g b)) ops ->
  dz (st (run w ops)) = dz (st w).
Proof.
  induction ops as [|o r IH]; intros w HF; [reflexivity|].
  inversion HF as [| o' r' [H1 H2] HF']; subst.
  unfold Fsm.run. cbn [fold_left].
  change (dz (st (run (step w o) r)) = dz (st w)).
  rewrite (IH (step w o) HF'). apply dz_step; assumption.
Qed.

End WalkS.

Print Assumptions inv_step.
Print Assumptions inv_run.
Print Assumptions inv_reachable.
Print Assumptions dz_step.
Print Assumptions dz_run.
Print Assumptions invb_idle.
Print Assumptions invb_wafter.
Print Assumptions invb_newline.

End Walk.

(* ===================================================================== *)
(* (Cr)                                                                  *)
(* ===================================================================== *)
(* Cr.v — C20 at line level: a READ line terminated by CR LF is answered with CRLF newlines, and the flag
   is cleared afterwards; a CR before the first non-blank character does not select CRLF. *)

Module Cr.

Local Notation wst := (Fsm.st sio smu shs).
Local Notation wio := (Fsm.io sio smu shs).
Local Notation whs := (Fsm.hs sio smu shs).
Local Notation wtr := (Fsm.tr sio smu shs).
Local Notation idle := Lemmas_C02e.idle.
Local Notation run_flush_c := Lemmas_C11.run_flush_c.
Local Notation nl_text := Lemmas_C11.nl_text.
Local Notation keep := Lemmas_E2E.keep.
Local Notation fresh := Lemmas_E2E.fresh.
Local Notation six := Lemmas_E2E.six.

Section CrS.
Variable D : desc.
Hypothesis Hmx : d_mutex D = false.
Local Notation n := (ncmds D).
Local Notation cmdsvc := (cmd_service D sio smu shs s_read s_write s_lock s_unlock s_call).
Local Notation steps := (Lemmas_C02e.steps D).
Local Notation osteps := (Lemmas_E2E.osteps D).
Local Notation osteps_trans := (Lemmas_E2E.osteps_trans D).
Local Notation osteps_of_steps := (Lemmas_E2E.osteps_of_steps D).
Local Notation osteps_cast := (Lemmas_E2E.osteps_cast D).

(* ---------- the output side, for an arbitrary newline flag ---------- *)
Lemma unit_osteps_g : forall s q txt, idle s -> k_state (k s) = CS_FLUSH ->
  k_position (k s) = 0 -> k_wstate (k s) = WS_BEFORE -> k_wbuf (k s) = WB_NL (k_cr (k s)) ->
  In 0%N (cbuf s) -> text_of (cbuf s) = txt ->
  let nl := nl_text (k_cr (k s)) in
  exists s3, osteps (3 + 2 * length nl + length txt) s q s3 q (nl ++ txt ++ nl) /\ keep s s3 /\
    k_state (k s3) = k_wafter (k s) /\
    gR s3 = (if cstate_beq (k_wafter (k s)) CS_AFTER_RESET then S (gR s) else gR s).
Proof.
  intros s q txt Hi Hs Hp Hw Hb H0 HT nl.
  destruct (Lemmas_E2E.unit_run D s txt Hp Hw Hb H0 HT) as (s3 & R & K & A & G & Hall).
  cbv zeta in *. fold nl in R, Hall.
  exists s3. split; [|auto].
  pose proof (Lemmas_E2E.flush_osteps D Hmx (3 + 2 * length nl + length txt) s q Hi) as F.
  rewrite R in F. cbn [fst snd] in F.
  apply F. intros j Hj. rewrite (Hall j Hj). exact Hs.
Qed.

Lemma emit_unit_g : forall s q txt, idle s -> fresh s ->
  In 0%N (cbuf s) -> text_of (cbuf s) = txt ->
  let nl := nl_text (k_cr (k s)) in
  exists s3, osteps (4 + 2 * length nl + length txt) s q s3 q (nl ++ txt ++ nl) /\ keep s s3 /\
    k_state (k s3) = k_wafter (k s) /\
    gR s3 = (if cstate_beq (k_wafter (k s)) CS_AFTER_RESET then S (gR s) else gR s).
Proof.
  intros s q txt Hi (Hs & Hp & Hw & Hb) H0 HT nl.
  assert (H1 : osteps 1 s q (setk_state CS_FLUSH s) q []).
  { apply (Lemmas_E2E.ostep_pure D Hmx s q (setk_state CS_FLUSH) Hi). intros h t. unfold cmd_service.
    cbn [Fsm.st mkw]. rewrite Hs. unfold busy, upd_st, process_io_write_wait. cbn [Fsm.st mkw].
    destruct Hi as [U _]. rewrite U. reflexivity. }
  destruct (unit_osteps_g (setk_state CS_FLUSH s) q txt Hi eq_refl Hp Hw Hb H0 HT) as (s3 & O & K & A & G).
  exists s3. split; [|split; [|split; assumption]].
  - change (4 + 2 * length nl + length txt) with (1 + (3 + 2 * length nl + length txt)).
    exact (osteps_trans _ _ _ _ _ _ _ _ _ _ H1 O).
  - exact K.
Qed.

(* a result code: the unit with the current newline, then back to idle with the flag cleared *)
Lemma result_tail_g : forall s q txt, idle s -> fresh s -> k_wafter (k s) = CS_AFTER_RESET ->
  k_hold (k s) = false -> In 0%N (cbuf s) -> text_of (cbuf s) = txt ->
  let nl := nl_text (k_cr (k s)) in
  exists s4, osteps (5 + 2 * length nl + length txt) s q s4 q (nl ++ txt ++ nl) /\
    k_state (k s4) = CS_IDLE /\ mem s4 = mem s /\ fault s4 = fault s /\ u s4 = u s /\
    gL s4 = gL s /\ gS s4 = gS s /\ gR s4 = S (gR s) /\
    k_cr (k s4) = false /\ k_hold (k s4) = false /\ k_cmd (k s4) = None /\ cbuf s4 = cbuf s.
Proof.
  intros s q txt Hi Hfr Haf Hh H0 HT nl.
  destruct (emit_unit_g s q txt Hi Hfr H0 HT) as (s3 & O & K & A & G). fold nl in O.
  rewrite Haf in A, G. cbn [cstate_beq] in G.
  pose proof K as (K1 & K2 & K3 & K4 & K5 & K6 & K7 & K8).
  assert (H2 : osteps 1 s3 q (reset_state s3) q []).
  { apply (Lemmas_E2E.ostep_pure D Hmx s3 q reset_state (Lemmas_E2E.idle_keep s s3 K Hi)). intros h t.
    unfold cmd_service. cbn [Fsm.st mkw]. rewrite A. reflexivity. }
  exists (reset_state s3). split.
  - replace (5 + 2 * length nl + length txt) with ((4 + 2 * length nl + length txt) + 1) by lia.
    eapply osteps_cast; [exact (osteps_trans _ _ _ _ _ _ _ _ _ _ O H2) | reflexivity | apply app_nil_r].
  - unfold reset_state. rewrite K7, Hh. Lemmas_C11.scbn. repeat split; congruence.
Qed.

Lemma ok_tail_g : forall s q, idle s -> k_state (k s) = CS_AFTER_OK ->
  k_hold (k s) = false -> 6 <= length (cbuf s) ->
  let nl := nl_text (k_cr (k s)) in
  exists s4, osteps (8 + 2 * length nl) s q s4 q (nl ++ txt_OK ++ nl) /\
    k_state (k s4) = CS_IDLE /\ mem s4 = mem s /\ fault s4 = fault s /\ u s4 = u s /\
    gL s4 = gL s /\ gS s4 = S (gS s) /\ gR s4 = S (gR s) /\
    k_cr (k s4) = false /\ k_hold (k s4) = false /\ k_cmd (k s4) = None /\
    length (cbuf s4) = length (cbuf s).
Proof.
  intros s q Hi Hs Hh H6 nl.
  assert (H1 : osteps 1 s q (ack_ok s) q []).
  { apply (Lemmas_E2E.ostep_pure D Hmx s q ack_ok Hi). intros h t. unfold cmd_service. cbn [Fsm.st mkw].
    rewrite Hs. reflexivity. }
  destruct (Lemmas_C19.ack_ok_props s H6) as (_ & _ & _ & HT).
  assert (Hfr : fresh (ack_ok s)) by (repeat split; reflexivity).
  assert (H0 : In 0%N (cbuf (ack_ok s))).
  { change (In 0%N (strncpy_buf (asz s) txt_OK)). apply (Lemmas_E2E.In0_strncpy D). unfold asz.
    cbn [length txt_OK]. lia. }
  destruct (result_tail_g (ack_ok s) q txt_OK Hi Hfr eq_refl Hh H0 HT) as (s4 & O & R).
  change (k_cr (k (ack_ok s))) with (k_cr (k s)) in O. fold nl in O.
  exists s4. split.
  - eapply osteps_cast; [exact (osteps_trans _ _ _ _ _ _ _ _ _ _ H1 O) | cbn [length txt_OK]; lia | reflexivity].
  - destruct R as (R1 & R2 & R3 & R4 & R5 & R6 & R7 & R8 & R9 & R10 & R11).
    repeat (split; [assumption|]). rewrite R11.
    change (cbuf (ack_ok s)) with (strncpy_buf (asz s) txt_OK). apply Lemmas_C19.strncpy_length.
Qed.

(* ---------- the dispatch side: "AT" name "?" CR LF ---------- *)
Section Line.
Variable s : state.
Hypothesis Hn : 0 < n.
Hypothesis HL : n <= 4 * length (cbuf s).
Hypothesis Hf : fault s = false.
Hypothesis Hst : k_state (k s) = CS_IDLE.
Hypothesis Himp : k_implicit (k s) = false.
Hypothesis Hidle : idle s.

Local Notation run := (Lemmas_C02e.run D s).
Local Notation WR := (Lemmas_C02e.WR D s).
Local Notation looked_up := (Lemmas_C02e.looked_up D s).

(* a CR while waiting for the end of a READ line: the flag is set, the state stays *)
Lemma cr_step : forall typed, implicit_hit D s typed = false ->
  forall cr ch q, steps 1 (WR typed cr ch) (ch_CR :: q) (WR typed true ch_CR) q.
Proof.
  intros typed Hh cr ch q.
  destruct (Lemmas_C02e.run_good D s Hn HL Hf Himp Hidle typed Hh) as [_ [_ [_ [_ [Hi _]]]]].
  exact (Lemmas_C02e.step_wra D Hmx (WR typed cr ch) ch_CR q Hi eq_refl).
Qed.

Lemma dispatch_read_cr_ex : forall name rest,
  name_ok name = true -> implicit_hit D s (upper name) = false ->
  exists calls s2, steps calls s ([ch_A; ch_T] ++ name ++ [ch_QM; ch_CR; ch_LF] ++ rest) s2 rest /\
    looked_up (upper name) ch_LF T_READ s2 /\
    six s2 = (S (gL s), gS s, gR s, true, k_hold (k s), length (cbuf s)).
Proof.
  intros name rest Hok Hh.
  destruct (Lemmas_C02e.name_ok_split name Hok) as [Hne Hc].
  pose proof (Lemmas_E2E.upper_ne name Hne) as Hne'.
  destruct (Lemmas_E2E.six_run_parts D s (upper name)) as [G C].
  destruct (Lemmas_E2E.finish_search_ex D Hmx s Hn HL Hf Himp Hidle (upper name) ch_LF T_READ true
              (S (gL (run (upper name)))) rest Hne' Hh) as [j [s2 [Hj [H6 [HR H7]]]]].
  exists (2 + (length name * S n + (1 + (1 + (1 + j))))), s2. split; [|split; [exact HR|]].
  - simpl app.
    eapply Lemmas_C02e.steps_trans; [apply (Lemmas_C02e.at_steps D Hmx s Hst Hidle)|].
    eapply Lemmas_C02e.steps_trans;
      [apply (Lemmas_C02e.name_steps D Hmx s Hn HL Hf Himp Hidle name (ch_QM :: ch_CR :: ch_LF :: rest) Hc Hh)|].
    eapply Lemmas_C02e.steps_trans;
      [apply (Lemmas_C02e.qm_step D Hmx s Hn HL Hf Himp Hidle (upper name) (ch_CR :: ch_LF :: rest) Hne' Hh)|].
    eapply Lemmas_C02e.steps_trans; [apply (cr_step (upper name) Hh)|].
    eapply Lemmas_C02e.steps_trans;
      [apply (Lemmas_C02e.lf_step D Hmx s Hn HL Hf Himp Hidle (upper name) Hh) | exact H6].
  - rewrite H7, G. reflexivity.
Qed.

End Line.

(* ---------- whole lines ---------- *)
Section Lines.
Variable s : state.
Hypothesis Hn : 0 < n.
Hypothesis HL : n <= 4 * length (cbuf s).
Hypothesis H6 : 6 <= length (cbuf s).
Hypothesis Hf : fault s = false.
Hypothesis Hst : k_state (k s) = CS_IDLE.
Hypothesis Hcr : k_cr (k s) = false.
Hypothesis Himp : k_implicit (k s) = false.
Hypothesis Hhold : k_hold (k s) = false.
Hypothesis Hidle : idle s.

Lemma read_line_cr_osteps : forall name rest i c args,
  name_ok name = true -> implicit_hit D s (upper name) = false ->
  resolve (upper name) (enabled D s) (cmds D) = Some i -> nth_error (cmds D) i = Some c ->
  Lemmas_C07e.rt_cmd_ok (mem s) c -> Lemmas_C07e.read_args_text (mem s) c = Some args ->
  length (c_name c ++ [ch_EQ] ++ args) < length (cbuf s) ->
  exists calls s4,
    osteps calls s ([ch_A; ch_T] ++ name ++ [ch_QM; ch_CR; ch_LF] ++ rest) s4 rest
      ([ch_CR; ch_LF] ++ c_name c ++ [ch_EQ] ++ args ++ [ch_CR; ch_LF] ++ [ch_CR; ch_LF] ++ txt_OK ++ [ch_CR; ch_LF]) /\
    Lemmas_E2E.line_done s s4 /\ length (cbuf s4) = length (cbuf s).
Proof.
  intros name rest i c args Hok Hh Hres Hc Hrt Ha Hfit.
  destruct (dispatch_read_cr_ex s Hn HL Hf Hst Himp Hidle name rest Hok Hh)
    as (c1 & s2 & H1 & (M2 & F2 & U2 & R2) & S2).
  rewrite Hres in R2. destruct R2 as (A1 & A2 & A3 & A4).
  unfold Lemmas_E2E.six in S2.
  assert (G2 : gL s2 = S (gL s) /\ gS s2 = gS s /\ gR s2 = gR s /\ k_cr (k s2) = true /\
               k_hold (k s2) = false /\ length (cbuf s2) = length (cbuf s)).
  { repeat split; congruence. }
  destruct G2 as (gl2 & gs2 & gr2 & cr2 & ho2 & len2).
  pose proof (Lemmas_E2E.cmd_at_of_cmds D i c Hc) as Hc'.
  assert (Hi2 : idle s2) by (apply (Lemmas_C02e.idle_of_u s); assumption).
  rewrite <- M2 in Hrt, Ha. rewrite <- len2 in Hfit.
  destruct (Lemmas_E2E.read_steps D Hmx s2 rest i c args Hi2 A1 A2 Hc' A3 Hrt F2 Ha Hfit)
    as (s3 & H2 & (D1 & (r & D2) & D3 & D4 & D5 & D6) & (KF & FL & _)).
  destruct (FL D4) as (P1 & P2 & P3 & P4 & _). specialize (P4 D5).
  destruct KF as (u3 & gl3 & gr3 & cr3 & ho3).
  assert (Hi3 : idle s3) by (apply (Lemmas_C02e.idle_of_u s2); assumption).
  assert (Hcr3 : k_cr (k s3) = true) by congruence.
  set (txt := c_name c ++ [ch_EQ] ++ args) in *.
  assert (HT3 : text_of (cbuf s3) = txt).
  { rewrite D2. apply Lemmas_C19.text_of_app0. exact (Lemmas_E2E.txt_no_nul (mem s2) c args Hrt Ha). }
  assert (H03 : In 0%N (cbuf s3)) by (rewrite D2; apply in_or_app; right; left; reflexivity).
  destruct (emit_unit_g s3 rest txt Hi3 (conj D4 (conj P1 (conj P2 P3))) H03 HT3)
    as (s5 & O3 & K3 & A5 & G5).
  rewrite Hcr3 in O3.
  rewrite D5 in A5, G5. cbn [cstate_beq] in G5.
  destruct K3 as (K1 & K2 & K3 & K4 & K5 & K6 & K7 & K8).
  assert (Hi5 : idle s5) by (apply (Lemmas_C02e.idle_of_u s3); assumption).
  assert (Hcr5 : k_cr (k s5) = true) by congruence.
  destruct (ok_tail_g s5 rest Hi5 A5) as (s6 & O4 & R1 & R2 & R3 & R4 & R5 & R6 & R7 & R8 & R9 & R10 & R11);
    [congruence | rewrite K8; lia |].
  rewrite Hcr5 in O4.
  eexists _, s6. split; [|split].
  - eapply osteps_cast;
      [exact (osteps_trans _ _ _ _ _ _ _ _ _ _ (osteps_of_steps _ _ _ _ _ H1)
               (osteps_trans _ _ _ _ _ _ _ _ _ _ (osteps_of_steps _ _ _ _ _ H2)
                  (osteps_trans _ _ _ _ _ _ _ _ _ _ O3 O4))) | reflexivity |].
    unfold txt, Lemmas_C11.nl_text. cbn [app]. rewrite <- !app_assoc. reflexivity.
  - unfold Lemmas_E2E.line_done. repeat split; congruence.
  - rewrite R11, K8, D3. exact len2.
Qed.

(* a CR in CS_IDLE is skipped: only the character register moves, the flag stays clear *)
Lemma leading_cr_osteps : forall q, osteps 1 s (ch_CR :: q) (setk_char ch_CR s) q [].
Proof.
  intros q. apply osteps_of_steps.
  pose proof (Lemmas_C02e.step_idle D Hmx s ch_CR q Hidle Hst) as H.
  assert (E : Lemmas_C02e.rd_state s ch_CR = setk_char ch_CR s).
  { unfold Lemmas_C02e.rd_state. rewrite Hst. reflexivity. }
  rewrite E in H. exact H.
Qed.

(* CR "AT" name "?" LF is answered with plain LF newlines *)
Lemma cr_read_line_osteps : forall name rest i c args,
  name_ok name = true -> implicit_hit D s (upper name) = false ->
  resolve (upper name) (enabled D s) (cmds D) = Some i -> nth_error (cmds D) i = Some c ->
  Lemmas_C07e.rt_cmd_ok (mem s) c -> Lemmas_C07e.read_args_text (mem s) c = Some args ->
  length (c_name c ++ [ch_EQ] ++ args) < length (cbuf s) ->
  exists calls s4,
    osteps calls s (ch_CR :: [ch_A; ch_T] ++ name ++ [ch_QM; ch_LF] ++ rest) s4 rest
      ([ch_LF] ++ c_name c ++ [ch_EQ] ++ args ++ [ch_LF] ++ [ch_LF] ++ txt_OK ++ [ch_LF]) /\
    Lemmas_E2E.line_done s s4.
Proof.
  intros name rest i c args Hok Hh Hres Hc Hrt Ha Hfit.
  destruct (Lemmas_E2E.read_line_osteps D Hmx (setk_char ch_CR s) Hn HL H6 Hf Hst Hcr Himp Hhold Hidle
              name rest i c args Hok Hh Hres Hc Hrt Ha Hfit) as (calls & s4 & O & L).
  exists (1 + calls), s4. split; [|exact L].
  exact (osteps_trans _ _ _ _ _ _ _ _ _ _ (leading_cr_osteps _) O).
Qed.

End Lines.
End CrS.

(* ================= the final statements ================= *)
Theorem E2E_read_line_cr_proof : forall D s name rest h i c args,
  d_mutex D = false -> 0 < ncmds D -> ncmds D <= 4 * length (cbuf s) -> 6 <= length (cbuf s) ->
  fault s = false ->
  k_state (k s) = CS_IDLE -> k_cr (k s) = false -> k_implicit (k s) = false -> k_hold (k s) = false ->
  u_state (u s) = US_IDLE -> u_count (u s) = 0 ->
  name_ok name = true -> implicit_hit D s (upper name) = false ->
  resolve (upper name) (enabled D s) (cmds D) = Some i -> nth_error (cmds D) i = Some c ->
  Lemmas_C07e.rt_cmd_ok (mem s) c -> Lemmas_C07e.read_args_text (mem s) c = Some args ->
  length (c_name c ++ [ch_EQ] ++ args) < length (cbuf s) ->
  let w0 := mkw s ([ch_A; ch_T] ++ name ++ [ch_QM; ch_CR; ch_LF] ++ rest) h [] in
  exists calls, let w := nsvc D calls w0 in
    k_state (k (wst w)) = CS_IDLE /\ k_cr (k (wst w)) = false /\ inq (wio w) = rest /\ whs w = h /\
    calls_of (wtr w) = [] /\
    mem (wst w) = mem s /\ fault (wst w) = false /\
    output_of (wtr w) = [ch_CR; ch_LF] ++ c_name c ++ [ch_EQ] ++ args ++ [ch_CR; ch_LF] ++ [ch_CR; ch_LF] ++
                        txt_OK ++ [ch_CR; ch_LF] /\
    gL (wst w) = S (gL s) /\ gS (wst w) = S (gS s) /\ gR (wst w) = S (gR s).
Proof.
  intros D s name rest h i c args Hmx Hn HL H6 Hf Hst Hcr Himp Hhold Hu1 Hu2 Hok Hh Hres Hc Hrt Ha Hfit w0.
  destruct (read_line_cr_osteps D Hmx s Hn HL H6 Hf Hst Himp Hhold (conj Hu1 Hu2)
              name rest i c args Hok Hh Hres Hc Hrt Ha Hfit)
    as (calls & s4 & O & (L1 & L2 & L3 & L4 & L5 & L6 & L7 & L8 & _) & _).
  exists calls. intros w.
  destruct (Lemmas_E2E.osteps_world D calls s _ s4 rest _ h O) as (E1 & E2 & E3 & E4 & E5).
  fold w0 in E1, E2, E3, E4, E5. fold w in E1, E2, E3, E4, E5. rewrite E1.
  repeat (split; [assumption|]). assumption.
Qed.

(* a CR before the line does not select CRLF *)
Theorem E2E_cr_read_line_proof : forall D s name rest h i c args,
  d_mutex D = false -> 0 < ncmds D -> ncmds D <= 4 * length (cbuf s) -> 6 <= length (cbuf s) ->
  fault s = false ->
  k_state (k s) = CS_IDLE -> k_cr (k s) = false -> k_implicit (k s) = false -> k_hold (k s) = false ->
  u_state (u s) = US_IDLE -> u_count (u s) = 0 ->
  name_ok name = true -> implicit_hit D s (upper name) = false ->
  resolve (upper name) (enabled D s) (cmds D) = Some i -> nth_error (cmds D) i = Some c ->
  Lemmas_C07e.rt_cmd_ok (mem s) c -> Lemmas_C07e.read_args_text (mem s) c = Some args ->
  length (c_name c ++ [ch_EQ] ++ args) < length (cbuf s) ->
  let w0 := mkw s (ch_CR :: [ch_A; ch_T] ++ name ++ [ch_QM; ch_LF] ++ rest) h [] in
  exists calls, let w := nsvc D calls w0 in
    k_state (k (wst w)) = CS_IDLE /\ k_cr (k (wst w)) = false /\ inq (wio w) = rest /\ whs w = h /\
    calls_of (wtr w) = [] /\
    mem (wst w) = mem s /\ fault (wst w) = false /\
    output_of (wtr w) = [ch_LF] ++ c_name c ++ [ch_EQ] ++ args ++ [ch_LF] ++ [ch_LF] ++ txt_OK ++ [ch_LF] /\
    gL (wst w) = S (gL s) /\ gS (wst w) = S (gS s) /\ gR (wst w) = S (gR s).
Proof.
  intros D s name rest h i c args Hmx Hn HL H6 Hf Hst Hcr Himp Hhold Hu1 Hu2 Hok Hh Hres Hc Hrt Ha Hfit w0.
  destruct (cr_read_line_osteps D Hmx s Hn HL H6 Hf Hst Hcr Himp Hhold (conj Hu1 Hu2)
              name rest i c args Hok Hh Hres Hc Hrt Ha Hfit)
    as (calls & s4 & O & (L1 & L2 & L3 & L4 & L5 & L6 & L7 & L8 & _)).
  exists calls. intros w.
  destruct (Lemmas_E2E.osteps_world D calls s _ s4 rest _ h O) as (E1 & E2 & E3 & E4 & E5).
  fold w0 in E1, E2, E3, E4, E5. fold w in E1, E2, E3, E4, E5. rewrite E1.
  repeat (split; [assumption|]). assumption.
Qed.

Print Assumptions E2E_read_line_cr_proof.
Print Assumptions E2E_cr_read_line_proof.

(* ================= a concrete instance (D0, s0 of Lemmas_E2E.E2E_examples) ================= *)
Module Examples.
Import Lemmas_E2E.E2E_examples.

Example ex_hyps : hyps_ok D0 s0 = true.
Proof. vm_compute. reflexivity. Qed.

(* AT+x? CR LF 1 2 3 : answered with CR LF newlines, the rest of the input is untouched *)
Example ex_read_crlf :
  go s0 ([65;84;43;120;63;13;10;1;2;3]%N) 58 =
  (CS_IDLE, [1;2;3]%N, [], [], ([13;10;43;88;61] ++ args0 ++ [13;10;13;10;79;75;13;10])%N, m0, false, (1,1,1)).
Proof. vm_compute. reflexivity. Qed.

(* the flag is set while the answer is written and cleared by the reset *)
Example ex_read_crlf_flag :
  k_cr (k (wst (nsvc D0 57 (mkw s0 ([65;84;43;120;63;13;10;1;2;3]%N) [] [])))) = true /\
  k_cr (k (wst (nsvc D0 58 (mkw s0 ([65;84;43;120;63;13;10;1;2;3]%N) [] [])))) = false.
Proof. vm_compute. split; reflexivity. Qed.

(* CR AT+x? LF 1 2 3 : a CR before the line does not select CRLF *)
Example ex_cr_read_lf :
  go s0 ([13;65;84;43;120;63;10;1;2;3]%N) 54 =
  (CS_IDLE, [1;2;3]%N, [], [], ([10;43;88;61] ++ args0 ++ [10;10;79;75;10])%N, m0, false, (1,1,1)).
Proof. vm_compute. reflexivity. Qed.

(* the next line after a CR LF line is answered with LF again *)
Example ex_two_lines :
  exists m, go s0 ([65;84;43;120;63;13;10;65;84;43;120;63;10]%N) m =
  (CS_IDLE, [], [], [], ([13;10;43;88;61] ++ args0 ++ [13;10;13;10;79;75;13;10] ++
                         [10;43;88;61] ++ args0 ++ [10;10;79;75;10])%N, m0, false, (2,2,2)).
Proof. exists (58 + 53). vm_compute. reflexivity. Qed.
End Examples.

End Cr.

Local Notation wst := (Fsm.st sio smu shs).
Local Notation wio := (Fsm.io sio smu shs).
Local Notation whs := (Fsm.hs sio smu shs).
Local Notation wtr := (Fsm.tr sio smu shs).
Local Notation idle := Lemmas_C02e.idle.

(* ===================================================================== *)
(* (J0)                                                                  *)
(* ===================================================================== *)
(* ---------- J0: the control invariant J without the ghost counters ---------- *)
Definition cont_ok (a : cstate) : bool :=
  match a with
  | CS_AFTER_RESET | CS_AFTER_OK | CS_AFTER_FMT_READ | CS_AFTER_FMT_TEST | CS_PRINT_CMD => true
  | _ => false
  end.

Definition J0 (c : ctl) : Prop :=
  (chold c = true <-> ck c = CS_HOLD) /\
  (cimp c = true -> ck c = CS_UPDATE_COMMAND_STATE) /\
  (ck c = CS_IDLE -> ccr c = false) /\
  ~ (ck c = CS_FLUSH /\ uk c = US_FLUSH) /\
  ((ck c = CS_FLUSH_WAIT \/ ck c = CS_FLUSH) -> cont_ok (cwa c) = true).

Ltac solveJ0 :=
  unfold J0, cont_ok in *; unfa; cbn in *;
  repeat match goal with
         | H : _ /\ _ |- _ => destruct H
         | H : _ <-> _ |- _ => destruct H
         end;
  repeat match goal with
         | |- _ /\ _ => split
         | |- _ <-> _ => split
         end;
  try solve [ intros; try discriminate; try congruence;
              intuition (try discriminate; try congruence) ].

Lemma J0_heff : forall c c1, J0 c -> heff c c1 -> J0 c1.
Proof.
  intros c c1 HJ [-> | [_ [z ->]]]; [assumption|].
  dctl c. unfold J0 in *. cbn in *. exact HJ.
Qed.

Lemma J0_cmd_next : forall c c' r, J0 c -> cmd_next False c c' r -> J0 c'.
Proof.
  intros c c' r HJ H. dctl c. destruct k0; cbn in H; unfrel.
  8: destruct ty; cbn in H.
  all: repeat (progress (unfrel; decomp; cbn in * )).
  all: try solve [solveJ0].
  all: try solve [destruct lf; solveJ0].
  all: try solve [destruct wa; solveJ0].
  all: try solve [destruct hold; solveJ0].
Qed.

Lemma J0_uns_next : forall c c' r, J0 c -> uns_next c c' r -> J0 c'.
Proof.
  intros c c' r HJ H. dctl c. destruct u0; cbn in H; unfrel.
  all: repeat (progress (unfrel; decomp; cbn in * )).
  all: try solve [solveJ0].
  all: try solve [destruct k0; solveJ0].
Qed.

Lemma J0_op_next : forall o c c' r, J0 c -> op_next False o c c' r -> J0 c'.
Proof.
  intros o c c' r HJ H. destruct o; cbn in H; try (subst; assumption).
  - destruct H as [[-> _] | (r0 & (c1 & us & rc & Hu & Hc & _) & _)]; [assumption|].
    eapply J0_cmd_next; [|eassumption]. eapply J0_uns_next; eassumption.
  - eapply J0_heff; eassumption.
Qed.

Section J0run.
Variable D : desc.
Variables ioS muS hS : Type.
Variable io_read : ioS -> ioS * option N.
Variable io_write : ioS -> N -> ioS * bool.
Variable mu_lock : muS -> muS * bool.
Variable mu_unlock : muS -> muS * bool.
Variable h_call : hS -> hreq -> hS * hres.

Notation world := (Fsm.world ioS muS hS).
Notation st := (Fsm.st ioS muS hS).
Notation hs := (Fsm.hs ioS muS hS).

Section NoUhold.
Hypothesis no_uhold : forall hs q, unsol_req q = true -> r_code (snd (h_call hs q)) <> RC_HOLD.
Notation step := (Fsm.step D ioS muS hS io_read io_write mu_lock mu_unlock h_call).
Notation run := (Fsm.run D ioS muS hS io_read io_write mu_lock mu_unlock h_call).

Lemma J0_step : forall (w : world) o,
  J0 (ctl_of (st w)) -> fault (st (step w o)) = false -> J0 (ctl_of (st (step w o))).
Proof.
  intros w o HJ Hf. rewrite (st_step D ioS muS hS io_read io_write mu_lock mu_unlock h_call) in *.
  pose proof (do_op_sim D ioS muS hS io_read io_write mu_lock mu_unlock h_call no_uhold w o) as H.
  eapply J0_op_next; [exact HJ|].
  eapply op_next_weaken; [|exact H]. intro Hb. rewrite Hb in Hf. discriminate.
Qed.

Lemma J0_run : forall (w0 : world) ops,
  J0 (ctl_of (st w0)) -> fault (st (run w0 ops)) = false -> J0 (ctl_of (st (run w0 ops))).
Proof.
  intros w0 ops H0. induction ops as [|o ops IH] using rev_ind; intro Hf.
  - exact H0.
  - rewrite (run_snoc D ioS muS hS io_read io_write mu_lock mu_unlock h_call) in *.
    apply J0_step; [|exact Hf]. apply IH.
    eapply (fault_step_back D ioS muS hS io_read io_write mu_lock mu_unlock h_call); exact Hf.
Qed.
End NoUhold.
End J0run.

(* on an invariant of the handler states *)
Section J0inv.
Variable D : desc.
Variables ioS muS hS : Type.
Variable io_read : ioS -> ioS * option N.
Variable io_write : ioS -> N -> ioS * bool.
Variable mu_lock : muS -> muS * bool.
Variable mu_unlock : muS -> muS * bool.
Variable h_call : hS -> hreq -> hS * hres.
Variable HI : hS -> Prop.
Hypothesis HI_stepH : forall h q, HI h ->
  HI (fst (h_call h q)) /\ (unsol_req q = true -> r_code (snd (h_call h q)) <> RC_HOLD).
Notation world := (Fsm.world ioS muS hS).
Notation st := (Fsm.st ioS muS hS).
Notation hs := (Fsm.hs ioS muS hS).
Notation run := (Fsm.run D ioS muS hS io_read io_write mu_lock mu_unlock h_call).

Lemma J0_run_inv : forall (w0 : world) ops, HI (hs w0) ->
  J0 (ctl_of (st w0)) -> fault (st (run w0 ops)) = false -> J0 (ctl_of (st (run w0 ops))).
Proof.
  intros w0 ops Hh.
  rewrite <- (proj1 (run_sanH D ioS muS hS io_read io_write mu_lock mu_unlock h_call HI HI_stepH w0 ops Hh)).
  exact (J0_run D ioS muS hS io_read io_write mu_lock mu_unlock (h_sanH hS h_call)
           (h_sanH_no_uhold hS h_call) w0 ops).
Qed.
End J0inv.

(* ===================================================================== *)
(* (CrSk)                                                                *)
(* ===================================================================== *)
(* ---------- k_cr on the skeleton: it moves only in the non-IDLE reading states and in the reset ---------- *)
Lemma uns_next_cr : forall c c' r, uns_next c c' r -> ck c' = ck c /\ ccr c' = ccr c.
Proof.
  intros c c' r H. dctl c. destruct u0; cbn in H; unfrel.
  all: repeat (progress (unfrel; decomp; cbn in * )).
  all: try solve [split; reflexivity].
  all: try solve [unfa; cbn; split; reflexivity].
  all: try discriminate.
  all: try match goal with H : UNSOL = ATCMD |- _ => discriminate H end.
Qed.

Definition cr_quiet (x : cstate) : bool :=
  match x with
  | CS_IDLE => true
  | CS_AFTER_RESET => false
  | _ => negb (reading_state x)
  end.

Lemma cmd_next_cr : forall bad c c' r, cr_quiet (ck c) = true -> cmd_next bad c c' r -> ccr c' = ccr c.
Proof.
  intros bad c c' r Q H. dctl c. destruct k0; cbn in Q; try discriminate Q; cbn in H; unfrel;
    try (match type of H with context [match ty with _ => _ end] => destruct ty; cbn in H end).
  all: repeat (progress (unfrel; decomp; cbn in * )).
  all: try reflexivity.
  all: try solve [unfa; cbn; reflexivity].
  all: try solve [destruct hold; unfa; cbn; reflexivity].
Qed.

Lemma op_next_cr : forall bad o c c' r, cr_quiet (ck c) = true -> op_next bad o c c' r -> ccr c' = ccr c.
Proof.
  intros bad o c c' r Q H. destruct o; cbn in H; try (subst; reflexivity).
  - destruct H as [[-> _] | (r0 & (c1 & us & rc & Hu & Hc & _) & _)]; [reflexivity|].
    destruct (uns_next_cr _ _ _ Hu) as [A B]. rewrite <- B.
    eapply cmd_next_cr; [|exact Hc]. rewrite A. exact Q.
  - destruct H as [-> | [_ [z ->]]]; reflexivity.
Qed.

Section CrStep.
Variable D : desc.
Variables ioS muS hS : Type.
Variable io_read : ioS -> ioS * option N.
Variable io_write : ioS -> N -> ioS * bool.
Variable mu_lock : muS -> muS * bool.
Variable mu_unlock : muS -> muS * bool.
Variable h_call : hS -> hreq -> hS * hres.
Hypothesis no_uhold : forall hs q, unsol_req q = true -> r_code (snd (h_call hs q)) <> RC_HOLD.
Notation world := (Fsm.world ioS muS hS).
Notation st := (Fsm.st ioS muS hS).
Notation step := (Fsm.step D ioS muS hS io_read io_write mu_lock mu_unlock h_call).

(* one public operation leaves k_cr alone unless the command machine is in a non-IDLE reading state
   (where a CR sets it) or in CS_AFTER_RESET (where reset_state clears it) *)
Theorem cr_step_frame : forall (w : world) o,
  cr_quiet (k_state (k (st w))) = true -> k_cr (k (st (step w o))) = k_cr (k (st w)).
Proof.
  intros w o Q. rewrite (st_step D ioS muS hS io_read io_write mu_lock mu_unlock h_call).
  pose proof (do_op_sim D ioS muS hS io_read io_write mu_lock mu_unlock h_call no_uhold w o) as H.
  exact (op_next_cr _ o (ctl_of (st w)) _ _ Q H).
Qed.
End CrStep.

(* ===================================================================== *)
(* (Re)                                                                  *)
(* ===================================================================== *)
(* ================= whole lines, with the size of the working buffer in the frame ================= *)
Section ReLines.
Variable D : desc.
Hypothesis Hmx : d_mutex D = false.
Local Notation n := (ncmds D).
Local Notation steps := (Lemmas_C02e.steps D).
Local Notation osteps := (Lemmas_E2E.osteps D).
Local Notation osteps_trans := (Lemmas_E2E.osteps_trans D).
Local Notation osteps_of_steps := (Lemmas_E2E.osteps_of_steps D).
Local Notation osteps_cast := (Lemmas_E2E.osteps_cast D).
Local Notation post := Lemmas_E2E.post.

Lemma ok_tail_len : forall s q, idle s -> k_state (k s) = CS_AFTER_OK ->
  k_cr (k s) = false -> k_hold (k s) = false -> 6 <= length (cbuf s) ->
  exists s4, osteps 10 s q s4 q ([ch_LF] ++ txt_OK ++ [ch_LF]) /\
    k_state (k s4) = CS_IDLE /\ mem s4 = mem s /\ fault s4 = fault s /\ u s4 = u s /\
    gL s4 = gL s /\ gS s4 = S (gS s) /\ gR s4 = S (gR s) /\
    k_cr (k s4) = false /\ k_hold (k s4) = false /\ k_cmd (k s4) = None /\
    length (cbuf s4) = length (cbuf s).
Proof.
  intros s q Hi Hs Hcr Hh H6.
  pose proof (Cr.ok_tail_g D Hmx s q Hi Hs Hh H6) as H. cbv zeta in H. rewrite Hcr in H. exact H.
Qed.

Lemma err_tail_len : forall s q, idle s -> k_state (k s) = CS_COMMAND_NOT_FOUND ->
  k_cr (k s) = false -> k_hold (k s) = false -> 6 <= length (cbuf s) ->
  exists s4, osteps 13 s q s4 q ([ch_LF] ++ txt_ERROR ++ [ch_LF]) /\
    k_state (k s4) = CS_IDLE /\ mem s4 = mem s /\ fault s4 = fault s /\ u s4 = u s /\
    gL s4 = gL s /\ gS s4 = S (gS s) /\ gR s4 = S (gR s) /\
    k_cr (k s4) = false /\ k_hold (k s4) = false /\ k_cmd (k s4) = None /\
    length (cbuf s4) = length (cbuf s).
Proof.
  intros s q Hi Hs Hcr Hh H6.
  assert (H1 : osteps 1 s q (ack_error s) q []).
  { apply (Lemmas_E2E.ostep_pure D Hmx s q ack_error Hi). intros h t. unfold cmd_service. cbn [Fsm.st mkw].
    rewrite Hs. reflexivity. }
  destruct (Lemmas_C19.ack_error_props s H6) as (_ & _ & _ & HT).
  assert (Hfr : Lemmas_E2E.fresh (ack_error s)) by (repeat split; reflexivity).
  assert (H0 : In 0%N (cbuf (ack_error s))).
  { change (In 0%N (strncpy_buf (asz s) txt_ERROR)). apply (Lemmas_E2E.In0_strncpy D). unfold asz.
    cbn [length txt_ERROR]. lia. }
  destruct (Lemmas_E2E.result_tail D Hmx (ack_error s) q txt_ERROR Hi Hfr eq_refl Hcr Hh H0 HT) as (s4 & O & R).
  exists s4. split; [exact (osteps_trans _ _ _ _ _ _ _ _ _ _ H1 O)|].
  destruct R as (R1 & R2 & R3 & R4 & R5 & R6 & R7 & R8 & R9 & R10 & R11).
  repeat (split; [assumption|]). rewrite R11.
  change (cbuf (ack_error s)) with (strncpy_buf (asz s) txt_ERROR). apply Lemmas_C19.strncpy_length.
Qed.

(* Lemmas_E2E.wloop_steps, additionally: the size of the working buffer *)
Lemma wloop_steps_len : forall c m m0 cb q, c_hwrite c = false -> NoDup (map v_slot (c_vars c)) ->
  3 <= length cb ->
  forall vs v pre0 s done txts tl,
  c_vars c = pre0 ++ v :: vs -> Forall (Lemmas_C07e.rt_var_ok m) (v :: vs) ->
  Lemmas_C07e.WInv D c m m0 cb s pre0 (length done) -> idle s ->
  all_some (map (Lemmas_C07e.slot_text m) (v :: vs)) = Some txts ->
  cb = done ++ join_comma txts ++ 0%N :: tl ->
  exists s', steps (length (v :: vs)) s q s' q /\ Lemmas_C07e.WDone c m m0 s' /\ post s s' /\
             In 0%N (cbuf s') /\ length (cbuf s') = length cb.
Proof.
  intros c m m0 cb q Hw Hnd H3.
  induction vs as [|v2 vs IH]; intros v pre0 s done txts tl Hc Hok HW Hidl Ha Hcb;
    destruct (Lemmas_C07e.all_some_cons_st _ _ _ _ Ha) as (txt & txts' & -> & Hi & Ha');
    inversion Hok as [|? ? Hokv Hokvs]; subst x l;
    pose proof Hokv as (_ & _ & Hnw & _);
    pose proof HW as (_ & Hst & Hcmd & _);
    assert (Hnf : k_state (k s) <> CS_FLUSH_WAIT) by (rewrite Hst; discriminate).
  - cbn [map all_some] in Ha'. injection Ha' as <-.
    rewrite Lemmas_C07e.join_comma_one in Hcb.
    destruct (Lemmas_C07e.wstep_decode D c m m0 cb s pre0 (length done) v [] txt 0%N tl done
                HW Hc Hnd Hokv Hi eq_refl Hcb eq_refl) as (data' & d & ws & Hn & Hd' & Hdec & HM).
    change (0 =? ch_COMMA)%N with false in Hdec.
    exists (Lemmas_C07e.pwa_next c false (Lemmas_C07e.pwa_store v d ws (S (length txt)) s)).
    split; [exact (Lemmas_E2E.pwa_one D Hmx s q c v data' false d ws _ Hidl Hst Hcmd Hn Hd' Hnw Hdec)|].
    split; [apply (Lemmas_C07e.wmid_last D _ _ _ _ _ _ _ _ HM Hc Hw); lia|].
    split; [apply Lemmas_E2E.post_pwa; exact Hnf|].
    split; [exact (Lemmas_E2E.wmid_last_in0 D _ _ _ _ _ _ _ _ HM Hc Hw H3)|].
    (* the size *)
    destruct HM as (W1 & W2 & W3 & W5 & W6 & W7 & W8 & W9 & W10).
    unfold Lemmas_C07e.pwa_next. cbv zeta. rewrite W5, Hw, andb_false_r.
    replace (S (length pre0) =? length (c_vars c)) with true.
    2:{ symmetry. apply Nat.eqb_eq. rewrite Hc, app_length. cbn [length]. lia. }
    cbn [negb]. rewrite andb_false_r.
    match goal with |- length (cbuf (ack_ok ?x)) = _ =>
      change (cbuf (ack_ok x)) with (strncpy_buf (length (cbuf x)) txt_OK) end.
    rewrite Lemmas_C19.strncpy_length.
    match goal with |- length (cbuf (setk_index _ ?y)) = _ => change (cbuf (setk_index (S (length pre0)) y)) with (cbuf y) end.
    rewrite W6. reflexivity.
  - destruct (Lemmas_C07e.all_some_cons_st _ _ _ _ Ha') as (txt2 & txts2 & -> & Hi2 & Ha2).
    rewrite Lemmas_C07e.join_comma_cons2 in Hcb.
    destruct (Lemmas_C07e.wstep_decode D c m m0 cb s pre0 (length done) v (v2 :: vs) txt ch_COMMA
                (join_comma (txt2 :: txts2) ++ 0%N :: tl) done
                HW Hc Hnd Hokv Hi eq_refl) as (data' & d & ws & Hn & Hd' & Hdec & HM).
    { rewrite Hcb, <- !app_assoc. reflexivity. }
    { reflexivity. }
    change (ch_COMMA =? ch_COMMA)%N with true in Hdec.
    pose proof (Lemmas_E2E.pwa_one D Hmx s q c v data' true d ws _ Hidl Hst Hcmd Hn Hd' Hnw Hdec) as S1.
    pose proof (Lemmas_E2E.post_pwa c true v d ws (S (length txt)) s Hnf) as HP1.
    pose proof (Lemmas_C07e.wmid_more D _ _ _ _ _ _ _ _ HM) as HW'.
    specialize (HW' ltac:(rewrite Hc, app_length; cbn [length]; lia)).
    set (s1 := Lemmas_C07e.pwa_next c true (Lemmas_C07e.pwa_store v d ws (S (length txt)) s)) in *.
    assert (Hst1 : k_state (k s1) <> CS_FLUSH_WAIT).
    { destruct HW' as (_ & E & _). rewrite E. discriminate. }
    specialize (IH v2 (pre0 ++ [v]) s1 (done ++ txt ++ [ch_COMMA]) (txt2 :: txts2) tl).
    destruct IH as (s' & E & HD & HP2 & HI & HLn).
    + rewrite Hc, <- app_assoc. reflexivity.
    + exact Hokvs.
    + exact HW'.
    + apply (Lemmas_C02e.idle_of_u s); [apply HP1 | exact Hidl].
    + exact Ha'.
    + rewrite Hcb, <- !app_assoc. reflexivity.
    + exists s'. split; [|split; [exact HD | split; [exact (Lemmas_E2E.post_chain _ _ _ HP1 Hst1 HP2) | split; [exact HI | exact HLn]]]].
      change (length (v :: v2 :: vs)) with (1 + length (v2 :: vs)).
      exact (Lemmas_C02e.steps_trans D _ _ _ _ _ _ _ _ S1 E).
Qed.

Section Lines.
Variable s : state.
Hypothesis Hn : 0 < n.
Hypothesis HL : n <= 4 * length (cbuf s).
Hypothesis H6 : 6 <= length (cbuf s).
Hypothesis Hf : fault s = false.
Hypothesis Hst : k_state (k s) = CS_IDLE.
Hypothesis Hcr : k_cr (k s) = false.
Hypothesis Himp : k_implicit (k s) = false.
Hypothesis Hhold : k_hold (k s) = false.
Hypothesis Hidle : idle s.

Local Notation line_done := (Lemmas_E2E.line_done s).

Lemma read_line_len : forall name rest i c args,
  name_ok name = true -> implicit_hit D s (upper name) = false ->
  resolve (upper name) (enabled D s) (cmds D) = Some i -> nth_error (cmds D) i = Some c ->
  Lemmas_C07e.rt_cmd_ok (mem s) c -> Lemmas_C07e.read_args_text (mem s) c = Some args ->
  length (c_name c ++ [ch_EQ] ++ args) < length (cbuf s) ->
  exists calls s4,
    osteps calls s ([ch_A; ch_T] ++ name ++ [ch_QM; ch_LF] ++ rest) s4 rest
      ([ch_LF] ++ c_name c ++ [ch_EQ] ++ args ++ [ch_LF] ++ [ch_LF] ++ txt_OK ++ [ch_LF]) /\
    line_done s4 /\ length (cbuf s4) = length (cbuf s).
Proof.
  intros name rest i c args Hok Hh Hres Hc Hrt Ha Hfit.
  destruct (Lemmas_E2E.dispatch_read_ex D Hmx s Hn HL Hf Hst Himp Hidle name rest Hok Hh)
    as (c1 & s2 & H1 & (M2 & F2 & U2 & R2) & S2).
  rewrite Hres in R2. destruct R2 as (A1 & A2 & A3 & A4).
  unfold Lemmas_E2E.six in S2.
  assert (G2 : gL s2 = S (gL s) /\ gS s2 = gS s /\ gR s2 = gR s /\ k_cr (k s2) = false /\
               k_hold (k s2) = false /\ length (cbuf s2) = length (cbuf s)).
  { repeat split; congruence. }
  destruct G2 as (gl2 & gs2 & gr2 & cr2 & ho2 & len2).
  pose proof (Lemmas_E2E.cmd_at_of_cmds D i c Hc) as Hc'.
  assert (Hi2 : idle s2) by (apply (Lemmas_C02e.idle_of_u s); assumption).
  rewrite <- M2 in Hrt, Ha. rewrite <- len2 in Hfit.
  destruct (Lemmas_E2E.read_steps D Hmx s2 rest i c args Hi2 A1 A2 Hc' A3 Hrt F2 Ha Hfit)
    as (s3 & H2 & (D1 & (r & D2) & D3 & D4 & D5 & D6) & (KF & FL & _)).
  destruct (FL D4) as (P1 & P2 & P3 & P4 & _). specialize (P4 D5).
  destruct KF as (u3 & gl3 & gr3 & cr3 & ho3).
  assert (Hi3 : idle s3) by (apply (Lemmas_C02e.idle_of_u s2); assumption).
  assert (Hcr3 : k_cr (k s3) = false) by congruence.
  set (txt := c_name c ++ [ch_EQ] ++ args) in *.
  assert (HT3 : text_of (cbuf s3) = txt).
  { rewrite D2. apply Lemmas_C19.text_of_app0. exact (Lemmas_E2E.txt_no_nul (mem s2) c args Hrt Ha). }
  assert (H03 : In 0%N (cbuf s3)) by (rewrite D2; apply in_or_app; right; left; reflexivity).
  destruct (Lemmas_E2E.emit_unit D Hmx s3 rest txt Hi3 (conj D4 (conj P1 (conj P2 P3))) Hcr3 H03 HT3)
    as (s5 & O3 & K3 & A5 & G5).
  rewrite D5 in A5, G5. cbn [cstate_beq] in G5.
  destruct K3 as (K1 & K2 & K3 & K4 & K5 & K6 & K7 & K8).
  assert (Hi5 : idle s5) by (apply (Lemmas_C02e.idle_of_u s3); assumption).
  destruct (ok_tail_len s5 rest Hi5 A5) as (s6 & O4 & R1 & R2 & R3 & R4 & R5 & R6 & R7 & R8 & R9 & R10 & R11);
    [congruence | congruence | rewrite K8; lia |].
  exists (c1 + ((1 + length (c_vars c)) + ((6 + length txt) + 10))), s6. split; [|split].
  - eapply osteps_cast;
      [exact (osteps_trans _ _ _ _ _ _ _ _ _ _ (osteps_of_steps _ _ _ _ _ H1)
               (osteps_trans _ _ _ _ _ _ _ _ _ _ (osteps_of_steps _ _ _ _ _ H2)
                  (osteps_trans _ _ _ _ _ _ _ _ _ _ O3 O4))) | reflexivity |].
    unfold txt. cbn [app]. rewrite <- !app_assoc. reflexivity.
  - unfold Lemmas_E2E.line_done. repeat split; congruence.
  - rewrite R11, K8, D3. exact len2.
Qed.

Lemma unknown_line_len : forall name rest,
  name_ok name = true -> implicit_hit D s (upper name) = false ->
  resolve (upper name) (enabled D s) (cmds D) = None ->
  exists calls s4,
    osteps calls s ([ch_A; ch_T] ++ name ++ [ch_LF] ++ rest) s4 rest ([ch_LF] ++ txt_ERROR ++ [ch_LF]) /\
    line_done s4 /\ length (cbuf s4) = length (cbuf s).
Proof.
  intros name rest Hok Hh Hres.
  destruct (Lemmas_E2E.dispatch_lf_ex D Hmx s Hn HL Hf Hst Himp Hidle name rest Hok Hh)
    as (c1 & s2 & H1 & (M2 & F2 & U2 & R2) & S2).
  rewrite Hres in R2. unfold Lemmas_C02e.NF in R2. change (ch_LF =? ch_LF)%N with true in R2. cbv iota in R2.
  unfold Lemmas_E2E.six in S2.
  assert (G2 : gL s2 = S (gL s) /\ gS s2 = gS s /\ gR s2 = gR s /\ k_cr (k s2) = false /\
               k_hold (k s2) = false /\ length (cbuf s2) = length (cbuf s)).
  { repeat split; congruence. }
  destruct G2 as (gl2 & gs2 & gr2 & cr2 & ho2 & len2).
  assert (Hi2 : idle s2) by (apply (Lemmas_C02e.idle_of_u s); assumption).
  destruct (err_tail_len s2 rest Hi2 R2 cr2 ho2) as (s6 & O4 & R1 & R3 & R4 & R5 & R6 & R7 & R8 & R9 & R10 & R11 & R12);
    [lia|].
  exists (c1 + 13), s6. split; [|split].
  - exact (osteps_trans _ _ _ _ _ _ _ _ _ _ (osteps_of_steps _ _ _ _ _ H1) O4).
  - unfold Lemmas_E2E.line_done. repeat split; congruence.
  - congruence.
Qed.

Lemma unknown_read_line_len : forall name rest,
  name_ok name = true -> implicit_hit D s (upper name) = false ->
  resolve (upper name) (enabled D s) (cmds D) = None ->
  exists calls s4,
    osteps calls s ([ch_A; ch_T] ++ name ++ [ch_QM; ch_LF] ++ rest) s4 rest ([ch_LF] ++ txt_ERROR ++ [ch_LF]) /\
    line_done s4 /\ length (cbuf s4) = length (cbuf s).
Proof.
  intros name rest Hok Hh Hres.
  destruct (Lemmas_E2E.dispatch_read_ex D Hmx s Hn HL Hf Hst Himp Hidle name rest Hok Hh)
    as (c1 & s2 & H1 & (M2 & F2 & U2 & R2) & S2).
  rewrite Hres in R2. unfold Lemmas_C02e.NF in R2. change (ch_LF =? ch_LF)%N with true in R2. cbv iota in R2.
  unfold Lemmas_E2E.six in S2.
  assert (G2 : gL s2 = S (gL s) /\ gS s2 = gS s /\ gR s2 = gR s /\ k_cr (k s2) = false /\
               k_hold (k s2) = false /\ length (cbuf s2) = length (cbuf s)).
  { repeat split; congruence. }
  destruct G2 as (gl2 & gs2 & gr2 & cr2 & ho2 & len2).
  assert (Hi2 : idle s2) by (apply (Lemmas_C02e.idle_of_u s); assumption).
  destruct (err_tail_len s2 rest Hi2 R2 cr2 ho2) as (s6 & O4 & R1 & R3 & R4 & R5 & R6 & R7 & R8 & R9 & R10 & R11 & R12);
    [lia|].
  exists (c1 + 13), s6. split; [|split].
  - exact (osteps_trans _ _ _ _ _ _ _ _ _ _ (osteps_of_steps _ _ _ _ _ H1) O4).
  - unfold Lemmas_E2E.line_done. repeat split; congruence.
  - congruence.
Qed.

Lemma write_line_len : forall name rest i c m args,
  name_ok name = true -> implicit_hit D s (upper name) = false ->
  resolve (upper name) (enabled D s) (cmds D) = Some i -> nth_error (cmds D) i = Some c ->
  Lemmas_C07e.rt_cmd_ok m c -> Lemmas_C07e.read_args_text m c = Some args ->
  Lemmas_C07e.same_shape m (mem s) -> ~ In ch_CR args -> length args < length (cbuf s) ->
  exists calls s4,
    osteps calls s ([ch_A; ch_T] ++ name ++ [ch_EQ] ++ args ++ [ch_LF] ++ rest) s4 rest
      ([ch_LF] ++ txt_OK ++ [ch_LF]) /\
    k_state (k s4) = CS_IDLE /\ fault s4 = false /\ u s4 = u s /\
    gL s4 = S (gL s) /\ gS s4 = S (gS s) /\ gR s4 = S (gR s) /\
    k_cr (k s4) = false /\ k_hold (k s4) = false /\ k_cmd (k s4) = None /\
    length (cbuf s4) = length (cbuf s) /\
    (forall v d0, In v (c_vars c) -> nth_error m (v_slot v) = Some d0 ->
       exists d1, nth_error (mem s4) (v_slot v) = Some d1 /\ Lemmas_C07.same_value v d1 d0) /\
    (forall sl, ~ In sl (map v_slot (c_vars c)) -> nth_error (mem s4) sl = nth_error (mem s) sl).
Proof.
  intros name rest i c m args Hok Hh Hres Hc Hrt Ha Hsh Hncr Hfit.
  destruct (Lemmas_E2E.dispatch_eq_ex D Hmx s Hn HL Hf Hst Himp Hidle name (args ++ [ch_LF] ++ rest) Hok Hh)
    as (c1 & s2 & H1 & (M2 & F2 & U2 & R2) & S2).
  rewrite Hres in R2. destruct R2 as (A1 & A2 & A3 & A4).
  unfold Lemmas_E2E.six in S2.
  assert (G2 : gL s2 = gL s /\ gS s2 = gS s /\ gR s2 = gR s /\ k_cr (k s2) = false /\
               k_hold (k s2) = false /\ length (cbuf s2) = length (cbuf s)).
  { repeat split; congruence. }
  destruct G2 as (gl2 & gs2 & gr2 & cr2 & ho2 & len2).
  pose proof (Lemmas_E2E.cmd_at_of_cmds D i c Hc) as Hc'.
  assert (Hi2 : idle s2) by (apply (Lemmas_C02e.idle_of_u s); assumption).
  assert (Hcmd2 : cmd_of D ATCMD s2 = Some c) by (unfold cmd_of, g_cmd; rewrite A2; exact Hc').
  pose proof Hrt as (Hne & Hokv & Hnd & _ & Hw & Hot & _).
  destruct (Lemmas_E2E.args_no_lf D m c args Hrt Ha) as (Hnlf & Hq).
  pose proof (Lemmas_E2E.found_write_step D Hmx s2 (args ++ [ch_LF] ++ rest) Hi2 A1) as H2.
  destruct (Lemmas_C06.C06_entry D s2 c Hcmd2 A3 ltac:(unfold asz; lia)) as (E1 & E2 & E3 & E4 & E5 & E6 & E7 & E8).
  destruct (Lemmas_E2E.found_write_pre D s2 c Hcmd2 A3) as (K3 & gs3 & _).
  set (s3 := command_found D s2) in *.
  assert (Hi3 : idle s3) by (apply (Lemmas_C02e.idle_of_u s2); [apply K3 | exact Hi2]).
  unfold asz in E5.
  destruct (Lemmas_E2E.args_steps D Hmx c args s3 ([ch_LF] ++ rest) Hi3 E1 E2 E3 ltac:(unfold asz; lia) ltac:(congruence)
              E4 Hnlf Hncr (fun _ => Hq) ltac:(unfold asz; lia)) as (H3 & K5 & gs5).
  pose proof (Lemmas_C06.C06_collect D s3 c args E1 E2 E3 ltac:(unfold asz; lia) ltac:(congruence) E4 Hnlf) as HC.
  rewrite (Lemmas_E2E.no_cr_id args Hncr) in HC. specialize (HC (fun _ => Hq)). cbv zeta in HC.
  destruct HC as (F5 & M5 & C5 & HC).
  replace (length args <? asz s3) with true in HC by (symmetry; apply Nat.ltb_lt; unfold asz; lia).
  destruct HC as (S5 & _ & B5 & L5 & _).
  set (s5 := args_feed D s3 args) in *.
  assert (Hi5 : idle s5) by (apply (Lemmas_C02e.idle_of_u s3); [apply K5 | exact Hi3]).
  destruct (c_vars c) as [|v vs] eqn:Hvs; [congruence|].
  assert (Hrw : v_access v = RW).
  { inversion Hokv as [|? ? (A & _) _]. exact A. }
  pose proof (Lemmas_E2E.pca_lf_step D Hmx s5 rest c v vs Hi5 S5 C5 Hot Hvs Hrw) as H4.
  set (s6 := Lemmas_E2E.pwa_entry s5) in *.
  unfold Lemmas_C07e.read_args_text in Ha.
  change (fun v : var => match nth_error m (v_slot v) with
                         | Some d => var_text v d | None => None end)
    with (Lemmas_C07e.slot_text m) in Ha.
  rewrite Hvs in Ha.
  destruct (all_some (map (Lemmas_C07e.slot_text m) (v :: vs))) as [txts|] eqn:Hall; [|discriminate].
  injection Ha as <-.
  apply Lemmas_C07e.firstn_app_nul in B5.
  set (tl := skipn (S (length (join_comma txts))) (cbuf s5)) in B5.
  assert (HW : Lemmas_C07e.WInv D c m (mem s6) (cbuf s6) s6 [] (length (@nil N))).
  { unfold Lemmas_C07e.WInv, Lemmas_C07e.vals_ok, Lemmas_C07e.frame_ok.
    split; [exact F5|]. split; [reflexivity|]. split; [exact C5|].
    split; [reflexivity|]. split; [reflexivity|]. split; [reflexivity|]. split; [reflexivity|].
    split; [change (mem s6) with (mem s5); rewrite M5, E7, M2; exact Hsh|].
    split; [intros v' d0 [] | intros sl _; reflexivity]. }
  assert (Hi6 : idle s6) by exact Hi5.
  destruct (wloop_steps_len c m (mem s6) (cbuf s6) rest Hw ltac:(rewrite Hvs; exact Hnd)
              ltac:(change (cbuf s6) with (cbuf s5); lia)
              vs v [] s6 [] txts tl Hvs Hokv HW Hi6 Hall B5)
    as (s7 & H5 & (D1 & D2 & D3 & D4 & D5 & D6) & (K7 & FL7 & _) & I7 & Len7).
  destruct (FL7 D2) as (P1 & P2 & P3 & _ & P5). specialize (P5 D3).
  rewrite Hvs in D5, D6.
  destruct K3 as (u3 & gl3 & gr3 & cr3 & ho3). destruct K5 as (u5 & gl5 & gr5 & cr5 & ho5).
  destruct K7 as (u7 & gl7 & gr7 & cr7 & ho7).
  change (u s6) with (u s5) in u7. change (gL s6) with (S (gL s5)) in gl7. change (gR s6) with (gR s5) in gr7.
  change (k_cr (k s6)) with (k_cr (k s5)) in cr7. change (k_hold (k s6)) with (k_hold (k s5)) in ho7.
  change (gS s6) with (gS s5) in P5.
  assert (Hi7 : idle s7) by (apply (Lemmas_C02e.idle_of_u s5); assumption).
  destruct (Lemmas_E2E.result_tail D Hmx s7 rest txt_OK Hi7 (conj D2 (conj P1 (conj P2 P3))) D3
              ltac:(congruence) ltac:(congruence) I7 D4)
    as (s8 & O6 & R1 & R2 & R3 & R4 & R5 & R6 & R7 & R8 & R9 & R10 & R11).
  exists (c1 + (1 + (length (join_comma txts) + (1 + (length (v :: vs) + (7 + length txt_OK)))))), s8.
  split.
  - eapply osteps_cast;
      [exact (osteps_trans _ _ _ _ _ _ _ _ _ _ (osteps_of_steps _ _ _ _ _ H1)
               (osteps_trans _ _ _ _ _ _ _ _ _ _ (osteps_of_steps _ _ _ _ _ H2)
                 (osteps_trans _ _ _ _ _ _ _ _ _ _ (osteps_of_steps _ _ _ _ _ H3)
                   (osteps_trans _ _ _ _ _ _ _ _ _ _ (osteps_of_steps _ _ _ _ _ H4)
                     (osteps_trans _ _ _ _ _ _ _ _ _ _ (osteps_of_steps _ _ _ _ _ H5) O6)))))
      | reflexivity | reflexivity].
  - split; [exact R1|]. split; [congruence|]. split; [congruence|].
    split; [congruence|]. split; [congruence|]. split; [congruence|].
    split; [exact R8|]. split; [exact R9|]. split; [exact R10|]. split.
    { rewrite R11, Len7. change (cbuf s6) with (cbuf s5). rewrite L5. exact (eq_trans E5 len2). }
    split.
    + intros v' d0 Hin Hn0. rewrite R2. exact (D5 v' d0 Hin Hn0).
    + intros sl Hsl. rewrite R2, (D6 sl Hsl). change (mem s6) with (mem s5).
      rewrite M5, E7, M2. reflexivity.
Qed.

End Lines.
End ReLines.

(* ===================================================================== *)
(* (Chain)                                                               *)
(* ===================================================================== *)
Local Notation dz := Walk.dz.
Lemma dz_run_scripted : forall D ops (w : sworld),
  Forall (fun o => (forall i b, o <> OSetCmdDisable i b) /\ (forall g b, o <> OSetGroupDisable g b)) ops ->
  dz (wst (run D sio smu shs s_read s_write s_lock s_unlock s_call w ops)) = dz (wst w).
Proof.
  intros D ops w H. exact (Walk.dz_run D sio smu shs s_read s_write s_lock s_unlock s_call ops w H).
Qed.


(* ================= cat_service calls as a run ================= *)
Lemma nsvc_run : forall D n (w : sworld),
  nsvc D n w = run D sio smu shs s_read s_write s_lock s_unlock s_call w (repeat OService n).
Proof.
  intros D n. induction n as [|n IH]; intros w; [reflexivity|].
  cbn [repeat]. unfold nsvc in *. simpl iter. rewrite IH. reflexivity.
Qed.

Lemma svc_ops_ok : forall n,
  Forall (fun o => (forall i b, o <> OSetCmdDisable i b) /\ (forall g b, o <> OSetGroupDisable g b))
         (repeat OService n).
Proof.
  induction n as [|n IH]; cbn [repeat]; constructor; [|exact IH].
  split; intros; discriminate.
Qed.

(* ================= the start condition of the whole-line theorems ================= *)
Definition ready (D : desc) (s : state) : Prop :=
  0 < ncmds D /\ ncmds D <= 4 * length (cbuf s) /\ 6 <= length (cbuf s) /\ fault s = false /\
  k_state (k s) = CS_IDLE /\ k_cr (k s) = false /\ k_implicit (k s) = false /\ k_hold (k s) = false /\
  u_state (u s) = US_IDLE /\ u_count (u s) = 0.

(* what every covered line leaves behind, besides [ready] *)
Definition same_ctx (s s' : state) : Prop :=
  length (cbuf s') = length (cbuf s) /\ dis_cmd s' = dis_cmd s /\ dis_grp s' = dis_grp s /\ u s' = u s /\
  k_cmd (k s') = None /\ gL s' = S (gL s) /\ gS s' = S (gS s) /\ gR s' = S (gR s).

Lemma J0_of_ready : forall D s, ready D s -> J0 (ctl_of s).
Proof.
  intros D s (_ & _ & _ & _ & Hst & Hcr & Himp & Hh & _).
  unfold J0, ctl_of. cbn [ck chold cimp ccr uk cwa]. rewrite Hst, Hcr, Himp, Hh.
  split; [split; intros; discriminate|].
  split; [intros; discriminate|]. split; [reflexivity|].
  split; [intros [X _]; discriminate|]. intros [X|X]; discriminate.
Qed.

Section Frame.
Variable D : desc.
Local Notation osteps := (Lemmas_E2E.osteps D).

(* the object state reached by [osteps] is the state of a run under empty handler scripts *)
Lemma osteps_run : forall calls s q s4 q' out, osteps calls s q s4 q' out ->
  wst (run D sio smu shs s_read s_write s_lock s_unlock s_call (mkw s q [] []) (repeat OService calls)) = s4.
Proof.
  intros calls s q s4 q' out H. destruct (H [] []) as (t' & _ & _ & E).
  rewrite <- nsvc_run, E. reflexivity.
Qed.

Lemma osteps_dz : forall calls s q s4 q' out, osteps calls s q s4 q' out ->
  dis_cmd s4 = dis_cmd s /\ dis_grp s4 = dis_grp s.
Proof.
  intros calls s q s4 q' out H.
  pose proof (dz_run_scripted D (repeat OService calls) (mkw s q [] []) (svc_ops_ok calls)) as E.
  rewrite (osteps_run _ _ _ _ _ _ H) in E. unfold dz in E. cbn [Fsm.st mkw] in E.
  injection E as E1 E2. split; assumption.
Qed.

Lemma osteps_J0 : forall calls s q s4 q' out, osteps calls s q s4 q' out ->
  J0 (ctl_of s) -> fault s4 = false -> J0 (ctl_of s4).
Proof.
  intros calls s q s4 q' out H HJ Hf.
  pose proof (J0_run_inv D sio smu shs s_read s_write s_lock s_unlock s_call
                (fun h => no_rt_hold h = true) no_rt_hold_step
                (mkw s q [] []) (repeat OService calls) eq_refl HJ) as X.
  rewrite (osteps_run _ _ _ _ _ _ H) in X. exact (X Hf).
Qed.

Lemma J0_idle_implicit : forall s, J0 (ctl_of s) -> k_state (k s) = CS_IDLE -> k_implicit (k s) = false.
Proof.
  intros s (_ & H & _) Hst. cbn [ctl_of cimp ck] in H.
  destruct (k_implicit (k s)); [|reflexivity]. specialize (H eq_refl). rewrite Hst in H. discriminate.
Qed.

(* a finished line is ready for the next one *)
Lemma line_ready : forall calls s q s4 q' out, ready D s -> osteps calls s q s4 q' out ->
  k_state (k s4) = CS_IDLE -> fault s4 = false -> u s4 = u s -> k_cr (k s4) = false ->
  k_hold (k s4) = false -> length (cbuf s4) = length (cbuf s) ->
  ready D s4 /\ dis_cmd s4 = dis_cmd s /\ dis_grp s4 = dis_grp s.
Proof.
  intros calls s q s4 q' out R O Hst Hf Hu Hcr Hh Hl.
  pose proof (osteps_J0 _ _ _ _ _ _ O (J0_of_ready D s R) Hf) as HJ.
  pose proof (J0_idle_implicit s4 HJ Hst) as Himp.
  destruct R as (R1 & R2 & R3 & R4 & R5 & R6 & R7 & R8 & R9 & R10).
  split; [|exact (osteps_dz _ _ _ _ _ _ O)].
  unfold ready. rewrite Hl, Hu. repeat split; assumption.
Qed.
End Frame.

(* ================= the covered kinds of lines ================= *)
Inductive line :=
  | LRead (name : list N) (i : nat) (c : cmd) (args : list N)        (* AT name ? LF, answered from variables *)
  | LReadCr (name : list N) (i : nat) (c : cmd) (args : list N)      (* AT name ? CR LF *)
  | LUnknown (name : list N)                                         (* AT name LF, no such command *)
  | LUnknownRead (name : list N)                                     (* AT name ? LF, no such command *)
  | LWrite (name : list N) (i : nat) (c : cmd) (m : list (list N)) (args : list N). (* AT name = args LF *)

Definition line_in (l : line) : list N :=
  match l with
  | LRead name _ _ _ => [ch_A; ch_T] ++ name ++ [ch_QM; ch_LF]
  | LReadCr name _ _ _ => [ch_A; ch_T] ++ name ++ [ch_QM; ch_CR; ch_LF]
  | LUnknown name => [ch_A; ch_T] ++ name ++ [ch_LF]
  | LUnknownRead name => [ch_A; ch_T] ++ name ++ [ch_QM; ch_LF]
  | LWrite name _ _ _ args => [ch_A; ch_T] ++ name ++ [ch_EQ] ++ args ++ [ch_LF]
  end.

Definition line_out (l : line) : list N :=
  match l with
  | LRead _ _ c args => [ch_LF] ++ c_name c ++ [ch_EQ] ++ args ++ [ch_LF] ++ [ch_LF] ++ txt_OK ++ [ch_LF]
  | LReadCr _ _ c args =>
      [ch_CR; ch_LF] ++ c_name c ++ [ch_EQ] ++ args ++ [ch_CR; ch_LF] ++ [ch_CR; ch_LF] ++ txt_OK ++ [ch_CR; ch_LF]
  | LUnknown _ | LUnknownRead _ => [ch_LF] ++ txt_ERROR ++ [ch_LF]
  | LWrite _ _ _ _ _ => [ch_LF] ++ txt_OK ++ [ch_LF]
  end.

(* the hypotheses of the whole-line theorems about the line, relative to the state it meets:
   they depend on the state only through the variables, the disable flags and the buffer size *)
Definition line_pre (D : desc) (l : line) (s : state) : Prop :=
  match l with
  | LRead name i c args | LReadCr name i c args =>
      name_ok name = true /\ implicit_hit D s (upper name) = false /\
      resolve (upper name) (enabled D s) (cmds D) = Some i /\ nth_error (cmds D) i = Some c /\
      Lemmas_C07e.rt_cmd_ok (mem s) c /\ Lemmas_C07e.read_args_text (mem s) c = Some args /\
      length (c_name c ++ [ch_EQ] ++ args) < length (cbuf s)
  | LUnknown name | LUnknownRead name =>
      name_ok name = true /\ implicit_hit D s (upper name) = false /\
      resolve (upper name) (enabled D s) (cmds D) = None
  | LWrite name i c m args =>
      name_ok name = true /\ implicit_hit D s (upper name) = false /\
      resolve (upper name) (enabled D s) (cmds D) = Some i /\ nth_error (cmds D) i = Some c /\
      Lemmas_C07e.rt_cmd_ok m c /\ Lemmas_C07e.read_args_text m c = Some args /\
      Lemmas_C07e.same_shape m (mem s) /\ ~ In ch_CR args /\ length args < length (cbuf s)
  end.

(* what the line does to the variables *)
Definition line_post (l : line) (s s' : state) : Prop :=
  match l with
  | LWrite _ _ c m _ =>
      (forall v d0, In v (c_vars c) -> nth_error m (v_slot v) = Some d0 ->
         exists d1, nth_error (mem s') (v_slot v) = Some d1 /\ Lemmas_C07.same_value v d1 d0) /\
      (forall sl, ~ In sl (map v_slot (c_vars c)) -> nth_error (mem s') sl = nth_error (mem s) sl)
  | _ => mem s' = mem s
  end.

Lemma enabled_ext : forall D s s', dis_cmd s' = dis_cmd s -> dis_grp s' = dis_grp s ->
  enabled D s' = enabled D s.
Proof.
  intros D s s' H1 H2. unfold enabled, is_command_disable. rewrite H1, H2. reflexivity.
Qed.
Lemma implicit_hit_ext : forall D s s' t, dis_cmd s' = dis_cmd s -> dis_grp s' = dis_grp s ->
  implicit_hit D s' t = implicit_hit D s t.
Proof.
  intros D s s' t H1 H2. unfold implicit_hit. rewrite (enabled_ext D s s' H1 H2). reflexivity.
Qed.

(* the premise moves to any state with the same variables, flags and buffer size *)
Lemma line_pre_transfer : forall D l s s',
  mem s' = mem s -> dis_cmd s' = dis_cmd s -> dis_grp s' = dis_grp s -> length (cbuf s') = length (cbuf s) ->
  line_pre D l s -> line_pre D l s'.
Proof.
  intros D l s s' Hm H1 H2 Hl. destruct l; cbn [line_pre];
    rewrite (implicit_hit_ext D s s' _ H1 H2), (enabled_ext D s s' H1 H2), ?Hm, ?Hl; exact (fun x => x).
Qed.

Section Kinds.
Variable D : desc.
Hypothesis Hmx : d_mutex D = false.
Local Notation osteps := (Lemmas_E2E.osteps D).

(* the re-entrant whole-line theorem, all kinds *)
Theorem line_re : forall l s rest, ready D s -> line_pre D l s ->
  exists calls s',
    osteps calls s (line_in l ++ rest) s' rest (line_out l) /\
    ready D s' /\ same_ctx s s' /\ line_post l s s'.
Proof.
  intros l s rest R P. pose proof R as (Hn & HL & H6 & Hf & Hst & Hcr & Himp & Hh & Hu1 & Hu2).
  assert (Hidle : idle s) by (split; assumption).
  destruct l as [name i c args | name i c args | name | name | name i c m args]; cbn [line_pre] in P;
    cbn [line_in line_out line_post].
  - destruct P as (P1 & P2 & P3 & P4 & P5 & P6 & P7).
    destruct (read_line_len D Hmx s Hn HL H6 Hf Hst Hcr Himp Hh Hidle name rest i c args P1 P2 P3 P4 P5 P6 P7)
      as (calls & s4 & O & (L1 & L2 & L3 & L4 & L5 & L6 & L7 & L8 & L9 & L10) & Len).
    rewrite <- !app_assoc. exists calls, s4. split; [exact O|].
    destruct (line_ready D calls s _ s4 rest _ R O L1 L3 L4 L8 L9 Len) as (R4 & Z1 & Z2).
    split; [exact R4|]. split; [|exact L2]. unfold same_ctx. repeat split; assumption.
  - destruct P as (P1 & P2 & P3 & P4 & P5 & P6 & P7).
    destruct (Cr.read_line_cr_osteps D Hmx s Hn HL H6 Hf Hst Himp Hh Hidle name rest i c args P1 P2 P3 P4 P5 P6 P7)
      as (calls & s4 & O & (L1 & L2 & L3 & L4 & L5 & L6 & L7 & L8 & L9 & L10) & Len).
    rewrite <- !app_assoc. exists calls, s4. split; [exact O|].
    destruct (line_ready D calls s _ s4 rest _ R O L1 L3 L4 L8 L9 Len) as (R4 & Z1 & Z2).
    split; [exact R4|]. split; [|exact L2]. unfold same_ctx. repeat split; assumption.
  - destruct P as (P1 & P2 & P3).
    destruct (unknown_line_len D Hmx s Hn HL H6 Hf Hst Hcr Himp Hh Hidle name rest P1 P2 P3)
      as (calls & s4 & O & (L1 & L2 & L3 & L4 & L5 & L6 & L7 & L8 & L9 & L10) & Len).
    rewrite <- !app_assoc. exists calls, s4. split; [exact O|].
    destruct (line_ready D calls s _ s4 rest _ R O L1 L3 L4 L8 L9 Len) as (R4 & Z1 & Z2).
    split; [exact R4|]. split; [|exact L2]. unfold same_ctx. repeat split; assumption.
  - destruct P as (P1 & P2 & P3).
    destruct (unknown_read_line_len D Hmx s Hn HL H6 Hf Hst Hcr Himp Hh Hidle name rest P1 P2 P3)
      as (calls & s4 & O & (L1 & L2 & L3 & L4 & L5 & L6 & L7 & L8 & L9 & L10) & Len).
    rewrite <- !app_assoc. exists calls, s4. split; [exact O|].
    destruct (line_ready D calls s _ s4 rest _ R O L1 L3 L4 L8 L9 Len) as (R4 & Z1 & Z2).
    split; [exact R4|]. split; [|exact L2]. unfold same_ctx. repeat split; assumption.
  - destruct P as (P1 & P2 & P3 & P4 & P5 & P6 & P7 & P8 & P9).
    destruct (write_line_len D Hmx s Hn HL H6 Hf Hst Hcr Himp Hh Hidle name rest i c m args
                P1 P2 P3 P4 P5 P6 P7 P8 P9)
      as (calls & s4 & O & L1 & L3 & L4 & L5 & L6 & L7 & L8 & L9 & L10 & Len & V1 & V2).
    rewrite <- !app_assoc. exists calls, s4. split; [exact O|].
    destruct (line_ready D calls s _ s4 rest _ R O L1 L3 L4 L8 L9 Len) as (R4 & Z1 & Z2).
    split; [exact R4|]. split; [|split; assumption]. unfold same_ctx. repeat split; assumption.
Qed.

(* ---------- chains of lines ---------- *)
Inductive chain_ok : state -> list line -> Prop :=
  | chain_nil : forall s, chain_ok s []
  | chain_cons : forall s l ls, line_pre D l s ->
      (forall s1, ready D s1 -> same_ctx s s1 -> line_post l s s1 -> chain_ok s1 ls) ->
      chain_ok s (l :: ls).

Theorem chain : forall ls s rest, ready D s -> chain_ok s ls ->
  exists calls s',
    osteps calls s (concat (map line_in ls) ++ rest) s' rest (concat (map line_out ls)) /\ ready D s'.
Proof.
  induction ls as [|l ls IH]; intros s rest R C.
  - exists 0, s. split; [|exact R]. intros h t. exists []. repeat split; reflexivity.
  - inversion C as [|s0 l0 ls0 P K]; subst.
    cbn [map concat]. rewrite <- app_assoc.
    destruct (line_re l s (concat (map line_in ls) ++ rest) R P) as (c1 & s1 & O1 & R1 & X1 & Q1).
    destruct (IH s1 rest R1 (K s1 R1 X1 Q1)) as (c2 & s2 & O2 & R2).
    exists (c1 + c2), s2. split; [|exact R2].
    exact (Lemmas_E2E.osteps_trans D _ _ _ _ _ _ _ _ _ _ O1 O2).
Qed.

(* lines that do not store: the premises of all lines can be stated on the first state *)
Definition no_store (l : line) : bool := match l with LWrite _ _ _ _ _ => false | _ => true end.

Lemma chain_ok_no_store : forall ls s, forallb no_store ls = true ->
  Forall (fun l => line_pre D l s) ls -> chain_ok s ls.
Proof.
  induction ls as [|l ls IH]; intros s Hn HP; [constructor|].
  cbn [forallb] in Hn. apply andb_true_iff in Hn. destruct Hn as [Hl Hn].
  inversion HP as [|? ? P PS]; subst. constructor; [exact P|].
  intros s1 R1 (X1 & X2 & X3 & _) Q. apply IH; [exact Hn|].
  assert (Hm : mem s1 = mem s) by (destruct l; try exact Q; discriminate Hl).
  eapply Forall_impl; [|exact PS]. intros l' P'.
  exact (line_pre_transfer D l' s s1 Hm X2 X3 X1 P').
Qed.

End Kinds.

(* ===================================================================== *)
(* (P12)                                                                 *)
(* ===================================================================== *)
Local Notation invb := Walk.invb.
Local Notation invb_idle := Walk.invb_idle.
Local Notation invb_wafter := Walk.invb_wafter.
Local Notation invb_newline := Walk.invb_newline.
Lemma inv_run_w : forall D ioS muS hS io_read io_write mu_lock mu_unlock h_call ops (w : world ioS muS hS),
  invb (st ioS muS hS w) = true ->
  invb (st ioS muS hS (run D ioS muS hS io_read io_write mu_lock mu_unlock h_call w ops)) = true.
Proof. intros. apply Walk.inv_run. assumption. Qed.
Lemma inv_step_w : forall D ioS muS hS io_read io_write mu_lock mu_unlock h_call (w : world ioS muS hS) o,
  invb (st ioS muS hS w) = true ->
  invb (st ioS muS hS (step D ioS muS hS io_read io_write mu_lock mu_unlock h_call w o)) = true.
Proof. intros. apply Walk.inv_step. assumption. Qed.
Lemma dis_step : forall D ioS muS hS io_read io_write mu_lock mu_unlock h_call (w : world ioS muS hS) o,
  (forall i b, o <> OSetCmdDisable i b) -> (forall g b, o <> OSetGroupDisable g b) ->
  dis_cmd (st ioS muS hS (step D ioS muS hS io_read io_write mu_lock mu_unlock h_call w o)) = dis_cmd (st ioS muS hS w) /\
  dis_grp (st ioS muS hS (step D ioS muS hS io_read io_write mu_lock mu_unlock h_call w o)) = dis_grp (st ioS muS hS w).
Proof.
  intros D ioS muS hS io_read io_write mu_lock mu_unlock h_call w o H1 H2.
  pose proof (Walk.dz_step D ioS muS hS io_read io_write mu_lock mu_unlock h_call w o H1 H2) as E.
  unfold Walk.dz in E. injection E as E1 E2. split; assumption.
Qed.


Lemma invb_init : forall D m, invb (init_state D m) = true.
Proof. reflexivity. Qed.

(* ---------- P1: every history ---------- *)
Section P1.
Variable D : desc.
Variables ioS muS hS : Type.
Variable io_read : ioS -> ioS * option N.
Variable io_write : ioS -> N -> ioS * bool.
Variable mu_lock : muS -> muS * bool.
Variable mu_unlock : muS -> muS * bool.
Variable h_call : hS -> hreq -> hS * hres.
Notation world := (Fsm.world ioS muS hS).
Notation st := (Fsm.st ioS muS hS).
Notation tr := (Fsm.tr ioS muS hS).
Notation run := (Fsm.run D ioS muS hS io_read io_write mu_lock mu_unlock h_call).
Notation set_st := (Fsm.set_st ioS muS hS).

Theorem idle_cmd_none : forall m x mx h ops,
  let s := st (run (mkWorld ioS muS hS (init_state D m) x mx h []) ops) in
  k_state (k s) = CS_IDLE -> k_cmd (k s) = None.
Proof.
  intros m x mx h ops s. apply invb_idle. unfold s. apply inv_run_w. apply invb_init.
Qed.

(* the newline being written for the command machine is the one selected by k_cr, in every history *)
Theorem line_newline : forall m x mx h ops,
  let s := st (run (mkWorld ioS muS hS (init_state D m) x mx h []) ops) in
  (k_state (k s) = CS_FLUSH_WAIT \/ k_state (k s) = CS_FLUSH) ->
  forall cr, k_wbuf (k s) = WB_NL cr -> cr = k_cr (k s).
Proof.
  intros m x mx h ops s. apply invb_newline. unfold s. apply inv_run_w. apply invb_init.
Qed.

(* a flush never continues in CS_IDLE: CS_IDLE is entered through reset_state only *)
Theorem flush_continuation : forall m x mx h ops,
  let s := st (run (mkWorld ioS muS hS (init_state D m) x mx h []) ops) in
  (k_state (k s) = CS_FLUSH_WAIT \/ k_state (k s) = CS_FLUSH) -> k_wafter (k s) <> CS_IDLE.
Proof.
  intros m x mx h ops s. apply invb_wafter. unfold s. apply inv_run_w. apply invb_init.
Qed.

(* from any state in which the invariant holds *)
Theorem idle_cmd_none_run : forall (w : world) ops, invb (st w) = true ->
  k_state (k (st (run w ops))) = CS_IDLE -> k_cmd (k (st (run w ops))) = None.
Proof. intros w ops H. apply invb_idle. apply inv_run_w. exact H. Qed.

(* ---------- P2: reachable idle states behave like a fresh parser ---------- *)
Lemma fresh_of_facts : forall (w : world) m,
  fault (st w) = false -> Safe D m (st w) -> J (ctl_of (st w)) -> invb (st w) = true ->
  k_state (k (st w)) = CS_IDLE ->
  forall ops, tr (run w ops) = tr (run (set_st (Lemmas_C20.fresh_of D (st w)) w) ops).
Proof.
  intros w m Hf HS HJ HI Hst.
  apply (Lemmas_C20.fresh_vs_used D ioS muS hS io_read io_write mu_lock mu_unlock h_call w Hst).
  - exact (J_idle_cr (st w) HJ Hst).
  - destruct (k_hold (k (st w))) eqn:E; [|reflexivity].
    apply (proj1 (J_hold_iff (st w) HJ)) in E. rewrite Hst in E. discriminate.
  - destruct (k_implicit (k (st w))) eqn:E; [|reflexivity].
    apply (J_implicit (st w) HJ) in E. rewrite Hst in E. discriminate.
  - exact (invb_idle (st w) HI Hst).
  - destruct HS as ((_ & L & _) & _). exact L.
Qed.

Hypothesis no_uhold : forall hs q, unsol_req q = true -> r_code (snd (h_call hs q)) <> RC_HOLD.
Hypothesis handlers_valid : forall hs q, Forall (valid_icall D) (r_calls (snd (h_call hs q))).

Theorem fresh_vs_used_reachable : forall m x mx h ops0,
  wf_desc D m -> Forall (valid_op D) ops0 ->
  let w := run (mkWorld ioS muS hS (init_state D m) x mx h []) ops0 in
  k_state (k (st w)) = CS_IDLE ->
  forall ops, tr (run w ops) =
              tr (run (set_st (set_k init_cfsm (set_cbuf (repeat (d_fill D) (asz_of D)) (st w))) w) ops).
Proof.
  intros m x mx h ops0 WF F w Hst.
  destruct (reachable_inv D ioS muS hS io_read io_write mu_lock mu_unlock h_call (fun _ => True)
              (fun h q _ => conj I (conj (no_uhold h q) (handlers_valid h q)))
              m x mx h ops0 I WF F) as (Hf & HS & HJ & _).
  apply (fresh_of_facts w m Hf HS HJ); [|exact Hst].
  unfold w. apply inv_run_w. apply invb_init.
Qed.

(* the five hypotheses of C20_fresh_vs_used, for every reachable idle state of the domain *)
Theorem idle_reachable_hyps : forall m x mx h ops0,
  wf_desc D m -> Forall (valid_op D) ops0 ->
  let s := st (run (mkWorld ioS muS hS (init_state D m) x mx h []) ops0) in
  k_state (k s) = CS_IDLE ->
  k_cr (k s) = false /\ k_hold (k s) = false /\ k_implicit (k s) = false /\ k_cmd (k s) = None /\
  length (cbuf s) = asz_of D /\ fault s = false.
Proof.
  intros m x mx h ops0 WF F s Hst.
  destruct (reachable_inv D ioS muS hS io_read io_write mu_lock mu_unlock h_call (fun _ => True)
              (fun h q _ => conj I (conj (no_uhold h q) (handlers_valid h q)))
              m x mx h ops0 I WF F) as (Hf & HS & HJ & _).
  fold s in Hf, HS, HJ.
  split; [exact (J_idle_cr s HJ Hst)|].
  split. { destruct (k_hold (k s)) eqn:E; [|reflexivity].
           apply (proj1 (J_hold_iff s HJ)) in E. rewrite Hst in E. discriminate. }
  split. { destruct (k_implicit (k s)) eqn:E; [|reflexivity].
           apply (J_implicit s HJ) in E. rewrite Hst in E. discriminate. }
  split; [exact (idle_cmd_none m x mx h ops0 Hst)|].
  split; [|exact Hf]. destruct HS as ((_ & L & _) & _). exact L.
Qed.
End P1.

(* ---------- scripted scenarios ---------- *)

Lemma invb_apply_poke : forall s p, invb (apply_poke s p) = invb s.
Proof.
  intros s p. unfold apply_poke. destruct (nth_error (mem s) (fst p)); [|reflexivity].
  destruct (store_prefix l (snd p)); reflexivity.
Qed.

Lemma invb_sstep : forall D (w : sworld) o, invb (wst w) = true -> invb (wst (sstep D w o)) = true.
Proof.
  intros D w o H. destruct o as [o | bytes | slot bytes |]; cbn [sstep].
  - apply inv_step_w. exact H.
  - exact H.
  - cbn. rewrite invb_apply_poke. exact H.
  - reflexivity.
Qed.

Lemma invb_srun : forall D sops (w : sworld), invb (wst w) = true -> invb (wst (srun D w sops)) = true.
Proof.
  intros D sops. induction sops as [|o sops IH]; intros w H; [exact H|].
  cbn [srun fold_left]. apply IH. apply invb_sstep. exact H.
Qed.

Theorem idle_cmd_none_scripted : forall D m x mx h sops,
  let s := wst (srun D (sinit D m x mx h) sops) in
  k_state (k s) = CS_IDLE -> k_cmd (k s) = None.
Proof.
  intros D m x mx h sops s. apply invb_idle. unfold s. apply invb_srun. reflexivity.
Qed.

Theorem line_newline_scripted : forall D m x mx h sops,
  let s := wst (srun D (sinit D m x mx h) sops) in
  (k_state (k s) = CS_FLUSH_WAIT \/ k_state (k s) = CS_FLUSH) ->
  forall cr, k_wbuf (k s) = WB_NL cr -> cr = k_cr (k s).
Proof.
  intros D m x mx h sops s. apply invb_newline. unfold s. apply invb_srun. reflexivity.
Qed.

Theorem fresh_vs_used_scripted : forall D m x mx h sops,
  wf_desc D m -> Forall (valid_sop D) sops ->
  no_rt_hold h = true -> script_ok (res_calls_valid D) h = true ->
  let w := srun D (sinit D m x mx h) sops in
  k_state (k (wst w)) = CS_IDLE ->
  forall ops,
    tr sio smu shs (run D sio smu shs s_read s_write s_lock s_unlock s_call w ops) =
    tr sio smu shs (run D sio smu shs s_read s_write s_lock s_unlock s_call
      (set_st sio smu shs (set_k init_cfsm (set_cbuf (repeat (d_fill D) (asz_of D)) (wst w))) w) ops).
Proof.
  intros D m x mx h sops WF F A B w Hst.
  destruct (scenario_inv_scripted D m x mx h sops WF F A B) as (Hf & HS & HJ & _).
  apply (fresh_of_facts D sio smu shs s_read s_write s_lock s_unlock s_call w m Hf HS HJ); [|exact Hst].
  unfold w. apply invb_srun. reflexivity.
Qed.

(* ===================================================================== *)
(* (Final)                                                               *)
(* ===================================================================== *)
(* ================= world-level forms ================= *)
(* [osteps] on the world: the world after the calls is again a scripted always-ready world *)
Lemma osteps_world_t : forall D calls s q s2 q2 out h t, Lemmas_E2E.osteps D calls s q s2 q2 out ->
  exists t', nsvc D calls (mkw s q h t) = mkw s2 q2 h (t' ++ t) /\ calls_of t' = [] /\ output_of t' = out.
Proof.
  intros D calls s q s2 q2 out h t H. destruct (H h t) as (t' & A & B & E). exists t'. auto.
Qed.

Section World.
Variable D : desc.
Hypothesis Hmx : d_mutex D = false.

(* the re-entrant whole-line theorem on the world, any initial trace *)
Theorem line_re_world : forall l s rest h t, ready D s -> line_pre D l s ->
  exists calls s' t',
    nsvc D calls (mkw s (line_in l ++ rest) h t) = mkw s' rest h (t' ++ t) /\
    calls_of t' = [] /\ output_of t' = line_out l /\
    ready D s' /\ same_ctx s s' /\ line_post l s s'.
Proof.
  intros l s rest h t R P. destruct (line_re D Hmx l s rest R P) as (calls & s' & O & R' & X & Q).
  destruct (osteps_world_t D calls s _ s' rest _ h t O) as (t' & E & A & B).
  exists calls, s', t'. exact (conj E (conj A (conj B (conj R' (conj X Q))))).
Qed.

Theorem chain_world : forall ls s rest h t, ready D s -> chain_ok D s ls ->
  exists calls s' t',
    nsvc D calls (mkw s (concat (map line_in ls) ++ rest) h t) = mkw s' rest h (t' ++ t) /\
    calls_of t' = [] /\ output_of t' = concat (map line_out ls) /\ ready D s'.
Proof.
  intros ls s rest h t R C. destruct (chain D Hmx ls s rest R C) as (calls & s' & O & R').
  destruct (osteps_world_t D calls s _ s' rest _ h t O) as (t' & E & A & B).
  exists calls, s', t'. exact (conj E (conj A (conj B R'))).
Qed.

(* ---------- the fresh parser: cat_init again, same variables and flags ---------- *)
Lemma ready_reinit : forall s, length (cbuf s) = asz_of D -> ready D s -> ready D (reinit_state D s).
Proof.
  intros s L (R1 & R2 & R3 & R4 & _).
  unfold ready. cbn. rewrite repeat_length, <- L. repeat split; assumption.
Qed.

Lemma line_pre_reinit : forall l s, length (cbuf s) = asz_of D ->
  line_pre D l s -> line_pre D l (reinit_state D s).
Proof.
  intros l s L P. apply (line_pre_transfer D l s (reinit_state D s)); try reflexivity; [|exact P].
  cbn. rewrite repeat_length. symmetry. exact L.
Qed.

(* the literal C20 statement for two lines of the covered kinds: the output for l1 l2 is the output
   for l1 alone followed by the output l2 produces on a FRESH parser (cat_init again: reinit_state,
   same variables and disable flags as l1 left them) *)
Theorem concat2 : forall l1 l2 s rest h,
  length (cbuf s) = asz_of D -> ready D s -> line_pre D l1 s ->
  (forall s1, ready D s1 -> same_ctx s s1 -> line_post l1 s s1 -> line_pre D l2 s1) ->
  exists c c1 c2,
    let w  := nsvc D c  (mkw s (line_in l1 ++ line_in l2 ++ rest) h []) in
    let wa := nsvc D c1 (mkw s (line_in l1) h []) in
    let wb := nsvc D c2 (mkw (reinit_state D (wst wa)) (line_in l2) h []) in
    output_of (wtr w) = output_of (wtr wa) ++ output_of (wtr wb) /\
    output_of (wtr wa) = line_out l1 /\ output_of (wtr wb) = line_out l2 /\
    inq (wio w) = rest /\ inq (wio wa) = [] /\ inq (wio wb) = [] /\
    calls_of (wtr w) = [] /\ ready D (wst w) /\ ready D (wst wa) /\ ready D (wst wb).
Proof.
  intros l1 l2 s rest h L R P1 K.
  (* both lines in one input *)
  destruct (line_re_world l1 s (line_in l2 ++ rest) h [] R P1) as (c1 & s1 & t1 & E1 & A1 & B1 & R1 & X1 & Q1).
  destruct (line_re_world l2 s1 rest h (t1 ++ []) R1 (K s1 R1 X1 Q1)) as (c2 & s2 & t2 & E2 & A2 & B2 & R2 & X2 & Q2).
  (* line 1 alone *)
  pose proof (line_re_world l1 s [] h [] R P1) as Ha. rewrite app_nil_r in Ha.
  destruct Ha as (ca & sa & ta & Ea & Aa & Ba & Ra & Xa & Qa).
  (* line 2 alone on the fresh parser *)
  assert (La : length (cbuf sa) = asz_of D) by (destruct Xa as (Xl & _); rewrite Xl; exact L).
  pose proof (line_re_world l2 (reinit_state D sa) [] h [] (ready_reinit sa La Ra)
                (line_pre_reinit l2 sa La (K sa Ra Xa Qa))) as Hb. rewrite app_nil_r in Hb.
  destruct Hb as (cb & sb & tb & Eb & Ab & Bb & Rb & Xb & Qb).
  exists (c1 + c2), ca, cb. cbv zeta.
  assert (E : nsvc D (c1 + c2) (mkw s (line_in l1 ++ line_in l2 ++ rest) h []) = mkw s2 rest h (t2 ++ t1 ++ [])).
  { unfold nsvc in *. rewrite Lemmas_C02e.iter_add, E1, E2. reflexivity. }
  rewrite E, Ea. cbn [Fsm.st Fsm.io Fsm.tr mkw inq]. rewrite Eb. cbn [Fsm.st Fsm.io Fsm.tr mkw inq].
  rewrite !app_nil_r, Lemmas_E2E.output_of_app, Lemmas_E2E.calls_of_app, A1, A2, B1, B2, Ba, Bb.
  exact (conj eq_refl (conj eq_refl (conj eq_refl (conj eq_refl (conj eq_refl (conj eq_refl (conj eq_refl (conj R2 (conj Ra Rb))))))))).
Qed.

End World.

(* ================= the requested form of the newline invariant is false ================= *)
(* a state that satisfies J, is in CS_FLUSH, and whose pending newline disagrees with k_cr: J says
   nothing about k_wbuf, so the statement needs reachability (see C20_line_newline) *)
Definition nl_cex : state :=
  mkState (mkCfsm 0 0 0 0 0 None 0 T_NONE 0%N CS_FLUSH false false 0%Z (WB_NL true) WS_BEFORE CS_AFTER_RESET false)
          (init_ufsm (mkDesc [] [] 16 (Some 8) 0%N 1 false)) [] [] [] [] [] false 1 1 0.

Lemma nl_cex_J : J (ctl_of nl_cex).
Proof.
  unfold J, Jphase, settled, proc, result, nl_cex, ctl_of; cbn.
  split; [split; intros; discriminate|]. split; [intros; discriminate|]. split; [intros; discriminate|].
  split; [intros [_ X]; discriminate|]. left. repeat split; reflexivity.
Qed.

Theorem line_newline_requested_false :
  ~ (forall s, J (ctl_of s) -> (k_state (k s) = CS_FLUSH_WAIT \/ k_state (k s) = CS_FLUSH) ->
       forall cr, k_wbuf (k s) = WB_NL cr -> cr = k_cr (k s)).
Proof.
  intros H. specialize (H nl_cex nl_cex_J (or_intror eq_refl) true eq_refl). discriminate H.
Qed.

(* ================= the explicit forms ================= *)
Section Explicit.
Variable D : desc.
Hypothesis Hmx : d_mutex D = false.

Lemma re_world_explicit : forall l s rest h, ready D s -> line_pre D l s ->
  let w0 := mkw s (line_in l ++ rest) h [] in
  exists calls, let w := nsvc D calls w0 in
    w = mkw (wst w) rest h (wtr w) /\ calls_of (wtr w) = [] /\ output_of (wtr w) = line_out l /\
    ready D (wst w) /\ same_ctx s (wst w) /\ line_post l s (wst w).
Proof.
  intros l s rest h R P w0.
  destruct (line_re_world D Hmx l s rest h [] R P) as (calls & s' & t' & E & A & B & R' & X & Q).
  exists calls. cbv zeta. unfold w0. rewrite E. cbn [Fsm.st Fsm.tr mkw]. rewrite app_nil_r.
  exact (conj eq_refl (conj A (conj B (conj R' (conj X Q))))).
Qed.

(* two lines, the first of which does not store: all premises on the first state *)
Theorem concat_no_store : forall l1 l2 s rest h,
  length (cbuf s) = asz_of D -> ready D s -> no_store l1 = true ->
  line_pre D l1 s -> line_pre D l2 s ->
  exists c c1 c2,
    let w  := nsvc D c  (mkw s (line_in l1 ++ line_in l2 ++ rest) h []) in
    let wa := nsvc D c1 (mkw s (line_in l1) h []) in
    let wb := nsvc D c2 (mkw (reinit_state D (wst wa)) (line_in l2) h []) in
    output_of (wtr w) = output_of (wtr wa) ++ output_of (wtr wb) /\
    output_of (wtr wa) = line_out l1 /\ output_of (wtr wb) = line_out l2 /\
    inq (wio w) = rest /\ inq (wio wa) = [] /\ inq (wio wb) = [] /\
    calls_of (wtr w) = [] /\ ready D (wst w) /\ ready D (wst wa) /\ ready D (wst wb).
Proof.
  intros l1 l2 s rest h L R N P1 P2. apply (concat2 D Hmx l1 l2 s rest h L R P1).
  intros s1 R1 (X1 & X2 & X3 & _) Q.
  assert (Hm : mem s1 = mem s) by (destruct l1; try exact Q; discriminate N).
  exact (line_pre_transfer D l2 s s1 Hm X2 X3 X1 P2).
Qed.
End Explicit.

Lemma ready_intro : forall D s,
  0 < ncmds D -> ncmds D <= 4 * length (cbuf s) -> 6 <= length (cbuf s) -> fault s = false ->
  k_state (k s) = CS_IDLE -> k_cr (k s) = false -> k_implicit (k s) = false -> k_hold (k s) = false ->
  u_state (u s) = US_IDLE -> u_count (u s) = 0 -> ready D s.
Proof. intros. unfold ready. repeat split; assumption. Qed.

(* what a covered line leaves behind, spelled out *)
Definition re_facts (D : desc) (s : state) (rest : list N) (h : shs) (w : sworld) : Prop :=
  w = mkw (wst w) rest h (wtr w) /\
  k_state (k (wst w)) = CS_IDLE /\ k_cr (k (wst w)) = false /\ k_implicit (k (wst w)) = false /\
  k_hold (k (wst w)) = false /\ k_cmd (k (wst w)) = None /\
  u (wst w) = u s /\ u_state (u (wst w)) = US_IDLE /\ u_count (u (wst w)) = 0 /\
  length (cbuf (wst w)) = length (cbuf s) /\ dis_cmd (wst w) = dis_cmd s /\ dis_grp (wst w) = dis_grp s /\
  fault (wst w) = false /\ inq (wio w) = rest /\ whs w = h /\ calls_of (wtr w) = [] /\
  gL (wst w) = S (gL s) /\ gS (wst w) = S (gS s) /\ gR (wst w) = S (gR s).

Lemma re_facts_intro : forall D s rest h (w : sworld),
  w = mkw (wst w) rest h (wtr w) -> calls_of (wtr w) = [] -> ready D (wst w) -> same_ctx s (wst w) ->
  re_facts D s rest h w.
Proof.
  intros D s rest h w E A (R1 & R2 & R3 & R4 & R5 & R6 & R7 & R8 & R9 & R10)
         (X1 & X2 & X3 & X4 & X5 & X6 & X7 & X8).
  unfold re_facts. split; [exact E|].
  assert (Eq : inq (wio w) = rest /\ whs w = h) by (rewrite E; split; reflexivity).
  destruct Eq as (Eq1 & Eq2).
  repeat (split; [assumption|]). assumption.
Qed.

Section ExplicitLines.
Variable D : desc.

Theorem E2E_read_line_re_proof : forall s name rest h i c args,
  d_mutex D = false -> 0 < ncmds D -> ncmds D <= 4 * length (cbuf s) -> 6 <= length (cbuf s) ->
  fault s = false ->
  k_state (k s) = CS_IDLE -> k_cr (k s) = false -> k_implicit (k s) = false -> k_hold (k s) = false ->
  u_state (u s) = US_IDLE -> u_count (u s) = 0 ->
  name_ok name = true -> implicit_hit D s (upper name) = false ->
  resolve (upper name) (enabled D s) (cmds D) = Some i -> nth_error (cmds D) i = Some c ->
  Lemmas_C07e.rt_cmd_ok (mem s) c -> Lemmas_C07e.read_args_text (mem s) c = Some args ->
  length (c_name c ++ [ch_EQ] ++ args) < length (cbuf s) ->
  let w0 := mkw s ([ch_A; ch_T] ++ name ++ [ch_QM; ch_LF] ++ rest) h [] in
  exists calls, let w := nsvc D calls w0 in
    output_of (wtr w) = [ch_LF] ++ c_name c ++ [ch_EQ] ++ args ++ [ch_LF] ++ [ch_LF] ++ txt_OK ++ [ch_LF] /\
    mem (wst w) = mem s /\ re_facts D s rest h w.
Proof.
  intros s name rest h i c args Hmx Hn HL H6 Hf Hst Hcr Himp Hh Hu1 Hu2 P1 P2 P3 P4 P5 P6 P7 w0.
  pose proof (ready_intro D s Hn HL H6 Hf Hst Hcr Himp Hh Hu1 Hu2) as R.
  destruct (re_world_explicit D Hmx (LRead name i c args) s rest h R
              (conj P1 (conj P2 (conj P3 (conj P4 (conj P5 (conj P6 P7)))))))
    as (calls & E & A & B & R' & X & Q).
  cbn [line_in] in E, A, B, R', X, Q. rewrite <- !app_assoc in E, A, B, R', X, Q.
  exists calls. cbv zeta. split; [exact B|]. split; [exact Q|].
  exact (re_facts_intro D s rest h _ E A R' X).
Qed.

Theorem E2E_read_line_cr_re_proof : forall s name rest h i c args,
  d_mutex D = false -> 0 < ncmds D -> ncmds D <= 4 * length (cbuf s) -> 6 <= length (cbuf s) ->
  fault s = false ->
  k_state (k s) = CS_IDLE -> k_cr (k s) = false -> k_implicit (k s) = false -> k_hold (k s) = false ->
  u_state (u s) = US_IDLE -> u_count (u s) = 0 ->
  name_ok name = true -> implicit_hit D s (upper name) = false ->
  resolve (upper name) (enabled D s) (cmds D) = Some i -> nth_error (cmds D) i = Some c ->
  Lemmas_C07e.rt_cmd_ok (mem s) c -> Lemmas_C07e.read_args_text (mem s) c = Some args ->
  length (c_name c ++ [ch_EQ] ++ args) < length (cbuf s) ->
  let w0 := mkw s ([ch_A; ch_T] ++ name ++ [ch_QM; ch_CR; ch_LF] ++ rest) h [] in
  exists calls, let w := nsvc D calls w0 in
    output_of (wtr w) = [ch_CR; ch_LF] ++ c_name c ++ [ch_EQ] ++ args ++ [ch_CR; ch_LF] ++
                        [ch_CR; ch_LF] ++ txt_OK ++ [ch_CR; ch_LF] /\
    mem (wst w) = mem s /\ re_facts D s rest h w.
Proof.
  intros s name rest h i c args Hmx Hn HL H6 Hf Hst Hcr Himp Hh Hu1 Hu2 P1 P2 P3 P4 P5 P6 P7 w0.
  pose proof (ready_intro D s Hn HL H6 Hf Hst Hcr Himp Hh Hu1 Hu2) as R.
  destruct (re_world_explicit D Hmx (LReadCr name i c args) s rest h R
              (conj P1 (conj P2 (conj P3 (conj P4 (conj P5 (conj P6 P7)))))))
    as (calls & E & A & B & R' & X & Q).
  cbn [line_in] in E, A, B, R', X, Q. rewrite <- !app_assoc in E, A, B, R', X, Q.
  exists calls. cbv zeta. split; [exact B|]. split; [exact Q|].
  exact (re_facts_intro D s rest h _ E A R' X).
Qed.

Theorem E2E_unknown_line_re_proof : forall s name rest h,
  d_mutex D = false -> 0 < ncmds D -> ncmds D <= 4 * length (cbuf s) -> 6 <= length (cbuf s) ->
  fault s = false ->
  k_state (k s) = CS_IDLE -> k_cr (k s) = false -> k_implicit (k s) = false -> k_hold (k s) = false ->
  u_state (u s) = US_IDLE -> u_count (u s) = 0 ->
  name_ok name = true -> implicit_hit D s (upper name) = false ->
  resolve (upper name) (enabled D s) (cmds D) = None ->
  let w0 := mkw s ([ch_A; ch_T] ++ name ++ [ch_LF] ++ rest) h [] in
  exists calls, let w := nsvc D calls w0 in
    output_of (wtr w) = [ch_LF] ++ txt_ERROR ++ [ch_LF] /\
    mem (wst w) = mem s /\ re_facts D s rest h w.
Proof.
  intros s name rest h Hmx Hn HL H6 Hf Hst Hcr Himp Hh Hu1 Hu2 P1 P2 P3 w0.
  pose proof (ready_intro D s Hn HL H6 Hf Hst Hcr Himp Hh Hu1 Hu2) as R.
  destruct (re_world_explicit D Hmx (LUnknown name) s rest h R (conj P1 (conj P2 P3)))
    as (calls & E & A & B & R' & X & Q).
  cbn [line_in] in E, A, B, R', X, Q. rewrite <- !app_assoc in E, A, B, R', X, Q.
  exists calls. cbv zeta. split; [exact B|]. split; [exact Q|].
  exact (re_facts_intro D s rest h _ E A R' X).
Qed.

Theorem E2E_unknown_read_line_re_proof : forall s name rest h,
  d_mutex D = false -> 0 < ncmds D -> ncmds D <= 4 * length (cbuf s) -> 6 <= length (cbuf s) ->
  fault s = false ->
  k_state (k s) = CS_IDLE -> k_cr (k s) = false -> k_implicit (k s) = false -> k_hold (k s) = false ->
  u_state (u s) = US_IDLE -> u_count (u s) = 0 ->
  name_ok name = true -> implicit_hit D s (upper name) = false ->
  resolve (upper name) (enabled D s) (cmds D) = None ->
  let w0 := mkw s ([ch_A; ch_T] ++ name ++ [ch_QM; ch_LF] ++ rest) h [] in
  exists calls, let w := nsvc D calls w0 in
    output_of (wtr w) = [ch_LF] ++ txt_ERROR ++ [ch_LF] /\
    mem (wst w) = mem s /\ re_facts D s rest h w.
Proof.
  intros s name rest h Hmx Hn HL H6 Hf Hst Hcr Himp Hh Hu1 Hu2 P1 P2 P3 w0.
  pose proof (ready_intro D s Hn HL H6 Hf Hst Hcr Himp Hh Hu1 Hu2) as R.
  destruct (re_world_explicit D Hmx (LUnknownRead name) s rest h R (conj P1 (conj P2 P3)))
    as (calls & E & A & B & R' & X & Q).
  cbn [line_in] in E, A, B, R', X, Q. rewrite <- !app_assoc in E, A, B, R', X, Q.
  exists calls. cbv zeta. split; [exact B|]. split; [exact Q|].
  exact (re_facts_intro D s rest h _ E A R' X).
Qed.

Theorem E2E_write_line_re_proof : forall s name rest h i c m args,
  d_mutex D = false -> 0 < ncmds D -> ncmds D <= 4 * length (cbuf s) -> 6 <= length (cbuf s) ->
  fault s = false ->
  k_state (k s) = CS_IDLE -> k_cr (k s) = false -> k_implicit (k s) = false -> k_hold (k s) = false ->
  u_state (u s) = US_IDLE -> u_count (u s) = 0 ->
  name_ok name = true -> implicit_hit D s (upper name) = false ->
  resolve (upper name) (enabled D s) (cmds D) = Some i -> nth_error (cmds D) i = Some c ->
  Lemmas_C07e.rt_cmd_ok m c -> Lemmas_C07e.read_args_text m c = Some args ->
  Lemmas_C07e.same_shape m (mem s) -> ~ In ch_CR args -> length args < length (cbuf s) ->
  let w0 := mkw s ([ch_A; ch_T] ++ name ++ [ch_EQ] ++ args ++ [ch_LF] ++ rest) h [] in
  exists calls, let w := nsvc D calls w0 in
    output_of (wtr w) = [ch_LF] ++ txt_OK ++ [ch_LF] /\
    (forall v d0, In v (c_vars c) -> nth_error m (v_slot v) = Some d0 ->
       exists d1, nth_error (mem (wst w)) (v_slot v) = Some d1 /\ Lemmas_C07.same_value v d1 d0) /\
    (forall sl, ~ In sl (map v_slot (c_vars c)) -> nth_error (mem (wst w)) sl = nth_error (mem s) sl) /\
    re_facts D s rest h w.
Proof.
  intros s name rest h i c m args Hmx Hn HL H6 Hf Hst Hcr Himp Hh Hu1 Hu2 P1 P2 P3 P4 P5 P6 P7 P8 P9 w0.
  pose proof (ready_intro D s Hn HL H6 Hf Hst Hcr Himp Hh Hu1 Hu2) as R.
  destruct (re_world_explicit D Hmx (LWrite name i c m args) s rest h R
              (conj P1 (conj P2 (conj P3 (conj P4 (conj P5 (conj P6 (conj P7 (conj P8 P9)))))))))
    as (calls & E & A & B & R' & X & Q1 & Q2).
  cbn [line_in] in E, A, B, R', X, Q1, Q2. rewrite <- !app_assoc in E, A, B, R', X, Q1, Q2.
  exists calls. cbv zeta. split; [exact B|]. split; [exact Q1|]. split; [exact Q2|].
  exact (re_facts_intro D s rest h _ E A R' X).
Qed.
End ExplicitLines.

(* ===================================================================== *)
(* (Examples)                                                            *)
(* ===================================================================== *)
(* ================= a concrete instance: D0, s0, s1 of Lemmas_E2E.E2E_examples ================= *)
Module Examples.
Import Lemmas_E2E.E2E_examples.

Definition lA := LReadCr [43; 120]%N 0 c0 args0.      (* "AT+x?" CR LF *)
Definition lB := LRead [43; 120]%N 0 c0 args0.        (* "AT+x?" LF *)
Definition lU := LUnknown [43]%N.                     (* "AT+" LF : ambiguous *)
Definition lW := LWrite [43; 120]%N 0 c0 m0 args0.    (* "AT+x=" args0 LF *)

Lemma ex_ready : forall m, ready D0 (init_state D0 m).
Proof.
  intros m. unfold ready. cbn. repeat split; try reflexivity; try lia.
Qed.

Lemma ex_pre_read : line_pre D0 lB s0 /\ line_pre D0 lA s0.
Proof.
  assert (X : line_pre D0 lB s0).
  { cbn [line_pre lB]. split; [vm_compute; reflexivity|]. split; [vm_compute; reflexivity|].
    split; [vm_compute; reflexivity|]. split; [reflexivity|]. split; [exact ex_rt|].
    split; [vm_compute; reflexivity|]. apply Nat.ltb_lt. vm_compute. reflexivity. }
  split; exact X.
Qed.

Lemma ex_pre_unknown : forall m, line_pre D0 lU (init_state D0 m).
Proof. intros m. cbn [line_pre lU]. repeat split; vm_compute; reflexivity. Qed.

Lemma ex_pre_write : line_pre D0 lW s1.
Proof.
  cbn [line_pre lW]. split; [vm_compute; reflexivity|]. split; [vm_compute; reflexivity|].
  split; [vm_compute; reflexivity|]. split; [reflexivity|]. split; [exact ex_rt|].
  split; [vm_compute; reflexivity|]. split; [vm_compute; repeat split; reflexivity|].
  split; [exact ex_no_cr|]. apply Nat.ltb_lt. vm_compute. reflexivity.
Qed.

(* the chain theorem applies to a CRLF line followed by an LF line *)
Example ex_chain_apply : forall rest h,
  exists calls s' t',
    nsvc D0 calls (mkw s0 (concat (map line_in [lA; lB]) ++ rest) h []) = mkw s' rest h (t' ++ []) /\
    output_of t' = ([13; 10; 43; 88; 61] ++ args0 ++ [13; 10; 13; 10; 79; 75; 13; 10] ++
                    [10; 43; 88; 61] ++ args0 ++ [10; 10; 79; 75; 10])%N /\ ready D0 s'.
Proof.
  intros rest h.
  destruct (chain_world D0 eq_refl [lA; lB] s0 rest h [] (ex_ready m0)) as (calls & s' & t' & E & _ & O & R).
  { apply (chain_ok_no_store D0); [reflexivity|].
    constructor; [exact (proj2 ex_pre_read)|]. constructor; [exact (proj1 ex_pre_read)|]. constructor. }
  exists calls, s', t'. split; [exact E|]. split; [|exact R]. rewrite O. reflexivity.
Qed.

(* the concatenation theorem applies to an unknown line followed by a write line *)
Example ex_concat_apply : forall rest h,
  exists c c1 c2,
    let w  := nsvc D0 c  (mkw s1 (line_in lU ++ line_in lW ++ rest) h []) in
    let wa := nsvc D0 c1 (mkw s1 (line_in lU) h []) in
    let wb := nsvc D0 c2 (mkw (reinit_state D0 (wst wa)) (line_in lW) h []) in
    output_of (wtr w) = output_of (wtr wa) ++ output_of (wtr wb) /\
    output_of (wtr w) = [10; 69; 82; 82; 79; 82; 10; 10; 79; 75; 10]%N /\ inq (wio w) = rest.
Proof.
  intros rest h.
  destruct (concat2 D0 eq_refl lU lW s1 rest h eq_refl (ex_ready m1) (ex_pre_unknown m1)) as (c & ca & cb & H).
  { intros sx Rx (X1 & X2 & X3 & _) Q. cbn [line_post lU] in Q.
    exact (line_pre_transfer D0 lW s1 sx Q X2 X3 X1 ex_pre_write). }
  exists c, ca, cb. cbv zeta in *. destruct H as (H1 & H2 & H3 & H4 & _).
  split; [exact H1|]. split; [rewrite H1, H2, H3; reflexivity | exact H4].
Qed.

(* the same by computation, with the three runs of the concatenation statement spelled out:
   "AT+" LF "AT+x=" args0 LF on the memory m1;  line 1 alone;  line 2 alone after cat_init *)
Example ex_concat_run :
  let l1 := line_in lU in let l2 := line_in lW in
  let w  := nsvc D0 (21 + 43) (mkw s1 (l1 ++ l2) [] []) in
  let wa := nsvc D0 21 (mkw s1 l1 [] []) in
  let wb := nsvc D0 43 (mkw (reinit_state D0 (wst wa)) l2 [] []) in
  output_of (wtr w) = output_of (wtr wa) ++ output_of (wtr wb) /\
  output_of (wtr wa) = [10; 69; 82; 82; 79; 82; 10]%N /\ output_of (wtr wb) = [10; 79; 75; 10]%N /\
  inq (wio w) = [] /\ mem (wst w) = mem (wst wb) /\
  k_state (k (wst w)) = CS_IDLE /\ k_cmd (k (wst w)) = None /\ k_cr (k (wst w)) = false.
Proof. vm_compute. repeat split; reflexivity. Qed.

(* a CRLF line followed by an LF line: each answer in its own newline style, and the second one is
   what the fresh parser produces *)
Example ex_mixed_run :
  let l1 := line_in lA in let l2 := line_in lB in
  let w  := nsvc D0 (58 + 53) (mkw s0 (l1 ++ l2) [] []) in
  let wa := nsvc D0 58 (mkw s0 l1 [] []) in
  let wb := nsvc D0 53 (mkw (reinit_state D0 (wst wa)) l2 [] []) in
  output_of (wtr w) = output_of (wtr wa) ++ output_of (wtr wb) /\
  output_of (wtr wa) = line_out lA /\ output_of (wtr wb) = line_out lB /\
  inq (wio w) = [] /\ k_state (k (wst w)) = CS_IDLE /\ k_cr (k (wst w)) = false.
Proof. vm_compute. repeat split; reflexivity. Qed.

(* LF line first, CRLF line second *)
Example ex_mixed_run2 :
  let l1 := line_in lB in let l2 := line_in lA in
  let w  := nsvc D0 (53 + 58) (mkw s0 (l1 ++ l2) [] []) in
  output_of (wtr w) = line_out lB ++ line_out lA /\ inq (wio w) = [] /\ k_cr (k (wst w)) = false.
Proof. vm_compute. repeat split; reflexivity. Qed.
End Examples.
