(* Lemmas_C01.v — C01 from the control skeleton: per-state facts about the ghost counters
   (gL: terminated non-blank lines, gS: result codes started, gR: result codes completed). *)
From Coq Require Import List NArith ZArith Bool Arith Lia.
From CatV Require Import Bytes Defs Codec Fsm Skel SkelInv SkelSim Lemmas_Ctl.
Import ListNotations.
Local Open Scope nat_scope.

Lemma ctl_fields : forall a c, ctl_of a = c ->
  gL a = gl c /\ gS a = gs c /\ gR a = gr c /\ k_state (k a) = ck c /\ k_wafter (k a) = cwa c.
Proof. intros a c <-. cbn. auto. Qed.

Section C01.
Variable D : desc.
Variables ioS muS hS : Type.
Variable io_read : ioS -> ioS * option N.
Variable io_write : ioS -> N -> ioS * bool.
Variable mu_lock : muS -> muS * bool.
Variable mu_unlock : muS -> muS * bool.
Variable h_call : hS -> hreq -> hS * hres.
Hypothesis no_uhold : forall hs q, unsol_req q = true -> r_code (snd (h_call hs q)) <> RC_HOLD.

Notation world := (Fsm.world ioS muS hS).
Notation st := (Fsm.st ioS muS hS).
Notation cmd_service := (Fsm.cmd_service D ioS muS hS io_read io_write mu_lock mu_unlock h_call).

Ltac row w :=
  let H := fresh "H" in
  pose proof (cmd_service_sim D ioS muS hS io_read io_write mu_lock mu_unlock h_call no_uhold w) as H;
  unfold cmd_next in H.

(* a blank line (only CR / LF while idle) changes no counter and starts no result code *)
Lemma idle_step : forall w : world, k_state (k (st w)) = CS_IDLE ->
  let s := st w in let s' := st (fst (cmd_service w)) in
  gL s' = gL s /\ gS s' = gS s /\ gR s' = gR s /\
  (k_state (k s') = CS_IDLE \/ k_state (k s') = CS_PARSE_PREFIX \/ k_state (k s') = CS_ERROR).
Proof.
  intros w Hs s s'. row w. change (ck (ctl_of (st w))) with (k_state (k (st w))) in H. rewrite Hs in H.
  assert (Hk : ck (ctl_of s) = CS_IDLE) by exact Hs.
  destruct H as [[_ E] | [_ [lf E]]].
  - fold s s' in E. destruct (ctl_fields _ _ E) as (-> & -> & -> & -> & _). cbn. auto.
  - fold s s' in E. cbn zeta in E. unfold a_read in E. rewrite Hk in E. cbn in E.
    rewrite andb_false_r in E.
    destruct E as [[_ E] | [E | [_ E]]];
      destruct (ctl_fields _ _ E) as (-> & -> & -> & -> & _); cbn; auto 10.
Qed.

(* the drain state: stays there, with no counter changing, until the LF is consumed; exactly then
   one result code starts *)
Lemma error_step : forall w : world, k_state (k (st w)) = CS_ERROR ->
  let s := st w in let s' := st (fst (cmd_service w)) in
  (k_state (k s') = CS_ERROR /\ gL s' = gL s /\ gS s' = gS s /\ gR s' = gR s) \/
  (k_state (k s') = CS_FLUSH_WAIT /\ k_wafter (k s') = CS_AFTER_RESET /\
   gL s' = S (gL s) /\ gS s' = S (gS s) /\ gR s' = gR s).
Proof.
  intros w Hs s s'. row w. change (ck (ctl_of (st w))) with (k_state (k (st w))) in H. rewrite Hs in H.
  assert (Hk : ck (ctl_of s) = CS_ERROR) by exact Hs.
  destruct H as [[_ E] | [_ [lf E]]].
  - fold s s' in E. left. destruct (ctl_fields _ _ E) as (-> & -> & -> & -> & _). cbn. auto.
  - fold s s' in E. cbn zeta in E. unfold a_read, a_ack, a_start_flush in E. rewrite Hk in E. cbn in E.
    destruct E as [[-> E] | [-> [E | E]]]; cbn in E.
    + right. destruct (ctl_fields _ _ E) as (-> & -> & -> & -> & ->). cbn. auto.
    + left. destruct (ctl_fields _ _ E) as (-> & -> & -> & -> & _). cbn. auto.
    + left. destruct (ctl_fields _ _ E) as (-> & -> & -> & -> & _). cbn. auto.
Qed.

(* the lookup exits (the place of the repaired defect): from the search state the machine
   acknowledges only through NOT_FOUND when the line is complete (last char LF), and otherwise goes
   to the drain state; no counter changes in the search step itself *)
Lemma search_step : forall w : world, k_state (k (st w)) = CS_SEARCH_COMMAND ->
  let s := st w in let s' := st (fst (cmd_service w)) in
  gL s' = gL s /\ gS s' = gS s /\ gR s' = gR s /\
  (k_state (k s') = CS_SEARCH_COMMAND \/ k_state (k s') = CS_COMMAND_FOUND \/
   (k_state (k s') = CS_COMMAND_NOT_FOUND /\ k_char (k s) = ch_LF) \/
   (k_state (k s') = CS_ERROR /\ k_char (k s) <> ch_LF)).
Proof.
  intros w Hs s s'. row w. change (ck (ctl_of (st w))) with (k_state (k (st w))) in H. rewrite Hs in H.
  destruct H as [_ [E | [E | E]]]; fold s s' in E;
    destruct (ctl_fields _ _ E) as (-> & -> & -> & -> & _); cbn; repeat split; auto.
  destruct (k_char (k s) =? ch_LF)%N eqn:EL; cbn.
  - apply N.eqb_eq in EL. auto.
  - apply N.eqb_neq in EL. auto.
Qed.
End C01.
