(* Properties_C15b.v — property C15, second half: no livelock.  On the scripted always-ready
   environment (Script.v), from ANY state that satisfies the safety invariant `Safe` (Lemmas_C03b;
   every reachable state does: C03_safe_reachable) and the control invariant J (Lemmas_Ctl; every
   reachable state does: J_in_domain), repeated cat_service calls reach quiescence (status OK)
   after finitely many calls, provided the handlers' scripts never ask for HOLD any more, the
   command is not currently held, and events triggered from inside handlers name pool commands.
   Exhausted handler scripts answer a terminal code (Script.default_res), so every handler loop
   ends.  Proofs are in Lemmas_C15ba.v (pure step functions) and Lemmas_C15b.v (scripted world).

   Definitions used in the statements (TermDefs.v, SchedDefs.v):
     script_left h      total number of scripted handler results still to be consumed
     no_hold_res r      r_code r <> RC_HOLD
     res_calls_ok D r   every ITrigger ci _ in r_calls r has ci < length (pool D)
     script_ok P h      every result of every script of h satisfies P
     svc D w            one cat_service call (step ... OService); nsvc D n = n calls *)
From Coq Require Import List NArith ZArith Bool Arith.
From CatV Require Import Bytes Defs Codec Fsm Script TraceDefs Skel SkelInv ResolveDefs SchedDefs TermDefs.
From CatV Require Import Lemmas_C03 Lemmas_C15b.
Import ListNotations.

(* 1. the requested statement *)
Theorem C15_reaches_quiescence : forall D m (w : sworld),
  d_mutex D = false ->
  wf_desc D m -> Safe D m (st _ _ _ w) ->             (* safety invariant, e.g. any reachable state *)
  J (ctl_of (st _ _ _ w)) ->                          (* control invariant, e.g. any reachable state *)
  rd_sched (io _ _ _ w) = [] -> wr_sched (io _ _ _ w) = [] ->    (* io always ready *)
  script_ok no_hold_res (hs _ _ _ w) = true ->        (* no handler asks for HOLD any more ... *)
  k_state (k (st _ _ _ w)) <> CS_HOLD ->              (* ... and the command is not currently held *)
  script_ok (res_calls_ok D) (hs _ _ _ w) = true ->   (* inner triggers name pool commands *)
  exists n, snd (do_op D sio smu shs s_read s_write s_lock s_unlock s_call (nsvc D n w) OService) = ST_OK.
Proof. exact Lemmas_C15b.C15_reaches_quiescence_proof. Qed.
Print Assumptions C15_reaches_quiescence.

(* 2. the same without J: all that is used of J is that the hold flag is clear *)
Theorem C15_reaches_quiescence_unheld : forall D m (w : sworld),
  d_mutex D = false ->
  wf_desc D m -> Safe D m (st _ _ _ w) ->
  k_hold (k (st _ _ _ w)) = false -> k_state (k (st _ _ _ w)) <> CS_HOLD ->
  rd_sched (io _ _ _ w) = [] -> wr_sched (io _ _ _ w) = [] ->
  script_ok no_hold_res (hs _ _ _ w) = true ->
  script_ok (res_calls_ok D) (hs _ _ _ w) = true ->
  exists n, snd (do_op D sio smu shs s_read s_write s_lock s_unlock s_call (nsvc D n w) OService) = ST_OK.
Proof. exact Lemmas_C15b.C15_reaches_quiescence_unheld. Qed.
Print Assumptions C15_reaches_quiescence_unheld.
