(* Properties_C15b.v — property C15, second half: no livelock.  On the scripted always-ready
   environment (Script.v), from ANY state that satisfies the safety invariant `Safe` (Lemmas_C03b;
   every reachable state does: C03_safe_reachable) and the control invariant J (Lemmas_Ctl; every
   reachable state does: J_in_domain), repeated cat_service calls reach quiescence (status OK)
   after a bounded number of calls, provided the handlers' scripts never ask for HOLD any more,
   the command is not currently held, and events triggered from inside handlers name pool
   commands.  Exhausted handler scripts answer a terminal code (Script.default_res), so every
   handler loop ends.  Proofs: Lemmas_C15ba.v (the measure, the pure step functions),
   Lemmas_C15b.v (the scripted world: every call that does not answer OK strictly decreases the
   measure).

   Definitions used in the statements (TermDefs.v, SchedDefs.v):
     script_left h      total number of scripted handler results still to be consumed
     no_hold_res r      r_code r <> RC_HOLD
     res_calls_ok D r   every ITrigger ci _ in r_calls r has ci < length (pool D)
     script_ok P h      every result of every script of h satisfies P
     svc D w            one cat_service call (step ... OService); nsvc D n = n calls
     max_vars D         largest number of variables of a command of the pool
     cost_u D           = 10 * (max_vars D + 1) * (3 * usz_of D + 14)
     cost_c D           = 21 * (ncmds D + max_vars D + 1) * 7 * (3 * asz_of D + 14)
     C15_bound D w      = script_left (hs w) * ((d_cap D + 1) * cost_u D + cost_c D)
                          + length (inq (io w)) * cost_c D + u_count (u (st w)) * cost_u D
                          + cost_u D + cost_c D *)
From Coq Require Import List NArith ZArith Bool Arith Lia.
From CatV Require Import Bytes Defs Codec Fsm Script TraceDefs Skel SkelInv ResolveDefs SchedDefs TermDefs.
From CatV Require Import Lemmas_C03 Lemmas_C15b.
Import ListNotations.

(* 1. the requested statement: quiescence is reached *)
Theorem C15_reaches_quiescence : forall D m (w : sworld),
  d_mutex D = false ->
  wf_desc D m -> Safe D m (st _ _ _ w) ->             (* safety invariant, e.g. any reachable state *)
  J (ctl_of (st _ _ _ w)) ->                          (* control invariant, e.g. any reachable state *)
  rd_sched (io _ _ _ w) = [] -> wr_sched (io _ _ _ w) = [] ->    (* io always ready *)
  script_ok no_hold_res (hs _ _ _ w) = true ->        (* no handler asks for HOLD any more ... *)
  k_state (k (st _ _ _ w)) <> CS_HOLD ->              (* ... and the command is not currently held *)
  script_ok (res_calls_ok D) (hs _ _ _ w) = true ->   (* inner triggers name pool commands *)
  exists n, snd (do_op D sio smu shs s_read s_write s_lock s_unlock s_call (nsvc D n w) OService) = ST_OK.
Proof. exact Lemmas_C15b.C15_reaches_quiescence_proof. Qed.
Print Assumptions C15_reaches_quiescence.

(* 2. with the explicit bound: linear in the remaining script entries, the pending input and the
   queued events; the coefficients are sizes of the configuration.  Needs the (always true in
   reachable states, but not part of Safe) fact that the queue holds at most d_cap events. *)
Theorem C15_reaches_quiescence_bound : forall D m (w : sworld),
  d_mutex D = false ->
  wf_desc D m -> Safe D m (st _ _ _ w) ->
  J (ctl_of (st _ _ _ w)) ->
  rd_sched (io _ _ _ w) = [] -> wr_sched (io _ _ _ w) = [] ->
  script_ok no_hold_res (hs _ _ _ w) = true ->
  k_state (k (st _ _ _ w)) <> CS_HOLD ->
  script_ok (res_calls_ok D) (hs _ _ _ w) = true ->
  u_count (u (st _ _ _ w)) <= d_cap D ->
  exists n, n <= C15_bound D w /\
    snd (do_op D sio smu shs s_read s_write s_lock s_unlock s_call (nsvc D n w) OService) = ST_OK.
Proof. exact Lemmas_C15b.C15_reaches_quiescence_bound_proof. Qed.
Print Assumptions C15_reaches_quiescence_bound.

(* 3. statement 1 without J: all that is used of J is that the hold flag is clear *)
Theorem C15_reaches_quiescence_unheld : forall D m (w : sworld),
  d_mutex D = false ->
  wf_desc D m -> Safe D m (st _ _ _ w) ->
  k_hold (k (st _ _ _ w)) = false -> k_state (k (st _ _ _ w)) <> CS_HOLD ->
  rd_sched (io _ _ _ w) = [] -> wr_sched (io _ _ _ w) = [] ->
  script_ok no_hold_res (hs _ _ _ w) = true ->
  script_ok (res_calls_ok D) (hs _ _ _ w) = true ->
  exists n, snd (do_op D sio smu shs s_read s_write s_lock s_unlock s_call (nsvc D n w) OService) = ST_OK.
Proof. exact Lemmas_C15b.C15_reaches_quiescence_unheld. Qed.
Print Assumptions C15_reaches_quiescence_unheld.

(* ------------------------------------------------------------------ *)
(* non-vacuity: a scripted run                                          *)
(* ------------------------------------------------------------------ *)

Definition rets (h : list event) : list Z :=
  flat_map (fun e => match e with ERet _ r => [r] | _ => [] end) h.
Definition written (h : list event) : list N :=
  flat_map (fun e => match e with EWr _ ch true => [ch] | _ => [] end) h.

(* one command "+X" with read and run handlers, no mutex, queue capacity 2 *)
Definition exD : desc :=
  mkDesc [[mkCmd [43; 88]%N None false true true false [] false false false]] [] 16 None 0%N 2 false.
Local Notation exdo := (do_op exD sio smu shs s_read s_write s_lock s_unlock s_call).

(* input "AT+X?\n" pending, two read events of "+X" queued; the read handler answers "+X=1",
   "+X=2", "+X=3" with CAT_RETURN_STATE_DATA_OK, then its script is exhausted *)
Definition exW : sworld :=
  srun exD (sinit exD [] (mkSio [65; 84; 43; 88; 63; 10]%N [] []) (mkSmu [] [])
             [((1, 0, 0), [mkHres RC_DATA_OK (Some [43; 88; 61; 49]%N) [] [];
                           mkHres RC_DATA_OK (Some [43; 88; 61; 50]%N) [] [];
                           mkHres RC_DATA_OK (Some [43; 88; 61; 51]%N) [] []])])
       [SOp (OTrigger 0 T_READ); SOp (OTrigger 0 T_READ)].

(* 39 calls answer BUSY; they emit the two events, then the command's response and "OK";
   the 40th call answers OK *)
Example C15b_ex_run :
  script_left (hs _ _ _ exW) = 3 /\ length (inq (io _ _ _ exW)) = 6 /\ u_count (u (st _ _ _ exW)) = 2 /\
  map (fun n => snd (exdo (nsvc exD n exW) OService)) (seq 0 41) = repeat ST_BUSY 39 ++ [ST_OK; ST_OK] /\
  written (hist _ _ _ (nsvc exD 39 exW)) =
    [10; 43; 88; 61; 49; 10;  10; 43; 88; 61; 50; 10;  10; 43; 88; 61; 51; 10;  10; 79; 75; 10]%N.
Proof. vm_compute. repeat split; reflexivity. Qed.

(* the hypotheses of the theorems hold for this world, and the bound is 116280 (the run takes 39) *)
Example C15b_ex_hypotheses :
  d_mutex exD = false /\ wf_desc exD [] /\ Safe exD [] (st _ _ _ exW) /\
  k_hold (k (st _ _ _ exW)) = false /\ k_state (k (st _ _ _ exW)) <> CS_HOLD /\
  rd_sched (io _ _ _ exW) = [] /\ wr_sched (io _ _ _ exW) = [] /\
  script_ok no_hold_res (hs _ _ _ exW) = true /\ script_ok (res_calls_ok exD) (hs _ _ _ exW) = true /\
  u_count (u (st _ _ _ exW)) <= d_cap exD /\ N.of_nat (C15_bound exD exW) = 116280%N.
Proof.
  split; [reflexivity|]. split.
  { unfold wf_desc. cbn. repeat split; try lia; repeat (apply Forall_cons; [apply Forall_nil|]); apply Forall_nil. }
  split.
  { unfold Safe, Base, KS, US, ring_ok, cmd_wk. cbn. repeat split; try lia.
    repeat (apply Forall_cons; [cbn; lia|]). apply Forall_nil. }
  split; [reflexivity|]. split; [cbn; discriminate|].
  split; [reflexivity|]. split; [reflexivity|]. split; [reflexivity|]. split; [reflexivity|].
  split; [cbn; lia | vm_compute; reflexivity].
Qed.
