(* Properties_C10.v — property C10: handler return codes drive the response exactly as documented
   (cat.h:112-122, as the table RespDefs.spec_action), for ALL integer codes (also out-of-range
   ones), both machines, all four handler kinds; a failing variable callback aborts the command
   with ERROR before the command handler runs.  Proofs are in Lemmas_C10.v.  Arbitrary oracles,
   ANY world (no reachability assumption) unless a theorem says "scripted".

   Order inside one handler step (as in C): the oracle is asked once (ECall logged), its stores
   into variables are applied, its inner API calls are executed, then — for read/test handlers —
   its edit of the response buffer is applied (`se`), then the returned integer is dispatched. *)
(* Definitions used in the statements that live in Lemmas_C10.v (all plain Definitions/Fixpoints):
     calls_of t          the handler calls (request, returned integer) of a trace, newest first
     in_rt_loop rd f s   machine f is in its READ_LOOP (rd = true) / TEST_LOOP (rd = false)
     cstep w             fst (cmd_service w): one service step of the command machine
     h_returns h q rs    the handler oracle, asked q repeatedly from handler-state h, answers rs in order
     h_returns_any P h rs   the same for any requests satisfying P;  is_hread ci q: q is a read-handler
                         request of the command machine for command ci
     script_of h key     (scripted environment) the results still scripted for key
     rd_run, rq, unit_of, units_of, edit_text   explained at theorem 6 *)
From Coq Require Import List NArith ZArith Bool Arith.
From CatV Require Import Bytes Defs Codec Spec Fsm Script ResolveDefs TextDefs RespDefs Lemmas_C10.
Import ListNotations.

Section C10.
Variable D : desc.
Variables ioS muS hS : Type.
Variable io_read : ioS -> ioS * option N.
Variable io_write : ioS -> N -> ioS * bool.
Variable mu_lock : muS -> muS * bool.
Variable mu_unlock : muS -> muS * bool.
Variable h_call : hS -> hreq -> hS * hres.

Local Notation world := (Fsm.world ioS muS hS).
Local Notation st := (Fsm.st ioS muS hS).
Local Notation io := (Fsm.io ioS muS hS).
Local Notation mu := (Fsm.mu ioS muS hS).
Local Notation hs := (Fsm.hs ioS muS hS).
Local Notation tr := (Fsm.tr ioS muS hS).
Local Notation set_st := (Fsm.set_st ioS muS hS).
Local Notation upd_st := (Fsm.upd_st ioS muS hS).
Local Notation call_h := (Fsm.call_h D ioS muS hS mu_lock mu_unlock h_call).
Local Notation format_read_args := (Fsm.format_read_args D ioS muS hS mu_lock mu_unlock h_call).
Local Notation parse_write_args := (Fsm.parse_write_args D ioS muS hS mu_lock mu_unlock h_call).
Local Notation process_rt_loop := (Fsm.process_rt_loop D ioS muS hS mu_lock mu_unlock h_call).
Local Notation process_write_loop := (Fsm.process_write_loop D ioS muS hS mu_lock mu_unlock h_call).
Local Notation process_run_loop := (Fsm.process_run_loop D ioS muS hS mu_lock mu_unlock h_call).
Local Notation process_io_write := (Fsm.process_io_write ioS muS hS io_write).
Local Notation unsolicited_process_io_write := (Fsm.unsolicited_process_io_write ioS muS hS io_write).
Local Notation unsolicited_events_service :=
  (Fsm.unsolicited_events_service D ioS muS hS io_write mu_lock mu_unlock h_call).
Local Notation cmd_service :=
  (Fsm.cmd_service D ioS muS hS io_read io_write mu_lock mu_unlock h_call).
(* one service step of the command machine: fst (cmd_service w) *)
Local Notation cstep := (Lemmas_C10.cstep D ioS muS hS io_read io_write mu_lock mu_unlock h_call).
(* h_returns h q [r1..rn]: the handler oracle, asked q repeatedly from handler-state h, answers r1..rn *)
Local Notation h_returns := (Lemmas_C10.h_returns hS h_call).
Local Notation in_rt_loop := Lemmas_C10.in_rt_loop.
(* h_returns_any P h [r1..rn]: the same for whatever requests satisfying P *)
Local Notation h_returns_any := (Lemmas_C10.h_returns_any hS h_call).
(* rd_run n w: n macro-steps of the read loop of the command machine, each = one service step in
   CS_READ_LOOP (the handler call) and, when that step started the emission of a unit (FLUSH_WAIT
   with a continuation other than AFTER_RESET), the flush taken as completed (the text of the
   buffer is collected, the state becomes the continuation state) and one more service step (the
   continuation).  Returns the world and the units collected, oldest first. *)
Local Notation rd_run := (Lemmas_C10.rd_run D ioS muS hS io_read io_write mu_lock mu_unlock h_call).

(* 0. one callback = exactly one handler call, logged with its returned integer; what follows in
   the trace (inner API calls of the handler) contains no handler call *)
Theorem C10_call_once : forall (w : world) q,
  let w1 := fst (call_h w q) in let r := snd (call_h w q) in
  exists inner, tr w1 = inner ++ ECall q (r_code r) :: tr w /\
                (forall q' c', ~ In (ECall q' c') inner).
Proof. exact (Lemmas_C10.C10_call_once D ioS muS hS mu_lock mu_unlock h_call). Qed.

(* 1a. write handler, every integer code *)
Theorem C10_write_code : forall (w : world) ci,
  k_state (k (st w)) = CS_WRITE_LOOP -> k_cmd (k (st w)) = Some ci ->
  let q := HWrite ci (firstn (S (k_length (k (st w)))) (cbuf (st w)))
                  (k_length (k (st w))) (k_index (k (st w))) in
  let w1 := fst (call_h w q) in let r := snd (call_h w q) in
  exists w', process_write_loop w = (w', ST_BUSY) /\
    hs w' = hs w1 /\ io w' = io w1 /\ mu w' = mu w1 /\ tr w' = tr w1 /\
    st w' = match spec_action K_WRITE ATCMD (r_code r) with
            | A_OK => ack_ok (st w1)
            | A_AGAIN => st w1
            | A_HOLD => enable_hold_state (st w1)
            | _ => ack_error (st w1)
            end.
Proof. exact (Lemmas_C10.C10_write_code D ioS muS hS mu_lock mu_unlock h_call). Qed.

(* 1b. run handler, every integer code *)
Theorem C10_run_code : forall (w : world) ci,
  k_state (k (st w)) = CS_RUN_LOOP -> k_cmd (k (st w)) = Some ci ->
  let q := HRun ci in
  let w1 := fst (call_h w q) in let r := snd (call_h w q) in
  exists w', process_run_loop w = (w', ST_BUSY) /\
    hs w' = hs w1 /\ io w' = io w1 /\ mu w' = mu w1 /\ tr w' = tr w1 /\
    st w' = match spec_action K_RUN ATCMD (r_code r) with
            | A_OK => ack_ok (st w1)
            | A_AGAIN => st w1
            | A_HOLD => enable_hold_state (st w1)
            | A_LIST => start_print_cmd_list D (st w1)
            | _ => ack_error (st w1)
            end.
Proof. exact (Lemmas_C10.C10_run_code D ioS muS hS mu_lock mu_unlock h_call). Qed.

(* 1c. read (rd = true) and test (rd = false) handlers, both machines, every integer code.
   in_rt_loop rd f s: machine f is in its READ_LOOP / TEST_LOOP.
   `se` is the buffer as the handler left it; end_with_ok UNSOL = end_with_error UNSOL =
   unsolicited_reset_state (events have no result code). *)
Theorem C10_rt_code : forall (rd : bool) (f : fsm) (w : world) ci,
  g_cmd f (st w) = Some ci ->
  in_rt_loop rd f (st w) ->
  let q := (if rd then HRead else HTest) f ci (firstn (S (g_pos f (st w))) (g_buf f (st w)))
             (g_pos f (st w)) (length (g_buf f (st w))) in
  let w1 := fst (call_h w q) in let r := snd (call_h w q) in
  let se := apply_edit f (r_edit r) (st w1) in
  exists w', process_rt_loop rd f w = (w', ST_BUSY) /\
    hs w' = hs w1 /\ io w' = io w1 /\ mu w' = mu w1 /\ tr w' = tr w1 /\
    st w' = match spec_action (if rd then K_READ else K_TEST) f (r_code r) with
            | A_OK => end_with_ok f se
            | A_ERROR => end_with_error f se
            | A_EMIT_OK => start_flush_after f CS_AFTER_OK US_AFTER_OK se
            | A_EMIT_AGAIN =>
                if rd then start_flush_after f CS_AFTER_FMT_READ US_AFTER_FMT_READ se
                else start_flush_after f CS_AFTER_FMT_TEST US_AFTER_FMT_TEST se
            | A_REFORMAT_AGAIN =>
                if rd then start_processing_format_read_args D f se
                else start_processing_format_test_args D f se
            | A_HOLD => enable_hold_state se
            | A_RELEASE_OK => end_with_ok f (fst (hold_exit se ST_OK))
            | A_RELEASE_ERROR => end_with_error f (fst (hold_exit se ST_ERROR))
            | A_LIST => start_print_cmd_list D se
            | A_AGAIN => se
            end.
Proof. exact (Lemmas_C10.C10_rt_code D ioS muS hS mu_lock mu_unlock h_call). Qed.

(* 2a. continuations of the command machine after an emission (one service step) *)
Theorem C10_continuation_c : forall (w : world),
  (k_state (k (st w)) = CS_AFTER_OK -> cmd_service w = (upd_st ack_ok w, ST_BUSY)) /\
  (k_state (k (st w)) = CS_AFTER_FMT_READ ->
     cmd_service w = (upd_st (start_processing_format_read_args D ATCMD) w, ST_BUSY)) /\
  (k_state (k (st w)) = CS_AFTER_FMT_TEST ->
     cmd_service w = (upd_st (start_processing_format_test_args D ATCMD) w, ST_BUSY)).
Proof.
  exact (Lemmas_C10.C10_continuation_c D ioS muS hS io_read io_write mu_lock mu_unlock h_call).
Qed.

(* 2b. continuations of the event machine: finishing = unsolicited_reset_state, no result code *)
Theorem C10_continuation_u : forall (w : world),
  (u_state (u (st w)) = US_AFTER_OK ->
     unsolicited_events_service w = (upd_st unsolicited_reset_state w, ST_BUSY)) /\
  (u_state (u (st w)) = US_AFTER_RESET ->
     unsolicited_events_service w = (upd_st unsolicited_reset_state w, ST_BUSY)) /\
  (u_state (u (st w)) = US_AFTER_FMT_READ ->
     unsolicited_events_service w = (upd_st (start_processing_format_read_args D UNSOL) w, ST_BUSY)) /\
  (u_state (u (st w)) = US_AFTER_FMT_TEST ->
     unsolicited_events_service w = (upd_st (start_processing_format_test_args D UNSOL) w, ST_BUSY)).
Proof.
  exact (Lemmas_C10.C10_continuation_u D ioS muS hS io_write mu_lock mu_unlock h_call).
Qed.

(* 2c. re-formatting gives a FRESH buffer: position reset, "<name>=" at offset 0 followed by NUL,
   when it fits (B is the new buffer; the rest of the state is untouched up to the next state) *)
Theorem C10_reformat_read_fresh : forall f s ci c,
  g_cmd f s = Some ci -> cmd_at D ci = Some c -> length (c_name c) + 1 < g_bsz f s ->
  exists B, length B = g_bsz f s /\
    firstn (length (c_name c) + 1) B = c_name c ++ [ch_EQ] /\
    nth_error B (length (c_name c) + 1) = Some 0%N /\
    ((forall x, In x (c_name c) -> x <> 0%N) -> text_of B = c_name c ++ [ch_EQ]) /\
    let s2 := setg_pos f (length (c_name c) + 1) (setg_buf f B s) in
    start_processing_format_read_args D f s =
      if vars_access_possible c RO then
        match f with
        | ATCMD => s2 |> setk_state CS_FORMAT_READ_ARGS |> setk_index 0 |> setk_var 0
        | UNSOL => s2 |> setu_state US_FORMAT_READ_ARGS |> setu_index 0 |> setu_var 0
        end
      else if negb (c_hread c) then end_with_error f s2
      else set_loop_state f true s2.
Proof. exact (Lemmas_C10.C10_reformat_read_fresh D). Qed.

Theorem C10_reformat_test_fresh : forall f s ci c,
  g_cmd f s = Some ci -> cmd_at D ci = Some c -> length (c_name c) + 1 < g_bsz f s ->
  exists B, length B = g_bsz f s /\
    firstn (length (c_name c) + 1) B = c_name c ++ [ch_EQ] /\
    nth_error B (length (c_name c) + 1) = Some 0%N /\
    ((forall x, In x (c_name c) -> x <> 0%N) -> text_of B = c_name c ++ [ch_EQ]) /\
    let s2 := setg_pos f (length (c_name c) + 1) (setg_buf f B s) in
    start_processing_format_test_args D f s =
      match c_vars c with
      | _ :: _ =>
        match f with
        | ATCMD => s2 |> setk_state CS_FORMAT_TEST_ARGS |> setk_index 0 |> setk_var 0
        | UNSOL => s2 |> setu_state US_FORMAT_TEST_ARGS |> setu_index 0 |> setu_var 0
        end
      | [] => let (s3, ok3) := print_response_test D f s2 in
              if ok3 then s3 else end_with_error f s3
      end.
Proof. exact (Lemmas_C10.C10_reformat_test_fresh D). Qed.

(* 3a. starting an emission: the buffer is untouched, the flush starts at position 0 with the
   leading newline (chosen by the command machine's k_cr flag on both machines) *)
Theorem C10_start_flush_c : forall after s,
  let s' := start_flush_c after s in
  cbuf s' = cbuf s /\ ubuf s' = ubuf s /\ u s' = u s /\
  k_position (k s') = 0 /\ k_wstate (k s') = WS_BEFORE /\ k_wbuf (k s') = WB_NL (k_cr (k s)) /\
  k_wafter (k s') = after /\ k_state (k s') = CS_FLUSH_WAIT /\ k_cr (k s') = k_cr (k s).
Proof. exact Lemmas_C10.C10_start_flush_c. Qed.

Theorem C10_start_flush_u : forall after s,
  let s' := start_flush_u after s in
  cbuf s' = cbuf s /\ ubuf s' = ubuf s /\ k s' = k s /\
  u_position (u s') = 0 /\ u_wstate (u s') = WS_BEFORE /\ u_wbuf (u s') = WB_NL (k_cr (k s)) /\
  u_wafter (u s') = after /\ u_state (u s') = US_FLUSH_WAIT.
Proof. exact Lemmas_C10.C10_start_flush_u. Qed.

(* 3b. while a machine flushes, its step changes neither buffer, keeps the continuation, and
   leaves the flush states only towards the continuation state *)
Theorem C10_flush_keeps_buffer_c : forall (w : world),
  k_state (k (st w)) = CS_FLUSH_WAIT \/ k_state (k (st w)) = CS_FLUSH ->
  let w' := fst (cmd_service w) in
  cbuf (st w') = cbuf (st w) /\ ubuf (st w') = ubuf (st w) /\
  k_wafter (k (st w')) = k_wafter (k (st w)) /\
  (k_state (k (st w')) = CS_FLUSH_WAIT \/ k_state (k (st w')) = CS_FLUSH \/
   k_state (k (st w')) = k_wafter (k (st w))).
Proof.
  exact (Lemmas_C10.C10_flush_keeps_buffer_c D ioS muS hS io_read io_write mu_lock mu_unlock h_call).
Qed.

Theorem C10_flush_keeps_buffer_u : forall (w : world),
  u_state (u (st w)) = US_FLUSH_WAIT \/ u_state (u (st w)) = US_FLUSH ->
  let w' := fst (unsolicited_events_service w) in
  cbuf (st w') = cbuf (st w) /\ ubuf (st w') = ubuf (st w) /\
  u_wafter (u (st w')) = u_wafter (u (st w)) /\
  (u_state (u (st w')) = US_FLUSH_WAIT \/ u_state (u (st w')) = US_FLUSH \/
   u_state (u (st w')) = u_wafter (u (st w))).
Proof.
  exact (Lemmas_C10.C10_flush_keeps_buffer_u D ioS muS hS io_write mu_lock mu_unlock h_call).
Qed.

Theorem C10_io_write_keeps_cbuf : forall (w : world) s,
  cbuf (process_io_write_wait s) = cbuf s /\
  cbuf (st (fst (process_io_write w))) = cbuf (st w) /\
  ubuf (unsolicited_process_io_write_wait s) = ubuf s /\
  ubuf (st (fst (unsolicited_process_io_write w))) = ubuf (st w).
Proof. exact (Lemmas_C10.C10_io_write_keeps_cbuf ioS muS hS io_write). Qed.

(* 3c. a machine never touches the OTHER machine's buffer, in any state (both machines run in
   every cat_service call): so a unit being flushed by one machine cannot be altered by the other *)
Theorem C10_event_machine_keeps_cbuf : forall (w : world),
  cbuf (st (fst (unsolicited_events_service w))) = cbuf (st w).
Proof.
  exact (Lemmas_C10.C10_event_machine_keeps_cbuf D ioS muS hS io_write mu_lock mu_unlock h_call).
Qed.

Theorem C10_command_machine_keeps_ubuf : forall (w : world),
  ubuf (st (fst (cmd_service w))) = ubuf (st w).
Proof.
  exact (Lemmas_C10.C10_command_machine_keeps_ubuf D ioS muS hS io_read io_write mu_lock mu_unlock h_call).
Qed.

(* 4a. a variable's read callback returning non-zero aborts with ERROR (command) / silently
   (event); the only handler call of the step is that callback (calls_of = the ECall events) *)
Theorem C10_var_read_fails : forall f (w : world) ci c v,
  g_cmd f (st w) = Some ci -> cmd_at D ci = Some c ->
  nth_error (c_vars c) (g_var f (st w)) = Some v -> v_hread v = true ->
  let q := VRead f ci (g_var f (st w)) in
  let w1 := fst (call_h w q) in let r := snd (call_h w q) in
  r_code r <> 0%Z ->
  exists w', format_read_args f w = (w', ST_BUSY) /\
    st w' = end_with_error f (st w1) /\
    hs w' = hs w1 /\ io w' = io w1 /\ mu w' = mu w1 /\ tr w' = tr w1 /\
    calls_of (tr w') = (q, r_code r) :: calls_of (tr w).
Proof. exact (Lemmas_C10.C10_var_read_fails D ioS muS hS mu_lock mu_unlock h_call). Qed.

(* 4b. a variable's write callback returning non-zero gives ERROR; the decoded value has been
   stored before the callback runs (as in C), the callback is the only handler call of the step *)
Theorem C10_var_write_fails : forall (w : world) ci c v data comma data' wsz n,
  k_cmd (k (st w)) = Some ci -> cmd_at D ci = Some c ->
  nth_error (c_vars c) (k_var (k (st w))) = Some v ->
  nth_error (mem (st w)) (v_slot v) = Some data ->
  decode_var v (skipn (k_position (k (st w))) (cbuf (st w))) data = (SOk comma, data', wsz, n) ->
  v_hwrite v = true ->
  let s2 := st w |> setk_position (k_position (k (st w)) + n)
                 |> set_mem (upd (mem (st w)) (v_slot v) data')
                 |> setk_write_size wsz in
  let q := VWrite ci (k_var (k (st w))) wsz data' in
  let w1 := fst (call_h (set_st s2 w) q) in let r := snd (call_h (set_st s2 w) q) in
  r_code r <> 0%Z ->
  nth_error (mem s2) (v_slot v) = Some data' /\
  exists w', parse_write_args w = (w', ST_BUSY) /\
    st w' = ack_error (st w1) /\
    hs w' = hs w1 /\ io w' = io w1 /\ mu w' = mu w1 /\ tr w' = tr w1 /\
    calls_of (tr w') = (q, r_code r) :: calls_of (tr w).
Proof. exact (Lemmas_C10.C10_var_write_fails D ioS muS hS mu_lock mu_unlock h_call). Qed.

(* 5a. write handler, sequences of ANY length: if the oracle answers r1..rn, rn+1 to the (always
   identical) request q, the first n codes non-terminal and the last terminal, then the first n
   service steps keep the machine in the loop, the (n+1)-th applies the table to the last code,
   and the handler has been called exactly n+1 times with q *)
Theorem C10_write_sequence : forall rs rn (w : world) ci,
  k_state (k (st w)) = CS_WRITE_LOOP -> k_cmd (k (st w)) = Some ci ->
  let q := HWrite ci (firstn (S (k_length (k (st w)))) (cbuf (st w)))
                  (k_length (k (st w))) (k_index (k (st w))) in
  h_returns (hs w) q (rs ++ [rn]) ->
  (forall r, In r rs -> terminal (spec_action K_WRITE ATCMD (r_code r)) = false) ->
  terminal (spec_action K_WRITE ATCMD (r_code rn)) = true ->
  let n := length rs in
  (forall m, m <= n ->
     k_state (k (st (iter m cstep w))) = CS_WRITE_LOOP /\
     calls_of (tr (iter m cstep w)) =
       rev (map (fun r => (q, r_code r)) (firstn m rs)) ++ calls_of (tr w)) /\
  let wn := iter n cstep w in
  let w1 := fst (call_h wn q) in
  snd (call_h wn q) = rn /\
  st (iter (S n) cstep w) =
    match spec_action K_WRITE ATCMD (r_code rn) with
    | A_OK => ack_ok (st w1) | A_AGAIN => st w1 | A_HOLD => enable_hold_state (st w1)
    | _ => ack_error (st w1) end /\
  k_state (k (st (iter (S n) cstep w))) <> CS_WRITE_LOOP /\
  calls_of (tr (iter (S n) cstep w)) =
    rev (map (fun r => (q, r_code r)) (rs ++ [rn])) ++ calls_of (tr w).
Proof.
  exact (Lemmas_C10.C10_write_sequence D ioS muS hS io_read io_write mu_lock mu_unlock h_call).
Qed.

(* 5b. run handler, likewise *)
Theorem C10_run_sequence : forall rs rn (w : world) ci,
  k_state (k (st w)) = CS_RUN_LOOP -> k_cmd (k (st w)) = Some ci ->
  let q := HRun ci in
  h_returns (hs w) q (rs ++ [rn]) ->
  (forall r, In r rs -> terminal (spec_action K_RUN ATCMD (r_code r)) = false) ->
  terminal (spec_action K_RUN ATCMD (r_code rn)) = true ->
  let n := length rs in
  (forall m, m <= n ->
     k_state (k (st (iter m cstep w))) = CS_RUN_LOOP /\
     calls_of (tr (iter m cstep w)) =
       rev (map (fun r => (q, r_code r)) (firstn m rs)) ++ calls_of (tr w)) /\
  let wn := iter n cstep w in
  let w1 := fst (call_h wn q) in
  snd (call_h wn q) = rn /\
  st (iter (S n) cstep w) =
    match spec_action K_RUN ATCMD (r_code rn) with
    | A_OK => ack_ok (st w1) | A_AGAIN => st w1 | A_HOLD => enable_hold_state (st w1)
    | A_LIST => start_print_cmd_list D (st w1)
    | _ => ack_error (st w1) end /\
  k_state (k (st (iter (S n) cstep w))) <> CS_RUN_LOOP /\
  calls_of (tr (iter (S n) cstep w)) =
    rev (map (fun r => (q, r_code r)) (rs ++ [rn])) ++ calls_of (tr w).
Proof.
  exact (Lemmas_C10.C10_run_sequence D ioS muS hS io_read io_write mu_lock mu_unlock h_call).
Qed.

(* 6. read handler of the command machine, sequences of ANY length (stretch item), for a command
   with a read handler and no readable variable whose "<name>=" fits the buffer:
   if the oracle answers r1..rn (non-terminal: DATA_NEXT / NEXT) and then rn+1 (terminal) to read
   requests for this command, then after n macro-steps the machine is still in the read loop, the
   (n+1)-th applies the table to the last code; the handler has been called exactly n+1 times,
   from the second call on always with the freshly formatted "<name>=" text; and the units
   emitted are, in order, one per DATA_NEXT / DATA_OK: the text the handler left in the buffer
   (its edit if it made a valid one, otherwise the text it found there).
     rq ci s        = HRead ATCMD ci (firstn (S (k_position (k s))) (cbuf s)) (k_position (k s)) (length (cbuf s))
     unit_of b o r  = [edit_text b o (r_edit r)] if spec_action K_READ ATCMD (r_code r) is A_EMIT_OK or
                      A_EMIT_AGAIN, [] otherwise;  edit_text b o (Some t) = text_of t if length t < b, else o
     units_of b o h (r :: rs) = unit_of b o r ++ units_of b h h rs *)
Theorem C10_read_sequence : forall rs rn (w : world) ci c,
  k_state (k (st w)) = CS_READ_LOOP -> k_cmd (k (st w)) = Some ci -> cmd_at D ci = Some c ->
  c_hread c = true -> vars_access_possible c RO = false ->
  length (c_name c) + 1 < asz (st w) -> (forall x, In x (c_name c) -> x <> 0%N) ->
  h_returns_any (is_hread ci) (hs w) (rs ++ [rn]) ->
  (forall r, In r rs -> terminal (spec_action K_READ ATCMD (r_code r)) = false) ->
  terminal (spec_action K_READ ATCMD (r_code rn)) = true ->
  let n := length rs in
  let hdr := c_name c ++ [ch_EQ] in
  let wn := fst (rd_run n w) in
  let qn := rq ci (st wn) in
  let se := apply_edit ATCMD (r_edit rn) (st (fst (call_h wn qn))) in
  k_state (k (st wn)) = CS_READ_LOOP /\
  snd (call_h wn qn) = rn /\
  st (fst (rd_run (S n) w)) =
    match spec_action K_READ ATCMD (r_code rn) with
    | A_OK => ack_ok se
    | A_ERROR => ack_error se
    | A_EMIT_OK => ack_ok (setk_state CS_AFTER_OK (start_flush_c CS_AFTER_OK se))
    | A_HOLD => enable_hold_state se
    | A_RELEASE_OK => ack_ok (fst (hold_exit se ST_OK))
    | A_RELEASE_ERROR => ack_error (fst (hold_exit se ST_ERROR))
    | _ => se
    end /\
  calls_of (tr (fst (rd_run (S n) w))) =
    rev (combine (rq ci (st w) ::
                  repeat (HRead ATCMD ci (hdr ++ [0%N]) (length hdr) (asz (st w))) n)
                 (map r_code (rs ++ [rn]))) ++ calls_of (tr w) /\
  snd (rd_run (S n) w) = units_of (asz (st w)) (text_of (cbuf (st w))) hdr (rs ++ [rn]).
Proof.
  exact (Lemmas_C10.C10_read_sequence D ioS muS hS io_read io_write mu_lock mu_unlock h_call).
Qed.

(* shape of the two result codes *)
Theorem C10_ack_shape : forall s,
  cbuf (ack_ok s) = strncpy_buf (asz s) txt_OK /\ cbuf (ack_error s) = strncpy_buf (asz s) txt_ERROR /\
  k_state (k (ack_ok s)) = CS_FLUSH_WAIT /\ k_state (k (ack_error s)) = CS_FLUSH_WAIT /\
  k_wafter (k (ack_ok s)) = CS_AFTER_RESET /\ k_wafter (k (ack_error s)) = CS_AFTER_RESET /\
  gS (ack_ok s) = S (gS s) /\ gS (ack_error s) = S (gS s).
Proof. exact Lemmas_C10.C10_ack_shape. Qed.

End C10.

(* ---- the sequence theorems on the scripted handler environment of Script.v: "the handler returns
   c1..cn" is a statement about its script.  script_of h key = the results still to be delivered
   for key (kind, command, variable); kinds: 0 write, 1 read, 2 run. ---- *)
Section Scripted.
Variable D : desc.
Local Notation st := (Fsm.st sio smu shs).
Local Notation hs := (Fsm.hs sio smu shs).
Local Notation tr := (Fsm.tr sio smu shs).
Local Notation call_h := (Fsm.call_h D sio smu shs s_lock s_unlock s_call).
Local Notation cstep := (Lemmas_C10.cstep D sio smu shs s_read s_write s_lock s_unlock s_call).
Local Notation rd_run := (Lemmas_C10.rd_run D sio smu shs s_read s_write s_lock s_unlock s_call).

Theorem C10_write_sequence_scripted : forall rs rn rest (w : sworld) ci,
  k_state (k (st w)) = CS_WRITE_LOOP -> k_cmd (k (st w)) = Some ci ->
  script_of (hs w) (0, ci, 0) = rs ++ rn :: rest ->
  (forall r, In r rs -> terminal (spec_action K_WRITE ATCMD (r_code r)) = false) ->
  terminal (spec_action K_WRITE ATCMD (r_code rn)) = true ->
  let q := HWrite ci (firstn (S (k_length (k (st w)))) (cbuf (st w)))
                  (k_length (k (st w))) (k_index (k (st w))) in
  let n := length rs in
  (forall m, m <= n ->
     k_state (k (st (iter m cstep w))) = CS_WRITE_LOOP /\
     calls_of (tr (iter m cstep w)) =
       rev (map (fun r => (q, r_code r)) (firstn m rs)) ++ calls_of (tr w)) /\
  let wn := iter n cstep w in
  let w1 := fst (call_h wn q) in
  snd (call_h wn q) = rn /\
  st (iter (S n) cstep w) =
    match spec_action K_WRITE ATCMD (r_code rn) with
    | A_OK => ack_ok (st w1) | A_AGAIN => st w1 | A_HOLD => enable_hold_state (st w1)
    | _ => ack_error (st w1) end /\
  k_state (k (st (iter (S n) cstep w))) <> CS_WRITE_LOOP /\
  calls_of (tr (iter (S n) cstep w)) =
    rev (map (fun r => (q, r_code r)) (rs ++ [rn])) ++ calls_of (tr w).
Proof. exact (Lemmas_C10.C10_write_sequence_scripted D). Qed.

Theorem C10_run_sequence_scripted : forall rs rn rest (w : sworld) ci,
  k_state (k (st w)) = CS_RUN_LOOP -> k_cmd (k (st w)) = Some ci ->
  script_of (hs w) (2, ci, 0) = rs ++ rn :: rest ->
  (forall r, In r rs -> terminal (spec_action K_RUN ATCMD (r_code r)) = false) ->
  terminal (spec_action K_RUN ATCMD (r_code rn)) = true ->
  let q := HRun ci in
  let n := length rs in
  (forall m, m <= n ->
     k_state (k (st (iter m cstep w))) = CS_RUN_LOOP /\
     calls_of (tr (iter m cstep w)) =
       rev (map (fun r => (q, r_code r)) (firstn m rs)) ++ calls_of (tr w)) /\
  let wn := iter n cstep w in
  let w1 := fst (call_h wn q) in
  snd (call_h wn q) = rn /\
  st (iter (S n) cstep w) =
    match spec_action K_RUN ATCMD (r_code rn) with
    | A_OK => ack_ok (st w1) | A_AGAIN => st w1 | A_HOLD => enable_hold_state (st w1)
    | A_LIST => start_print_cmd_list D (st w1)
    | _ => ack_error (st w1) end /\
  k_state (k (st (iter (S n) cstep w))) <> CS_RUN_LOOP /\
  calls_of (tr (iter (S n) cstep w)) =
    rev (map (fun r => (q, r_code r)) (rs ++ [rn])) ++ calls_of (tr w).
Proof. exact (Lemmas_C10.C10_run_sequence_scripted D). Qed.

Theorem C10_read_sequence_scripted : forall rs rn rest (w : sworld) ci c,
  k_state (k (st w)) = CS_READ_LOOP -> k_cmd (k (st w)) = Some ci -> cmd_at D ci = Some c ->
  c_hread c = true -> vars_access_possible c RO = false ->
  length (c_name c) + 1 < asz (st w) -> (forall x, In x (c_name c) -> x <> 0%N) ->
  script_of (hs w) (1, ci, 0) = rs ++ rn :: rest ->
  (forall r, In r rs -> terminal (spec_action K_READ ATCMD (r_code r)) = false) ->
  terminal (spec_action K_READ ATCMD (r_code rn)) = true ->
  let n := length rs in
  let hdr := c_name c ++ [ch_EQ] in
  let wn := fst (rd_run n w) in
  let qn := rq ci (st wn) in
  let se := apply_edit ATCMD (r_edit rn) (st (fst (call_h wn qn))) in
  k_state (k (st wn)) = CS_READ_LOOP /\
  snd (call_h wn qn) = rn /\
  st (fst (rd_run (S n) w)) =
    match spec_action K_READ ATCMD (r_code rn) with
    | A_OK => ack_ok se
    | A_ERROR => ack_error se
    | A_EMIT_OK => ack_ok (setk_state CS_AFTER_OK (start_flush_c CS_AFTER_OK se))
    | A_HOLD => enable_hold_state se
    | A_RELEASE_OK => ack_ok (fst (hold_exit se ST_OK))
    | A_RELEASE_ERROR => ack_error (fst (hold_exit se ST_ERROR))
    | _ => se
    end /\
  calls_of (tr (fst (rd_run (S n) w))) =
    rev (combine (rq ci (st w) ::
                  repeat (HRead ATCMD ci (hdr ++ [0%N]) (length hdr) (asz (st w))) n)
                 (map r_code (rs ++ [rn]))) ++ calls_of (tr w) /\
  snd (rd_run (S n) w) = units_of (asz (st w)) (text_of (cbuf (st w))) hdr (rs ++ [rn]).
Proof. exact (Lemmas_C10.C10_read_sequence_scripted D). Qed.

End Scripted.


(* ---- non-vacuity: concrete scripted runs (vm_compute) ---- *)
(* "+X": read handler only; "+W": write and run handlers; "+V": read and write handlers and one
   RW variable with read and write callbacks.  Command buffer 16 bytes, always-ready io. *)
Definition exv := mkVar None VUint 1 RW true true 0.
Definition exX := mkCmd [43;88]%N None false true false false [] false false false.
Definition exW := mkCmd [43;87]%N None true false true false [] false false false.
Definition exV := mkCmd [43;86]%N None true true false false [exv] false false false.
Definition exD := mkDesc [[exX; exW; exV]] [] 16 (Some 8) 85%N 2 false.
Definition exr (code : Z) (e : option (list N)) : hres := mkHres code e [] [].
(* observation: state, continuation of a running flush, text of the command buffer *)
Definition exobs (w : sworld) : cstate * cstate * list N :=
  (k_state (k (st _ _ _ w)), k_wafter (k (st _ _ _ w)), text_of (cbuf (st _ _ _ w))).
Definition excalls (w : sworld) : list (hreq * Z) := rev (calls_of (tr _ _ _ w)).
Definition exout (w : sworld) : list N :=
  flat_map (fun e => match e with EWr ATCMD ch true => [ch] | _ => [] end) (rev (tr _ _ _ w)).
Definition exsvc (w : sworld) (n : nat) : sworld := srun exD w (repeat (SOp OService) n).
Definition exinit (input : list N) (h : shs) : sworld :=
  sinit exD [[7%N]] (mkSio input [] []) (mkSmu [] []) h.

(* "AT+X?\n", read handler returning DATA_NEXT (text "ab"), NEXT, DATA_OK (text "c") *)
Definition exR : sworld := exinit [65;84;43;88;63;10]%N
  [((1,0,0), [exr RC_DATA_NEXT (Some [97;98]%N); exr RC_NEXT None; exr RC_DATA_OK (Some [99]%N)])].
Example C10_ex_read_states :
  map (fun n => exobs (exsvc exR n)) [14; 15; 23; 24; 25; 26; 33; 34; 42; 43] =
  [ (CS_READ_LOOP, CS_IDLE, [43;88;61]%N);                 (* "+X=" formatted, 1st call next *)
    (CS_FLUSH_WAIT, CS_AFTER_FMT_READ, [97;98]%N);         (* DATA_NEXT: unit "ab" being emitted *)
    (CS_AFTER_FMT_READ, CS_AFTER_FMT_READ, [97;98]%N);     (* flush done *)
    (CS_READ_LOOP, CS_AFTER_FMT_READ, [43;88;61]%N);       (* fresh "+X=", 2nd call next *)
    (CS_READ_LOOP, CS_AFTER_FMT_READ, [43;88;61]%N);       (* NEXT: re-formatted, nothing emitted *)
    (CS_FLUSH_WAIT, CS_AFTER_OK, [99]%N);                  (* DATA_OK: unit "c" being emitted *)
    (CS_AFTER_OK, CS_AFTER_OK, [99]%N);
    (CS_FLUSH_WAIT, CS_AFTER_RESET, [79;75]%N);            (* OK *)
    (CS_AFTER_RESET, CS_AFTER_RESET, [79;75]%N);
    (CS_IDLE, CS_AFTER_RESET, [79;75]%N) ].
Proof. vm_compute. reflexivity. Qed.
Example C10_ex_read_calls_and_output :
  excalls (exsvc exR 45) =
    [ (HRead ATCMD 0 [43;88;61;0]%N 3 16, 1%Z); (HRead ATCMD 0 [43;88;61;0]%N 3 16, 2%Z);
      (HRead ATCMD 0 [43;88;61;0]%N 3 16, 0%Z) ] /\
  exout (exsvc exR 45) = [10; 97;98; 10;  10; 99; 10;  10; 79;75; 10]%N.
Proof. vm_compute. split; reflexivity. Qed.
(* the same through the macro-steps of theorem 6, from the first READ_LOOP state *)
Example C10_ex_read_macro :
  let w14 := exsvc exR 14 in
  let run := rd_run exD _ _ _ s_read s_write s_lock s_unlock s_call in
  map (fun n => exobs (fst (run n w14))) [0; 1; 2; 3] =
    [ (CS_READ_LOOP, CS_IDLE, [43;88;61]%N); (CS_READ_LOOP, CS_AFTER_FMT_READ, [43;88;61]%N);
      (CS_READ_LOOP, CS_AFTER_FMT_READ, [43;88;61]%N); (CS_FLUSH_WAIT, CS_AFTER_RESET, [79;75]%N) ] /\
  snd (run 3 w14) = [[97;98]; [99]]%N /\
  snd (run 3 w14) = units_of 16 [43;88;61]%N [43;88;61]%N
                      [exr RC_DATA_NEXT (Some [97;98]%N); exr RC_NEXT None; exr RC_DATA_OK (Some [99]%N)] /\
  script_of (hs _ _ _ w14) (1, 0, 0) =
    [exr RC_DATA_NEXT (Some [97;98]%N); exr RC_NEXT None; exr RC_DATA_OK (Some [99]%N)].
Proof. vm_compute. repeat split; reflexivity. Qed.

(* "AT+W=7\n", write handler returning NEXT, DATA_NEXT, 99 (out of range): called three times with
   identical arguments, then ERROR *)
Definition exWr : sworld := exinit [65;84;43;87;61;55;10]%N
  [((0,1,0), [exr RC_NEXT None; exr RC_DATA_NEXT None; exr 99%Z None])].
Example C10_ex_write :
  map (fun n => exobs (exsvc exWr n)) [16; 17; 18; 19] =
    [ (CS_WRITE_LOOP, CS_IDLE, [55]%N); (CS_WRITE_LOOP, CS_IDLE, [55]%N); (CS_WRITE_LOOP, CS_IDLE, [55]%N);
      (CS_FLUSH_WAIT, CS_AFTER_RESET, [69;82;82;79;82]%N) ] /\
  excalls (exsvc exWr 45) =
    [ (HWrite 1 [55;0]%N 1 0, 2%Z); (HWrite 1 [55;0]%N 1 0, 1%Z); (HWrite 1 [55;0]%N 1 0, 99%Z) ] /\
  exout (exsvc exWr 45) = [10; 69;82;82;79;82; 10]%N.
Proof. vm_compute. repeat split; reflexivity. Qed.

(* "AT+W\n", run handler returning NEXT, -5 (out of range): ERROR after the second call *)
Definition exRun : sworld := exinit [65;84;43;87;10]%N [((2,1,0), [exr RC_NEXT None; exr (-5)%Z None])].
Example C10_ex_run :
  excalls (exsvc exRun 45) = [ (HRun 1, 2%Z); (HRun 1, (-5)%Z) ] /\
  exout (exsvc exRun 45) = [10; 69;82;82;79;82; 10]%N.
Proof. vm_compute. split; reflexivity. Qed.

(* "AT+V?\n" with the variable's read callback failing (5): ERROR, the read handler never runs *)
Definition exVr : sworld := exinit [65;84;43;86;63;10]%N [((4,2,0), [exr 5%Z None])].
Example C10_ex_var_read_fails :
  excalls (exsvc exVr 45) = [ (VRead ATCMD 2 0, 5%Z) ] /\
  exout (exsvc exVr 45) = [10; 69;82;82;79;82; 10]%N.
Proof. vm_compute. split; reflexivity. Qed.

(* "AT+V=9\n" with the variable's write callback failing (1): the value 9 is stored (it was 7), the
   callback sees it, ERROR, the write handler never runs *)
Definition exVw : sworld := exinit [65;84;43;86;61;57;10]%N [((5,2,0), [exr 1%Z None])].
Example C10_ex_var_write_fails :
  excalls (exsvc exVw 45) = [ (VWrite 2 0 1 [9]%N, 1%Z) ] /\
  exout (exsvc exVw 45) = [10; 69;82;82;79;82; 10]%N /\
  mem (st _ _ _ (exsvc exVw 45)) = [[9]]%N.
Proof. vm_compute. repeat split; reflexivity. Qed.

Print Assumptions C10_call_once.
Print Assumptions C10_write_code.
Print Assumptions C10_run_code.
Print Assumptions C10_rt_code.
Print Assumptions C10_continuation_c.
Print Assumptions C10_continuation_u.
Print Assumptions C10_reformat_read_fresh.
Print Assumptions C10_reformat_test_fresh.
Print Assumptions C10_start_flush_c.
Print Assumptions C10_start_flush_u.
Print Assumptions C10_flush_keeps_buffer_c.
Print Assumptions C10_flush_keeps_buffer_u.
Print Assumptions C10_io_write_keeps_cbuf.
Print Assumptions C10_var_read_fails.
Print Assumptions C10_var_write_fails.
Print Assumptions C10_write_sequence.
Print Assumptions C10_run_sequence.
Print Assumptions C10_read_sequence.
Print Assumptions C10_ack_shape.
Print Assumptions C10_write_sequence_scripted.
Print Assumptions C10_run_sequence_scripted.
Print Assumptions C10_read_sequence_scripted.
Print Assumptions C10_event_machine_keeps_cbuf.
Print Assumptions C10_command_machine_keeps_ubuf.
