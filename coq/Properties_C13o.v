(* Properties_C13o.v -- property C13, the "processed" / observer half: which event is being
   processed, when an EPop (ghost: "the event machine took this event from the queue") is logged,
   what cat_is_unsolicited_event_buffered / cat_get_processed_command / cat_is_unsolicited_buffer_full
   report, and that nothing accepted is left when cat_service answers OK.
   Proofs are in Lemmas_C13o.v.  Complements Properties_C13.v (ring = list, accepted = popped ++ queued).

   Hypotheses of the history theorems (C13_in_progress, C13_observers_exact, C13_ok_means_all_processed):
     0 < d_cap D;   every OTrigger in the operation list is a valid trigger (pool command, READ or TEST);
     handlers only trigger valid events (the universally quantified oracle hypothesis `handlers_valid`
     of Lemmas_Domain.v).  NOT needed: wf_desc, no_uhold, absence of faults, any mutex hypothesis.
   The validity hypotheses are necessary: Example C13o_invalid_type_sticks below (an event of type
   T_RUN is popped, u_cmd is set, and the event machine stays idle for ever with u_cmd = Some _).

   Definitions used in the statements (Lemmas_C13o.v), repeated for the reader:
     start_event D ci t s1 :=                         (the tail of check_unsolicited_buffers, cat.c:1961)
       let s2 := s1 |> setu_cmd (Some ci) |> setu_type t in
       match t with T_READ => start_processing_format_read_args D UNSOL s2
                  | T_TEST => start_processing_format_test_args D UNSOL s2 | _ => s2 end
     lockb w := negb (d_mutex D) || snd (mu_lock (mu w))          (cat_service gets the lock)
     in_progress w := if u_state (u (st w)) is US_IDLE then [] else [last (popped (hist w)) (0, T_NONE)] *)
From Coq Require Import List NArith ZArith Bool Arith.
From CatV Require Import Bytes Defs Codec Fsm TraceDefs Script Lemmas_C03b Lemmas_C13 Lemmas_C13o.
Import ListNotations.
Local Open Scope nat_scope.

Section Statements.
Variable D : desc.
Variables ioS muS hS : Type.
Variable io_read : ioS -> ioS * option N.
Variable io_write : ioS -> N -> ioS * bool.
Variable mu_lock : muS -> muS * bool.
Variable mu_unlock : muS -> muS * bool.
Variable h_call : hS -> hreq -> hS * hres.

Local Notation world := (Fsm.world ioS muS hS).
Local Notation mkWorld := (Fsm.mkWorld ioS muS hS).
Local Notation st := (Fsm.st ioS muS hS).
Local Notation tr := (Fsm.tr ioS muS hS).
Local Notation io := (Fsm.io ioS muS hS).
Local Notation mu := (Fsm.mu ioS muS hS).
Local Notation hs := (Fsm.hs ioS muS hS).
Local Notation logw := (Fsm.logw ioS muS hS).
Local Notation set_mu := (Fsm.set_mu ioS muS hS).
Local Notation hist := (TraceDefs.hist ioS muS hS).
Local Notation unsolicited_events_service :=
  (Fsm.unsolicited_events_service D ioS muS hS io_write mu_lock mu_unlock h_call).
Local Notation api_trigger := (Fsm.api_trigger D ioS muS hS mu_lock mu_unlock).
Local Notation api_is_full := (Fsm.api_is_full D ioS muS hS mu_lock mu_unlock).
Local Notation do_op := (Fsm.do_op D ioS muS hS io_read io_write mu_lock mu_unlock h_call).
Local Notation step := (Fsm.step D ioS muS hS io_read io_write mu_lock mu_unlock h_call).
Local Notation run := (Fsm.run D ioS muS hS io_read io_write mu_lock mu_unlock h_call).

Definition start_event (ci : nat) (t : ctype) (s1 : state) : state :=
  let s2 := s1 |> setu_cmd (Some ci) |> setu_type t in
  match t with
  | T_READ => start_processing_format_read_args D UNSOL s2
  | T_TEST => start_processing_format_test_args D UNSOL s2
  | _ => s2
  end.
Definition lockb (w : world) : bool := negb (d_mutex D) || snd (mu_lock (mu w)).
Definition in_progress (w : world) : list (nat * ctype) :=
  if ustate_beq (u_state (u (st w))) US_IDLE then [] else [last (popped (hist w)) (0, T_NONE)].

(* ---------------- P1: a pop starts the processing of exactly that event ---------------- *)

(* idle event machine, head of the queue (ci, t): one step of the event machine pops exactly that
   entry, logs EPop ci t, records it in u_cmd / u_type and starts its processing; nothing else in the
   world changes *)
Theorem C13_pop_starts : forall (w : world) ci t rest,
  ring_wf D (st w) -> u_state (u (st w)) = US_IDLE -> ring_items D (st w) = (ci, t) :: rest ->
  exists s1, pop_unsolicited_cmd D (st w) = (s1, Some (ci, t)) /\ ring_wf D s1 /\ ring_items D s1 = rest /\
    unsolicited_events_service w =
      (mkWorld (start_event ci t s1) (io w) (mu w) (hs w) (EPop ci t :: tr w), ST_BUSY).
Proof. exact (Lemmas_C13o.pop_starts D ioS muS hS io_write mu_lock mu_unlock h_call). Qed.

(* ... and with an empty queue the idle event machine does nothing at all *)
Theorem C13_idle_empty_nothing : forall (w : world),
  ring_wf D (st w) -> u_state (u (st w)) = US_IDLE -> ring_items D (st w) = [] ->
  unsolicited_events_service w = (w, ST_OK).
Proof. exact (Lemmas_C13o.idle_empty_nothing D ioS muS hS io_write mu_lock mu_unlock h_call). Qed.

(* what the started event looks like for a valid trigger: finished at once (idle, u_cmd cleared: the
   "events whose processing fails immediately" of the property text) or in progress with u_cmd/u_type
   naming it *)
Theorem C13_start_event_post : forall ci t s1, valid_trigger D ci t ->
  let s' := start_event ci t s1 in
  ringpart s' = ringpart s1 /\
  ((u_state (u s') = US_IDLE /\ u_cmd (u s') = None) \/
   (u_state (u s') <> US_IDLE /\ u_cmd (u s') = Some ci /\ u_type (u s') = t)).
Proof.
  intros ci t s1 Hv. destruct (Lemmas_C13o.start_event_post D ci t s1 Hv) as [H1 [H2|(H2 & H3)]];
    (split; [exact H1|]); [left; exact H2 | right; split; [|exact H3]].
  intros E. unfold Lemmas_C13o.live in H2.
  change (start_event ci t s1) with (Lemmas_C13o.start_event D ci t s1) in E. rewrite E in H2. discriminate H2.
Qed.

(* an EPop is logged exactly when cat_service, holding the lock, finds the event machine idle and the
   queue non-empty, and it names the head of the queue; no other operation logs one (any world with a
   well-formed ring, any oracles) *)
Theorem C13_pop_logged_exactly : forall (w : world) o, ring_wf D (st w) ->
  popped (hist (step w o)) = popped (hist w) ++
    match o with
    | OService => if ustate_beq (u_state (u (st w))) US_IDLE && lockb w then firstn 1 (ring_items D (st w)) else []
    | _ => []
    end.
Proof. exact (Lemmas_C13o.pop_logged_exactly D ioS muS hS io_read io_write mu_lock mu_unlock h_call). Qed.

(* the event machine leaves US_IDLE ONLY by such a pop *)
Theorem C13_idle_left_only_by_pop : forall (w : world) o, ring_wf D (st w) ->
  u_state (u (st w)) = US_IDLE -> u_state (u (st (step w o))) <> US_IDLE ->
  o = OService /\ lockb w = true /\
  exists ci t rest, ring_items D (st w) = (ci, t) :: rest /\
    popped (hist (step w o)) = popped (hist w) ++ [(ci, t)] /\
    u_cmd (u (st (step w o))) = Some ci /\ u_type (u (st (step w o))) = t.
Proof. exact (Lemmas_C13o.idle_left_only_by_pop D ioS muS hS io_read io_write mu_lock mu_unlock h_call). Qed.

(* ---------------- P2: "being processed" = the last popped event, until the machine is idle again ---------------- *)
Theorem C13_in_progress : forall m x mx h ops,
  0 < d_cap D ->
  (forall h q, Forall (valid_icall D) (r_calls (snd (h_call h q)))) ->
  Forall (valid_op D) ops ->
  let w := run (mkWorld (init_state D m) x mx h []) ops in
  (u_state (u (st w)) = US_IDLE -> u_cmd (u (st w)) = None) /\
  (u_state (u (st w)) <> US_IDLE ->
     exists p ci t, popped (hist w) = p ++ [(ci, t)] /\ u_cmd (u (st w)) = Some ci /\ u_type (u (st w)) = t).
Proof. exact (Lemmas_C13o.in_progress_history D ioS muS hS io_read io_write mu_lock mu_unlock h_call). Qed.

(* the queue holds only valid triggers (used above; of independent interest) *)
Theorem C13_queue_valid : forall m x mx h ops,
  0 < d_cap D ->
  (forall h q, Forall (valid_icall D) (r_calls (snd (h_call h q)))) ->
  Forall (valid_op D) ops ->
  let w := run (mkWorld (init_state D m) x mx h []) ops in
  Forall (fun it => valid_trigger D (fst it) (snd it)) (ring_items D (st w)).
Proof.
  intros m x mx h ops Hc Hv Ho w.
  destruct (Lemmas_C13o.Inv_reachable D ioS muS hS io_read io_write mu_lock mu_unlock h_call m x mx h ops Hc Hv Ho)
    as [[_ H] _]. exact H.
Qed.

(* ---------------- P3: the observers, exactly ---------------- *)
(* cat_is_unsolicited_event_buffered ci t = BUSY iff a matching event is in progress or queued
   (ev_match: same command, and t = T_NONE (wildcard) or same type);
   cat_get_processed_command(UNSOL) = the command of the event in progress, NULL (-1) when idle *)
Theorem C13_observers_exact : forall m x mx h ops,
  0 < d_cap D ->
  (forall h q, Forall (valid_icall D) (r_calls (snd (h_call h q)))) ->
  Forall (valid_op D) ops ->
  let w := run (mkWorld (init_state D m) x mx h []) ops in
  (forall ci t, is_event_buffered D (st w) ci t = ST_BUSY <->
     exists it, In it (in_progress w ++ ring_items D (st w)) /\ ev_match ci t it = true) /\
  get_processed (st w) UNSOL = match in_progress w with [] => (-1)%Z | it :: _ => Z.of_nat (fst it) end.
Proof. exact (Lemmas_C13o.observers_exact D ioS muS hS io_read io_write mu_lock mu_unlock h_call). Qed.

(* cat_get_processed_command(ATCMD) = k_cmd, and between command lines (command machine idle) it is
   NULL: k_state = CS_IDLE -> k_cmd = None in EVERY reachable state -- no hypothesis on the
   descriptor, the operations or the oracles (k_cmd is cleared by reset_state, the only way into
   CS_IDLE; the stale value noted by the reviewer of C20 exists only in unreachable states) *)
Theorem C13_idle_cmd_none : forall m x mx h ops,
  let w := run (mkWorld (init_state D m) x mx h []) ops in
  k_state (k (st w)) = CS_IDLE -> k_cmd (k (st w)) = None.
Proof. exact (Lemmas_C13o.idle_cmd_none D ioS muS hS io_read io_write mu_lock mu_unlock h_call). Qed.

Theorem C13_get_processed_atcmd : forall m x mx h ops,
  let w := run (mkWorld (init_state D m) x mx h []) ops in
  get_processed (st w) ATCMD = match k_cmd (k (st w)) with Some ci => Z.of_nat ci | None => (-1)%Z end /\
  (k_state (k (st w)) = CS_IDLE -> get_processed (st w) ATCMD = (-1)%Z).
Proof. exact (Lemmas_C13o.get_processed_atcmd D ioS muS hS io_read io_write mu_lock mu_unlock h_call). Qed.

(* ---------------- P4: cat_is_unsolicited_buffer_full predicts the next trigger ---------------- *)
(* no mutex, ANY world (not even ring_wf is needed), any command and type *)
Theorem C13_full_predicts : forall (w : world) ci t, d_mutex D = false ->
  fst (api_is_full w) = w /\
  (snd (api_is_full w) = ST_BUFFER_FULL <-> snd (api_trigger w ci t) = ST_BUFFER_FULL) /\
  (snd (api_is_full w) = ST_OK <-> snd (api_trigger w ci t) = ST_OK).
Proof. exact (Lemmas_C13o.full_predicts D ioS muS hS mu_lock mu_unlock). Qed.

(* with or without a mutex whose operations succeed: the query, then the trigger *)
Theorem C13_full_predicts_mutex : forall (w : world) ci t,
  (forall m, snd (mu_lock m) = true) -> (forall m, snd (mu_unlock m) = true) ->
  st (fst (api_is_full w)) = st w /\
  (snd (api_is_full w) = ST_BUFFER_FULL <-> snd (api_trigger (fst (api_is_full w)) ci t) = ST_BUFFER_FULL) /\
  (snd (api_is_full w) = ST_OK <-> snd (api_trigger (fst (api_is_full w)) ci t) = ST_OK).
Proof. exact (Lemmas_C13o.full_predicts_mutex D ioS muS hS mu_lock mu_unlock). Qed.

(* the trigger with a mutex, by cases.  Lock refused: nothing but the logged ELock false changes *)
Theorem C13_trigger_lock_fails : forall (w : world) ci t, d_mutex D = true -> snd (mu_lock (mu w)) = false ->
  api_trigger w ci t = (logw (ELock false) (set_mu (fst (mu_lock (mu w))) w), ST_MUTEX_LOCK).
Proof. exact (Lemmas_C13o.trigger_lock_fails D ioS muS hS mu_lock mu_unlock). Qed.

(* Lock granted: the push is executed iff the queue is not full, WHATEVER the unlock does; the status
   is MUTEX_UNLOCK iff the unlock fails (then the push HAS happened if there was room), otherwise
   OK / BUFFER_FULL *)
Theorem C13_trigger_locked : forall (w : world) ci t,
  d_mutex D = true -> snd (mu_lock (mu w)) = true -> ring_wf D (st w) ->
  let w' := fst (api_trigger w ci t) in
  let r := snd (api_trigger w ci t) in
  let ok2 := snd (mu_unlock (fst (mu_lock (mu w)))) in
  tr w' = [EUnlock ok2; ELock true] ++ tr w /\
  (r = ST_MUTEX_UNLOCK <-> ok2 = false) /\
  ((length (ring_items D (st w)) < d_cap D /\ ring_wf D (st w') /\
    ring_items D (st w') = ring_items D (st w) ++ [(ci, t)] /\ (ok2 = true -> r = ST_OK)) \/
   (length (ring_items D (st w)) = d_cap D /\ st w' = st w /\ (ok2 = true -> r = ST_BUFFER_FULL))).
Proof. exact (Lemmas_C13o.trigger_locked D ioS muS hS mu_lock mu_unlock). Qed.

(* ---------------- P5: no loss at quiescence ---------------- *)
(* whenever cat_service answers OK in a reachable world: every pushed event (every accepted event,
   if the unlock never fails) has been taken into processing, and processing has finished: nothing
   queued, event machine idle, u_cmd cleared, both observers report "nothing" *)
Theorem C13_ok_means_all_processed : forall m x mx h ops,
  0 < d_cap D ->
  (forall h q, Forall (valid_icall D) (r_calls (snd (h_call h q)))) ->
  Forall (valid_op D) ops ->
  let w := run (mkWorld (init_state D m) x mx h []) ops in
  snd (do_op w OService) = ST_OK ->
  pushed (d_cap D) (hist w) = popped (hist w) /\
  ((d_mutex D = false \/ (forall m, snd (mu_unlock m) = true)) -> accepted (hist w) = popped (hist w)) /\
  ring_items D (st w) = [] /\
  u_state (u (st w)) = US_IDLE /\ u_cmd (u (st w)) = None /\ in_progress w = [] /\
  (forall ci t, is_event_buffered D (st w) ci t = ST_OK) /\
  get_processed (st w) UNSOL = (-1)%Z /\
  st (step w OService) = st w.
Proof. exact (Lemmas_C13o.ok_means_all_processed D ioS muS hS io_read io_write mu_lock mu_unlock h_call). Qed.

End Statements.

Print Assumptions C13_pop_starts.
Print Assumptions C13_idle_empty_nothing.
Print Assumptions C13_start_event_post.
Print Assumptions C13_pop_logged_exactly.
Print Assumptions C13_idle_left_only_by_pop.
Print Assumptions C13_in_progress.
Print Assumptions C13_queue_valid.
Print Assumptions C13_observers_exact.
Print Assumptions C13_idle_cmd_none.
Print Assumptions C13_get_processed_atcmd.
Print Assumptions C13_full_predicts.
Print Assumptions C13_full_predicts_mutex.
Print Assumptions C13_trigger_lock_fails.
Print Assumptions C13_trigger_locked.
Print Assumptions C13_ok_means_all_processed.

(* ---------------- non-vacuity: a scripted run, capacity 2, two commands ---------------- *)

Definition oX : cmd := mkCmd [43; 88]%N None false true false true [] false false false.
Definition oY : cmd := mkCmd [43; 89]%N None false true false true [] false false false.
Definition oD (mutex : bool) : desc := mkDesc [[oX; oY]] [] 32 None 0%N 2 mutex.
(* a handler oracle that satisfies the universally quantified hypothesis: it always answers with the
   default result (OK, no inner calls); io and mutex are the scripted oracles of Script.v *)
Definition k_call (h : unit) (q : hreq) : unit * hres := (h, default_res q).
Definition kworld := world sio smu unit.
Definition oRun (mutex : bool) (mx : smu) (ops : list op) : kworld :=
  run (oD mutex) sio smu unit s_read s_write s_lock s_unlock k_call
      (mkWorld sio smu unit (init_state (oD mutex) []) (mkSio [] [] []) mx tt []) ops.
Definition orets (w : kworld) : list Z :=
  flat_map (fun e => match e with ERet _ r => [r] | _ => [] end) (hist _ _ _ w).

(* the hypotheses of the history theorems hold for this instance *)
Example C13o_hyps : 0 < d_cap (oD false) /\
  (forall h q, Forall (valid_icall (oD false)) (r_calls (snd (k_call h q)))) /\
  Forall (valid_op (oD false)) [OTrigger 0 T_READ; OIsFull; OTrigger 1 T_TEST; OIsFull; OTrigger 0 T_TEST; OService].
Proof.
  split; [vm_compute; auto|]. split.
  - intros h q. destruct q; cbn; constructor.
  - assert (V : forall ci t, ci < 2 -> t = T_READ \/ t = T_TEST -> valid_op (oD false) (OTrigger ci t))
      by (intros ci t H1 H2; split; [exact H1 | exact H2]).
    repeat first [apply Forall_nil | apply Forall_cons]; try exact I; apply V; auto.
Qed.

(* three triggers (the third refused; cat_is_unsolicited_buffer_full said OK before the second and
   BUFFER_FULL before the third), then the observers:
     is_buffered(0,READ) is_buffered(0,any) is_buffered(1,READ) is_buffered(1,any) get_processed is_full *)
Definition otrig := [OTrigger 0 T_READ; OIsFull; OTrigger 1 T_TEST; OIsFull; OTrigger 0 T_TEST].
Definition oobs := [OIsBuffered 0 T_READ; OIsBuffered 0 T_NONE; OIsBuffered 1 T_READ; OIsBuffered 1 T_NONE;
                    OGetProcessed UNSOL; OIsFull].
Definition osumm (w : kworld) :=
  (orets w, u_state (u (st _ _ _ w)), in_progress sio smu unit w, ring_items (oD false) (st _ _ _ w),
   popped (hist _ _ _ w), accepted (hist _ _ _ w)).

(* before any cat_service call: both events pending, nothing in progress *)
Example C13o_ex_before :
  osumm (oRun false (mkSmu [] []) (otrig ++ oobs)) =
  ([ST_OK; ST_OK; ST_OK; ST_BUFFER_FULL; ST_BUFFER_FULL;
    ST_BUSY; ST_BUSY; ST_OK; ST_BUSY; (-1)%Z; ST_BUFFER_FULL],
   US_IDLE, [], [(0, T_READ); (1, T_TEST)], [], [(0, T_READ); (1, T_TEST)]).
Proof. vm_compute. reflexivity. Qed.

(* after one cat_service call: event (0, READ) popped and in progress (its read handler not yet
   called), (1, TEST) still pending; the queue is no longer full *)
Example C13o_ex_during :
  osumm (oRun false (mkSmu [] []) (otrig ++ [OService] ++ oobs)) =
  ([ST_OK; ST_OK; ST_OK; ST_BUFFER_FULL; ST_BUFFER_FULL; ST_BUSY;
    ST_BUSY; ST_BUSY; ST_OK; ST_BUSY; 0%Z; ST_OK],
   US_READ_LOOP, [(0, T_READ)], [(1, T_TEST)], [(0, T_READ)], [(0, T_READ); (1, T_TEST)]).
Proof. vm_compute. reflexivity. Qed.

(* after two calls: (0, READ) finished and no longer reported; (1, TEST) pending, not yet in progress *)
Example C13o_ex_between :
  osumm (oRun false (mkSmu [] []) (otrig ++ [OService; OService] ++ oobs)) =
  ([ST_OK; ST_OK; ST_OK; ST_BUFFER_FULL; ST_BUFFER_FULL; ST_BUSY; ST_BUSY;
    ST_OK; ST_OK; ST_OK; ST_BUSY; (-1)%Z; ST_OK],
   US_IDLE, [], [(1, T_TEST)], [(0, T_READ)], [(0, T_READ); (1, T_TEST)]).
Proof. vm_compute. reflexivity. Qed.

(* after three calls: (1, TEST) in progress *)
Example C13o_ex_second :
  osumm (oRun false (mkSmu [] []) (otrig ++ [OService; OService; OService] ++ oobs)) =
  ([ST_OK; ST_OK; ST_OK; ST_BUFFER_FULL; ST_BUFFER_FULL; ST_BUSY; ST_BUSY; ST_BUSY;
    ST_OK; ST_OK; ST_OK; ST_BUSY; 1%Z; ST_OK],
   US_TEST_LOOP, [(1, T_TEST)], [], [(0, T_READ); (1, T_TEST)], [(0, T_READ); (1, T_TEST)]).
Proof. vm_compute. reflexivity. Qed.

(* after four calls everything is processed; the fifth call answers OK: accepted = popped, the refused
   trigger left no trace *)
Example C13o_ex_after :
  osumm (oRun false (mkSmu [] []) (otrig ++ [OService; OService; OService; OService] ++ oobs ++ [OService])) =
  ([ST_OK; ST_OK; ST_OK; ST_BUFFER_FULL; ST_BUFFER_FULL; ST_BUSY; ST_BUSY; ST_BUSY; ST_BUSY;
    ST_OK; ST_OK; ST_OK; ST_OK; (-1)%Z; ST_OK; ST_OK],
   US_IDLE, [], [], [(0, T_READ); (1, T_TEST)], [(0, T_READ); (1, T_TEST)]).
Proof. vm_compute. reflexivity. Qed.

(* the premises of C13_pop_starts and of C13_idle_left_only_by_pop hold before the first service call *)
Example C13o_ex_pop_premises :
  let w := oRun false (mkSmu [] []) otrig in
  u_state (u (st _ _ _ w)) = US_IDLE /\ ring_items (oD false) (st _ _ _ w) = [(0, T_READ); (1, T_TEST)] /\
  u_state (u (st _ _ _ (step (oD false) sio smu unit s_read s_write s_lock s_unlock k_call w OService))) = US_READ_LOOP.
Proof. vm_compute. auto. Qed.

(* cat_get_processed_command(ATCMD) during a command line "AT+Y?" (read handler of +Y about to be
   called: command 1) and after its completion (idle: NULL) *)
Definition oRunIn (input : list N) (ops : list op) : kworld :=
  run (oD false) sio smu unit s_read s_write s_lock s_unlock k_call
      (mkWorld sio smu unit (init_state (oD false) []) (mkSio input [] []) (mkSmu [] []) tt []) ops.
Example C13o_ex_atcmd :
  let line := [65; 84; 43; 89; 63; 10]%N in
  let w1 := oRunIn line (repeat OService 13 ++ [OGetProcessed ATCMD]) in
  let w2 := oRunIn line (repeat OService 40 ++ [OGetProcessed ATCMD]) in
  (k_state (k (st _ _ _ w1)), last (orets w1) 7%Z) = (CS_READ_LOOP, 1%Z) /\
  (k_state (k (st _ _ _ w2)), last (orets w2) 7%Z) = (CS_IDLE, (-1)%Z).
Proof. vm_compute. auto. Qed.

(* mutex configured, the unlock of the first trigger fails: status MUTEX_UNLOCK, the push has happened
   (first disjunct of C13_trigger_locked with ok2 = false); lock refused: nothing happens *)
Example C13o_ex_unlock_fails :
  let w := oRun true (mkSmu [] [false]) [OTrigger 0 T_READ] in
  orets w = [ST_MUTEX_UNLOCK] /\ ring_items (oD true) (st _ _ _ w) = [(0, T_READ)].
Proof. vm_compute. auto. Qed.
Example C13o_ex_lock_fails :
  let w := oRun true (mkSmu [false] []) [OTrigger 0 T_READ] in
  orets w = [ST_MUTEX_LOCK] /\ ring_items (oD true) (st _ _ _ w) = [] /\
  tr _ _ _ w = [ERet (OTrigger 0 T_READ) ST_MUTEX_LOCK; ELock false].
Proof. vm_compute. auto. Qed.

(* the validity hypothesis is necessary: an event of type T_RUN (never produced by the public
   trigger functions of cat.h, but expressible) is popped, recorded in u_cmd, and nothing is started:
   the event machine stays idle with u_cmd = Some 0 *)
Example C13o_invalid_type_sticks :
  let w := oRun false (mkSmu [] []) [OTrigger 0 T_RUN; OService; OService; OService] in
  u_state (u (st _ _ _ w)) = US_IDLE /\ u_cmd (u (st _ _ _ w)) = Some 0 /\ popped (hist _ _ _ w) = [(0, T_RUN)].
Proof. vm_compute. auto. Qed.
