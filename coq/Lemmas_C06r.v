(* Lemmas_C06r.v — property C06 for read handlers of commands WITH readable variables: the text the
   read handler is first called with is  name=text1,...,textN  NUL (Spec.var_text of every variable,
   whatever its access), at position = its length, with the true capacity of that machine's buffer.
   Both machines (the proofs are parametric in the fsm); variable read callbacks (VRead) allowed in
   the second half.  Cursor lemmas: Lemmas_C19 / Lemmas_C07e. *)
From Coq Require Import List NArith ZArith Bool Arith Lia.
From CatV Require Import Bytes Defs Codec Spec Fsm ResolveDefs TextDefs RespDefs.
From CatV Require Import Lemmas_C07 Lemmas_C19 Lemmas_C07e Lemmas_C06 Lemmas_C10.
From CatV Require Lemmas_E2E Lemmas_E2Ec.
Import ListNotations.
Local Open Scope nat_scope.

(* ================= 0. definitions used in the statements ================= *)

(* storage of a variable, as far as READ formatting needs it: its slot exists and holds at least
   v_size bytes; a hex buffer is not empty (an empty one prints nothing, not even the NUL) *)
Definition rd_var_ok (m : list (list N)) (v : var) : Prop :=
  exists data, nth_error m (v_slot v) = Some data /\ v_size v <= length data /\
    (v_type v = VBufHex -> 0 < v_size v).

Definition no_vread (c : cmd) : Prop := Forall (fun v => v_hread v = false) (c_vars c).

Definition in_fra (f : fsm) (s : state) : bool :=
  match f with
  | ATCMD => cstate_beq (k_state (k s)) CS_FORMAT_READ_ARGS
  | UNSOL => ustate_beq (u_state (u s)) US_FORMAT_READ_ARGS
  end.

(* how a READ that does not reach the handler ends: the command machine starts the ERROR result
   code, the event machine drops the event silently *)
Definition rd_failed (f : fsm) (bsz : nat) (s : state) : Prop :=
  match f with
  | ATCMD => k_state (k s) = CS_FLUSH_WAIT /\ k_wafter (k s) = CS_AFTER_RESET /\
             (6 <= bsz -> text_of (cbuf s) = txt_ERROR)
  | UNSOL => u_state (u s) = US_IDLE /\ u_cmd (u s) = None
  end.

Section Runs.
Variable D : desc.
Variables ioS muS hS : Type.
Variable mu_lock : muS -> muS * bool.
Variable mu_unlock : muS -> muS * bool.
Variable h_call : hS -> hreq -> hS * hres.
Local Notation world := (Fsm.world ioS muS hS).
Local Notation st := (Fsm.st ioS muS hS).
Local Notation upd_st := (Fsm.upd_st ioS muS hS).

(* the service calls machine f spends in its FORMAT_READ_ARGS state (one variable per call) *)
Definition gfra_step (f : fsm) (w : world) : world :=
  fst (format_read_args D ioS muS hS mu_lock mu_unlock h_call f w).
Fixpoint gfra_run (f : fsm) (fuel : nat) (w : world) : world :=
  match fuel with
  | O => w
  | S n => if in_fra f (st w) then gfra_run f n (gfra_step f w) else w
  end.
(* from the call that runs start_processing_format_read_args (COMMAND_FOUND of a READ line,
   CS_AFTER_FMT_READ / US_AFTER_FMT_READ, the pop of a READ event after u_cmd is set) *)
Definition gread_response (f : fsm) (c : cmd) (w : world) : world :=
  gfra_run f (length (c_vars c)) (upd_st (start_processing_format_read_args D f) w).

Lemma gfra_run_c : forall fuel w,
  gfra_run ATCMD fuel w = Lemmas_C07e.fra_run D ioS muS hS mu_lock mu_unlock h_call fuel w.
Proof. induction fuel as [|n IH]; intros w; [reflexivity|]. cbn [gfra_run Lemmas_C07e.fra_run in_fra]. rewrite IH. reflexivity. Qed.

Lemma gread_response_c : forall c w,
  gread_response ATCMD c w = Lemmas_C07e.read_response D ioS muS hS mu_lock mu_unlock h_call c w.
Proof. intros c w. unfold gread_response, Lemmas_C07e.read_response. apply gfra_run_c. Qed.
End Runs.

(* ================= 1. fmt_var appends exactly var_text, or fails (storage at least v_size) ================= *)

Lemma fmt_var_cases' : forall v data txt,
  var_text v data = Some txt -> v_size v <= length data -> (v_type v = VBufHex -> 0 < v_size v) ->
  (forall c, fmt_var v data c = print_num c txt) \/
  (exists p ps, concat (p :: ps) = txt /\ forall c, fmt_var v data c = print_nums c (p :: ps)) \/
  (exists p ps, concat (p :: ps) = txt /\ forall c, fmt_var v data c = print_pieces c (p :: ps)).
Proof.
  intros v data txt Ht Hl Hhex.
  assert (Elt : (length data <? v_size v) = false) by (apply Nat.ltb_ge; lia).
  assert (Erf : read_fault (v_size v) data = false).
  { unfold read_fault. rewrite Elt. apply andb_false_r. }
  unfold var_text, fmt_num_text in Ht. unfold fmt_var.
  destruct (v_type v) eqn:Ety.
  - left. intro c. rewrite Ht, Erf. reflexivity.
  - left. intro c. rewrite Ht, Erf. reflexivity.
  - left. intro c. rewrite Ht, Erf. reflexivity.
  - right. left. injection Ht as <-. rewrite Elt.
    specialize (Hhex eq_refl). unfold fmt_bufhex_pieces.
    destruct data as [|x data]; [cbn [length] in Hl; lia|].
    destruct (v_size v) as [|n]; [lia|]. cbn [firstn map].
    eexists. eexists. split; [reflexivity|]. intro c. reflexivity.
  - right. right. injection Ht as <-. rewrite Elt.
    unfold fmt_bufstr_pieces.
    exists [ch_QUOTE].
    exists (str_body_pieces match v_access v with WO => [] | _ => firstn (v_size v) data end
            ++ [[ch_QUOTE]]).
    split; [reflexivity|]. intro c. reflexivity.
Qed.

Lemma fmt_var_ok' : forall v data txt t rest,
  var_text v data = Some txt -> v_size v <= length data -> (v_type v = VBufHex -> 0 < v_size v) ->
  length txt < length rest ->
  exists rest',
    fmt_var v data (mkCur (t ++ rest) (length t) false)
    = (mkCur ((t ++ txt) ++ 0%N :: rest') (length (t ++ txt)) false, true)
    /\ length txt + S (length rest') = length rest.
Proof.
  intros v data txt t rest Ht Hl Hhex Hfit.
  destruct (fmt_var_cases' v data txt Ht Hl Hhex) as [E|[(p & ps & <- & E)|(p & ps & <- & E)]];
    rewrite E.
  - apply pnum_ok. exact Hfit.
  - apply pnums_ok. exact Hfit.
  - apply pp_ok. exact Hfit.
Qed.

Lemma fmt_var_fail' : forall v data txt t rest,
  var_text v data = Some txt -> v_size v <= length data -> (v_type v = VBufHex -> 0 < v_size v) ->
  length rest <= length txt ->
  exists b pos,
    fmt_var v data (mkCur (t ++ rest) (length t) false) = (mkCur b pos false, false)
    /\ length b = length (t ++ rest).
Proof.
  intros v data txt t rest Ht Hl Hhex Hfit.
  destruct (fmt_var_cases' v data txt Ht Hl Hhex) as [E|[(p & ps & <- & E)|(p & ps & <- & E)]];
    rewrite E.
  - apply pnum_fail. exact Hfit.
  - apply pnums_fail. exact Hfit.
  - apply pp_fail. exact Hfit.
Qed.

(* ================= 2. the formatting loop at the level of the object state, machine f ================= *)
Section State.
Variable D : desc.
Local Notation BInv := (Lemmas_C19.BInv D).

(* what format_read_args does to the object state after the variable's callback (if any) *)
Definition fra_restG (f : fsm) (c : cmd) (s1 : state) : state :=
  let (s2, handled) := next_format_var D f s1 in
  if handled then s2
  else if c_hread c then set_loop_state f true s2
  else start_flush_after_ok f s2.

Definition fra_stateG (f : fsm) (c : cmd) (v : var) (s : state) : state :=
  match nth_error (mem s) (v_slot v) with
  | None => set_fault_flag s
  | Some data =>
    let (c1, ok) := fmt_var v data (get_cur f s) in
    let s1 := put_cur f c1 s in
    if negb ok then end_with_error f s1 else fra_restG f c s1
  end.

Lemma fra_stateG_c : forall c v s, fra_stateG ATCMD c v s = Lemmas_C07e.fra_state D c v s.
Proof. reflexivity. Qed.

Definition RInvG (f : fsm) (ci : nat) (c : cmd) (s : state) (i : nat) (t rest nl : list N)
           (bsz : nat) : Prop :=
  BInv f c s t rest nl bsz /\ g_cmd f s = Some ci /\ g_var f s = i /\ g_index f s = i /\
  in_fra f s = true.

(* the machine is in its read loop on the NUL-terminated text txt, cursor at its end *)
Definition RLoopG (f : fsm) (ci : nat) (s : state) (txt : list N) (bsz : nat) : Prop :=
  fault s = false /\ g_cmd f s = Some ci /\ (exists r, g_buf f s = txt ++ 0%N :: r) /\
  g_pos f s = length txt /\ length (g_buf f s) = bsz /\ in_rt_loop true f s.

Definition RFailG (f : fsm) (bsz : nat) (s : state) : Prop :=
  fault s = false /\ in_fra f s = false /\ ~ in_rt_loop true f s /\ rd_failed f bsz s.

Lemma put_cur_nofaultG : forall f b p s,
  put_cur f (mkCur b p false) s = setg_pos f p (setg_buf f b s).
Proof. reflexivity. Qed.

Lemma rfail_stateG : forall f s b pos, fault s = false ->
  length b = length (g_buf f s) ->
  RFailG f (length (g_buf f s)) (end_with_error f (setg_pos f pos (setg_buf f b s))).
Proof.
  intros f s b pos Hf Hb. destruct f.
  - cbn [g_buf] in *. unfold RFailG, rd_failed, end_with_error. cbn [setg_pos setg_buf].
    split; [exact Hf|]. split; [reflexivity|]. split; [cbn; discriminate|].
    split; [reflexivity|]. split; [reflexivity|]. intro H6.
    destruct (ack_error_props (setk_position pos (set_cbuf b s))) as (A1 & A2 & A3 & A4).
    { cbn. lia. }
    exact A4.
  - unfold RFailG, rd_failed, end_with_error. cbn.
    split; [exact Hf|]. split; [reflexivity|]. split; [discriminate|]. split; reflexivity.
Qed.

Lemma mem_setg : forall f p b s, mem (setg_pos f p (setg_buf f b s)) = mem s.
Proof. intros [] p b s; reflexivity. Qed.

Lemma fra_print_okG : forall f ci c s i t rest nl bsz v data txt,
  RInvG f ci c s i t rest nl bsz -> nth_error (mem s) (v_slot v) = Some data ->
  var_text v data = Some txt -> v_size v <= length data -> (v_type v = VBufHex -> 0 < v_size v) ->
  length txt < length rest ->
  exists s1 r', RInvG f ci c s1 i (t ++ txt) (0%N :: r') nl bsz /\ mem s1 = mem s /\
                length txt + S (length r') = length rest /\
                fra_stateG f c v s = fra_restG f c s1.
Proof.
  intros f ci c s i t rest nl bsz v data txt (HB & Hg & Hv & Hi & Hst) Hd Ht Hl Hhex Hfit.
  pose proof HB as (H1 & H2 & H3 & H4 & H5 & H6).
  unfold fra_stateG. rewrite Hd. unfold get_cur. rewrite H3, H4.
  destruct (fmt_var_ok' v data txt t rest Ht Hl Hhex Hfit) as [r' [E L]]. rewrite E.
  cbn [negb]. rewrite put_cur_nofaultG.
  eexists. exists r'. split; [|split; [apply mem_setg | split; [exact L|reflexivity]]].
  unfold RInvG. split; [apply (BInv_set D f c s t rest); [exact HB|]|].
  - rewrite app_length. cbn [length]. lia.
  - destruct f; cbn in *; auto.
Qed.

Lemma fra_print_failG : forall f ci c s i t rest nl bsz v data txt,
  RInvG f ci c s i t rest nl bsz -> nth_error (mem s) (v_slot v) = Some data ->
  var_text v data = Some txt -> v_size v <= length data -> (v_type v = VBufHex -> 0 < v_size v) ->
  length rest <= length txt ->
  RFailG f bsz (fra_stateG f c v s) /\ mem (fra_stateG f c v s) = mem s.
Proof.
  intros f ci c s i t rest nl bsz v data txt (HB & Hg & Hv & Hi & Hst) Hd Ht Hl Hhex Hfit.
  pose proof HB as (H1 & H2 & H3 & H4 & H5 & H6).
  unfold fra_stateG. rewrite Hd. unfold get_cur. rewrite H3, H4.
  destruct (fmt_var_fail' v data txt t rest Ht Hl Hhex Hfit) as [b [pos [E L]]]. rewrite E.
  cbn [negb]. rewrite put_cur_nofaultG.
  split.
  - replace bsz with (length (g_buf f s)) by (rewrite H3, app_length; exact H6).
    apply rfail_stateG; [exact H1|]. rewrite H3. exact L.
  - destruct f; reflexivity.
Qed.

Lemma fra_moreG : forall f ci c s i t rest nl bsz v data txt,
  RInvG f ci c s i t rest nl bsz -> nth_error (mem s) (v_slot v) = Some data ->
  var_text v data = Some txt -> v_size v <= length data -> (v_type v = VBufHex -> 0 < v_size v) ->
  length txt < length rest -> S i < length (c_vars c) ->
  exists r', RInvG f ci c (fra_stateG f c v s) (S i) (t ++ txt ++ [ch_COMMA]) r' nl bsz /\
             mem (fra_stateG f c v s) = mem s /\
             length txt + S (length r') = length rest.
Proof.
  intros f ci c s i t rest nl bsz v data txt HR Hd Ht Hl Hhex Hfit Hi.
  destruct (fra_print_okG f ci c s i t rest nl bsz v data txt HR Hd Ht Hl Hhex Hfit)
    as (s1 & r' & HR1 & Hm1 & L & E).
  rewrite E. unfold fra_restG. destruct HR1 as (HB1 & Hg1 & Hv1 & Hi1 & Hst1).
  destruct (nfv_more D f c s1 (t ++ txt) r' nl bsz HB1) as (s2 & E2 & HB2 & Hv2 & Hi2 & _).
  { rewrite Hi1. exact Hi. }
  exists r'.
  assert (Hs2 : in_fra f s2 = true /\ mem s2 = mem s1 /\ g_cmd f s2 = Some ci).
  { unfold next_format_var in E2. destruct HB1 as (_ & H2 & H3 & H4 & _). rewrite H2 in E2.
    destruct (S (g_index f s1) <? length (c_vars c)); [|discriminate].
    match type of E2 with (if ?b then _ else _) = _ => destruct b eqn:Eb end.
    - exfalso. apply Nat.leb_le in Eb. unfold g_bsz in Eb. destruct f; cbn in Eb, H3, H4;
        rewrite H3, H4, !app_length in Eb; cbn [length] in Eb; lia.
    - injection E2 as <-. destruct f; cbn in *; auto. }
  rewrite E2. destruct Hs2 as (S1 & S2 & S3).
  split; [|split; [congruence | exact L]].
  unfold RInvG. rewrite Hv2, Hi2, Hi1, app_assoc. auto.
Qed.

Lemma fra_last_loopG : forall f ci c s i t rest nl bsz v data txt,
  RInvG f ci c s i t rest nl bsz -> nth_error (mem s) (v_slot v) = Some data ->
  var_text v data = Some txt -> v_size v <= length data -> (v_type v = VBufHex -> 0 < v_size v) ->
  length txt < length rest -> length (c_vars c) <= S i -> c_hread c = true ->
  RLoopG f ci (fra_stateG f c v s) (t ++ txt) bsz /\ mem (fra_stateG f c v s) = mem s.
Proof.
  intros f ci c s i t rest nl bsz v data txt HR Hd Ht Hl Hhex Hfit Hi Hrd.
  destruct (fra_print_okG f ci c s i t rest nl bsz v data txt HR Hd Ht Hl Hhex Hfit)
    as (s1 & r' & HR1 & Hm1 & L & E).
  rewrite E. unfold fra_restG. destruct HR1 as (HB1 & Hg1 & Hv1 & Hi1 & Hst1).
  pose proof HB1 as (H1 & H2 & H3 & H4 & H5 & H6).
  rewrite (nfv_last D f c s1 H2) by (rewrite Hi1; exact Hi).
  rewrite Hrd. unfold RLoopG.
  destruct f; cbn in *; rewrite H3; (split; [|exact Hm1]); repeat split; try assumption;
    try (exists r'; reflexivity); rewrite !app_length in *; cbn [length] in *; lia.
Qed.

Lemma fra_print_noneG : forall f ci c s i t rest nl bsz v data,
  RInvG f ci c s i t rest nl bsz -> nth_error (mem s) (v_slot v) = Some data ->
  var_text v data = None ->
  RFailG f bsz (fra_stateG f c v s) /\ mem (fra_stateG f c v s) = mem s.
Proof.
  intros f ci c s i t rest nl bsz v data (HB & Hg & Hv & Hi & Hst) Hd Ht.
  pose proof HB as (H1 & H2 & H3 & H4 & H5 & H6).
  assert (E : fmt_var v data (get_cur f s) = (get_cur f s, false)).
  { unfold var_text, fmt_num_text in Ht. unfold fmt_var.
    destruct (v_type v); try discriminate Ht; rewrite Ht; reflexivity. }
  unfold fra_stateG. rewrite Hd, E. cbn [negb]. unfold get_cur. rewrite put_cur_nofaultG.
  split.
  - replace bsz with (length (g_buf f s)) by (rewrite H3, app_length; exact H6).
    apply rfail_stateG; [exact H1 | reflexivity].
  - destruct f; reflexivity.
Qed.

(* ---- the start: name= ---- *)
Lemma read_startG : forall f s ci c,
  g_cmd f s = Some ci -> nth_error (pool D) ci = Some c -> fault s = false ->
  let s' := start_processing_format_read_args D f s in
  mem s' = mem s /\
  if length (c_name c) + 1 <? length (g_buf f s) then
    exists r, length (c_name c) + 1 + S (length r) = length (g_buf f s) /\
      if vars_access_possible c RO
      then RInvG f ci c s' 0 (c_name c ++ [ch_EQ]) (0%N :: r) (nl_chars s) (length (g_buf f s))
      else if c_hread c then RLoopG f ci s' (c_name c ++ [ch_EQ]) (length (g_buf f s))
      else RFailG f (length (g_buf f s)) s'
  else RFailG f (length (g_buf f s)) s'.
Proof.
  intros f s ci c Hg Hc Hf. cbv zeta.
  pose proof (BInv_start D f s ci c Hg Hc Hf) as HB0.
  unfold start_processing_format_read_args. cbv zeta.
  assert (Hg0 : g_cmd f (setg_pos f 0 s) = Some ci) by (destruct f; exact Hg).
  assert (Hm0 : mem (setg_pos f 0 s) = mem s) by (destruct f; reflexivity).
  assert (Hl0 : length (g_buf f (setg_pos f 0 s)) = length (g_buf f s)) by (destruct f; reflexivity).
  set (s0 := setg_pos f 0 s) in *. set (nl := nl_chars s) in *.
  set (bsz := length (g_buf f s)) in *.
  pose proof HB0 as (Hf0 & H2 & H3 & H4 & _). rewrite H2.
  rewrite print_string_as_strings.
  destruct (Nat.lt_ge_cases (length (c_name c)) bsz) as [Hlt|Hge].
  2:{ destruct (ps_fail f s0 [] (g_buf f s) (c_name c) [] H3 H4) as [b [pos [E L]]].
      { cbn [concat]. rewrite app_nil_r. exact Hge. }
      rewrite E. cbn [negb].
      replace (length (c_name c) + 1 <? bsz) with false by (symmetry; apply Nat.ltb_ge; lia).
      split; [destruct f; exact Hm0|].
      rewrite <- Hl0. apply rfail_stateG; assumption. }
  destruct (ps_ok f s0 [] (g_buf f s) (c_name c) [] H3 H4) as [r1 [E1 L1]].
  { cbn [concat]. rewrite app_nil_r. exact Hlt. }
  rewrite E1. cbn [negb]. cbn [concat app] in E1, L1 |- *. rewrite app_nil_r in *.
  assert (HB1 : BInv f c (setg_pos f (length (c_name c)) (setg_buf f (c_name c ++ 0%N :: r1) s0))
                     (c_name c) (0%N :: r1) nl bsz).
  { apply (BInv_set D f c s0 [] (g_buf f s)); [exact HB0|]. cbn [length] in *. lia. }
  set (s1 := setg_pos f (length (c_name c)) (setg_buf f (c_name c ++ 0%N :: r1) s0)) in *.
  assert (Hg1 : g_cmd f s1 = Some ci) by (destruct f; exact Hg0).
  assert (Hm1 : mem s1 = mem s) by (destruct f; exact Hm0).
  pose proof HB1 as (Hf1 & H2' & H3' & H4' & _).
  rewrite print_string_as_strings.
  destruct (Nat.lt_ge_cases (length (c_name c) + 1) bsz) as [Hlt2|Hge2].
  2:{ destruct (ps_fail f s1 (c_name c) (0%N :: r1) [ch_EQ] [] H3' H4') as [b [pos [E L]]].
      { cbn [concat app length] in *. lia. }
      rewrite E. cbn [negb].
      replace (length (c_name c) + 1 <? bsz) with false by (symmetry; apply Nat.ltb_ge; lia).
      split; [destruct f; exact Hm1|].
      assert (Hlen1 : length (g_buf f s1) = bsz).
      { rewrite H3', app_length. cbn [length] in *. lia. }
      rewrite <- Hlen1. apply rfail_stateG; assumption. }
  destruct (ps_ok f s1 (c_name c) (0%N :: r1) [ch_EQ] [] H3' H4') as [r2 [E2 L2]].
  { cbn [concat app length] in *. lia. }
  rewrite E2. cbn [negb]. cbn [concat app] in E2, L2 |- *.
  assert (HB2 : BInv f c (setg_pos f (length (c_name c ++ [ch_EQ]))
                            (setg_buf f ((c_name c ++ [ch_EQ]) ++ 0%N :: r2) s1))
                     (c_name c ++ [ch_EQ]) (0%N :: r2) nl bsz).
  { apply (BInv_set D f c s1 (c_name c) (0%N :: r1)); [exact HB1|].
    rewrite app_length. cbn [length] in *. lia. }
  set (s2 := setg_pos f (length (c_name c ++ [ch_EQ]))
               (setg_buf f ((c_name c ++ [ch_EQ]) ++ 0%N :: r2) s1)) in *.
  assert (Hg2 : g_cmd f s2 = Some ci) by (destruct f; exact Hg1).
  assert (Hm2 : mem s2 = mem s) by (destruct f; exact Hm1).
  replace (length (c_name c) + 1 <? bsz) with true by (symmetry; apply Nat.ltb_lt; lia).
  pose proof HB2 as (B1 & B2 & B3 & B4 & B5 & B6).
  assert (Hlen2 : length (g_buf f s2) = bsz).
  { rewrite B3, !app_length. cbn [length] in *. rewrite app_length in B6. cbn [length] in B6. lia. }
  destruct (vars_access_possible c RO).
  - split; [destruct f; exact Hm2|]. exists r2. split; [cbn [length] in *; lia|].
    unfold RInvG. destruct f; cbn; (split; [|cbn; auto]);
      unfold Lemmas_C19.BInv; repeat split; assumption.
  - destruct (c_hread c); cbn [negb].
    + split; [destruct f; exact Hm2|]. exists r2. split; [cbn [length] in *; lia|].
      unfold RLoopG. destruct f; cbn in *; repeat split; try assumption;
        try (exists r2; first [reflexivity | rewrite B3; reflexivity]).
    + split; [destruct f; exact Hm2|]. exists r2. split; [cbn [length] in *; lia|].
      assert (Hlen1 : length (g_buf f s1) = bsz).
      { rewrite H3', app_length. cbn [length] in *. lia. }
      rewrite <- Hlen1. unfold s2. apply rfail_stateG.
      * exact Hf1.
      * rewrite H3', !app_length. cbn [length] in *. lia.
Qed.

End State.

(* ================= 3. variable read callbacks as a function of the handler oracle ================= *)
Local Notation pokes_mem := Lemmas_E2Ec.P3.pokes_mem.
Local Notation poke_mem := Lemmas_E2Ec.P3.poke_mem.

Definition ecall (p : hreq * Z) : event := ECall (fst p) (snd p).

Section Spec.
Variable hS : Type.
Variable h_call : hS -> hreq -> hS * hres.
Variable f : fsm.
Variable ci : nat.

(* the variables vs (numbered from vi) of a READ, in order: a variable with a read callback first has
   it called (handler state advanced, its stores applied; a non-zero answer stops everything), then
   its text is taken from the memory as it is at that moment.
   Result: handler state, memory, the callback calls oldest first, the texts (None: stopped). *)
Fixpoint rd_spec (vs : list var) (vi : nat) (h : hS) (m : list (list N))
  : hS * list (list N) * list (hreq * Z) * option (list (list N)) :=
  match vs with
  | [] => (h, m, [], Some [])
  | v :: r =>
    let '(h1, m1, cl1, ok) :=
      if v_hread v then
        let (h', res) := h_call h (VRead f ci vi) in
        (h', pokes_mem (r_pokes res) m, [(VRead f ci vi, r_code res)], (r_code res =? 0)%Z)
      else (h, m, [], true) in
    if ok then
      match slot_text m1 v with
      | Some t =>
        let '(h2, m2, cl2, ts) := rd_spec r (S vi) h1 m1 in
        (h2, m2, cl1 ++ cl2, match ts with Some l => Some (t :: l) | None => None end)
      | None => (h1, m1, cl1, None)
      end
    else (h1, m1, cl1, None)
  end.

Lemma rd_spec_cons : forall v r vi h m,
  rd_spec (v :: r) vi h m =
    let '(h1, m1, cl1, ok) :=
      if v_hread v then
        let (h', res) := h_call h (VRead f ci vi) in
        (h', pokes_mem (r_pokes res) m, [(VRead f ci vi, r_code res)], (r_code res =? 0)%Z)
      else (h, m, [], true) in
    if ok then
      match slot_text m1 v with
      | Some t =>
        let '(h2, m2, cl2, ts) := rd_spec r (S vi) h1 m1 in
        (h2, m2, cl1 ++ cl2, match ts with Some l => Some (t :: l) | None => None end)
      | None => (h1, m1, cl1, None)
      end
    else (h1, m1, cl1, None).
Proof. reflexivity. Qed.

(* the requests of the callbacks: one per variable that has one, in order *)
Fixpoint vread_reqs (vs : list var) (vi : nat) : list hreq :=
  match vs with
  | [] => []
  | v :: r => (if v_hread v then [VRead f ci vi] else []) ++ vread_reqs r (S vi)
  end.

Lemma rd_spec_reqs : forall vs vi h m h' m' cl txts,
  rd_spec vs vi h m = (h', m', cl, Some txts) ->
  map fst cl = vread_reqs vs vi /\ Forall (fun p => snd p = 0%Z) cl /\ length txts = length vs.
Proof.
  induction vs as [|v vs IH]; intros vi h m h' m' cl txts H; cbn [rd_spec vread_reqs] in *.
  - injection H as <- <- <- <-. repeat split. constructor.
  - destruct (v_hread v).
    + destruct (h_call h (VRead f ci vi)) as [h1 res].
      destruct (r_code res =? 0)%Z eqn:Ec; [|discriminate].
      destruct (slot_text (pokes_mem (r_pokes res) m) v) as [t|]; [|discriminate].
      destruct (rd_spec vs (S vi) h1 (pokes_mem (r_pokes res) m)) as [[[h2 m2] cl2] [ts|]] eqn:E; [|discriminate].
      injection H as <- <- <- <-. destruct (IH _ _ _ _ _ _ _ E) as (A & B & C).
      cbn [app map fst length]. rewrite A, C. repeat split.
      constructor; [apply Z.eqb_eq in Ec; exact Ec | exact B].
    + destruct (slot_text m v) as [t|]; [|discriminate].
      destruct (rd_spec vs (S vi) h m) as [[[h2 m2] cl2] [ts|]] eqn:E; [|discriminate].
      injection H as <- <- <- <-. destruct (IH _ _ _ _ _ _ _ E) as (A & B & C).
      cbn [app length]. rewrite C. repeat split; assumption.
Qed.

(* without callbacks nothing is called and nothing moves *)
Lemma rd_spec_plain : forall vs vi h m, Forall (fun v => v_hread v = false) vs ->
  rd_spec vs vi h m = (h, m, [], all_some (map (slot_text m) vs)).
Proof.
  induction vs as [|v vs IH]; intros vi h m H; cbn [rd_spec map all_some]; [reflexivity|].
  inversion H as [|? ? Hv Hvs]; subst. rewrite Hv.
  destruct (slot_text m v) as [t|]; [|reflexivity].
  rewrite (IH (S vi) h m Hvs). reflexivity.
Qed.
End Spec.

(* ---- stores keep the shape of the memory ---- *)
Lemma poke_mem_shape : forall m p, same_shape m (poke_mem m p).
Proof.
  intros m p. unfold same_shape, Lemmas_E2Ec.P3.poke_mem.
  destruct (nth_error m (fst p)) as [data|] eqn:E; [|reflexivity].
  unfold store_prefix. destruct (length data <? length (snd p)) eqn:El; [reflexivity|].
  apply Nat.ltb_ge in El. symmetry. apply (Lemmas_C07e.map_length_upd m (fst p) _ data E).
  rewrite app_length, skipn_length. lia.
Qed.

Lemma pokes_mem_shape : forall ps m, same_shape m (pokes_mem ps m).
Proof.
  induction ps as [|p ps IH]; intros m; [reflexivity|].
  unfold Lemmas_E2Ec.P3.pokes_mem. cbn [fold_left].
  unfold same_shape in *. rewrite (poke_mem_shape m p). apply IH.
Qed.

Lemma rd_var_ok_shape : forall m m' v, same_shape m m' -> rd_var_ok m v -> rd_var_ok m' v.
Proof.
  intros m m' v Hs (data & Hd & Hl & Hh).
  destruct (Lemmas_C07e.same_shape_nth m m' (v_slot v) data Hs Hd) as (d' & Hd' & L').
  exists d'. split; [exact Hd'|]. split; [lia | exact Hh].
Qed.

Lemma rd_vars_ok_shape : forall m m' vs, same_shape m m' ->
  Forall (rd_var_ok m) vs -> Forall (rd_var_ok m') vs.
Proof. intros m m' vs Hs H. eapply Forall_impl; [|exact H]. intros v. apply rd_var_ok_shape. exact Hs. Qed.

Lemma all_some_map_cons : forall (A B : Type) (g : A -> option B) v vs,
  all_some (map g (v :: vs)) =
  match g v with
  | Some x => match all_some (map g vs) with Some xs => Some (x :: xs) | None => None end
  | None => None
  end.
Proof. reflexivity. Qed.

Lemma var_factsG : forall m v txt, rd_var_ok m v -> slot_text m v = Some txt ->
  exists data, nth_error m (v_slot v) = Some data /\ var_text v data = Some txt /\
               v_size v <= length data /\ (v_type v = VBufHex -> 0 < v_size v).
Proof.
  intros m v txt (data & Hd & Hl & Hh) Ht.
  unfold Lemmas_C07e.slot_text in Ht. rewrite Hd in Ht. exists data. auto.
Qed.

(* ================= 4. the loop on worlds with arbitrary oracles ================= *)
Section Worlds.
Variable D : desc.
Variables ioS muS hS : Type.
Variable mu_lock : muS -> muS * bool.
Variable mu_unlock : muS -> muS * bool.
Variable h_call : hS -> hreq -> hS * hres.
Local Notation world := (Fsm.world ioS muS hS).
Local Notation st := (Fsm.st ioS muS hS).
Local Notation tr := (Fsm.tr ioS muS hS).
Local Notation hs := (Fsm.hs ioS muS hS).
Local Notation io := (Fsm.io ioS muS hS).
Local Notation mu := (Fsm.mu ioS muS hS).
Local Notation set_st := (Fsm.set_st ioS muS hS).
Local Notation upd_st := (Fsm.upd_st ioS muS hS).
Local Notation mkW := (Fsm.mkWorld ioS muS hS).
Local Notation gfra_step := (gfra_step D ioS muS hS mu_lock mu_unlock h_call).
Local Notation gfra_run := (gfra_run D ioS muS hS mu_lock mu_unlock h_call).
Local Notation gread_response := (gread_response D ioS muS hS mu_lock mu_unlock h_call).
Local Notation process_rt_loop := (Fsm.process_rt_loop D ioS muS hS mu_lock mu_unlock h_call).
Local Notation rd_spec := (rd_spec hS h_call).

Lemma gfra_step_plain : forall f (w : world) c v,
  cmd_of D f (st w) = Some c -> nth_error (c_vars c) (g_var f (st w)) = Some v ->
  v_hread v = false ->
  gfra_step f w = set_st (fra_stateG D f c v (st w)) w.
Proof.
  intros f w c v Hc Hn Hr. unfold Lemmas_C06r.gfra_step, format_read_args.
  unfold cmd_of in Hc |- *. destruct (g_cmd f (st w)) as [ci|] eqn:Eg; [|discriminate].
  rewrite Hc, Hn, Hr. reflexivity.
Qed.

Lemma gfra_step_cb : forall f (w : world) ci c v h' r,
  g_cmd f (st w) = Some ci -> cmd_of D f (st w) = Some c ->
  nth_error (c_vars c) (g_var f (st w)) = Some v -> v_hread v = true ->
  h_call (hs w) (VRead f ci (g_var f (st w))) = (h', r) -> r_calls r = [] ->
  (r_code r =? 0)%Z = true ->
  gfra_step f w =
    mkW (fra_stateG D f c v (set_mem (pokes_mem (r_pokes r) (mem (st w))) (st w)))
        (io w) (mu w) h' (ECall (VRead f ci (g_var f (st w))) (r_code r) :: tr w).
Proof.
  intros f w ci c v h' r Hg Hc Hn Hr Hcall Hcl Hz.
  unfold Lemmas_C06r.gfra_step, format_read_args.
  unfold cmd_of in Hc |- *. rewrite Hg in Hc |- *. rewrite Hc, Hn, Hr.
  unfold call_h. rewrite Hcall, Hcl, Hz. cbn [fold_left negb fst busy].
  unfold Fsm.upd_st, Fsm.set_st, logw, set_hs. cbn [Fsm.st Fsm.io Fsm.mu Fsm.hs Fsm.tr].
  rewrite Lemmas_E2Ec.P3.pokes_state. reflexivity.
Qed.

Lemma gfra_run_S : forall f n (w : world),
  gfra_run f (S n) w = if in_fra f (st w) then gfra_run f n (gfra_step f w) else w.
Proof. reflexivity. Qed.

Lemma gfra_run_stop : forall f n (w : world), in_fra f (st w) = false -> gfra_run f n w = w.
Proof. intros f [|n] w H; [reflexivity|]. rewrite gfra_run_S, H. reflexivity. Qed.

Lemma RInvG_set_mem : forall f ci c s i t rest nl bsz m,
  RInvG D f ci c s i t rest nl bsz -> RInvG D f ci c (set_mem m s) i t rest nl bsz.
Proof. intros f ci c s i t rest nl bsz m H. destruct f; exact H. Qed.

Lemma all_some_cons_opt : forall (t : list N) (ts : option (list (list N))) txts,
  match ts with Some l => Some (t :: l) | None => None end = Some txts ->
  exists l, ts = Some l /\ txts = t :: l.
Proof. intros t [l|] txts H; [|discriminate]. injection H as <-. exists l. auto. Qed.

(* the loop when everything fits: callbacks allowed (answering 0, calling no API function) *)
Lemma gloop_ok : forall f ci c nl bsz, c_hread c = true ->
  (forall h vi v, nth_error (c_vars c) vi = Some v -> v_hread v = true ->
     r_calls (snd (h_call h (VRead f ci vi))) = []) ->
  forall vs v pre (w : world) t rest h' m' cl txts,
  c_vars c = pre ++ v :: vs -> Forall (rd_var_ok (mem (st w))) (v :: vs) ->
  RInvG D f ci c (st w) (length pre) t rest nl bsz ->
  rd_spec f ci (v :: vs) (length pre) (hs w) (mem (st w)) = (h', m', cl, Some txts) ->
  length (join_comma txts) < length rest ->
  exists s', gfra_run f (length (v :: vs)) w = mkW s' (io w) (mu w) h' (rev (map ecall cl) ++ tr w) /\
    RLoopG f ci s' (t ++ join_comma txts) bsz /\ mem s' = m'.
Proof.
  intros f ci c nl bsz Hrd Hq.
  induction vs as [|v2 vs IH]; intros v pre w t rest h' m' cl txts Hc Hok HR Hsp Hl;
    inversion Hok as [|? ? Hokv Hokvs]; subst;
    pose proof (nth_mid _ pre v) as Hn;
    assert (Hn0 : nth_error (c_vars c) (length pre) = Some v) by (rewrite Hc; apply nth_mid);
    pose proof HR as (HB & Hg & Hv & _ & Hst);
    pose proof HB as (_ & Hcmd & _);
    match goal with |- context [gfra_run f (length (?a :: ?b)) _] =>
      change (length (a :: b)) with (S (length b)) end;
    rewrite gfra_run_S, Hst;
    rewrite rd_spec_cons in Hsp.
  - (* last variable *)
    specialize (Hn []). rewrite <- Hc, <- Hv in Hn.
    assert (Hlast : length (c_vars c) <= S (length pre)) by (rewrite Hc, app_length; cbn [length]; lia).
    destruct (v_hread v) eqn:Ehr.
    + destruct (h_call (hs w) (VRead f ci (length pre))) as [h1 res] eqn:Ecall.
      cbv beta iota zeta in Hsp.
      destruct (r_code res =? 0)%Z eqn:Ez; [|discriminate].
      set (m1 := pokes_mem (r_pokes res) (mem (st w))) in *.
      destruct (slot_text m1 v) as [txt|] eqn:Et; [|discriminate].
      cbn [Lemmas_C06r.rd_spec] in Hsp.
      injection Hsp as <- <- <- <-. rewrite join_comma_one in *.
      pose proof (Hq (hs w) (length pre) v Hn0 Ehr) as Hcl. rewrite Ecall in Hcl. cbn [snd] in Hcl.
      rewrite <- Hv in Ecall.
      rewrite (gfra_step_cb f w ci c v h1 res Hg Hcmd Hn Ehr Ecall Hcl Ez). fold m1.
      cbn [length Lemmas_C06r.gfra_run].
      pose proof (rd_var_ok_shape _ m1 v (pokes_mem_shape (r_pokes res) (mem (st w))) Hokv) as Hokv1.
      destruct (var_factsG m1 v txt Hokv1 Et) as (data & Hd & Ht & Hdl & Hhex).
      destruct (fra_last_loopG D f ci c (set_mem m1 (st w)) (length pre) t rest nl bsz v data txt
                  (RInvG_set_mem _ _ _ _ _ _ _ _ _ m1 HR) Hd Ht Hdl Hhex Hl Hlast Hrd) as (HL & HM).
      eexists. split; [|split; [exact HL | exact HM]].
      rewrite Hv. reflexivity.
    + cbv beta iota zeta in Hsp.
      destruct (slot_text (mem (st w)) v) as [txt|] eqn:Et; [|discriminate].
      cbn [Lemmas_C06r.rd_spec] in Hsp.
      injection Hsp as <- <- <- <-. rewrite join_comma_one in *.
      rewrite (gfra_step_plain f w c v Hcmd Hn Ehr). cbn [length Lemmas_C06r.gfra_run].
      destruct (var_factsG _ v txt Hokv Et) as (data & Hd & Ht & Hdl & Hhex).
      destruct (fra_last_loopG D f ci c (st w) (length pre) t rest nl bsz v data txt
                  HR Hd Ht Hdl Hhex Hl Hlast Hrd) as (HL & HM).
      eexists. split; [|split; [exact HL | exact HM]]. reflexivity.
  - (* more variables follow *)
    specialize (Hn (v2 :: vs)). rewrite <- Hc, <- Hv in Hn.
    assert (Hmore : S (length pre) < length (c_vars c)) by (rewrite Hc, app_length; cbn [length]; lia).
    assert (Hc2 : c_vars c = (pre ++ [v]) ++ v2 :: vs) by (rewrite Hc, <- app_assoc; reflexivity).
    assert (Hlp : length (pre ++ [v]) = S (length pre)) by (rewrite app_length; cbn [length]; lia).
    destruct (v_hread v) eqn:Ehr.
    + destruct (h_call (hs w) (VRead f ci (length pre))) as [h1 res] eqn:Ecall.
      cbv beta iota zeta in Hsp.
      destruct (r_code res =? 0)%Z eqn:Ez; [|discriminate].
      set (m1 := pokes_mem (r_pokes res) (mem (st w))) in *.
      destruct (slot_text m1 v) as [txt|] eqn:Et; [|discriminate].
      destruct (Lemmas_C06r.rd_spec hS h_call f ci (v2 :: vs) (S (length pre)) h1 m1)
        as [[[h2 m2] cl2] ts] eqn:Erest.
      injection Hsp as <- <- <- Hts.
      destruct (all_some_cons_opt txt ts txts Hts) as (l & -> & ->). clear Hts.
      destruct l as [|txt2 txts2].
      { destruct (rd_spec_reqs hS h_call f ci _ _ _ _ _ _ _ _ Erest) as (_ & _ & X). discriminate X. }
      rewrite join_comma_cons2 in *. rewrite app_length in Hl. cbn [length] in Hl.
      pose proof (Hq (hs w) (length pre) v Hn0 Ehr) as Hcl. rewrite Ecall in Hcl. cbn [snd] in Hcl.
      rewrite <- Hv in Ecall.
      rewrite (gfra_step_cb f w ci c v h1 res Hg Hcmd Hn Ehr Ecall Hcl Ez). fold m1.
      pose proof (pokes_mem_shape (r_pokes res) (mem (st w))) as Hsh. fold m1 in Hsh.
      pose proof (rd_var_ok_shape _ m1 v Hsh Hokv) as Hokv1.
      destruct (var_factsG m1 v txt Hokv1 Et) as (data & Hd & Ht & Hdl & Hhex).
      destruct (fra_moreG D f ci c (set_mem m1 (st w)) (length pre) t rest nl bsz v data txt
                  (RInvG_set_mem _ _ _ _ _ _ _ _ _ m1 HR) Hd Ht Hdl Hhex) as (r' & HR' & HM' & L);
        [lia | exact Hmore |].
      cbn [mem set_mem] in HM'.
      set (w1 := mkW (fra_stateG D f c v (set_mem m1 (st w))) (io w) (mu w) h1
                     (ECall (VRead f ci (g_var f (st w))) (r_code res) :: tr w)).
      destruct (IH v2 (pre ++ [v]) w1 (t ++ txt ++ [ch_COMMA]) r' h2 m2 cl2 (txt2 :: txts2))
        as (s' & E & HL & HM).
      * exact Hc2.
      * cbn [Fsm.st w1]. rewrite HM'. exact (rd_vars_ok_shape _ m1 _ Hsh Hokvs).
      * rewrite Hlp. exact HR'.
      * rewrite Hlp. cbn [Fsm.st Fsm.hs w1]. rewrite HM'. exact Erest.
      * lia.
      * exists s'. split; [|split; [|exact HM]].
        -- rewrite E. cbn [Fsm.io Fsm.mu Fsm.tr w1]. f_equal.
           cbn [app map rev ecall fst snd]. rewrite <- app_assoc, Hv. reflexivity.
        -- replace (t ++ txt ++ ch_COMMA :: join_comma (txt2 :: txts2))
             with ((t ++ txt ++ [ch_COMMA]) ++ join_comma (txt2 :: txts2))
             by (rewrite <- !app_assoc; reflexivity).
           exact HL.
    + cbv beta iota zeta in Hsp.
      destruct (slot_text (mem (st w)) v) as [txt|] eqn:Et; [|discriminate].
      destruct (Lemmas_C06r.rd_spec hS h_call f ci (v2 :: vs) (S (length pre)) (hs w) (mem (st w)))
        as [[[h2 m2] cl2] ts] eqn:Erest.
      injection Hsp as <- <- <- Hts.
      destruct (all_some_cons_opt txt ts txts Hts) as (l & -> & ->). clear Hts.
      destruct l as [|txt2 txts2].
      { destruct (rd_spec_reqs hS h_call f ci _ _ _ _ _ _ _ _ Erest) as (_ & _ & X). discriminate X. }
      rewrite join_comma_cons2 in *. rewrite app_length in Hl. cbn [length] in Hl.
      rewrite (gfra_step_plain f w c v Hcmd Hn Ehr).
      destruct (var_factsG _ v txt Hokv Et) as (data & Hd & Ht & Hdl & Hhex).
      destruct (fra_moreG D f ci c (st w) (length pre) t rest nl bsz v data txt
                  HR Hd Ht Hdl Hhex) as (r' & HR' & HM' & L); [lia | exact Hmore |].
      destruct (IH v2 (pre ++ [v]) (set_st (fra_stateG D f c v (st w)) w)
                   (t ++ txt ++ [ch_COMMA]) r' h2 m2 cl2 (txt2 :: txts2))
        as (s' & E & HL & HM).
      * exact Hc2.
      * cbn [Fsm.st Fsm.set_st]. rewrite HM'. exact Hokvs.
      * rewrite Hlp. exact HR'.
      * rewrite Hlp. cbn [Fsm.st Fsm.hs Fsm.set_st]. rewrite HM'. exact Erest.
      * lia.
      * exists s'. split; [|split; [|exact HM]].
        -- rewrite E. reflexivity.
        -- replace (t ++ txt ++ ch_COMMA :: join_comma (txt2 :: txts2))
             with ((t ++ txt ++ [ch_COMMA]) ++ join_comma (txt2 :: txts2))
             by (rewrite <- !app_assoc; reflexivity).
           exact HL.
Qed.


(* the loop when the text does not fit, or a numeric variable has an unsupported width; no callbacks *)
Lemma gloop_fail : forall f ci c nl bsz,
  forall vs v pre (w : world) t rest,
  c_vars c = pre ++ v :: vs -> Forall (rd_var_ok (mem (st w))) (v :: vs) ->
  Forall (fun v => v_hread v = false) (v :: vs) ->
  RInvG D f ci c (st w) (length pre) t rest nl bsz ->
  match all_some (map (slot_text (mem (st w))) (v :: vs)) with
  | Some txts => length rest <= length (join_comma txts)
  | None => True
  end ->
  exists s', gfra_run f (length (v :: vs)) w = set_st s' w /\ RFailG f bsz s' /\ mem s' = mem (st w).
Proof.
  intros f ci c nl bsz.
  induction vs as [|v2 vs IH]; intros v pre w t rest Hc Hok Hnr HR Hl;
    inversion Hok as [|? ? Hokv Hokvs]; subst;
    inversion Hnr as [|? ? Hnrv Hnrvs]; subst;
    pose proof (nth_mid _ pre v) as Hn;
    pose proof HR as (HB & Hg & Hv & _ & Hst);
    pose proof HB as (_ & Hcmd & _);
    match goal with |- context [gfra_run f (length (?a :: ?b)) _] =>
      change (length (a :: b)) with (S (length b)) end;
    rewrite gfra_run_S, Hst;
    destruct Hokv as (data & Hd & Hdl & Hhex);
    rewrite all_some_map_cons in Hl; unfold slot_text at 1 in Hl; rewrite Hd in Hl.
  - specialize (Hn []). rewrite <- Hc, <- Hv in Hn.
    rewrite (gfra_step_plain f w c v Hcmd Hn Hnrv). cbn [length Lemmas_C06r.gfra_run].
    eexists. split; [reflexivity|].
    destruct (var_text v data) as [txt|] eqn:Ht.
    + cbn [map all_some] in Hl. rewrite join_comma_one in Hl.
      exact (fra_print_failG D f ci c (st w) (length pre) t rest nl bsz v data txt HR Hd Ht Hdl Hhex Hl).
    + exact (fra_print_noneG D f ci c (st w) (length pre) t rest nl bsz v data HR Hd Ht).
  - specialize (Hn (v2 :: vs)). rewrite <- Hc, <- Hv in Hn.
    rewrite (gfra_step_plain f w c v Hcmd Hn Hnrv).
    destruct (var_text v data) as [txt|] eqn:Ht.
    2:{ destruct (fra_print_noneG D f ci c (st w) (length pre) t rest nl bsz v data HR Hd Ht) as (HF & HM).
        eexists. split; [|split; [exact HF | exact HM]].
        apply gfra_run_stop. destruct HF as (_ & F & _). exact F. }
    destruct (Nat.lt_ge_cases (length txt) (length rest)) as [Hlt|Hge].
    2:{ destruct (fra_print_failG D f ci c (st w) (length pre) t rest nl bsz v data txt
                    HR Hd Ht Hdl Hhex Hge) as (HF & HM).
        eexists. split; [|split; [exact HF | exact HM]].
        apply gfra_run_stop. destruct HF as (_ & F & _). exact F. }
    destruct (fra_moreG D f ci c (st w) (length pre) t rest nl bsz v data txt HR Hd Ht Hdl Hhex Hlt)
      as (r' & HR' & HM' & L); [rewrite Hc, app_length; cbn [length]; lia |].
    specialize (IH v2 (pre ++ [v]) (set_st (fra_stateG D f c v (st w)) w)
                   (t ++ txt ++ [ch_COMMA]) r').
    replace (length (pre ++ [v])) with (S (length pre)) in IH
      by (rewrite app_length; cbn [length]; lia).
    cbn [Fsm.st Fsm.set_st] in IH. rewrite HM' in IH.
    destruct IH as (s' & E & HF & HM).
    + rewrite Hc, <- app_assoc. reflexivity.
    + exact Hokvs.
    + exact Hnrvs.
    + exact HR'.
    + destruct (all_some (map (slot_text (mem (st w))) (v2 :: vs))) as [ts|] eqn:Ea; [|exact I].
      destruct ts as [|txt2 txts2].
      { cbn [map all_some] in Ea. destruct (slot_text (mem (st w)) v2); [|discriminate].
        destruct (all_some (map (slot_text (mem (st w))) vs)); discriminate. }
      rewrite join_comma_cons2, app_length in Hl. cbn [length] in Hl. lia.
    + exists s'. rewrite E. split; [reflexivity|]. split; assumption.
Qed.

(* ---- the whole automatic part of a READ ---- *)
Lemma vap_nonempty : forall c a, vars_access_possible c a = true -> c_vars c <> [].
Proof. intros c a H E. unfold vars_access_possible in H. rewrite E in H. discriminate. Qed.

Lemma firstn_S_app0 : forall (txt r : list N), firstn (S (length txt)) (txt ++ 0%N :: r) = txt ++ [0%N].
Proof.
  intros txt r. replace (txt ++ 0%N :: r) with ((txt ++ [0%N]) ++ r) by (rewrite <- app_assoc; reflexivity).
  replace (S (length txt)) with (length (txt ++ [0%N]) + 0) by (rewrite app_length; cbn [length]; lia).
  rewrite firstn_app_2. cbn [firstn]. apply app_nil_r.
Qed.

(* what the read loop state means for the handler: the next step of machine f calls the read handler
   exactly once, with this text, position and capacity *)
Lemma rloop_call : forall f ci (w : world) txt bsz, RLoopG f ci (st w) txt bsz ->
  in_rt_loop true f (st w) /\ g_cmd f (st w) = Some ci /\
  firstn (S (length txt)) (g_buf f (st w)) = txt ++ [0%N] /\ g_pos f (st w) = length txt /\
  length (g_buf f (st w)) = bsz /\
  exists code rest,
    tr (fst (process_rt_loop true f w)) = rest ++ ECall (HRead f ci (txt ++ [0%N]) (length txt) bsz) code :: tr w /\
    forallb (fun e => match e with ECall _ _ => false | _ => true end) rest = true.
Proof.
  intros f ci w txt bsz (Hf & Hg & (r & Hb) & Hp & Hl & Hin).
  split; [exact Hin|]. split; [exact Hg|].
  assert (Hfn : firstn (S (length txt)) (g_buf f (st w)) = txt ++ [0%N]) by (rewrite Hb; apply firstn_S_app0).
  split; [exact Hfn|]. split; [exact Hp|]. split; [exact Hl|].
  destruct (Lemmas_C06.C06_rt_handler_args D ioS muS hS mu_lock mu_unlock h_call true f w ci Hg)
    as (code & rest & E & Hn).
  rewrite Hp, Hfn, Hl in E. exists code, rest. split; assumption.
Qed.

Definition rd_text (c : cmd) (txts : list (list N)) : list N := c_name c ++ [ch_EQ] ++ join_comma txts.

(* with callbacks, everything fits *)
Lemma read_core_cb : forall f (w : world) ci c h' m' cl txts,
  g_cmd f (st w) = Some ci -> cmd_at D ci = Some c -> fault (st w) = false ->
  c_hread c = true -> vars_access_possible c RO = true ->
  (forall h vi v, nth_error (c_vars c) vi = Some v -> v_hread v = true ->
     r_calls (snd (h_call h (VRead f ci vi))) = []) ->
  Forall (rd_var_ok (mem (st w))) (c_vars c) ->
  rd_spec f ci (c_vars c) 0 (hs w) (mem (st w)) = (h', m', cl, Some txts) ->
  length (rd_text c txts) < length (g_buf f (st w)) ->
  exists s', gread_response f c w = mkW s' (io w) (mu w) h' (rev (map ecall cl) ++ tr w) /\
    RLoopG f ci s' (rd_text c txts) (length (g_buf f (st w))) /\ mem s' = m'.
Proof.
  intros f w ci c h' m' cl txts Hg Hc Hf Hrd Hvap Hq Hok Hsp Hfit.
  unfold cmd_at in Hc. unfold rd_text in *. rewrite !app_length in Hfit. cbn [length] in Hfit.
  destruct (read_startG D f (st w) ci c Hg Hc Hf) as (Hm & HS). cbv zeta in Hm, HS.
  replace (length (c_name c) + 1 <? length (g_buf f (st w))) with true in HS
    by (symmetry; apply Nat.ltb_lt; lia).
  rewrite Hvap in HS. destruct HS as (r & L & HR).
  pose proof (vap_nonempty c RO Hvap) as Hne.
  unfold Lemmas_C06r.gread_response.
  destruct (c_vars c) as [|v vs] eqn:Hvs; [congruence|].
  set (w1 := upd_st (start_processing_format_read_args D f) w).
  rewrite <- Hvs in Hq.
  destruct (gloop_ok f ci c (nl_chars (st w)) (length (g_buf f (st w))) Hrd Hq vs v [] w1
              (c_name c ++ [ch_EQ]) (0%N :: r) h' m' cl txts Hvs) as (s' & E & HL & HM).
  - cbn [Fsm.st Fsm.upd_st Fsm.set_st w1]. rewrite Hm. exact Hok.
  - exact HR.
  - cbn [Fsm.st Fsm.hs Fsm.upd_st Fsm.set_st w1 length]. rewrite Hm. exact Hsp.
  - cbn [length]. lia.
  - exists s'. split; [exact E|]. split; [|exact HM]. rewrite <- app_assoc in HL. exact HL.
Qed.

(* without callbacks: every case *)
Lemma read_core_plain : forall f (w : world) ci c,
  g_cmd f (st w) = Some ci -> cmd_at D ci = Some c -> fault (st w) = false ->
  c_hread c = true -> vars_access_possible c RO = true -> no_vread c ->
  Forall (rd_var_ok (mem (st w))) (c_vars c) ->
  exists s', gread_response f c w = set_st s' w /\ mem s' = mem (st w) /\
    match read_args_text (mem (st w)) c with
    | Some args =>
      if length (c_name c ++ [ch_EQ] ++ args) <? length (g_buf f (st w))
      then RLoopG f ci s' (c_name c ++ [ch_EQ] ++ args) (length (g_buf f (st w)))
      else RFailG f (length (g_buf f (st w))) s'
    | None => RFailG f (length (g_buf f (st w))) s'
    end.
Proof.
  intros f w ci c Hg Hc Hf Hrd Hvap Hnv Hok.
  pose proof Hc as Hc'. unfold cmd_at in Hc.
  destruct (read_startG D f (st w) ci c Hg Hc Hf) as (Hm & HS). cbv zeta in Hm, HS.
  pose proof (vap_nonempty c RO Hvap) as Hne.
  change (read_args_text (mem (st w)) c) with
    (match all_some (map (slot_text (mem (st w))) (c_vars c)) with
     | Some ts => Some (join_comma ts) | None => None end).
  unfold Lemmas_C06r.gread_response.
  set (w1 := upd_st (start_processing_format_read_args D f) w) in *.
  assert (Hw1 : forall s', set_st s' w1 = set_st s' w) by reflexivity.
  destruct (Nat.ltb_spec (length (c_name c) + 1) (length (g_buf f (st w)))) as [Hlt|Hge].
  - rewrite Hvap in HS. destruct HS as (r & L & HR).
    destruct (c_vars c) as [|v vs] eqn:Hvs; [congruence|].
    destruct (all_some (map (slot_text (mem (st w))) (v :: vs))) as [txts|] eqn:Hall.
    + assert (Hlen : length (c_name c ++ [ch_EQ] ++ join_comma txts)
                     = length (c_name c) + S (length (join_comma txts)))
        by (rewrite !app_length; reflexivity).
      rewrite Hlen. clear Hlen.
      destruct (Nat.ltb_spec (length (c_name c) + S (length (join_comma txts))) (length (g_buf f (st w))))
        as [Hfit|Hno].
      * assert (Hq : forall h vi v0, nth_error (c_vars c) vi = Some v0 -> v_hread v0 = true ->
                     r_calls (snd (h_call h (VRead f ci vi))) = []).
        { intros h vi v0 Hn0 Hr0. exfalso. unfold no_vread in Hnv. rewrite Forall_forall in Hnv.
          rewrite (Hnv v0 (nth_error_In _ _ Hn0)) in Hr0. discriminate. }
        destruct (gloop_ok f ci c (nl_chars (st w)) (length (g_buf f (st w))) Hrd Hq vs v [] w1
                    (c_name c ++ [ch_EQ]) (0%N :: r) (hs w) (mem (st w)) [] txts Hvs)
          as (s' & E & HL & HM).
        { cbn [Fsm.st Fsm.upd_st Fsm.set_st w1]. rewrite Hm. exact Hok. }
        { exact HR. }
        2:{ cbn [length]. lia. }
        { cbn [Fsm.st Fsm.hs Fsm.upd_st Fsm.set_st w1 length]. rewrite Hm.
          rewrite (rd_spec_plain hS h_call f ci (v :: vs) 0 (hs w) (mem (st w))), Hall; [reflexivity|].
          unfold no_vread in Hnv. rewrite Hvs in Hnv. exact Hnv. }
        exists s'. split; [exact E|]. split; [exact HM|].
        rewrite <- app_assoc in HL. exact HL.
      * destruct (gloop_fail f ci c (nl_chars (st w)) (length (g_buf f (st w))) vs v [] w1
                    (c_name c ++ [ch_EQ]) (0%N :: r) Hvs) as (s' & E & HF & HM).
        { cbn [Fsm.st Fsm.upd_st Fsm.set_st w1]. rewrite Hm. exact Hok. }
        { unfold no_vread in Hnv. rewrite Hvs in Hnv. exact Hnv. }
        { exact HR. }
        { cbn [Fsm.st Fsm.upd_st Fsm.set_st w1]. rewrite Hm, Hall. cbn [length]. lia. }
        exists s'. split; [exact E|]. split; [|exact HF].
        rewrite HM. exact Hm.
    + destruct (gloop_fail f ci c (nl_chars (st w)) (length (g_buf f (st w))) vs v [] w1
                  (c_name c ++ [ch_EQ]) (0%N :: r) Hvs) as (s' & E & HF & HM).
      { cbn [Fsm.st Fsm.upd_st Fsm.set_st w1]. rewrite Hm. exact Hok. }
      { unfold no_vread in Hnv. rewrite Hvs in Hnv. exact Hnv. }
      { exact HR. }
      { cbn [Fsm.st Fsm.upd_st Fsm.set_st w1]. rewrite Hm, Hall. exact I. }
      exists s'. split; [exact E|]. split; [|exact HF].
      rewrite HM. exact Hm.
  - exists (st w1). split.
    + rewrite gfra_run_stop; [reflexivity|]. destruct HS as (_ & F & _). exact F.
    + split; [exact Hm|].
      destruct (all_some (map (slot_text (mem (st w))) (c_vars c))) as [txts|]; [|exact HS].
      assert (Hlen : length (c_name c ++ [ch_EQ] ++ join_comma txts)
                     = length (c_name c) + S (length (join_comma txts)))
        by (rewrite !app_length; reflexivity).
      rewrite Hlen.
      destruct (Nat.ltb_spec (length (c_name c) + S (length (join_comma txts))) (length (g_buf f (st w))));
        [lia | exact HS].
Qed.


(* ================= 5. the statements ================= *)
Definition nocall (l : list event) : bool :=
  forallb (fun e => match e with ECall _ _ => false | _ => true end) l.

Theorem C06_read_handler_text_g_proof : forall f (w : world) ci c,
  g_cmd f (st w) = Some ci -> cmd_at D ci = Some c -> fault (st w) = false ->
  c_hread c = true -> vars_access_possible c RO = true -> no_vread c ->
  Forall (rd_var_ok (mem (st w))) (c_vars c) ->
  let bsz := length (g_buf f (st w)) in
  let w' := gread_response f c w in
  mem (st w') = mem (st w) /\ tr w' = tr w /\ hs w' = hs w /\ io w' = io w /\ mu w' = mu w /\
  fault (st w') = false /\
  match read_args_text (mem (st w)) c with
  | Some args =>
    let txt := c_name c ++ [ch_EQ] ++ args in
    if length txt <? bsz then
      in_rt_loop true f (st w') /\ g_cmd f (st w') = Some ci /\
      firstn (S (length txt)) (g_buf f (st w')) = txt ++ [0%N] /\ g_pos f (st w') = length txt /\
      length (g_buf f (st w')) = bsz /\
      exists code rest,
        tr (fst (process_rt_loop true f w')) =
          rest ++ ECall (HRead f ci (txt ++ [0%N]) (length txt) bsz) code :: tr w /\
        nocall rest = true
    else in_fra f (st w') = false /\ ~ in_rt_loop true f (st w') /\ rd_failed f bsz (st w')
  | None => in_fra f (st w') = false /\ ~ in_rt_loop true f (st w') /\ rd_failed f bsz (st w')
  end.
Proof.
  intros f w ci c Hg Hc Hf Hrd Hvap Hnv Hok bsz w'. subst bsz w'.
  destruct (read_core_plain f w ci c Hg Hc Hf Hrd Hvap Hnv Hok) as (s' & E & HM & HD).
  rewrite E. cbn [Fsm.st Fsm.tr Fsm.hs Fsm.io Fsm.mu Fsm.set_st].
  split; [exact HM|]. split; [reflexivity|]. split; [reflexivity|]. split; [reflexivity|].
  split; [reflexivity|].
  destruct (read_args_text (mem (st w)) c) as [args|].
  - cbv zeta. destruct (length (c_name c ++ [ch_EQ] ++ args) <? length (g_buf f (st w))).
    + split; [apply HD|].
      exact (rloop_call f ci (set_st s' w) _ _ HD).
    + destruct HD as (F1 & F2 & F3 & F4). auto.
  - destruct HD as (F1 & F2 & F3 & F4). auto.
Qed.

(* the command machine, on the run function of Properties_C07e *)
Theorem C06_read_handler_text_proof : forall (w : world) ci c,
  k_cmd (k (st w)) = Some ci -> cmd_at D ci = Some c -> fault (st w) = false ->
  c_hread c = true -> vars_access_possible c RO = true -> no_vread c ->
  Forall (rd_var_ok (mem (st w))) (c_vars c) ->
  let bsz := length (cbuf (st w)) in
  let w' := Lemmas_C07e.read_response D ioS muS hS mu_lock mu_unlock h_call c w in
  mem (st w') = mem (st w) /\ tr w' = tr w /\ hs w' = hs w /\ io w' = io w /\ mu w' = mu w /\
  fault (st w') = false /\
  match read_args_text (mem (st w)) c with
  | Some args =>
    let txt := c_name c ++ [ch_EQ] ++ args in
    if length txt <? bsz then
      k_state (k (st w')) = CS_READ_LOOP /\ k_cmd (k (st w')) = Some ci /\
      firstn (S (length txt)) (cbuf (st w')) = txt ++ [0%N] /\ k_position (k (st w')) = length txt /\
      length (cbuf (st w')) = bsz /\
      exists code rest,
        tr (fst (process_rt_loop true ATCMD w')) =
          rest ++ ECall (HRead ATCMD ci (txt ++ [0%N]) (length txt) bsz) code :: tr w /\
        nocall rest = true
    else k_state (k (st w')) = CS_FLUSH_WAIT /\ k_wafter (k (st w')) = CS_AFTER_RESET /\
         (6 <= bsz -> text_of (cbuf (st w')) = txt_ERROR)
  | None => k_state (k (st w')) = CS_FLUSH_WAIT /\ k_wafter (k (st w')) = CS_AFTER_RESET /\
            (6 <= bsz -> text_of (cbuf (st w')) = txt_ERROR)
  end.
Proof.
  intros w ci c Hg Hc Hf Hrd Hvap Hnv Hok bsz w'. subst bsz w'.
  rewrite <- (gread_response_c D ioS muS hS mu_lock mu_unlock h_call c w).
  pose proof (C06_read_handler_text_g_proof ATCMD w ci c Hg Hc Hf Hrd Hvap Hnv Hok) as H.
  cbv zeta in H. destruct H as (A1 & A2 & A3 & A4 & A5 & A6 & H).
  split; [exact A1|]. split; [exact A2|]. split; [exact A3|]. split; [exact A4|].
  split; [exact A5|]. split; [exact A6|].
  destruct (read_args_text (mem (st w)) c) as [args|].
  - cbv zeta in H |- *. cbn [g_buf] in H.
    destruct (length (c_name c ++ [ch_EQ] ++ args) <? length (cbuf (st w))).
    + exact H.
    + destruct H as (_ & _ & H). exact H.
  - destruct H as (_ & _ & H). exact H.
Qed.

(* with variable read callbacks *)
Theorem C06_read_handler_text_cb_proof : forall f (w : world) ci c h' m' cl txts,
  g_cmd f (st w) = Some ci -> cmd_at D ci = Some c -> fault (st w) = false ->
  c_hread c = true -> vars_access_possible c RO = true ->
  (forall h vi v, nth_error (c_vars c) vi = Some v -> v_hread v = true ->
     r_calls (snd (h_call h (VRead f ci vi))) = []) ->
  Forall (rd_var_ok (mem (st w))) (c_vars c) ->
  rd_spec f ci (c_vars c) 0 (hs w) (mem (st w)) = (h', m', cl, Some txts) ->
  let txt := c_name c ++ [ch_EQ] ++ join_comma txts in
  let bsz := length (g_buf f (st w)) in
  length txt < bsz ->
  let w' := gread_response f c w in
  hs w' = h' /\ mem (st w') = m' /\ tr w' = rev (map ecall cl) ++ tr w /\ io w' = io w /\ mu w' = mu w /\
  fault (st w') = false /\
  map fst cl = vread_reqs f ci (c_vars c) 0 /\ Forall (fun p => snd p = 0%Z) cl /\
  length txts = length (c_vars c) /\
  in_rt_loop true f (st w') /\ g_cmd f (st w') = Some ci /\
  firstn (S (length txt)) (g_buf f (st w')) = txt ++ [0%N] /\ g_pos f (st w') = length txt /\
  length (g_buf f (st w')) = bsz /\
  exists code rest,
    tr (fst (process_rt_loop true f w')) =
      rest ++ ECall (HRead f ci (txt ++ [0%N]) (length txt) bsz) code :: tr w' /\
    nocall rest = true.
Proof.
  intros f w ci c h' m' cl txts Hg Hc Hf Hrd Hvap Hq Hok Hsp txt bsz Hfit w'. subst txt bsz w'.
  destruct (read_core_cb f w ci c h' m' cl txts Hg Hc Hf Hrd Hvap Hq Hok Hsp Hfit) as (s' & E & HL & HM).
  destruct (rd_spec_reqs hS h_call f ci _ _ _ _ _ _ _ _ Hsp) as (R1 & R2 & R3).
  rewrite E. cbn [Fsm.st Fsm.tr Fsm.hs Fsm.io Fsm.mu].
  split; [reflexivity|]. split; [exact HM|]. split; [reflexivity|]. split; [reflexivity|].
  split; [reflexivity|]. split; [apply HL|]. split; [exact R1|]. split; [exact R2|]. split; [exact R3|].
  exact (rloop_call f ci (mkW s' (io w) (mu w) h' (rev (map ecall cl) ++ tr w)) _ _ HL).
Qed.

End Worlds.

(* ====================================================================================== *)
(* 6. The whole READ line  AT<name>? LF  of a command with readable variables AND a read handler, on the
      scripted always-ready world (event machine idle, no mutex): the handler is called on the text
      name=args formatted from the memory as it is at that moment (its own stores are visible in the next
      call), DATA_NEXT emits the buffer as one unit, NEXT only re-formats.  After Lemmas_E2Ec.P3. *)
From CatV Require Import Script SchedDefs GlueDefs.
From CatV Require Lemmas_C02e Lemmas_C11 Lemmas_C10b Lemmas_E2Eb.

Module E2E.
Import ListNotations.
Local Open Scope nat_scope.
Import Lemmas_E2Ec.P3.

Local Notation wst := (Fsm.st sio smu shs).
Local Notation wio := (Fsm.io sio smu shs).
Local Notation whs := (Fsm.hs sio smu shs).
Local Notation wtr := (Fsm.tr sio smu shs).
Local Notation idle := Lemmas_C02e.idle.
Local Notation script_of := Lemmas_C10.script_of.
Local Notation unit_of := Lemmas_C10.unit_of.
Local Notation edit_text := Lemmas_C10.edit_text.

(* the fresh text for memory m *)
Definition rd_fresh (c : cmd) (m : list (list N)) : option (list N) :=
  match read_args_text m c with Some args => Some (c_name c ++ [ch_EQ] ++ args) | None => None end.

(* the handler calls and the emitted units of a sequence of results, from memory m: every call is made on
   the fresh text of the memory of that moment (which must fit), the stores of a result are applied before
   the next formatting; the unit of an emitting result is its edit (up to its first NUL), or the text it
   was given *)
Fixpoint rvh_spec (c : cmd) (i bsz : nat) (m : list (list N)) (rs : list hres)
  : option (list (hreq * Z) * list (list N)) :=
  match rs with
  | [] => Some ([], [])
  | r :: rs' =>
    match rd_fresh c m with
    | Some txt =>
      if length txt <? bsz then
        match rvh_spec c i bsz (pokes_mem (r_pokes r) m) rs' with
        | Some (cl, us) =>
          Some ((HRead ATCMD i (txt ++ [0%N]) (length txt) bsz, r_code r) :: cl,
                unit_of bsz (text_of txt) r ++ us)
        | None => None
        end
      else None
    | None => None
    end
  end.

Lemma rvh_spec_cons : forall c i bsz m r rs' cl us,
  rvh_spec c i bsz m (r :: rs') = Some (cl, us) ->
  exists txt cl' us', rd_fresh c m = Some txt /\ length txt < bsz /\
    rvh_spec c i bsz (pokes_mem (r_pokes r) m) rs' = Some (cl', us') /\
    cl = (HRead ATCMD i (txt ++ [0%N]) (length txt) bsz, r_code r) :: cl' /\
    us = unit_of bsz (text_of txt) r ++ us'.
Proof.
  intros c i bsz m r rs' cl us H. cbn [rvh_spec] in H.
  destruct (rd_fresh c m) as [txt|]; [|discriminate].
  destruct (length txt <? bsz) eqn:E; [|discriminate]. apply Nat.ltb_lt in E.
  destruct (rvh_spec c i bsz (pokes_mem (r_pokes r) m) rs') as [[cl' us']|]; [|discriminate].
  injection H as <- <-. exists txt, cl', us'. auto 10.
Qed.

Lemma rvh_spec_app : forall c i bsz rs m rs2 cl us,
  rvh_spec c i bsz m (rs ++ rs2) = Some (cl, us) ->
  exists cl1 us1 cl2 us2, rvh_spec c i bsz m rs = Some (cl1, us1) /\
    rvh_spec c i bsz (pokes_mem (flat_map r_pokes rs) m) rs2 = Some (cl2, us2) /\
    cl = cl1 ++ cl2 /\ us = us1 ++ us2.
Proof.
  intros c i bsz. induction rs as [|r rs IH]; intros m rs2 cl us H.
  - exists [], [], cl, us. cbn [app flat_map] in *. auto.
  - cbn [app] in H. destruct (rvh_spec_cons _ _ _ _ _ _ _ _ H) as (txt & cl' & us' & F & L & R & -> & ->).
    destruct (IH _ _ _ _ R) as (cl1 & us1 & cl2 & us2 & R1 & R2 & -> & ->).
    exists ((HRead ATCMD i (txt ++ [0%N]) (length txt) bsz, r_code r) :: cl1),
           (unit_of bsz (text_of txt) r ++ us1), cl2, us2.
    cbn [rvh_spec flat_map]. rewrite F. replace (length txt <? bsz) with true by (symmetry; apply Nat.ltb_lt; exact L).
    rewrite R1. rewrite pokes_mem_app. rewrite <- app_assoc. auto.
Qed.

Section Line.
Variable D : desc.
Hypothesis Hmx : d_mutex D = false.
Local Notation n := (ncmds D).
Local Notation steps := (Lemmas_C02e.steps D).
Local Notation osteps := (Lemmas_E2E.osteps D).
Local Notation keep := Lemmas_E2E.keep.
Local Notation post := Lemmas_E2E.post.
Local Notation hsteps := (Lemmas_E2Ec.P3.hsteps D).

Section Loop.
Variable i : nat.
Variable c : cmd.
Hypothesis Hat : cmd_at D i = Some c.
Hypothesis Hhr : c_hread c = true.
Hypothesis Hvap : vars_access_possible c RO = true.
Hypothesis Hnv : no_vread c.
Variable bsz : nat.
Hypothesis H6 : 6 <= bsz.
Local Notation key := (1, i, 0).
Local Notation Q txt := (HRead ATCMD i (txt ++ [0%N]) (length txt) bsz).

(* the read loop on the NUL-terminated text txt *)
Definition inloop (txt : list N) (s : state) : Prop :=
  k_state (k s) = CS_READ_LOOP /\ k_cmd (k s) = Some i /\ k_position (k s) = length txt /\
  firstn (S (length txt)) (cbuf s) = txt ++ [0%N] /\ text_of (cbuf s) = text_of txt /\
  length (cbuf s) = bsz /\ fault s = false.

Definition frm (s s' : state) : Prop :=
  u s' = u s /\ gL s' = gL s /\ gS s' = gS s /\ gR s' = gR s /\
  k_cr (k s') = k_cr (k s) /\ k_hold (k s') = k_hold (k s).

Lemma frm_refl : forall s, frm s s.
Proof. intros s. unfold frm. repeat split; reflexivity. Qed.

Lemma frm_trans : forall a b d, frm a b -> frm b d -> frm a d.
Proof.
  intros a b d (A1 & A2 & A3 & A4 & A5 & A6) (B1 & B2 & B3 & B4 & B5 & B6).
  unfold frm. rewrite B1, B2, B3, B4, B5, B6. repeat split; assumption.
Qed.

Lemma idle_frm : forall s s', frm s s' -> idle s -> idle s'.
Proof. intros s s' F Hi. apply (Lemmas_C02e.idle_of_u s); [apply F | exact Hi]. Qed.

Lemma frm_of_post : forall s s', post s s' -> k_state (k s') <> CS_FLUSH_WAIT -> frm s s'.
Proof.
  intros s s' ((K1 & K2 & K3 & K4 & K5) & _ & G) Hs. specialize (G Hs).
  unfold frm. repeat split; assumption.
Qed.

Lemma inloop_rq : forall txt s, inloop txt s -> rq i s = Q txt.
Proof. intros txt s (_ & _ & P & B & _ & L & _). unfold rq. rewrite P, B, L. reflexivity. Qed.

Lemma inloop_of_RLoop : forall s txt, RLoopG ATCMD i s txt bsz -> inloop txt s.
Proof.
  intros s txt (Hf & Hg & (r & Hb) & Hp & Hl & Hin). cbn in *.
  unfold inloop. rewrite Hb. repeat split; try assumption.
  - apply firstn_S_app0.
  - apply Lemmas_E2Ec.P4.text_of_app0_gen.
  - rewrite <- Hb. exact Hl.
Qed.

Lemma fra_c_eq : forall x, cstate_beq x CS_FORMAT_READ_ARGS = true -> x = CS_FORMAT_READ_ARGS.
Proof. intros x H. destruct x; try discriminate H; reflexivity. Qed.

(* the formatting loop as service calls *)
Lemma rloop_steps : forall nl q,
  forall vs v pre s t rest txts,
  c_vars c = pre ++ v :: vs -> Forall (rd_var_ok (mem s)) (v :: vs) ->
  Forall (fun v => v_hread v = false) (v :: vs) ->
  RInvG D ATCMD i c s (length pre) t rest nl bsz -> idle s ->
  all_some (map (slot_text (mem s)) (v :: vs)) = Some txts ->
  length (join_comma txts) < length rest ->
  exists s', steps (length (v :: vs)) s q s' q /\
    RLoopG ATCMD i s' (t ++ join_comma txts) bsz /\ mem s' = mem s /\ post s s'.
Proof.
  intros nl q.
  induction vs as [|v2 vs IH]; intros v pre s t rest txts Hc Hok Hnr HR Hidl Ha Hl;
    destruct (Lemmas_C07e.all_some_cons_st _ _ _ _ Ha) as (txt & txts' & -> & Hi & Ha');
    inversion Hok as [|? ? Hokv Hokvs]; subst;
    inversion Hnr as [|? ? Hnrv Hnrvs]; subst;
    destruct (var_factsG _ v txt Hokv Hi) as (data & Hd & Ht & Hdl & Hhex);
    pose proof (nth_mid _ pre v) as Hn;
    pose proof HR as (HB & Hg & Hv & _ & Hst);
    pose proof HB as (_ & Hcmd & _);
    cbn [in_fra] in Hst; apply fra_c_eq in Hst;
    assert (Hnf : k_state (k s) <> CS_FLUSH_WAIT) by (rewrite Hst; discriminate);
    cbn [g_var] in Hv.
  - specialize (Hn []). rewrite <- Hc, <- Hv in Hn.
    cbn [map all_some] in Ha'. injection Ha' as <-.
    rewrite join_comma_one in *.
    exists (fra_stateG D ATCMD c v s).
    split; [apply (Lemmas_E2E.fra_one D Hmx); assumption|].
    destruct (fra_last_loopG D ATCMD i c s (length pre) t rest nl bsz v data txt HR Hd Ht Hdl Hhex Hl)
      as (HL & HM); [rewrite Hc, app_length; cbn [length]; lia | exact Hhr |].
    split; [exact HL|]. split; [exact HM|].
    apply Lemmas_E2E.post_fra_state. exact Hnf.
  - specialize (Hn (v2 :: vs)). rewrite <- Hc, <- Hv in Hn.
    destruct (Lemmas_C07e.all_some_cons_st _ _ _ _ Ha') as (txt2 & txts2 & -> & Hi2 & Ha2).
    rewrite join_comma_cons2 in *. rewrite app_length in Hl. cbn [length] in Hl.
    destruct (fra_moreG D ATCMD i c s (length pre) t rest nl bsz v data txt HR Hd Ht Hdl Hhex)
      as (r' & HR' & HM' & L); [lia | rewrite Hc, app_length; cbn [length]; lia |].
    pose proof (Lemmas_E2E.post_fra_state D c v s Hnf) as HP1.
    change (Lemmas_C07e.fra_state D c v s) with (fra_stateG D ATCMD c v s) in HP1.
    assert (Hst1 : k_state (k (fra_stateG D ATCMD c v s)) <> CS_FLUSH_WAIT).
    { destruct HR' as (_ & _ & _ & _ & E). cbn [in_fra] in E. apply fra_c_eq in E. rewrite E. discriminate. }
    specialize (IH v2 (pre ++ [v]) (fra_stateG D ATCMD c v s) (t ++ txt ++ [ch_COMMA]) r' (txt2 :: txts2)).
    replace (length (pre ++ [v])) with (S (length pre)) in IH
      by (rewrite app_length; cbn [length]; lia).
    rewrite HM' in IH.
    destruct IH as (s' & E & HL & HM & HP2).
    + rewrite Hc, <- app_assoc. reflexivity.
    + exact Hokvs.
    + exact Hnrvs.
    + exact HR'.
    + apply (Lemmas_C02e.idle_of_u s); [apply HP1 | exact Hidl].
    + exact Ha'.
    + lia.
    + exists s'. split; [|split; [|split]].
      * change (length (v :: v2 :: vs)) with (1 + length (v2 :: vs)).
        eapply Lemmas_C02e.steps_trans; [apply (Lemmas_E2E.fra_one D Hmx); eassumption | exact E].
      * replace (t ++ txt ++ ch_COMMA :: join_comma (txt2 :: txts2))
          with ((t ++ txt ++ [ch_COMMA]) ++ join_comma (txt2 :: txts2))
          by (rewrite <- !app_assoc; reflexivity).
        exact HL.
      * exact HM.
      * exact (Lemmas_E2E.post_chain _ _ _ HP1 Hst1 HP2).
Qed.

(* formatting the fresh text: from the state on which start_processing_format_read_args runs *)
Lemma reformat_loop : forall s q txt, idle s -> k_cmd (k s) = Some i -> length (cbuf s) = bsz ->
  fault s = false -> k_state (k s) <> CS_FLUSH_WAIT ->
  Forall (rd_var_ok (mem s)) (c_vars c) -> rd_fresh c (mem s) = Some txt -> length txt < bsz ->
  exists s', steps (length (c_vars c)) (start_processing_format_read_args D ATCMD s) q s' q /\
    inloop txt s' /\ frm s s' /\ mem s' = mem s.
Proof.
  intros s q txt Hidl Hk Hlen Hf Hnf Hok Hfr Hfit.
  unfold rd_fresh in Hfr.
  change (read_args_text (mem s) c) with
    (match all_some (map (slot_text (mem s)) (c_vars c)) with
     | Some ts => Some (join_comma ts) | None => None end) in Hfr.
  destruct (all_some (map (slot_text (mem s)) (c_vars c))) as [txts|] eqn:Hall; [|discriminate].
  injection Hfr as <-. rewrite !app_length in Hfit. cbn [length] in Hfit.
  pose proof Hat as Hc. unfold cmd_at in Hc.
  destruct (read_startG D ATCMD s i c Hk Hc Hf) as (Hm & HS). cbv zeta in Hm, HS. cbn [g_buf] in HS.
  replace (length (c_name c) + 1 <? length (cbuf s)) with true in HS by (symmetry; apply Nat.ltb_lt; lia).
  rewrite Hvap in HS. destruct HS as (r & L & HR). rewrite Hlen in HR.
  pose proof (Lemmas_E2E.post_spfra D s Hnf) as HP1.
  set (s1 := start_processing_format_read_args D ATCMD s) in *.
  assert (Hst1 : k_state (k s1) <> CS_FLUSH_WAIT).
  { destruct HR as (_ & _ & _ & _ & E). cbn [in_fra] in E. apply fra_c_eq in E. rewrite E. discriminate. }
  assert (Hi1 : idle s1) by (apply (Lemmas_C02e.idle_of_u s); [apply HP1 | exact Hidl]).
  pose proof (vap_nonempty c RO Hvap) as Hne.
  destruct (c_vars c) as [|v vs] eqn:Hvs; [congruence|].
  destruct (rloop_steps (nl_chars s) q vs v [] s1 (c_name c ++ [ch_EQ]) (0%N :: r) txts Hvs)
    as (s' & E & HL & HM & HP2).
  - rewrite Hm. exact Hok.
  - unfold no_vread in Hnv. rewrite Hvs in Hnv. exact Hnv.
  - exact HR.
  - exact Hi1.
  - rewrite Hm. exact Hall.
  - cbn [length]. lia.
  - exists s'. split; [exact E|]. rewrite <- app_assoc in HL.
    pose proof (inloop_of_RLoop s' _ HL) as IL.
    split; [exact IL|]. split; [|congruence].
    apply frm_of_post; [exact (Lemmas_E2E.post_chain _ _ _ HP1 Hst1 HP2)|].
    destruct IL as (X & _). rewrite X. discriminate.
Qed.

(* the state after the handler's stores and its edit *)
Lemma after_call_shape : forall txt s (r : hres), inloop txt s -> length txt < bsz ->
  let se := apply_edit ATCMD (r_edit r) (fold_left apply_poke (r_pokes r) s) in
  exists B p, se = setk_position p (set_cbuf B (set_mem (pokes_mem (r_pokes r) (mem s)) s)) /\
    length B = bsz /\ text_of B = edit_text bsz (text_of txt) (r_edit r) /\ In 0%N B.
Proof.
  intros txt s r (_ & _ & _ & _ & T & L & _) Hfit. cbv zeta. rewrite pokes_state.
  set (s1 := set_mem (pokes_mem (r_pokes r) (mem s)) s).
  destruct (Lemmas_C10b.apply_edit_shape ATCMD (r_edit r) s1) as (B & p & E & E1 & E2).
  unfold g_bsz in E1, E2. cbn [g_buf] in E1, E2. change (cbuf s1) with (cbuf s) in E1, E2.
  rewrite L in E1, E2. rewrite T in E2.
  exists B, p. split; [exact E|]. split; [exact E1|]. split; [exact E2|].
  apply Lemmas_E2Eb.L_text_in0. rewrite E2, E1. apply edit_text_len.
  pose proof (text_of_len txt). lia.
Qed.

Lemma name_fits : forall m txt, rd_fresh c m = Some txt -> length txt < bsz -> length (c_name c) + 1 < bsz.
Proof.
  intros m txt H L. unfold rd_fresh in H. destruct (read_args_text m c) as [args|]; [|discriminate].
  injection H as <-. rewrite !app_length in L. cbn [length] in L.
  (* args is not empty would give more; name + 1 <= length txt suffices with a strict bound *)
  unfold vars_access_possible in Hvap. lia.
Qed.

(* one continuing call; txt1 is the fresh text of the memory after the stores of r *)
Lemma call_next : forall txt txt1 s q h r sc, idle s -> inloop txt s -> length txt < bsz ->
  k_cr (k s) = false -> Forall (rd_var_ok (mem s)) (c_vars c) ->
  script_of h key = r :: sc -> r_calls r = [] ->
  terminal (spec_action K_READ ATCMD (r_code r)) = false ->
  rd_fresh c (pokes_mem (r_pokes r) (mem s)) = Some txt1 -> length txt1 < bsz ->
  exists m s', hsteps m s q h s' q (drop_script h key 1) [(Q txt, r_code r)]
                 (concat (map wrap (unit_of bsz (text_of txt) r))) /\
    inloop txt1 s' /\ frm s s' /\ mem s' = pokes_mem (r_pokes r) (mem s).
Proof.
  intros txt txt1 s q h r sc Hi HL Hfit Hcr Hok Hsc Hcl Hterm Hfr1 Hfit1.
  pose proof HL as (Ls & Lc & Lp & Lb & Lt & Ll & Lf).
  pose proof (inloop_rq txt s HL) as Hq.
  assert (Hcall : s_call h (rq i s) = (drop_script h key 1, r)).
  { rewrite Hq. exact (s_call_drop h (Q txt) r sc Hsc). }
  pose proof (hstep_call D Hmx s q h i r _ Hi Ls Lc Hcall Hcl) as H1. rewrite Hq in H1.
  destruct (after_call_shape txt s r HL Hfit) as (B & p & Ese & BL & BT & B0). cbv zeta in Ese.
  set (se := apply_edit ATCMD (r_edit r) (fold_left apply_poke (r_pokes r) s)) in *.
  set (m1 := pokes_mem (r_pokes r) (mem s)) in *.
  assert (Fse : frm s se) by (rewrite Ese; unfold frm; repeat split; reflexivity).
  assert (Cse : k_cmd (k se) = Some i) by (rewrite Ese; exact Lc).
  assert (Mse : mem se = m1) by (rewrite Ese; reflexivity).
  assert (Lse : length (cbuf se) = bsz) by (rewrite Ese; exact BL).
  assert (Tse : text_of (cbuf se) = edit_text bsz (text_of txt) (r_edit r)) by (rewrite Ese; exact BT).
  assert (Zse : In 0%N (cbuf se)) by (rewrite Ese; exact B0).
  assert (Fle : fault se = false) by (rewrite Ese; exact Lf).
  assert (Sse : k_state (k se) = CS_READ_LOOP) by (rewrite Ese; exact Ls).
  assert (Hok1 : Forall (rd_var_ok m1) (c_vars c)).
  { exact (rd_vars_ok_shape _ m1 _ (pokes_mem_shape (r_pokes r) (mem s)) Hok). }
  rewrite rdisp_table in H1. unfold Lemmas_C10.unit_of.
  destruct (Lemmas_C10.spec_read_range (r_code r)) as [E|[E|[E|[E|[E|[E|[E|E]]]]]]];
    cbv zeta in E; rewrite E in Hterm, H1 |- *; try discriminate Hterm.
  - (* DATA_NEXT: the unit, then re-format *)
    set (sf := start_flush_c CS_AFTER_FMT_READ se) in *.
    assert (Hif : idle sf) by (apply (idle_frm s se Fse Hi)).
    assert (Hcrf : k_cr (k sf) = false).
    { change (k_cr (k sf)) with (k_cr (k se)). destruct Fse as (_ & _ & _ & _ & X & _). congruence. }
    destruct (emit_unit_cmd D Hmx sf q (edit_text bsz (text_of txt) (r_edit r)) Hif
                (conj eq_refl (conj eq_refl (conj eq_refl eq_refl))) Hcrf Zse Tse)
      as (s3 & O2 & K3 & A3 & G3 & C3).
    change (k_wafter (k sf)) with CS_AFTER_FMT_READ in A3, G3. cbn [cstate_beq] in G3.
    change (k_cmd (k sf)) with (k_cmd (k se)) in C3.
    pose proof K3 as (K31 & K32 & K33 & K34 & K35 & K36 & K37 & K38).
    assert (Hi3 : idle s3) by (apply (Lemmas_E2E.idle_keep sf s3 K3 Hif)).
    assert (O3 : osteps 1 s3 q (start_processing_format_read_args D ATCMD s3) q []).
    { apply (Lemmas_E2E.ostep_pure D Hmx s3 q (start_processing_format_read_args D ATCMD) Hi3).
      intros h0 t. unfold cmd_service. cbn [Fsm.st mkw]. rewrite A3. reflexivity. }
    destruct (reformat_loop s3 q txt1 Hi3) as (s4 & O4 & IL & F4 & M4).
    { rewrite C3. exact Cse. }
    { rewrite K38. exact Lse. }
    { rewrite K32. exact Fle. }
    { rewrite A3. discriminate. }
    { rewrite K31. change (mem sf) with (mem se). rewrite Mse. exact Hok1. }
    { rewrite K31. change (mem sf) with (mem se). rewrite Mse. exact Hfr1. }
    { exact Hfit1. }
    eexists. exists s4. split; [|split; [exact IL | split]].
    + eapply hsteps_cast;
        [exact (hsteps_trans _ _ _ _ _ _ _ _ _ _ _ _ _ _ _ _ H1
                 (hsteps_of_osteps _ _ _ _ _ _ _ _
                    (Lemmas_E2E.osteps_trans D _ _ _ _ _ _ _ _ _ _ O2
                       (Lemmas_E2E.osteps_trans D _ _ _ _ _ _ _ _ _ _ O3
                          (Lemmas_E2E.osteps_of_steps D _ _ _ _ _ O4)))))
        | reflexivity | reflexivity |].
      cbn [map concat]. unfold wrap. rewrite !app_nil_r. reflexivity.
    + eapply frm_trans; [exact Fse|]. eapply frm_trans; [|exact F4].
      unfold frm. change (u sf) with (u se) in K33. change (gL sf) with (gL se) in K34.
      change (gS sf) with (gS se) in K35. change (gR sf) with (gR se) in G3.
      change (k_cr (k sf)) with (k_cr (k se)) in K36. change (k_hold (k sf)) with (k_hold (k se)) in K37.
      repeat split; assumption.
    + rewrite M4, K31. exact Mse.
  - (* NEXT: re-format only *)
    destruct (reformat_loop se q txt1 (idle_frm s se Fse Hi) Cse Lse Fle) as (s4 & O4 & IL & F4 & M4).
    { rewrite Sse. discriminate. }
    { rewrite Mse. exact Hok1. }
    { rewrite Mse. exact Hfr1. }
    { exact Hfit1. }
    eexists. exists s4. split; [|split; [exact IL | split]].
    + eapply hsteps_cast;
        [exact (hsteps_trans _ _ _ _ _ _ _ _ _ _ _ _ _ _ _ _ H1
                 (hsteps_of_osteps _ _ _ _ _ _ _ _ (Lemmas_E2E.osteps_of_steps D _ _ _ _ _ O4)))
        | reflexivity | reflexivity | reflexivity].
    + exact (frm_trans _ _ _ Fse F4).
    + rewrite M4. exact Mse.
Qed.

(* the ending call *)
Lemma call_last : forall txt s q h r sc, idle s -> inloop txt s -> length txt < bsz ->
  length (c_name c) + 1 < bsz ->
  k_cr (k s) = false -> k_hold (k s) = false ->
  script_of h key = r :: sc -> r_calls r = [] ->
  terminal (spec_action K_READ ATCMD (r_code r)) = true -> r_code r <> RC_HOLD ->
  exists m s', hsteps m s q h s' q (drop_script h key 1) [(Q txt, r_code r)]
                 (concat (map wrap (unit_of bsz (text_of txt) r)) ++ [ch_LF] ++ result_text (r_code r) ++ [ch_LF]) /\
    done s (pokes_mem (r_pokes r) (mem s)) s'.
Proof.
  intros txt s q h r sc Hi HL Hfit Hnf Hcr Hho Hsc Hcl Hterm Hnh.
  pose proof HL as (Ls & Lc & Lp & Lb & Lt & Ll & Lf).
  pose proof (inloop_rq txt s HL) as Hq.
  assert (Hcall : s_call h (rq i s) = (drop_script h key 1, r)).
  { rewrite Hq. exact (s_call_drop h (Q txt) r sc Hsc). }
  pose proof (hstep_call D Hmx s q h i r _ Hi Ls Lc Hcall Hcl) as H1. rewrite Hq in H1.
  destruct (after_call_shape txt s r HL Hfit) as (B & p & Ese & BL & BT & B0). cbv zeta in Ese.
  set (se := apply_edit ATCMD (r_edit r) (fold_left apply_poke (r_pokes r) s)) in *.
  set (m1 := pokes_mem (r_pokes r) (mem s)) in *.
  assert (Fse : frm s se) by (rewrite Ese; unfold frm; repeat split; reflexivity).
  assert (Mse : mem se = m1) by (rewrite Ese; reflexivity).
  assert (Lse : length (cbuf se) = bsz) by (rewrite Ese; exact BL).
  assert (Tse : text_of (cbuf se) = edit_text bsz (text_of txt) (r_edit r)) by (rewrite Ese; exact BT).
  assert (Zse : In 0%N (cbuf se)) by (rewrite Ese; exact B0).
  assert (Fle : fault se = fault s) by (rewrite Ese; reflexivity).
  pose proof Fse as (F1 & F3 & F4 & F5 & F6 & F7).
  assert (Hie : idle se) by (apply (idle_frm s se Fse Hi)).
  assert (Hcre : k_cr (k se) = false) by congruence.
  assert (Hhoe : k_hold (k se) = false) by congruence.
  assert (H6e : 6 <= length (cbuf se)) by lia.
  assert (HX1 : fst (hold_exit se ST_OK) = se) by (unfold hold_exit; rewrite Hhoe; reflexivity).
  assert (HX2 : fst (hold_exit se ST_ERROR) = se) by (unfold hold_exit; rewrite Hhoe; reflexivity).
  rewrite rdisp_table in H1. unfold Lemmas_C10.unit_of, result_text.
  destruct (Lemmas_C10.spec_read_range (r_code r)) as [E|[E|[E|[E|[E|[E|[E|E]]]]]]];
    cbv zeta in E; rewrite E in Hterm, H1 |- *; try discriminate Hterm;
    try rewrite HX1 in H1; try rewrite HX2 in H1.
  - (* OK *)
    destruct (ack_ok_tail D Hmx c bsz Hnf H6 se q Hie Hcre Hhoe H6e) as (s4 & O & R1 & R2 & R3 & R4 & R5 & R6 & R7).
    eexists. exists s4. split.
    + eapply hsteps_cast;
        [exact (hsteps_trans _ _ _ _ _ _ _ _ _ _ _ _ _ _ _ _ H1 (hsteps_of_osteps _ _ _ _ _ _ _ _ O))
        | reflexivity | reflexivity | reflexivity].
    + unfold done. repeat split; congruence.
  - (* DATA_OK: the unit, then OK *)
    set (sf := start_flush_c CS_AFTER_OK se) in *.
    destruct (Lemmas_E2E.emit_unit D Hmx sf q (edit_text bsz (text_of txt) (r_edit r)) Hie
                (conj eq_refl (conj eq_refl (conj eq_refl eq_refl))) Hcre Zse Tse)
      as (s3 & O2 & K3 & A3 & G3).
    change (k_wafter (k sf)) with CS_AFTER_OK in A3, G3. cbn [cstate_beq] in G3.
    pose proof K3 as (K31 & K32 & K33 & K34 & K35 & K36 & K37 & K38).
    assert (Hi3 : idle s3) by (apply (Lemmas_E2E.idle_keep sf s3 K3 Hie)).
    destruct (Lemmas_E2E.ok_tail D Hmx s3 q Hi3 A3) as (s4 & O3 & R1 & R2 & R3 & R4 & R5 & R6 & R7 & _).
    { rewrite K36. exact Hcre. }
    { rewrite K37. exact Hhoe. }
    { rewrite K38. exact H6e. }
    eexists. exists s4. split.
    + eapply hsteps_cast;
        [exact (hsteps_trans _ _ _ _ _ _ _ _ _ _ _ _ _ _ _ _ H1
                 (hsteps_of_osteps _ _ _ _ _ _ _ _
                    (Lemmas_E2E.osteps_trans D _ _ _ _ _ _ _ _ _ _ O2 O3)))
        | reflexivity | reflexivity |].
      cbn [map concat]. unfold wrap. rewrite !app_nil_r, <- !app_assoc. reflexivity.
    + unfold done.
      change (mem sf) with (mem se) in K31. change (fault sf) with (fault se) in K32.
      change (u sf) with (u se) in K33. change (gL sf) with (gL se) in K34.
      change (gS sf) with (gS se) in K35. change (gR sf) with (gR se) in G3.
      repeat split; congruence.
  - (* HOLD: excluded *)
    exfalso. apply Hnh. exact (Lemmas_C10b.spec_rt_hold true ATCMD (r_code r) E).
  - (* HOLD_EXIT_OK, nothing held: OK *)
    destruct (ack_ok_tail D Hmx c bsz Hnf H6 se q Hie Hcre Hhoe H6e) as (s4 & O & R1 & R2 & R3 & R4 & R5 & R6 & R7).
    eexists. exists s4. split.
    + eapply hsteps_cast;
        [exact (hsteps_trans _ _ _ _ _ _ _ _ _ _ _ _ _ _ _ _ H1 (hsteps_of_osteps _ _ _ _ _ _ _ _ O))
        | reflexivity | reflexivity | reflexivity].
    + unfold done. repeat split; congruence.
  - (* HOLD_EXIT_ERROR, nothing held: ERROR *)
    destruct (ack_error_tail D Hmx c bsz Hnf H6 se q Hie Hcre Hhoe H6e) as (s4 & O & R1 & R2 & R3 & R4 & R5 & R6 & R7).
    eexists. exists s4. split.
    + eapply hsteps_cast;
        [exact (hsteps_trans _ _ _ _ _ _ _ _ _ _ _ _ _ _ _ _ H1 (hsteps_of_osteps _ _ _ _ _ _ _ _ O))
        | reflexivity | reflexivity | reflexivity].
    + unfold done. repeat split; congruence.
  - (* ERROR and every other integer *)
    destruct (ack_error_tail D Hmx c bsz Hnf H6 se q Hie Hcre Hhoe H6e) as (s4 & O & R1 & R2 & R3 & R4 & R5 & R6 & R7).
    eexists. exists s4. split.
    + eapply hsteps_cast;
        [exact (hsteps_trans _ _ _ _ _ _ _ _ _ _ _ _ _ _ _ _ H1 (hsteps_of_osteps _ _ _ _ _ _ _ _ O))
        | reflexivity | reflexivity | reflexivity].
    + unfold done. repeat split; congruence.
Qed.

Lemma key_refl : key_eqb key key = true.
Proof. apply key_eqb_eq. reflexivity. Qed.

(* the induction over the continuing results; txtn is the fresh text after all their stores *)
Lemma loop_hsteps : forall rs txt s q h rest cl us txtn, idle s -> inloop txt s ->
  rd_fresh c (mem s) = Some txt -> length txt < bsz -> k_cr (k s) = false ->
  Forall (rd_var_ok (mem s)) (c_vars c) ->
  script_of h key = rs ++ rest ->
  (forall r, In r rs -> r_calls r = [] /\ terminal (spec_action K_READ ATCMD (r_code r)) = false) ->
  rvh_spec c i bsz (mem s) rs = Some (cl, us) ->
  rd_fresh c (pokes_mem (flat_map r_pokes rs) (mem s)) = Some txtn -> length txtn < bsz ->
  exists m s', hsteps m s q h s' q (drop_script h key (length rs)) cl (concat (map wrap us)) /\
    inloop txtn s' /\ frm s s' /\ mem s' = pokes_mem (flat_map r_pokes rs) (mem s).
Proof.
  induction rs as [|r rs IH]; intros txt s q h rest cl us txtn Hi HL Hfr Hfit Hcr Hok Hsc Hall Hsp Hfrn Hfitn.
  - cbn [rvh_spec] in Hsp. injection Hsp as <- <-. cbn [flat_map] in Hfrn.
    change (pokes_mem [] (mem s)) with (mem s) in Hfrn.
    assert (txtn = txt) by congruence. subst txtn.
    exists 0, s. split; [|split; [exact HL | split; [apply frm_refl | reflexivity]]].
    cbn [length map concat]. rewrite drop_script_0. apply hsteps_0.
  - cbn [app] in Hsc. destruct (Hall r (or_introl eq_refl)) as [Hc Ht].
    destruct (rvh_spec_cons _ _ _ _ _ _ _ _ Hsp) as (txt' & cl' & us' & F & L & R & -> & ->).
    assert (txt' = txt) by congruence. subst txt'.
    set (m1 := pokes_mem (r_pokes r) (mem s)) in *.
    assert (Hm1 : pokes_mem (flat_map r_pokes (r :: rs)) (mem s) = pokes_mem (flat_map r_pokes rs) m1).
    { cbn [flat_map]. rewrite pokes_mem_app. reflexivity. }
    assert (Htxt1 : exists txt1, rd_fresh c m1 = Some txt1 /\ length txt1 < bsz).
    { destruct rs as [|r2 rs2].
      - exists txtn. rewrite Hm1 in Hfrn. cbn [flat_map] in Hfrn. split; assumption.
      - destruct (rvh_spec_cons _ _ _ _ _ _ _ _ R) as (t1 & _ & _ & F1 & L1 & _). exists t1. auto. }
    destruct Htxt1 as (txt1 & Hfr1 & Hfit1).
    destruct (call_next txt txt1 s q h r (rs ++ rest) Hi HL Hfit Hcr Hok Hsc Hc Ht Hfr1 Hfit1)
      as (n1 & s1 & H1 & IL1 & F1 & M1).
    assert (Hsc1 : script_of (drop_script h key 1) key = rs ++ rest).
    { rewrite script_of_drop, Hsc, key_refl. reflexivity. }
    destruct (IH txt1 s1 q (drop_script h key 1) rest cl' us' txtn) as (n2 & s2 & H2 & IL2 & F2 & M2).
    + exact (idle_frm s s1 F1 Hi).
    + exact IL1.
    + rewrite M1. exact Hfr1.
    + exact Hfit1.
    + destruct F1 as (_ & _ & _ & _ & X & _). congruence.
    + rewrite M1. exact (rd_vars_ok_shape _ m1 _ (pokes_mem_shape (r_pokes r) (mem s)) Hok).
    + exact Hsc1.
    + intros r' Hr'. apply Hall. right. exact Hr'.
    + rewrite M1. exact R.
    + rewrite M1. rewrite Hm1 in Hfrn. exact Hfrn.
    + exact Hfitn.
    + exists (n1 + n2), s2. split; [|split; [exact IL2 | split]].
      * rewrite drop_script_add in H2.
        eapply hsteps_cast; [exact (hsteps_trans _ _ _ _ _ _ _ _ _ _ _ _ _ _ _ _ H1 H2) | reflexivity | reflexivity |].
        rewrite wrap_app. reflexivity.
      * exact (frm_trans _ _ _ F1 F2).
      * rewrite M2, M1, Hm1. reflexivity.
Qed.

(* the whole handler phase, from the first loop state *)
Lemma handler_phase : forall rs rn txt s q h rest cl us, idle s -> inloop txt s ->
  rd_fresh c (mem s) = Some txt -> length txt < bsz ->
  k_cr (k s) = false -> k_hold (k s) = false ->
  Forall (rd_var_ok (mem s)) (c_vars c) ->
  script_of h key = rs ++ rn :: rest ->
  (forall r, In r rs -> terminal (spec_action K_READ ATCMD (r_code r)) = false) ->
  terminal (spec_action K_READ ATCMD (r_code rn)) = true -> r_code rn <> RC_HOLD ->
  (forall r, In r (rs ++ [rn]) -> r_calls r = []) ->
  rvh_spec c i bsz (mem s) (rs ++ [rn]) = Some (cl, us) ->
  exists m s', hsteps m s q h s' q (drop_script h key (S (length rs))) cl
                 (concat (map wrap us) ++ [ch_LF] ++ result_text (r_code rn) ++ [ch_LF]) /\
    done s (pokes_mem (flat_map r_pokes (rs ++ [rn])) (mem s)) s'.
Proof.
  intros rs rn txt s q h rest cl us Hi HL Hfr Hfit Hcr Hho Hok Hsc Hcont Hterm Hnh Hcl Hsp.
  destruct (rvh_spec_app _ _ _ _ _ _ _ _ Hsp) as (cl1 & us1 & cl2 & us2 & R1 & R2 & -> & ->).
  destruct (rvh_spec_cons _ _ _ _ _ _ _ _ R2) as (txtn & cl' & us' & Fn & Ln & R3 & -> & ->).
  cbn [rvh_spec] in R3. injection R3 as <- <-.
  destruct (loop_hsteps rs txt s q h (rn :: rest) cl1 us1 txtn Hi HL Hfr Hfit Hcr Hok Hsc)
    as (m1 & s1 & H1 & IL1 & F1 & M1).
  { intros r Hr. split; [apply Hcl; apply in_or_app; left; exact Hr | apply Hcont; exact Hr]. }
  { exact R1. }
  { exact Fn. }
  { exact Ln. }
  pose proof F1 as (A1 & A3 & A4 & A5 & A6 & A7).
  assert (Hsc1 : script_of (drop_script h key (length rs)) key = rn :: rest).
  { rewrite script_of_drop, Hsc, key_refl.
    rewrite skipn_app, Nat.sub_diag, skipn_all. reflexivity. }
  pose proof IL1 as (_ & _ & _ & _ & _ & _ & Lf1).
  destruct (call_last txtn s1 q (drop_script h key (length rs)) rn rest)
    as (m2 & s2 & H2 & D1 & D2 & D3 & D4 & D5 & D6 & D7).
  - exact (idle_frm s s1 F1 Hi).
  - exact IL1.
  - exact Ln.
  - rewrite <- M1 in Fn. exact (name_fits _ _ Fn Ln).
  - congruence.
  - congruence.
  - exact Hsc1.
  - apply Hcl. apply in_or_app. right. left. reflexivity.
  - exact Hterm.
  - exact Hnh.
  - exists (m1 + m2), s2. split.
    + rewrite drop_script_add in H2. replace (length rs + 1) with (S (length rs)) in H2 by lia.
      eapply hsteps_cast; [exact (hsteps_trans _ _ _ _ _ _ _ _ _ _ _ _ _ _ _ _ H1 H2) | reflexivity | reflexivity |].
      rewrite wrap_app, app_nil_r, <- !app_assoc. reflexivity.
    + unfold done. rewrite flat_map_app, pokes_mem_app. cbn [flat_map]. rewrite app_nil_r.
      destruct HL as (_ & _ & _ & _ & _ & _ & Lf0).
      repeat split; congruence.
Qed.

End Loop.

(* ================= the whole line ================= *)
Section Lines.
Variable s : state.
Hypothesis Hn : 0 < n.
Hypothesis HL : n <= 4 * length (cbuf s).
Hypothesis H6 : 6 <= length (cbuf s).
Hypothesis Hf : fault s = false.
Hypothesis Hst : k_state (k s) = CS_IDLE.
Hypothesis Hcr : k_cr (k s) = false.
Hypothesis Himp : k_implicit (k s) = false.
Hypothesis Hhold : k_hold (k s) = false.
Hypothesis Hidle : idle s.

Lemma read_vars_handler_line_hsteps : forall name rest h i c rs rn more cl us,
  name_ok name = true -> implicit_hit D s (upper name) = false ->
  resolve (upper name) (enabled D s) (cmds D) = Some i -> nth_error (cmds D) i = Some c ->
  c_hread c = true -> vars_access_possible c RO = true -> no_vread c -> c_only_test c = false ->
  Forall (rd_var_ok (mem s)) (c_vars c) ->
  script_of h (1, i, 0) = rs ++ rn :: more ->
  (forall r, In r rs -> terminal (spec_action K_READ ATCMD (r_code r)) = false) ->
  terminal (spec_action K_READ ATCMD (r_code rn)) = true -> r_code rn <> RC_HOLD ->
  (forall r, In r (rs ++ [rn]) -> r_calls r = []) ->
  rvh_spec c i (length (cbuf s)) (mem s) (rs ++ [rn]) = Some (cl, us) ->
  exists calls s4,
    hsteps calls s ([ch_A; ch_T] ++ name ++ [ch_QM; ch_LF] ++ rest) h s4 rest
      (drop_script h (1, i, 0) (S (length rs))) cl
      (concat (map wrap us) ++ [ch_LF] ++ result_text (r_code rn) ++ [ch_LF]) /\
    k_state (k s4) = CS_IDLE /\ mem s4 = pokes_mem (flat_map r_pokes (rs ++ [rn])) (mem s) /\
    fault s4 = false /\ u s4 = u s /\
    gL s4 = S (gL s) /\ gS s4 = S (gS s) /\ gR s4 = S (gR s).
Proof.
  intros name rest h i c rs rn more cl us Hok Hh Hres Hc Hhr Hvap Hnv Hot Hvok Hsc Hcont Hterm Hnh Hcl Hsp.
  (* 1. dispatch *)
  destruct (Lemmas_E2E.dispatch_read_ex D Hmx s Hn HL Hf Hst Himp Hidle name rest Hok Hh)
    as (c1 & s2 & H1 & (M2 & F2 & U2 & R2) & S2).
  rewrite Hres in R2. destruct R2 as (A1 & A2 & A3 & A4).
  unfold Lemmas_E2E.six in S2.
  assert (G2 : gL s2 = S (gL s) /\ gS s2 = gS s /\ gR s2 = gR s /\ k_cr (k s2) = false /\
               k_hold (k s2) = false /\ length (cbuf s2) = length (cbuf s)).
  { repeat split; congruence. }
  destruct G2 as (gl2 & gs2 & gr2 & cr2 & ho2 & len2).
  pose proof (Lemmas_E2E.cmd_at_of_cmds D i c Hc) as Hc'.
  assert (Hi2 : idle s2) by (apply (Lemmas_C02e.idle_of_u s); assumption).
  (* the first fresh text *)
  assert (Hne : exists r0 rs0, rs ++ [rn] = r0 :: rs0).
  { destruct rs as [|r0 rs0]; [exists rn, [] | exists r0, (rs0 ++ [rn])]; reflexivity. }
  destruct Hne as (r0 & rs0 & Ers). pose proof Hsp as Hsp0. rewrite Ers in Hsp0.
  destruct (rvh_spec_cons _ _ _ _ _ _ _ _ Hsp0) as (txt & _ & _ & Ftxt & Ltxt & _).
  (* 2. CS_COMMAND_FOUND, then one call per variable: the read loop on the fresh text *)
  pose proof (Lemmas_E2E.found_read_step D Hmx s2 rest i c Hi2 A1 A2 Hc' A3 Hot) as H2.
  destruct (reformat_loop i c Hc' Hhr Hvap Hnv (length (cbuf s)) H6 s2 rest txt Hi2 A2 len2 F2)
    as (s3 & H3 & IL3 & F3 & M3).
  { rewrite A1. discriminate. }
  { rewrite M2. exact Hvok. }
  { rewrite M2. exact Ftxt. }
  { exact Ltxt. }
  pose proof F3 as (B1 & B3 & B4 & B5 & B6 & B7).
  (* 3. the handler calls, the units, the result code *)
  destruct (handler_phase i c Hc' Hhr Hvap Hnv (length (cbuf s)) H6 rs rn txt s3 rest h more cl us)
    as (m3 & s4 & H4 & R1 & R2 & R3 & R4 & R5 & R6 & R7).
  { exact (idle_frm s2 s3 F3 Hi2). }
  { exact IL3. }
  { rewrite M3, M2. exact Ftxt. }
  { exact Ltxt. }
  { congruence. }
  { congruence. }
  { rewrite M3, M2. exact Hvok. }
  { exact Hsc. }
  { exact Hcont. }
  { exact Hterm. }
  { exact Hnh. }
  { exact Hcl. }
  { rewrite M3, M2. exact Hsp. }
  destruct IL3 as (_ & _ & _ & _ & _ & _ & Lf3).
  exists ((c1 + 1 + length (c_vars c)) + m3), s4. split.
  - eapply hsteps_cast;
      [exact (hsteps_trans _ _ _ _ _ _ _ _ _ _ _ _ _ _ _ _
               (hsteps_of_osteps _ _ _ _ _ _ _ h
                  (Lemmas_E2E.osteps_of_steps D _ _ _ _ _
                     (Lemmas_C02e.steps_trans D _ _ _ _ _ _ _ _
                        (Lemmas_C02e.steps_trans D _ _ _ _ _ _ _ _ H1 H2) H3)))
               H4)
      | reflexivity | reflexivity | reflexivity].
  - split; [exact R1|]. split; [rewrite R2, M3, M2; reflexivity|].
    split; [congruence|]. split; [congruence|]. split; [congruence|]. split; congruence.
Qed.

End Lines.
End Line.

(* ================= the final statement ================= *)
Theorem E2E_read_vars_handler_line_proof : forall D s name rest h i c rs rn more cl us,
  d_mutex D = false -> 0 < ncmds D -> ncmds D <= 4 * length (cbuf s) -> 6 <= length (cbuf s) ->
  fault s = false ->
  k_state (k s) = CS_IDLE -> k_cr (k s) = false -> k_implicit (k s) = false -> k_hold (k s) = false ->
  u_state (u s) = US_IDLE -> u_count (u s) = 0 ->
  name_ok name = true -> implicit_hit D s (upper name) = false ->
  resolve (upper name) (enabled D s) (cmds D) = Some i -> nth_error (cmds D) i = Some c ->
  c_hread c = true -> vars_access_possible c RO = true -> no_vread c -> c_only_test c = false ->
  Forall (rd_var_ok (mem s)) (c_vars c) ->
  script_of h (1, i, 0) = rs ++ rn :: more ->
  (forall r, In r rs -> terminal (spec_action K_READ ATCMD (r_code r)) = false) ->
  terminal (spec_action K_READ ATCMD (r_code rn)) = true -> r_code rn <> RC_HOLD ->
  (forall r, In r (rs ++ [rn]) -> r_calls r = []) ->
  rvh_spec c i (length (cbuf s)) (mem s) (rs ++ [rn]) = Some (cl, us) ->
  let w0 := mkw s ([ch_A; ch_T] ++ name ++ [ch_QM; ch_LF] ++ rest) h [] in
  exists calls, let w := nsvc D calls w0 in
    k_state (k (wst w)) = CS_IDLE /\ inq (wio w) = rest /\
    whs w = drop_script h (1, i, 0) (S (length rs)) /\
    GlueDefs.calls_of (wtr w) = cl /\
    mem (wst w) = pokes_mem (flat_map r_pokes (rs ++ [rn])) (mem s) /\ fault (wst w) = false /\
    GlueDefs.output_of (wtr w) =
      concat (map (fun u => [ch_LF] ++ u ++ [ch_LF]) us) ++
      [ch_LF] ++ match spec_action K_READ ATCMD (r_code rn) with
                 | A_OK | A_EMIT_OK | A_RELEASE_OK => txt_OK
                 | _ => txt_ERROR
                 end ++ [ch_LF] /\
    gL (wst w) = S (gL s) /\ gS (wst w) = S (gS s) /\ gR (wst w) = S (gR s).
Proof.
  intros D s name rest h i c rs rn more cl us Hmx Hn HL H6 Hf Hst Hcr Himp Hhold Hu1 Hu2 Hok Hh Hres Hc
         Hhr Hvap Hnv Hot Hvok Hsc Hcont Hterm Hnh Hcl Hsp w0.
  destruct (read_vars_handler_line_hsteps D Hmx s Hn HL H6 Hf Hst Hcr Himp Hhold (conj Hu1 Hu2)
              name rest h i c rs rn more cl us Hok Hh Hres Hc Hhr Hvap Hnv Hot Hvok Hsc Hcont Hterm Hnh Hcl Hsp)
    as (calls & s4 & H & L1 & L2 & L3 & L4 & L5 & L6 & L7).
  exists calls. intros w.
  destruct (hsteps_world D _ _ _ _ _ _ _ _ _ H) as (E1 & E2 & E3 & E4 & E5).
  fold w0 in E1, E2, E3, E4, E5. fold w in E1, E2, E3, E4, E5. rewrite E1.
  split; [exact L1|]. split; [exact E2|]. split; [exact E3|]. split; [exact E4|].
  split; [exact L2|]. split; [exact L3|]. split; [exact E5|].
  split; [exact L5|]. split; [exact L6 | exact L7].
Qed.

(* without stores the fresh text is the same every time: rvh_spec is units_of *)
Lemma rvh_spec_nopokes : forall c i bsz m txt rs,
  (forall r, In r rs -> r_pokes r = []) -> rd_fresh c m = Some txt -> length txt < bsz ->
  rvh_spec c i bsz m rs =
    Some (map (fun r => (HRead ATCMD i (txt ++ [0%N]) (length txt) bsz, r_code r)) rs,
          Lemmas_C10.units_of bsz (text_of txt) (text_of txt) rs).
Proof.
  intros c i bsz m txt. induction rs as [|r rs IH]; intros Hp Hf Hl; [reflexivity|].
  cbn [rvh_spec map Lemmas_C10.units_of]. rewrite Hf.
  replace (length txt <? bsz) with true by (symmetry; apply Nat.ltb_lt; exact Hl).
  rewrite (Hp r (or_introl eq_refl)). change (pokes_mem [] m) with m.
  rewrite IH; [reflexivity | | exact Hf | exact Hl].
  intros r' Hr'. apply Hp. right. exact Hr'.
Qed.

End E2E.
