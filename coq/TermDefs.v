(* TermDefs.v — definitions used to state C15, second half (termination of the service loop on the
   scripted environment of Script.v).  No proofs. *)
From Coq Require Import List NArith ZArith Bool Arith.
From CatV Require Import Bytes Defs Codec Fsm Script SchedDefs.
Import ListNotations.

(* total number of scripted handler results still to be consumed *)
Definition script_left (h : shs) : nat := fold_right (fun e a => length (snd e) + a) 0 h.

(* a scripted result that does not ask for HOLD *)
Definition no_hold_res (r : hres) : bool := negb (r_code r =? RC_HOLD)%Z.

(* the API calls made from inside a handler only trigger commands of the pool *)
Definition icall_okb (D : desc) (c : icall) : bool :=
  match c with ITrigger ci _ => ci <? length (pool D) | IHoldExit _ => true end.
Definition res_calls_ok (D : desc) (r : hres) : bool := forallb (icall_okb D) (r_calls r).

(* ---- the explicit bound on the number of cat_service calls ---- *)
(* largest number of variables of a command *)
Definition max_vars (D : desc) : nat :=
  fold_right (fun c a => Nat.max (length (c_vars c)) a) 0 (pool D).
(* calls of one complete run of the event machine (format + handler + flush of its buffer) *)
Definition cost_u (D : desc) : nat := 10 * (max_vars D + 1) * (3 * usz_of D + 14).
(* calls of one complete run of the command machine (name sweeps, argument loops, the list printer:
   every command, six forms, one flush of the working buffer each) *)
Definition cost_c (D : desc) : nat := 21 * (ncmds D + max_vars D + 1) * 7 * (3 * asz_of D + 14).
(* a script entry may refill the event queue and restart both machines; an input byte restarts
   the command machine; a queued event restarts the event machine *)
Definition C15_bound (D : desc) (w : sworld) : nat :=
  script_left (hs _ _ _ w) * ((d_cap D + 1) * cost_u D + cost_c D) +
  length (inq (io _ _ _ w)) * cost_c D +
  u_count (u (st _ _ _ w)) * cost_u D +
  cost_u D + cost_c D.
