(* TermDefs.v — definitions used to state C15, second half (termination of the service loop on the
   scripted environment of Script.v).  No proofs. *)
From Coq Require Import List NArith ZArith Bool Arith.
From CatV Require Import Bytes Defs Codec Fsm Script SchedDefs.
Import ListNotations.

(* total number of scripted handler results still to be consumed *)
Definition script_left (h : shs) : nat := fold_right (fun e a => length (snd e) + a) 0 h.

(* a scripted result that does not ask for HOLD *)
Definition no_hold_res (r : hres) : bool := negb (r_code r =? RC_HOLD)%Z.

(* the API calls made from inside a handler only trigger commands of the pool *)
Definition icall_okb (D : desc) (c : icall) : bool :=
  match c with ITrigger ci _ => ci <? length (pool D) | IHoldExit _ => true end.
Definition res_calls_ok (D : desc) (r : hres) : bool := forallb (icall_okb D) (r_calls r).
