(* HandlerTieLib.v -- static part of the "handler tie" (tools/handler_translate.py copies this
   file into its work directory and compiles it there, before the generated HandlerGen.v and the
   assembled HandlerTie.v; it is NOT part of _CoqProject).

   1. store_c ...    the vocabulary of the generated code that the model does not have: stores
                     into the two buffers and into the ring, u8 (C conversion to uint8_t) with the
                     sweep lemmas, the command groups as the C loops see them (grp, enum_groups),
                     the C-shaped views of model functions with out-parameters / a ring walk
                     (pop_c, scan_ring, buffered_c), the shapes of the public functions
   2. tie_auto       the generic proof of "generated definition = model function"; lane_core (the
                     exhaustive sweep for the bit arithmetic); tie_loop / tie_wloop (loops)
                     third pass: the C-shaped views of the decoders / validators / formatters
                     (parse_*_c, validate_*_c, fmt_c) and of the printers, the vocabulary of the
                     oracle calls (oreq, oview, cb_effect, onorm) with the static facts about
                     Fsm.call_h (call_h_effect, run_cb), the handler calls (hcall)
                     fourth pass: the getters (cdesc_of: the descriptor as C sees it, bufptr /
                     strptr / ptr_add, atcmd_ptr / unsol_ptr / cur_ptr / left_space, the region
                     lemma generated_regions, tie_getter)
   3. state_eqb ...  decidable comparison of states, and the deterministic families of concrete
                     states on which a FAILED tie is evaluated to find a witness (diagnosis only:
                     nothing in section 3 is used by a tie theorem)
   Every lemma is proved; nothing is assumed. *)
From Coq Require Import List NArith ZArith Bool Arith Lia String.
From CatV Require Import Bytes Defs Codec Fsm.
Import ListNotations.
Local Open Scope nat_scope.

(* ====================================================================================== *)
(* 1. Vocabulary of the generated code that is not in the model                           *)
(* ====================================================================================== *)

(* get_atcmd_buf(self)[i] = v : a store outside the working buffer is undefined behaviour in C;
   here it sets the model's fault flag (a state with the flag set is outside the verified
   envelope), as the model does for its own out-of-range accesses. *)
Definition store_c (i : nat) (v : N) (s : state) : state :=
  if i <? asz s then set_cbuf (upd (cbuf s) i v) s else set_fault_flag s.

(* get_unsolicited_buf(self)[i] = v : the same for the buffer of the event machine *)
Definition store_u (i : nat) (v : N) (s : state) : state :=
  if i <? usz s then set_ubuf (upd (ubuf s) i v) s else set_fault_flag s.

(* what a status-returning function answers after a fault (the flag is set: the state is outside
   the verified envelope, the value is irrelevant; it only has to be fixed) *)
Definition fault_status : Z := ST_ERROR.
(* Printing.  print_string_to_buf answers 0 / -1: print_string_c is Fsm.print_string seen that way.
   self->var (self->unsolicited_fsm.var) is, in the model, the index of a variable of the command
   the machine is processing: var_of is the descriptor get_var_by_fsm returns. *)
Definition print_string_c (f : fsm) (s : state) (t : list N) : state * Z :=
  let (s', ok) := print_string f s t in (s', if ok then 0%Z else (-1)%Z).
Definition var_of (D : desc) (f : fsm) (s : state) : option var :=
  match cmd_of D f s with Some c => nth_error (c_vars c) (g_var f s) | None => None end.
(* Model functions seen as the C functions that return a status (and the fixed answer after a
   fault): next_format_var_by_fsm (true = CAT_STATUS_BUSY), print_response_test and
   format_info_type (0 / -1).  The ties of these three C functions are stated against them. *)
Definition next_format_var_c (D : desc) (f : fsm) (s : state) : state * Z :=
  match cmd_of D f s with
  | None => (set_fault_flag s, fault_status)
  | Some _ => let (s', b) := next_format_var D f s in (s', if b then ST_BUSY else ST_OK)
  end.
Definition print_response_test_c (D : desc) (f : fsm) (s : state) : state * Z :=
  match cmd_of D f s with
  | None => (set_fault_flag s, fault_status)
  | Some _ => let (s', ok) := print_response_test D f s in (s', if ok then 0%Z else (-1)%Z)
  end.
(* The model prints several strings through ONE cursor (Codec.print_pieces); C calls
   print_string_to_buf once per string, each call re-reading the position from the object.
   print_strings_cons / print_strings_nil (facts about the model only): it is the same thing. *)
Lemma cur_store_list_nofault : forall l c i, cu_fault c = false ->
  i + Datatypes.length l <= Datatypes.length (cu_buf c) ->
  cu_fault (cur_store_list c i l) = false /\
  Datatypes.length (cu_buf (cur_store_list c i l)) = Datatypes.length (cu_buf c).
Proof.
  induction l as [|x l IH]; intros c i Hf Hl; cbn [cur_store_list Datatypes.length] in *.
  - split; [exact Hf | reflexivity].
  - assert (Hlen : forall (A : Type) (l : list A) j v, Datatypes.length (upd l j v) = Datatypes.length l).
    { intros A l0. induction l0 as [|a l0 IHl]; intros [|j] v; cbn; try reflexivity. rewrite IHl. reflexivity. }
    unfold cur_store at 1 2. destruct (i <? Datatypes.length (cu_buf c)) eqn:E.
    + destruct (IH (mkCur (upd (cu_buf c) i x) (cu_pos c) (cu_fault c)) (S i)) as [H1 H2].
      * exact Hf.
      * cbn [cu_buf]. rewrite Hlen. lia.
      * split; [exact H1|]. rewrite H2. cbn [cu_buf]. apply Hlen.
    + apply Nat.ltb_ge in E. lia.
Qed.
Lemma print_nstring_ok_nofault : forall c t c', cu_fault c = false ->
  print_nstring c t = (c', true) -> cu_fault c' = false.
Proof.
  intros c t c' Hf. unfold print_nstring.
  destruct (Datatypes.length (cu_buf c) <? cu_pos c) eqn:E1; [discriminate|].
  destruct (Datatypes.length (cu_buf c) - cu_pos c <=? Datatypes.length t) eqn:E2; [discriminate|].
  apply Nat.ltb_ge in E1. apply Nat.leb_gt in E2. intros H. injection H as <-.
  destruct (cur_store_list_nofault t c (cu_pos c) Hf) as [H1 H2]; [lia|].
  unfold cur_store, cur_set_pos. cbn [cu_buf cu_pos cu_fault]. rewrite H2.
  destruct (cu_pos c + Datatypes.length t <? Datatypes.length (cu_buf c)) eqn:E3.
  - cbn [cu_fault]. exact H1.
  - apply Nat.ltb_ge in E3. lia.
Qed.
Lemma get_put_cur : forall f c s, cu_fault c = false -> get_cur f (put_cur f c s) = c.
Proof. intros f [b p fl] s H. cbn in H. subst fl. destruct f; reflexivity. Qed.
Lemma put_put_cur : forall f c c' s, cu_fault c = false ->
  put_cur f c' (put_cur f c s) = put_cur f c' s.
Proof. intros f [b p fl] [b' p' fl'] s H. cbn in H. subst fl. destruct f, fl'; reflexivity. Qed.
Lemma put_get_cur : forall f s, put_cur f (get_cur f s) s = s.
Proof. intros f [[] [] ? ? ? ? ? ? ? ? ?]. destruct f; reflexivity. Qed.
(* print_string_to_buf does not touch cr_flag (C reads it again for every new line it prints; the
   model reads it once): used by tie_split when it meets a call of print_string *)
Lemma print_string_cr : forall f s t, k_cr (k (fst (print_string f s t))) = k_cr (k s).
Proof.
  intros f s t. unfold print_string. destruct (print_nstring (get_cur f s) t) as [c ok].
  cbn [fst]. unfold put_cur. destruct (cu_fault c), f; reflexivity.
Qed.
Lemma print_strings_nil : forall f s, print_strings f s [] = (s, true).
Proof. intros. unfold print_strings. cbn [print_pieces]. rewrite put_get_cur. reflexivity. Qed.
Lemma print_strings_cons : forall f s p r,
  print_strings f s (p :: r) =
  let (s1, ok) := print_string f s p in if ok then print_strings f s1 r else (s1, false).
Proof.
  intros f s p r. unfold print_strings, print_string. cbn [print_pieces].
  destruct (print_nstring (get_cur f s) p) as [c1 ok] eqn:E. destruct ok; [|reflexivity].
  assert (H1 : cu_fault c1 = false) by (eapply print_nstring_ok_nofault; [|exact E]; reflexivity).
  rewrite get_put_cur by exact H1.
  destruct (print_pieces c1 r) as [c2 ok2]. rewrite put_put_cur by exact H1. reflexivity.
Qed.

(* The queue of unsolicited events.  `item = &ring[i]; item->cmd = v; item->type = w;` are two
   stores into one entry of the ring: ring_store (a store outside the ring sets the fault flag). *)
Definition ring_store (i : nat) (f : nat * ctype -> nat * ctype) (s : state) : state :=
  match nth_error (u_ring (u s)) i with
  | Some it => setu_ring (upd (u_ring (u s)) i (f it)) s
  | None => set_fault_flag s
  end.
(* Fsm.pop_unsolicited_cmd seen as the C function: status and the two OUT-parameters *cmd, *type
   (None = not written).  This is the mapping between the C signature and the model's. *)
Definition pop_c (D : desc) (s : state) : state * Z * option (option nat) * option ctype :=
  if ring_empty s then (s, ST_BUFFER_EMPTY, None, None)
  else match pop_unsolicited_cmd D s with
       | (s', Some (ci, t)) => (s', ST_OK, Some (Some ci), Some t)
       | (s', None) => (s', fault_status, None, None)
       end.

(* cat_is_unsolicited_event_buffered walks over the live entries of the ring as Fsm.ring_items_go
   does, but stops at the first match and reads the ring through a C array: scan_ring is that
   walk (None = an index outside the ring, a fault; ring_items_go just stops there).
   scan_ring_sound / buffered_c_is_model: whenever the walk does not fault it answers what
   Fsm.is_event_buffered answers. *)
Fixpoint scan_ring (D : desc) (ring : list (nat * ctype)) (ci : nat) (t : ctype) (idx num : nat)
  : option bool :=
  match num with
  | O => Some false
  | S n => match nth_error ring idx with
           | None => None
           | Some it => if ev_match ci t it then Some true
                        else scan_ring D ring ci t (if cap D <=? S idx then 0 else S idx) n
           end
  end.
Lemma scan_ring_sound : forall D ring ci t n idx b,
  scan_ring D ring ci t idx n = Some b -> b = existsb (ev_match ci t) (ring_items_go D ring idx n).
Proof.
  induction n as [|n IH]; cbn [scan_ring ring_items_go existsb]; intros idx b H.
  - injection H as <-. reflexivity.
  - destruct (nth_error ring idx) as [it|]; [|discriminate]. cbn [existsb].
    destruct (ev_match ci t it); [injection H as <-; reflexivity|]. cbn [orb]. apply IH. exact H.
Qed.
Definition buffered_c (D : desc) (s : state) (ci : nat) (t : ctype) : option Z :=
  let cur := match u_cmd (u s) with
             | Some c => ev_match ci t (c, u_type (u s))
             | None => false
             end in
  if cur then Some ST_BUSY
  else match scan_ring D (u_ring (u s)) ci t (u_head (u s)) (u_count (u s)) with
       | Some true => Some ST_BUSY
       | Some false => Some ST_OK
       | None => None
       end.
Lemma buffered_c_is_model : forall D s ci t r,
  buffered_c D s ci t = Some r -> r = is_event_buffered D s ci t.
Proof.
  intros D s ci t r. unfold buffered_c, is_event_buffered, ring_items.
  destruct (match u_cmd (u s) with Some c => ev_match ci t (c, u_type (u s)) | None => false end).
  - cbn. congruence.
  - cbn [orb]. destruct (scan_ring D (u_ring (u s)) ci t (u_head (u s)) (u_count (u s))) as [b|] eqn:E;
      [|discriminate].
    apply scan_ring_sound in E. rewrite <- E. destruct b; congruence.
Qed.

(* The command groups of the descriptor, as the loops of cat.c see them: element number gi of
   self->desc->cmd_group, the number of commands in the groups before it (the model numbers the
   commands globally: Defs.cmds, Defs.dis_cmd), and its commands. *)
Definition grp : Type := (nat * nat * list cmd)%type.
Definition grp_index (g : grp) : nat := fst (fst g).
Definition grp_off (g : grp) : nat := snd (fst g).
Definition grp_cmds (g : grp) : list cmd := snd g.
Fixpoint enum_groups (gs : list (list cmd)) (gi off : nat) : list grp :=
  match gs with
  | [] => []
  | g :: r => (gi, off, g) :: enum_groups r (S gi) (off + Datatypes.length g)
  end.

(* C integer arithmetic on uint8_t.  The translator lifts a uint8_t VALUE to N and the `int` it
   is promoted to (C11 6.3.1.1) to Z, with the mathematical operations of Z (Z.shiftl, Z.shiftr,
   Z.land, Z.lor, Z.lnot); it checks on intervals that no shift is undefined and that every
   intermediate value fits an int, so that these ARE the C operations.  The conversion back to
   uint8_t (assignment to a uint8_t object) is u8: reduction modulo 256 (C11 6.3.1.3p2).  Reading
   a `char` of the working buffer as uint8_t is u8 (Z.of_N b): the byte itself. *)
Definition u8 (x : Z) : N := Z.to_N (x mod 256).
Definition bytes : list N := map N.of_nat (seq 0 256).

Lemma u8_lt : forall x, (u8 x < 256)%N.
Proof.
  intros x. unfold u8. pose proof (Z.mod_pos_bound x 256 eq_refl) as H.
  apply (proj2 (N2Z.inj_lt _ _)). rewrite Z2N.id by lia. change (Z.of_N 256) with 256%Z. lia.
Qed.
Lemma u8_of_N : forall b, u8 (Z.of_N b) = N.land b 255.
Proof.
  intros b. unfold u8. change 256%Z with (Z.of_N 256). rewrite <- N2Z.inj_mod, N2Z.id.
  change 255%N with (N.ones 8). rewrite N.land_ones. reflexivity.
Qed.
(* the model's lane functions only look at the low 8 bits of the byte they are given *)
Lemma lane_get_u8 : forall b j, j < 4 -> lane_get (u8 (Z.of_N b)) j = lane_get b j.
Proof.
  intros b j Hj. rewrite u8_of_N. unfold lane_get. rewrite N.shiftr_land, <- N.land_assoc.
  destruct j as [|[|[|[|j]]]]; try lia; reflexivity.
Qed.
Lemma lane_set_u8 : forall b j v, j < 4 -> lane_set (u8 (Z.of_N b)) j v = lane_set b j v.
Proof.
  intros b j v Hj. rewrite u8_of_N. unfold lane_set. rewrite <- N.land_assoc.
  destruct j as [|[|[|[|j]]]]; try lia; reflexivity.
Qed.
Lemma in_bytes : forall b, (b < 256)%N -> In b bytes.
Proof.
  intros b H. unfold bytes. apply in_map_iff. exists (N.to_nat b). split; [apply N2Nat.id|].
  apply in_seq. lia.
Qed.
(* exhaustive sweeps: byte 0..255 x lane 0..3 [x uint8_t value 0..255] *)
Lemma sweep_bj (f g : N -> nat -> N) :
  forallb (fun b => forallb (fun j => (f b j =? g b j)%N) [0; 1; 2; 3]) bytes = true ->
  forall b j, (b < 256)%N -> j < 4 -> f b j = g b j.
Proof.
  intros H b j Hb Hj. rewrite forallb_forall in H. specialize (H b (in_bytes b Hb)).
  rewrite forallb_forall in H. apply N.eqb_eq, H.
  destruct j as [|[|[|[|j]]]]; try lia; cbn; auto.
Qed.
Lemma sweep_bjv (f g : N -> nat -> N -> N) :
  forallb (fun b => forallb (fun j => forallb (fun v => (f b j v =? g b j v)%N) bytes)
                            [0; 1; 2; 3]) bytes = true ->
  forall b j v, (b < 256)%N -> j < 4 -> (v < 256)%N -> f b j v = g b j v.
Proof.
  intros H b j v Hb Hj Hv. rewrite forallb_forall in H. specialize (H b (in_bytes b Hb)).
  rewrite forallb_forall in H.
  assert (Hin : In j [0; 1; 2; 3]) by (destruct j as [|[|[|[|j]]]]; try lia; cbn; auto).
  specialize (H j Hin). rewrite forallb_forall in H. apply N.eqb_eq, H, in_bytes, Hv.
Qed.

(* The dispatching switches of cat_service / unsolicited_events_service are generated as TABLES
   state -> dispatch.  hname = the C functions a dispatching arm may call (one constructor per
   function; the ones that take a cat_fsm_type carry it); what calling them MEANS in the model is
   fixed in HandlerTie.v.in (run_assign / run_busy), not here. *)
Inductive hname :=
  | H_error_state | H_process_idle_state | H_parse_prefix | H_parse_command | H_update_command
  | H_wait_read_acknowledge | H_search_command | H_command_found | H_command_not_found
  | H_parse_command_args | H_parse_write_args | H_format_read_args (f : fsm)
  | H_wait_test_acknowledge | H_format_test_args (f : fsm) | H_process_write_loop
  | H_process_read_loop (f : fsm) | H_process_test_loop (f : fsm) | H_process_run_loop
  | H_process_hold_state | H_process_io_write_wait | H_process_io_write
  | H_unsolicited_process_io_write_wait | H_unsolicited_process_io_write
  | H_reset_state | H_unsolicited_reset_state | H_ack_ok
  | H_start_processing_format_read_args (f : fsm) | H_start_processing_format_test_args (f : fsm)
  | H_end_processing_with_ok (f : fsm) | H_print_cmd_list | H_check_unsolicited_buffers.
Inductive dispatch :=
  | DAssign (h : hname)      (* s = h(self);                                                *)
  | DBusy (h : hname)        (* h(self); s = CAT_STATUS_BUSY;                               *)
  | DIfEvents (h : hname)    (* if (!is_unsolicited_buffer_empty(self)) { h(self); s = BUSY } *)
  | DCallOnly (h : hname)    (* h(self);   (its status, if any, is dropped: s unchanged)    *)
  | DUnknown                 (* s = CAT_STATUS_ERROR_UNKNOWN_STATE;                         *)
  | DNothing.                (* s unchanged                                                 *)
Scheme Equality for hname.
Scheme Equality for dispatch.

(* The public functions that take the mutex are generated as a SHAPE (+ their body, a state
   function).  Statements are identified by their line in cat.c.
     <declarations, asserts>  as_pre  if (lock fails) return as_lock;  BODY
     if (unlock fails) return as_unlock;  as_post  return <expression>; *)
Record api_shape := mkApiShape {
  as_pre : list nat;           (* statements about *self before the lock test              *)
  as_lock : Z;                 (* status returned when lock() fails                        *)
  as_unlock : Z;               (* status returned when unlock() fails                      *)
  as_inner_returns : nat;      (* `return`s between lock and unlock (they would skip unlock) *)
  as_extra_mutex : nat;        (* uses of self->mutex outside the two tests                *)
  as_post : list nat;          (* statements about *self after the unlock test             *)
  as_return_pure : bool }.     (* the final return does not mention self                   *)
(* the shape of Fsm.bracket *)
Definition expected_api_shape : api_shape :=
  mkApiShape [] ST_MUTEX_LOCK ST_MUTEX_UNLOCK 0 0 [] true.
(* cat_service: what stands between lock and unlock, in order *)
Inductive body_item :=
  | BI_events_service          (* <local> = unsolicited_events_service(self);                 *)
  | BI_dispatch                (* switch (self->state) { .. }   (tied as g_cat_service_dispatch) *)
  | BI_merge.                  (* if (<that local> ..) s = ..;  (tied as g_cat_service_merge)    *)
Record service_shape := mkServiceShape { ss_api : api_shape; ss_body : list body_item }.
(* the merge of the two statuses at the end of Fsm.service_body (see cat_service_is_bracket in
   HandlerTie.v.in): st0 = status of the command machine, us = status of the event machine *)
Definition service_merge (st0 us : Z) (s : state) : Z :=
  if negb (us =? ST_OK)%Z || negb (ustate_beq (u_state (u s)) US_IDLE) then ST_BUSY else st0.
Definition expected_service_shape : service_shape :=
  mkServiceShape expected_api_shape [BI_events_service; BI_dispatch; BI_merge].

Definition format_info_type_c (D : desc) (f : fsm) (s : state) : state * Z :=
  match var_of D f s with
  | None => (set_fault_flag s, fault_status)
  | Some v =>
    match type_name (v_type v) (v_size v) with
    | None => (s, (-1)%Z)
    | Some tn => let (s', ok) := print_strings f s (info_pieces v tn) in
                 (s', if ok then 0%Z else (-1)%Z)
    end
  end.

(* print_current_cmd_full_name(self, suffix) reads self->cmd; Fsm.print_current_cmd_full_name is
   given the descriptor.  0 / -1. *)
Definition print_current_cmd_full_name_c (D : desc) (suffix : list N) (s : state) : state * Z :=
  match cmd_of D ATCMD s with
  | None => (set_fault_flag s, fault_status)
  | Some c => let (s', ok) := print_current_cmd_full_name s c suffix in
              (s', if ok then 0%Z else (-1)%Z)
  end.
(* print_string_to_buf does not store into self->cmd (CMD_PRESERVING_HELPERS of the translator) *)
Lemma print_string_c_cmd : forall f f' s t, g_cmd f' (fst (print_string_c f s t)) = g_cmd f' s.
Proof.
  intros f f' s t. unfold print_string_c, print_string.
  destruct (print_nstring (get_cur f s) t) as [c ok]. cbn [fst]. unfold put_cur.
  destruct (cu_fault c), f, f'; reflexivity.
Qed.
(* a registered command, found by walking over the groups (get_command_by_index), is the element
   of that number of Fsm.pool, which is what self->cmd = <that pointer> means in the model *)
Lemma cmd_by_index_concat : forall gs i c, cmd_by_index gs i = Some c -> nth_error (List.concat gs) i = Some c.
Proof.
  induction gs as [|g gs IH]; cbn [cmd_by_index List.concat]; intros i c H; [discriminate|].
  destruct (i <? Datatypes.length g) eqn:E.
  - apply Nat.ltb_lt in E. rewrite nth_error_app1 by exact E. exact H.
  - apply Nat.ltb_ge in E. rewrite nth_error_app2 by exact E. apply IH. exact H.
Qed.
Lemma cmd_by_index_pool : forall D i c,
  cmd_by_index (d_groups D) i = Some c -> nth_error (pool D) i = Some c.
Proof.
  intros D i c H. apply cmd_by_index_concat in H. unfold pool, cmds.
  rewrite nth_error_app1; [exact H|]. apply nth_error_Some. rewrite H. discriminate.
Qed.

(* ---- the argument decoders and range validators as parse_write_args calls them.  They are tied
        by tools/codec_translate.py to Codec.parse_int .. / validate_int .. on (text behind the cursor,
        storage of the variable); here: which text, which storage, and what the C function leaves in
        the object.  The text is get_atcmd_buf(self) from self->position, the cursor moves by the
        number of characters consumed; the status is -1 / 0 / 1 (error / last argument / a comma
        follows); *ret is written on success only.  The storage is the slot of the variable
        self->var points to; a variable WITHOUT a slot is an ill-formed model state: fault (that is
        where Fsm.parse_write_args faults, before decoding). ---- *)
Definition cur_data (D : desc) (s : state) : option (var * list N) :=
  match var_of D ATCMD s with
  | Some v => match nth_error (mem s) (v_slot v) with Some d => Some (v, d) | None => None end
  | None => None
  end.
Definition rest_of (s : state) : list N := skipn (k_position (k s)) (cbuf s).
Definition stat_of (p : pstat) : Z :=
  match p with SOk true => 1%Z | SOk false => 0%Z | _ => (-1)%Z end.
Definition scan_state (s : state) (p : pstat) (n : nat) : state :=
  let s1 := setk_position (k_position (k s) + n) s in
  match p with SFault => set_fault_flag s1 | _ => s1 end.
Definition parse_num_c {V : Type} (parse : list N -> pstat * V * nat) (D : desc) (s : state)
  : state * Z * option V :=
  match cur_data D s with
  | None => (set_fault_flag s, fault_status, None)
  | Some _ =>
    let '(pst, val, n) := parse (rest_of s) in
    (scan_state s pst n, stat_of pst, match pst with SOk _ => Some val | _ => None end)
  end.
Definition parse_int_c := parse_num_c parse_int.
Definition parse_uint_c := parse_num_c parse_uint.
Definition parse_hex_c := parse_num_c parse_hex.
Definition parse_buf_c (parse : list N -> list N -> bool -> nat -> bres) (D : desc) (s : state) : state * Z :=
  match cur_data D s with
  | None => (set_fault_flag s, fault_status)
  | Some (v, data) =>
    let r := parse (rest_of s) data (vaccess_beq (v_access v) RO) (v_size v) in
    let s1 := set_mem (upd (mem s) (v_slot v) (b_data r)) (scan_state s (b_st r) (b_n r)) in
    (match b_st r with SOk _ => setk_write_size (b_wsize r) s1 | _ => s1 end, stat_of (b_st r))
  end.
Definition parse_bufhex_c := parse_buf_c parse_bufhex.
Definition parse_bufstr_c := parse_buf_c parse_bufstr.
Definition validate_c {V : Type} (validate : bool -> nat -> V -> list N -> vres) (D : desc) (s : state) (val : V)
  : state * Z :=
  match cur_data D s with
  | None => (set_fault_flag s, fault_status)
  | Some (v, data) =>
    match validate (vaccess_beq (v_access v) RO) (v_size v) val data with
    | VFault => (set_fault_flag s, (-1)%Z)
    | VErr => (s, (-1)%Z)
    | VOk d ws => (setk_write_size ws (set_mem (upd (mem s) (v_slot v) d) s), 0%Z)
    end
  end.
Definition validate_int_c := validate_c validate_int.
Definition validate_uint_c := validate_c validate_uint.
(* int64_t <-> uint64_t.  parse_write_args keeps the value in an int64_t local, the two unsigned
   decoders store through (uint64_t * )&val and the value is converted back when it is passed to
   validate_uint_range: c_u64 (c_s64 u) = u for every u < 2^64 (c_u64_s64 below) *)
Definition c_s64 (u : N) : Z := if (u <? two64 / 2)%N then Z.of_N u else (Z.of_N u - Z.of_N two64)%Z.
Definition c_u64 (z : Z) : N := Z.to_N (z mod Z.of_N two64).
Lemma upd_nth_same : forall {A} (l : list A) i x, nth_error l i = Some x -> upd l i x = l.
Proof.
  induction l as [|a l IH]; intros [|i] x H; cbn in *; try discriminate; try reflexivity.
  - injection H as <-. reflexivity.
  - rewrite (IH i x H). reflexivity.
Qed.

(* what Fsm.format_test_args does with the variable: fmt_info on the cursor, then put_cur *)
Lemma format_info_type_c_is_model : forall D f s v, var_of D f s = Some v ->
  format_info_type_c D f s =
  let (c1, ok) := fmt_info v (get_cur f s) in (put_cur f c1 s, if ok then 0%Z else (-1)%Z).
Proof.
  intros D f s v H. unfold format_info_type_c, fmt_info. rewrite H.
  destruct (type_name (v_type v) (v_size v)).
  - unfold print_strings. destruct (print_pieces (get_cur f s) (info_pieces v l)). reflexivity.
  - rewrite put_get_cur. reflexivity.
Qed.

(* The five typed formatters as format_read_args calls them (tools/format_translate.py ties each to
   Codec.fmt_var on a variable of the type it is dispatched for): fmt_c T = fmt_var on the current
   variable of machine f, READ AS a variable of type T, run on the cursor of that machine; 0 / -1.
   A variable without a slot in the model's memory is an ill-formed model state: fault. *)
Definition retype (t : vtype) (v : var) : var :=
  mkVar (v_name v) t (v_size v) (v_access v) (v_hread v) (v_hwrite v) (v_slot v).
Definition fmt_c (t : vtype) (D : desc) (f : fsm) (s : state) : state * Z :=
  match var_of D f s with
  | None => (set_fault_flag s, fault_status)
  | Some v =>
    match nth_error (mem s) (v_slot v) with
    | None => (set_fault_flag s, fault_status)
    | Some data => let (c1, ok) := fmt_var (retype t v) data (get_cur f s) in
                   (put_cur f c1 s, if ok then 0%Z else (-1)%Z)
    end
  end.
Lemma fmt_var_retype : forall v data c, fmt_var (retype (v_type v) v) data c = fmt_var v data c.
Proof. intros [] data c; reflexivity. Qed.
(* Ties of status-returning functions that are stated up to faults (see onorm) *)
Definition snorm (x : state * Z) : option (state * Z) := if fault (fst x) then None else Some x.

(* ---- the CALL of a command handler, in C terms: which handler (write / run / read / test), the
        command passed as first argument (a pointer value: None = NULL, Some ci = element ci of
        Fsm.pool; the translator checks that the handler is taken from that same command), the buffer
        pointer, the size pointer, the integer arguments.  What a call means in the model (the hreq of
        Fsm.v) is said in HandlerTie.v.in (hreq_of_call). ---- *)
Inductive bufref := B_atcmd | B_unsol.       (* get_atcmd_buf(self) / get_unsolicited_buf(self) *)
Inductive posref := P_atcmd | P_unsol.       (* &self->position / &self->unsolicited_fsm.position *)
Inductive hcall :=
  | HC_write (c : option nat) (b : bufref) (len idx : nat)
  | HC_run (c : option nat)
  | HC_read (c : option nat) (b : bufref) (p : posref) (size : nat)
  | HC_test (c : option nat) (b : bufref) (p : posref) (size : nat).

(* cat_init: the pointers to the environment of the library (descriptor, io interface, mutex
   interface) that are set from the parameter of the same name.  In the model they are the descriptor
   D and the Section variables of Fsm.v. *)
Inductive env_field := E_desc | E_io | E_mutex.

(* ---- ORACLE CALLS (calls through the pointers of the io interface and the callbacks of the
        variables).  A C function that makes such a call is generated as a function of the ANSWER
        of the oracle; it answers an oview: the request made (None: no call on this path) together
        with the object as it was when the call was made, the final object, the returned status. *)
Inductive oreq :=
  | QIoWrite (ch : N)          (* self->io->write(ch)                                     *)
  | QIoRead                    (* self->io->read(&self->current_char)                     *)
  | QVarWrite (wsize : nat)    (* self->var->write(self->var, wsize)                      *)
  | QVarRead (f : fsm).        (* v->read(v), v = get_var_by_fsm(self, f)                 *)
Definition oview : Type := (option (oreq * state) * state * Z)%type.
(* what a callback of the application may do to the object while it runs (Fsm.call_h: stores into
   the variables, cat_trigger_unsolicited_event, cat_hold_exit): everything else keeps its value *)
Record cb_effect := mkCbEffect {
  ce_mem : list (list N); ce_ring : list (nat * ctype); ce_tail : nat; ce_count : nat;
  ce_hold_exit : Z; ce_fault : bool }.
Definition cb_apply (e : cb_effect) (s : state) : state :=
  s |> set_mem (ce_mem e) |> setu_ring (ce_ring e) |> setu_tail (ce_tail e) |> setu_count (ce_count e)
    |> setk_hold_exit (ce_hold_exit e) |> set_fault (ce_fault e).
(* Ties of oracle functions are stated up to faults: equal, or the fault flag is set on both sides
   (a state with the flag set is outside the verified envelope; the C-shaped views of helper
   functions cannot always stop where the model stops after a fault). *)
Definition onorm (x : oview) : option oview := if fault (snd (fst x)) then None else Some x.
Definition oview_map (g : state -> state) (x : oview) : oview := (fst (fst x), g (snd (fst x)), snd x).

(* ---- What a callback of the application can do to the object, in the model: Fsm.call_h only
        changes the fields of cb_effect (call_h_effect); run_cb runs a view (a function of the answer
        of the callback and of its effect) against Fsm.call_h; weq: equal, or both faulted.  Used by
        the <f>_is_view lemmas of HandlerTie.v.in. ---- *)
Section Callbacks.
Variable D : desc.
Variables ioS muS hS : Type.
Variable mu_lock : muS -> muS * bool.
Variable mu_unlock : muS -> muS * bool.
Variable h_call : hS -> hreq -> hS * hres.
Local Notation world := (Fsm.world ioS muS hS).
Local Notation st := (Fsm.st ioS muS hS).
Local Notation set_st := (Fsm.set_st ioS muS hS).
Local Notation call_h := (Fsm.call_h D ioS muS hS mu_lock mu_unlock h_call).

(* what a callback did to the object, read off the object after the call *)
Definition effect_of (s' : state) : cb_effect :=
  mkCbEffect (mem s') (u_ring (u s')) (u_tail (u s')) (u_count (u s')) (k_hold_exit (k s')) (fault s').


(* ---------- auxiliary lemmas for call_h_effect ---------- *)
Definition framed (a b : state) : Prop := b = cb_apply (effect_of b) a.
Lemma framed_intro : forall e a b, b = cb_apply e a -> framed a b.
Proof.
  intros e a b H. subst b. unfold framed. destruct e. destruct a as [[] [] ? ? ? ? ? ? ? ? ?]. reflexivity.
Qed.
Lemma framed_refl : forall a, framed a a.
Proof. intros a. unfold framed. destruct a as [[] [] ? ? ? ? ? ? ? ? ?]. reflexivity. Qed.
Lemma framed_trans : forall a b c, framed a b -> framed b c -> framed a c.
Proof.
  intros a b c H1 H2. unfold framed in H1, H2. apply (framed_intro (effect_of c)).
  rewrite H2 at 1. rewrite H1. generalize (effect_of c) (effect_of b). intros e2 e1.
  destruct a as [[] [] ? ? ? ? ? ? ? ? ?]. reflexivity.
Qed.
Lemma set_mem_framed : forall m s, framed s (set_mem m s).
Proof.
  intros m s.
  apply (framed_intro (mkCbEffect m (u_ring (u s)) (u_tail (u s)) (u_count (u s)) (k_hold_exit (k s)) (fault s))).
  destruct s as [[] [] ? ? ? ? ? ? ? ? ?]. reflexivity.
Qed.
Lemma apply_poke_framed : forall s p, framed s (apply_poke s p).
Proof.
  intros s p. unfold apply_poke. destruct (nth_error (mem s) (fst p)); [|apply framed_refl].
  destruct (store_prefix l (snd p)); [|apply framed_refl]. apply set_mem_framed.
Qed.
Lemma fold_poke_framed : forall l s, framed s (fold_left apply_poke l s).
Proof.
  induction l as [|p l IH]; intros s; cbn [fold_left]; [apply framed_refl|].
  eapply framed_trans; [apply apply_poke_framed | apply IH].
Qed.
Lemma push_framed : forall s ci t, framed s (fst (push_unsolicited_cmd D s ci t)).
Proof.
  intros s ci t. unfold push_unsolicited_cmd. destruct (ring_full D s); cbn [fst]; [apply framed_refl|].
  destruct (u_tail (u s) <? Datatypes.length (u_ring (u s))).
  - apply (framed_intro (mkCbEffect (mem s) (upd (u_ring (u s)) (u_tail (u s)) (ci, t))
             (if cap D <=? S (u_tail (u s)) then 0 else S (u_tail (u s))) (S (u_count (u s)))
             (k_hold_exit (k s)) (fault s))).
    destruct s as [[] [] ? ? ? ? ? ? ? ? ?]. reflexivity.
  - apply (framed_intro (mkCbEffect (mem s) (u_ring (u s))
             (if cap D <=? S (u_tail (u s)) then 0 else S (u_tail (u s))) (S (u_count (u s)))
             (k_hold_exit (k s)) true)).
    destruct s as [[] [] ? ? ? ? ? ? ? ? ?]. reflexivity.
Qed.
Lemma hold_exit_framed : forall s z, framed s (fst (hold_exit s z)).
Proof.
  intros s z. unfold hold_exit. destruct (negb (k_hold (k s))); cbn [fst]; [apply framed_refl|].
  apply (framed_intro (mkCbEffect (mem s) (u_ring (u s)) (u_tail (u s)) (u_count (u s))
           (if (z =? ST_OK)%Z then 1%Z else (-1)%Z) (fault s))).
  destruct s as [[] [] ? ? ? ? ? ? ? ? ?]. reflexivity.
Qed.
Local Notation bracket := (Fsm.bracket D ioS muS hS mu_lock mu_unlock).
Lemma bracket_framed : forall (body : world -> world * Z),
  (forall w, framed (st w) (st (fst (body w)))) ->
  forall w, framed (st w) (st (fst (bracket w body))).
Proof.
  intros body Hb w. unfold Fsm.bracket. destruct (d_mutex D); [|apply Hb].
  destruct (mu_lock (Fsm.mu ioS muS hS w)) as [m1 ok]. destruct ok; cbn [negb].
  - pose proof (Hb (Fsm.logw ioS muS hS (ELock true) (Fsm.set_mu ioS muS hS m1 w))) as H.
    destruct (body (Fsm.logw ioS muS hS (ELock true) (Fsm.set_mu ioS muS hS m1 w))) as [w2 z].
    cbn [fst] in H. destruct (mu_unlock (Fsm.mu ioS muS hS w2)) as [m2 ok2].
    destruct ok2; cbn [negb fst]; exact H.
  - cbn [fst]. apply framed_refl.
Qed.
Lemma api_trigger_framed : forall w ci t,
  framed (st w) (st (fst (Fsm.api_trigger D ioS muS hS mu_lock mu_unlock w ci t))).
Proof.
  intros w ci t. unfold Fsm.api_trigger. apply bracket_framed. intros w0.
  pose proof (push_framed (st w0) ci t) as H.
  destruct (push_unsolicited_cmd D (st w0) ci t) as [s' r]. exact H.
Qed.
Lemma api_hold_exit_framed : forall w z,
  framed (st w) (st (fst (Fsm.api_hold_exit D ioS muS hS mu_lock mu_unlock w z))).
Proof.
  intros w z. unfold Fsm.api_hold_exit. apply bracket_framed. intros w0.
  pose proof (hold_exit_framed (st w0) z) as H.
  destruct (hold_exit (st w0) z) as [s' r]. exact H.
Qed.
Lemma apply_icall_framed : forall w c,
  framed (st w) (st (Fsm.apply_icall D ioS muS hS mu_lock mu_unlock w c)).
Proof.
  intros w c. unfold Fsm.apply_icall. destruct c as [ci t|z].
  - pose proof (api_trigger_framed w ci t) as H.
    destruct (Fsm.api_trigger D ioS muS hS mu_lock mu_unlock w ci t) as [w' r]. exact H.
  - pose proof (api_hold_exit_framed w z) as H.
    destruct (Fsm.api_hold_exit D ioS muS hS mu_lock mu_unlock w z) as [w' r]. exact H.
Qed.
Lemma fold_icall_framed : forall l w,
  framed (st w) (st (fold_left (Fsm.apply_icall D ioS muS hS mu_lock mu_unlock) l w)).
Proof.
  induction l as [|c l IH]; intros w; cbn [fold_left]; [apply framed_refl|].
  eapply framed_trans; [apply apply_icall_framed | apply IH].
Qed.

(* Fsm.call_h only changes the fields of cb_effect *)
Lemma call_h_effect : forall (w : world) (q : hreq),
  st (fst (call_h w q)) = cb_apply (effect_of (st (fst (call_h w q)))) (st w).
Proof.
  intros w q. change (framed (st w) (st (fst (call_h w q)))). unfold Fsm.call_h.
  destruct (h_call (Fsm.hs ioS muS hS w) q) as [hs' r]. cbn [fst].
  eapply framed_trans; [|apply fold_icall_framed].
  unfold Fsm.upd_st. apply fold_poke_framed.
Qed.

(* the request Fsm builds for a callback of the current variable, from the object at the call *)
Definition hreq_of (q : oreq) (sc : state) : option hreq :=
  match q with
  | QVarWrite wsz =>
    match g_cmd ATCMD sc, cur_data D sc with
    | Some ci, Some (v, data) => Some (VWrite ci (k_var (k sc)) wsz data)
    | _, _ => None
    end
  | QVarRead f =>
    match g_cmd f sc with Some ci => Some (VRead f ci (g_var f sc)) | None => None end
  | _ => None
  end.
(* running a view against Fsm.call_h: whether the call is made, and the object at that moment, do
   not depend on the answer; the view is then read again with the code the callback returned and
   with what it did to the object *)
Definition run_cb (view : Z -> cb_effect -> state -> oview) (w : world) : world * Z :=
  match view 0%Z (effect_of (st w)) (st w) with
  | (Some (q, sc), s0, z0) =>
    match hreq_of q sc with
    | Some hq =>
      let (w1, r) := call_h (set_st sc w) hq in
      let '(_, s', z) := view (r_code r) (effect_of (st w1)) (st w) in (set_st s' w1, z)
    | None => (set_st s0 w, z0)
    end
  | (None, s', z) => (set_st s' w, z)
  end.
(* equal, or the fault flag is set on both sides *)
Definition weq (a b : world * Z) : Prop :=
  a = b \/ (fault (st (fst a)) = true /\ fault (st (fst b)) = true).


(* ---------- auxiliary lemmas about run_cb ---------- *)
Lemma run_cb_none : forall (view : Z -> cb_effect -> state -> oview) (w : world),
  fst (fst (view 0%Z (effect_of (st w)) (st w))) = None ->
  run_cb view w = (set_st (snd (fst (view 0%Z (effect_of (st w)) (st w)))) w,
                   snd (view 0%Z (effect_of (st w)) (st w))).
Proof.
  intros view w H. unfold run_cb.
  destruct (view 0%Z (effect_of (st w)) (st w)) as [[o s'] z]. cbn [fst snd] in *. subst o. reflexivity.
Qed.
Lemma run_cb_some : forall (view : Z -> cb_effect -> state -> oview) (w : world) q sc hq,
  (forall a e, fst (fst (view a e (st w))) = Some (q, sc)) ->
  hreq_of q sc = Some hq ->
  run_cb view w =
  let (w1, r) := call_h (set_st sc w) hq in
  (set_st (snd (fst (view (r_code r) (effect_of (st w1)) (st w)))) w1,
   snd (view (r_code r) (effect_of (st w1)) (st w))).
Proof.
  intros view w q sc hq H Hq. unfold run_cb. pose proof (H 0%Z (effect_of (st w))) as H0.
  destruct (view 0%Z (effect_of (st w)) (st w)) as [[o s0] z0]. cbn [fst snd] in H0. subst o.
  rewrite Hq. destruct (call_h (set_st sc w) hq) as [w1 r].
  destruct (view (r_code r) (effect_of (st w1)) (st w)) as [[o s'] z]. reflexivity.
Qed.
Lemma set_st_same : forall w : world, set_st (st w) w = w.
Proof. intros []. reflexivity. Qed.
End Callbacks.

(* ---- fourth pass: THE GETTERS.  get_atcmd_buf_size / get_unsolicited_buf_size / get_atcmd_buf /
        get_unsolicited_buf read the application's descriptor; get_var_by_fsm, get_new_line_chars,
        get_left_buffer_space_by_fsm, get_current_buffer_by_fsm read the object.  They are generated as
        pure functions (option: None = NULL / a size_t subtraction that would wrap around).

        The descriptor as C sees it.  Defs.desc has ONE field for the event buffer, d_ubuf_size : option
        nat (None = shared working buffer); struct cat_descriptor has two, unsolicited_buf (NULL =
        shared) and unsolicited_buf_size, and when unsolicited_buf is NULL the other field holds
        whatever the application left there.  cdesc_of D junk is that C view: `junk` stands for the
        value of unsolicited_buf_size in shared mode, and every tie is proved for ALL junk (a getter
        that reads the field in shared mode cannot be tied). ---- *)
Record cdesc := mkCdesc {
  cd_buf_size : nat;           (* desc->buf_size                                              *)
  cd_ubuf : bool;              (* desc->unsolicited_buf != NULL                               *)
  cd_ubuf_size : nat }.        (* desc->unsolicited_buf_size                                  *)
Definition cdesc_of (D : desc) (junk : nat) : cdesc :=
  match d_ubuf_size D with
  | Some n => mkCdesc (d_buf_size D) true n
  | None => mkCdesc (d_buf_size D) false junk
  end.
(* A `char *` into one of the two arrays of the descriptor: which array, and the offset in it.  As
   for every pointer value, NULL is None.  A pointer into a string literal: the bytes of the literal
   (without the terminating NUL) and the offset. *)
Inductive bufbase := PB_buf | PB_ubuf.          (* desc->buf / desc->unsolicited_buf *)
Definition bufptr : Type := (bufbase * nat)%type.
Definition strptr : Type := (list N * nat)%type.
Definition cd_buf_ptr (v : cdesc) : option bufptr := Some (PB_buf, 0).       (* cat_init asserts buf != NULL *)
Definition cd_ubuf_ptr (v : cdesc) : option bufptr := if cd_ubuf v then Some (PB_ubuf, 0) else None.
(* &p[n] / p + n *)
Definition ptr_add {B : Type} (p : option (B * nat)) (n : nat) : option (B * nat) :=
  match p with Some (b, o) => Some (b, o + n) | None => None end.

(* What the MODEL says about these pointers (Defs.v: the command machine works in the first asz_of D
   bytes of buf; the event machine in usz_of D bytes at offset uoff_of D of buf in shared mode, in
   unsolicited_buf otherwise): the terms the calls get_atcmd_buf(self) / get_unsolicited_buf(self)
   are mapped to. *)
Definition atcmd_ptr (D : desc) : option bufptr := Some (PB_buf, 0).
Definition unsol_ptr (D : desc) : option bufptr :=
  match d_ubuf_size D with Some _ => Some (PB_ubuf, 0) | None => Some (PB_buf, uoff_of D) end.
Definition buf_ptr (D : desc) (f : fsm) : option bufptr :=
  match f with ATCMD => atcmd_ptr D | UNSOL => unsol_ptr D end.
(* get_current_buffer_by_fsm: (region of the machine, its position) *)
Definition cur_ptr (D : desc) (f : fsm) (s : state) : option bufptr := ptr_add (buf_ptr D f) (g_pos f s).
(* get_left_buffer_space_by_fsm: size - position on size_t.  The model computes on nat; C wraps
   around when position > size.  The truncation is made explicit: None (outside the envelope, the
   printing helpers of Codec.v test `length buf <? pos` first and fault) *)
Definition left_space (f : fsm) (s : state) : option nat :=
  if g_pos f s <=? g_bsz f s then Some (g_bsz f s - g_pos f s) else None.
(* get_var_by_fsm returns self->var / self->unsolicited_fsm.var, which the model keeps as an INDEX
   into the variables of the current command (Defs.k_var / u_var, accessor Defs.g_var); var_of above is
   the descriptor found through it *)
Lemma var_of_g_var : forall D f s,
  var_of D f s = match cmd_of D f s with Some c => nth_error (c_vars c) (g_var f s) | None => None end.
Proof. reflexivity. Qed.
(* get_new_line_chars returns a pointer into the literal CR LF NUL.  strptr_view = the bytes from the
   pointer to the end of the array (terminating NUL included): it fixes both uses of the pointer, as a
   C string that is printed (Fsm.nl_chars) and as self->write_buf read byte by byte (Fsm.wbuf_char). *)
Definition strptr_view (p : strptr) : list N := skipn (snd p) (fst p ++ [0%N]).
Definition nl_view (cr : bool) : list N := if cr then [ch_CR; ch_LF; 0%N] else [ch_LF; 0%N].
Lemma nl_view_chars : forall s, nl_view (k_cr (k s)) = nl_chars s ++ [0%N].
Proof. intros s. unfold nl_view, nl_chars. destruct (k_cr (k s)); reflexivity. Qed.
Lemma nl_view_wbuf : forall b main p, wbuf_char (WB_NL b) main p = nth_error (nl_view b) p.
Proof. intros [] main p; reflexivity. Qed.

(* The sizes at initialisation: the mapping table reads get_atcmd_buf_size(self) as Defs.asz s (the
   length of the model's working buffer); the tie of the getter is about the descriptor (asz_of D).
   They agree from cat_init on (the model never changes the length of a buffer). *)
Lemma sizes_at_init : forall D m, asz (init_state D m) = asz_of D /\ usz (init_state D m) = usz_of D.
Proof. intros D m. unfold asz, usz, init_state. cbn [cbuf ubuf]. rewrite !repeat_length. split; reflexivity. Qed.

(* THE REGION LEMMA.  What the model relies on when it keeps the two working buffers as two separate
   lists: the command region starts at buf and lies inside buf; in shared mode the event region lies
   inside buf too and begins at or after the end of the command region; with a separate event buffer
   it lies inside unsolicited_buf.  regions_ok is stated on the RESULTS of the four getters;
   generated_regions derives it from the four ties, so the conclusion is about the generated functions. *)
Definition regions_ok (D : desc) (asize usize : nat) (ap up : bufptr) : Prop :=
  fst ap = PB_buf /\ snd ap + asize <= d_buf_size D /\
  match d_ubuf_size D with
  | None => fst up = PB_buf /\ snd ap + asize <= snd up /\ snd up + usize <= d_buf_size D
  | Some n => fst up = PB_ubuf /\ snd up + usize <= n
  end.
Definition regions_spec (D : desc) (gas gus : option nat) (gap gup : option bufptr) : Prop :=
  exists a u pa pu, gas = Some a /\ gus = Some u /\ gap = Some pa /\ gup = Some pu /\ regions_ok D a u pa pu.
Lemma div2_twice : forall n, Nat.div2 n + Nat.div2 n <= n.
Proof.
  intros n. destruct (Nat.Even_Odd_dec n) as [E|O].
  - pose proof (Nat.Even_double n E) as H. unfold Nat.double in H. lia.
  - pose proof (Nat.Odd_double n O) as H. unfold Nat.double in H. lia.
Qed.
Lemma model_regions_shared : forall D, d_ubuf_size D = None ->
  asz_of D <= uoff_of D /\ uoff_of D + usz_of D <= d_buf_size D.
Proof.
  intros D H. unfold asz_of, usz_of, uoff_of. rewrite H. split; [apply Nat.le_refl | apply div2_twice].
Qed.
Lemma generated_regions : forall (D : desc) (gas gus : option nat) (gap gup : option bufptr),
  gas = Some (asz_of D) -> gus = Some (usz_of D) -> gap = atcmd_ptr D -> gup = unsol_ptr D ->
  regions_spec D gas gus gap gup.
Proof.
  intros D gas gus gap gup -> -> -> ->. unfold regions_spec, atcmd_ptr, unsol_ptr.
  pose proof (div2_twice (d_buf_size D)) as Hd.
  exists (asz_of D), (usz_of D), (PB_buf, 0),
         (match d_ubuf_size D with Some _ => (PB_ubuf, 0) | None => (PB_buf, uoff_of D) end).
  unfold regions_ok, asz_of, usz_of, uoff_of.
  destruct (d_ubuf_size D) as [n|]; cbn [fst snd]; repeat split; lia.
Qed.

(* ====================================================================================== *)
(* 2. tie_auto                                                                            *)
(* ====================================================================================== *)
(* Goal:  g_f D .. s = model_f .. s.   Method: unfold the two heads and the light model helpers
   (setter chains), then repeatedly
     - normalise: beta/iota/zeta and projections applied to setters (cbn with an explicit list:
       no arithmetic is ever unfolded),
     - find the scrutinee on which the evaluation of a side is stuck (the leftmost innermost
       `match`/`if` in head or argument position), split on it ONCE (comparisons through their
       reflection lemmas, so that the facts are available to lia; a variable compared with a
       constant is substituted),
   until both sides are setter chains over the same state: reflexivity (conversion).  A leaf
   whose hypotheses are contradictory (the two sides tested related conditions in a different
   order) is closed by lia/congruence.  Every split removes all occurrences of its scrutinee, and
   the depth is bounded by explicit fuel, so the tactic always terminates. *)

(* rebound (::=) in HandlerTie.v.in before a theorem whose generated function calls other generated
   definitions that are tied separately (constant tables): rewrite with their ties *)
Ltac tie_rewrite_hook := idtac.

Ltac tie_cbn :=
  cbn [k u cbuf ubuf mem dis_cmd dis_grp fault gL gS gR
       set_k set_u set_cbuf set_ubuf set_mem set_dis_cmd set_dis_grp set_fault set_gL set_gS set_gR
       set_fault_flag
       k_index k_partial k_length k_position k_write_size k_cmd k_var k_type k_char k_state k_cr
       k_hold k_hold_exit k_wbuf k_wstate k_wafter k_implicit
       set_k_index set_k_partial set_k_length set_k_position set_k_write_size set_k_cmd set_k_var
       set_k_type set_k_char set_k_state set_k_cr set_k_hold set_k_hold_exit set_k_wbuf
       set_k_wstate set_k_wafter set_k_implicit
       setk_index setk_partial setk_length setk_position setk_write_size setk_cmd setk_var
       setk_type setk_char setk_state setk_cr setk_hold setk_hold_exit setk_wbuf setk_wstate
       setk_wafter setk_implicit
       u_state u_index u_position u_cmd u_var u_type u_wbuf u_wstate u_wafter u_ring u_tail
       u_head u_count
       set_u_state set_u_index set_u_position set_u_cmd set_u_var set_u_type set_u_wbuf
       set_u_wstate set_u_wafter set_u_ring set_u_tail set_u_head set_u_count
       setu_state setu_index setu_position setu_cmd setu_var setu_type setu_wbuf setu_wstate
       setu_wafter setu_ring setu_tail setu_head setu_count
       fsm_beq ctype_beq cstate_beq ustate_beq wstate_beq vaccess_beq
       N.eqb Z.eqb Pos.eqb
       ce_mem ce_ring ce_tail ce_count ce_hold_exit ce_fault
       andb orb negb fst snd Datatypes.length app].
(* facts recorded when an opaque helper result was introduced (tie_split): cr_flag is unchanged *)
Ltac tie_frame :=
  repeat match goal with
  | H : k_cr (k ?a) = _ |- context [k_cr (k ?a)] => rewrite H
  end.
Ltac tie_norm :=
  cbv beta iota zeta;
  tie_cbn;
  try (progress tie_frame; tie_cbn);
  rewrite ?print_strings_cons, ?print_strings_nil;
  tie_rewrite_hook.

(* named constants and light model helpers (setter chains, at most one match): unfolded so that
   a field read AFTER a helper call can be evaluated *)
Ltac tie_unfold_light :=
  cbv delta [CMD_NOT_MATCH CMD_PARTIAL CMD_FULL
             ch_NUL ch_LF ch_CR ch_QM ch_EQ ch_A ch_T ch_COMMA ch_LT ch_GT ch_LBR ch_RBR ch_COLON
             ST_OK ST_BUSY ST_HOLD ST_ERROR ST_MUTEX_UNLOCK ST_MUTEX_LOCK ST_UNKNOWN_STATE
             ST_BUFFER_FULL ST_NOT_HOLD ST_BUFFER_EMPTY
             RC_ERROR RC_DATA_OK RC_DATA_NEXT RC_NEXT RC_OK RC_HOLD RC_HOLD_EXIT_OK
             RC_HOLD_EXIT_ERROR RC_PRINT_CMD_LIST_OK
             store_c set_cmd_state prepare_search_command prepare_parse_command reset_state
             unsolicited_reset_state enable_hold_state start_flush_c start_flush_u
             start_flush_raw_c ack_error ack_ok end_with_error end_with_ok
             is_busy is_hold hold_exit process_hold_state process_io_write_wait
             unsolicited_process_io_write_wait start_print_cmd_list cmd_list_next_cmd
             start_flush_after_ok start_flush_after set_loop_state cmd_of cmd_at
             ring_empty ring_full txt_ERROR txt_OK txt_AT
             cap ring_store fault_status pop_c pop_unsolicited_cmd push_unsolicited_cmd
             check_unsolicited_buffers service_merge store_u next_format_var
             print_string_c var_of print_response_test info_pieces onorm oview_map cb_apply
             print_response_test_c next_format_var_c format_info_type_c
             print_current_cmd_full_name_c print_current_cmd_full_name print_cmd_form
             cur_data rest_of stat_of scan_state parse_num_c parse_int_c parse_uint_c parse_hex_c
             parse_buf_c parse_bufhex_c parse_bufstr_c validate_c validate_int_c validate_uint_c
             decode_var option_map snorm
             asz usz g_pos g_buf g_cmd g_var g_index g_bsz setg_pos setg_buf setg_var setg_index].

(* the scrutinee on which the evaluation of t is stuck *)
Ltac tie_stuck t :=
  match t with
  | match ?x with _ => _ end => tie_stuck x
  | match ?x with _ => _ end => x
  | andb ?a _ => tie_stuck a
  | orb ?a _ => tie_stuck a
  | negb ?a => tie_stuck a
  | andb ?a _ => a
  | orb ?a _ => a
  | negb ?a => a
  | ?f ?a => tie_stuck a
  | ?f _ => tie_stuck f
  end.

Ltac tie_subst_if_var a := tryif is_var a then subst a else idtac.

Ltac tie_split_new x :=
  let E := fresh "E" in
  lazymatch x with
  | N.eqb ?a ?b => destruct (N.eqb_spec a b) as [E|E]; [tie_subst_if_var a|]
  | Z.eqb ?a ?b => destruct (Z.eqb_spec a b) as [E|E]; [tie_subst_if_var a|]
  | Z.ltb ?a ?b => destruct (Z.ltb_spec0 a b) as [E|E]
  | Z.leb ?a ?b => destruct (Z.leb_spec0 a b) as [E|E]
  | Nat.eqb ?a ?b => destruct (Nat.eqb_spec a b) as [E|E]
  | Nat.leb ?a ?b => destruct (Nat.leb_spec0 a b) as [E|E]
  | Nat.ltb ?a ?b => destruct (Nat.ltb_spec0 a b) as [E|E]
  | fsm_beq ?a _ => tryif is_var a then destruct a else (destruct x eqn:E)
  | ctype_beq ?a _ => tryif is_var a then destruct a else (destruct x eqn:E)
  | cstate_beq ?a _ => tryif is_var a then destruct a else (destruct x eqn:E)
  | ustate_beq ?a _ => tryif is_var a then destruct a else (destruct x eqn:E)
  | print_string ?f ?s ?t =>
    let H := fresh "Hcr" in
    pose proof (print_string_cr f s t) as H; destruct x eqn:E; try rewrite E in H; cbn [fst] in H
  | _ => destruct x eqn:E; try rewrite E in *
  end.

(* a scrutinee that was already decided on this path (it reappears when a later state is
   normalised): the recorded equation is used again *)
Ltac tie_split x :=
  lazymatch goal with
  | H : x = _ |- _ => rewrite H
  | _ => tie_split_new x
  end.

(* a leaf: both sides are setter chains.  Setters and projections are unfolded completely (both
   sides become constructor terms over the projections of s), so that a mismatch is found
   field by field instead of by a long failing conversion *)
Ltac tie_leaf :=
  cbv beta iota zeta delta
      [k u cbuf ubuf mem dis_cmd dis_grp fault gL gS gR
       set_k set_u set_cbuf set_ubuf set_mem set_dis_cmd set_dis_grp set_fault set_gL set_gS set_gR
       set_fault_flag
       k_index k_partial k_length k_position k_write_size k_cmd k_var k_type k_char k_state k_cr
       k_hold k_hold_exit k_wbuf k_wstate k_wafter k_implicit
       set_k_index set_k_partial set_k_length set_k_position set_k_write_size set_k_cmd set_k_var
       set_k_type set_k_char set_k_state set_k_cr set_k_hold set_k_hold_exit set_k_wbuf
       set_k_wstate set_k_wafter set_k_implicit
       setk_index setk_partial setk_length setk_position setk_write_size setk_cmd setk_var
       setk_type setk_char setk_state setk_cr setk_hold setk_hold_exit setk_wbuf setk_wstate
       setk_wafter setk_implicit
       u_state u_index u_position u_cmd u_var u_type u_wbuf u_wstate u_wafter u_ring u_tail
       u_head u_count
       set_u_state set_u_index set_u_position set_u_cmd set_u_var set_u_type set_u_wbuf
       set_u_wstate set_u_wafter set_u_ring set_u_tail set_u_head set_u_count
       setu_state setu_index setu_position setu_cmd setu_var setu_type setu_wbuf setu_wstate
       setu_wafter setu_ring setu_tail setu_head setu_count];
  reflexivity.

(* facts about the partial reads made so far, for the contradictory leaves *)
Ltac tie_nth_facts :=
  repeat match goal with
  | H : nth_error ?l ?n = Some _ |- _ =>
    lazymatch goal with
    | _ : n < Datatypes.length l |- _ => fail
    | _ => assert (n < Datatypes.length l) by (apply nth_error_Some; rewrite H; discriminate)
    end
  end.

(* a leaf whose two sides differ only in  <generated bit arithmetic> = lane_get b (i mod 4)  or
   = lane_set b (i mod 4) v : the byte is replaced by its low 8 bits (lane_get_u8 / lane_set_u8;
   the generated side starts from u8 (Z.of_N b), the char read as uint8_t), both are generalised
   to any b < 256 and j < 4 (v < 256 is a hypothesis of the theorem: a uint8_t parameter), and the
   equation is decided by evaluating both sides on the whole domain (sweep_bj / sweep_bjv) *)
(* (vm_cast_no_check only defers the evaluation: the kernel re-checks the cast, by VM conversion,
   when the proof is closed with Qed) *)
Ltac lane_sweep2 b j :=
  lazymatch goal with |- ?L = ?R =>
    let fL := eval pattern b, j in L in
    let fR := eval pattern b, j in R in
    lazymatch fL with ?f _ _ => lazymatch fR with ?g _ _ =>
      apply (sweep_bj f g); [vm_cast_no_check (eq_refl true) | assumption | assumption ] end end end.
Ltac lane_sweep3 b j v :=
  lazymatch goal with |- ?L = ?R =>
    let fL := eval pattern b, j, v in L in
    let fR := eval pattern b, j, v in R in
    lazymatch fL with ?f _ _ _ => lazymatch fR with ?g _ _ _ =>
      apply (sweep_bjv f g); [vm_cast_no_check (eq_refl true) | assumption | assumption | assumption ] end end end.
Ltac lane_core :=
  repeat f_equal;
  lazymatch goal with
  | |- _ = lane_get ?b (?i mod 4) =>
    rewrite <- (lane_get_u8 b (i mod 4)) by (apply Nat.mod_upper_bound; discriminate);
    let b' := fresh "b" in let Hb := fresh "Hb" in let j := fresh "j" in let Hj := fresh "Hj" in
    pose proof (u8_lt (Z.of_N b)) as Hb; revert Hb; generalize (u8 (Z.of_N b)); intros b' Hb;
    assert (Hj : i mod 4 < 4) by (apply Nat.mod_upper_bound; discriminate);
    revert Hj; generalize (i mod 4); intros j Hj;
    lane_sweep2 b' j
  | |- _ = lane_set ?b (?i mod 4) ?v =>
    rewrite <- (lane_set_u8 b (i mod 4) v) by (apply Nat.mod_upper_bound; discriminate);
    let b' := fresh "b" in let Hb := fresh "Hb" in let j := fresh "j" in let Hj := fresh "Hj" in
    pose proof (u8_lt (Z.of_N b)) as Hb; revert Hb; generalize (u8 (Z.of_N b)); intros b' Hb;
    assert (Hj : i mod 4 < 4) by (apply Nat.mod_upper_bound; discriminate);
    revert Hj; generalize (i mod 4); intros j Hj;
    lane_sweep3 b' j v
  end.

(* No backtracking: once a scrutinee is chosen, the split is committed (tryif), so a failing
   leaf fails the whole tactic at once. *)
Ltac tie_go n :=
  tie_norm;
  lazymatch goal with
  | |- ?L = ?R =>
    tryif (let x := tie_stuck L in idtac) then (let x := tie_stuck L in tie_next n x)
    else tryif (let x := tie_stuck R in idtac) then (let x := tie_stuck R in tie_next n x)
    else first [ tie_leaf | lane_core
               | progress (repeat match goal with
                                  | |- context [S ?n - 1] => replace (S n - 1) with n by lia
                                  end); tie_leaf
               | tie_value_split n
               | exfalso; tie_nth_facts; cbn [Datatypes.length] in *; first [lia | congruence] ]
  end
(* no `if`/`match` is stuck, but the two sides still differ: a comparison that is part of a VALUE
   (e.g. the returned bool) is split *)
with tie_value_split n :=
  lazymatch goal with
  | |- context [Nat.eqb ?a ?b] => tie_next n (Nat.eqb a b)
  | |- context [Nat.leb ?a ?b] => tie_next n (Nat.leb a b)
  | |- context [Nat.ltb ?a ?b] => tie_next n (Nat.ltb a b)
  | |- context [Z.eqb ?a ?b] => tie_next n (Z.eqb a b)
  | |- context [N.eqb ?a ?b] => tie_next n (N.eqb a b)
  end
with tie_next n x :=
  lazymatch n with
  | O => fail "tie_auto: out of fuel"
  | S ?n' => tie_split x; tie_go n'
  end.

Ltac tie_head t := lazymatch t with ?f _ => tie_head f | _ => t end.
Ltac tie_unfold_head t := let h := tie_head t in try unfold h.

(* rebound (::=) by the generated file when it contains auxiliary definitions g_aux_* *)
Ltac tie_unfold_gen := idtac.

Ltac tie_auto :=
  intros;
  lazymatch goal with |- ?L = ?R => tie_unfold_head L; tie_unfold_head R end;
  tie_unfold_gen;
  tie_unfold_light;
  tie_go 60.

(* the same for a statement whose two sides are not headed by the functions to unfold (ties
   stated through onorm / a view): the heads are given *)
Tactic Notation "tie_auto_on" reference(g) reference(m) :=
  intros; unfold g, m; tie_unfold_gen; tie_unfold_light; tie_go 80.

(* ---- tie_loop: a `for` loop of cat.c translated into a structural recursion g_f_loopK over the
        model list (see for_loop in tools/handler_translate.py).  Goal (stated by hand in
        HandlerTie.v.in, generalised over the variables the loop carries):
            forall <carried>, <invariant> -> g_f_loopK D .. s l <carried> = <model recursion on l>
        Method: induction on l; one unfolding of both recursions; split on every comparison of
        naturals; rewrite with the induction hypothesis (side conditions by lia); normalise
        a - (b + c) and a + (b - a); then reflexivity / lia / case analysis of the remaining
        boolean tests. ---- *)
Ltac loop_step_cbn :=
  lazymatch goal with |- ?L = _ =>
    let h := tie_head L in
    cbn [h enum_groups cmd_by_index group_of_index existsb grp_cmds grp_off grp_index fst snd]
  end.
Ltac loop_split :=
  repeat match goal with
  | |- context [Nat.leb ?a ?b] => destruct (Nat.leb_spec0 a b)
  | |- context [Nat.ltb ?a ?b] => destruct (Nat.ltb_spec0 a b)
  | |- context [Nat.eqb ?a ?b] => destruct (Nat.eqb_spec a b)
  end.
Ltac loop_arith :=
  rewrite ?Nat.sub_add_distr;
  repeat match goal with
  | |- context [?a + (?b - ?a)] => replace (a + (b - a)) with b by lia
  end.
Ltac loop_ifs :=
  repeat match goal with
  | |- context [if ?c then _ else _] => destruct c eqn:?
  end.
Ltac loop_leaf IH :=
  try (rewrite IH by lia);
  loop_arith;
  first [ reflexivity | exfalso; lia | f_equal; lia
        | loop_ifs; first [ reflexivity | congruence | exfalso; lia ] ].
Ltac tie_loop l :=
  let x := fresh "x" in let IH := fresh "IH" in
  induction l as [|x l IH]; intros;
  [ cbv beta iota zeta delta -[Nat.sub Nat.add]; try reflexivity; loop_leaf IH
  | loop_step_cbn; tie_unfold_gen; cbv beta zeta; loop_split; loop_leaf IH ].

(* the tie of the whole function once the loop lemma has been used: what is left is a case analysis
   of the list (the `if (c->var == NULL) return false;` in front of the loop, when it is there) *)
Ltac loop_finish l :=
  destruct l; cbv beta iota; rewrite ?orb_false_r; reflexivity.

(* ---- tie_wloop: a countdown loop `while ((n > 0) && ..) { .. --n; .. }` translated into a
        structural recursion g_f_loopK on n (see while_loop in tools/handler_translate.py).  Goal
        (stated by hand, generalised over the carried variables):
            forall <carried>, g_f_loopK D .. s n <carried> = <model recursion on n>
        Method: induction on n; one unfolding of both recursions; the recursive calls are rewritten
        with the induction hypothesis; what remains is loop-free: tie_go. ---- *)
Ltac wloop_step_cbn :=
  lazymatch goal with |- ?L = _ =>
    let h := tie_head L in cbn [h scan_ring]
  end.
Ltac tie_wloop n :=
  let IH := fresh "IH" in
  induction n as [|n IH]; intros;
  [ wloop_step_cbn; tie_unfold_gen; tie_unfold_light; cbv delta [ev_match]; tie_go 40
  | wloop_step_cbn; tie_unfold_gen; cbv beta zeta; rewrite ?IH; tie_unfold_light;
    cbv delta [ev_match]; tie_go 60 ].

(* ---- tie_getter: the getters (fourth pass).  Goal: g_f D [junk] [fsm] s = <model term>.  Method:
        unfold the head of the generated side and the vocabulary of the getters on both sides; split
        once on every scrutinee a side is stuck on (d_ubuf_size D, the fsm, cr_flag, a comparison:
        tie_stuck / tie_split as in tie_auto); at a leaf both sides are the same up to
        x / 2 = Nat.div2 x  (C: x >> 1; Nat.div2_div, for all x) and linear arithmetic with division
        by literals (getter_div_facts, lia). ---- *)
Ltac getter_unfold :=
  cbv delta [asz_of usz_of uoff_of cdesc_of cd_buf_ptr cd_ubuf_ptr ptr_add atcmd_ptr unsol_ptr buf_ptr
             cur_ptr left_space nl_chars nl_view strptr_view option_map
             g_pos g_bsz g_buf g_var g_cmd g_index asz usz];
  cbv beta.
Ltac getter_norm :=
  cbv beta iota zeta delta [cd_buf_size cd_ubuf cd_ubuf_size fst snd negb andb orb];
  tie_cbn.
(* x / c for a literal c: the two facts that define it, for lia (which takes x / c and x mod c as atoms) *)
Ltac getter_div_facts :=
  repeat match goal with
  | |- context [?x / ?c] =>
    lazymatch goal with
    | _ : x = c * (x / c) + x mod c |- _ => fail
    | _ => pose proof (Nat.div_mod x c ltac:(discriminate));
           assert (x mod c < c) by (apply Nat.mod_upper_bound; discriminate)
    end
  end.
Ltac getter_arith :=
  rewrite ?Nat.div2_div in *; rewrite ?Nat.add_0_l, ?Nat.add_0_r in *;
  first [ reflexivity | getter_div_facts; lia ].
Ltac getter_leaf :=
  first [ reflexivity
        | rewrite ?Nat.div2_div, ?Nat.add_0_l, ?Nat.add_0_r; reflexivity
        | repeat f_equal; getter_arith
        | exfalso; first [ congruence | getter_arith ] ].
Ltac getter_go n :=
  getter_norm;
  lazymatch goal with
  | |- ?L = ?R =>
    tryif (let x := tie_stuck L in idtac) then (let x := tie_stuck L in getter_next n x)
    else tryif (let x := tie_stuck R in idtac) then (let x := tie_stuck R in getter_next n x)
    else getter_leaf
  end
with getter_next n x :=
  lazymatch n with
  | O => fail "tie_getter: out of fuel"
  | S ?n' => tie_split x; getter_go n'
  end.
(* the region property proved directly on the generated getters (used when one of the four getters no
   longer equals the model's, but the regions it describes are still disjoint and inside the arrays) *)
Ltac regions_direct :=
  unfold regions_spec, regions_ok; tie_unfold_gen; getter_unfold;
  match goal with |- context [d_ubuf_size ?D] => destruct (d_ubuf_size D) end;
  getter_norm; do 4 eexists; repeat split; cbn [fst snd]; getter_arith.
Ltac tie_getter :=
  intros;
  lazymatch goal with |- ?L = _ => tie_unfold_head L end;
  tie_unfold_gen;
  getter_unfold;
  getter_go 12.

(* ====================================================================================== *)
(* 3. Diagnosis of a failed tie: concrete states                                          *)
(* ====================================================================================== *)

Definition opt_eqb {A} (e : A -> A -> bool) (x y : option A) : bool :=
  match x, y with Some a, Some b => e a b | None, None => true | _, _ => false end.
Fixpoint list_eqb {A} (e : A -> A -> bool) (x y : list A) : bool :=
  match x, y with
  | [], [] => true
  | a :: x', b :: y' => e a b && list_eqb e x' y'
  | _, _ => false
  end.
Definition wbuf_eqb (x y : wbuf) : bool :=
  match x, y with WB_NL a, WB_NL b => Bool.eqb a b | WB_MAIN, WB_MAIN => true | _, _ => false end.
Definition ring_item_eqb (x y : nat * ctype) : bool :=
  (fst x =? fst y) && ctype_beq (snd x) (snd y).

(* names of the fields in which two states differ *)
Definition fld (same : bool) (name : string) : list string := if same then [] else [name].
Arguments fld _ _%string.
Definition diff_cfsm (x y : cfsm) : list string :=
  fld (k_index x =? k_index y) "k_index" ++
  fld (k_partial x =? k_partial y) "k_partial" ++
  fld (k_length x =? k_length y) "k_length" ++
  fld (k_position x =? k_position y) "k_position" ++
  fld (k_write_size x =? k_write_size y) "k_write_size" ++
  fld (opt_eqb Nat.eqb (k_cmd x) (k_cmd y)) "k_cmd" ++
  fld (k_var x =? k_var y) "k_var" ++
  fld (ctype_beq (k_type x) (k_type y)) "k_type" ++
  fld (N.eqb (k_char x) (k_char y)) "k_char" ++
  fld (cstate_beq (k_state x) (k_state y)) "k_state" ++
  fld (Bool.eqb (k_cr x) (k_cr y)) "k_cr" ++
  fld (Bool.eqb (k_hold x) (k_hold y)) "k_hold" ++
  fld (Z.eqb (k_hold_exit x) (k_hold_exit y)) "k_hold_exit" ++
  fld (wbuf_eqb (k_wbuf x) (k_wbuf y)) "k_wbuf" ++
  fld (wstate_beq (k_wstate x) (k_wstate y)) "k_wstate" ++
  fld (cstate_beq (k_wafter x) (k_wafter y)) "k_wafter" ++
  fld (Bool.eqb (k_implicit x) (k_implicit y)) "k_implicit".
Definition diff_ufsm (x y : ufsm) : list string :=
  fld (ustate_beq (u_state x) (u_state y)) "u_state" ++
  fld (u_index x =? u_index y) "u_index" ++
  fld (u_position x =? u_position y) "u_position" ++
  fld (opt_eqb Nat.eqb (u_cmd x) (u_cmd y)) "u_cmd" ++
  fld (u_var x =? u_var y) "u_var" ++
  fld (ctype_beq (u_type x) (u_type y)) "u_type" ++
  fld (wbuf_eqb (u_wbuf x) (u_wbuf y)) "u_wbuf" ++
  fld (wstate_beq (u_wstate x) (u_wstate y)) "u_wstate" ++
  fld (ustate_beq (u_wafter x) (u_wafter y)) "u_wafter" ++
  fld (list_eqb ring_item_eqb (u_ring x) (u_ring y)) "u_ring" ++
  fld (u_tail x =? u_tail y) "u_tail" ++
  fld (u_head x =? u_head y) "u_head" ++
  fld (u_count x =? u_count y) "u_count".
Definition diff_state (x y : state) : list string :=
  diff_cfsm (k x) (k y) ++ diff_ufsm (u x) (u y) ++
  fld (list_eqb N.eqb (cbuf x) (cbuf y)) "cbuf" ++
  fld (list_eqb N.eqb (ubuf x) (ubuf y)) "ubuf" ++
  fld (list_eqb (list_eqb N.eqb) (mem x) (mem y)) "mem" ++
  fld (list_eqb Bool.eqb (dis_cmd x) (dis_cmd y)) "dis_cmd" ++
  fld (list_eqb Bool.eqb (dis_grp x) (dis_grp y)) "dis_grp" ++
  fld (Bool.eqb (fault x) (fault y)) "fault" ++
  fld (gL x =? gL y) "gL" ++
  fld (gS x =? gS y) "gS" ++
  fld (gR x =? gR y) "gR".

Definition state_eqb (x y : state) : bool :=
  match diff_state x y with [] => true | _ => false end.
Definition state_Z_eqb (x y : state * Z) : bool :=
  state_eqb (fst x) (fst y) && Z.eqb (snd x) (snd y).
Definition state_bool_eqb (x y : state * bool) : bool :=
  state_eqb (fst x) (fst y) && Bool.eqb (snd x) (snd y).

(* what a diagnosis prints: the input, what the generated definition and the model give, and
   the names of the state fields in which the two results differ *)
Record witness (T R : Type) := mkWitness {
  w_input : T; w_generated : R; w_model : R; w_differ_in : list string }.
Arguments mkWitness {T R}.

Definition first_diff {T R} (eqb : R -> R -> bool) (fields : R -> R -> list string)
           (gen model : T -> R) (inputs : list T) : option (witness T R) :=
  match find (fun x => negb (eqb (gen x) (model x))) inputs with
  | Some x => Some (mkWitness x (gen x) (model x) (fields (gen x) (model x)))
  | None => None
  end.
(* two checks in a row (a shape, then a body): the first difference of either *)
Definition first_diff2 {T1 R1 T2 R2} (a : option (witness T1 R1)) (b : option (witness T2 R2))
  : option (witness (option T1 * option T2) (option R1 * option R2)) :=
  match a, b with
  | Some w, _ => Some (mkWitness (Some (w_input _ _ w), None) (Some (w_generated _ _ w), None)
                                 (Some (w_model _ _ w), None) (w_differ_in _ _ w))
  | None, Some w => Some (mkWitness (None, Some (w_input _ _ w)) (None, Some (w_generated _ _ w))
                                    (None, Some (w_model _ _ w)) (w_differ_in _ _ w))
  | None, None => None
  end.
Definition diff_fst {B} (x y : state * B) : list string :=
  diff_state (fst x) (fst y) ++
  (if state_eqb (fst x) (fst y) then ["returned value"%string] else []).

Definition env_field_eqb (x y : env_field) : bool :=
  match x, y with E_desc, E_desc | E_io, E_io | E_mutex, E_mutex => true | _, _ => false end.
Definition bufref_eqb (x y : bufref) : bool :=
  match x, y with B_atcmd, B_atcmd | B_unsol, B_unsol => true | _, _ => false end.
Definition posref_eqb (x y : posref) : bool :=
  match x, y with P_atcmd, P_atcmd | P_unsol, P_unsol => true | _, _ => false end.
Definition hcall_eqb (x y : hcall) : bool :=
  match x, y with
  | HC_write c b l i, HC_write c' b' l' i' =>
    opt_eqb Nat.eqb c c' && bufref_eqb b b' && (l =? l') && (i =? i')
  | HC_run c, HC_run c' => opt_eqb Nat.eqb c c'
  | HC_read c b q n, HC_read c' b' q' n' | HC_test c b q n, HC_test c' b' q' n' =>
    opt_eqb Nat.eqb c c' && bufref_eqb b b' && posref_eqb q q' && (n =? n')
  | _, _ => false
  end.
Definition snorm_eqb (x y : state * Z) : bool := opt_eqb state_Z_eqb (snorm x) (snorm y).
Definition oreq_eqb (x y : oreq) : bool :=
  match x, y with
  | QIoWrite a, QIoWrite b => N.eqb a b
  | QIoRead, QIoRead => true
  | QVarWrite a, QVarWrite b => a =? b
  | QVarRead f, QVarRead g => fsm_beq f g
  | _, _ => false
  end.
Definition ask_eqb (x y : option (oreq * state)) : bool :=
  opt_eqb (fun a b => oreq_eqb (fst a) (fst b) && state_eqb (snd a) (snd b)) x y.
Definition oview_eqb (x y : oview) : bool :=
  ask_eqb (fst (fst x)) (fst (fst y)) && state_eqb (snd (fst x)) (snd (fst y)) && Z.eqb (snd x) (snd y).
Definition onorm_eqb (x y : oview) : bool := opt_eqb oview_eqb (onorm x) (onorm y).
Definition diff_oview (x y : oview) : list string :=
  fld (ask_eqb (fst (fst x)) (fst (fst y))) "oracle request / object when the call is made" ++
  diff_state (snd (fst x)) (snd (fst y)) ++
  fld (Z.eqb (snd x) (snd y)) "returned value".

(* ---- test descriptors: index 0 has three registered commands in two groups and one extra
        (event-only) command; index 1 has no command at all ---- *)
Definition tvar (a : vaccess) : var := mkVar None VInt 1 a false false 0.
(* "A": all four handlers, no variables *)
Definition tcmd0 : cmd := mkCmd [65%N] None true true true true [] false false false.
(* "AB": only_test, description, a read-only and a write-only variable, no handlers *)
Definition tcmd1 : cmd :=
  mkCmd [65%N; 66%N] (Some [100%N]) false false false false [tvar RO; tvar WO] false true false.
(* "+X": implicit write, write handler, one read-write variable *)
Definition tcmd2 : cmd := mkCmd [43%N; 88%N] None true false false false [tvar RW] true false true.
(* "E": no handlers, no variables *)
Definition tcmd3 : cmd := mkCmd [69%N] None false false false false [] false false false.
Definition tdesc0 : desc := mkDesc [[tcmd0; tcmd1]; [tcmd2]] [tcmd3] 8 None 0%N 2 false.
Definition tdesc1 : desc := mkDesc [] [] 4 (Some 4) 0%N 1 false.
(* index 2: as index 0 with a queue of capacity 3 (not a power of two) *)
Definition tdesc2 : desc := mkDesc [[tcmd0; tcmd1]; [tcmd2]] [tcmd3] 8 None 0%N 3 false.
(* index 3: one command "V" with a description, a test handler and three variables (one named,
   one of an unsupported size) *)
Definition tcmd4 : cmd :=
  mkCmd [86%N] (Some [100%N; 101%N]) false false false true
        [mkVar (Some [120%N]) VInt 2 RW false false 0; mkVar None VHex 3 RO false false 0;
         mkVar None VBufStr 4 WO false false 0] false false false.
Definition tdesc3 : desc := mkDesc [[tcmd4]] [] 64 None 0%N 2 false.
(* index 4: the list printer and the TEST text.  "R" run only; "D" a description and nothing else;
   "Q" only_test with a test handler; "W" a write-only variable; one group, then "S" in a second
   group, read handler only *)
Definition tcmd5 : cmd := mkCmd [82%N] None false false true false [] false false false.
Definition tcmd6 : cmd := mkCmd [68%N] (Some [100%N]) false false false false [] false false false.
Definition tcmd7 : cmd := mkCmd [81%N] None false false false true [] false true false.
Definition tcmd8 : cmd := mkCmd [87%N] None false false false false [tvar WO] false false false.
Definition tcmd9 : cmd := mkCmd [83%N] None false true false false [] false false false.
Definition tdesc4 : desc := mkDesc [[tcmd5; tcmd6; tcmd7; tcmd8]; [tcmd9]] [] 32 None 0%N 2 false.
(* index 5: variables of every type.  "P": write handler, six variables (with / without a write
   callback, one read-only, one of an unsupported size); "N": need_all_vars, no write handler, a writable hex byte *)
Definition wvar (t : vtype) (sz : nat) (a : vaccess) (hr hw : bool) (slot : nat) : var :=
  mkVar None t sz a hr hw slot.
Definition tcmd10 : cmd :=
  mkCmd [80%N] None true true false false
        [wvar VInt 1 RW true true 0; wvar VUint 2 RW false false 1; wvar VHex 4 RO true true 2;
         wvar VBufHex 2 RW false true 3; wvar VBufStr 3 WO true false 4; wvar VInt 3 RW false false 0]
        false false false.
Definition tcmd11 : cmd :=
  mkCmd [78%N] None false false false false
        [wvar VInt 1 RW false true 0; wvar VUint 1 WO true false 1; wvar VHex 1 RW false false 3]
        true false false.
Definition tdesc5 : desc := mkDesc [[tcmd10; tcmd11]] [] 32 None 0%N 2 false.
Definition tD (i : nat) : desc :=
  match i with
  | O => tdesc0 | 1 => tdesc1 | 2 => tdesc2 | 3 => tdesc3 | 4 => tdesc4 | _ => tdesc5
  end.

(* ---- secondary patterns: five settings of the fields that rarely interact ---- *)
Definition base_state : state :=
  mkState init_cfsm (init_ufsm tdesc0) [] [0%N; 0%N; 0%N; 0%N] [[0%N]]
          [false; false; false] [false; false] false 0 0 0.
Definition pattern (i : nat) (s : state) : state :=
  match i with
  | 0 => s
  | 1 => s |> setk_state CS_FLUSH |> setu_state US_FLUSH |> setk_cr true |> setk_hold true
           |> setk_hold_exit (-1)%Z |> setk_implicit true |> setk_position 1
           |> setk_wstate WS_MAIN |> setk_wafter CS_AFTER_RESET |> setk_wbuf WB_MAIN
           |> setu_cmd (Some 1) |> setu_type T_READ |> setu_index 1 |> setu_position 2
           |> set_dis_cmd [false; true; false] |> setu_count 1
  | 2 => s |> setk_state CS_HOLD |> setu_state US_READ_LOOP |> setk_hold true
           |> setk_hold_exit 1%Z |> setk_write_size 3 |> setk_var 1 |> setk_wstate WS_AFTER
           |> setu_wstate WS_MAIN |> setu_wafter US_AFTER_OK |> set_dis_grp [false; true]
           |> setu_count 2
  | 3 => s |> setu_state US_FLUSH |> setk_hold_exit 1%Z |> setk_cr true |> setu_var 1
  | _ => s |> setk_state CS_FLUSH |> setk_hold_exit (-1)%Z |> setk_implicit true
           |> set_gS 2 |> set_gL 1
  end.

Definition vary {A} (vals : list A) (set : A -> state -> state) (l : list state) : list state :=
  flat_map (fun s => map (fun v => set v s) vals) l.

(* big family = (a) every combination of the fields the name matching and the argument
   collection branch on, times three patterns, and (b) every combination of the other fields *)
Definition states_primary : list state :=
  [base_state]
  |> vary [0; 1; 2] pattern
  |> vary [None; Some 0; Some 1; Some 2] setk_cmd
  |> vary [0; 1; 2] setk_index
  |> vary [0; 1; 2] setk_partial
  |> vary [0; 1; 2] setk_length
  |> vary [T_NONE; T_RUN; T_READ; T_WRITE; T_TEST; T_TOTAL] setk_type
  |> vary [10%N; 13%N; 65%N; 63%N] setk_char
  |> vary [[]; [85%N; 85%N; 85%N; 85%N]; [6%N; 0%N]; [37%N; 7%N; 1%N]; [16%N]] set_cbuf.
Definition states_secondary : list state :=
  [base_state; pattern 3 base_state; pattern 4 base_state]
  |> vary [CS_IDLE; CS_FLUSH; CS_HOLD] setk_state
  |> vary [US_IDLE; US_FLUSH; US_READ_LOOP] setu_state
  |> vary [false; true] setk_cr
  |> vary [false; true] setk_hold
  |> vary [(-1)%Z; 0%Z; 1%Z] setk_hold_exit
  |> vary [false; true] setk_implicit
  |> vary [0; 2] setk_position
  |> vary [0; 1] setu_position
  |> vary [None; Some 0] setk_cmd
  |> vary [T_NONE; T_READ] setk_type
  |> vary [0; 2] setk_index
  |> vary [[]; [85%N; 85%N]] set_cbuf.
Definition states_big : list state := states_primary ++ states_secondary.

(* small family, for the bodies of the reading states (combined with all 256 bytes) *)
Definition states_small : list state :=
  [base_state]
  |> vary [0; 1; 2; 3; 4] pattern
  |> vary [None; Some 0; Some 1; Some 2] setk_cmd
  |> vary [0; 1; 2] setk_length
  |> vary [[]; [7%N]; [1%N; 2%N; 3%N]] set_cbuf.

Definition all_cstates : list cstate :=
  [CS_ERROR; CS_IDLE; CS_PARSE_PREFIX; CS_PARSE_COMMAND_CHAR; CS_UPDATE_COMMAND_STATE;
   CS_WAIT_READ_ACK; CS_SEARCH_COMMAND; CS_COMMAND_FOUND; CS_COMMAND_NOT_FOUND;
   CS_PARSE_COMMAND_ARGS; CS_PARSE_WRITE_ARGS; CS_FORMAT_READ_ARGS; CS_WAIT_TEST_ACK;
   CS_FORMAT_TEST_ARGS; CS_WRITE_LOOP; CS_READ_LOOP; CS_TEST_LOOP; CS_RUN_LOOP; CS_HOLD;
   CS_FLUSH_WAIT; CS_FLUSH; CS_AFTER_RESET; CS_AFTER_OK; CS_AFTER_FMT_READ; CS_AFTER_FMT_TEST;
   CS_PRINT_CMD].
Definition all_ustates : list ustate :=
  [US_IDLE; US_FORMAT_READ_ARGS; US_FORMAT_TEST_ARGS; US_READ_LOOP; US_TEST_LOOP; US_FLUSH_WAIT;
   US_FLUSH; US_AFTER_RESET; US_AFTER_OK; US_AFTER_FMT_READ; US_AFTER_FMT_TEST].

(* inputs = (descriptor index, state), optionally with one more argument in front *)
Definition fam_ds : list (nat * state) := list_prod [0; 1] states_big.
Definition fam_ds_small : list (nat * state) := list_prod [0; 1] states_small.
Definition fam_cds : list (N * (nat * state)) := list_prod bytes fam_ds_small.
Definition with_arg {A} (vals : list A) : list (A * (nat * state)) := list_prod vals fam_ds_small.

(* ---- the 2-bit lanes: every byte value in the two bytes of the bitmap, with and without a
        disabled command; command indices 0..7 address these two bytes, 8 is outside ---- *)
Definition states_lane : list state :=
  [base_state; pattern 1 base_state]
  |> vary (map (fun b => [b; N.lxor b 255]) bytes) set_cbuf.
Definition fam_lane : list (nat * (nat * state)) :=
  list_prod [0; 1; 2; 3; 4; 5; 6; 7; 8] (list_prod [0; 1] states_lane).
Definition fam_lane_v : list (N * (nat * (nat * state))) :=
  list_prod [0%N; 1%N; 2%N; 3%N; 255%N] fam_lane.

(* ---- the loops over the descriptor tables ---- *)
Definition cmd_eqb (x y : cmd) : bool :=        (* enough to tell the test commands apart *)
  list_eqb N.eqb (c_name x) (c_name y) && Bool.eqb (c_hrun x) (c_hrun y)
  && (Datatypes.length (c_vars x) =? Datatypes.length (c_vars y)).
Definition fam_index : list (nat * (nat * state)) := with_arg [0; 1; 2; 3; 4].
Definition fam_cmd_access : list ((cmd * vaccess) * (nat * state)) :=
  list_prod (list_prod [tcmd0; tcmd1; tcmd2; tcmd3] [RW; RO; WO]) [(0, base_state)].

(* ---- the queue: every position of head and tail in a ring of three entries, 0..3 items ---- *)
Definition states_ring : list state :=
  [base_state; pattern 1 base_state]
  |> vary [[(1, T_READ); (2, T_TEST); (0, T_READ)]; [(3, T_TEST)]] setu_ring
  |> vary [0; 1; 2] setu_head
  |> vary [0; 1; 2] setu_tail
  |> vary [0; 1; 2; 3] setu_count.
Definition fam_ring : list (nat * state) := list_prod [2; 0; 1] states_ring.
Definition fam_ring_push : list ((nat * ctype) * (nat * state)) :=
  list_prod (list_prod [0; 3] [T_READ; T_TEST]) fam_ring.
Definition out_eqb (x y : state * Z * option (option nat) * option ctype) : bool :=
  state_Z_eqb (fst (fst x)) (fst (fst y))
  && opt_eqb (opt_eqb Nat.eqb) (snd (fst x)) (snd (fst y))
  && opt_eqb ctype_beq (snd x) (snd y).
Definition diff_out (x y : state * Z * option (option nat) * option ctype) : list string :=
  diff_state (fst (fst (fst x))) (fst (fst (fst y))) ++
  (if state_eqb (fst (fst (fst x))) (fst (fst (fst y))) then ["returned value / out-parameters"%string] else []).

(* ---- shapes ---- *)
Definition api_shape_eqb (x y : api_shape) : bool :=
  list_eqb Nat.eqb (as_pre x) (as_pre y) && Z.eqb (as_lock x) (as_lock y)
  && Z.eqb (as_unlock x) (as_unlock y) && (as_inner_returns x =? as_inner_returns y)
  && (as_extra_mutex x =? as_extra_mutex y) && list_eqb Nat.eqb (as_post x) (as_post y)
  && Bool.eqb (as_return_pure x) (as_return_pure y).
Definition body_item_eqb (x y : body_item) : bool :=
  match x, y with
  | BI_events_service, BI_events_service | BI_dispatch, BI_dispatch | BI_merge, BI_merge => true
  | _, _ => false
  end.
Definition service_shape_eqb (x y : service_shape) : bool :=
  api_shape_eqb (ss_api x) (ss_api y) && list_eqb body_item_eqb (ss_body x) (ss_body y).
Definition diff_api (x y : api_shape) : list string :=
  fld (list_eqb Nat.eqb (as_pre x) (as_pre y)) "statements before the lock (lines)" ++
  fld (Z.eqb (as_lock x) (as_lock y)) "status when lock fails" ++
  fld (Z.eqb (as_unlock x) (as_unlock y)) "status when unlock fails" ++
  fld (as_inner_returns x =? as_inner_returns y) "return between lock and unlock" ++
  fld (as_extra_mutex x =? as_extra_mutex y) "other uses of self->mutex" ++
  fld (list_eqb Nat.eqb (as_post x) (as_post y)) "statements after the unlock (lines)" ++
  fld (Bool.eqb (as_return_pure x) (as_return_pure y)) "final return mentions self".
Definition diff_service (x y : service_shape) : list string :=
  diff_api (ss_api x) (ss_api y) ++
  fld (list_eqb body_item_eqb (ss_body x) (ss_body y)) "order of the statements between lock and unlock".
Definition fam_status : list (Z * (nat * state)) := with_arg [0%Z; 1%Z; (-1)%Z; 2%Z].
Definition fam_trigger : list ((nat * ctype) * (nat * state)) := fam_ring_push.
Definition fam_merge : list ((Z * Z) * (nat * state)) :=
  with_arg (list_prod [0%Z; 1%Z; (-1)%Z; (-4)%Z] [0%Z; 1%Z; (-1)%Z]).
Definition fam_buffered : list ((nat * ctype) * (nat * state)) :=
  list_prod (list_prod [0; 1; 3] [T_NONE; T_READ; T_TEST]) fam_ring.

(* ---- printing the description of a variable (test descriptor 3); small and large buffers ---- *)
Definition states_info : list state :=
  [base_state]
  |> vary [None; Some 0] setk_cmd
  |> vary [None; Some 0] setu_cmd
  |> vary [0; 1; 2; 3] setk_var
  |> vary [0; 1] setu_var
  |> vary [0; 3] setk_position
  |> vary [repeat 0%N 4; repeat 0%N 12; repeat 0%N 32] set_cbuf
  |> vary [repeat 0%N 3; repeat 0%N 32] set_ubuf.
Definition fam_info : list (fsm * (nat * state)) :=
  list_prod [ATCMD; UNSOL] (list_prod [3] states_info).

(* ---- the flush engines: every pointer / position / phase, short buffers; answers of io->write ---- *)
Definition states_flush : list state :=
  [base_state; pattern 1 base_state]
  |> vary [WB_NL true; WB_NL false; WB_MAIN] (fun b s => setu_wbuf b (setk_wbuf b s))
  |> vary [0; 1; 2; 3] (fun p s => setu_position p (setk_position p s))
  |> vary [WS_BEFORE; WS_MAIN; WS_AFTER] (fun x s => setu_wstate x (setk_wstate x s))
  |> vary [(CS_AFTER_RESET, US_AFTER_RESET); (CS_AFTER_OK, US_AFTER_OK); (CS_PRINT_CMD, US_AFTER_FMT_READ)]
          (fun x s => setu_wafter (snd x) (setk_wafter (fst x) s))
  |> vary [[]; [65%N; 0%N]; [65%N; 66%N; 0%N; 7%N]] (fun b s => set_ubuf b (set_cbuf b s)).
Definition fam_flush : list (Z * (nat * state)) :=
  list_prod [0%Z; 1%Z; 2%Z; (-1)%Z] (list_prod [0] states_flush).
(* ---- the reader: every machine state that matters, answers of io->read ---- *)
Definition states_read : list state :=
  [base_state; pattern 1 base_state; pattern 4 base_state]
  |> vary [CS_IDLE; CS_PARSE_COMMAND_ARGS; CS_PARSE_PREFIX; CS_ERROR] setk_state
  |> vary [0%N; 97%N] setk_char.
Definition fam_read : list (option N * (nat * state)) :=
  list_prod [None; Some 10%N; Some 97%N; Some 65%N; Some 122%N; Some 13%N; Some 200%N]
            (list_prod [0] states_read).

(* ---- the starters of the printers: every command of the descriptor on both machines, buffers too
        short for the name / for the "=" / long enough ---- *)
Definition states_start : list state :=
  [base_state; pattern 1 base_state]
  |> vary [None; Some 0; Some 1; Some 2; Some 3; Some 4] (fun c s => setu_cmd c (setk_cmd c s))
  |> vary [repeat 7%N 1; repeat 7%N 3; repeat 7%N 4; repeat 7%N 12] (fun b s => set_ubuf b (set_cbuf b s))
  |> vary [0; 2] (fun p s => setu_position p (setk_position p s)).
Definition fam_start : list (fsm * (nat * state)) :=
  list_prod [ATCMD; UNSOL] (list_prod [0; 3; 4] states_start).

(* ---- the list printer (test descriptors 4 and 0): every command and form, first / later line,
        disabled commands, buffers too short for the line ---- *)
Definition states_list : list state :=
  [base_state; pattern 1 base_state]
  |> vary [0; 1; 2; 3; 4; 5] setk_index
  |> vary [T_NONE; T_RUN; T_READ; T_WRITE; T_TEST; T_TOTAL] setk_type
  |> vary [0; 1] setk_length
  |> vary [[false; false; false; false; false]; [true; false; false; true; false]] set_dis_cmd
  |> vary [repeat 7%N 2; repeat 7%N 6; repeat 7%N 9; repeat 7%N 32] set_cbuf.
Definition fam_list : list (nat * state) := list_prod [4; 0] states_list.
Definition states_fullname : list state :=
  [base_state; pattern 1 base_state]
  |> vary [None; Some 0; Some 1; Some 4] setk_cmd
  |> vary [0; 1] setk_length
  |> vary [0; 3] setk_position
  |> vary [repeat 7%N 2; repeat 7%N 4; repeat 7%N 5; repeat 7%N 6; repeat 7%N 9; repeat 7%N 32] set_cbuf.
Definition fam_fullname : list (list N * (nat * state)) :=
  list_prod [[]; [63%N]; [61%N; 63%N]] (list_prod [4; 0] states_fullname).

(* ---- the argument collector and the argument printer (test descriptor 5): every variable of both
        commands, argument texts of every type (good, out of range, malformed, running off the
        buffer), a memory with and without the slots; what the callback answers and does ---- *)
Definition tmem : list (list N) := [[255%N; 2%N]; [3%N; 0%N]; [255%N; 0%N; 0%N; 128%N]; [171%N; 205%N]; [97%N; 34%N; 0%N]].
Definition teffects : list cb_effect :=
  [mkCbEffect tmem [(0, T_READ); (0, T_NONE)] 1 1 0%Z false;
   mkCbEffect [[9%N]; [9%N; 9%N]] [(0, T_NONE); (0, T_NONE)] 0 0 1%Z true].
Definition states_write_args : list state :=
  [set_mem tmem base_state; pattern 1 base_state]
  |> vary [None; Some 0; Some 1] setk_cmd
  |> vary [0; 1; 2; 3; 4; 5; 6] setk_var
  |> vary [0; 1; 5] setk_index
  |> vary [0; 1] setk_position
  |> vary [[53%N; 0%N]; [45%N; 55%N; 44%N; 49%N; 0%N]; [51%N; 48%N; 48%N; 0%N];
           [48%N; 120%N; 49%N; 70%N; 44%N; 0%N]; [49%N; 65%N; 50%N; 66%N; 0%N];
           [34%N; 97%N; 98%N; 34%N; 0%N]; [120%N; 0%N]; []; [53%N];
           [48%N; 120%N; 70%N; 70%N; 0%N]] set_cbuf.
Definition fam_write_args : list ((Z * cb_effect) * (nat * state)) :=
  list_prod (list_prod [0%Z; 1%Z; (-1)%Z] teffects) (list_prod [5] states_write_args).

(* ---- format_read_args / format_test_args on both machines (test descriptors 5 and 3) ---- *)
Definition states_read_args : list state :=
  [set_mem tmem base_state; pattern 1 base_state]
  |> vary [None; Some 0; Some 1] (fun c s => setu_cmd c (setk_cmd c s))
  |> vary [0; 1; 2; 3; 4; 5; 6] (fun i s => setu_var i (setk_var i s))
  |> vary [0; 1; 5] (fun i s => setu_index i (setk_index i s))
  |> vary [0; 3] (fun p s => setu_position p (setk_position p s))
  |> vary [repeat 7%N 2; repeat 7%N 8; repeat 7%N 32] (fun b s => set_ubuf b (set_cbuf b s)).
Definition fam_read_args : list ((fsm * (Z * cb_effect)) * (nat * state)) :=
  list_prod (list_prod [ATCMD; UNSOL] (list_prod [0%Z; 1%Z; (-1)%Z] teffects))
            (list_prod [5] states_read_args).
Definition fam_test_args : list (fsm * (nat * state)) :=
  list_prod [ATCMD; UNSOL] (list_prod [5; 3] states_read_args).

(* ---- the handler calls: both machines, every command pointer, lengths / positions / buffer sizes ---- *)
Definition states_call : list state :=
  [base_state; pattern 1 base_state]
  |> vary [None; Some 0; Some 2; Some 3] (fun c s => setu_cmd c (setk_cmd (match c with Some 3 => Some 1 | _ => c end) s))
  |> vary [0; 2] setk_length |> vary [0; 1] setk_index
  |> vary [0; 1] setk_position |> vary [0; 3] setu_position
  |> vary [repeat 7%N 2; repeat 7%N 5] set_cbuf |> vary [repeat 7%N 3; repeat 7%N 6] set_ubuf.
Definition fam_call : list (fsm * (nat * state)) := list_prod [ATCMD; UNSOL] (list_prod [0; 1] states_call).

(* ---- the getters (fourth pass): descriptors with every small buffer size (odd and even), shared /
        separate event buffer of several sizes, two values of the unused field; the witness of a
        failed tie is the descriptor (printed in full) and that value ---- *)
Definition sdesc (b : nat) (u : option nat) : desc := mkDesc [] [] b u 0%N 1 false.
Definition fam_desc : list (desc * nat) :=
  list_prod (map (fun x => sdesc (fst x) (snd x))
                 (list_prod [0; 1; 2; 3; 4; 5; 7; 8; 9; 64] [None; Some 0; Some 3; Some 16]))
            [0; 5].
Definition bufbase_eqb (x y : bufbase) : bool :=
  match x, y with PB_buf, PB_buf | PB_ubuf, PB_ubuf => true | _, _ => false end.
Definition bufptr_eqb (x y : bufptr) : bool := bufbase_eqb (fst x) (fst y) && (snd x =? snd y).
(* the region property, decided on concrete results (diagnosis of buffer_regions) *)
Definition regions_okb (D : desc) (gas gus : option nat) (gap gup : option bufptr) : bool :=
  match gas, gus, gap, gup with
  | Some a, Some us, Some pa, Some pu =>
    bufbase_eqb (fst pa) PB_buf && (snd pa + a <=? d_buf_size D) &&
    match d_ubuf_size D with
    | None => bufbase_eqb (fst pu) PB_buf && (snd pa + a <=? snd pu) && (snd pu + us <=? d_buf_size D)
    | Some n => bufbase_eqb (fst pu) PB_ubuf && (snd pu + us <=? n)
    end
  | _, _, _, _ => false
  end.
(* states for the getters that read the object: both machines, positions inside / at the end of /
   beyond the buffers, both values of cr_flag, different variable indices on the two machines *)
Definition states_getter : list state :=
  [base_state; pattern 1 base_state; pattern 2 base_state; pattern 3 base_state]
  |> vary [0; 1; 3; 9] setk_position |> vary [0; 2; 4; 5] setu_position
  |> vary [[]; [7%N]; [1%N; 2%N; 3%N]] set_cbuf
  |> vary [0; 2] setk_var.
Definition fam_getter : list (nat * state) := list_prod [0; 1] states_getter.
Definition fam_getter_f : list (fsm * (nat * state)) := list_prod [ATCMD; UNSOL] fam_getter.
