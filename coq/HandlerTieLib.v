(* HandlerTieLib.v -- static part of the "handler tie" (tools/handler_translate.py copies this
   file into its work directory and compiles it there, before the generated HandlerGen.v and the
   assembled HandlerTie.v; it is NOT part of _CoqProject).

   1. store_c ...    the vocabulary of the generated code that the model does not have: stores
                     into the two buffers and into the ring, u8 (C conversion to uint8_t) with the
                     sweep lemmas, the command groups as the C loops see them (grp, enum_groups),
                     the C-shaped views of model functions with out-parameters / a ring walk
                     (pop_c, scan_ring, buffered_c), the shapes of the public functions
   2. tie_auto       the generic proof of "generated definition = model function"; lane_core (the
                     exhaustive sweep for the bit arithmetic); tie_loop / tie_wloop (loops)
   3. state_eqb ...  decidable comparison of states, and the deterministic families of concrete
                     states on which a FAILED tie is evaluated to find a witness (diagnosis only:
                     nothing in section 3 is used by a tie theorem)
   Every lemma is proved; nothing is assumed. *)
From Coq Require Import List NArith ZArith Bool Arith Lia String.
From CatV Require Import Bytes Defs Codec Fsm.
Import ListNotations.
Local Open Scope nat_scope.

(* ====================================================================================== *)
(* 1. Vocabulary of the generated code that is not in the model                           *)
(* ====================================================================================== *)

(* get_atcmd_buf(self)[i] = v : a store outside the working buffer is undefined behaviour in C;
   here it sets the model's fault flag (a state with the flag set is outside the verified
   envelope), as the model does for its own out-of-range accesses. *)
Definition store_c (i : nat) (v : N) (s : state) : state :=
  if i <? asz s then set_cbuf (upd (cbuf s) i v) s else set_fault_flag s.

(* get_unsolicited_buf(self)[i] = v : the same for the buffer of the event machine *)
Definition store_u (i : nat) (v : N) (s : state) : state :=
  if i <? usz s then set_ubuf (upd (ubuf s) i v) s else set_fault_flag s.

(* Printing.  print_string_to_buf answers 0 / -1: print_string_c is Fsm.print_string seen that way.
   self->var (self->unsolicited_fsm.var) is, in the model, the index of a variable of the command
   the machine is processing: var_of is the descriptor get_var_by_fsm returns. *)
Definition print_string_c (f : fsm) (s : state) (t : list N) : state * Z :=
  let (s', ok) := print_string f s t in (s', if ok then 0%Z else (-1)%Z).
Definition var_of (D : desc) (f : fsm) (s : state) : option var :=
  match cmd_of D f s with Some c => nth_error (c_vars c) (g_var f s) | None => None end.
(* The model prints several strings through ONE cursor (Codec.print_pieces); C calls
   print_string_to_buf once per string, each call re-reading the position from the object.
   print_strings_cons / print_strings_nil (facts about the model only): it is the same thing. *)
Lemma cur_store_list_nofault : forall l c i, cu_fault c = false ->
  i + Datatypes.length l <= Datatypes.length (cu_buf c) ->
  cu_fault (cur_store_list c i l) = false /\
  Datatypes.length (cu_buf (cur_store_list c i l)) = Datatypes.length (cu_buf c).
Proof.
  induction l as [|x l IH]; intros c i Hf Hl; cbn [cur_store_list Datatypes.length] in *.
  - split; [exact Hf | reflexivity].
  - assert (Hlen : forall (A : Type) (l : list A) j v, Datatypes.length (upd l j v) = Datatypes.length l).
    { intros A l0. induction l0 as [|a l0 IHl]; intros [|j] v; cbn; try reflexivity. rewrite IHl. reflexivity. }
    unfold cur_store at 1 2. destruct (i <? Datatypes.length (cu_buf c)) eqn:E.
    + destruct (IH (mkCur (upd (cu_buf c) i x) (cu_pos c) (cu_fault c)) (S i)) as [H1 H2].
      * exact Hf.
      * cbn [cu_buf]. rewrite Hlen. lia.
      * split; [exact H1|]. rewrite H2. cbn [cu_buf]. apply Hlen.
    + apply Nat.ltb_ge in E. lia.
Qed.
Lemma print_nstring_ok_nofault : forall c t c', cu_fault c = false ->
  print_nstring c t = (c', true) -> cu_fault c' = false.
Proof.
  intros c t c' Hf. unfold print_nstring.
  destruct (Datatypes.length (cu_buf c) <? cu_pos c) eqn:E1; [discriminate|].
  destruct (Datatypes.length (cu_buf c) - cu_pos c <=? Datatypes.length t) eqn:E2; [discriminate|].
  apply Nat.ltb_ge in E1. apply Nat.leb_gt in E2. intros H. injection H as <-.
  destruct (cur_store_list_nofault t c (cu_pos c) Hf) as [H1 H2]; [lia|].
  unfold cur_store, cur_set_pos. cbn [cu_buf cu_pos cu_fault]. rewrite H2.
  destruct (cu_pos c + Datatypes.length t <? Datatypes.length (cu_buf c)) eqn:E3.
  - cbn [cu_fault]. exact H1.
  - apply Nat.ltb_ge in E3. lia.
Qed.
Lemma get_put_cur : forall f c s, cu_fault c = false -> get_cur f (put_cur f c s) = c.
Proof. intros f [b p fl] s H. cbn in H. subst fl. destruct f; reflexivity. Qed.
Lemma put_put_cur : forall f c c' s, cu_fault c = false ->
  put_cur f c' (put_cur f c s) = put_cur f c' s.
Proof. intros f [b p fl] [b' p' fl'] s H. cbn in H. subst fl. destruct f, fl'; reflexivity. Qed.
Lemma put_get_cur : forall f s, put_cur f (get_cur f s) s = s.
Proof. intros f [[] [] ? ? ? ? ? ? ? ? ?]. destruct f; reflexivity. Qed.
Lemma print_strings_nil : forall f s, print_strings f s [] = (s, true).
Proof. intros. unfold print_strings. cbn [print_pieces]. rewrite put_get_cur. reflexivity. Qed.
Lemma print_strings_cons : forall f s p r,
  print_strings f s (p :: r) =
  let (s1, ok) := print_string f s p in if ok then print_strings f s1 r else (s1, false).
Proof.
  intros f s p r. unfold print_strings, print_string. cbn [print_pieces].
  destruct (print_nstring (get_cur f s) p) as [c1 ok] eqn:E. destruct ok; [|reflexivity].
  assert (H1 : cu_fault c1 = false) by (eapply print_nstring_ok_nofault; [|exact E]; reflexivity).
  rewrite get_put_cur by exact H1.
  destruct (print_pieces c1 r) as [c2 ok2]. rewrite put_put_cur by exact H1. reflexivity.
Qed.

(* The queue of unsolicited events.  `item = &ring[i]; item->cmd = v; item->type = w;` are two
   stores into one entry of the ring: ring_store (a store outside the ring sets the fault flag). *)
Definition ring_store (i : nat) (f : nat * ctype -> nat * ctype) (s : state) : state :=
  match nth_error (u_ring (u s)) i with
  | Some it => setu_ring (upd (u_ring (u s)) i (f it)) s
  | None => set_fault_flag s
  end.
(* what a status-returning function answers after a fault (the flag is set: the state is outside
   the verified envelope, the value is irrelevant; it only has to be fixed) *)
Definition fault_status : Z := ST_ERROR.
(* Fsm.pop_unsolicited_cmd seen as the C function: status and the two OUT-parameters *cmd, *type
   (None = not written).  This is the mapping between the C signature and the model's. *)
Definition pop_c (D : desc) (s : state) : state * Z * option (option nat) * option ctype :=
  if ring_empty s then (s, ST_BUFFER_EMPTY, None, None)
  else match pop_unsolicited_cmd D s with
       | (s', Some (ci, t)) => (s', ST_OK, Some (Some ci), Some t)
       | (s', None) => (s', fault_status, None, None)
       end.

(* cat_is_unsolicited_event_buffered walks over the live entries of the ring as Fsm.ring_items_go
   does, but stops at the first match and reads the ring through a C array: scan_ring is that
   walk (None = an index outside the ring, a fault; ring_items_go just stops there).
   scan_ring_sound / buffered_c_is_model: whenever the walk does not fault it answers what
   Fsm.is_event_buffered answers. *)
Fixpoint scan_ring (D : desc) (ring : list (nat * ctype)) (ci : nat) (t : ctype) (idx num : nat)
  : option bool :=
  match num with
  | O => Some false
  | S n => match nth_error ring idx with
           | None => None
           | Some it => if ev_match ci t it then Some true
                        else scan_ring D ring ci t (if cap D <=? S idx then 0 else S idx) n
           end
  end.
Lemma scan_ring_sound : forall D ring ci t n idx b,
  scan_ring D ring ci t idx n = Some b -> b = existsb (ev_match ci t) (ring_items_go D ring idx n).
Proof.
  induction n as [|n IH]; cbn [scan_ring ring_items_go existsb]; intros idx b H.
  - injection H as <-. reflexivity.
  - destruct (nth_error ring idx) as [it|]; [|discriminate]. cbn [existsb].
    destruct (ev_match ci t it); [injection H as <-; reflexivity|]. cbn [orb]. apply IH. exact H.
Qed.
Definition buffered_c (D : desc) (s : state) (ci : nat) (t : ctype) : option Z :=
  let cur := match u_cmd (u s) with
             | Some c => ev_match ci t (c, u_type (u s))
             | None => false
             end in
  if cur then Some ST_BUSY
  else match scan_ring D (u_ring (u s)) ci t (u_head (u s)) (u_count (u s)) with
       | Some true => Some ST_BUSY
       | Some false => Some ST_OK
       | None => None
       end.
Lemma buffered_c_is_model : forall D s ci t r,
  buffered_c D s ci t = Some r -> r = is_event_buffered D s ci t.
Proof.
  intros D s ci t r. unfold buffered_c, is_event_buffered, ring_items.
  destruct (match u_cmd (u s) with Some c => ev_match ci t (c, u_type (u s)) | None => false end).
  - cbn. congruence.
  - cbn [orb]. destruct (scan_ring D (u_ring (u s)) ci t (u_head (u s)) (u_count (u s))) as [b|] eqn:E;
      [|discriminate].
    apply scan_ring_sound in E. rewrite <- E. destruct b; congruence.
Qed.

(* The command groups of the descriptor, as the loops of cat.c see them: element number gi of
   self->desc->cmd_group, the number of commands in the groups before it (the model numbers the
   commands globally: Defs.cmds, Defs.dis_cmd), and its commands. *)
Definition grp : Type := (nat * nat * list cmd)%type.
Definition grp_index (g : grp) : nat := fst (fst g).
Definition grp_off (g : grp) : nat := snd (fst g).
Definition grp_cmds (g : grp) : list cmd := snd g.
Fixpoint enum_groups (gs : list (list cmd)) (gi off : nat) : list grp :=
  match gs with
  | [] => []
  | g :: r => (gi, off, g) :: enum_groups r (S gi) (off + Datatypes.length g)
  end.

(* C integer arithmetic on uint8_t.  The translator lifts a uint8_t VALUE to N and the `int` it
   is promoted to (C11 6.3.1.1) to Z, with the mathematical operations of Z (Z.shiftl, Z.shiftr,
   Z.land, Z.lor, Z.lnot); it checks on intervals that no shift is undefined and that every
   intermediate value fits an int, so that these ARE the C operations.  The conversion back to
   uint8_t (assignment to a uint8_t object) is u8: reduction modulo 256 (C11 6.3.1.3p2).  Reading
   a `char` of the working buffer as uint8_t is u8 (Z.of_N b): the byte itself. *)
Definition u8 (x : Z) : N := Z.to_N (x mod 256).
Definition bytes : list N := map N.of_nat (seq 0 256).

Lemma u8_lt : forall x, (u8 x < 256)%N.
Proof.
  intros x. unfold u8. pose proof (Z.mod_pos_bound x 256 eq_refl) as H.
  apply (proj2 (N2Z.inj_lt _ _)). rewrite Z2N.id by lia. change (Z.of_N 256) with 256%Z. lia.
Qed.
Lemma u8_of_N : forall b, u8 (Z.of_N b) = N.land b 255.
Proof.
  intros b. unfold u8. change 256%Z with (Z.of_N 256). rewrite <- N2Z.inj_mod, N2Z.id.
  change 255%N with (N.ones 8). rewrite N.land_ones. reflexivity.
Qed.
(* the model's lane functions only look at the low 8 bits of the byte they are given *)
Lemma lane_get_u8 : forall b j, j < 4 -> lane_get (u8 (Z.of_N b)) j = lane_get b j.
Proof.
  intros b j Hj. rewrite u8_of_N. unfold lane_get. rewrite N.shiftr_land, <- N.land_assoc.
  destruct j as [|[|[|[|j]]]]; try lia; reflexivity.
Qed.
Lemma lane_set_u8 : forall b j v, j < 4 -> lane_set (u8 (Z.of_N b)) j v = lane_set b j v.
Proof.
  intros b j v Hj. rewrite u8_of_N. unfold lane_set. rewrite <- N.land_assoc.
  destruct j as [|[|[|[|j]]]]; try lia; reflexivity.
Qed.
Lemma in_bytes : forall b, (b < 256)%N -> In b bytes.
Proof.
  intros b H. unfold bytes. apply in_map_iff. exists (N.to_nat b). split; [apply N2Nat.id|].
  apply in_seq. lia.
Qed.
(* exhaustive sweeps: byte 0..255 x lane 0..3 [x uint8_t value 0..255] *)
Lemma sweep_bj (f g : N -> nat -> N) :
  forallb (fun b => forallb (fun j => (f b j =? g b j)%N) [0; 1; 2; 3]) bytes = true ->
  forall b j, (b < 256)%N -> j < 4 -> f b j = g b j.
Proof.
  intros H b j Hb Hj. rewrite forallb_forall in H. specialize (H b (in_bytes b Hb)).
  rewrite forallb_forall in H. apply N.eqb_eq, H.
  destruct j as [|[|[|[|j]]]]; try lia; cbn; auto.
Qed.
Lemma sweep_bjv (f g : N -> nat -> N -> N) :
  forallb (fun b => forallb (fun j => forallb (fun v => (f b j v =? g b j v)%N) bytes)
                            [0; 1; 2; 3]) bytes = true ->
  forall b j v, (b < 256)%N -> j < 4 -> (v < 256)%N -> f b j v = g b j v.
Proof.
  intros H b j v Hb Hj Hv. rewrite forallb_forall in H. specialize (H b (in_bytes b Hb)).
  rewrite forallb_forall in H.
  assert (Hin : In j [0; 1; 2; 3]) by (destruct j as [|[|[|[|j]]]]; try lia; cbn; auto).
  specialize (H j Hin). rewrite forallb_forall in H. apply N.eqb_eq, H, in_bytes, Hv.
Qed.

(* The dispatching switches of cat_service / unsolicited_events_service are generated as TABLES
   state -> dispatch.  hname = the C functions a dispatching arm may call (one constructor per
   function; the ones that take a cat_fsm_type carry it); what calling them MEANS in the model is
   fixed in HandlerTie.v.in (run_assign / run_busy), not here. *)
Inductive hname :=
  | H_error_state | H_process_idle_state | H_parse_prefix | H_parse_command | H_update_command
  | H_wait_read_acknowledge | H_search_command | H_command_found | H_command_not_found
  | H_parse_command_args | H_parse_write_args | H_format_read_args (f : fsm)
  | H_wait_test_acknowledge | H_format_test_args (f : fsm) | H_process_write_loop
  | H_process_read_loop (f : fsm) | H_process_test_loop (f : fsm) | H_process_run_loop
  | H_process_hold_state | H_process_io_write_wait | H_process_io_write
  | H_unsolicited_process_io_write_wait | H_unsolicited_process_io_write
  | H_reset_state | H_unsolicited_reset_state | H_ack_ok
  | H_start_processing_format_read_args (f : fsm) | H_start_processing_format_test_args (f : fsm)
  | H_end_processing_with_ok (f : fsm) | H_print_cmd_list | H_check_unsolicited_buffers.
Inductive dispatch :=
  | DAssign (h : hname)      (* s = h(self);                                                *)
  | DBusy (h : hname)        (* h(self); s = CAT_STATUS_BUSY;                               *)
  | DIfEvents (h : hname)    (* if (!is_unsolicited_buffer_empty(self)) { h(self); s = BUSY } *)
  | DCallOnly (h : hname)    (* h(self);   (its status, if any, is dropped: s unchanged)    *)
  | DUnknown                 (* s = CAT_STATUS_ERROR_UNKNOWN_STATE;                         *)
  | DNothing.                (* s unchanged                                                 *)
Scheme Equality for hname.
Scheme Equality for dispatch.

(* The public functions that take the mutex are generated as a SHAPE (+ their body, a state
   function).  Statements are identified by their line in cat.c.
     <declarations, asserts>  as_pre  if (lock fails) return as_lock;  BODY
     if (unlock fails) return as_unlock;  as_post  return <expression>; *)
Record api_shape := mkApiShape {
  as_pre : list nat;           (* statements about *self before the lock test              *)
  as_lock : Z;                 (* status returned when lock() fails                        *)
  as_unlock : Z;               (* status returned when unlock() fails                      *)
  as_inner_returns : nat;      (* `return`s between lock and unlock (they would skip unlock) *)
  as_extra_mutex : nat;        (* uses of self->mutex outside the two tests                *)
  as_post : list nat;          (* statements about *self after the unlock test             *)
  as_return_pure : bool }.     (* the final return does not mention self                   *)
(* the shape of Fsm.bracket *)
Definition expected_api_shape : api_shape :=
  mkApiShape [] ST_MUTEX_LOCK ST_MUTEX_UNLOCK 0 0 [] true.
(* cat_service: what stands between lock and unlock, in order *)
Inductive body_item :=
  | BI_events_service          (* <local> = unsolicited_events_service(self);                 *)
  | BI_dispatch                (* switch (self->state) { .. }   (tied as g_cat_service_dispatch) *)
  | BI_merge.                  (* if (<that local> ..) s = ..;  (tied as g_cat_service_merge)    *)
Record service_shape := mkServiceShape { ss_api : api_shape; ss_body : list body_item }.
(* the merge of the two statuses at the end of Fsm.service_body (see cat_service_is_bracket in
   HandlerTie.v.in): st0 = status of the command machine, us = status of the event machine *)
Definition service_merge (st0 us : Z) (s : state) : Z :=
  if negb (us =? ST_OK)%Z || negb (ustate_beq (u_state (u s)) US_IDLE) then ST_BUSY else st0.
Definition expected_service_shape : service_shape :=
  mkServiceShape expected_api_shape [BI_events_service; BI_dispatch; BI_merge].

(* ====================================================================================== *)
(* 2. tie_auto                                                                            *)
(* ====================================================================================== *)
(* Goal:  g_f D .. s = model_f .. s.   Method: unfold the two heads and the light model helpers
   (setter chains), then repeatedly
     - normalise: beta/iota/zeta and projections applied to setters (cbn with an explicit list:
       no arithmetic is ever unfolded),
     - find the scrutinee on which the evaluation of a side is stuck (the leftmost innermost
       `match`/`if` in head or argument position), split on it ONCE (comparisons through their
       reflection lemmas, so that the facts are available to lia; a variable compared with a
       constant is substituted),
   until both sides are setter chains over the same state: reflexivity (conversion).  A leaf
   whose hypotheses are contradictory (the two sides tested related conditions in a different
   order) is closed by lia/congruence.  Every split removes all occurrences of its scrutinee, and
   the depth is bounded by explicit fuel, so the tactic always terminates. *)

(* rebound (::=) in HandlerTie.v.in before a theorem whose generated function calls other generated
   definitions that are tied separately (constant tables): rewrite with their ties *)
Ltac tie_rewrite_hook := idtac.

Ltac tie_norm :=
  cbv beta iota zeta;
  cbn [k u cbuf ubuf mem dis_cmd dis_grp fault gL gS gR
       set_k set_u set_cbuf set_ubuf set_mem set_dis_cmd set_dis_grp set_fault set_gL set_gS set_gR
       set_fault_flag
       k_index k_partial k_length k_position k_write_size k_cmd k_var k_type k_char k_state k_cr
       k_hold k_hold_exit k_wbuf k_wstate k_wafter k_implicit
       set_k_index set_k_partial set_k_length set_k_position set_k_write_size set_k_cmd set_k_var
       set_k_type set_k_char set_k_state set_k_cr set_k_hold set_k_hold_exit set_k_wbuf
       set_k_wstate set_k_wafter set_k_implicit
       setk_index setk_partial setk_length setk_position setk_write_size setk_cmd setk_var
       setk_type setk_char setk_state setk_cr setk_hold setk_hold_exit setk_wbuf setk_wstate
       setk_wafter setk_implicit
       u_state u_index u_position u_cmd u_var u_type u_wbuf u_wstate u_wafter u_ring u_tail
       u_head u_count
       set_u_state set_u_index set_u_position set_u_cmd set_u_var set_u_type set_u_wbuf
       set_u_wstate set_u_wafter set_u_ring set_u_tail set_u_head set_u_count
       setu_state setu_index setu_position setu_cmd setu_var setu_type setu_wbuf setu_wstate
       setu_wafter setu_ring setu_tail setu_head setu_count
       fsm_beq ctype_beq cstate_beq ustate_beq wstate_beq vaccess_beq
       N.eqb Z.eqb Pos.eqb
       andb orb negb fst snd Datatypes.length app];
  rewrite ?print_strings_cons, ?print_strings_nil;
  tie_rewrite_hook.

(* named constants and light model helpers (setter chains, at most one match): unfolded so that
   a field read AFTER a helper call can be evaluated *)
Ltac tie_unfold_light :=
  cbv delta [CMD_NOT_MATCH CMD_PARTIAL CMD_FULL
             ch_NUL ch_LF ch_CR ch_QM ch_EQ ch_A ch_T ch_COMMA ch_LT ch_GT ch_LBR ch_RBR ch_COLON
             ST_OK ST_BUSY ST_HOLD ST_ERROR ST_MUTEX_UNLOCK ST_MUTEX_LOCK ST_UNKNOWN_STATE
             ST_BUFFER_FULL ST_NOT_HOLD ST_BUFFER_EMPTY
             RC_ERROR RC_DATA_OK RC_DATA_NEXT RC_NEXT RC_OK RC_HOLD RC_HOLD_EXIT_OK
             RC_HOLD_EXIT_ERROR RC_PRINT_CMD_LIST_OK
             store_c set_cmd_state prepare_search_command prepare_parse_command reset_state
             unsolicited_reset_state enable_hold_state start_flush_c start_flush_u
             start_flush_raw_c ack_error ack_ok end_with_error end_with_ok
             is_busy is_hold hold_exit process_hold_state process_io_write_wait
             unsolicited_process_io_write_wait start_print_cmd_list cmd_list_next_cmd
             start_flush_after_ok start_flush_after set_loop_state cmd_of cmd_at
             ring_empty ring_full txt_ERROR txt_OK
             cap ring_store fault_status pop_c pop_unsolicited_cmd push_unsolicited_cmd
             check_unsolicited_buffers service_merge store_u next_format_var
             print_string_c var_of print_response_test info_pieces
             asz usz g_pos g_buf g_cmd g_var g_index g_bsz setg_pos setg_buf setg_var setg_index].

(* the scrutinee on which the evaluation of t is stuck *)
Ltac tie_stuck t :=
  match t with
  | match ?x with _ => _ end => tie_stuck x
  | match ?x with _ => _ end => x
  | andb ?a _ => tie_stuck a
  | orb ?a _ => tie_stuck a
  | negb ?a => tie_stuck a
  | andb ?a _ => a
  | orb ?a _ => a
  | negb ?a => a
  | ?f ?a => tie_stuck a
  | ?f _ => tie_stuck f
  end.

Ltac tie_subst_if_var a := tryif is_var a then subst a else idtac.

Ltac tie_split x :=
  let E := fresh "E" in
  lazymatch x with
  | N.eqb ?a ?b => destruct (N.eqb_spec a b) as [E|E]; [tie_subst_if_var a|]
  | Z.eqb ?a ?b => destruct (Z.eqb_spec a b) as [E|E]; [tie_subst_if_var a|]
  | Z.ltb ?a ?b => destruct (Z.ltb_spec0 a b) as [E|E]
  | Z.leb ?a ?b => destruct (Z.leb_spec0 a b) as [E|E]
  | Nat.eqb ?a ?b => destruct (Nat.eqb_spec a b) as [E|E]
  | Nat.leb ?a ?b => destruct (Nat.leb_spec0 a b) as [E|E]
  | Nat.ltb ?a ?b => destruct (Nat.ltb_spec0 a b) as [E|E]
  | fsm_beq ?a _ => tryif is_var a then destruct a else (destruct x eqn:E)
  | ctype_beq ?a _ => tryif is_var a then destruct a else (destruct x eqn:E)
  | cstate_beq ?a _ => tryif is_var a then destruct a else (destruct x eqn:E)
  | ustate_beq ?a _ => tryif is_var a then destruct a else (destruct x eqn:E)
  | _ => destruct x eqn:E; try rewrite E in *
  end.

(* a leaf: both sides are setter chains.  Setters and projections are unfolded completely (both
   sides become constructor terms over the projections of s), so that a mismatch is found
   field by field instead of by a long failing conversion *)
Ltac tie_leaf :=
  cbv beta iota zeta delta
      [k u cbuf ubuf mem dis_cmd dis_grp fault gL gS gR
       set_k set_u set_cbuf set_ubuf set_mem set_dis_cmd set_dis_grp set_fault set_gL set_gS set_gR
       set_fault_flag
       k_index k_partial k_length k_position k_write_size k_cmd k_var k_type k_char k_state k_cr
       k_hold k_hold_exit k_wbuf k_wstate k_wafter k_implicit
       set_k_index set_k_partial set_k_length set_k_position set_k_write_size set_k_cmd set_k_var
       set_k_type set_k_char set_k_state set_k_cr set_k_hold set_k_hold_exit set_k_wbuf
       set_k_wstate set_k_wafter set_k_implicit
       setk_index setk_partial setk_length setk_position setk_write_size setk_cmd setk_var
       setk_type setk_char setk_state setk_cr setk_hold setk_hold_exit setk_wbuf setk_wstate
       setk_wafter setk_implicit
       u_state u_index u_position u_cmd u_var u_type u_wbuf u_wstate u_wafter u_ring u_tail
       u_head u_count
       set_u_state set_u_index set_u_position set_u_cmd set_u_var set_u_type set_u_wbuf
       set_u_wstate set_u_wafter set_u_ring set_u_tail set_u_head set_u_count
       setu_state setu_index setu_position setu_cmd setu_var setu_type setu_wbuf setu_wstate
       setu_wafter setu_ring setu_tail setu_head setu_count];
  reflexivity.

(* facts about the partial reads made so far, for the contradictory leaves *)
Ltac tie_nth_facts :=
  repeat match goal with
  | H : nth_error ?l ?n = Some _ |- _ =>
    lazymatch goal with
    | _ : n < Datatypes.length l |- _ => fail
    | _ => assert (n < Datatypes.length l) by (apply nth_error_Some; rewrite H; discriminate)
    end
  end.

(* a leaf whose two sides differ only in  <generated bit arithmetic> = lane_get b (i mod 4)  or
   = lane_set b (i mod 4) v : the byte is replaced by its low 8 bits (lane_get_u8 / lane_set_u8;
   the generated side starts from u8 (Z.of_N b), the char read as uint8_t), both are generalised
   to any b < 256 and j < 4 (v < 256 is a hypothesis of the theorem: a uint8_t parameter), and the
   equation is decided by evaluating both sides on the whole domain (sweep_bj / sweep_bjv) *)
(* (vm_cast_no_check only defers the evaluation: the kernel re-checks the cast, by VM conversion,
   when the proof is closed with Qed) *)
Ltac lane_sweep2 b j :=
  lazymatch goal with |- ?L = ?R =>
    let fL := eval pattern b, j in L in
    let fR := eval pattern b, j in R in
    lazymatch fL with ?f _ _ => lazymatch fR with ?g _ _ =>
      apply (sweep_bj f g); [vm_cast_no_check (eq_refl true) | assumption | assumption ] end end end.
Ltac lane_sweep3 b j v :=
  lazymatch goal with |- ?L = ?R =>
    let fL := eval pattern b, j, v in L in
    let fR := eval pattern b, j, v in R in
    lazymatch fL with ?f _ _ _ => lazymatch fR with ?g _ _ _ =>
      apply (sweep_bjv f g); [vm_cast_no_check (eq_refl true) | assumption | assumption | assumption ] end end end.
Ltac lane_core :=
  repeat f_equal;
  lazymatch goal with
  | |- _ = lane_get ?b (?i mod 4) =>
    rewrite <- (lane_get_u8 b (i mod 4)) by (apply Nat.mod_upper_bound; discriminate);
    let b' := fresh "b" in let Hb := fresh "Hb" in let j := fresh "j" in let Hj := fresh "Hj" in
    pose proof (u8_lt (Z.of_N b)) as Hb; revert Hb; generalize (u8 (Z.of_N b)); intros b' Hb;
    assert (Hj : i mod 4 < 4) by (apply Nat.mod_upper_bound; discriminate);
    revert Hj; generalize (i mod 4); intros j Hj;
    lane_sweep2 b' j
  | |- _ = lane_set ?b (?i mod 4) ?v =>
    rewrite <- (lane_set_u8 b (i mod 4) v) by (apply Nat.mod_upper_bound; discriminate);
    let b' := fresh "b" in let Hb := fresh "Hb" in let j := fresh "j" in let Hj := fresh "Hj" in
    pose proof (u8_lt (Z.of_N b)) as Hb; revert Hb; generalize (u8 (Z.of_N b)); intros b' Hb;
    assert (Hj : i mod 4 < 4) by (apply Nat.mod_upper_bound; discriminate);
    revert Hj; generalize (i mod 4); intros j Hj;
    lane_sweep3 b' j v
  end.

(* No backtracking: once a scrutinee is chosen, the split is committed (tryif), so a failing
   leaf fails the whole tactic at once. *)
Ltac tie_go n :=
  tie_norm;
  lazymatch goal with
  | |- ?L = ?R =>
    tryif (let x := tie_stuck L in idtac) then (let x := tie_stuck L in tie_next n x)
    else tryif (let x := tie_stuck R in idtac) then (let x := tie_stuck R in tie_next n x)
    else first [ tie_leaf | lane_core
               | progress (repeat match goal with
                                  | |- context [S ?n - 1] => replace (S n - 1) with n by lia
                                  end); tie_leaf
               | tie_value_split n
               | exfalso; tie_nth_facts; cbn [Datatypes.length] in *; first [lia | congruence] ]
  end
(* no `if`/`match` is stuck, but the two sides still differ: a comparison that is part of a VALUE
   (e.g. the returned bool) is split *)
with tie_value_split n :=
  lazymatch goal with
  | |- context [Nat.eqb ?a ?b] => tie_next n (Nat.eqb a b)
  | |- context [Nat.leb ?a ?b] => tie_next n (Nat.leb a b)
  | |- context [Nat.ltb ?a ?b] => tie_next n (Nat.ltb a b)
  | |- context [Z.eqb ?a ?b] => tie_next n (Z.eqb a b)
  | |- context [N.eqb ?a ?b] => tie_next n (N.eqb a b)
  end
with tie_next n x :=
  lazymatch n with
  | O => fail "tie_auto: out of fuel"
  | S ?n' => tie_split x; tie_go n'
  end.

Ltac tie_head t := lazymatch t with ?f _ => tie_head f | _ => t end.
Ltac tie_unfold_head t := let h := tie_head t in try unfold h.

(* rebound (::=) by the generated file when it contains auxiliary definitions g_aux_* *)
Ltac tie_unfold_gen := idtac.

Ltac tie_auto :=
  intros;
  lazymatch goal with |- ?L = ?R => tie_unfold_head L; tie_unfold_head R end;
  tie_unfold_gen;
  tie_unfold_light;
  tie_go 60.

(* ---- tie_loop: a `for` loop of cat.c translated into a structural recursion g_f_loopK over the
        model list (see for_loop in tools/handler_translate.py).  Goal (stated by hand in
        HandlerTie.v.in, generalised over the variables the loop carries):
            forall <carried>, <invariant> -> g_f_loopK D .. s l <carried> = <model recursion on l>
        Method: induction on l; one unfolding of both recursions; split on every comparison of
        naturals; rewrite with the induction hypothesis (side conditions by lia); normalise
        a - (b + c) and a + (b - a); then reflexivity / lia / case analysis of the remaining
        boolean tests. ---- *)
Ltac loop_step_cbn :=
  lazymatch goal with |- ?L = _ =>
    let h := tie_head L in
    cbn [h enum_groups cmd_by_index group_of_index existsb grp_cmds grp_off grp_index fst snd]
  end.
Ltac loop_split :=
  repeat match goal with
  | |- context [Nat.leb ?a ?b] => destruct (Nat.leb_spec0 a b)
  | |- context [Nat.ltb ?a ?b] => destruct (Nat.ltb_spec0 a b)
  | |- context [Nat.eqb ?a ?b] => destruct (Nat.eqb_spec a b)
  end.
Ltac loop_arith :=
  rewrite ?Nat.sub_add_distr;
  repeat match goal with
  | |- context [?a + (?b - ?a)] => replace (a + (b - a)) with b by lia
  end.
Ltac loop_ifs :=
  repeat match goal with
  | |- context [if ?c then _ else _] => destruct c eqn:?
  end.
Ltac loop_leaf IH :=
  try (rewrite IH by lia);
  loop_arith;
  first [ reflexivity | exfalso; lia | f_equal; lia
        | loop_ifs; first [ reflexivity | congruence | exfalso; lia ] ].
Ltac tie_loop l :=
  let x := fresh "x" in let IH := fresh "IH" in
  induction l as [|x l IH]; intros;
  [ cbv beta iota zeta delta -[Nat.sub Nat.add]; try reflexivity; loop_leaf IH
  | loop_step_cbn; tie_unfold_gen; cbv beta zeta; loop_split; loop_leaf IH ].

(* ---- tie_wloop: a countdown loop `while ((n > 0) && ..) { .. --n; .. }` translated into a
        structural recursion g_f_loopK on n (see while_loop in tools/handler_translate.py).  Goal
        (stated by hand, generalised over the carried variables):
            forall <carried>, g_f_loopK D .. s n <carried> = <model recursion on n>
        Method: induction on n; one unfolding of both recursions; the recursive calls are rewritten
        with the induction hypothesis; what remains is loop-free: tie_go. ---- *)
Ltac wloop_step_cbn :=
  lazymatch goal with |- ?L = _ =>
    let h := tie_head L in cbn [h scan_ring]
  end.
Ltac tie_wloop n :=
  let IH := fresh "IH" in
  induction n as [|n IH]; intros;
  [ wloop_step_cbn; tie_unfold_gen; tie_unfold_light; cbv delta [ev_match]; tie_go 40
  | wloop_step_cbn; tie_unfold_gen; cbv beta zeta; rewrite ?IH; tie_unfold_light;
    cbv delta [ev_match]; tie_go 60 ].

(* ====================================================================================== *)
(* 3. Diagnosis of a failed tie: concrete states                                          *)
(* ====================================================================================== *)

Definition opt_eqb {A} (e : A -> A -> bool) (x y : option A) : bool :=
  match x, y with Some a, Some b => e a b | None, None => true | _, _ => false end.
Fixpoint list_eqb {A} (e : A -> A -> bool) (x y : list A) : bool :=
  match x, y with
  | [], [] => true
  | a :: x', b :: y' => e a b && list_eqb e x' y'
  | _, _ => false
  end.
Definition wbuf_eqb (x y : wbuf) : bool :=
  match x, y with WB_NL a, WB_NL b => Bool.eqb a b | WB_MAIN, WB_MAIN => true | _, _ => false end.
Definition ring_item_eqb (x y : nat * ctype) : bool :=
  (fst x =? fst y) && ctype_beq (snd x) (snd y).

(* names of the fields in which two states differ *)
Definition fld (same : bool) (name : string) : list string := if same then [] else [name].
Arguments fld _ _%string.
Definition diff_cfsm (x y : cfsm) : list string :=
  fld (k_index x =? k_index y) "k_index" ++
  fld (k_partial x =? k_partial y) "k_partial" ++
  fld (k_length x =? k_length y) "k_length" ++
  fld (k_position x =? k_position y) "k_position" ++
  fld (k_write_size x =? k_write_size y) "k_write_size" ++
  fld (opt_eqb Nat.eqb (k_cmd x) (k_cmd y)) "k_cmd" ++
  fld (k_var x =? k_var y) "k_var" ++
  fld (ctype_beq (k_type x) (k_type y)) "k_type" ++
  fld (N.eqb (k_char x) (k_char y)) "k_char" ++
  fld (cstate_beq (k_state x) (k_state y)) "k_state" ++
  fld (Bool.eqb (k_cr x) (k_cr y)) "k_cr" ++
  fld (Bool.eqb (k_hold x) (k_hold y)) "k_hold" ++
  fld (Z.eqb (k_hold_exit x) (k_hold_exit y)) "k_hold_exit" ++
  fld (wbuf_eqb (k_wbuf x) (k_wbuf y)) "k_wbuf" ++
  fld (wstate_beq (k_wstate x) (k_wstate y)) "k_wstate" ++
  fld (cstate_beq (k_wafter x) (k_wafter y)) "k_wafter" ++
  fld (Bool.eqb (k_implicit x) (k_implicit y)) "k_implicit".
Definition diff_ufsm (x y : ufsm) : list string :=
  fld (ustate_beq (u_state x) (u_state y)) "u_state" ++
  fld (u_index x =? u_index y) "u_index" ++
  fld (u_position x =? u_position y) "u_position" ++
  fld (opt_eqb Nat.eqb (u_cmd x) (u_cmd y)) "u_cmd" ++
  fld (u_var x =? u_var y) "u_var" ++
  fld (ctype_beq (u_type x) (u_type y)) "u_type" ++
  fld (wbuf_eqb (u_wbuf x) (u_wbuf y)) "u_wbuf" ++
  fld (wstate_beq (u_wstate x) (u_wstate y)) "u_wstate" ++
  fld (ustate_beq (u_wafter x) (u_wafter y)) "u_wafter" ++
  fld (list_eqb ring_item_eqb (u_ring x) (u_ring y)) "u_ring" ++
  fld (u_tail x =? u_tail y) "u_tail" ++
  fld (u_head x =? u_head y) "u_head" ++
  fld (u_count x =? u_count y) "u_count".
Definition diff_state (x y : state) : list string :=
  diff_cfsm (k x) (k y) ++ diff_ufsm (u x) (u y) ++
  fld (list_eqb N.eqb (cbuf x) (cbuf y)) "cbuf" ++
  fld (list_eqb N.eqb (ubuf x) (ubuf y)) "ubuf" ++
  fld (list_eqb (list_eqb N.eqb) (mem x) (mem y)) "mem" ++
  fld (list_eqb Bool.eqb (dis_cmd x) (dis_cmd y)) "dis_cmd" ++
  fld (list_eqb Bool.eqb (dis_grp x) (dis_grp y)) "dis_grp" ++
  fld (Bool.eqb (fault x) (fault y)) "fault" ++
  fld (gL x =? gL y) "gL" ++
  fld (gS x =? gS y) "gS" ++
  fld (gR x =? gR y) "gR".

Definition state_eqb (x y : state) : bool :=
  match diff_state x y with [] => true | _ => false end.
Definition state_Z_eqb (x y : state * Z) : bool :=
  state_eqb (fst x) (fst y) && Z.eqb (snd x) (snd y).
Definition state_bool_eqb (x y : state * bool) : bool :=
  state_eqb (fst x) (fst y) && Bool.eqb (snd x) (snd y).

(* what a diagnosis prints: the input, what the generated definition and the model give, and
   the names of the state fields in which the two results differ *)
Record witness (T R : Type) := mkWitness {
  w_input : T; w_generated : R; w_model : R; w_differ_in : list string }.
Arguments mkWitness {T R}.

Definition first_diff {T R} (eqb : R -> R -> bool) (fields : R -> R -> list string)
           (gen model : T -> R) (inputs : list T) : option (witness T R) :=
  match find (fun x => negb (eqb (gen x) (model x))) inputs with
  | Some x => Some (mkWitness x (gen x) (model x) (fields (gen x) (model x)))
  | None => None
  end.
(* two checks in a row (a shape, then a body): the first difference of either *)
Definition first_diff2 {T1 R1 T2 R2} (a : option (witness T1 R1)) (b : option (witness T2 R2))
  : option (witness (option T1 * option T2) (option R1 * option R2)) :=
  match a, b with
  | Some w, _ => Some (mkWitness (Some (w_input _ _ w), None) (Some (w_generated _ _ w), None)
                                 (Some (w_model _ _ w), None) (w_differ_in _ _ w))
  | None, Some w => Some (mkWitness (None, Some (w_input _ _ w)) (None, Some (w_generated _ _ w))
                                    (None, Some (w_model _ _ w)) (w_differ_in _ _ w))
  | None, None => None
  end.
Definition diff_fst {B} (x y : state * B) : list string :=
  diff_state (fst x) (fst y) ++
  (if state_eqb (fst x) (fst y) then ["returned value"%string] else []).

(* ---- test descriptors: index 0 has three registered commands in two groups and one extra
        (event-only) command; index 1 has no command at all ---- *)
Definition tvar (a : vaccess) : var := mkVar None VInt 1 a false false 0.
(* "A": all four handlers, no variables *)
Definition tcmd0 : cmd := mkCmd [65%N] None true true true true [] false false false.
(* "AB": only_test, description, a read-only and a write-only variable, no handlers *)
Definition tcmd1 : cmd :=
  mkCmd [65%N; 66%N] (Some [100%N]) false false false false [tvar RO; tvar WO] false true false.
(* "+X": implicit write, write handler, one read-write variable *)
Definition tcmd2 : cmd := mkCmd [43%N; 88%N] None true false false false [tvar RW] true false true.
(* "E": no handlers, no variables *)
Definition tcmd3 : cmd := mkCmd [69%N] None false false false false [] false false false.
Definition tdesc0 : desc := mkDesc [[tcmd0; tcmd1]; [tcmd2]] [tcmd3] 8 None 0%N 2 false.
Definition tdesc1 : desc := mkDesc [] [] 4 (Some 4) 0%N 1 false.
(* index 2: as index 0 with a queue of capacity 3 (not a power of two) *)
Definition tdesc2 : desc := mkDesc [[tcmd0; tcmd1]; [tcmd2]] [tcmd3] 8 None 0%N 3 false.
(* index 3: one command "V" with a description, a test handler and three variables (one named,
   one of an unsupported size) *)
Definition tcmd4 : cmd :=
  mkCmd [86%N] (Some [100%N; 101%N]) false false false true
        [mkVar (Some [120%N]) VInt 2 RW false false 0; mkVar None VHex 3 RO false false 0;
         mkVar None VBufStr 4 WO false false 0] false false false.
Definition tdesc3 : desc := mkDesc [[tcmd4]] [] 64 None 0%N 2 false.
Definition tD (i : nat) : desc :=
  match i with O => tdesc0 | 1 => tdesc1 | 2 => tdesc2 | _ => tdesc3 end.

(* ---- secondary patterns: five settings of the fields that rarely interact ---- *)
Definition base_state : state :=
  mkState init_cfsm (init_ufsm tdesc0) [] [0%N; 0%N; 0%N; 0%N] [[0%N]]
          [false; false; false] [false; false] false 0 0 0.
Definition pattern (i : nat) (s : state) : state :=
  match i with
  | 0 => s
  | 1 => s |> setk_state CS_FLUSH |> setu_state US_FLUSH |> setk_cr true |> setk_hold true
           |> setk_hold_exit (-1)%Z |> setk_implicit true |> setk_position 1
           |> setk_wstate WS_MAIN |> setk_wafter CS_AFTER_RESET |> setk_wbuf WB_MAIN
           |> setu_cmd (Some 1) |> setu_type T_READ |> setu_index 1 |> setu_position 2
           |> set_dis_cmd [false; true; false] |> setu_count 1
  | 2 => s |> setk_state CS_HOLD |> setu_state US_READ_LOOP |> setk_hold true
           |> setk_hold_exit 1%Z |> setk_write_size 3 |> setk_var 1 |> setk_wstate WS_AFTER
           |> setu_wstate WS_MAIN |> setu_wafter US_AFTER_OK |> set_dis_grp [false; true]
           |> setu_count 2
  | 3 => s |> setu_state US_FLUSH |> setk_hold_exit 1%Z |> setk_cr true |> setu_var 1
  | _ => s |> setk_state CS_FLUSH |> setk_hold_exit (-1)%Z |> setk_implicit true
           |> set_gS 2 |> set_gL 1
  end.

Definition vary {A} (vals : list A) (set : A -> state -> state) (l : list state) : list state :=
  flat_map (fun s => map (fun v => set v s) vals) l.

(* big family = (a) every combination of the fields the name matching and the argument
   collection branch on, times three patterns, and (b) every combination of the other fields *)
Definition states_primary : list state :=
  [base_state]
  |> vary [0; 1; 2] pattern
  |> vary [None; Some 0; Some 1; Some 2] setk_cmd
  |> vary [0; 1; 2] setk_index
  |> vary [0; 1; 2] setk_partial
  |> vary [0; 1; 2] setk_length
  |> vary [T_NONE; T_RUN; T_READ; T_WRITE; T_TEST; T_TOTAL] setk_type
  |> vary [10%N; 13%N; 65%N; 63%N] setk_char
  |> vary [[]; [85%N; 85%N; 85%N; 85%N]; [6%N; 0%N]; [37%N; 7%N; 1%N]; [16%N]] set_cbuf.
Definition states_secondary : list state :=
  [base_state; pattern 3 base_state; pattern 4 base_state]
  |> vary [CS_IDLE; CS_FLUSH; CS_HOLD] setk_state
  |> vary [US_IDLE; US_FLUSH; US_READ_LOOP] setu_state
  |> vary [false; true] setk_cr
  |> vary [false; true] setk_hold
  |> vary [(-1)%Z; 0%Z; 1%Z] setk_hold_exit
  |> vary [false; true] setk_implicit
  |> vary [0; 2] setk_position
  |> vary [0; 1] setu_position
  |> vary [None; Some 0] setk_cmd
  |> vary [T_NONE; T_READ] setk_type
  |> vary [0; 2] setk_index
  |> vary [[]; [85%N; 85%N]] set_cbuf.
Definition states_big : list state := states_primary ++ states_secondary.

(* small family, for the bodies of the reading states (combined with all 256 bytes) *)
Definition states_small : list state :=
  [base_state]
  |> vary [0; 1; 2; 3; 4] pattern
  |> vary [None; Some 0; Some 1; Some 2] setk_cmd
  |> vary [0; 1; 2] setk_length
  |> vary [[]; [7%N]; [1%N; 2%N; 3%N]] set_cbuf.

Definition all_cstates : list cstate :=
  [CS_ERROR; CS_IDLE; CS_PARSE_PREFIX; CS_PARSE_COMMAND_CHAR; CS_UPDATE_COMMAND_STATE;
   CS_WAIT_READ_ACK; CS_SEARCH_COMMAND; CS_COMMAND_FOUND; CS_COMMAND_NOT_FOUND;
   CS_PARSE_COMMAND_ARGS; CS_PARSE_WRITE_ARGS; CS_FORMAT_READ_ARGS; CS_WAIT_TEST_ACK;
   CS_FORMAT_TEST_ARGS; CS_WRITE_LOOP; CS_READ_LOOP; CS_TEST_LOOP; CS_RUN_LOOP; CS_HOLD;
   CS_FLUSH_WAIT; CS_FLUSH; CS_AFTER_RESET; CS_AFTER_OK; CS_AFTER_FMT_READ; CS_AFTER_FMT_TEST;
   CS_PRINT_CMD].
Definition all_ustates : list ustate :=
  [US_IDLE; US_FORMAT_READ_ARGS; US_FORMAT_TEST_ARGS; US_READ_LOOP; US_TEST_LOOP; US_FLUSH_WAIT;
   US_FLUSH; US_AFTER_RESET; US_AFTER_OK; US_AFTER_FMT_READ; US_AFTER_FMT_TEST].

(* inputs = (descriptor index, state), optionally with one more argument in front *)
Definition fam_ds : list (nat * state) := list_prod [0; 1] states_big.
Definition fam_ds_small : list (nat * state) := list_prod [0; 1] states_small.
Definition fam_cds : list (N * (nat * state)) := list_prod bytes fam_ds_small.
Definition with_arg {A} (vals : list A) : list (A * (nat * state)) := list_prod vals fam_ds_small.

(* ---- the 2-bit lanes: every byte value in the two bytes of the bitmap, with and without a
        disabled command; command indices 0..7 address these two bytes, 8 is outside ---- *)
Definition states_lane : list state :=
  [base_state; pattern 1 base_state]
  |> vary (map (fun b => [b; N.lxor b 255]) bytes) set_cbuf.
Definition fam_lane : list (nat * (nat * state)) :=
  list_prod [0; 1; 2; 3; 4; 5; 6; 7; 8] (list_prod [0; 1] states_lane).
Definition fam_lane_v : list (N * (nat * (nat * state))) :=
  list_prod [0%N; 1%N; 2%N; 3%N; 255%N] fam_lane.

(* ---- the loops over the descriptor tables ---- *)
Definition cmd_eqb (x y : cmd) : bool :=        (* enough to tell the test commands apart *)
  list_eqb N.eqb (c_name x) (c_name y) && Bool.eqb (c_hrun x) (c_hrun y)
  && (Datatypes.length (c_vars x) =? Datatypes.length (c_vars y)).
Definition fam_index : list (nat * (nat * state)) := with_arg [0; 1; 2; 3; 4].
Definition fam_cmd_access : list ((cmd * vaccess) * (nat * state)) :=
  list_prod (list_prod [tcmd0; tcmd1; tcmd2; tcmd3] [RW; RO; WO]) [(0, base_state)].

(* ---- the queue: every position of head and tail in a ring of three entries, 0..3 items ---- *)
Definition states_ring : list state :=
  [base_state; pattern 1 base_state]
  |> vary [[(1, T_READ); (2, T_TEST); (0, T_READ)]; [(3, T_TEST)]] setu_ring
  |> vary [0; 1; 2] setu_head
  |> vary [0; 1; 2] setu_tail
  |> vary [0; 1; 2; 3] setu_count.
Definition fam_ring : list (nat * state) := list_prod [2; 0; 1] states_ring.
Definition fam_ring_push : list ((nat * ctype) * (nat * state)) :=
  list_prod (list_prod [0; 3] [T_READ; T_TEST]) fam_ring.
Definition out_eqb (x y : state * Z * option (option nat) * option ctype) : bool :=
  state_Z_eqb (fst (fst x)) (fst (fst y))
  && opt_eqb (opt_eqb Nat.eqb) (snd (fst x)) (snd (fst y))
  && opt_eqb ctype_beq (snd x) (snd y).
Definition diff_out (x y : state * Z * option (option nat) * option ctype) : list string :=
  diff_state (fst (fst (fst x))) (fst (fst (fst y))) ++
  (if state_eqb (fst (fst (fst x))) (fst (fst (fst y))) then ["returned value / out-parameters"%string] else []).

(* ---- shapes ---- *)
Definition api_shape_eqb (x y : api_shape) : bool :=
  list_eqb Nat.eqb (as_pre x) (as_pre y) && Z.eqb (as_lock x) (as_lock y)
  && Z.eqb (as_unlock x) (as_unlock y) && (as_inner_returns x =? as_inner_returns y)
  && (as_extra_mutex x =? as_extra_mutex y) && list_eqb Nat.eqb (as_post x) (as_post y)
  && Bool.eqb (as_return_pure x) (as_return_pure y).
Definition body_item_eqb (x y : body_item) : bool :=
  match x, y with
  | BI_events_service, BI_events_service | BI_dispatch, BI_dispatch | BI_merge, BI_merge => true
  | _, _ => false
  end.
Definition service_shape_eqb (x y : service_shape) : bool :=
  api_shape_eqb (ss_api x) (ss_api y) && list_eqb body_item_eqb (ss_body x) (ss_body y).
Definition diff_api (x y : api_shape) : list string :=
  fld (list_eqb Nat.eqb (as_pre x) (as_pre y)) "statements before the lock (lines)" ++
  fld (Z.eqb (as_lock x) (as_lock y)) "status when lock fails" ++
  fld (Z.eqb (as_unlock x) (as_unlock y)) "status when unlock fails" ++
  fld (as_inner_returns x =? as_inner_returns y) "return between lock and unlock" ++
  fld (as_extra_mutex x =? as_extra_mutex y) "other uses of self->mutex" ++
  fld (list_eqb Nat.eqb (as_post x) (as_post y)) "statements after the unlock (lines)" ++
  fld (Bool.eqb (as_return_pure x) (as_return_pure y)) "final return mentions self".
Definition diff_service (x y : service_shape) : list string :=
  diff_api (ss_api x) (ss_api y) ++
  fld (list_eqb body_item_eqb (ss_body x) (ss_body y)) "order of the statements between lock and unlock".
Definition fam_status : list (Z * (nat * state)) := with_arg [0%Z; 1%Z; (-1)%Z; 2%Z].
Definition fam_trigger : list ((nat * ctype) * (nat * state)) := fam_ring_push.
Definition fam_merge : list ((Z * Z) * (nat * state)) :=
  with_arg (list_prod [0%Z; 1%Z; (-1)%Z; (-4)%Z] [0%Z; 1%Z; (-1)%Z]).
Definition fam_buffered : list ((nat * ctype) * (nat * state)) :=
  list_prod (list_prod [0; 1; 3] [T_NONE; T_READ; T_TEST]) fam_ring.

(* ---- printing the description of a variable (test descriptor 3); small and large buffers ---- *)
Definition states_info : list state :=
  [base_state]
  |> vary [None; Some 0] setk_cmd
  |> vary [None; Some 0] setu_cmd
  |> vary [0; 1; 2; 3] setk_var
  |> vary [0; 1] setu_var
  |> vary [0; 3] setk_position
  |> vary [repeat 0%N 4; repeat 0%N 12; repeat 0%N 32] set_cbuf
  |> vary [repeat 0%N 3; repeat 0%N 32] set_ubuf.
Definition fam_info : list (fsm * (nat * state)) :=
  list_prod [ATCMD; UNSOL] (list_prod [3] states_info).
