(* HandlerTieLib.v -- static part of the "handler tie" (tools/handler_translate.py copies this
   file into its work directory and compiles it there, before the generated HandlerGen.v and the
   assembled HandlerTie.v; it is NOT part of _CoqProject).

   1. store_c        the one definition the generated code needs that the model does not have
   2. tie_auto       the generic proof of "generated definition = model function"
   3. state_eqb ...  decidable comparison of states, and the deterministic families of concrete
                     states on which a FAILED tie is evaluated to find a witness (diagnosis only:
                     nothing in section 3 is used by a tie theorem)
   Every lemma is proved; nothing is assumed. *)
From Coq Require Import List NArith ZArith Bool Arith Lia String.
From CatV Require Import Bytes Defs Codec Fsm.
Import ListNotations.
Local Open Scope nat_scope.

(* ====================================================================================== *)
(* 1. Vocabulary of the generated code that is not in the model                           *)
(* ====================================================================================== *)

(* get_atcmd_buf(self)[i] = v : a store outside the working buffer is undefined behaviour in C;
   here it sets the model's fault flag (a state with the flag set is outside the verified
   envelope), as the model does for its own out-of-range accesses. *)
Definition store_c (i : nat) (v : N) (s : state) : state :=
  if i <? asz s then set_cbuf (upd (cbuf s) i v) s else set_fault_flag s.

(* The dispatching switches of cat_service / unsolicited_events_service are generated as TABLES
   state -> dispatch.  hname = the C functions a dispatching arm may call (one constructor per
   function; the ones that take a cat_fsm_type carry it); what calling them MEANS in the model is
   fixed in HandlerTie.v.in (run_assign / run_busy), not here. *)
Inductive hname :=
  | H_error_state | H_process_idle_state | H_parse_prefix | H_parse_command | H_update_command
  | H_wait_read_acknowledge | H_search_command | H_command_found | H_command_not_found
  | H_parse_command_args | H_parse_write_args | H_format_read_args (f : fsm)
  | H_wait_test_acknowledge | H_format_test_args (f : fsm) | H_process_write_loop
  | H_process_read_loop (f : fsm) | H_process_test_loop (f : fsm) | H_process_run_loop
  | H_process_hold_state | H_process_io_write_wait | H_process_io_write
  | H_unsolicited_process_io_write_wait | H_unsolicited_process_io_write
  | H_reset_state | H_unsolicited_reset_state | H_ack_ok
  | H_start_processing_format_read_args (f : fsm) | H_start_processing_format_test_args (f : fsm)
  | H_end_processing_with_ok (f : fsm) | H_print_cmd_list | H_check_unsolicited_buffers.
Inductive dispatch :=
  | DAssign (h : hname)      (* s = h(self);                                                *)
  | DBusy (h : hname)        (* h(self); s = CAT_STATUS_BUSY;                               *)
  | DIfEvents (h : hname)    (* if (!is_unsolicited_buffer_empty(self)) { h(self); s = BUSY } *)
  | DUnknown                 (* s = CAT_STATUS_ERROR_UNKNOWN_STATE;                         *)
  | DNothing.                (* s unchanged                                                 *)
Scheme Equality for hname.
Scheme Equality for dispatch.

(* ====================================================================================== *)
(* 2. tie_auto                                                                            *)
(* ====================================================================================== *)
(* Goal:  g_f D .. s = model_f .. s.   Method: unfold the two heads and the light model helpers
   (setter chains), then repeatedly
     - normalise: beta/iota/zeta and projections applied to setters (cbn with an explicit list:
       no arithmetic is ever unfolded),
     - find the scrutinee on which the evaluation of a side is stuck (the leftmost innermost
       `match`/`if` in head or argument position), split on it ONCE (comparisons through their
       reflection lemmas, so that the facts are available to lia; a variable compared with a
       constant is substituted),
   until both sides are setter chains over the same state: reflexivity (conversion).  A leaf
   whose hypotheses are contradictory (the two sides tested related conditions in a different
   order) is closed by lia/congruence.  Every split removes all occurrences of its scrutinee, and
   the depth is bounded by explicit fuel, so the tactic always terminates. *)

Ltac tie_norm :=
  cbv beta iota zeta;
  cbn [k u cbuf ubuf mem dis_cmd dis_grp fault gL gS gR
       set_k set_u set_cbuf set_ubuf set_mem set_dis_cmd set_dis_grp set_fault set_gL set_gS set_gR
       set_fault_flag
       k_index k_partial k_length k_position k_write_size k_cmd k_var k_type k_char k_state k_cr
       k_hold k_hold_exit k_wbuf k_wstate k_wafter k_implicit
       set_k_index set_k_partial set_k_length set_k_position set_k_write_size set_k_cmd set_k_var
       set_k_type set_k_char set_k_state set_k_cr set_k_hold set_k_hold_exit set_k_wbuf
       set_k_wstate set_k_wafter set_k_implicit
       setk_index setk_partial setk_length setk_position setk_write_size setk_cmd setk_var
       setk_type setk_char setk_state setk_cr setk_hold setk_hold_exit setk_wbuf setk_wstate
       setk_wafter setk_implicit
       u_state u_index u_position u_cmd u_var u_type u_wbuf u_wstate u_wafter u_ring u_tail
       u_head u_count
       set_u_state set_u_index set_u_position set_u_cmd set_u_var set_u_type set_u_wbuf
       set_u_wstate set_u_wafter set_u_ring set_u_tail set_u_head set_u_count
       setu_state setu_index setu_position setu_cmd setu_var setu_type setu_wbuf setu_wstate
       setu_wafter setu_ring setu_tail setu_head setu_count
       fsm_beq ctype_beq cstate_beq ustate_beq wstate_beq vaccess_beq
       N.eqb Z.eqb Pos.eqb
       andb orb negb fst snd Datatypes.length].

(* named constants and light model helpers (setter chains, at most one match): unfolded so that
   a field read AFTER a helper call can be evaluated *)
Ltac tie_unfold_light :=
  cbv delta [CMD_NOT_MATCH CMD_PARTIAL CMD_FULL
             ch_NUL ch_LF ch_CR ch_QM ch_EQ ch_A ch_T ch_COMMA
             ST_OK ST_BUSY ST_HOLD ST_ERROR ST_MUTEX_UNLOCK ST_MUTEX_LOCK ST_UNKNOWN_STATE
             ST_BUFFER_FULL ST_NOT_HOLD ST_BUFFER_EMPTY
             RC_ERROR RC_DATA_OK RC_DATA_NEXT RC_NEXT RC_OK RC_HOLD RC_HOLD_EXIT_OK
             RC_HOLD_EXIT_ERROR RC_PRINT_CMD_LIST_OK
             store_c set_cmd_state prepare_search_command prepare_parse_command reset_state
             unsolicited_reset_state enable_hold_state start_flush_c start_flush_u
             start_flush_raw_c ack_error ack_ok end_with_error end_with_ok
             is_busy is_hold hold_exit process_hold_state process_io_write_wait
             unsolicited_process_io_write_wait start_print_cmd_list cmd_list_next_cmd
             start_flush_after_ok start_flush_after set_loop_state cmd_of cmd_at
             ring_empty ring_full txt_ERROR txt_OK
             asz usz g_pos g_buf g_cmd g_var g_index g_bsz setg_pos setg_buf setg_var setg_index].

(* the scrutinee on which the evaluation of t is stuck *)
Ltac tie_stuck t :=
  match t with
  | match ?x with _ => _ end => tie_stuck x
  | match ?x with _ => _ end => x
  | andb ?a _ => tie_stuck a
  | orb ?a _ => tie_stuck a
  | negb ?a => tie_stuck a
  | andb ?a _ => a
  | orb ?a _ => a
  | negb ?a => a
  | ?f ?a => tie_stuck a
  | ?f _ => tie_stuck f
  end.

Ltac tie_subst_if_var a := tryif is_var a then subst a else idtac.

Ltac tie_split x :=
  let E := fresh "E" in
  lazymatch x with
  | N.eqb ?a ?b => destruct (N.eqb_spec a b) as [E|E]; [tie_subst_if_var a|]
  | Z.eqb ?a ?b => destruct (Z.eqb_spec a b) as [E|E]; [tie_subst_if_var a|]
  | Z.ltb ?a ?b => destruct (Z.ltb_spec0 a b) as [E|E]
  | Z.leb ?a ?b => destruct (Z.leb_spec0 a b) as [E|E]
  | Nat.eqb ?a ?b => destruct (Nat.eqb_spec a b) as [E|E]
  | Nat.leb ?a ?b => destruct (Nat.leb_spec0 a b) as [E|E]
  | Nat.ltb ?a ?b => destruct (Nat.ltb_spec0 a b) as [E|E]
  | fsm_beq ?a _ => tryif is_var a then destruct a else (destruct x eqn:E)
  | ctype_beq ?a _ => tryif is_var a then destruct a else (destruct x eqn:E)
  | cstate_beq ?a _ => tryif is_var a then destruct a else (destruct x eqn:E)
  | ustate_beq ?a _ => tryif is_var a then destruct a else (destruct x eqn:E)
  | _ => destruct x eqn:E; try rewrite E in *
  end.

(* a leaf: both sides are setter chains.  Setters and projections are unfolded completely (both
   sides become constructor terms over the projections of s), so that a mismatch is found
   field by field instead of by a long failing conversion *)
Ltac tie_leaf :=
  cbv beta iota zeta delta
      [k u cbuf ubuf mem dis_cmd dis_grp fault gL gS gR
       set_k set_u set_cbuf set_ubuf set_mem set_dis_cmd set_dis_grp set_fault set_gL set_gS set_gR
       set_fault_flag
       k_index k_partial k_length k_position k_write_size k_cmd k_var k_type k_char k_state k_cr
       k_hold k_hold_exit k_wbuf k_wstate k_wafter k_implicit
       set_k_index set_k_partial set_k_length set_k_position set_k_write_size set_k_cmd set_k_var
       set_k_type set_k_char set_k_state set_k_cr set_k_hold set_k_hold_exit set_k_wbuf
       set_k_wstate set_k_wafter set_k_implicit
       setk_index setk_partial setk_length setk_position setk_write_size setk_cmd setk_var
       setk_type setk_char setk_state setk_cr setk_hold setk_hold_exit setk_wbuf setk_wstate
       setk_wafter setk_implicit
       u_state u_index u_position u_cmd u_var u_type u_wbuf u_wstate u_wafter u_ring u_tail
       u_head u_count
       set_u_state set_u_index set_u_position set_u_cmd set_u_var set_u_type set_u_wbuf
       set_u_wstate set_u_wafter set_u_ring set_u_tail set_u_head set_u_count
       setu_state setu_index setu_position setu_cmd setu_var setu_type setu_wbuf setu_wstate
       setu_wafter setu_ring setu_tail setu_head setu_count];
  reflexivity.

(* No backtracking: once a scrutinee is chosen, the split is committed (tryif), so a failing
   leaf fails the whole tactic at once. *)
Ltac tie_go n :=
  tie_norm;
  lazymatch goal with
  | |- ?L = ?R =>
    tryif (let x := tie_stuck L in idtac) then (let x := tie_stuck L in tie_next n x)
    else tryif (let x := tie_stuck R in idtac) then (let x := tie_stuck R in tie_next n x)
    else first [ tie_leaf | exfalso; cbn [Datatypes.length] in *; first [lia | congruence] ]
  end
with tie_next n x :=
  lazymatch n with
  | O => fail "tie_auto: out of fuel"
  | S ?n' => tie_split x; tie_go n'
  end.

Ltac tie_head t := lazymatch t with ?f _ => tie_head f | _ => t end.
Ltac tie_unfold_head t := let h := tie_head t in try unfold h.

(* rebound (::=) by the generated file when it contains auxiliary definitions g_aux_* *)
Ltac tie_unfold_gen := idtac.

Ltac tie_auto :=
  intros;
  lazymatch goal with |- ?L = ?R => tie_unfold_head L; tie_unfold_head R end;
  tie_unfold_gen;
  tie_unfold_light;
  tie_go 60.

(* ====================================================================================== *)
(* 3. Diagnosis of a failed tie: concrete states                                          *)
(* ====================================================================================== *)

Definition opt_eqb {A} (e : A -> A -> bool) (x y : option A) : bool :=
  match x, y with Some a, Some b => e a b | None, None => true | _, _ => false end.
Fixpoint list_eqb {A} (e : A -> A -> bool) (x y : list A) : bool :=
  match x, y with
  | [], [] => true
  | a :: x', b :: y' => e a b && list_eqb e x' y'
  | _, _ => false
  end.
Definition wbuf_eqb (x y : wbuf) : bool :=
  match x, y with WB_NL a, WB_NL b => Bool.eqb a b | WB_MAIN, WB_MAIN => true | _, _ => false end.
Definition ring_item_eqb (x y : nat * ctype) : bool :=
  (fst x =? fst y) && ctype_beq (snd x) (snd y).

(* names of the fields in which two states differ *)
Definition fld (same : bool) (name : string) : list string := if same then [] else [name].
Arguments fld _ _%string.
Definition diff_cfsm (x y : cfsm) : list string :=
  fld (k_index x =? k_index y) "k_index" ++
  fld (k_partial x =? k_partial y) "k_partial" ++
  fld (k_length x =? k_length y) "k_length" ++
  fld (k_position x =? k_position y) "k_position" ++
  fld (k_write_size x =? k_write_size y) "k_write_size" ++
  fld (opt_eqb Nat.eqb (k_cmd x) (k_cmd y)) "k_cmd" ++
  fld (k_var x =? k_var y) "k_var" ++
  fld (ctype_beq (k_type x) (k_type y)) "k_type" ++
  fld (N.eqb (k_char x) (k_char y)) "k_char" ++
  fld (cstate_beq (k_state x) (k_state y)) "k_state" ++
  fld (Bool.eqb (k_cr x) (k_cr y)) "k_cr" ++
  fld (Bool.eqb (k_hold x) (k_hold y)) "k_hold" ++
  fld (Z.eqb (k_hold_exit x) (k_hold_exit y)) "k_hold_exit" ++
  fld (wbuf_eqb (k_wbuf x) (k_wbuf y)) "k_wbuf" ++
  fld (wstate_beq (k_wstate x) (k_wstate y)) "k_wstate" ++
  fld (cstate_beq (k_wafter x) (k_wafter y)) "k_wafter" ++
  fld (Bool.eqb (k_implicit x) (k_implicit y)) "k_implicit".
Definition diff_ufsm (x y : ufsm) : list string :=
  fld (ustate_beq (u_state x) (u_state y)) "u_state" ++
  fld (u_index x =? u_index y) "u_index" ++
  fld (u_position x =? u_position y) "u_position" ++
  fld (opt_eqb Nat.eqb (u_cmd x) (u_cmd y)) "u_cmd" ++
  fld (u_var x =? u_var y) "u_var" ++
  fld (ctype_beq (u_type x) (u_type y)) "u_type" ++
  fld (wbuf_eqb (u_wbuf x) (u_wbuf y)) "u_wbuf" ++
  fld (wstate_beq (u_wstate x) (u_wstate y)) "u_wstate" ++
  fld (ustate_beq (u_wafter x) (u_wafter y)) "u_wafter" ++
  fld (list_eqb ring_item_eqb (u_ring x) (u_ring y)) "u_ring" ++
  fld (u_tail x =? u_tail y) "u_tail" ++
  fld (u_head x =? u_head y) "u_head" ++
  fld (u_count x =? u_count y) "u_count".
Definition diff_state (x y : state) : list string :=
  diff_cfsm (k x) (k y) ++ diff_ufsm (u x) (u y) ++
  fld (list_eqb N.eqb (cbuf x) (cbuf y)) "cbuf" ++
  fld (list_eqb N.eqb (ubuf x) (ubuf y)) "ubuf" ++
  fld (list_eqb (list_eqb N.eqb) (mem x) (mem y)) "mem" ++
  fld (list_eqb Bool.eqb (dis_cmd x) (dis_cmd y)) "dis_cmd" ++
  fld (list_eqb Bool.eqb (dis_grp x) (dis_grp y)) "dis_grp" ++
  fld (Bool.eqb (fault x) (fault y)) "fault" ++
  fld (gL x =? gL y) "gL" ++
  fld (gS x =? gS y) "gS" ++
  fld (gR x =? gR y) "gR".

Definition state_eqb (x y : state) : bool :=
  match diff_state x y with [] => true | _ => false end.
Definition state_Z_eqb (x y : state * Z) : bool :=
  state_eqb (fst x) (fst y) && Z.eqb (snd x) (snd y).
Definition state_bool_eqb (x y : state * bool) : bool :=
  state_eqb (fst x) (fst y) && Bool.eqb (snd x) (snd y).

(* what a diagnosis prints: the input, what the generated definition and the model give, and
   the names of the state fields in which the two results differ *)
Record witness (T R : Type) := mkWitness {
  w_input : T; w_generated : R; w_model : R; w_differ_in : list string }.
Arguments mkWitness {T R}.

Definition first_diff {T R} (eqb : R -> R -> bool) (fields : R -> R -> list string)
           (gen model : T -> R) (inputs : list T) : option (witness T R) :=
  match find (fun x => negb (eqb (gen x) (model x))) inputs with
  | Some x => Some (mkWitness x (gen x) (model x) (fields (gen x) (model x)))
  | None => None
  end.
Definition diff_fst {B} (x y : state * B) : list string :=
  diff_state (fst x) (fst y) ++
  (if state_eqb (fst x) (fst y) then ["returned value"%string] else []).

(* ---- test descriptors: index 0 has three registered commands in two groups and one extra
        (event-only) command; index 1 has no command at all ---- *)
Definition tvar (a : vaccess) : var := mkVar None VInt 1 a false false 0.
(* "A": all four handlers, no variables *)
Definition tcmd0 : cmd := mkCmd [65%N] None true true true true [] false false false.
(* "AB": only_test, description, a read-only and a write-only variable, no handlers *)
Definition tcmd1 : cmd :=
  mkCmd [65%N; 66%N] (Some [100%N]) false false false false [tvar RO; tvar WO] false true false.
(* "+X": implicit write, write handler, one read-write variable *)
Definition tcmd2 : cmd := mkCmd [43%N; 88%N] None true false false false [tvar RW] true false true.
(* "E": no handlers, no variables *)
Definition tcmd3 : cmd := mkCmd [69%N] None false false false false [] false false false.
Definition tdesc0 : desc := mkDesc [[tcmd0; tcmd1]; [tcmd2]] [tcmd3] 8 None 0%N 2 false.
Definition tdesc1 : desc := mkDesc [] [] 4 (Some 4) 0%N 1 false.
Definition tD (i : nat) : desc := match i with O => tdesc0 | _ => tdesc1 end.

(* ---- secondary patterns: five settings of the fields that rarely interact ---- *)
Definition base_state : state :=
  mkState init_cfsm (init_ufsm tdesc0) [] [0%N; 0%N; 0%N; 0%N] [[0%N]]
          [false; false; false] [false; false] false 0 0 0.
Definition pattern (i : nat) (s : state) : state :=
  match i with
  | 0 => s
  | 1 => s |> setk_state CS_FLUSH |> setu_state US_FLUSH |> setk_cr true |> setk_hold true
           |> setk_hold_exit (-1)%Z |> setk_implicit true |> setk_position 1
           |> setk_wstate WS_MAIN |> setk_wafter CS_AFTER_RESET |> setk_wbuf WB_MAIN
           |> setu_cmd (Some 1) |> setu_type T_READ |> setu_index 1 |> setu_position 2
           |> set_dis_cmd [false; true; false] |> setu_count 1
  | 2 => s |> setk_state CS_HOLD |> setu_state US_READ_LOOP |> setk_hold true
           |> setk_hold_exit 1%Z |> setk_write_size 3 |> setk_var 1 |> setk_wstate WS_AFTER
           |> setu_wstate WS_MAIN |> setu_wafter US_AFTER_OK |> set_dis_grp [false; true]
           |> setu_count 2
  | 3 => s |> setu_state US_FLUSH |> setk_hold_exit 1%Z |> setk_cr true |> setu_var 1
  | _ => s |> setk_state CS_FLUSH |> setk_hold_exit (-1)%Z |> setk_implicit true
           |> set_gS 2 |> set_gL 1
  end.

Definition vary {A} (vals : list A) (set : A -> state -> state) (l : list state) : list state :=
  flat_map (fun s => map (fun v => set v s) vals) l.

(* big family = (a) every combination of the fields the name matching and the argument
   collection branch on, times three patterns, and (b) every combination of the other fields *)
Definition states_primary : list state :=
  [base_state]
  |> vary [0; 1; 2] pattern
  |> vary [None; Some 0; Some 1; Some 2] setk_cmd
  |> vary [0; 1; 2] setk_index
  |> vary [0; 1; 2] setk_partial
  |> vary [0; 1; 2] setk_length
  |> vary [T_NONE; T_RUN; T_READ; T_WRITE; T_TEST; T_TOTAL] setk_type
  |> vary [10%N; 13%N; 65%N; 63%N] setk_char
  |> vary [[]; [85%N; 85%N; 85%N; 85%N]; [6%N; 0%N]; [37%N; 7%N; 1%N]; [16%N]] set_cbuf.
Definition states_secondary : list state :=
  [base_state; pattern 3 base_state; pattern 4 base_state]
  |> vary [CS_IDLE; CS_FLUSH; CS_HOLD] setk_state
  |> vary [US_IDLE; US_FLUSH; US_READ_LOOP] setu_state
  |> vary [false; true] setk_cr
  |> vary [false; true] setk_hold
  |> vary [(-1)%Z; 0%Z; 1%Z] setk_hold_exit
  |> vary [false; true] setk_implicit
  |> vary [0; 2] setk_position
  |> vary [0; 1] setu_position
  |> vary [None; Some 0] setk_cmd
  |> vary [T_NONE; T_READ] setk_type
  |> vary [0; 2] setk_index
  |> vary [[]; [85%N; 85%N]] set_cbuf.
Definition states_big : list state := states_primary ++ states_secondary.

(* small family, for the bodies of the reading states (combined with all 256 bytes) *)
Definition states_small : list state :=
  [base_state]
  |> vary [0; 1; 2; 3; 4] pattern
  |> vary [None; Some 0; Some 1; Some 2] setk_cmd
  |> vary [0; 1; 2] setk_length
  |> vary [[]; [7%N]; [1%N; 2%N; 3%N]] set_cbuf.

Definition bytes : list N := map N.of_nat (seq 0 256).
Definition all_cstates : list cstate :=
  [CS_ERROR; CS_IDLE; CS_PARSE_PREFIX; CS_PARSE_COMMAND_CHAR; CS_UPDATE_COMMAND_STATE;
   CS_WAIT_READ_ACK; CS_SEARCH_COMMAND; CS_COMMAND_FOUND; CS_COMMAND_NOT_FOUND;
   CS_PARSE_COMMAND_ARGS; CS_PARSE_WRITE_ARGS; CS_FORMAT_READ_ARGS; CS_WAIT_TEST_ACK;
   CS_FORMAT_TEST_ARGS; CS_WRITE_LOOP; CS_READ_LOOP; CS_TEST_LOOP; CS_RUN_LOOP; CS_HOLD;
   CS_FLUSH_WAIT; CS_FLUSH; CS_AFTER_RESET; CS_AFTER_OK; CS_AFTER_FMT_READ; CS_AFTER_FMT_TEST;
   CS_PRINT_CMD].
Definition all_ustates : list ustate :=
  [US_IDLE; US_FORMAT_READ_ARGS; US_FORMAT_TEST_ARGS; US_READ_LOOP; US_TEST_LOOP; US_FLUSH_WAIT;
   US_FLUSH; US_AFTER_RESET; US_AFTER_OK; US_AFTER_FMT_READ; US_AFTER_FMT_TEST].

(* inputs = (descriptor index, state), optionally with one more argument in front *)
Definition fam_ds : list (nat * state) := list_prod [0; 1] states_big.
Definition fam_ds_small : list (nat * state) := list_prod [0; 1] states_small.
Definition fam_cds : list (N * (nat * state)) := list_prod bytes fam_ds_small.
Definition with_arg {A} (vals : list A) : list (A * (nat * state)) := list_prod vals fam_ds_small.
