(* Bytes.v — bytes as N, character classes of cat.c, models of snprintf's
   %d %u %0NX renderings.  Pure definitions only (no proofs). *)
From Coq Require Import List NArith ZArith Bool Arith.
Import ListNotations.
Local Open Scope N_scope.

Definition byte := N.

(* ASCII constants used by cat.c *)
Definition ch_NUL : N := 0.
Definition ch_LF : N := 10.
Definition ch_CR : N := 13.
Definition ch_QUOTE : N := 34.   (* double quote *)
Definition ch_COMMA : N := 44.
Definition ch_PLUS : N := 43.
Definition ch_MINUS : N := 45.
Definition ch_0 : N := 48.
Definition ch_COLON : N := 58.
Definition ch_LT : N := 60.
Definition ch_EQ : N := 61.
Definition ch_GT : N := 62.
Definition ch_QM : N := 63.      (* '?' *)
Definition ch_A : N := 65.
Definition ch_T : N := 84.
Definition ch_X : N := 88.
Definition ch_LBR : N := 91.     (* '[' *)
Definition ch_BSL : N := 92.     (* backslash *)
Definition ch_RBR : N := 93.     (* ']' *)
Definition ch_n : N := 110.      (* 'n' *)

(* cat.c:59 to_upper *)
Definition to_upper (c : N) : N :=
  if (97 <=? c) && (c <=? 122) then c - 32 else c.

(* cat.c:569 is_valid_cmd_name_char (applied to an upper-cased char) *)
Definition is_name_char (c : N) : bool :=
  ((65 <=? c) && (c <=? 90)) || ((48 <=? c) && (c <=? 57)) ||
  (c =? 43) || (c =? 35) || (c =? 36) || (c =? 64) || (c =? 95) || (c =? 37) || (c =? 38).

(* cat.c:574 *)
Definition is_dec (c : N) : bool := (48 <=? c) && (c <=? 57).

(* cat.c:579 (upper-case hex only; callers upper-case first) *)
Definition is_hex (c : N) : bool :=
  ((48 <=? c) && (c <=? 57)) || ((65 <=? c) && (c <=? 70)).

(* cat.c:584 *)
Definition hexval (c : N) : N :=
  if (48 <=? c) && (c <=? 57) then c - 48 else c - 65 + 10.

(* ---- rendering of numbers (model of snprintf) ---- *)

Definition dec_digit (d : N) : N := 48 + d.
Definition hex_digit (d : N) : N := if d <? 10 then 48 + d else 55 + d.  (* 'A' = 65 = 55+10 *)

(* most significant digit first; fuel = number of further digits allowed *)
Fixpoint print_dec_aux (fuel : nat) (n : N) (acc : list N) : list N :=
  if n <? 10 then dec_digit n :: acc
  else match fuel with
       | O => dec_digit (n mod 10) :: acc
       | S f => print_dec_aux f (n / 10) (dec_digit (n mod 10) :: acc)
       end.

(* "%u" (and "%llu"): standard decimal notation of n *)
Definition print_dec (n : N) : list N := print_dec_aux (N.to_nat (N.log2 n)) n [].

(* "%d" *)
Definition print_dec_z (z : Z) : list N :=
  match z with
  | Zneg p => ch_MINUS :: print_dec (Npos p)
  | _ => print_dec (Z.to_N z)
  end.

(* exactly w hex digits of n (n < 16^w in all uses): "%0wX" *)
Fixpoint print_hex_w (w : nat) (n : N) (acc : list N) : list N :=
  match w with
  | O => acc
  | S w' => print_hex_w w' (n / 16) (hex_digit (n mod 16) :: acc)
  end.

(* "%0wX" for arbitrary n: at least w digits, more if needed (snprintf semantics) *)
Fixpoint print_hex_min (fuel : nat) (n : N) (acc : list N) : list N :=
  if n <? 16 then hex_digit n :: acc
  else match fuel with
       | O => hex_digit (n mod 16) :: acc
       | S f => print_hex_min f (n / 16) (hex_digit (n mod 16) :: acc)
       end.

Definition print_hex_pad (w : nat) (n : N) : list N :=
  let d := print_hex_min (N.to_nat (N.log2 n)) n [] in
  repeat ch_0 (w - length d) ++ d.

(* ---- little-endian storage of integers ---- *)

Fixpoint le_bytes (k : nat) (n : N) : list N :=
  match k with
  | O => []
  | S k' => (n mod 256) :: le_bytes k' (n / 256)
  end.

Fixpoint le_value (l : list N) : N :=
  match l with
  | [] => 0
  | b :: r => b + 256 * le_value r
  end.

Definition two_pow8 (k : nat) : N := 2 ^ (8 * N.of_nat k).

(* two's complement reading of k little-endian bytes *)
Definition le_value_signed (k : nat) (l : list N) : Z :=
  let u := le_value (firstn k l) in
  if u <? two_pow8 k / 2 then Z.of_N u else (Z.of_N u - Z.of_N (two_pow8 k))%Z.

Definition le_bytes_signed (k : nat) (z : Z) : list N :=
  le_bytes k (Z.to_N (z mod Z.of_N (two_pow8 k))%Z).

Definition max_u64 : N := 18446744073709551615.
Definition two64 : N := 18446744073709551616.
Definition max_i64 : Z := 9223372036854775807%Z.
