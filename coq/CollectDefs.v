(* CollectDefs.v — definitions used to state C06: the argument-collecting state
   CS_PARSE_COMMAND_ARGS as an iteration over the received bytes.  No proofs. *)
From Coq Require Import List NArith ZArith Bool Arith.
From CatV Require Import Bytes Defs Codec Spec Fsm ResolveDefs.
Import ListNotations.
Local Open Scope nat_scope.

Section Collect.
Variable D : desc.

(* what parse_command_args does with one received byte (the function given to `reading` in
   Fsm.parse_command_args; Lemmas_C06 proves that it is literally that function) *)
Definition pca_body (ch : N) (s : state) : state :=
  match cmd_of D ATCMD s with
  | None => set_fault_flag s
  | Some c =>
    if (ch =? ch_LF)%N then
      if c_only_test c then ack_error s
      else if vars_access_possible c WO then
        s |> setk_state CS_PARSE_WRITE_ARGS |> setk_position 0 |> setk_index 0 |> setk_var 0
      else if negb (c_hwrite c) then ack_error s
      else s |> setk_index 0 |> setk_state CS_WRITE_LOOP
    else if (ch =? ch_CR)%N then setk_cr true s
    else if (k_length (k s) =? 0) && (ch =? ch_QM)%N
            && (c_htest c || match c_vars c with [] => false | _ => true end)
            && negb (c_implicit c)
    then s |> setk_type T_TEST |> setk_state CS_WAIT_TEST_ACK
    else
      let len := k_length (k s) in
      if asz s <=? len then setk_state CS_ERROR s
      else
        let s1 := s |> set_cbuf (upd (cbuf s) len ch) |> setk_length (S len) in
        if S len <? asz s1 then set_cbuf (upd (cbuf s1) (S len) 0%N) s1
        else setk_state CS_ERROR s1
  end.

(* one received byte in whatever state: only CS_PARSE_COMMAND_ARGS is of interest here; the byte is
   recorded in k_char first, as read_cmd_char does (no upper-casing in this state) *)
Definition args_byte (s : state) (ch : N) : state :=
  if cstate_beq (k_state (k s)) CS_PARSE_COMMAND_ARGS then pca_body ch (setk_char ch s) else s.
Definition args_feed (s : state) (bs : list N) : state := fold_left args_byte bs s.

(* the '=?' shortcut applies to this command *)
Definition test_shortcut (c : cmd) : bool :=
  (c_htest c || match c_vars c with [] => false | _ => true end) && negb (c_implicit c).

Definition no_cr (bs : list N) : list N := filter (fun c => negb (c =? ch_CR)%N) bs.
End Collect.
