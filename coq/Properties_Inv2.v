(* Properties_Inv2.v — second batch of history theorems under hypotheses on the environment oracles
   that hold on an INVARIANT of the oracle states only, and their instances for the scripted worlds
   of Script.v.  Continuation of Properties_Inv.v (same technique, Lemmas_Inv2.v: the run driven by
   h_call equals the run driven by a sanitised oracle on the invariant; the existing theorem is
   applied to the sanitised oracle; nothing is proved again).

   Lifted here, each in an `_inv` form (generic oracle, invariant of its state) and a `_scripted`
   form (srun D (sinit D m x mx h) (map SOp ops), decidable conditions on the scripts):

     Properties_C11s  C11_stream_any, C11_stream, C11_stream_per_producer      invariant: no event-side HOLD
     Properties_C18s  C18_busy_stream_complete                                 invariant: no event-side HOLD
     Properties_C13o  C13_in_progress, C13_queue_valid, C13_observers_exact,
                      C13_ok_means_all_processed                               invariant: valid inner calls
     Properties_C03c  C03_lengths_reachable (and C03_no_fault)                 invariant: valid inner calls
     Properties_C02c  C02_loop_type, C02_calls_history, C02_selection_origin,
                      C02_calls_selected                                       invariant: Good
     Properties_C01s  C01_gL_counts_lines, C01_idle_iff_blank,
                      C01_read_only_when_settled_trace, C01_no_read_ahead      invariant: Good
                      C01_gL_counts_lines_nofault, C01_read_implies_reading_state   no event-side HOLD
     Properties_C09c  C09_calls_enabled_history, C09_calls_accepted: no oracle hypothesis, scripted
                      instances only;  C11_wait_is_fresh, C11_started_whole: the same.

   The conclusions of the C11s / C18s theorems mention the oracle (through `starts`, the flush
   sessions opened along the history, computed by stepping the model): the sanitised oracle opens
   the same sessions (Lemmas_Inv2.starts_sanH), so they lift like the others.
   C13o and C03c need `handlers_valid` only; they are lifted to an invariant that says nothing about
   HOLD (third sanitised oracle h_sanV): for scripted worlds the scripts may hold anywhere.

   Scenario forms (API calls, SFeed, SPoke in any order) are given in section 7 for the theorems
   that have a one-step form; see there.

   Definitions used (Lemmas_Inv.v / Lemmas_Inv2.v; restated below as Examples):
     Good, no_rt_hold, res_calls_valid, unlock_never_fails, valid_sop       see Properties_Inv.v
     sc_starts D / sc_started D     Lemmas_C11s.starts / started for the scripted oracles
     sc_flags_between_lines D       Properties_C09c.flags_between_lines for the scripted oracles
     valid_opb, valid_sopb, wf_descb   the domain hypotheses, decided *)
From Coq Require Import List NArith ZArith Bool Arith Lia.
From CatV Require Import Bytes Defs Codec Spec Fsm Script Skel SkelInv SkelSim EvSkelSim TraceDefs ResolveDefs SchedDefs TermDefs.
From CatV Require Import Lemmas_Ctl Lemmas_C03 Lemmas_C13 Lemmas_C11 Lemmas_C11s Lemmas_C01s Lemmas_Inv Lemmas_Inv2.
From CatV Require Properties_C13o Properties_C02c Properties_C09c.
Import ListNotations.
Local Open Scope nat_scope.

(* ------------------------------------------------------------------ *)
(* the definitions, for the reader                                      *)
(* ------------------------------------------------------------------ *)
Example sc_starts_def : forall D (w : sworld) o ops,
  sc_starts D w [] = [] /\
  sc_starts D w (o :: ops) =
    new_starts (st _ _ _ w) (st _ _ _ (sstep D w (SOp o))) ++ sc_starts D (sstep D w (SOp o)) ops.
Proof. split; reflexivity. Qed.
Example sc_started_def : forall D (w : sworld) ops, sc_started D w ops = map unit_of (sc_starts D w ops).
Proof. reflexivity. Qed.
Example sc_flags_between_lines_def : forall D (w : sworld) o ops,
  sc_flags_between_lines D w [] = True /\
  sc_flags_between_lines D w (o :: ops) =
    ((Properties_C09c.flag_op o = true -> k_state (k (st _ _ _ w)) = CS_IDLE) /\
     sc_flags_between_lines D (sstep D w (SOp o)) ops).
Proof. split; reflexivity. Qed.
Example valid_opb_def : forall D o,
  valid_opb D o = match o with
                  | OTrigger ci t => (ci <? length (pool D)) && (ctype_beq t T_READ || ctype_beq t T_TEST)
                  | _ => true
                  end.
Proof. reflexivity. Qed.
Example valid_sopb_def : forall D o,
  valid_sopb D o = match o with SOp o => valid_opb D o | SReinit => false | _ => true end.
Proof. reflexivity. Qed.
Example wf_descb_def : forall D m,
  wf_descb D m =
  (0 <? d_cap D) && (0 <? ncmds D) && (ncmds D <=? 4 * asz_of D) && (6 <=? asz_of D) &&
  forallb (fun c => forallb (fun v => match nth_error m (v_slot v) with
                                      | Some data => v_size v <=? length data
                                      | None => false
                                      end) (c_vars c)) (pool D) &&
  forallb (fun c => forallb (fun v => match v_type v with VBufHex => 0 <? v_size v | _ => true end)
                            (tl (c_vars c))) (pool D).
Proof. reflexivity. Qed.

(* the domain hypotheses can be discharged by computation *)
Theorem valid_ops_sound : forall D ops, forallb (valid_opb D) ops = true -> Forall (valid_op D) ops.
Proof. exact Lemmas_Inv2.valid_ops_sound. Qed.
Theorem valid_sops_sound : forall D sops, forallb (valid_sopb D) sops = true -> Forall (valid_sop D) sops.
Proof. exact Lemmas_Inv2.valid_sops_sound. Qed.
Theorem wf_descb_sound : forall D m, wf_descb D m = true -> wf_desc D m.
Proof. exact Lemmas_Inv2.wf_descb_sound. Qed.
Theorem no_flag_ops_between : forall D ops (w : sworld),
  forallb (fun o => negb (Properties_C09c.flag_op o)) ops = true -> sc_flags_between_lines D w ops.
Proof. exact Lemmas_Inv2.no_flag_ops_between. Qed.
Print Assumptions valid_ops_sound.
Print Assumptions valid_sops_sound.
Print Assumptions wf_descb_sound.
Print Assumptions no_flag_ops_between.

(* ================================================================== *)
(* 1. theorems that need `no event-side HOLD` only                      *)
(* ================================================================== *)
Section InvH2.
Variable D : desc.
Variables ioS muS hS : Type.
Variable io_read : ioS -> ioS * option N.
Variable io_write : ioS -> N -> ioS * bool.
Variable mu_lock : muS -> muS * bool.
Variable mu_unlock : muS -> muS * bool.
Variable h_call : hS -> hreq -> hS * hres.
Variable HI : hS -> Prop.
Hypothesis HI_stepH : forall h q, HI h ->
  HI (fst (h_call h q)) /\ (unsol_req q = true -> r_code (snd (h_call h q)) <> RC_HOLD).

Notation world := (Fsm.world ioS muS hS).
Notation st := (Fsm.st ioS muS hS).
Notation hs := (Fsm.hs ioS muS hS).
Notation tr := (Fsm.tr ioS muS hS).
Notation hist := (TraceDefs.hist ioS muS hS).
Notation run := (Fsm.run D ioS muS hS io_read io_write mu_lock mu_unlock h_call).
Notation step := (Fsm.step D ioS muS hS io_read io_write mu_lock mu_unlock h_call).
Notation init m x mx h := (mkWorld ioS muS hS (init_state D m) x mx h []).
Notation reach m x mx h ops := (run (init m x mx h) ops).
Notation starts := (Lemmas_C11s.starts D ioS muS hS io_read io_write mu_lock mu_unlock h_call).
Notation started := (Lemmas_C11s.started D ioS muS hS io_read io_write mu_lock mu_unlock h_call).
Notation L T := (T D ioS muS hS io_read io_write mu_lock mu_unlock h_call HI HI_stepH).

(* the sanitised oracle opens the same flush sessions as h_call *)
Theorem Inv_starts_sanH : forall ops (w : world), HI (hs w) ->
  Lemmas_C11s.starts D ioS muS hS io_read io_write mu_lock mu_unlock (h_sanH hS h_call) w ops = starts w ops.
Proof. exact (L Lemmas_Inv2.starts_sanH). Qed.

Theorem C11_stream_any_inv : forall m x mx h ops, HI h ->
  let w := reach m x mx h ops in
  stream_inv (st w) (accepted_wr (hist w)) (started (init m x mx h) ops).
Proof. exact (L Lemmas_Inv2.C11_stream_any_inv). Qed.

Theorem C11_stream_inv : forall m x mx h ops, HI h ->
  let w := reach m x mx h ops in
  k_state (k (st w)) <> CS_FLUSH -> u_state (u (st w)) <> US_FLUSH ->
  exists crs, length crs = length (started (init m x mx h) ops) /\
    accepted_wr (hist w) = stream (started (init m x mx h) ops) crs.
Proof. exact (L Lemmas_Inv2.C11_stream_inv). Qed.

Theorem C11_stream_per_producer_inv : forall m x mx h ops, HI h ->
  let w := reach m x mx h ops in
  k_state (k (st w)) <> CS_FLUSH -> u_state (u (st w)) <> US_FLUSH ->
  proj ATCMD (accepted_wr (hist w)) = concat (map snd (units_of ATCMD (started (init m x mx h) ops))) /\
  exists ucrs, length ucrs = length (units_of UNSOL (started (init m x mx h) ops)) /\
    proj UNSOL (accepted_wr (hist w)) =
      concat (map (fun p => snd (fst p) ++ nl_text (snd p))
                  (combine (units_of UNSOL (started (init m x mx h) ops)) ucrs)).
Proof. exact (L Lemmas_Inv2.C11_stream_per_producer_inv). Qed.

Theorem C18_busy_stream_complete_inv : forall m x mx h ops, HI h ->
  let w := reach m x mx h ops in
  is_busy (st w) = ST_OK ->
  Forall whole_unit (starts (init m x mx h) ops) /\
  exists crs, length crs = length (started (init m x mx h) ops) /\
    accepted_wr (hist w) = stream (started (init m x mx h) ops) crs.
Proof. exact (L Lemmas_Inv2.C18_busy_stream_complete_inv). Qed.

Theorem C01_gL_counts_lines_nofault_inv : forall m x mx h ops, HI h ->
  let w := reach m x mx h ops in
  fault (st w) = false -> gL (st w) = nonblank_lines false (consumed (tr w)).
Proof. exact (L Lemmas_Inv2.C01_gL_counts_lines_nofault_inv). Qed.

Theorem C01_read_implies_reading_state_inv : forall (w : world) o evs r, HI (hs w) ->
  tr (step w o) = evs ++ tr w -> In (ERd r) evs ->
  o = OService /\ reading_state (k_state (k (st w))) = true.
Proof. exact (L Lemmas_Inv2.C01_read_implies_reading_state_inv). Qed.
End InvH2.

Print Assumptions Inv_starts_sanH.
Print Assumptions C11_stream_any_inv.
Print Assumptions C11_stream_inv.
Print Assumptions C11_stream_per_producer_inv.
Print Assumptions C18_busy_stream_complete_inv.
Print Assumptions C01_gL_counts_lines_nofault_inv.
Print Assumptions C01_read_implies_reading_state_inv.

(* ================================================================== *)
(* 2. theorems that need `handlers only trigger valid events` only      *)
(* ================================================================== *)
Section InvV.
Variable D : desc.
Variables ioS muS hS : Type.
Variable io_read : ioS -> ioS * option N.
Variable io_write : ioS -> N -> ioS * bool.
Variable mu_lock : muS -> muS * bool.
Variable mu_unlock : muS -> muS * bool.
Variable h_call : hS -> hreq -> hS * hres.
Variable HV : hS -> Prop.
Hypothesis HV_step : forall h q, HV h ->
  HV (fst (h_call h q)) /\ Forall (valid_icall D) (r_calls (snd (h_call h q))).

Notation world := (Fsm.world ioS muS hS).
Notation st := (Fsm.st ioS muS hS).
Notation hs := (Fsm.hs ioS muS hS).
Notation hist := (TraceDefs.hist ioS muS hS).
Notation run := (Fsm.run D ioS muS hS io_read io_write mu_lock mu_unlock h_call).
Notation step := (Fsm.step D ioS muS hS io_read io_write mu_lock mu_unlock h_call).
Notation do_op := (Fsm.do_op D ioS muS hS io_read io_write mu_lock mu_unlock h_call).
Notation reach m x mx h ops := (run (mkWorld ioS muS hS (init_state D m) x mx h []) ops).
(* in_progress w = if the event machine is idle then [] else [the last popped event] *)
Notation in_progress := (Properties_C13o.in_progress ioS muS hS).
Notation L T := (T D ioS muS hS io_read io_write mu_lock mu_unlock h_call HV HV_step).

(* the run is the run of the oracle whose invalid inner calls are dropped; the invariant holds at its end *)
Theorem Inv_run_sanV : forall (w : world) ops, HV (hs w) ->
  Fsm.run D ioS muS hS io_read io_write mu_lock mu_unlock (h_sanV D hS h_call) w ops = run w ops /\
  HV (hs (run w ops)).
Proof. exact (L Lemmas_Inv2.run_sanV). Qed.

Theorem C13_in_progress_inv : forall m x mx h ops, HV h ->
  0 < d_cap D -> Forall (valid_op D) ops ->
  let w := reach m x mx h ops in
  (u_state (u (st w)) = US_IDLE -> u_cmd (u (st w)) = None) /\
  (u_state (u (st w)) <> US_IDLE ->
     exists p ci t, popped (hist w) = p ++ [(ci, t)] /\ u_cmd (u (st w)) = Some ci /\ u_type (u (st w)) = t).
Proof. exact (L Lemmas_Inv2.C13_in_progress_inv). Qed.

Theorem C13_queue_valid_inv : forall m x mx h ops, HV h ->
  0 < d_cap D -> Forall (valid_op D) ops ->
  let w := reach m x mx h ops in
  Forall (fun it => valid_trigger D (fst it) (snd it)) (ring_items D (st w)).
Proof. exact (L Lemmas_Inv2.C13_queue_valid_inv). Qed.

Theorem C13_observers_exact_inv : forall m x mx h ops, HV h ->
  0 < d_cap D -> Forall (valid_op D) ops ->
  let w := reach m x mx h ops in
  (forall ci t, is_event_buffered D (st w) ci t = ST_BUSY <->
     exists it, In it (in_progress w ++ ring_items D (st w)) /\ ev_match ci t it = true) /\
  get_processed (st w) UNSOL = match in_progress w with [] => (-1)%Z | it :: _ => Z.of_nat (fst it) end.
Proof. exact (L Lemmas_Inv2.C13_observers_exact_inv). Qed.

Theorem C13_ok_means_all_processed_inv : forall m x mx h ops, HV h ->
  0 < d_cap D -> Forall (valid_op D) ops ->
  let w := reach m x mx h ops in
  snd (do_op w OService) = ST_OK ->
  pushed (d_cap D) (hist w) = popped (hist w) /\
  ((d_mutex D = false \/ (forall m, snd (mu_unlock m) = true)) -> accepted (hist w) = popped (hist w)) /\
  ring_items D (st w) = [] /\
  u_state (u (st w)) = US_IDLE /\ u_cmd (u (st w)) = None /\ in_progress w = [] /\
  (forall ci t, is_event_buffered D (st w) ci t = ST_OK) /\
  get_processed (st w) UNSOL = (-1)%Z /\
  st (step w OService) = st w.
Proof. exact (L Lemmas_Inv2.C13_ok_means_all_processed_inv). Qed.

Theorem C03_lengths_reachable_inv : forall m x mx h ops, HV h ->
  wf_desc D m -> Forall (valid_op D) ops ->
  let s := st (reach m x mx h ops) in
  length (cbuf s) = asz_of D /\ length (ubuf s) = usz_of D /\ length (u_ring (u s)) = d_cap D /\
  map (@length N) (mem s) = map (@length N) m.
Proof. exact (L Lemmas_Inv2.C03_lengths_reachable_inv). Qed.

(* C03_no_fault needs handlers_valid only as well: sharper than Properties_Inv.C03_no_fault_inv *)
Theorem C03_no_fault_invV : forall m x mx h ops, HV h ->
  wf_desc D m -> Forall (valid_op D) ops ->
  fault (st (reach m x mx h ops)) = false.
Proof. exact (L Lemmas_Inv2.C03_no_fault_invV). Qed.
End InvV.

Print Assumptions Inv_run_sanV.
Print Assumptions C13_in_progress_inv.
Print Assumptions C13_queue_valid_inv.
Print Assumptions C13_observers_exact_inv.
Print Assumptions C13_ok_means_all_processed_inv.
Print Assumptions C03_lengths_reachable_inv.
Print Assumptions C03_no_fault_invV.

(* ================================================================== *)
(* 3. theorems of the supported domain: every answer Good               *)
(* ================================================================== *)
Section InvD2.
Variable D : desc.
Variables ioS muS hS : Type.
Variable io_read : ioS -> ioS * option N.
Variable io_write : ioS -> N -> ioS * bool.
Variable mu_lock : muS -> muS * bool.
Variable mu_unlock : muS -> muS * bool.
Variable h_call : hS -> hreq -> hS * hres.
Variable HI : hS -> Prop.
Hypothesis HI_step : forall h q, HI h -> HI (fst (h_call h q)) /\ Good D q (snd (h_call h q)).

Notation world := (Fsm.world ioS muS hS).
Notation st := (Fsm.st ioS muS hS).
Notation tr := (Fsm.tr ioS muS hS).
Notation run := (Fsm.run D ioS muS hS io_read io_write mu_lock mu_unlock h_call).
Notation step := (Fsm.step D ioS muS hS io_read io_write mu_lock mu_unlock h_call).
Notation init m x mx h := (mkWorld ioS muS hS (init_state D m) x mx h []).
Notation reach m x mx h ops := (run (init m x mx h) ops).
Notation L T := (T D ioS muS hS io_read io_write mu_lock mu_unlock h_call HI HI_step).

(* ---- C02c: loop_type, call_state, kind_type, needs_cmd, ev_side are those of Properties_C02c.v ---- *)
Theorem C02_loop_type_inv : forall m x mx h ops, HI h ->
  wf_desc D m -> Forall (valid_op D) ops ->
  Properties_C02c.loop_type (st (reach m x mx h ops)).
Proof. exact (L Lemmas_Inv2.C02_loop_type_inv). Qed.

Theorem C02_calls_history_inv : forall m x mx h ops q code, HI h ->
  wf_desc D m -> Forall (valid_op D) ops ->
  let w0 := init m x mx h in
  In (ECall q code) (tr (run w0 ops)) -> Properties_C02c.ev_side q = false ->
  exists ops1 ops2 evs, ops = ops1 ++ OService :: ops2 /\
    tr (run w0 (ops1 ++ [OService])) = evs ++ tr (run w0 ops1) /\ In (ECall q code) evs /\
    let s := st (run w0 ops1) in
    k_cmd (k s) = Some (req_cmd q) /\ k_state (k s) = Properties_C02c.call_state q /\
    k_type (k s) = Properties_C02c.kind_type q.
Proof. exact (L Lemmas_Inv2.C02_calls_history_inv). Qed.

Theorem C02_selection_origin_inv : forall m x mx h ops, HI h ->
  wf_desc D m -> Forall (valid_op D) ops ->
  let w0 := init m x mx h in
  Properties_C02c.needs_cmd (st (run w0 ops)) = true ->
  exists ops1 ops2, ops = ops1 ++ ops2 /\
    k_state (k (st (run w0 ops1))) = CS_COMMAND_FOUND /\
    k_cmd (k (st (run w0 ops1))) = k_cmd (k (st (run w0 ops))) /\
    forall n, n <= length ops2 -> Properties_C02c.needs_cmd (st (run w0 (ops1 ++ firstn n ops2))) = true.
Proof. exact (L Lemmas_Inv2.C02_selection_origin_inv). Qed.

Theorem C02_calls_selected_inv : forall m x mx h ops q code, HI h ->
  wf_desc D m -> Forall (valid_op D) ops ->
  let w0 := init m x mx h in
  In (ECall q code) (tr (run w0 ops)) -> Properties_C02c.ev_side q = false ->
  exists ops0 opsm ops2, ops = ops0 ++ opsm ++ OService :: ops2 /\
    k_state (k (st (run w0 ops0))) = CS_COMMAND_FOUND /\
    k_cmd (k (st (run w0 ops0))) = Some (req_cmd q) /\
    (forall n, n <= length opsm -> Properties_C02c.needs_cmd (st (run w0 (ops0 ++ firstn n opsm))) = true) /\
    let s := st (run w0 (ops0 ++ opsm)) in
    k_cmd (k s) = Some (req_cmd q) /\ k_state (k s) = Properties_C02c.call_state q /\
    k_type (k s) = Properties_C02c.kind_type q.
Proof. exact (L Lemmas_Inv2.C02_calls_selected_inv). Qed.

(* ---- C01s ---- *)
Theorem C01_gL_counts_lines_inv : forall m x mx h ops, HI h ->
  wf_desc D m -> Forall (valid_op D) ops ->
  let w := reach m x mx h ops in
  gL (st w) = nonblank_lines false (consumed (tr w)).
Proof. exact (L Lemmas_Inv2.C01_gL_counts_lines_inv). Qed.

Theorem C01_idle_iff_blank_inv : forall m x mx h ops, HI h ->
  wf_desc D m -> Forall (valid_op D) ops ->
  let w := reach m x mx h ops in
  reading_state (k_state (k (st w))) = true ->
  (k_state (k (st w)) = CS_IDLE <-> seen_after false (consumed (tr w)) = false).
Proof. exact (L Lemmas_Inv2.C01_idle_iff_blank_inv). Qed.

Theorem C01_read_only_when_settled_trace_inv : forall m x mx h ops o evs r, HI h ->
  wf_desc D m -> Forall (valid_op D) ops ->
  let w := reach m x mx h ops in
  tr (step w o) = evs ++ tr w -> In (ERd r) evs ->
  gL (st w) = gR (st w) /\ gS (st w) = gR (st w).
Proof. exact (L Lemmas_Inv2.C01_read_only_when_settled_trace_inv). Qed.

Theorem C01_no_read_ahead_inv : forall m x mx h ops o evs r, HI h ->
  wf_desc D m -> Forall (valid_op D) ops ->
  let w := reach m x mx h ops in
  tr (step w o) = evs ++ tr w -> In (ERd r) evs ->
  gR (st w) = nonblank_lines false (consumed (tr w)) /\ gS (st w) = gR (st w).
Proof. exact (L Lemmas_Inv2.C01_no_read_ahead_inv). Qed.
End InvD2.

Print Assumptions C02_loop_type_inv.
Print Assumptions C02_calls_history_inv.
Print Assumptions C02_selection_origin_inv.
Print Assumptions C02_calls_selected_inv.
Print Assumptions C01_gL_counts_lines_inv.
Print Assumptions C01_idle_iff_blank_inv.
Print Assumptions C01_read_only_when_settled_trace_inv.
Print Assumptions C01_no_read_ahead_inv.

(* ================================================================== *)
(* 4. the scripted oracles: the invariant for `valid inner calls`       *)
(* ================================================================== *)
Theorem scripted_valid_calls_invariant : forall D h q, script_ok (res_calls_valid D) h = true ->
  script_ok (res_calls_valid D) (fst (s_call h q)) = true /\
  Forall (valid_icall D) (r_calls (snd (s_call h q))).
Proof. exact Lemmas_Inv2.SV_step. Qed.
Print Assumptions scripted_valid_calls_invariant.

(* ================================================================== *)
(* 5. histories of API calls on scripted worlds                         *)
(* ================================================================== *)
Section Scripted2.
Variable D : desc.
Notation st := (Fsm.st sio smu shs).
Notation tr := (Fsm.tr sio smu shs).
Notation hist := (TraceDefs.hist sio smu shs).
Notation s_step := (Fsm.step D sio smu shs s_read s_write s_lock s_unlock s_call).
Notation s_do_op := (Fsm.do_op D sio smu shs s_read s_write s_lock s_unlock s_call).
Notation in_progress := (Properties_C13o.in_progress sio smu shs).
Notation sreach m x mx h ops := (srun D (sinit D m x mx h) (map SOp ops)).

(* ---- C11s / C18s ---- *)
Theorem C11_wait_is_fresh_scripted : forall m x mx h ops,
  let s := st (sreach m x mx h ops) in
  (k_state (k s) = CS_FLUSH_WAIT ->
     k_position (k s) = 0 /\
     ((k_wstate (k s) = WS_BEFORE /\ k_wbuf (k s) = WB_NL (k_cr (k s))) \/
      (k_wstate (k s) = WS_AFTER /\ k_wbuf (k s) = WB_MAIN))) /\
  (u_state (u s) = US_FLUSH_WAIT ->
     u_position (u s) = 0 /\ u_wstate (u s) = WS_BEFORE /\ exists cr, u_wbuf (u s) = WB_NL cr).
Proof. exact (Lemmas_Inv2.C11_wait_is_fresh_scripted D). Qed.

Theorem C11_started_whole_scripted : forall m x mx h ops,
  Forall whole_unit (sc_starts D (sinit D m x mx h) ops).
Proof. exact (Lemmas_Inv2.C11_started_whole_scripted D). Qed.

Theorem C11_stream_any_scripted : forall m x mx h ops, no_rt_hold h = true ->
  let w := sreach m x mx h ops in
  stream_inv (st w) (accepted_wr (hist w)) (sc_started D (sinit D m x mx h) ops).
Proof. exact (Lemmas_Inv2.C11_stream_any_scripted D). Qed.

Theorem C11_stream_scripted : forall m x mx h ops, no_rt_hold h = true ->
  let w := sreach m x mx h ops in
  k_state (k (st w)) <> CS_FLUSH -> u_state (u (st w)) <> US_FLUSH ->
  exists crs, length crs = length (sc_started D (sinit D m x mx h) ops) /\
    accepted_wr (hist w) = stream (sc_started D (sinit D m x mx h) ops) crs.
Proof. exact (Lemmas_Inv2.C11_stream_scripted D). Qed.

Theorem C11_stream_per_producer_scripted : forall m x mx h ops, no_rt_hold h = true ->
  let w := sreach m x mx h ops in
  k_state (k (st w)) <> CS_FLUSH -> u_state (u (st w)) <> US_FLUSH ->
  proj ATCMD (accepted_wr (hist w)) =
    concat (map snd (units_of ATCMD (sc_started D (sinit D m x mx h) ops))) /\
  exists ucrs, length ucrs = length (units_of UNSOL (sc_started D (sinit D m x mx h) ops)) /\
    proj UNSOL (accepted_wr (hist w)) =
      concat (map (fun p => snd (fst p) ++ nl_text (snd p))
                  (combine (units_of UNSOL (sc_started D (sinit D m x mx h) ops)) ucrs)).
Proof. exact (Lemmas_Inv2.C11_stream_per_producer_scripted D). Qed.

Theorem C18_busy_stream_complete_scripted : forall m x mx h ops, no_rt_hold h = true ->
  let w := sreach m x mx h ops in
  is_busy (st w) = ST_OK ->
  Forall whole_unit (sc_starts D (sinit D m x mx h) ops) /\
  exists crs, length crs = length (sc_started D (sinit D m x mx h) ops) /\
    accepted_wr (hist w) = stream (sc_started D (sinit D m x mx h) ops) crs.
Proof. exact (Lemmas_Inv2.C18_busy_stream_complete_scripted D). Qed.

(* ---- C13o: the scripts may hold anywhere; only the validity of the inner calls is asked ---- *)
Theorem C13_in_progress_scripted : forall m x mx h ops,
  0 < d_cap D -> Forall (valid_op D) ops -> script_ok (res_calls_valid D) h = true ->
  let w := sreach m x mx h ops in
  (u_state (u (st w)) = US_IDLE -> u_cmd (u (st w)) = None) /\
  (u_state (u (st w)) <> US_IDLE ->
     exists p ci t, popped (hist w) = p ++ [(ci, t)] /\ u_cmd (u (st w)) = Some ci /\ u_type (u (st w)) = t).
Proof. exact (Lemmas_Inv2.C13_in_progress_scripted D). Qed.

Theorem C13_queue_valid_scripted : forall m x mx h ops,
  0 < d_cap D -> Forall (valid_op D) ops -> script_ok (res_calls_valid D) h = true ->
  let w := sreach m x mx h ops in
  Forall (fun it => valid_trigger D (fst it) (snd it)) (ring_items D (st w)).
Proof. exact (Lemmas_Inv2.C13_queue_valid_scripted D). Qed.

Theorem C13_observers_exact_scripted : forall m x mx h ops,
  0 < d_cap D -> Forall (valid_op D) ops -> script_ok (res_calls_valid D) h = true ->
  let w := sreach m x mx h ops in
  (forall ci t, is_event_buffered D (st w) ci t = ST_BUSY <->
     exists it, In it (in_progress w ++ ring_items D (st w)) /\ ev_match ci t it = true) /\
  get_processed (st w) UNSOL = match in_progress w with [] => (-1)%Z | it :: _ => Z.of_nat (fst it) end.
Proof. exact (Lemmas_Inv2.C13_observers_exact_scripted D). Qed.

(* `the unlock never fails` becomes a condition on the unlock schedule *)
Theorem C13_ok_means_all_processed_scripted : forall m x mx h ops,
  0 < d_cap D -> Forall (valid_op D) ops -> script_ok (res_calls_valid D) h = true ->
  let w := sreach m x mx h ops in
  snd (s_do_op w OService) = ST_OK ->
  pushed (d_cap D) (hist w) = popped (hist w) /\
  ((d_mutex D = false \/ unlock_never_fails mx = true) -> accepted (hist w) = popped (hist w)) /\
  ring_items D (st w) = [] /\
  u_state (u (st w)) = US_IDLE /\ u_cmd (u (st w)) = None /\ in_progress w = [] /\
  (forall ci t, is_event_buffered D (st w) ci t = ST_OK) /\
  get_processed (st w) UNSOL = (-1)%Z /\
  st (s_step w OService) = st w.
Proof. exact (Lemmas_Inv2.C13_ok_means_all_processed_scripted D). Qed.

(* ---- C03c ---- *)
Theorem C03_lengths_reachable_scripted : forall m x mx h ops,
  wf_desc D m -> Forall (valid_op D) ops -> script_ok (res_calls_valid D) h = true ->
  let s := st (sreach m x mx h ops) in
  length (cbuf s) = asz_of D /\ length (ubuf s) = usz_of D /\ length (u_ring (u s)) = d_cap D /\
  map (@length N) (mem s) = map (@length N) m.
Proof. exact (Lemmas_Inv2.C03_lengths_reachable_scripted D). Qed.

Theorem C03_no_fault_scripted : forall m x mx h ops,
  wf_desc D m -> Forall (valid_op D) ops -> script_ok (res_calls_valid D) h = true ->
  fault (st (sreach m x mx h ops)) = false.
Proof. exact (Lemmas_Inv2.C03_no_fault_scripted D). Qed.

(* ---- C02c ---- *)
Theorem C02_loop_type_scripted : forall m x mx h ops,
  wf_desc D m -> Forall (valid_op D) ops ->
  no_rt_hold h = true -> script_ok (res_calls_valid D) h = true ->
  Properties_C02c.loop_type (st (sreach m x mx h ops)).
Proof. exact (Lemmas_Inv2.C02_loop_type_scripted D). Qed.

Theorem C02_calls_history_scripted : forall m x mx h ops q code,
  wf_desc D m -> Forall (valid_op D) ops ->
  no_rt_hold h = true -> script_ok (res_calls_valid D) h = true ->
  In (ECall q code) (tr (sreach m x mx h ops)) -> Properties_C02c.ev_side q = false ->
  exists ops1 ops2 evs, ops = ops1 ++ OService :: ops2 /\
    tr (sreach m x mx h (ops1 ++ [OService])) = evs ++ tr (sreach m x mx h ops1) /\ In (ECall q code) evs /\
    let s := st (sreach m x mx h ops1) in
    k_cmd (k s) = Some (req_cmd q) /\ k_state (k s) = Properties_C02c.call_state q /\
    k_type (k s) = Properties_C02c.kind_type q.
Proof. exact (Lemmas_Inv2.C02_calls_history_scripted D). Qed.

Theorem C02_selection_origin_scripted : forall m x mx h ops,
  wf_desc D m -> Forall (valid_op D) ops ->
  no_rt_hold h = true -> script_ok (res_calls_valid D) h = true ->
  Properties_C02c.needs_cmd (st (sreach m x mx h ops)) = true ->
  exists ops1 ops2, ops = ops1 ++ ops2 /\
    k_state (k (st (sreach m x mx h ops1))) = CS_COMMAND_FOUND /\
    k_cmd (k (st (sreach m x mx h ops1))) = k_cmd (k (st (sreach m x mx h ops))) /\
    forall n, n <= length ops2 ->
      Properties_C02c.needs_cmd (st (sreach m x mx h (ops1 ++ firstn n ops2))) = true.
Proof. exact (Lemmas_Inv2.C02_selection_origin_scripted D). Qed.

Theorem C02_calls_selected_scripted : forall m x mx h ops q code,
  wf_desc D m -> Forall (valid_op D) ops ->
  no_rt_hold h = true -> script_ok (res_calls_valid D) h = true ->
  In (ECall q code) (tr (sreach m x mx h ops)) -> Properties_C02c.ev_side q = false ->
  exists ops0 opsm ops2, ops = ops0 ++ opsm ++ OService :: ops2 /\
    k_state (k (st (sreach m x mx h ops0))) = CS_COMMAND_FOUND /\
    k_cmd (k (st (sreach m x mx h ops0))) = Some (req_cmd q) /\
    (forall n, n <= length opsm ->
       Properties_C02c.needs_cmd (st (sreach m x mx h (ops0 ++ firstn n opsm))) = true) /\
    let s := st (sreach m x mx h (ops0 ++ opsm)) in
    k_cmd (k s) = Some (req_cmd q) /\ k_state (k s) = Properties_C02c.call_state q /\
    k_type (k s) = Properties_C02c.kind_type q.
Proof. exact (Lemmas_Inv2.C02_calls_selected_scripted D). Qed.

(* ---- C09c: no hypothesis on the oracles; the instances ---- *)
Theorem C09_calls_enabled_history_scripted : forall m x mx h ops q code,
  0 < ncmds D ->
  sc_flags_between_lines D (sinit D m x mx h) ops ->
  In (ECall q code) (tr (sreach m x mx h ops)) -> Properties_C09c.ev_side q = false ->
  exists ops1 ops2 evs, ops = ops1 ++ OService :: ops2 /\
    tr (sreach m x mx h (ops1 ++ [OService])) = evs ++ tr (sreach m x mx h ops1) /\ In (ECall q code) evs /\
    let s := st (sreach m x mx h ops1) in
    k_cmd (k s) = Some (req_cmd q) /\ k_state (k s) = Properties_C09c.call_state q /\
    req_cmd q < ncmds D /\ is_command_disable D s (req_cmd q) = false.
Proof. exact (Lemmas_Inv2.C09_calls_enabled_history_scripted D). Qed.

Theorem C09_calls_accepted_scripted : forall m x mx h ops q code c,
  In (ECall q code) (tr (sreach m x mx h ops)) -> Properties_C09c.ev_side q = false ->
  nth_error (pool D) (req_cmd q) = Some c ->
  dispatch_accepts c (Properties_C09c.form_of q) = true /\ Properties_C09c.served c q = true /\
  (Properties_C09c.form_of q <> F_TEST -> c_only_test c = false).
Proof. exact (Lemmas_Inv2.C09_calls_accepted_scripted D). Qed.

(* ---- C01s (Properties_C01s.v already has C01_gL_counts_lines_scripted, under `no fault`) ---- *)
Theorem C01_gL_in_domain_scripted : forall m x mx h ops,
  wf_desc D m -> Forall (valid_op D) ops ->
  no_rt_hold h = true -> script_ok (res_calls_valid D) h = true ->
  let w := sreach m x mx h ops in
  gL (st w) = nonblank_lines false (consumed (tr w)).
Proof. exact (Lemmas_Inv2.C01_gL_in_domain_scripted D). Qed.

Theorem C01_idle_iff_blank_scripted : forall m x mx h ops,
  wf_desc D m -> Forall (valid_op D) ops ->
  no_rt_hold h = true -> script_ok (res_calls_valid D) h = true ->
  let w := sreach m x mx h ops in
  reading_state (k_state (k (st w))) = true ->
  (k_state (k (st w)) = CS_IDLE <-> seen_after false (consumed (tr w)) = false).
Proof. exact (Lemmas_Inv2.C01_idle_iff_blank_scripted D). Qed.

Theorem C01_no_read_ahead_scripted : forall m x mx h ops o evs r,
  wf_desc D m -> Forall (valid_op D) ops ->
  no_rt_hold h = true -> script_ok (res_calls_valid D) h = true ->
  let w := sreach m x mx h ops in
  tr (sstep D w (SOp o)) = evs ++ tr w -> In (ERd r) evs ->
  gR (st w) = nonblank_lines false (consumed (tr w)) /\ gS (st w) = gR (st w).
Proof. exact (Lemmas_Inv2.C01_no_read_ahead_scripted D). Qed.
End Scripted2.

Print Assumptions C11_wait_is_fresh_scripted.
Print Assumptions C11_started_whole_scripted.
Print Assumptions C11_stream_any_scripted.
Print Assumptions C11_stream_scripted.
Print Assumptions C11_stream_per_producer_scripted.
Print Assumptions C18_busy_stream_complete_scripted.
Print Assumptions C13_in_progress_scripted.
Print Assumptions C13_queue_valid_scripted.
Print Assumptions C13_observers_exact_scripted.
Print Assumptions C13_ok_means_all_processed_scripted.
Print Assumptions C03_lengths_reachable_scripted.
Print Assumptions C03_no_fault_scripted.
Print Assumptions C02_loop_type_scripted.
Print Assumptions C02_calls_history_scripted.
Print Assumptions C02_selection_origin_scripted.
Print Assumptions C02_calls_selected_scripted.
Print Assumptions C09_calls_enabled_history_scripted.
Print Assumptions C09_calls_accepted_scripted.
Print Assumptions C01_gL_in_domain_scripted.
Print Assumptions C01_idle_iff_blank_scripted.
Print Assumptions C01_no_read_ahead_scripted.

(* ================================================================== *)
(* 7. scenarios: API calls, new input (SFeed) and application stores    *)
(*    (SPoke) in any order (SReinit excluded, except for C16)           *)
(* ================================================================== *)
(* Given for the theorems whose proof has a one-step form (an invariant preserved by every
   operation from any world): the step is transferred to the sanitised oracle, SFeed changes the
   io state only, SPoke the variable storage only.  NOT given in scenario form: the theorems that
   split the history at an earlier operation (C02_calls_history / _selection_origin /
   _calls_selected, C09_calls_enabled_history), C01_no_read_ahead, C11_stream_per_producer. *)

(* the flush sessions opened along a scenario; SFeed and SPoke open none *)
Example sc_sstarts_def : forall D (w : sworld) o sops,
  sc_sstarts D w [] = [] /\
  sc_sstarts D w (o :: sops) =
    new_starts (st _ _ _ w) (st _ _ _ (sstep D w o)) ++ sc_sstarts D (sstep D w o) sops.
Proof. split; reflexivity. Qed.
Example sc_sstarted_def : forall D (w : sworld) sops, sc_sstarted D w sops = map unit_of (sc_sstarts D w sops).
Proof. reflexivity. Qed.
Theorem sc_sstarts_SOp : forall D ops (w : sworld), sc_sstarts D w (map SOp ops) = sc_starts D w ops.
Proof. exact Lemmas_Inv2.sc_sstarts_SOp. Qed.
Print Assumptions sc_sstarts_SOp.

Section Scenario2.
Variable D : desc.
Notation st := (Fsm.st sio smu shs).
Notation tr := (Fsm.tr sio smu shs).
Notation hist := (TraceDefs.hist sio smu shs).
Notation s_step := (Fsm.step D sio smu shs s_read s_write s_lock s_unlock s_call).
Notation s_do_op := (Fsm.do_op D sio smu shs s_read s_write s_lock s_unlock s_call).
Notation in_progress := (Properties_C13o.in_progress sio smu shs).

(* ---- C11s / C18s ---- *)
Theorem C11_stream_any_scenario : forall m x mx h sops,
  no_rt_hold h = true -> Forall no_reinit sops ->
  let w := srun D (sinit D m x mx h) sops in
  stream_inv (st w) (accepted_wr (hist w)) (sc_sstarted D (sinit D m x mx h) sops).
Proof. exact (Lemmas_Inv2.C11_stream_any_scenario D). Qed.

Theorem C11_stream_scenario : forall m x mx h sops,
  no_rt_hold h = true -> Forall no_reinit sops ->
  let w := srun D (sinit D m x mx h) sops in
  k_state (k (st w)) <> CS_FLUSH -> u_state (u (st w)) <> US_FLUSH ->
  exists crs, length crs = length (sc_sstarted D (sinit D m x mx h) sops) /\
    accepted_wr (hist w) = stream (sc_sstarted D (sinit D m x mx h) sops) crs.
Proof. exact (Lemmas_Inv2.C11_stream_scenario D). Qed.

Theorem C11_started_whole_scenario : forall m x mx h sops, Forall no_reinit sops ->
  Forall whole_unit (sc_sstarts D (sinit D m x mx h) sops).
Proof. exact (Lemmas_Inv2.C11_started_whole_scenario D). Qed.

Theorem C18_busy_stream_complete_scenario : forall m x mx h sops,
  no_rt_hold h = true -> Forall no_reinit sops ->
  let w := srun D (sinit D m x mx h) sops in
  is_busy (st w) = ST_OK ->
  Forall whole_unit (sc_sstarts D (sinit D m x mx h) sops) /\
  exists crs, length crs = length (sc_sstarted D (sinit D m x mx h) sops) /\
    accepted_wr (hist w) = stream (sc_sstarted D (sinit D m x mx h) sops) crs.
Proof. exact (Lemmas_Inv2.C18_busy_stream_complete_scenario D). Qed.

(* ---- C13o ---- *)
Theorem C13_in_progress_scenario : forall m x mx h sops,
  0 < d_cap D -> Forall (valid_sop D) sops -> script_ok (res_calls_valid D) h = true ->
  let w := srun D (sinit D m x mx h) sops in
  (u_state (u (st w)) = US_IDLE -> u_cmd (u (st w)) = None) /\
  (u_state (u (st w)) <> US_IDLE ->
     exists p ci t, popped (hist w) = p ++ [(ci, t)] /\ u_cmd (u (st w)) = Some ci /\ u_type (u (st w)) = t).
Proof. exact (Lemmas_Inv2.C13_in_progress_scenario D). Qed.

Theorem C13_queue_valid_scenario : forall m x mx h sops,
  0 < d_cap D -> Forall (valid_sop D) sops -> script_ok (res_calls_valid D) h = true ->
  let w := srun D (sinit D m x mx h) sops in
  Forall (fun it => valid_trigger D (fst it) (snd it)) (ring_items D (st w)).
Proof. exact (Lemmas_Inv2.C13_queue_valid_scenario D). Qed.

Theorem C13_observers_exact_scenario : forall m x mx h sops,
  0 < d_cap D -> Forall (valid_sop D) sops -> script_ok (res_calls_valid D) h = true ->
  let w := srun D (sinit D m x mx h) sops in
  (forall ci t, is_event_buffered D (st w) ci t = ST_BUSY <->
     exists it, In it (in_progress w ++ ring_items D (st w)) /\ ev_match ci t it = true) /\
  get_processed (st w) UNSOL = match in_progress w with [] => (-1)%Z | it :: _ => Z.of_nat (fst it) end.
Proof. exact (Lemmas_Inv2.C13_observers_exact_scenario D). Qed.

(* the clause on `pushed` of the API form is not restated (its queue equation has no scenario form) *)
Theorem C13_ok_means_all_processed_scenario : forall m x mx h sops,
  0 < d_cap D -> Forall (valid_sop D) sops -> script_ok (res_calls_valid D) h = true ->
  let w := srun D (sinit D m x mx h) sops in
  snd (s_do_op w OService) = ST_OK ->
  ((d_mutex D = false \/ unlock_never_fails mx = true) -> accepted (hist w) = popped (hist w)) /\
  ring_items D (st w) = [] /\
  u_state (u (st w)) = US_IDLE /\ u_cmd (u (st w)) = None /\ in_progress w = [] /\
  (forall ci t, is_event_buffered D (st w) ci t = ST_OK) /\
  get_processed (st w) UNSOL = (-1)%Z /\
  st (s_step w OService) = st w.
Proof. exact (Lemmas_Inv2.C13_ok_means_all_processed_scenario D). Qed.

(* ---- C03c, C02c, C01s ---- *)
Theorem C03_lengths_scenario : forall m x mx h sops,
  wf_desc D m -> Forall (valid_sop D) sops ->
  no_rt_hold h = true -> script_ok (res_calls_valid D) h = true ->
  let s := st (srun D (sinit D m x mx h) sops) in
  length (cbuf s) = asz_of D /\ length (ubuf s) = usz_of D /\ length (u_ring (u s)) = d_cap D /\
  map (@length N) (mem s) = map (@length N) m.
Proof. exact (Lemmas_Inv2.C03_lengths_scenario D). Qed.

Theorem C02_loop_type_scenario : forall m x mx h sops,
  wf_desc D m -> Forall (valid_sop D) sops ->
  no_rt_hold h = true -> script_ok (res_calls_valid D) h = true ->
  Properties_C02c.loop_type (st (srun D (sinit D m x mx h) sops)).
Proof. exact (Lemmas_Inv2.C02_loop_type_scenario D). Qed.

Theorem C01_gL_scenario : forall m x mx h sops,
  wf_desc D m -> Forall (valid_sop D) sops ->
  no_rt_hold h = true -> script_ok (res_calls_valid D) h = true ->
  let w := srun D (sinit D m x mx h) sops in
  gL (st w) = nonblank_lines false (consumed (tr w)).
Proof. exact (Lemmas_Inv2.C01_gL_scenario D). Qed.

(* ---- C16 (Properties_C16g.guarded): EVERY scenario, SReinit included, is guarded ---- *)
Theorem C16_guarded_scenario : forall m x mx h sops, d_mutex D = true ->
  script_ok res_no_calls h = true ->
  Lemmas_C16g.guarded false (hist (srun D (sinit D m x mx h) sops)) = true.
Proof. exact (Lemmas_Inv2.C16_guarded_scenario D). Qed.
End Scenario2.

Print Assumptions C11_stream_any_scenario.
Print Assumptions C11_stream_scenario.
Print Assumptions C11_started_whole_scenario.
Print Assumptions C18_busy_stream_complete_scenario.
Print Assumptions C13_in_progress_scenario.
Print Assumptions C13_queue_valid_scenario.
Print Assumptions C13_observers_exact_scenario.
Print Assumptions C13_ok_means_all_processed_scenario.
Print Assumptions C03_lengths_scenario.
Print Assumptions C02_loop_type_scenario.
Print Assumptions C01_gL_scenario.
Print Assumptions C16_guarded_scenario.
