(* Properties_C02t.v — property C02 (part P4), transparency of the line reader: a command line typed the
   way a terminal sends it — `at` in any letter case, the name in any letter case, carriage returns
   anywhere after the first byte, CR LF as line ending — is looked up exactly like the canonical upper-case
   line without carriage returns; the only trace the carriage returns leave is the newline flag k_cr
   (the answer then uses CR LF).  On the scripted always-ready environment of Script.v (mkw of GlueDefs.v),
   event machine idle, no mutex.  Generalises Properties_C02e.v (C02_dispatch, C02_dispatch_read,
   C02_dispatch_read_cr) and lifts three whole-line theorems of Properties_C01e.v / C19e.v style to
   terminal input with the terminal's line ending on the output.  Proofs: Lemmas_E2Ec.v.

   Shape of a line:   a  CR^m0  t  name'  terminator
     a, t     : any bytes with to_upper a = 'A', to_upper t = 'T'
     name'    : the name with carriage returns interleaved anywhere (also at its end), any letter case;
                typed = upper (no_cr name') is what the lookup sees (no_cr of CollectDefs.v drops CRs)
     terminator: LF (RUN), '=' (WRITE), '?' CR^m LF (READ)
   (the form  pre name' crs term  with pre one of AT At aT at is the case m0 = 0 with crs part of name')
   Carriage returns (and line feeds) BEFORE the first byte `a` are skipped by the idle state without
   raising the flag (Fsm.process_idle_state); they belong to the previous line ending. *)
From Coq Require Import List NArith ZArith Bool Arith.
From CatV Require Import Bytes Defs Codec Spec Fsm Script ResolveDefs SchedDefs GlueDefs TextDefs CollectDefs.
From CatV Require Lemmas_C02 Lemmas_C07 Lemmas_C07e Lemmas_E2E.
From CatV Require Lemmas_E2Ec.
Local Notation nl_of := Lemmas_E2Ec.nl_of.
Import ListNotations.
Local Open Scope nat_scope.

Local Notation st := (Fsm.st sio smu shs).
Local Notation io := (Fsm.io sio smu shs).
Local Notation hs := (Fsm.hs sio smu shs).
Local Notation tr := (Fsm.tr sio smu shs).

(* the definitions used below, as checked equations *)
Example def_no_cr : forall bs, no_cr bs = filter (fun c => negb (c =? ch_CR)%N) bs.
Proof. reflexivity. Qed.
Example def_nl_of : forall cr, nl_of cr = if cr then [ch_CR; ch_LF] else [ch_LF].
Proof. reflexivity. Qed.
Example def_run_answer : forall code, Lemmas_E2Ec.run_answer code =
  if (code =? RC_OK)%Z || (code =? RC_DATA_OK)%Z then Some txt_OK
  else if (code =? RC_DATA_NEXT)%Z || (code =? RC_NEXT)%Z || (code =? RC_HOLD)%Z
          || (code =? RC_PRINT_CMD_LIST_OK)%Z then None
  else Some txt_ERROR.
Proof. reflexivity. Qed.

(* 1. RUN and WRITE requests: same command, same type as C02_dispatch; k_cr = a CR was consumed *)
Theorem C02_dispatch_t : forall D s a m0 t name' term rest h,
  d_mutex D = false ->
  let n := ncmds D in
  0 < n -> n <= 4 * length (cbuf s) -> fault s = false ->
  k_state (k s) = CS_IDLE -> k_implicit (k s) = false ->
  u_state (u s) = US_IDLE -> u_count (u s) = 0 ->
  to_upper a = ch_A -> to_upper t = ch_T ->
  name_ok (no_cr name') = true -> (term = ch_LF \/ term = ch_EQ) ->
  let typed := upper (no_cr name') in
  implicit_hit D s typed = false ->
  let w0 := mkw s ([a] ++ repeat ch_CR m0 ++ [t] ++ name' ++ [term] ++ rest) h [] in
  exists calls, calls <= 3 + m0 + length name' * (S n) + n /\
    let w := nsvc D calls w0 in
    inq (io w) = rest /\ hs w = h /\ calls_of (tr w) = [] /\ output_of (tr w) = [] /\
    mem (st w) = mem s /\ fault (st w) = false /\ u (st w) = u s /\
    k_cr (k (st w)) = (k_cr (k s) || (0 <? m0) || existsb (fun c => (c =? ch_CR)%N) name') /\
    match resolve typed (enabled D s) (cmds D) with
    | Some i => k_state (k (st w)) = CS_COMMAND_FOUND /\ k_cmd (k (st w)) = Some i /\
                k_type (k (st w)) = (if (term =? ch_EQ)%N then T_WRITE else T_RUN) /\
                k_char (k (st w)) = term
    | None => k_state (k (st w)) = (if (term =? ch_LF)%N then CS_COMMAND_NOT_FOUND else CS_ERROR)
    end.
Proof. intros D s a m0 t name' term rest h Hmx. exact (Lemmas_E2Ec.C02_dispatch_t_proof D Hmx s a m0 t name' term rest h). Qed.
Print Assumptions C02_dispatch_t.

(* 2. READ requests, m carriage returns between '?' and the line feed *)
Theorem C02_dispatch_read_t : forall D s a m0 t name' m rest h,
  d_mutex D = false ->
  let n := ncmds D in
  0 < n -> n <= 4 * length (cbuf s) -> fault s = false ->
  k_state (k s) = CS_IDLE -> k_implicit (k s) = false ->
  u_state (u s) = US_IDLE -> u_count (u s) = 0 ->
  to_upper a = ch_A -> to_upper t = ch_T ->
  name_ok (no_cr name') = true ->
  let typed := upper (no_cr name') in
  implicit_hit D s typed = false ->
  let w0 := mkw s ([a] ++ repeat ch_CR m0 ++ [t] ++ name' ++ [ch_QM] ++ repeat ch_CR m ++ [ch_LF] ++ rest) h [] in
  exists calls, calls <= 4 + m0 + m + length name' * (S n) + n /\
    let w := nsvc D calls w0 in
    inq (io w) = rest /\ hs w = h /\ calls_of (tr w) = [] /\ output_of (tr w) = [] /\
    mem (st w) = mem s /\ fault (st w) = false /\ u (st w) = u s /\
    k_cr (k (st w)) = (k_cr (k s) || (0 <? m0) || existsb (fun c => (c =? ch_CR)%N) name' || (0 <? m)) /\
    match resolve typed (enabled D s) (cmds D) with
    | Some i => k_state (k (st w)) = CS_COMMAND_FOUND /\ k_cmd (k (st w)) = Some i /\
                k_type (k (st w)) = T_READ /\ k_char (k (st w)) = ch_LF
    | None => k_state (k (st w)) = CS_COMMAND_NOT_FOUND
    end.
Proof. intros D s a m0 t name' m rest h Hmx. exact (Lemmas_E2Ec.C02_dispatch_read_t_proof D Hmx s a m0 t name' m rest h). Qed.
Print Assumptions C02_dispatch_read_t.

(* 2'. implicit write: the lookup starts with the last character c of the name, without a terminator;
       the bytes after it are still queued (C02_dispatch_implicit for terminal input) *)
Theorem C02_dispatch_implicit_t : forall D s a m0 t pre c rest h,
  d_mutex D = false ->
  let n := ncmds D in
  0 < n -> n <= 4 * length (cbuf s) -> fault s = false ->
  k_state (k s) = CS_IDLE -> k_implicit (k s) = false ->
  u_state (u s) = US_IDLE -> u_count (u s) = 0 ->
  to_upper a = ch_A -> to_upper t = ch_T ->
  name_ok (no_cr (pre ++ [c])) = true -> (c =? ch_CR)%N = false ->
  let typed := upper (no_cr (pre ++ [c])) in
  implicit_hit D s (removelast typed) = false -> implicit_hit D s typed = true ->
  let w0 := mkw s ([a] ++ repeat ch_CR m0 ++ [t] ++ pre ++ [c] ++ rest) h [] in
  exists calls, calls <= 2 + m0 + length (pre ++ [c]) * (S n) + n /\
    let w := nsvc D calls w0 in
    inq (io w) = rest /\ hs w = h /\ calls_of (tr w) = [] /\ output_of (tr w) = [] /\
    mem (st w) = mem s /\ fault (st w) = false /\ u (st w) = u s /\
    k_cr (k (st w)) = (k_cr (k s) || (0 <? m0) || existsb (fun c => (c =? ch_CR)%N) pre) /\
    k_state (k (st w)) = CS_COMMAND_FOUND /\
    k_cmd (k (st w)) = find_full typed (enabled D s) (cmds D) 0 /\ k_cmd (k (st w)) <> None /\
    k_type (k (st w)) = T_WRITE.
Proof. intros D s a m0 t pre c rest h Hmx. exact (Lemmas_E2Ec.C02_dispatch_implicit_t_proof D Hmx s a m0 t pre c rest h). Qed.
Print Assumptions C02_dispatch_implicit_t.

(* 3. transparency proper: the WHOLE object state reached is the one the canonical line
      "AT" typed terminator reaches, except for the newline flag *)
Theorem C02_reader_transparent : forall D s a m0 t name' term rest h,
  d_mutex D = false ->
  let n := ncmds D in
  0 < n -> n <= 4 * length (cbuf s) -> fault s = false ->
  k_state (k s) = CS_IDLE -> k_implicit (k s) = false ->
  u_state (u s) = US_IDLE -> u_count (u s) = 0 ->
  to_upper a = ch_A -> to_upper t = ch_T ->
  name_ok (no_cr name') = true -> (term = ch_LF \/ term = ch_EQ) ->
  let typed := upper (no_cr name') in
  implicit_hit D s typed = false ->
  exists c1 c2,
    let w := nsvc D c1 (mkw s ([a] ++ repeat ch_CR m0 ++ [t] ++ name' ++ [term] ++ rest) h []) in
    let wc := nsvc D c2 (mkw s ([ch_A; ch_T] ++ typed ++ [term] ++ rest) h []) in
    st w = setk_cr (k_cr (k s) || (0 <? m0) || existsb (fun c => (c =? ch_CR)%N) name') (st wc) /\
    inq (io w) = rest /\ inq (io wc) = rest /\ hs w = h /\ hs wc = h /\
    calls_of (tr w) = [] /\ calls_of (tr wc) = [] /\ output_of (tr w) = [] /\ output_of (tr wc) = [].
Proof. intros D s a m0 t name' term rest h Hmx. exact (Lemmas_E2Ec.C02_reader_transparent_proof D Hmx s a m0 t name' term rest h). Qed.
Print Assumptions C02_reader_transparent.

Theorem C02_reader_transparent_read : forall D s a m0 t name' m rest h,
  d_mutex D = false ->
  let n := ncmds D in
  0 < n -> n <= 4 * length (cbuf s) -> fault s = false ->
  k_state (k s) = CS_IDLE -> k_implicit (k s) = false ->
  u_state (u s) = US_IDLE -> u_count (u s) = 0 ->
  to_upper a = ch_A -> to_upper t = ch_T ->
  name_ok (no_cr name') = true ->
  let typed := upper (no_cr name') in
  implicit_hit D s typed = false ->
  exists c1 c2,
    let w := nsvc D c1 (mkw s ([a] ++ repeat ch_CR m0 ++ [t] ++ name' ++ [ch_QM] ++ repeat ch_CR m ++ [ch_LF] ++ rest) h []) in
    let wc := nsvc D c2 (mkw s ([ch_A; ch_T] ++ typed ++ [ch_QM; ch_LF] ++ rest) h []) in
    st w = setk_cr (k_cr (k s) || (0 <? m0) || existsb (fun c => (c =? ch_CR)%N) name' || (0 <? m)) (st wc) /\
    inq (io w) = rest /\ inq (io wc) = rest /\ hs w = h /\ hs wc = h /\
    calls_of (tr w) = [] /\ calls_of (tr wc) = [] /\ output_of (tr w) = [] /\ output_of (tr wc) = [].
Proof. intros D s a m0 t name' m rest h Hmx. exact (Lemmas_E2Ec.C02_reader_transparent_read_proof D Hmx s a m0 t name' m rest h). Qed.
Print Assumptions C02_reader_transparent_read.

(* 4. whole lines.  nl = CR LF if a carriage return was consumed on the line, LF otherwise; the flag is
      cleared again when the line is finished (k_cr = false: the next line starts afresh) *)
(* 4a. READ answered from variables (E2E_read_line of Properties_C01e.v for terminal input) *)
Theorem E2E_read_line_t : forall D s a m0 t name' m rest h i c args,
  d_mutex D = false -> 0 < ncmds D -> ncmds D <= 4 * length (cbuf s) -> 6 <= length (cbuf s) ->
  fault s = false ->
  k_state (k s) = CS_IDLE -> k_cr (k s) = false -> k_implicit (k s) = false -> k_hold (k s) = false ->
  u_state (u s) = US_IDLE -> u_count (u s) = 0 ->
  to_upper a = ch_A -> to_upper t = ch_T ->
  name_ok (no_cr name') = true -> implicit_hit D s (upper (no_cr name')) = false ->
  resolve (upper (no_cr name')) (enabled D s) (cmds D) = Some i -> nth_error (cmds D) i = Some c ->
  Lemmas_C07e.rt_cmd_ok (mem s) c -> Lemmas_C07e.read_args_text (mem s) c = Some args ->
  length (c_name c ++ [ch_EQ] ++ args) < length (cbuf s) ->
  let cr := (0 <? m0) || existsb (fun c => (c =? ch_CR)%N) name' || (0 <? m) in
  let nl := if cr then [ch_CR; ch_LF] else [ch_LF] in
  let w0 := mkw s ([a] ++ repeat ch_CR m0 ++ [t] ++ name' ++ [ch_QM] ++ repeat ch_CR m ++ [ch_LF] ++ rest) h [] in
  exists calls, let w := nsvc D calls w0 in
    k_state (k (st w)) = CS_IDLE /\ inq (io w) = rest /\ hs w = h /\ calls_of (tr w) = [] /\
    mem (st w) = mem s /\ fault (st w) = false /\
    output_of (tr w) = nl ++ c_name c ++ [ch_EQ] ++ args ++ nl ++ nl ++ txt_OK ++ nl /\
    gL (st w) = S (gL s) /\ gS (st w) = S (gS s) /\ gR (st w) = S (gR s) /\ k_cr (k (st w)) = false.
Proof. intros D s a m0 t name' m rest h i c args Hmx. exact (Lemmas_E2Ec.E2E_read_line_t_proof D Hmx s a m0 t name' m rest h i c args). Qed.
Print Assumptions E2E_read_line_t.

(* 4b. an unknown or ambiguous name, RUN form *)
Theorem E2E_unknown_line_t : forall D s a m0 t name' rest h,
  d_mutex D = false -> 0 < ncmds D -> ncmds D <= 4 * length (cbuf s) -> 6 <= length (cbuf s) ->
  fault s = false ->
  k_state (k s) = CS_IDLE -> k_cr (k s) = false -> k_implicit (k s) = false -> k_hold (k s) = false ->
  u_state (u s) = US_IDLE -> u_count (u s) = 0 ->
  to_upper a = ch_A -> to_upper t = ch_T ->
  name_ok (no_cr name') = true -> implicit_hit D s (upper (no_cr name')) = false ->
  resolve (upper (no_cr name')) (enabled D s) (cmds D) = None ->
  let cr := (0 <? m0) || existsb (fun c => (c =? ch_CR)%N) name' in
  let nl := if cr then [ch_CR; ch_LF] else [ch_LF] in
  let w0 := mkw s ([a] ++ repeat ch_CR m0 ++ [t] ++ name' ++ [ch_LF] ++ rest) h [] in
  exists calls, let w := nsvc D calls w0 in
    k_state (k (st w)) = CS_IDLE /\ inq (io w) = rest /\ hs w = h /\ calls_of (tr w) = [] /\
    mem (st w) = mem s /\ fault (st w) = false /\
    output_of (tr w) = nl ++ txt_ERROR ++ nl /\
    gL (st w) = S (gL s) /\ gS (st w) = S (gS s) /\ gR (st w) = S (gR s) /\ k_cr (k (st w)) = false.
Proof. intros D s a m0 t name' rest h Hmx. exact (Lemmas_E2Ec.E2E_unknown_line_t_proof D Hmx s a m0 t name' rest h). Qed.
Print Assumptions E2E_unknown_line_t.

(* 4c. a RUN line served by the command's run handler (which stores nothing and calls nothing back):
       exactly one call HRun i, then OK / ERROR as the returned code says (run_answer; the codes
       DATA_NEXT, NEXT, HOLD, PRINT_CMD_LIST_OK lead elsewhere: run_answer = None, see C10 / C19e) *)
Theorem E2E_run_line_t : forall D s a m0 t name' rest h h' i c r0 ans,
  d_mutex D = false -> 0 < ncmds D -> ncmds D <= 4 * length (cbuf s) -> 6 <= length (cbuf s) ->
  fault s = false ->
  k_state (k s) = CS_IDLE -> k_cr (k s) = false -> k_implicit (k s) = false -> k_hold (k s) = false ->
  u_state (u s) = US_IDLE -> u_count (u s) = 0 ->
  to_upper a = ch_A -> to_upper t = ch_T ->
  name_ok (no_cr name') = true -> implicit_hit D s (upper (no_cr name')) = false ->
  resolve (upper (no_cr name')) (enabled D s) (cmds D) = Some i -> nth_error (cmds D) i = Some c ->
  c_hrun c = true -> c_only_test c = false ->
  s_call h (HRun i) = (h', r0) -> r_pokes r0 = [] -> r_calls r0 = [] ->
  Lemmas_E2Ec.run_answer (r_code r0) = Some ans ->
  let cr := (0 <? m0) || existsb (fun c => (c =? ch_CR)%N) name' in
  let nl := if cr then [ch_CR; ch_LF] else [ch_LF] in
  let w0 := mkw s ([a] ++ repeat ch_CR m0 ++ [t] ++ name' ++ [ch_LF] ++ rest) h [] in
  exists calls, let w := nsvc D calls w0 in
    k_state (k (st w)) = CS_IDLE /\ inq (io w) = rest /\ hs w = h' /\
    calls_of (tr w) = [(HRun i, r_code r0)] /\
    mem (st w) = mem s /\ fault (st w) = false /\
    output_of (tr w) = nl ++ ans ++ nl /\
    gL (st w) = S (gL s) /\ gS (st w) = S (gS s) /\ gR (st w) = S (gR s) /\ k_cr (k (st w)) = false.
Proof. intros D s a m0 t name' rest h h' i c r0 ans Hmx. exact (Lemmas_E2Ec.E2E_run_line_t_proof D Hmx s a m0 t name' rest h h' i c r0 ans). Qed.
Print Assumptions E2E_run_line_t.

(* 4d. a WRITE line to variables (E2E_write_line of Properties_C01e.v for terminal input): bs is the
       argument text as sent, carriage returns included (typically one before the line feed); what is
       parsed is bs without them *)
Theorem E2E_write_line_t : forall D s a m0 t name' bs rest h i c m,
  d_mutex D = false -> 0 < ncmds D -> ncmds D <= 4 * length (cbuf s) -> 6 <= length (cbuf s) ->
  fault s = false ->
  k_state (k s) = CS_IDLE -> k_cr (k s) = false -> k_implicit (k s) = false -> k_hold (k s) = false ->
  u_state (u s) = US_IDLE -> u_count (u s) = 0 ->
  to_upper a = ch_A -> to_upper t = ch_T ->
  name_ok (no_cr name') = true -> implicit_hit D s (upper (no_cr name')) = false ->
  resolve (upper (no_cr name')) (enabled D s) (cmds D) = Some i -> nth_error (cmds D) i = Some c ->
  Lemmas_C07e.rt_cmd_ok m c -> Lemmas_C07e.read_args_text m c = Some (no_cr bs) ->
  Lemmas_C07e.same_shape m (mem s) -> length (no_cr bs) < length (cbuf s) ->
  let cr := (0 <? m0) || existsb (fun c => (c =? ch_CR)%N) name' || existsb (fun c => (c =? ch_CR)%N) bs in
  let nl := if cr then [ch_CR; ch_LF] else [ch_LF] in
  let w0 := mkw s ([a] ++ repeat ch_CR m0 ++ [t] ++ name' ++ [ch_EQ] ++ bs ++ [ch_LF] ++ rest) h [] in
  exists calls, let w := nsvc D calls w0 in
    k_state (k (st w)) = CS_IDLE /\ inq (io w) = rest /\ hs w = h /\ calls_of (tr w) = [] /\
    fault (st w) = false /\
    output_of (tr w) = nl ++ txt_OK ++ nl /\
    (forall v d0, In v (c_vars c) -> nth_error m (v_slot v) = Some d0 ->
       exists d1, nth_error (mem (st w)) (v_slot v) = Some d1 /\ Lemmas_C07.same_value v d1 d0) /\
    (forall sl, ~ In sl (map v_slot (c_vars c)) -> nth_error (mem (st w)) sl = nth_error (mem s) sl) /\
    gL (st w) = S (gL s) /\ gS (st w) = S (gS s) /\ gR (st w) = S (gR s) /\ k_cr (k (st w)) = false.
Proof. exact Lemmas_E2Ec.E2E_write_line_t_proof. Qed.
Print Assumptions E2E_write_line_t.

(* ---------- non-vacuity: the instance Lemmas_E2E.E2E_examples (D0, s0: table +X (four variables),
   +XY (run handler); 40-byte buffer; memory m0), lines of Lemmas_E2Ec.T_examples ---------- *)
Import Lemmas_E2E.E2E_examples.
Import Lemmas_E2Ec.T_examples.

(* dispatch only: obs_d = (state, command, type, last byte, k_cr, queue, calls, output).
   A CR t + CR X CR y LF 7  reaches COMMAND_FOUND / command 1 / RUN after 17 calls with k_cr raised;
   the canonical AT+XY LF 7 reaches the same after 14 calls with k_cr clear;
   a CR T + CR x CR = 1 2 3  is a WRITE request for command 0 (+X; +x is a prefix of +XY too but exact);
   A CR CR t + CR x ? CR CR LF 7  a READ request *)
Example C02t_dispatch_ex :
  go_d l_run_cr 17 = (CS_COMMAND_FOUND, Some 1, T_RUN, 10%N, true, [7%N], [], []) /\
  go_d [65; 84; 43; 88; 89; 10; 7]%N 14 = (CS_COMMAND_FOUND, Some 1, T_RUN, 10%N, false, [7%N], [], []) /\
  go_d l_write_cr 13 = (CS_COMMAND_FOUND, Some 0, T_WRITE, 61%N, true, [1; 2; 3]%N, [], []) /\
  go_d [65; 84; 43; 88; 61; 1; 2; 3]%N 10 = (CS_COMMAND_FOUND, Some 0, T_WRITE, 61%N, false, [1; 2; 3]%N, [], []) /\
  go_d l_read_cr 16 = (CS_COMMAND_FOUND, Some 0, T_READ, 10%N, true, [7%N], [], []) /\
  go_d [65; 84; 43; 88; 63; 10; 7]%N 11 = (CS_COMMAND_FOUND, Some 0, T_READ, 10%N, false, [7%N], [], []).
Proof. vm_compute. repeat split; reflexivity. Qed.

(* the two states of the first pair differ in nothing but the flag *)
Example C02t_transparent_ex :
  st (nsvc D0 17 (mkw s0 l_run_cr [] [])) = setk_cr true (st (nsvc D0 14 (mkw s0 [65; 84; 43; 88; 89; 10; 7]%N [] []))).
Proof. vm_compute. reflexivity. Qed.

(* the hypotheses of the theorems for the shape  a = A, m0 = 1, t = t, name' = + CR X CR y *)
Example C02t_hyps :
  hyps_ok D0 s0 = true /\ to_upper 65 = ch_A /\ to_upper 116 = ch_T /\
  l_run_cr = [65%N] ++ repeat ch_CR 1 ++ [116%N] ++ [43; 13; 88; 13; 121]%N ++ [ch_LF] ++ [7%N] /\
  name_ok (no_cr [43; 13; 88; 13; 121]%N) = true /\
  upper (no_cr [43; 13; 88; 13; 121]%N) = [43; 88; 89]%N /\
  implicit_hit D0 s0 (upper (no_cr [43; 13; 88; 13; 121]%N)) = false /\
  resolve (upper (no_cr [43; 13; 88; 13; 121]%N)) (enabled D0 s0) (cmds D0) = Some 1 /\
  nth_error (cmds D0) 1 = Some c1 /\
  s_call [] (HRun 1) = ([], mkHres RC_OK None [] []) /\
  Lemmas_E2Ec.run_answer RC_OK = Some txt_OK.
Proof. vm_compute. repeat split; reflexivity. Qed.

(* whole lines: obs_t = (state, queue, handler scripts, calls, output, memory, fault, counters, k_cr).
   at+xy CR LF 7 : the run handler is called once (empty script: it answers OK), CR LF OK CR LF, 28 calls *)
Example E2Et_run_ex :
  go_t l_run 28 = (CS_IDLE, [7%N], [], [(HRun 1, RC_OK)], crlf ++ [79; 75]%N ++ crlf, m0, false, (1, 1, 1), false) /\
  go_t l_run_cr 30 = (CS_IDLE, [7%N], [], [(HRun 1, RC_OK)], crlf ++ [79; 75]%N ++ crlf, m0, false, (1, 1, 1), false).
Proof. vm_compute. split; reflexivity. Qed.

(* at+x? CR LF 1 2 3 : CR LF +X=-2,... CR LF CR LF OK CR LF in 58 calls; with CRs everywhere in 62 *)
Example E2Et_read_ex :
  go_t l_read 58 = (CS_IDLE, [1; 2; 3]%N, [], [],
                    crlf ++ [43; 88; 61]%N ++ args0 ++ crlf ++ crlf ++ [79; 75]%N ++ crlf, m0, false, (1, 1, 1), false) /\
  go_t l_read_cr 62 = (CS_IDLE, [7%N], [], [],
                    crlf ++ [43; 88; 61]%N ++ args0 ++ crlf ++ crlf ++ [79; 75]%N ++ crlf, m0, false, (1, 1, 1), false).
Proof. vm_compute. split; reflexivity. Qed.

(* aT+q CR LF 7 : no such command: CR LF ERROR CR LF *)
Example E2Et_unknown_ex :
  resolve (upper (no_cr [43; 113; 13]%N)) (enabled D0 s0) (cmds D0) = None /\
  go_t l_unknown 27 = (CS_IDLE, [7%N], [], [], crlf ++ [69; 82; 82; 79; 82]%N ++ crlf, m0, false, (1, 1, 1), false).
Proof. vm_compute. split; reflexivity. Qed.

(* the general theorems applied to the instance *)
Example E2Et_run_apply :
  exists calls, let w := nsvc D0 calls (mkw s0 l_run_cr [] []) in
    k_state (k (st w)) = CS_IDLE /\ inq (io w) = [7%N] /\ calls_of (tr w) = [(HRun 1, RC_OK)] /\
    output_of (tr w) = [13; 10; 79; 75; 13; 10]%N.
Proof.
  destruct C02t_hyps as (_ & Ha & Ht & _ & Hok & _ & Hh & Hres & Hc & Hcall & Hans).
  destruct (E2E_run_line_t D0 s0 65%N 1 116%N [43; 13; 88; 13; 121]%N [7%N] [] [] 1 c1
              (mkHres RC_OK None [] []) txt_OK
              eq_refl ltac:(apply Nat.ltb_lt; reflexivity) ltac:(apply Nat.leb_le; reflexivity)
              ltac:(apply Nat.leb_le; reflexivity)
              eq_refl eq_refl eq_refl eq_refl eq_refl eq_refl eq_refl Ha Ht Hok Hh Hres Hc eq_refl eq_refl
              Hcall eq_refl eq_refl Hans)
    as (calls & A & B & _ & C & _ & _ & O & _).
  exists calls. cbv zeta. split; [exact A|]. split; [exact B|]. split; [exact C | exact O].
Qed.

Example C02t_transparent_apply :
  exists c1 c2,
    st (nsvc D0 c1 (mkw s0 l_run_cr [] [])) =
    setk_cr true (st (nsvc D0 c2 (mkw s0 [65; 84; 43; 88; 89; 10; 7]%N [] []))).
Proof.
  destruct C02t_hyps as (_ & Ha & Ht & _ & Hok & _ & Hh & _).
  destruct (C02_reader_transparent D0 s0 65%N 1 116%N [43; 13; 88; 13; 121]%N ch_LF [7%N] []
              eq_refl ltac:(apply Nat.ltb_lt; reflexivity) ltac:(apply Nat.leb_le; reflexivity)
              eq_refl eq_refl eq_refl eq_refl eq_refl Ha Ht Hok (or_introl eq_refl) Hh)
    as (c1 & c2 & E & _).
  exists c1, c2. exact E.
Qed.

Example E2Et_read_apply :
  exists calls, let w := nsvc D0 calls (mkw s0 l_read_cr [] []) in
    k_state (k (st w)) = CS_IDLE /\ inq (io w) = [7%N] /\
    output_of (tr w) = [13; 10; 43; 88; 61]%N ++ args0 ++ [13; 10; 13; 10; 79; 75; 13; 10]%N.
Proof.
  assert (H : name_ok (no_cr [43; 13; 120]%N) = true /\
              implicit_hit D0 s0 (upper (no_cr [43; 13; 120]%N)) = false /\
              resolve (upper (no_cr [43; 13; 120]%N)) (enabled D0 s0) (cmds D0) = Some 0 /\
              nth_error (cmds D0) 0 = Some c0 /\ Lemmas_C07e.read_args_text (mem s0) c0 = Some args0 /\
              (length (c_name c0 ++ [ch_EQ] ++ args0) <? length (cbuf s0)) = true)
    by (vm_compute; repeat split; reflexivity).
  destruct H as (Hok & Hh & Hres & Hc & Harg & Hfit). apply Nat.ltb_lt in Hfit.
  destruct (E2E_read_line_t D0 s0 65%N 2 116%N [43; 13; 120]%N 2 [7%N] [] 0 c0 args0
              eq_refl ltac:(apply Nat.ltb_lt; reflexivity) ltac:(apply Nat.leb_le; reflexivity)
              ltac:(apply Nat.leb_le; reflexivity)
              eq_refl eq_refl eq_refl eq_refl eq_refl eq_refl eq_refl eq_refl eq_refl Hok Hh Hres Hc ex_rt Harg Hfit)
    as (calls & A & B & _ & _ & _ & _ & O & _).
  exists calls. cbv zeta. split; [exact A|]. split; [exact B | exact O].
Qed.

(* at+x= args0 CR LF 1 2 3  over the different contents m1: CR LF OK CR LF in 46 calls, the variables hold
   the values of m0 (the string up to its NUL), the fifth slot is untouched *)
Example E2Et_write_ex :
  obs_t (nsvc D0 46 (mkw s1 ([97; 116; 43; 120; 61]%N ++ args0 ++ [13; 10; 1; 2; 3]%N) [] [])) =
    (CS_IDLE, [1; 2; 3]%N, [], [], crlf ++ [79; 75]%N ++ crlf,
     [[254; 255]; [65; 44; 34; 0; 1; 1]; [10; 255]; [200]; [5]]%N, false, (1, 1, 1), false).
Proof. vm_compute. reflexivity. Qed.

Example E2Et_write_apply :
  exists calls, let w := nsvc D0 calls (mkw s1 ([97; 116; 43; 120; 61]%N ++ (args0 ++ [13]%N) ++ [10; 1; 2; 3]%N) [] []) in
    k_state (k (st w)) = CS_IDLE /\ inq (io w) = [1; 2; 3]%N /\ output_of (tr w) = [13; 10; 79; 75; 13; 10]%N.
Proof.
  assert (H : name_ok (no_cr [43; 120]%N) = true /\
              implicit_hit D0 s1 (upper (no_cr [43; 120]%N)) = false /\
              resolve (upper (no_cr [43; 120]%N)) (enabled D0 s1) (cmds D0) = Some 0 /\
              nth_error (cmds D0) 0 = Some c0 /\
              Lemmas_C07e.read_args_text m0 c0 = Some (no_cr (args0 ++ [13]%N)) /\
              (length (no_cr (args0 ++ [13]%N)) <? length (cbuf s1)) = true)
    by (vm_compute; repeat split; reflexivity).
  destruct H as (Hok & Hh & Hres & Hc & Harg & Hfit). apply Nat.ltb_lt in Hfit.
  destruct (E2E_write_line_t D0 s1 97%N 0 116%N [43; 120]%N (args0 ++ [13]%N) [1; 2; 3]%N [] 0 c0 m0
              eq_refl ltac:(apply Nat.ltb_lt; reflexivity) ltac:(apply Nat.leb_le; reflexivity)
              ltac:(apply Nat.leb_le; reflexivity)
              eq_refl eq_refl eq_refl eq_refl eq_refl eq_refl eq_refl eq_refl eq_refl Hok Hh Hres Hc ex_rt Harg
              eq_refl Hfit)
    as (calls & A & B & _ & _ & _ & O & _).
  exists calls. cbv zeta. split; [exact A|]. split; [exact B | exact O].
Qed.

(* implicit write on the table exC02_D of Lemmas_C02.v (command 5 = "+TA", implicit):
   a CR t + CR t A 1 2 3 : found after 44 calls without a terminator (the first command named +TA is
   number 0), 1 2 3 unread, k_cr raised *)
Example C02t_implicit_ex :
  let D := Lemmas_C02.exC02_D in
  let s := Lemmas_C02.exC02_s in
  let w := nsvc D 44 (mkw s [97; 13; 116; 43; 13; 116; 65; 1; 2; 3]%N [] []) in
  implicit_hit D s (removelast (upper (no_cr [43; 13; 116; 65]%N))) = false /\
  implicit_hit D s (upper (no_cr [43; 13; 116; 65]%N)) = true /\
  (k_state (k (st w)), k_cmd (k (st w)), k_type (k (st w)), k_cr (k (st w)), inq (io w)) =
    (CS_COMMAND_FOUND, Some 0, T_WRITE, true, [1; 2; 3]%N).
Proof. vm_compute. repeat split; reflexivity. Qed.
