(* Properties_C07e.v — property C07 at command level: for a command whose variables are all
   read-write and have no callbacks, the automatic READ response is exactly
       name=text1,text2,...,textN          (text_i = Spec.var_text of variable i)
   when that fits the working buffer (ERROR otherwise), and the automatic WRITE of that very
   argument text is accepted field by field, answers OK and leaves in every variable the value it
   had when it was read.  Arbitrary oracles; the handler oracle is never consulted in these steps
   (trace and handler state unchanged).  All proofs are in Lemmas_C07e.v.

   Definitions imported from Lemmas_C07e (repeated here for the reader):

   Definition rt_var_ok (m : list (list N)) (v : var) : Prop :=
     v_access v = RW /\ v_hread v = false /\ v_hwrite v = false /\
     exists data, nth_error m (v_slot v) = Some data /\ length data = v_size v /\
       Forall (fun b => (b < 256)%N) data /\
       (v_type v = VBufStr -> In 0%N data) /\ (v_type v = VBufHex -> 0 < v_size v) /\
       (is_numeric (v_type v) = true -> supported_width (v_size v) = true).
   Definition rt_cmd_ok (m : list (list N)) (c : cmd) : Prop :=
     c_vars c <> [] /\ Forall (rt_var_ok m) (c_vars c) /\ NoDup (map v_slot (c_vars c)) /\
     c_hread c = false /\ c_hwrite c = false /\ c_only_test c = false /\ ~ In 0%N (c_name c).
   Definition read_args_text (m : list (list N)) (c : cmd) : option (list N) :=
     match all_some (map (fun v => match nth_error m (v_slot v) with
                                   | Some d => var_text v d | None => None end) (c_vars c)) with
     | Some ts => Some (join_comma ts) | None => None end.
   Definition same_shape (m m' : list (list N)) : Prop := map (@length N) m = map (@length N) m'.

   (* one cat_service call in CS_FORMAT_READ_ARGS / CS_PARSE_WRITE_ARGS, and the loops *)
   Definition fra_step w := fst (format_read_args D ... ATCMD w).
   Fixpoint fra_run fuel w := match fuel with O => w | S n =>
     if cstate_beq (k_state (k (st w))) CS_FORMAT_READ_ARGS then fra_run n (fra_step w) else w end.
   Definition read_response c w :=
     fra_run (length (c_vars c)) (upd_st (start_processing_format_read_args D ATCMD) w).
   Definition pwa_step w := fst (parse_write_args D ... w).
   Fixpoint pwa_run fuel w := match fuel with O => w | S n =>
     if cstate_beq (k_state (k (st w))) CS_PARSE_WRITE_ARGS then pwa_run n (pwa_step w) else w end.
   Definition write_back c w := pwa_run (length (c_vars c)) w.

   same_value (Lemmas_C07): byte for byte, strings up to and including the first NUL. *)
From Coq Require Import List NArith ZArith Bool Arith.
From CatV Require Import Bytes Defs Codec Spec Fsm TextDefs Lemmas_C07 Lemmas_C07e.
Import ListNotations.
Local Open Scope nat_scope.

Section C07e.
Variable D : desc.
Variables ioS muS hS : Type.
Variable mu_lock : muS -> muS * bool.
Variable mu_unlock : muS -> muS * bool.
Variable h_call : hS -> hreq -> hS * hres.

Local Notation world := (Fsm.world ioS muS hS).
Local Notation st := (Fsm.st ioS muS hS).
Local Notation tr := (Fsm.tr ioS muS hS).
Local Notation hs := (Fsm.hs ioS muS hS).
Local Notation read_response := (Lemmas_C07e.read_response D ioS muS hS mu_lock mu_unlock h_call).
Local Notation write_back := (Lemmas_C07e.write_back D ioS muS hS mu_lock mu_unlock h_call).

(* 1. READ.  From the call that runs start_processing_format_read_args, through one call per
      variable: memory, trace and handler state untouched, no fault, the machine ends in the flush;
      if  name=args  fits (length < buffer size) the buffer text is exactly that and the line is
      followed by OK (CS_AFTER_OK); otherwise ERROR. *)
Theorem C07_read_response : forall (w : world) ci c args,
  g_cmd ATCMD (st w) = Some ci -> cmd_at D ci = Some c -> rt_cmd_ok (mem (st w)) c ->
  fault (st w) = false -> read_args_text (mem (st w)) c = Some args ->
  let txt := c_name c ++ [ch_EQ] ++ args in
  let w' := read_response c w in
  mem (st w') = mem (st w) /\ tr w' = tr w /\ hs w' = hs w /\ fault (st w') = false /\
  k_state (k (st w')) = CS_FLUSH_WAIT /\
  if length txt <? length (cbuf (st w))
  then text_of (cbuf (st w')) = txt /\ k_wafter (k (st w')) = CS_AFTER_OK
  else k_wafter (k (st w')) = CS_AFTER_RESET /\
       (6 <= length (cbuf (st w)) -> text_of (cbuf (st w')) = txt_ERROR).
Proof. exact (Lemmas_C07e.C07_read_response D ioS muS hS mu_lock mu_unlock h_call). Qed.

(* 2. WRITE of that very text.  From CS_PARSE_WRITE_ARGS with the argument text collected in the
      buffer as C06_collect leaves it, for ANY current contents of the same shape: every field is
      accepted, the machine answers OK (the command has no write handler), every variable holds
      the value it had in m, no other slot is touched, no callback. *)
Theorem C07_write_back : forall (w : world) ci c m args,
  rt_cmd_ok m c -> read_args_text m c = Some args -> same_shape m (mem (st w)) ->
  k_state (k (st w)) = CS_PARSE_WRITE_ARGS ->
  g_cmd ATCMD (st w) = Some ci -> cmd_at D ci = Some c ->
  k_position (k (st w)) = 0 -> k_index (k (st w)) = 0 -> k_var (k (st w)) = 0 ->
  firstn (S (length args)) (cbuf (st w)) = args ++ [0%N] -> fault (st w) = false ->
  let w' := write_back c w in
  fault (st w') = false /\ tr w' = tr w /\ hs w' = hs w /\
  k_state (k (st w')) = CS_FLUSH_WAIT /\ k_wafter (k (st w')) = CS_AFTER_RESET /\
  text_of (cbuf (st w')) = txt_OK /\
  (forall v d0, In v (c_vars c) -> nth_error m (v_slot v) = Some d0 ->
     exists d1, nth_error (mem (st w')) (v_slot v) = Some d1 /\ same_value v d1 d0) /\
  (forall sl, ~ In sl (map v_slot (c_vars c)) ->
     nth_error (mem (st w')) sl = nth_error (mem (st w)) sl).
Proof. exact (Lemmas_C07e.C07_write_back D ioS muS hS mu_lock mu_unlock h_call). Qed.

(* 3. End to end.  When the READ of world w fitted, the text it emitted after "name=" is the
      argument text, it is shorter than the buffer (so C06_collect accepts it in a buffer of the
      same size), and feeding it back in any world w2 of the same memory shape restores every
      variable to the value it had in w. *)
Theorem C07_end_to_end : forall (w w2 : world) ci c args,
  g_cmd ATCMD (st w) = Some ci -> cmd_at D ci = Some c -> rt_cmd_ok (mem (st w)) c ->
  fault (st w) = false -> read_args_text (mem (st w)) c = Some args ->
  length (c_name c ++ [ch_EQ] ++ args) < length (cbuf (st w)) ->
  let w1 := read_response c w in
  let echoed := skipn (S (length (c_name c))) (text_of (cbuf (st w1))) in
  echoed = args /\ length echoed < length (cbuf (st w)) /\
  (same_shape (mem (st w)) (mem (st w2)) ->
   k_state (k (st w2)) = CS_PARSE_WRITE_ARGS -> g_cmd ATCMD (st w2) = Some ci ->
   k_position (k (st w2)) = 0 -> k_index (k (st w2)) = 0 -> k_var (k (st w2)) = 0 ->
   firstn (S (length echoed)) (cbuf (st w2)) = echoed ++ [0%N] -> fault (st w2) = false ->
   let w3 := write_back c w2 in
   fault (st w3) = false /\ tr w3 = tr w2 /\ hs w3 = hs w2 /\
   k_state (k (st w3)) = CS_FLUSH_WAIT /\ k_wafter (k (st w3)) = CS_AFTER_RESET /\
   text_of (cbuf (st w3)) = txt_OK /\
   (forall v d0, In v (c_vars c) -> nth_error (mem (st w)) (v_slot v) = Some d0 ->
      exists d1, nth_error (mem (st w3)) (v_slot v) = Some d1 /\ same_value v d1 d0) /\
   (forall sl, ~ In sl (map v_slot (c_vars c)) ->
      nth_error (mem (st w3)) sl = nth_error (mem (st w2)) sl)).
Proof. exact (Lemmas_C07e.C07_end_to_end D ioS muS hS mu_lock mu_unlock h_call). Qed.

End C07e.

Print Assumptions C07_read_response.
Print Assumptions C07_write_back.
Print Assumptions C07_end_to_end.

(* ---------- non-vacuity: a concrete command  +X : int16, string[6], hexbuf[2], uint8 ---------- *)
Module C07e_examples.
Definition v1 := mkVar None VInt 2 RW false false 0.
Definition v2 := mkVar None VBufStr 6 RW false false 1.
Definition v3 := mkVar None VBufHex 2 RW false false 2.
Definition v4 := mkVar None VUint 1 RW false false 3.
Definition c0 := mkCmd [43; 88]%N None false false false false [v1; v2; v3; v4] false false false.
Definition D0 := mkDesc [[c0]] [] 40 (Some 8) 85%N 2 false.
(* -2 ; the string A , dquote NUL 7 7 (comma and quote inside the string) ; 0A FF ; 200 ;
   a fifth slot that no variable uses *)
Definition m0 : list (list N) := [[254; 255]; [65; 44; 34; 0; 7; 7]; [10; 255]; [200]; [9]]%N.
Definition m1 : list (list N) := [[1; 1]; [1; 1; 1; 1; 1; 1]; [1; 1]; [1]; [5]]%N.
(* an oracle that would be visible if it were consulted *)
Definition hc (h : nat) (q : hreq) : nat * hres := (S h, mkHres (-1) None [(0, [0; 0]%N)] []).
Definition lk (u : unit) : unit * bool := (tt, true).
Definition base (buf : list N) (m : list (list N)) : state :=
  setk_cmd (Some 0) (mkState init_cfsm (init_ufsm D0) buf (repeat 85%N 8) m [false] [false] false 0 0 0).
Definition wR (bs : nat) : Fsm.world unit unit nat :=
  mkWorld unit unit nat (base (repeat 85%N bs) m0) tt tt 0 [].
Definition rr (bs : nat) := read_response D0 unit unit nat lk lk hc c0 (wR bs).
Definition show (w : Fsm.world unit unit nat) :=
  (text_of (cbuf (st _ _ _ w)), k_state (k (st _ _ _ w)), k_wafter (k (st _ _ _ w)),
   fault (st _ _ _ w), tr _ _ _ w, hs _ _ _ w).

(* the text  -2 , dquote A , backslash dquote dquote , 0AFF , 200 *)
Definition args0 : list N :=
  [45; 50; 44; 34; 65; 44; 92; 34; 34; 44; 48; 65; 70; 70; 44; 50; 48; 48]%N.

Example ex_hyps : rt_cmd_ok m0 c0 /\ read_args_text m0 c0 = Some args0 /\ same_shape m0 m1.
Proof.
  split; [|split; reflexivity].
  unfold rt_cmd_ok. split; [discriminate|]. split.
  - repeat constructor; try discriminate;
      eexists; (split; [reflexivity|]); (split; [reflexivity|]);
      (split; [repeat constructor|]); repeat split; try discriminate; try reflexivity;
      cbn; auto 10.
  - split; [cbn; repeat constructor; cbn; intuition discriminate|].
    repeat split; try reflexivity. cbn. intuition discriminate.
Qed.

(* the text has 21 characters: a 22-byte buffer is the smallest that fits *)
Example ex_read_fits : show (rr 22)
  = ([43; 88; 61]%N ++ args0, CS_FLUSH_WAIT, CS_AFTER_OK, false, [], 0)
  /\ mem (st _ _ _ (rr 22)) = m0.
Proof. vm_compute. split; reflexivity. Qed.
Example ex_read_too_long : show (rr 21)
  = ([69; 82; 82; 79; 82]%N, CS_FLUSH_WAIT, CS_AFTER_RESET, false, [], 0)
  /\ mem (st _ _ _ (rr 21)) = m0.
Proof. vm_compute. split; reflexivity. Qed.
(* the name alone does not fit *)
Example ex_read_tiny : show (rr 6)
  = ([69; 82; 82; 79; 82]%N, CS_FLUSH_WAIT, CS_AFTER_RESET, false, [], 0).
Proof. vm_compute. reflexivity. Qed.

(* feeding the argument text back over different contents m1 *)
Definition wW (bs : nat) : Fsm.world unit unit nat :=
  mkWorld unit unit nat
    (setk_state CS_PARSE_WRITE_ARGS (base (firstn bs (args0 ++ 0%N :: repeat 85%N bs)) m1)) tt tt 0 [].
Definition ww (bs : nat) := write_back D0 unit unit nat lk lk hc c0 (wW bs).
(* the string is restored up to its NUL (bytes after it keep the old contents), slot 4 untouched *)
Example ex_write_back : show (ww 19)
  = ([79; 75]%N, CS_FLUSH_WAIT, CS_AFTER_RESET, false, [], 0)
  /\ mem (st _ _ _ (ww 19)) = [[254; 255]; [65; 44; 34; 0; 1; 1]; [10; 255]; [200]; [5]]%N.
Proof. vm_compute. split; reflexivity. Qed.

(* the general theorems applied to this instance *)
Example ex_apply_read :
  text_of (cbuf (st _ _ _ (rr 22))) = [43; 88; 61]%N ++ args0.
Proof.
  destruct ex_hyps as (H1 & H2 & _).
  pose proof (C07_read_response D0 unit unit nat lk lk hc (wR 22) 0 c0 args0
                eq_refl eq_refl H1 eq_refl H2) as H.
  cbv zeta in H. destruct H as (_ & _ & _ & _ & _ & H).
  change (length (c_name c0 ++ [ch_EQ] ++ args0) <? length (cbuf (st _ _ _ (wR 22)))) with true in H.
  destruct H as [H _]. exact H.
Qed.

Example ex_apply_write : forall v d0, In v (c_vars c0) -> nth_error m0 (v_slot v) = Some d0 ->
  exists d1, nth_error (mem (st _ _ _ (ww 19))) (v_slot v) = Some d1 /\ same_value v d1 d0.
Proof.
  destruct ex_hyps as (H1 & H2 & H3).
  pose proof (C07_write_back D0 unit unit nat lk lk hc (wW 19) 0 c0 m0 args0
                H1 H2 H3 eq_refl eq_refl eq_refl eq_refl eq_refl eq_refl eq_refl eq_refl) as H.
  cbv zeta in H. destruct H as (_ & _ & _ & _ & _ & _ & H & _). exact H.
Qed.

(* the hypotheses are needed: a hex buffer of size 0 after a comma leaves the response text
   without its terminating NUL (the 85 fill bytes show through) *)
Definition v0 := mkVar None VBufHex 0 RW false false 2.
Definition cz := mkCmd [88]%N None false false false false [v4; v0] false false false.
Definition Dz := mkDesc [[cz]] [] 40 (Some 8) 85%N 2 false.
Example ex_empty_hexbuf :
  let w := read_response Dz unit unit nat lk lk hc cz
             (mkWorld unit unit nat (base (repeat 85%N 8) [[0]; [0]; []; [7]]%N) tt tt 0 []) in
  read_args_text [[0]; [0]; []; [7]]%N cz = Some [55; 44]%N /\
  text_of (cbuf (st _ _ _ w)) = [88; 61; 55; 44; 85; 85; 85; 85]%N.
Proof. vm_compute. split; reflexivity. Qed.
End C07e_examples.
