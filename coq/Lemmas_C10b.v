(* Lemmas_C10b.v — property C10, sequences of ANY length of return codes of read AND test handlers,
   on BOTH machines: one theorem C10_rt_sequence over (rd : bool) (f : fsm), of which the
   command-machine READ statement of Lemmas_C10.v (C10_read_sequence) is an instance; corollaries
   C10_test_sequence, C10_read_sequence_uns, C10_test_sequence_uns and their scripted forms.
   All the work for Properties_C10b.v is here. *)
From Coq Require Import List NArith ZArith Bool Arith Lia.
From CatV Require Import Bytes Defs Codec Spec Fsm Script ResolveDefs TextDefs RespDefs Lemmas_C10.
Import ListNotations.
Local Open Scope nat_scope.

(* ------------------------------------------------------------------ *)
(* 0. frames                                                            *)
(* ------------------------------------------------------------------ *)

(* the event machine's registers, without the fields of its queue that cat_trigger_unsolicited_*
   writes (ring, tail, count) *)
Definition umask (x : ufsm) : ufsm := set_u_ring [] (set_u_tail 0 (set_u_count 0 x)).

(* everything a handler call (its stores into variables and its inner API calls included) leaves
   alone: kframe (command machine except hold_exit, both buffers), the event machine's registers,
   the ghost counters *)
Definition hframe (s s' : state) : Prop :=
  kframe s s' /\ umask (u s') = umask (u s) /\ gS s' = gS s /\ gR s' = gR s /\ gL s' = gL s.

Lemma hframe_refl : forall s, hframe s s.
Proof. intros. split; [apply kframe_refl|repeat split]. Qed.
Lemma hframe_trans : forall a b c, hframe a b -> hframe b c -> hframe a c.
Proof.
  intros a b c (H1 & H2 & H3 & H4 & H5) (G1 & G2 & G3 & G4 & G5).
  split; [eapply kframe_trans; eassumption|]. repeat split; congruence.
Qed.

Lemma apply_poke_hframe : forall s p, hframe s (apply_poke s p).
Proof.
  intros. unfold apply_poke.
  destruct (nth_error (mem s) (fst p)); [|apply hframe_refl].
  destruct (store_prefix l (snd p)); [|apply hframe_refl]. repeat split.
Qed.
Lemma pokes_hframe : forall ps s, hframe s (fold_left apply_poke ps s).
Proof.
  induction ps as [|p ps IH]; intros; cbn [fold_left]; [apply hframe_refl|].
  eapply hframe_trans; [apply apply_poke_hframe|apply IH].
Qed.
Lemma push_hframe : forall D s ci t, hframe s (fst (push_unsolicited_cmd D s ci t)).
Proof.
  intros. unfold push_unsolicited_cmd.
  destruct (ring_full D s); [apply hframe_refl|].
  cbn [fst]. destruct (u_tail (u s) <? length (u_ring (u s))); repeat split.
Qed.
Lemma hold_exit_hframe : forall s z, hframe s (fst (hold_exit s z)).
Proof.
  intros. unfold hold_exit. destruct (negb (k_hold (k s))); cbn [fst]; repeat split.
Qed.

Lemma hframe_u_state : forall s s', hframe s s' -> u_state (u s') = u_state (u s).
Proof. intros s s' (_ & H & _). apply (f_equal u_state) in H. exact H. Qed.
Lemma hframe_u_cmd : forall s s', hframe s s' -> u_cmd (u s') = u_cmd (u s).
Proof. intros s s' (_ & H & _). apply (f_equal u_cmd) in H. exact H. Qed.
Lemma hframe_u_position : forall s s', hframe s s' -> u_position (u s') = u_position (u s).
Proof. intros s s' (_ & H & _). apply (f_equal u_position) in H. exact H. Qed.

Lemma hframe_g_cmd : forall f s s', hframe s s' -> g_cmd f s' = g_cmd f s.
Proof. intros f s s' H. destruct f; [apply kframe_k_cmd, H|apply hframe_u_cmd, H]. Qed.
Lemma hframe_g_buf : forall f s s', hframe s s' -> g_buf f s' = g_buf f s.
Proof. intros f s s' H. destruct f; [apply kframe_cbuf, H|apply kframe_ubuf, H]. Qed.
Lemma hframe_g_pos : forall f s s', hframe s s' -> g_pos f s' = g_pos f s.
Proof. intros f s s' H. destruct f; [apply kframe_k_position, H|apply hframe_u_position, H]. Qed.
Lemma hframe_in_rt_loop : forall rd f s s', hframe s s' -> in_rt_loop rd f s -> in_rt_loop rd f s'.
Proof.
  intros rd f s s' H. destruct f; cbn [in_rt_loop]; intros E.
  - rewrite (kframe_k_state _ _ (proj1 H)). exact E.
  - rewrite (hframe_u_state _ _ H). exact E.
Qed.

(* what a read/test sequence of machine f leaves alone of the OTHER machine.
   f = UNSOL: the command machine is not involved at all, except that HOLD_EXIT codes (and inner
   cat_hold_exit calls) set hold_exit: all its registers but hold_exit, its buffer, and the ghost
   counters of result codes stay.  f = ATCMD: the event machine's registers (its queue may receive
   triggers from the handler) and its buffer stay. *)
Definition xframe (f : fsm) (s s' : state) : Prop :=
  match f with
  | UNSOL => set_k_hold_exit 0%Z (k s') = set_k_hold_exit 0%Z (k s) /\ cbuf s' = cbuf s /\
             gS s' = gS s /\ gR s' = gR s /\ gL s' = gL s
  | ATCMD => umask (u s') = umask (u s) /\ ubuf s' = ubuf s
  end.

Lemma xframe_refl : forall f s, xframe f s s.
Proof. destruct f; repeat split. Qed.
Lemma xframe_trans : forall f a b c, xframe f a b -> xframe f b c -> xframe f a c.
Proof.
  destruct f; cbn [xframe]; intros a b c.
  - intros (H1 & H2) (G1 & G2). split; congruence.
  - intros (H1 & H2 & H3 & H4 & H5) (G1 & G2 & G3 & G4 & G5). repeat split; congruence.
Qed.
Lemma xframe_of_hframe : forall f s s', hframe s s' -> xframe f s s'.
Proof.
  intros f s s' ((K1 & K2 & K3) & H2 & H3 & H4 & H5). destruct f; cbn [xframe]; repeat split; assumption.
Qed.
(* functions that keep the frame *)
Definition xkeeps (f : fsm) (g : state -> state) : Prop := forall s, xframe f s (g s).
Lemma xframe_step : forall f g s s', xkeeps f g -> xframe f s s' -> xframe f s (g s').
Proof. intros f g s s' Hg H. eapply xframe_trans; [exact H|apply Hg]. Qed.

Lemma xk_sg : forall f B p, xkeeps f (fun s => setg_pos f p (setg_buf f B s)).
Proof. intros f B p s. destruct f; repeat split. Qed.
Lemma xk_ewo : forall f, xkeeps f (end_with_ok f).
Proof. intros f s. destruct f; repeat split. Qed.
Lemma xk_ewe : forall f, xkeeps f (end_with_error f).
Proof. intros f s. destruct f; repeat split. Qed.
Lemma xk_sfa : forall f a b, xkeeps f (start_flush_after f a b).
Proof. intros f a b s. destruct f; repeat split. Qed.
Lemma xk_sls : forall f rd, xkeeps f (set_loop_state f rd).
Proof. intros f rd s. destruct f; repeat split. Qed.
Lemma xk_hold_exit : forall f z, xkeeps f (fun s => fst (hold_exit s z)).
Proof. intros f z s. apply xframe_of_hframe, hold_exit_hframe. Qed.
Lemma xk_hold_c : xkeeps ATCMD enable_hold_state.
Proof. intros s. repeat split. Qed.
Lemma xk_list_c : forall D, xkeeps ATCMD (start_print_cmd_list D).
Proof. intros D s. unfold start_print_cmd_list. destruct (ncmds D =? 0); repeat split. Qed.

(* ------------------------------------------------------------------ *)
(* 1. the edit of a read/test handler, for either machine               *)
(* ------------------------------------------------------------------ *)

Lemma sg_id : forall f s, setg_pos f (g_pos f s) (setg_buf f (g_buf f s) s) = s.
Proof. intros f s. destruct s as [kk uu cb ub m dc dg fl a b c]. destruct f, kk, uu; reflexivity. Qed.

(* the edit replaces buffer and position of machine f and nothing else; the new buffer has the old
   length and holds the text edit_text describes *)
Lemma apply_edit_shape : forall f e s,
  exists B p, apply_edit f e s = setg_pos f p (setg_buf f B s) /\ length B = g_bsz f s /\
    text_of B = edit_text (g_bsz f s) (text_of (g_buf f s)) e.
Proof.
  intros f e s.
  assert (Id : exists B p, s = setg_pos f p (setg_buf f B s) /\ length B = g_bsz f s /\
                           text_of B = text_of (g_buf f s)).
  { exists (g_buf f s), (g_pos f s). rewrite sg_id. repeat split. }
  destruct e as [t|]; [|exact Id].
  unfold apply_edit, edit_text.
  destruct (length t <? g_bsz f s) eqn:E; [|exact Id].
  apply Nat.ltb_lt in E. unfold g_bsz in *.
  unfold get_cur. rewrite cur_store_list_fits
    by (cbn [cu_buf]; rewrite app_length; cbn [length]; lia).
  unfold cur_set_pos, put_cur. cbn [cu_buf cu_pos cu_fault].
  cbn [firstn app Nat.add].
  eexists. eexists. split; [reflexivity|]. split.
  - rewrite !app_length, skipn_length. cbn [length]. lia.
  - rewrite <- app_assoc. cbn [app]. apply text_of_app_zero.
Qed.

Lemma g_cmd_sg : forall f B p s, g_cmd f (setg_pos f p (setg_buf f B s)) = g_cmd f s.
Proof. destruct f; reflexivity. Qed.
Lemma in_rt_loop_sg : forall rd f B p s,
  in_rt_loop rd f (setg_pos f p (setg_buf f B s)) = in_rt_loop rd f s.
Proof. destruct f; reflexivity. Qed.

(* after-states of an emission: OK, re-format for read, re-format for test *)
Inductive aft := AF_OK | AF_READ | AF_TEST.
Definition aft_c (a : aft) : cstate :=
  match a with AF_OK => CS_AFTER_OK | AF_READ => CS_AFTER_FMT_READ | AF_TEST => CS_AFTER_FMT_TEST end.
Definition aft_u (a : aft) : ustate :=
  match a with AF_OK => US_AFTER_OK | AF_READ => US_AFTER_FMT_READ | AF_TEST => US_AFTER_FMT_TEST end.

(* machine f has started a flush whose continuation is not the reset after a result code *)
Definition flush_started (f : fsm) (s : state) : bool :=
  match f with
  | ATCMD => cstate_beq (k_state (k s)) CS_FLUSH_WAIT && negb (cstate_beq (k_wafter (k s)) CS_AFTER_RESET)
  | UNSOL => ustate_beq (u_state (u s)) US_FLUSH_WAIT && negb (ustate_beq (u_wafter (u s)) US_AFTER_RESET)
  end.
(* the flush taken as completed: the machine is in the continuation state (what process_io_write /
   unsolicited_process_io_write do at the terminating NUL of the closing newline) *)
Definition flush_done (f : fsm) (s : state) : state :=
  match f with
  | ATCMD => setk_state (k_wafter (k s)) s
  | UNSOL => setu_state (u_wafter (u s)) s
  end.

Lemma flush_started_sfa : forall f a s,
  flush_started f (start_flush_after f (aft_c a) (aft_u a) s) = true.
Proof. destruct f, a; reflexivity. Qed.
Lemma g_buf_sfa : forall f a b s, g_buf f (start_flush_after f a b s) = g_buf f s.
Proof. destruct f; reflexivity. Qed.
Lemma g_cmd_fd_sfa : forall f a b s, g_cmd f (flush_done f (start_flush_after f a b s)) = g_cmd f s.
Proof. destruct f; reflexivity. Qed.
Lemma g_buf_fd_sfa : forall f a b s, g_buf f (flush_done f (start_flush_after f a b s)) = g_buf f s.
Proof. destruct f; reflexivity. Qed.
Lemma xk_fd : forall f, xkeeps f (flush_done f).
Proof. intros f s. destruct f; repeat split. Qed.
Lemma flush_started_ewo : forall f s, flush_started f (end_with_ok f s) = false.
Proof. destruct f; reflexivity. Qed.
Lemma flush_started_ewe : forall f s, flush_started f (end_with_error f s) = false.
Proof. destruct f; reflexivity. Qed.
Lemma flush_started_loop : forall rd f s, in_rt_loop rd f s -> flush_started f s = false.
Proof. intros rd f s H. destruct f, rd; cbn [in_rt_loop] in H; unfold flush_started; rewrite H; reflexivity. Qed.
Lemma flush_started_list : forall D s, flush_started ATCMD (start_print_cmd_list D s) = false.
Proof. intros. unfold start_print_cmd_list. destruct (ncmds D =? 0); reflexivity. Qed.

(* the requests of the read/test loops *)
Definition rtq (rd : bool) (f : fsm) (ci : nat) (s : state) : hreq :=
  (if rd then HRead else HTest) f ci (firstn (S (g_pos f s)) (g_buf f s)) (g_pos f s) (g_bsz f s).
Definition is_rt (rd : bool) (f : fsm) (ci : nat) (q : hreq) : Prop :=
  match q with
  | HRead f' ci' _ _ _ => rd = true /\ f' = f /\ ci' = ci
  | HTest f' ci' _ _ _ => rd = false /\ f' = f /\ ci' = ci
  | _ => False
  end.
Lemma is_rt_rtq : forall rd f ci s, is_rt rd f ci (rtq rd f ci s).
Proof. intros. unfold rtq. destruct rd; repeat split. Qed.

(* the table for read and test handlers: range; which codes emit does not depend on kind or machine *)
Lemma spec_rt_range : forall (rd : bool) f code,
  let a := spec_action (if rd then K_READ else K_TEST) f code in
  a = A_OK \/ a = A_EMIT_OK \/ a = A_EMIT_AGAIN \/ a = A_REFORMAT_AGAIN \/ a = A_HOLD \/
  a = A_RELEASE_OK \/ a = A_RELEASE_ERROR \/ a = A_ERROR \/ (a = A_LIST /\ rd = false /\ f = ATCMD).
Proof.
  intros. assert (Hs : a =
     if (code =? RC_OK)%Z then A_OK
     else if (code =? RC_DATA_OK)%Z then A_EMIT_OK
     else if (code =? RC_DATA_NEXT)%Z then A_EMIT_AGAIN
     else if (code =? RC_NEXT)%Z then A_REFORMAT_AGAIN
     else if (code =? RC_HOLD)%Z then A_HOLD
     else if (code =? RC_HOLD_EXIT_OK)%Z then A_RELEASE_OK
     else if (code =? RC_HOLD_EXIT_ERROR)%Z then A_RELEASE_ERROR
     else if (code =? RC_PRINT_CMD_LIST_OK)%Z then
       match (if rd then K_READ else K_TEST), f with
       | K_TEST, ATCMD => A_LIST | K_TEST, UNSOL => A_OK | _, _ => A_ERROR end
     else A_ERROR) by (unfold a; destruct rd; reflexivity).
  rewrite Hs. clear Hs a.
  destruct (code =? RC_OK)%Z; [auto|].
  destruct (code =? RC_DATA_OK)%Z; [auto|].
  destruct (code =? RC_DATA_NEXT)%Z; [auto|].
  destruct (code =? RC_NEXT)%Z; [auto 6|].
  destruct (code =? RC_HOLD)%Z; [auto 6|].
  destruct (code =? RC_HOLD_EXIT_OK)%Z; [auto 8|].
  destruct (code =? RC_HOLD_EXIT_ERROR)%Z; [auto 8|].
  destruct (code =? RC_PRINT_CMD_LIST_OK)%Z; [|auto 10].
  destruct rd, f; auto 12.
Qed.

Lemma spec_rt_hold : forall (rd : bool) f code,
  spec_action (if rd then K_READ else K_TEST) f code = A_HOLD -> code = RC_HOLD.
Proof.
  intros rd f code.
  assert (Hs : spec_action (if rd then K_READ else K_TEST) f code =
     if (code =? RC_OK)%Z then A_OK
     else if (code =? RC_DATA_OK)%Z then A_EMIT_OK
     else if (code =? RC_DATA_NEXT)%Z then A_EMIT_AGAIN
     else if (code =? RC_NEXT)%Z then A_REFORMAT_AGAIN
     else if (code =? RC_HOLD)%Z then A_HOLD
     else if (code =? RC_HOLD_EXIT_OK)%Z then A_RELEASE_OK
     else if (code =? RC_HOLD_EXIT_ERROR)%Z then A_RELEASE_ERROR
     else if (code =? RC_PRINT_CMD_LIST_OK)%Z then
       match (if rd then K_READ else K_TEST), f with
       | K_TEST, ATCMD => A_LIST | K_TEST, UNSOL => A_OK | _, _ => A_ERROR end
     else A_ERROR) by (destruct rd; reflexivity).
  rewrite Hs. clear Hs.
  destruct (code =? RC_OK)%Z; [discriminate|].
  destruct (code =? RC_DATA_OK)%Z; [discriminate|].
  destruct (code =? RC_DATA_NEXT)%Z; [discriminate|].
  destruct (code =? RC_NEXT)%Z; [discriminate|].
  destruct (code =? RC_HOLD)%Z eqn:E; [intros _; apply Z.eqb_eq; exact E|].
  destruct (code =? RC_HOLD_EXIT_OK)%Z; [discriminate|].
  destruct (code =? RC_HOLD_EXIT_ERROR)%Z; [discriminate|].
  destruct (code =? RC_PRINT_CMD_LIST_OK)%Z; [|discriminate].
  destruct rd, f; discriminate.
Qed.

(* unit_of / units_of of Lemmas_C10.v are written with the READ row of the command machine; the
   same value results from the row of either kind on either machine *)
Theorem C10_unit_of_any_row : forall (rd : bool) f bsz old r,
  unit_of bsz old r =
  match spec_action (if rd then K_READ else K_TEST) f (r_code r) with
  | A_EMIT_OK | A_EMIT_AGAIN => [edit_text bsz old (r_edit r)]
  | _ => []
  end.
Proof.
  intros. unfold unit_of.
  assert (Hs : forall (rd0 : bool) f0, spec_action (if rd0 then K_READ else K_TEST) f0 (r_code r) =
     if (r_code r =? RC_OK)%Z then A_OK
     else if (r_code r =? RC_DATA_OK)%Z then A_EMIT_OK
     else if (r_code r =? RC_DATA_NEXT)%Z then A_EMIT_AGAIN
     else if (r_code r =? RC_NEXT)%Z then A_REFORMAT_AGAIN
     else if (r_code r =? RC_HOLD)%Z then A_HOLD
     else if (r_code r =? RC_HOLD_EXIT_OK)%Z then A_RELEASE_OK
     else if (r_code r =? RC_HOLD_EXIT_ERROR)%Z then A_RELEASE_ERROR
     else if (r_code r =? RC_PRINT_CMD_LIST_OK)%Z then
       match (if rd0 then K_READ else K_TEST), f0 with
       | K_TEST, ATCMD => A_LIST | K_TEST, UNSOL => A_OK | _, _ => A_ERROR end
     else A_ERROR) by (intros rd0 f0; destruct rd0; reflexivity).
  rewrite (Hs rd f). rewrite (Hs true ATCMD : spec_action K_READ ATCMD (r_code r) = _).
  destruct (r_code r =? RC_OK)%Z; [reflexivity|].
  destruct (r_code r =? RC_DATA_OK)%Z; [reflexivity|].
  destruct (r_code r =? RC_DATA_NEXT)%Z; [reflexivity|].
  destruct (r_code r =? RC_NEXT)%Z; [reflexivity|].
  destruct (r_code r =? RC_HOLD)%Z; [reflexivity|].
  destruct (r_code r =? RC_HOLD_EXIT_OK)%Z; [reflexivity|].
  destruct (r_code r =? RC_HOLD_EXIT_ERROR)%Z; [reflexivity|].
  destruct (r_code r =? RC_PRINT_CMD_LIST_OK)%Z; [|reflexivity].
  destruct rd, f; reflexivity.
Qed.

Section C10b.
Variable D : desc.
Variables ioS muS hS : Type.
Variable io_read : ioS -> ioS * option N.
Variable io_write : ioS -> N -> ioS * bool.
Variable mu_lock : muS -> muS * bool.
Variable mu_unlock : muS -> muS * bool.
Variable h_call : hS -> hreq -> hS * hres.

Local Notation world := (Fsm.world ioS muS hS).
Local Notation st := (Fsm.st ioS muS hS).
Local Notation io := (Fsm.io ioS muS hS).
Local Notation mu := (Fsm.mu ioS muS hS).
Local Notation hs := (Fsm.hs ioS muS hS).
Local Notation tr := (Fsm.tr ioS muS hS).
Local Notation set_st := (Fsm.set_st ioS muS hS).
Local Notation set_mu := (Fsm.set_mu ioS muS hS).
Local Notation set_hs := (Fsm.set_hs ioS muS hS).
Local Notation logw := (Fsm.logw ioS muS hS).
Local Notation upd_st := (Fsm.upd_st ioS muS hS).
Local Notation bracket := (Fsm.bracket D ioS muS hS mu_lock mu_unlock).
Local Notation apply_icall := (Fsm.apply_icall D ioS muS hS mu_lock mu_unlock).
Local Notation call_h := (Fsm.call_h D ioS muS hS mu_lock mu_unlock h_call).
Local Notation process_rt_loop := (Fsm.process_rt_loop D ioS muS hS mu_lock mu_unlock h_call).
Local Notation unsolicited_events_service :=
  (Fsm.unsolicited_events_service D ioS muS hS io_write mu_lock mu_unlock h_call).
Local Notation cmd_service :=
  (Fsm.cmd_service D ioS muS hS io_read io_write mu_lock mu_unlock h_call).
Local Notation cstep := (Lemmas_C10.cstep D ioS muS hS io_read io_write mu_lock mu_unlock h_call).
Local Notation h_returns_any := (Lemmas_C10.h_returns_any hS h_call).
Local Notation rd_run := (Lemmas_C10.rd_run D ioS muS hS io_read io_write mu_lock mu_unlock h_call).

(* ------------------------------------------------------------------ *)
(* 2. one handler call keeps hframe                                     *)
(* ------------------------------------------------------------------ *)

Lemma bracket_st : forall (body : world -> world * Z) (P : state -> state -> Prop),
  (forall s, P s s) -> (forall w, P (st w) (st (fst (body w)))) ->
  forall w, P (st w) (st (fst (bracket w body))).
Proof.
  intros body P Prefl Hb w. unfold Fsm.bracket.
  destruct (d_mutex D); [|apply Hb].
  destruct (mu_lock (mu w)) as [m1 ok]. destruct ok; cbn [negb].
  - set (w1 := logw (ELock true) (set_mu m1 w)).
    specialize (Hb w1). destruct (body w1) as [w2 s]. cbn [fst] in Hb.
    destruct (mu_unlock (mu w2)) as [m2 ok2].
    destruct ok2; cbn [negb fst Fsm.logw Fsm.set_mu Fsm.st]; exact Hb.
  - cbn [fst Fsm.logw Fsm.set_mu Fsm.st]. apply Prefl.
Qed.

Lemma apply_icall_hframe : forall w c, hframe (st w) (st (apply_icall w c)).
Proof.
  intros w c. unfold Fsm.apply_icall. destruct c as [ci t|status].
  - unfold Fsm.api_trigger.
    match goal with |- context [Fsm.bracket _ _ _ _ _ _ ?ww ?bb] =>
      pose proof (bracket_st bb hframe hframe_refl) as B end.
    cbv beta in B.
    assert (Hb : forall w0 : world,
      hframe (st w0) (st (fst (let (s', r) := push_unsolicited_cmd D (st w0) ci t in (set_st s' w0, r))))).
    { intros w0. pose proof (push_hframe D (st w0) ci t) as K.
      destruct (push_unsolicited_cmd D (st w0) ci t) as [s' r]. exact K. }
    specialize (B Hb w). destruct (bracket w _) as [w' r]. exact B.
  - unfold Fsm.api_hold_exit.
    match goal with |- context [Fsm.bracket _ _ _ _ _ _ ?ww ?bb] =>
      pose proof (bracket_st bb hframe hframe_refl) as B end.
    cbv beta in B.
    assert (Hb : forall w0 : world,
      hframe (st w0) (st (fst (let (s', r) := hold_exit (st w0) status in (set_st s' w0, r))))).
    { intros w0. pose proof (hold_exit_hframe (st w0) status) as K.
      destruct (hold_exit (st w0) status) as [s' r]. exact K. }
    specialize (B Hb w). destruct (bracket w _) as [w' r]. exact B.
Qed.

Lemma icalls_hframe : forall cs w, hframe (st w) (st (fold_left apply_icall cs w)).
Proof.
  induction cs as [|c cs IH]; intros w; cbn [fold_left]; [apply hframe_refl|].
  eapply hframe_trans; [apply apply_icall_hframe|apply IH].
Qed.

Theorem C10_call_h_hframe : forall w q, hframe (st w) (st (fst (call_h w q))).
Proof.
  intros. unfold Fsm.call_h. destruct (h_call (hs w) q) as [h' r]. cbn [fst].
  eapply hframe_trans; [|apply icalls_hframe].
  cbn [Fsm.upd_st Fsm.set_st Fsm.logw Fsm.set_hs Fsm.st]. apply pokes_hframe.
Qed.

(* ------------------------------------------------------------------ *)
(* 3. macro-steps of the read/test loop of machine f                    *)
(* ------------------------------------------------------------------ *)

(* one service step of machine f *)
Definition gstep (f : fsm) (w : world) : world :=
  match f with
  | ATCMD => fst (cmd_service w)
  | UNSOL => fst (unsolicited_events_service w)
  end.
(* take a started emission of a unit as completed: collect the text of the buffer, continue in the
   after-state with one service step (the flush engine itself is C11) *)
Definition rt_settle (f : fsm) (w : world) : world * list (list N) :=
  if flush_started f (st w)
  then (gstep f (upd_st (flush_done f) w), [text_of (g_buf f (st w))])
  else (w, []).
(* one handler call and its automatic consequences *)
Definition rt_macro (f : fsm) (w : world) : world * list (list N) := rt_settle f (gstep f w).
Fixpoint rt_run (f : fsm) (n : nat) (w : world) : world * list (list N) :=
  match n with
  | O => (w, [])
  | S n' => let (w1, u1) := rt_macro f w in let (w2, u2) := rt_run f n' w1 in (w2, u1 ++ u2)
  end.

(* on the command machine these are the definitions of Lemmas_C10.v *)
Lemma rt_macro_c : forall w, rt_macro ATCMD w = rd_macro D ioS muS hS io_read io_write mu_lock mu_unlock h_call w.
Proof. reflexivity. Qed.
Theorem C10_rt_run_c : forall n w, rt_run ATCMD n w = rd_run n w.
Proof.
  induction n as [|n IH]; intros w; [reflexivity|].
  cbn [rt_run Lemmas_C10.rd_run]. rewrite rt_macro_c.
  destruct (rd_macro D ioS muS hS io_read io_write mu_lock mu_unlock h_call w) as [w1 u1].
  rewrite IH. reflexivity.
Qed.

Lemma rt_run_S_fst : forall f n w, fst (rt_run f (S n) w) = fst (rt_run f n (fst (rt_macro f w))).
Proof.
  intros. cbn [rt_run]. destruct (rt_macro f w) as [w1 u1]. cbn [fst].
  destruct (rt_run f n w1). reflexivity.
Qed.
Lemma rt_run_S_snd : forall f n w,
  snd (rt_run f (S n) w) = snd (rt_macro f w) ++ snd (rt_run f n (fst (rt_macro f w))).
Proof.
  intros. cbn [rt_run]. destruct (rt_macro f w) as [w1 u1]. cbn [fst snd].
  destruct (rt_run f n w1). reflexivity.
Qed.

(* what the continuation states do *)
Definition aft_fn (f : fsm) (a : aft) : state -> state :=
  match a with
  | AF_OK => end_with_ok f
  | AF_READ => start_processing_format_read_args D f
  | AF_TEST => start_processing_format_test_args D f
  end.

Lemma gstep_cont : forall f a w,
  match f with
  | ATCMD => k_state (k (st w)) = aft_c a
  | UNSOL => u_state (u (st w)) = aft_u a
  end -> gstep f w = upd_st (aft_fn f a) w.
Proof.
  intros f a w H. unfold gstep.
  destruct f; [unfold Fsm.cmd_service|unfold Fsm.unsolicited_events_service]; rewrite H;
    destruct a; reflexivity.
Qed.

Lemma settle_none : forall f w, flush_started f (st w) = false -> rt_settle f w = (w, []).
Proof. intros f w H. unfold rt_settle. rewrite H. reflexivity. Qed.

Lemma settle_sfa : forall f a w se, st w = start_flush_after f (aft_c a) (aft_u a) se ->
  st (fst (rt_settle f w)) = aft_fn f a (flush_done f (start_flush_after f (aft_c a) (aft_u a) se)) /\
  hs (fst (rt_settle f w)) = hs w /\ tr (fst (rt_settle f w)) = tr w /\
  snd (rt_settle f w) = [text_of (g_buf f se)].
Proof.
  intros f a w se E. unfold rt_settle. rewrite E, flush_started_sfa. cbn [fst snd].
  rewrite (gstep_cont f a).
  - cbn [Fsm.upd_st Fsm.set_st Fsm.st Fsm.hs Fsm.tr]. rewrite E, g_buf_sfa. repeat split.
  - cbn [Fsm.upd_st Fsm.set_st Fsm.st]. rewrite E. destruct f, a; reflexivity.
Qed.

(* the final state for a terminal action (A_LIST only arises for a test handler of the command
   machine) *)
Definition rt_final (rd : bool) (f : fsm) (a : action) (se : state) : state :=
  match a with
  | A_OK => end_with_ok f se
  | A_ERROR => end_with_error f se
  | A_EMIT_OK => end_with_ok f (flush_done f (start_flush_after f CS_AFTER_OK US_AFTER_OK se))
  | A_HOLD => enable_hold_state se
  | A_RELEASE_OK => end_with_ok f (fst (hold_exit se ST_OK))
  | A_RELEASE_ERROR => end_with_error f (fst (hold_exit se ST_ERROR))
  | A_LIST => if rd then se else match f with ATCMD => start_print_cmd_list D se | UNSOL => se end
  | _ => se
  end.

Section RtSeq.
Variable rd : bool.
Variable f : fsm.
Variable ci : nat.
Variable c : cmd.
Hypothesis Hat : cmd_at D ci = Some c.
Hypothesis Hcmd : if rd then c_hread c = true /\ vars_access_possible c RO = false
                  else c_htest c = true /\ c_vars c = [] /\ c_descr c = None.
Hypothesis Hnz : forall x, In x (c_name c) -> x <> 0%N.

Let hdr := c_name c ++ [ch_EQ].
Let kd := if rd then K_READ else K_TEST.

Definition reformat (s : state) : state :=
  if rd then start_processing_format_read_args D f s else start_processing_format_test_args D f s.

(* re-formatting: "<name>=" from offset 0, back in the loop state *)
Lemma reformat_shape : forall s, g_cmd f s = Some ci -> length (c_name c) + 1 < g_bsz f s ->
  exists B, length B = g_bsz f s /\ firstn (S (length hdr)) B = hdr ++ [0%N] /\ text_of B = hdr /\
    reformat s = set_loop_state f rd (setg_pos f (length hdr) (setg_buf f B s)).
Proof.
  intros s Hc Hfit.
  assert (Lh : length hdr = length (c_name c) + 1) by (unfold hdr; rewrite app_length; reflexivity).
  unfold reformat. destruct rd.
  - destruct Hcmd as [Hhr Hnv].
    destruct (C10_reformat_read_fresh D f s ci c Hc Hat Hfit) as (B & B1 & B2 & B3 & B4 & E).
    cbv zeta in E. rewrite Hnv, Hhr in E. cbn [negb] in E.
    exists B. rewrite Lh. repeat split; try assumption.
    + rewrite (firstn_S_nth B _ 0%N B3), B2. reflexivity.
    + apply B4. exact Hnz.
  - destruct Hcmd as (Hht & Hv & Hd).
    destruct (C10_reformat_test_fresh D f s ci c Hc Hat Hfit) as (B & B1 & B2 & B3 & B4 & E).
    cbv zeta in E. rewrite Hv in E.
    exists B. rewrite Lh. repeat split; try assumption.
    + rewrite (firstn_S_nth B _ 0%N B3), B2. reflexivity.
    + apply B4. exact Hnz.
    + rewrite E. unfold print_response_test, cmd_of.
      rewrite g_cmd_sg, Hc, Hat, Hd. cbn [negb]. rewrite Hht. reflexivity.
Qed.

Lemma loop_sg_props : forall B p s,
  let s' := set_loop_state f rd (setg_pos f p (setg_buf f B s)) in
  in_rt_loop rd f s' /\ g_cmd f s' = g_cmd f s /\ g_buf f s' = B /\ g_pos f s' = p /\ xframe f s s'.
Proof. intros. subst s'. destruct f, rd; repeat split. Qed.

(* the loop state at a handler call *)
Definition RL (w : world) : Prop :=
  in_rt_loop rd f (st w) /\ g_cmd f (st w) = Some ci /\ length (c_name c) + 1 < g_bsz f (st w).
(* ... with a freshly formatted buffer *)
Definition fresh (w : world) : Prop :=
  g_pos f (st w) = length hdr /\ firstn (S (length hdr)) (g_buf f (st w)) = hdr ++ [0%N] /\
  text_of (g_buf f (st w)) = hdr.

Lemma gstep_rt : forall w, RL w ->
  let q := rtq rd f ci (st w) in
  let w1 := fst (call_h w q) in let r := snd (call_h w q) in
  let se := apply_edit f (r_edit r) (st w1) in
  hs (gstep f w) = hs w1 /\ tr (gstep f w) = tr w1 /\
  st (gstep f w) = match spec_action kd f (r_code r) with
            | A_OK => end_with_ok f se
            | A_ERROR => end_with_error f se
            | A_EMIT_OK => start_flush_after f CS_AFTER_OK US_AFTER_OK se
            | A_EMIT_AGAIN =>
                if rd then start_flush_after f CS_AFTER_FMT_READ US_AFTER_FMT_READ se
                else start_flush_after f CS_AFTER_FMT_TEST US_AFTER_FMT_TEST se
            | A_REFORMAT_AGAIN => reformat se
            | A_HOLD => enable_hold_state se
            | A_RELEASE_OK => end_with_ok f (fst (hold_exit se ST_OK))
            | A_RELEASE_ERROR => end_with_error f (fst (hold_exit se ST_ERROR))
            | A_LIST => start_print_cmd_list D se
            | A_AGAIN => se
            end.
Proof.
  intros w (HL & Hc & _). cbv zeta.
  destruct (C10_rt_code D ioS muS hS mu_lock mu_unlock h_call rd f w ci Hc HL)
    as (w' & E & H1 & _ & _ & H4 & H5).
  cbv zeta in E, H1, H4, H5.
  assert (G : gstep f w = fst (process_rt_loop rd f w)).
  { unfold gstep. destruct f, rd; cbn [in_rt_loop] in HL;
      [unfold Fsm.cmd_service|unfold Fsm.cmd_service|unfold Fsm.unsolicited_events_service
      |unfold Fsm.unsolicited_events_service]; rewrite HL; reflexivity. }
  rewrite G, E. cbn [fst]. unfold rtq, g_bsz, kd, reformat. repeat split; assumption.
Qed.

Lemma se_facts : forall w, RL w ->
  let q := rtq rd f ci (st w) in
  let w1 := fst (call_h w q) in let r := snd (call_h w q) in
  let se := apply_edit f (r_edit r) (st w1) in
  g_cmd f se = Some ci /\ g_bsz f se = g_bsz f (st w) /\
  text_of (g_buf f se) = edit_text (g_bsz f (st w)) (text_of (g_buf f (st w))) (r_edit r) /\
  xframe f (st w) se.
Proof.
  intros w (HL & Hc & Hfit). cbv zeta.
  pose proof (C10_call_h_hframe w (rtq rd f ci (st w))) as Hk.
  set (w1 := fst (call_h w (rtq rd f ci (st w)))) in *.
  set (r := snd (call_h w (rtq rd f ci (st w)))).
  destruct (apply_edit_shape f (r_edit r) (st w1)) as (B & p & E1 & E2 & E3).
  unfold g_bsz in *. rewrite (hframe_g_buf f _ _ Hk) in E2, E3.
  rewrite E1. repeat split.
  - rewrite g_cmd_sg, (hframe_g_cmd f _ _ Hk). exact Hc.
  - rewrite g_buf_setg. exact E2.
  - rewrite g_buf_setg. exact E3.
  - apply (xframe_step f (fun s => setg_pos f p (setg_buf f B s))); [apply xk_sg|].
    apply xframe_of_hframe. exact Hk.
Qed.

Lemma rt_macro_nonterminal : forall w, RL w ->
  let q := rtq rd f ci (st w) in
  let w1 := fst (call_h w q) in let r := snd (call_h w q) in
  terminal (spec_action kd f (r_code r)) = false ->
  let w' := fst (rt_macro f w) in
  RL w' /\ fresh w' /\ g_bsz f (st w') = g_bsz f (st w) /\ hs w' = hs w1 /\
  xframe f (st w) (st w') /\
  calls_of (tr w') = (q, r_code r) :: calls_of (tr w) /\
  snd (rt_macro f w) = unit_of (g_bsz f (st w)) (text_of (g_buf f (st w))) r.
Proof.
  intros w HRL. cbv zeta. intros Hnt.
  destruct (gstep_rt w HRL) as (S1 & S2 & S3). cbv zeta in S1, S2, S3.
  destruct (se_facts w HRL) as (F1 & F2 & F3 & F4). cbv zeta in F1, F2, F3, F4.
  pose proof (call_h_calls D ioS muS hS mu_lock mu_unlock h_call w (rtq rd f ci (st w))) as Hcalls.
  destruct HRL as (HL & Hc & Hfit).
  set (w1 := fst (call_h w (rtq rd f ci (st w)))) in *.
  set (r := snd (call_h w (rtq rd f ci (st w)))) in *.
  set (se := apply_edit f (r_edit r) (st w1)) in *.
  rewrite (C10_unit_of_any_row rd f). fold kd.
  unfold rt_macro.
  (* the state from which the buffer is re-formatted, and what the settling adds *)
  assert (G : exists s0, g_cmd f s0 = Some ci /\ g_bsz f s0 = g_bsz f (st w) /\ xframe f (st w) s0 /\
            st (fst (rt_settle f (gstep f w))) = reformat s0 /\
            hs (fst (rt_settle f (gstep f w))) = hs w1 /\
            tr (fst (rt_settle f (gstep f w))) = tr w1 /\
            snd (rt_settle f (gstep f w)) =
              match spec_action kd f (r_code r) with
              | A_EMIT_OK | A_EMIT_AGAIN =>
                  [edit_text (g_bsz f (st w)) (text_of (g_buf f (st w))) (r_edit r)]
              | _ => []
              end).
  { destruct (spec_rt_range rd f (r_code r)) as [E|[E|[E|[E|[E|[E|[E|[E|[E _]]]]]]]]]; cbv zeta in E;
      fold kd in E; rewrite E in *; try discriminate Hnt.
    - (* DATA_NEXT: emit, then re-format *)
      set (a := if rd then AF_READ else AF_TEST).
      assert (S3' : st (gstep f w) = start_flush_after f (aft_c a) (aft_u a) se)
        by (rewrite S3; unfold a; destruct rd; reflexivity).
      destruct (settle_sfa f a (gstep f w) se S3') as (T1 & T2 & T3 & T4).
      exists (flush_done f (start_flush_after f (aft_c a) (aft_u a) se)).
      repeat split.
      + rewrite g_cmd_fd_sfa. exact F1.
      + unfold g_bsz. rewrite g_buf_fd_sfa. exact F2.
      + apply (xframe_step f (flush_done f)); [apply xk_fd|].
        apply (xframe_step f (start_flush_after f (aft_c a) (aft_u a))); [apply xk_sfa|]. exact F4.
      + rewrite T1. unfold a, reformat. destruct rd; reflexivity.
      + rewrite T2. exact S1.
      + rewrite T3. exact S2.
      + rewrite T4, F3. reflexivity.
    - (* NEXT: re-format at once *)
      destruct (reformat_shape se F1) as (B & B1 & B2 & B3 & B4);
        [unfold g_bsz in *; rewrite F2; exact Hfit|].
      destruct (loop_sg_props B (length hdr) se) as (L1 & _). cbv zeta in L1.
      rewrite settle_none by (rewrite S3, B4; apply (flush_started_loop rd); exact L1).
      exists se. cbn [fst snd]. repeat split; assumption. }
  destruct G as (s0 & G1 & G2 & G3 & G4 & G5 & G6 & G7).
  destruct (reformat_shape s0 G1) as (B & B1 & B2 & B3 & B4); [rewrite G2; exact Hfit|].
  destruct (loop_sg_props B (length hdr) s0) as (L1 & L2 & L3 & L4 & L5). cbv zeta in L1, L2, L3, L4, L5.
  rewrite <- B4, <- G4 in L1, L2, L3, L4, L5.
  split; [|split; [|split; [|split; [|split; [|split]]]]].
  - unfold RL. split; [exact L1|]. split; [rewrite L2; exact G1|].
    unfold g_bsz in *. rewrite L3, B1, G2. exact Hfit.
  - unfold fresh. rewrite L3, L4. repeat split; assumption.
  - unfold g_bsz in *. rewrite L3, B1. exact G2.
  - exact G5.
  - eapply xframe_trans; [exact G3|exact L5].
  - rewrite G6. exact Hcalls.
  - exact G7.
Qed.

Lemma rt_macro_terminal : forall w, RL w ->
  let q := rtq rd f ci (st w) in
  let w1 := fst (call_h w q) in let r := snd (call_h w q) in
  let se := apply_edit f (r_edit r) (st w1) in
  terminal (spec_action kd f (r_code r)) = true ->
  (f = UNSOL -> spec_action kd f (r_code r) <> A_HOLD) ->
  let w' := fst (rt_macro f w) in
  st w' = rt_final rd f (spec_action kd f (r_code r)) se /\
  hs w' = hs w1 /\ xframe f (st w) (st w') /\
  calls_of (tr w') = (q, r_code r) :: calls_of (tr w) /\
  snd (rt_macro f w) = unit_of (g_bsz f (st w)) (text_of (g_buf f (st w))) r.
Proof.
  intros w HRL. cbv zeta. intros Ht Hnh.
  destruct (gstep_rt w HRL) as (S1 & S2 & S3). cbv zeta in S1, S2, S3.
  destruct (se_facts w HRL) as (F1 & F2 & F3 & F4). cbv zeta in F1, F2, F3, F4.
  pose proof (call_h_calls D ioS muS hS mu_lock mu_unlock h_call w (rtq rd f ci (st w))) as Hcalls.
  destruct HRL as (HL & Hc & Hfit).
  set (w1 := fst (call_h w (rtq rd f ci (st w)))) in *.
  set (r := snd (call_h w (rtq rd f ci (st w)))) in *.
  set (se := apply_edit f (r_edit r) (st w1)) in *.
  rewrite (C10_unit_of_any_row rd f). fold kd.
  unfold rt_macro.
  (* the cases without emission *)
  assert (NS : forall g : state -> state, st (gstep f w) = g se ->
     flush_started f (g se) = false -> xkeeps f g ->
     st (fst (rt_settle f (gstep f w))) = g se /\ hs (fst (rt_settle f (gstep f w))) = hs w1 /\
     xframe f (st w) (st (fst (rt_settle f (gstep f w)))) /\
     calls_of (tr (fst (rt_settle f (gstep f w)))) =
       (rtq rd f ci (st w), r_code r) :: calls_of (tr w) /\
     snd (rt_settle f (gstep f w)) = []).
  { intros g Eg Hfs Hx. rewrite settle_none by (rewrite Eg; exact Hfs). cbn [fst snd].
    repeat split; try assumption.
    - rewrite Eg. apply (xframe_step f g); assumption.
    - rewrite S2. exact Hcalls. }
  destruct (spec_rt_range rd f (r_code r)) as [E|[E|[E|[E|[E|[E|[E|[E|[E [Erd Ef]]]]]]]]]]; cbv zeta in E;
    fold kd in E; rewrite E in *; try discriminate Ht; cbn [rt_final].
  - (* OK *)
    apply (NS (end_with_ok f) S3); [apply flush_started_ewo|apply xk_ewo].
  - (* DATA_OK: emit, then finish *)
    destruct (settle_sfa f AF_OK (gstep f w) se S3) as (T1 & T2 & T3 & T4).
    repeat split.
    + exact T1.
    + rewrite T2. exact S1.
    + rewrite T1. cbn [aft_fn aft_c aft_u].
      apply (xframe_step f (end_with_ok f)); [apply xk_ewo|].
      apply (xframe_step f (flush_done f)); [apply xk_fd|].
      apply (xframe_step f (start_flush_after f CS_AFTER_OK US_AFTER_OK)); [apply xk_sfa|]. exact F4.
    + rewrite T3, S2. exact Hcalls.
    + rewrite T4, F3. reflexivity.
  - (* HOLD: command machine only *)
    destruct f; [|exfalso; apply Hnh; reflexivity].
    apply (NS enable_hold_state S3); [reflexivity|apply xk_hold_c].
  - (* HOLD_EXIT_OK *)
    apply (NS (fun s => end_with_ok f (fst (hold_exit s ST_OK))) S3); [apply flush_started_ewo|].
    intros s. apply (xframe_step f (end_with_ok f)); [apply xk_ewo|]. apply (xk_hold_exit f ST_OK).
  - (* HOLD_EXIT_ERROR *)
    apply (NS (fun s => end_with_error f (fst (hold_exit s ST_ERROR))) S3); [apply flush_started_ewe|].
    intros s. apply (xframe_step f (end_with_error f)); [apply xk_ewe|]. apply (xk_hold_exit f ST_ERROR).
  - (* ERROR, also every unlisted integer *)
    apply (NS (end_with_error f) S3); [apply flush_started_ewe|apply xk_ewe].
  - (* PRINT_CMD_LIST_OK from a test handler of the command machine *)
    assert (Eg : (if rd then se else match f with ATCMD => start_print_cmd_list D se | UNSOL => se end)
                 = start_print_cmd_list D se) by (rewrite Erd, Ef; reflexivity).
    rewrite Eg.
    apply (NS (start_print_cmd_list D) S3); rewrite Ef; [apply flush_started_list|apply xk_list_c].
Qed.

Lemma rtq_fresh : forall w, fresh w ->
  rtq rd f ci (st w) =
  (if rd then HRead else HTest) f ci (hdr ++ [0%N]) (length hdr) (g_bsz f (st w)).
Proof. intros w (P1 & P2 & _). unfold rtq. rewrite P1, P2. reflexivity. Qed.

Lemma rt_sequence_ind : forall rs rn w,
  RL w ->
  h_returns_any (is_rt rd f ci) (hs w) (rs ++ [rn]) ->
  (forall r, In r rs -> terminal (spec_action kd f (r_code r)) = false) ->
  terminal (spec_action kd f (r_code rn)) = true ->
  (f = UNSOL -> spec_action kd f (r_code rn) <> A_HOLD) ->
  (forall m, m <= length rs ->
     RL (fst (rt_run f m w)) /\ xframe f (st w) (st (fst (rt_run f m w)))) /\
  snd (call_h (fst (rt_run f (length rs) w))
              (rtq rd f ci (st (fst (rt_run f (length rs) w))))) = rn /\
  st (fst (rt_run f (S (length rs)) w)) =
    rt_final rd f (spec_action kd f (r_code rn))
      (apply_edit f (r_edit rn)
         (st (fst (call_h (fst (rt_run f (length rs) w))
                          (rtq rd f ci (st (fst (rt_run f (length rs) w)))))))) /\
  xframe f (st w) (st (fst (rt_run f (S (length rs)) w))) /\
  calls_of (tr (fst (rt_run f (S (length rs)) w))) =
    rev (combine (rtq rd f ci (st w) ::
                  repeat ((if rd then HRead else HTest) f ci (hdr ++ [0%N]) (length hdr)
                            (g_bsz f (st w))) (length rs))
                 (map r_code (rs ++ [rn]))) ++ calls_of (tr w) /\
  snd (rt_run f (S (length rs)) w) =
    units_of (g_bsz f (st w)) (text_of (g_buf f (st w))) hdr (rs ++ [rn]).
Proof.
  induction rs as [|r rs IH]; intros rn w HRL Hret Hnt Ht Hnh.
  - cbn [length app] in *.
    cbn [Lemmas_C10.h_returns_any] in Hret.
    destruct (Hret (rtq rd f ci (st w)) (is_rt_rtq rd f ci (st w))) as [Hr _].
    assert (Hsnd : snd (call_h w (rtq rd f ci (st w))) = rn)
      by (rewrite (call_h_res D ioS muS hS mu_lock mu_unlock h_call); exact Hr).
    pose proof (rt_macro_terminal w HRL) as T. cbv zeta in T. rewrite Hsnd in T.
    destruct (T Ht Hnh) as (T1 & T2 & T3 & T4 & T5).
    rewrite rt_run_S_fst, rt_run_S_snd. cbn [rt_run fst snd]. rewrite app_nil_r.
    split; [|split; [|split; [|split; [|split]]]]; try assumption.
    + intros m Hm. assert (m = 0) by lia. subst m. cbn [rt_run fst].
      split; [exact HRL|apply xframe_refl].
    + cbn [units_of]. rewrite app_nil_r. exact T5.
  - cbn [app Lemmas_C10.h_returns_any] in Hret.
    destruct (Hret (rtq rd f ci (st w)) (is_rt_rtq rd f ci (st w))) as [Hr Hret'].
    assert (Hsnd : snd (call_h w (rtq rd f ci (st w))) = r)
      by (rewrite (call_h_res D ioS muS hS mu_lock mu_unlock h_call); exact Hr).
    assert (Hnr : terminal (spec_action kd f (r_code r)) = false)
      by (apply Hnt; left; reflexivity).
    pose proof (rt_macro_nonterminal w HRL) as T. cbv zeta in T. rewrite Hsnd in T.
    destruct (T Hnr) as (T1 & T2 & T3 & T4 & Tx & T5 & T6).
    set (w' := fst (rt_macro f w)) in *.
    assert (Hret'' : h_returns_any (is_rt rd f ci) (hs w') (rs ++ [rn])).
    { rewrite T4, (call_h_hs D ioS muS hS mu_lock mu_unlock h_call). exact Hret'. }
    assert (Hnt' : forall r0, In r0 rs -> terminal (spec_action kd f (r_code r0)) = false)
      by (intros r0 Hin; apply Hnt; right; exact Hin).
    destruct (IH rn w' T1 Hret'' Hnt' Ht Hnh) as (I0 & I2 & I3 & Ix & I4 & I5).
    cbn [length].
    rewrite (rt_run_S_fst f (S (length rs)) w), (rt_run_S_fst f (length rs) w),
            (rt_run_S_snd f (S (length rs)) w).
    fold w'.
    split; [|split; [exact I2|split; [exact I3|split; [|split]]]].
    + intros m Hm. destruct m as [|m].
      * cbn [rt_run fst]. split; [exact HRL|apply xframe_refl].
      * rewrite rt_run_S_fst. fold w'. destruct (I0 m ltac:(lia)) as [J1 J2].
        split; [exact J1|]. eapply xframe_trans; [exact Tx|exact J2].
    + eapply xframe_trans; [exact Tx|exact Ix].
    + rewrite I4, T5. rewrite (rtq_fresh w' T2), T3.
      cbn [app map repeat combine rev]. rewrite <- !app_assoc. reflexivity.
    + rewrite I5, T6, T3. destruct T2 as (_ & _ & T2). rewrite T2.
      cbn [app units_of]. reflexivity.
Qed.

End RtSeq.

(* ------------------------------------------------------------------ *)
(* 4. the sequence theorem for read and test handlers of both machines  *)
(* ------------------------------------------------------------------ *)

Theorem C10_rt_sequence : forall (rd : bool) (f : fsm) rs rn w ci c,
  in_rt_loop rd f (st w) -> g_cmd f (st w) = Some ci -> cmd_at D ci = Some c ->
  (if rd then c_hread c = true /\ vars_access_possible c RO = false
   else c_htest c = true /\ c_vars c = [] /\ c_descr c = None) ->
  length (c_name c) + 1 < g_bsz f (st w) -> (forall x, In x (c_name c) -> x <> 0%N) ->
  let kd := if rd then K_READ else K_TEST in
  h_returns_any (is_rt rd f ci) (hs w) (rs ++ [rn]) ->
  (forall r, In r rs -> terminal (spec_action kd f (r_code r)) = false) ->
  terminal (spec_action kd f (r_code rn)) = true ->
  (f = UNSOL -> r_code rn <> RC_HOLD) ->
  let n := length rs in
  let hdr := c_name c ++ [ch_EQ] in
  let wn := fst (rt_run f n w) in
  let qn := rtq rd f ci (st wn) in
  let se := apply_edit f (r_edit rn) (st (fst (call_h wn qn))) in
  (forall m, m <= n ->
     in_rt_loop rd f (st (fst (rt_run f m w))) /\ xframe f (st w) (st (fst (rt_run f m w)))) /\
  snd (call_h wn qn) = rn /\
  st (fst (rt_run f (S n) w)) =
    match spec_action kd f (r_code rn) with
    | A_OK => end_with_ok f se
    | A_ERROR => end_with_error f se
    | A_EMIT_OK => end_with_ok f (flush_done f (start_flush_after f CS_AFTER_OK US_AFTER_OK se))
    | A_HOLD => enable_hold_state se
    | A_RELEASE_OK => end_with_ok f (fst (hold_exit se ST_OK))
    | A_RELEASE_ERROR => end_with_error f (fst (hold_exit se ST_ERROR))
    | A_LIST => if rd then se else match f with ATCMD => start_print_cmd_list D se | UNSOL => se end
    | _ => se
    end /\
  xframe f (st w) (st (fst (rt_run f (S n) w))) /\
  calls_of (tr (fst (rt_run f (S n) w))) =
    rev (combine (rtq rd f ci (st w) ::
                  repeat ((if rd then HRead else HTest) f ci (hdr ++ [0%N]) (length hdr)
                            (g_bsz f (st w))) n)
                 (map r_code (rs ++ [rn]))) ++ calls_of (tr w) /\
  snd (rt_run f (S n) w) = units_of (g_bsz f (st w)) (text_of (g_buf f (st w))) hdr (rs ++ [rn]).
Proof.
  intros rd f rs rn w ci c HL Hc Hat Hcmd Hfit Hnz kd Hret Hnt Ht Hnh. cbv zeta.
  assert (HRL : RL rd f ci c w) by (repeat split; assumption).
  assert (Hnh' : f = UNSOL -> spec_action kd f (r_code rn) <> A_HOLD).
  { intros Ef E. apply (Hnh Ef). exact (spec_rt_hold rd f _ E). }
  destruct (rt_sequence_ind rd f ci c Hat Hcmd Hnz rs rn w HRL Hret Hnt Ht Hnh')
    as (I0 & I2 & I3 & Ix & I4 & I5).
  split; [|split; [exact I2|split; [exact I3|split; [exact Ix|split; [exact I4|exact I5]]]]].
  intros m Hm. destruct (I0 m Hm) as [J1 J2]. split; [apply J1|exact J2].
Qed.

(* --- nothing was lost: the command-machine READ statement of Lemmas_C10.v as an instance --- *)
Theorem C10_read_sequence_from_rt : forall rs rn w ci c,
  k_state (k (st w)) = CS_READ_LOOP -> k_cmd (k (st w)) = Some ci -> cmd_at D ci = Some c ->
  c_hread c = true -> vars_access_possible c RO = false ->
  length (c_name c) + 1 < asz (st w) -> (forall x, In x (c_name c) -> x <> 0%N) ->
  h_returns_any (is_hread ci) (hs w) (rs ++ [rn]) ->
  (forall r, In r rs -> terminal (spec_action K_READ ATCMD (r_code r)) = false) ->
  terminal (spec_action K_READ ATCMD (r_code rn)) = true ->
  let n := length rs in
  let hdr := c_name c ++ [ch_EQ] in
  let wn := fst (rd_run n w) in
  let qn := rq ci (st wn) in
  let se := apply_edit ATCMD (r_edit rn) (st (fst (call_h wn qn))) in
  k_state (k (st wn)) = CS_READ_LOOP /\
  snd (call_h wn qn) = rn /\
  st (fst (rd_run (S n) w)) =
    match spec_action K_READ ATCMD (r_code rn) with
    | A_OK => ack_ok se
    | A_ERROR => ack_error se
    | A_EMIT_OK => ack_ok (setk_state CS_AFTER_OK (start_flush_c CS_AFTER_OK se))
    | A_HOLD => enable_hold_state se
    | A_RELEASE_OK => ack_ok (fst (hold_exit se ST_OK))
    | A_RELEASE_ERROR => ack_error (fst (hold_exit se ST_ERROR))
    | _ => se
    end /\
  calls_of (tr (fst (rd_run (S n) w))) =
    rev (combine (rq ci (st w) ::
                  repeat (HRead ATCMD ci (hdr ++ [0%N]) (length hdr) (asz (st w))) n)
                 (map r_code (rs ++ [rn]))) ++ calls_of (tr w) /\
  snd (rd_run (S n) w) = units_of (asz (st w)) (text_of (cbuf (st w))) hdr (rs ++ [rn]).
Proof.
  intros rs rn w ci c HL Hc Hat Hhr Hnv Hfit Hnz Hret Hnt Ht.
  assert (Hret' : h_returns_any (is_rt true ATCMD ci) (hs w) (rs ++ [rn])).
  { apply (h_returns_any_weaken hS h_call (is_rt true ATCMD ci) (is_hread ci)); [|exact Hret].
    intros q Hq. destruct q; try contradiction; cbn [is_rt] in Hq.
    - destruct Hq as (_ & Ef & Eci). subst. reflexivity.
    - destruct Hq as (Hq & _). discriminate Hq. }
  pose proof (C10_rt_sequence true ATCMD rs rn w ci c HL Hc Hat (conj Hhr Hnv) Hfit Hnz
                Hret' Hnt Ht (fun E => ltac:(discriminate E))) as H.
  assert (Eq : forall s, rtq true ATCMD ci s = rq ci s) by reflexivity.
  assert (Efd : forall s, flush_done ATCMD (start_flush_after ATCMD CS_AFTER_OK US_AFTER_OK s) =
                          setk_state CS_AFTER_OK (start_flush_c CS_AFTER_OK s)) by reflexivity.
  cbv zeta in H. rewrite !C10_rt_run_c, !Eq in H.
  destruct H as (I0 & I2 & I3 & _ & I4 & I5). cbv zeta.
  split; [rewrite <- C10_rt_run_c; exact (proj1 (I0 (length rs) (le_n _)))|].
  split; [exact I2|].
  split; [rewrite I3, Efd; destruct (spec_action K_READ ATCMD (r_code rn)); reflexivity|].
  split; [exact I4|exact I5].
Qed.

(* --- 1. TEST handler, command machine --- *)
Theorem C10_test_sequence : forall rs rn w ci c,
  k_state (k (st w)) = CS_TEST_LOOP -> k_cmd (k (st w)) = Some ci -> cmd_at D ci = Some c ->
  c_htest c = true -> c_vars c = [] -> c_descr c = None ->
  length (c_name c) + 1 < asz (st w) -> (forall x, In x (c_name c) -> x <> 0%N) ->
  h_returns_any (is_rt false ATCMD ci) (hs w) (rs ++ [rn]) ->
  (forall r, In r rs -> terminal (spec_action K_TEST ATCMD (r_code r)) = false) ->
  terminal (spec_action K_TEST ATCMD (r_code rn)) = true ->
  let n := length rs in
  let hdr := c_name c ++ [ch_EQ] in
  let wn := fst (rt_run ATCMD n w) in
  let qn := HTest ATCMD ci (firstn (S (k_position (k (st wn)))) (cbuf (st wn)))
                  (k_position (k (st wn))) (asz (st wn)) in
  let se := apply_edit ATCMD (r_edit rn) (st (fst (call_h wn qn))) in
  (forall m, m <= n -> k_state (k (st (fst (rt_run ATCMD m w)))) = CS_TEST_LOOP) /\
  snd (call_h wn qn) = rn /\
  st (fst (rt_run ATCMD (S n) w)) =
    match spec_action K_TEST ATCMD (r_code rn) with
    | A_OK => ack_ok se
    | A_ERROR => ack_error se
    | A_EMIT_OK => ack_ok (setk_state CS_AFTER_OK (start_flush_c CS_AFTER_OK se))
    | A_HOLD => enable_hold_state se
    | A_RELEASE_OK => ack_ok (fst (hold_exit se ST_OK))
    | A_RELEASE_ERROR => ack_error (fst (hold_exit se ST_ERROR))
    | A_LIST => start_print_cmd_list D se
    | _ => se
    end /\
  calls_of (tr (fst (rt_run ATCMD (S n) w))) =
    rev (combine (HTest ATCMD ci (firstn (S (k_position (k (st w)))) (cbuf (st w)))
                        (k_position (k (st w))) (asz (st w)) ::
                  repeat (HTest ATCMD ci (hdr ++ [0%N]) (length hdr) (asz (st w))) n)
                 (map r_code (rs ++ [rn]))) ++ calls_of (tr w) /\
  snd (rt_run ATCMD (S n) w) = units_of (asz (st w)) (text_of (cbuf (st w))) hdr (rs ++ [rn]).
Proof.
  intros rs rn w ci c HL Hc Hat Hht Hv Hd Hfit Hnz Hret Hnt Ht.
  pose proof (C10_rt_sequence false ATCMD rs rn w ci c HL Hc Hat (conj Hht (conj Hv Hd)) Hfit Hnz
                Hret Hnt Ht (fun E => ltac:(discriminate E))) as H.
  assert (Eq : forall s, rtq false ATCMD ci s =
            HTest ATCMD ci (firstn (S (k_position (k s))) (cbuf s)) (k_position (k s)) (asz s))
    by reflexivity.
  assert (Efd : forall s, flush_done ATCMD (start_flush_after ATCMD CS_AFTER_OK US_AFTER_OK s) =
                          setk_state CS_AFTER_OK (start_flush_c CS_AFTER_OK s)) by reflexivity.
  cbv zeta in H. rewrite !Eq in H.
  destruct H as (I0 & I2 & I3 & _ & I4 & I5). cbv zeta.
  split; [intros m Hm; exact (proj1 (I0 m Hm))|].
  split; [exact I2|].
  split; [rewrite I3, Efd; destruct (spec_action K_TEST ATCMD (r_code rn)); reflexivity|].
  split; [exact I4|exact I5].
Qed.

(* --- 2. READ handler, event machine: no result code, the command machine is not involved --- *)
Theorem C10_read_sequence_uns : forall rs rn w ci c,
  u_state (u (st w)) = US_READ_LOOP -> u_cmd (u (st w)) = Some ci -> cmd_at D ci = Some c ->
  c_hread c = true -> vars_access_possible c RO = false ->
  length (c_name c) + 1 < usz (st w) -> (forall x, In x (c_name c) -> x <> 0%N) ->
  h_returns_any (is_rt true UNSOL ci) (hs w) (rs ++ [rn]) ->
  (forall r, In r rs -> terminal (spec_action K_READ UNSOL (r_code r)) = false) ->
  terminal (spec_action K_READ UNSOL (r_code rn)) = true ->
  r_code rn <> RC_HOLD ->
  let n := length rs in
  let hdr := c_name c ++ [ch_EQ] in
  let wn := fst (rt_run UNSOL n w) in
  let qn := HRead UNSOL ci (firstn (S (u_position (u (st wn)))) (ubuf (st wn)))
                  (u_position (u (st wn))) (usz (st wn)) in
  let se := apply_edit UNSOL (r_edit rn) (st (fst (call_h wn qn))) in
  (forall m, m <= n -> u_state (u (st (fst (rt_run UNSOL m w)))) = US_READ_LOOP /\
                       xframe UNSOL (st w) (st (fst (rt_run UNSOL m w)))) /\
  snd (call_h wn qn) = rn /\
  st (fst (rt_run UNSOL (S n) w)) =
    match spec_action K_READ UNSOL (r_code rn) with
    | A_OK | A_ERROR => unsolicited_reset_state se
    | A_EMIT_OK => unsolicited_reset_state (setu_state US_AFTER_OK (start_flush_u US_AFTER_OK se))
    | A_RELEASE_OK => unsolicited_reset_state (fst (hold_exit se ST_OK))
    | A_RELEASE_ERROR => unsolicited_reset_state (fst (hold_exit se ST_ERROR))
    | _ => se
    end /\
  xframe UNSOL (st w) (st (fst (rt_run UNSOL (S n) w))) /\
  calls_of (tr (fst (rt_run UNSOL (S n) w))) =
    rev (combine (HRead UNSOL ci (firstn (S (u_position (u (st w)))) (ubuf (st w)))
                        (u_position (u (st w))) (usz (st w)) ::
                  repeat (HRead UNSOL ci (hdr ++ [0%N]) (length hdr) (usz (st w))) n)
                 (map r_code (rs ++ [rn]))) ++ calls_of (tr w) /\
  snd (rt_run UNSOL (S n) w) = units_of (usz (st w)) (text_of (ubuf (st w))) hdr (rs ++ [rn]).
Proof.
  intros rs rn w ci c HL Hc Hat Hhr Hnv Hfit Hnz Hret Hnt Ht Hnh.
  pose proof (C10_rt_sequence true UNSOL rs rn w ci c HL Hc Hat (conj Hhr Hnv) Hfit Hnz
                Hret Hnt Ht (fun _ => Hnh)) as H.
  assert (Eq : forall s, rtq true UNSOL ci s =
            HRead UNSOL ci (firstn (S (u_position (u s))) (ubuf s)) (u_position (u s)) (usz s))
    by reflexivity.
  assert (Efd : forall s, flush_done UNSOL (start_flush_after UNSOL CS_AFTER_OK US_AFTER_OK s) =
                          setu_state US_AFTER_OK (start_flush_u US_AFTER_OK s)) by reflexivity.
  cbv zeta in H. rewrite !Eq in H.
  destruct H as (I0 & I2 & I3 & Ix & I4 & I5). cbv zeta.
  split; [exact I0|]. split; [exact I2|]. split; [|split; [exact Ix|split; [exact I4|exact I5]]].
  rewrite I3, Efd.
  destruct (spec_action K_READ UNSOL (r_code rn)) eqn:E; try reflexivity.
  exfalso. apply Hnh. exact (spec_rt_hold true UNSOL _ E).
Qed.

(* --- 3. TEST handler, event machine: PRINT_CMD_LIST_OK finishes silently (it is A_OK in the table) --- *)
Theorem C10_test_sequence_uns : forall rs rn w ci c,
  u_state (u (st w)) = US_TEST_LOOP -> u_cmd (u (st w)) = Some ci -> cmd_at D ci = Some c ->
  c_htest c = true -> c_vars c = [] -> c_descr c = None ->
  length (c_name c) + 1 < usz (st w) -> (forall x, In x (c_name c) -> x <> 0%N) ->
  h_returns_any (is_rt false UNSOL ci) (hs w) (rs ++ [rn]) ->
  (forall r, In r rs -> terminal (spec_action K_TEST UNSOL (r_code r)) = false) ->
  terminal (spec_action K_TEST UNSOL (r_code rn)) = true ->
  r_code rn <> RC_HOLD ->
  let n := length rs in
  let hdr := c_name c ++ [ch_EQ] in
  let wn := fst (rt_run UNSOL n w) in
  let qn := HTest UNSOL ci (firstn (S (u_position (u (st wn)))) (ubuf (st wn)))
                  (u_position (u (st wn))) (usz (st wn)) in
  let se := apply_edit UNSOL (r_edit rn) (st (fst (call_h wn qn))) in
  (forall m, m <= n -> u_state (u (st (fst (rt_run UNSOL m w)))) = US_TEST_LOOP /\
                       xframe UNSOL (st w) (st (fst (rt_run UNSOL m w)))) /\
  snd (call_h wn qn) = rn /\
  st (fst (rt_run UNSOL (S n) w)) =
    match spec_action K_TEST UNSOL (r_code rn) with
    | A_OK | A_ERROR => unsolicited_reset_state se
    | A_EMIT_OK => unsolicited_reset_state (setu_state US_AFTER_OK (start_flush_u US_AFTER_OK se))
    | A_RELEASE_OK => unsolicited_reset_state (fst (hold_exit se ST_OK))
    | A_RELEASE_ERROR => unsolicited_reset_state (fst (hold_exit se ST_ERROR))
    | _ => se
    end /\
  xframe UNSOL (st w) (st (fst (rt_run UNSOL (S n) w))) /\
  calls_of (tr (fst (rt_run UNSOL (S n) w))) =
    rev (combine (HTest UNSOL ci (firstn (S (u_position (u (st w)))) (ubuf (st w)))
                        (u_position (u (st w))) (usz (st w)) ::
                  repeat (HTest UNSOL ci (hdr ++ [0%N]) (length hdr) (usz (st w))) n)
                 (map r_code (rs ++ [rn]))) ++ calls_of (tr w) /\
  snd (rt_run UNSOL (S n) w) = units_of (usz (st w)) (text_of (ubuf (st w))) hdr (rs ++ [rn]).
Proof.
  intros rs rn w ci c HL Hc Hat Hht Hv Hd Hfit Hnz Hret Hnt Ht Hnh.
  pose proof (C10_rt_sequence false UNSOL rs rn w ci c HL Hc Hat (conj Hht (conj Hv Hd)) Hfit Hnz
                Hret Hnt Ht (fun _ => Hnh)) as H.
  assert (Eq : forall s, rtq false UNSOL ci s =
            HTest UNSOL ci (firstn (S (u_position (u s))) (ubuf s)) (u_position (u s)) (usz s))
    by reflexivity.
  assert (Efd : forall s, flush_done UNSOL (start_flush_after UNSOL CS_AFTER_OK US_AFTER_OK s) =
                          setu_state US_AFTER_OK (start_flush_u US_AFTER_OK s)) by reflexivity.
  cbv zeta in H. rewrite !Eq in H.
  destruct H as (I0 & I2 & I3 & Ix & I4 & I5). cbv zeta.
  split; [exact I0|]. split; [exact I2|]. split; [|split; [exact Ix|split; [exact I4|exact I5]]].
  rewrite I3, Efd.
  destruct (spec_action K_TEST UNSOL (r_code rn)) eqn:E; try reflexivity.
  exfalso. apply Hnh. exact (spec_rt_hold false UNSOL _ E).
Qed.

(* D2 as a fact of the table: PRINT_CMD_LIST_OK from an event-side test handler is A_OK; and the
   event machine never starts a result code: its finishing function does not touch gS *)
Theorem C10_uns_list_is_ok : spec_action K_TEST UNSOL RC_PRINT_CMD_LIST_OK = A_OK /\
  terminal (spec_action K_TEST UNSOL RC_PRINT_CMD_LIST_OK) = true /\
  forall s, gS (unsolicited_reset_state s) = gS s /\ k (unsolicited_reset_state s) = k s /\
            cbuf (unsolicited_reset_state s) = cbuf s /\ ubuf (unsolicited_reset_state s) = ubuf s /\
            u_state (u (unsolicited_reset_state s)) = US_IDLE /\ u_cmd (u (unsolicited_reset_state s)) = None.
Proof. repeat split. Qed.

End C10b.

(* ------------------------------------------------------------------ *)
(* 5. the same on the scripted handler environment of Script.v          *)
(*    (script kinds: 1 read handler, 3 test handler; one script per     *)
(*    command, whichever machine calls)                                 *)
(* ------------------------------------------------------------------ *)

Lemma is_rt_key : forall (rd : bool) f ci q, is_rt rd f ci q ->
  key_of q = ((if rd then 1 else 3), ci, 0).
Proof.
  intros rd f ci q H. destruct q; try contradiction; cbn [is_rt] in H;
    destruct H as (Hrd & _ & Hci); subst; reflexivity.
Qed.

Lemma scripted_rt_returns : forall (rd : bool) f ci rs rn rest (h : shs),
  script_of h ((if rd then 1 else 3), ci, 0) = rs ++ rn :: rest ->
  h_returns_any shs s_call (is_rt rd f ci) h (rs ++ [rn]).
Proof.
  intros rd f ci rs rn rest h Hs.
  apply (h_returns_any_weaken shs s_call (is_rt rd f ci)
           (fun q0 => key_of q0 = ((if rd then 1 else 3), ci, 0))).
  - intros q Hq. exact (is_rt_key rd f ci q Hq).
  - apply (scripted_returns _ (rs ++ [rn]) rest). rewrite <- app_assoc. exact Hs.
Qed.

Section Scripted.
Variable D : desc.
Local Notation st := (Fsm.st sio smu shs).
Local Notation hs := (Fsm.hs sio smu shs).
Local Notation tr := (Fsm.tr sio smu shs).
Local Notation call_h := (Fsm.call_h D sio smu shs s_lock s_unlock s_call).
Local Notation rt_run := (rt_run D sio smu shs s_read s_write s_lock s_unlock s_call).

Theorem C10_rt_sequence_scripted : forall (rd : bool) (f : fsm) rs rn rest (w : sworld) ci c,
  in_rt_loop rd f (st w) -> g_cmd f (st w) = Some ci -> cmd_at D ci = Some c ->
  (if rd then c_hread c = true /\ vars_access_possible c RO = false
   else c_htest c = true /\ c_vars c = [] /\ c_descr c = None) ->
  length (c_name c) + 1 < g_bsz f (st w) -> (forall x, In x (c_name c) -> x <> 0%N) ->
  let kd := if rd then K_READ else K_TEST in
  script_of (hs w) ((if rd then 1 else 3), ci, 0) = rs ++ rn :: rest ->
  (forall r, In r rs -> terminal (spec_action kd f (r_code r)) = false) ->
  terminal (spec_action kd f (r_code rn)) = true ->
  (f = UNSOL -> r_code rn <> RC_HOLD) ->
  let n := length rs in
  let hdr := c_name c ++ [ch_EQ] in
  let wn := fst (rt_run f n w) in
  let qn := rtq rd f ci (st wn) in
  let se := apply_edit f (r_edit rn) (st (fst (call_h wn qn))) in
  (forall m, m <= n ->
     in_rt_loop rd f (st (fst (rt_run f m w))) /\ xframe f (st w) (st (fst (rt_run f m w)))) /\
  snd (call_h wn qn) = rn /\
  st (fst (rt_run f (S n) w)) =
    match spec_action kd f (r_code rn) with
    | A_OK => end_with_ok f se
    | A_ERROR => end_with_error f se
    | A_EMIT_OK => end_with_ok f (flush_done f (start_flush_after f CS_AFTER_OK US_AFTER_OK se))
    | A_HOLD => enable_hold_state se
    | A_RELEASE_OK => end_with_ok f (fst (hold_exit se ST_OK))
    | A_RELEASE_ERROR => end_with_error f (fst (hold_exit se ST_ERROR))
    | A_LIST => if rd then se else match f with ATCMD => start_print_cmd_list D se | UNSOL => se end
    | _ => se
    end /\
  xframe f (st w) (st (fst (rt_run f (S n) w))) /\
  calls_of (tr (fst (rt_run f (S n) w))) =
    rev (combine (rtq rd f ci (st w) ::
                  repeat ((if rd then HRead else HTest) f ci (hdr ++ [0%N]) (length hdr)
                            (g_bsz f (st w))) n)
                 (map r_code (rs ++ [rn]))) ++ calls_of (tr w) /\
  snd (rt_run f (S n) w) = units_of (g_bsz f (st w)) (text_of (g_buf f (st w))) hdr (rs ++ [rn]).
Proof.
  intros rd f rs rn rest w ci c HL Hc Hat Hcmd Hfit Hnz kd Hs Hnt Ht Hnh.
  apply (C10_rt_sequence D sio smu shs s_read s_write s_lock s_unlock s_call rd f rs rn w ci c);
    try assumption.
  exact (scripted_rt_returns rd f ci rs rn rest (hs w) Hs).
Qed.

Theorem C10_test_sequence_scripted : forall rs rn rest (w : sworld) ci c,
  k_state (k (st w)) = CS_TEST_LOOP -> k_cmd (k (st w)) = Some ci -> cmd_at D ci = Some c ->
  c_htest c = true -> c_vars c = [] -> c_descr c = None ->
  length (c_name c) + 1 < asz (st w) -> (forall x, In x (c_name c) -> x <> 0%N) ->
  script_of (hs w) (3, ci, 0) = rs ++ rn :: rest ->
  (forall r, In r rs -> terminal (spec_action K_TEST ATCMD (r_code r)) = false) ->
  terminal (spec_action K_TEST ATCMD (r_code rn)) = true ->
  let n := length rs in
  let hdr := c_name c ++ [ch_EQ] in
  let wn := fst (rt_run ATCMD n w) in
  let qn := HTest ATCMD ci (firstn (S (k_position (k (st wn)))) (cbuf (st wn)))
                  (k_position (k (st wn))) (asz (st wn)) in
  let se := apply_edit ATCMD (r_edit rn) (st (fst (call_h wn qn))) in
  (forall m, m <= n -> k_state (k (st (fst (rt_run ATCMD m w)))) = CS_TEST_LOOP) /\
  snd (call_h wn qn) = rn /\
  st (fst (rt_run ATCMD (S n) w)) =
    match spec_action K_TEST ATCMD (r_code rn) with
    | A_OK => ack_ok se
    | A_ERROR => ack_error se
    | A_EMIT_OK => ack_ok (setk_state CS_AFTER_OK (start_flush_c CS_AFTER_OK se))
    | A_HOLD => enable_hold_state se
    | A_RELEASE_OK => ack_ok (fst (hold_exit se ST_OK))
    | A_RELEASE_ERROR => ack_error (fst (hold_exit se ST_ERROR))
    | A_LIST => start_print_cmd_list D se
    | _ => se
    end /\
  calls_of (tr (fst (rt_run ATCMD (S n) w))) =
    rev (combine (HTest ATCMD ci (firstn (S (k_position (k (st w)))) (cbuf (st w)))
                        (k_position (k (st w))) (asz (st w)) ::
                  repeat (HTest ATCMD ci (hdr ++ [0%N]) (length hdr) (asz (st w))) n)
                 (map r_code (rs ++ [rn]))) ++ calls_of (tr w) /\
  snd (rt_run ATCMD (S n) w) = units_of (asz (st w)) (text_of (cbuf (st w))) hdr (rs ++ [rn]).
Proof.
  intros rs rn rest w ci c HL Hc Hat Hht Hv Hd Hfit Hnz Hs Hnt Ht.
  apply (C10_test_sequence D sio smu shs s_read s_write s_lock s_unlock s_call rs rn w ci c);
    try assumption.
  exact (scripted_rt_returns false ATCMD ci rs rn rest (hs w) Hs).
Qed.

Theorem C10_read_sequence_uns_scripted : forall rs rn rest (w : sworld) ci c,
  u_state (u (st w)) = US_READ_LOOP -> u_cmd (u (st w)) = Some ci -> cmd_at D ci = Some c ->
  c_hread c = true -> vars_access_possible c RO = false ->
  length (c_name c) + 1 < usz (st w) -> (forall x, In x (c_name c) -> x <> 0%N) ->
  script_of (hs w) (1, ci, 0) = rs ++ rn :: rest ->
  (forall r, In r rs -> terminal (spec_action K_READ UNSOL (r_code r)) = false) ->
  terminal (spec_action K_READ UNSOL (r_code rn)) = true ->
  r_code rn <> RC_HOLD ->
  let n := length rs in
  let hdr := c_name c ++ [ch_EQ] in
  let wn := fst (rt_run UNSOL n w) in
  let qn := HRead UNSOL ci (firstn (S (u_position (u (st wn)))) (ubuf (st wn)))
                  (u_position (u (st wn))) (usz (st wn)) in
  let se := apply_edit UNSOL (r_edit rn) (st (fst (call_h wn qn))) in
  (forall m, m <= n -> u_state (u (st (fst (rt_run UNSOL m w)))) = US_READ_LOOP /\
                       xframe UNSOL (st w) (st (fst (rt_run UNSOL m w)))) /\
  snd (call_h wn qn) = rn /\
  st (fst (rt_run UNSOL (S n) w)) =
    match spec_action K_READ UNSOL (r_code rn) with
    | A_OK | A_ERROR => unsolicited_reset_state se
    | A_EMIT_OK => unsolicited_reset_state (setu_state US_AFTER_OK (start_flush_u US_AFTER_OK se))
    | A_RELEASE_OK => unsolicited_reset_state (fst (hold_exit se ST_OK))
    | A_RELEASE_ERROR => unsolicited_reset_state (fst (hold_exit se ST_ERROR))
    | _ => se
    end /\
  xframe UNSOL (st w) (st (fst (rt_run UNSOL (S n) w))) /\
  calls_of (tr (fst (rt_run UNSOL (S n) w))) =
    rev (combine (HRead UNSOL ci (firstn (S (u_position (u (st w)))) (ubuf (st w)))
                        (u_position (u (st w))) (usz (st w)) ::
                  repeat (HRead UNSOL ci (hdr ++ [0%N]) (length hdr) (usz (st w))) n)
                 (map r_code (rs ++ [rn]))) ++ calls_of (tr w) /\
  snd (rt_run UNSOL (S n) w) = units_of (usz (st w)) (text_of (ubuf (st w))) hdr (rs ++ [rn]).
Proof.
  intros rs rn rest w ci c HL Hc Hat Hhr Hnv Hfit Hnz Hs Hnt Ht Hnh.
  apply (C10_read_sequence_uns D sio smu shs s_read s_write s_lock s_unlock s_call rs rn w ci c);
    try assumption.
  exact (scripted_rt_returns true UNSOL ci rs rn rest (hs w) Hs).
Qed.

Theorem C10_test_sequence_uns_scripted : forall rs rn rest (w : sworld) ci c,
  u_state (u (st w)) = US_TEST_LOOP -> u_cmd (u (st w)) = Some ci -> cmd_at D ci = Some c ->
  c_htest c = true -> c_vars c = [] -> c_descr c = None ->
  length (c_name c) + 1 < usz (st w) -> (forall x, In x (c_name c) -> x <> 0%N) ->
  script_of (hs w) (3, ci, 0) = rs ++ rn :: rest ->
  (forall r, In r rs -> terminal (spec_action K_TEST UNSOL (r_code r)) = false) ->
  terminal (spec_action K_TEST UNSOL (r_code rn)) = true ->
  r_code rn <> RC_HOLD ->
  let n := length rs in
  let hdr := c_name c ++ [ch_EQ] in
  let wn := fst (rt_run UNSOL n w) in
  let qn := HTest UNSOL ci (firstn (S (u_position (u (st wn)))) (ubuf (st wn)))
                  (u_position (u (st wn))) (usz (st wn)) in
  let se := apply_edit UNSOL (r_edit rn) (st (fst (call_h wn qn))) in
  (forall m, m <= n -> u_state (u (st (fst (rt_run UNSOL m w)))) = US_TEST_LOOP /\
                       xframe UNSOL (st w) (st (fst (rt_run UNSOL m w)))) /\
  snd (call_h wn qn) = rn /\
  st (fst (rt_run UNSOL (S n) w)) =
    match spec_action K_TEST UNSOL (r_code rn) with
    | A_OK | A_ERROR => unsolicited_reset_state se
    | A_EMIT_OK => unsolicited_reset_state (setu_state US_AFTER_OK (start_flush_u US_AFTER_OK se))
    | A_RELEASE_OK => unsolicited_reset_state (fst (hold_exit se ST_OK))
    | A_RELEASE_ERROR => unsolicited_reset_state (fst (hold_exit se ST_ERROR))
    | _ => se
    end /\
  xframe UNSOL (st w) (st (fst (rt_run UNSOL (S n) w))) /\
  calls_of (tr (fst (rt_run UNSOL (S n) w))) =
    rev (combine (HTest UNSOL ci (firstn (S (u_position (u (st w)))) (ubuf (st w)))
                        (u_position (u (st w))) (usz (st w)) ::
                  repeat (HTest UNSOL ci (hdr ++ [0%N]) (length hdr) (usz (st w))) n)
                 (map r_code (rs ++ [rn]))) ++ calls_of (tr w) /\
  snd (rt_run UNSOL (S n) w) = units_of (usz (st w)) (text_of (ubuf (st w))) hdr (rs ++ [rn]).
Proof.
  intros rs rn rest w ci c HL Hc Hat Hht Hv Hd Hfit Hnz Hs Hnt Ht Hnh.
  apply (C10_test_sequence_uns D sio smu shs s_read s_write s_lock s_unlock s_call rs rn w ci c);
    try assumption.
  exact (scripted_rt_returns false UNSOL ci rs rn rest (hs w) Hs).
Qed.

End Scripted.
