(* Lemmas_C10b.v — property C10, sequences of ANY length of return codes of read AND test handlers,
   on BOTH machines: one theorem C10_rt_sequence over (rd : bool) (f : fsm), of which the
   command-machine READ statement of Lemmas_C10.v (C10_read_sequence) is an instance; corollaries
   C10_test_sequence, C10_read_sequence_uns, C10_test_sequence_uns and their scripted forms.
   All the work for Properties_C10b.v is here. *)
From Coq Require Import List NArith ZArith Bool Arith Lia.
From CatV Require Import Bytes Defs Codec Spec Fsm Script ResolveDefs TextDefs RespDefs Lemmas_C10.
Import ListNotations.
Local Open Scope nat_scope.

(* ------------------------------------------------------------------ *)
(* 0. frames                                                            *)
(* ------------------------------------------------------------------ *)

(* the event machine's registers, without the fields of its queue that cat_trigger_unsolicited_*
   writes (ring, tail, count) *)
Definition umask (x : ufsm) : ufsm := set_u_ring [] (set_u_tail 0 (set_u_count 0 x)).

(* everything a handler call (its stores into variables and its inner API calls included) leaves
   alone: kframe (command machine except hold_exit, both buffers), the event machine's registers,
   the ghost counters *)
Definition hframe (s s' : state) : Prop :=
  kframe s s' /\ umask (u s') = umask (u s) /\ gS s' = gS s /\ gR s' = gR s /\ gL s' = gL s.

Lemma hframe_refl : forall s, hframe s s.
Proof. intros. split; [apply kframe_refl|repeat split]. Qed.
Lemma hframe_trans : forall a b c, hframe a b -> hframe b c -> hframe a c.
Proof.
  intros a b c (H1 & H2 & H3 & H4 & H5) (G1 & G2 & G3 & G4 & G5).
  split; [eapply kframe_trans; eassumption|]. repeat split; congruence.
Qed.

Lemma apply_poke_hframe : forall s p, hframe s (apply_poke s p).
Proof.
  intros. unfold apply_poke.
  destruct (nth_error (mem s) (fst p)); [|apply hframe_refl].
  destruct (store_prefix l (snd p)); [|apply hframe_refl]. repeat split.
Qed.
Lemma pokes_hframe : forall ps s, hframe s (fold_left apply_poke ps s).
Proof.
  induction ps as [|p ps IH]; intros; cbn [fold_left]; [apply hframe_refl|].
  eapply hframe_trans; [apply apply_poke_hframe|apply IH].
Qed.
Lemma push_hframe : forall D s ci t, hframe s (fst (push_unsolicited_cmd D s ci t)).
Proof.
  intros. unfold push_unsolicited_cmd.
  destruct (ring_full D s); [apply hframe_refl|].
  cbn [fst]. destruct (u_tail (u s) <? length (u_ring (u s))); repeat split.
Qed.
Lemma hold_exit_hframe : forall s z, hframe s (fst (hold_exit s z)).
Proof.
  intros. unfold hold_exit. destruct (negb (k_hold (k s))); cbn [fst]; repeat split.
Qed.

Lemma hframe_u_state : forall s s', hframe s s' -> u_state (u s') = u_state (u s).
Proof. intros s s' (_ & H & _). apply (f_equal u_state) in H. exact H. Qed.
Lemma hframe_u_cmd : forall s s', hframe s s' -> u_cmd (u s') = u_cmd (u s).
Proof. intros s s' (_ & H & _). apply (f_equal u_cmd) in H. exact H. Qed.
Lemma hframe_u_position : forall s s', hframe s s' -> u_position (u s') = u_position (u s).
Proof. intros s s' (_ & H & _). apply (f_equal u_position) in H. exact H. Qed.

Lemma hframe_g_cmd : forall f s s', hframe s s' -> g_cmd f s' = g_cmd f s.
Proof. intros f s s' H. destruct f; [apply kframe_k_cmd, H|apply hframe_u_cmd, H]. Qed.
Lemma hframe_g_buf : forall f s s', hframe s s' -> g_buf f s' = g_buf f s.
Proof. intros f s s' H. destruct f; [apply kframe_cbuf, H|apply kframe_ubuf, H]. Qed.
Lemma hframe_g_pos : forall f s s', hframe s s' -> g_pos f s' = g_pos f s.
Proof. intros f s s' H. destruct f; [apply kframe_k_position, H|apply hframe_u_position, H]. Qed.
Lemma hframe_in_rt_loop : forall rd f s s', hframe s s' -> in_rt_loop rd f s -> in_rt_loop rd f s'.
Proof.
  intros rd f s s' H. destruct f; cbn [in_rt_loop]; intros E.
  - rewrite (kframe_k_state _ _ (proj1 H)). exact E.
  - rewrite (hframe_u_state _ _ H). exact E.
Qed.

(* what a read/test sequence of machine f leaves alone of the OTHER machine.
   f = UNSOL: the command machine is not involved at all, except that HOLD_EXIT codes (and inner
   cat_hold_exit calls) set hold_exit: all its registers but hold_exit, its buffer, and the ghost
   counters of result codes stay.  f = ATCMD: the event machine's registers (its queue may receive
   triggers from the handler) and its buffer stay. *)
Definition xframe (f : fsm) (s s' : state) : Prop :=
  match f with
  | UNSOL => set_k_hold_exit 0%Z (k s') = set_k_hold_exit 0%Z (k s) /\ cbuf s' = cbuf s /\
             gS s' = gS s /\ gR s' = gR s /\ gL s' = gL s
  | ATCMD => umask (u s') = umask (u s) /\ ubuf s' = ubuf s
  end.

Lemma xframe_refl : forall f s, xframe f s s.
Proof. destruct f; repeat split. Qed.
Lemma xframe_trans : forall f a b c, xframe f a b -> xframe f b c -> xframe f a c.
Proof.
  destruct f; cbn [xframe]; intros a b c.
  - intros (H1 & H2) (G1 & G2). split; congruence.
  - intros (H1 & H2 & H3 & H4 & H5) (G1 & G2 & G3 & G4 & G5). repeat split; congruence.
Qed.
Lemma xframe_of_hframe : forall f s s', hframe s s' -> xframe f s s'.
Proof.
  intros f s s' ((K1 & K2 & K3) & H2 & H3 & H4 & H5). destruct f; cbn [xframe]; repeat split; assumption.
Qed.
(* functions that keep the frame *)
Definition xkeeps (f : fsm) (g : state -> state) : Prop := forall s, xframe f s (g s).
Lemma xframe_step : forall f g s s', xkeeps f g -> xframe f s s' -> xframe f s (g s').
Proof. intros f g s s' Hg H. eapply xframe_trans; [exact H|apply Hg]. Qed.

Lemma xk_sg : forall f B p, xkeeps f (fun s => setg_pos f p (setg_buf f B s)).
Proof. intros f B p s. destruct f; repeat split. Qed.
Lemma xk_ewo : forall f, xkeeps f (end_with_ok f).
Proof. intros f s. destruct f; repeat split. Qed.
Lemma xk_ewe : forall f, xkeeps f (end_with_error f).
Proof. intros f s. destruct f; repeat split. Qed.
Lemma xk_sfa : forall f a b, xkeeps f (start_flush_after f a b).
Proof. intros f a b s. destruct f; repeat split. Qed.
Lemma xk_sls : forall f rd, xkeeps f (set_loop_state f rd).
Proof. intros f rd s. destruct f; repeat split. Qed.
Lemma xk_hold_exit : forall f z, xkeeps f (fun s => fst (hold_exit s z)).
Proof. intros f z s. apply xframe_of_hframe, hold_exit_hframe. Qed.
Lemma xk_hold_c : xkeeps ATCMD enable_hold_state.
Proof. intros s. repeat split. Qed.
Lemma xk_list_c : forall D, xkeeps ATCMD (start_print_cmd_list D).
Proof. intros D s. unfold start_print_cmd_list. destruct (ncmds D =? 0); repeat split. Qed.

(* ------------------------------------------------------------------ *)
(* 1. the edit of a read/test handler, for either machine               *)
(* ------------------------------------------------------------------ *)

Lemma sg_id : forall f s, setg_pos f (g_pos f s) (setg_buf f (g_buf f s) s) = s.
Proof. intros f s. destruct s as [kk uu cb ub m dc dg fl a b c]. destruct f, kk, uu; reflexivity. Qed.

(* the edit replaces buffer and position of machine f and nothing else; the new buffer has the old
   length and holds the text edit_text describes *)
Lemma apply_edit_shape : forall f e s,
  exists B p, apply_edit f e s = setg_pos f p (setg_buf f B s) /\ length B = g_bsz f s /\
    text_of B = edit_text (g_bsz f s) (text_of (g_buf f s)) e.
Proof.
  intros f e s.
  assert (Id : exists B p, s = setg_pos f p (setg_buf f B s) /\ length B = g_bsz f s /\
                           text_of B = text_of (g_buf f s)).
  { exists (g_buf f s), (g_pos f s). rewrite sg_id. repeat split. }
  destruct e as [t|]; [|exact Id].
  unfold apply_edit, edit_text.
  destruct (length t <? g_bsz f s) eqn:E; [|exact Id].
  apply Nat.ltb_lt in E. unfold g_bsz in *.
  unfold get_cur. rewrite cur_store_list_fits
    by (cbn [cu_buf]; rewrite app_length; cbn [length]; lia).
  unfold cur_set_pos, put_cur. cbn [cu_buf cu_pos cu_fault].
  cbn [firstn app Nat.add].
  eexists. eexists. split; [reflexivity|]. split.
  - rewrite !app_length, skipn_length. cbn [length]. lia.
  - rewrite <- app_assoc. cbn [app]. apply text_of_app_zero.
Qed.

Lemma g_cmd_sg : forall f B p s, g_cmd f (setg_pos f p (setg_buf f B s)) = g_cmd f s.
Proof. destruct f; reflexivity. Qed.
Lemma in_rt_loop_sg : forall rd f B p s,
  in_rt_loop rd f (setg_pos f p (setg_buf f B s)) = in_rt_loop rd f s.
Proof. destruct f; reflexivity. Qed.
