(* Properties_C01s.v — property C01, the ghost counters tied to the byte streams.
   The theorems of Properties_C01.v / Properties_C01e.v speak about three ghost counters the model
   maintains itself (Fsm.v): gL (non-blank lines terminated), gS (result codes started), gR (result
   codes completely emitted).  Here the counters are tied to what is observable in the trace:

   P1  gL (st w) = number of LF-terminated lines with a byte other than CR in the bytes io_read
       actually delivered (ERd (Some c) events), for every history from cat_init; and the command
       machine is idle exactly when the line being consumed is blank so far.
   P2  one increment of gR = exactly the accepted command-machine output bytes
       newline ++ OK/ERROR ++ newline, under any environment, from any state `ack_ok s` /
       `ack_error s` (module Lemmas_C01s.P2); and every operation that changes gS ends in such a
       state (module Lemmas_C01s.P2b).
   P3  a step whose new trace events contain a read is a cat_service call taken in a reading state;
       at that moment gR = gS = gL = the number of non-blank lines consumed so far: no byte that
       follows a line's LF is consumed before that line's result code has been completely emitted.
   P4  the pinned historical defect as a whole-line theorem:  AT<unknown or ambiguous name>=<any
       bytes> LF  gives exactly one  nl ERROR nl, nothing after the LF is consumed, no callback
       (module Lemmas_C01s.P4); same for the '?' form.
   P5  scripted worlds: consumed ++ still queued = the input (no hypothesis); from cat_init, under
       every finite readiness schedule, after finitely many cat_service calls the whole input is
       consumed and gR = number of non-blank lines of the input.

   History theorems take the universally quantified oracle hypotheses no_uhold / handlers_valid
   (Lemmas_Domain.v); C01_gL_counts_lines_scripted and P5 use script conditions instead (transfer of
   Lemmas_Inv.v).  `tr w` is newest first.  Proofs: Lemmas_C01s.v. *)
From Coq Require Import List NArith ZArith Bool Arith Lia.
From CatV Require Import Bytes Defs Codec Spec Fsm Script ResolveDefs SchedDefs GlueDefs TextDefs TermDefs.
From CatV Require Import Skel SkelInv SkelSim Lemmas_C03 Lemmas_Domain.
From CatV Require Lemmas_Inv Lemmas_E2E.
From CatV Require Import Lemmas_C01s.
Import ListNotations.
Local Open Scope nat_scope.

(* ------------------------------------------------------------------ *)
(* definitions used in the statements (they live in Lemmas_C01s.v and   *)
(* are restated here as checked equations)                              *)
(* ------------------------------------------------------------------ *)

(* the bytes delivered by io_read, oldest first *)
Example def_consumed : forall t,
  consumed t = flat_map (fun e => match e with ERd (Some c) => [c] | _ => [] end) (rev t).
Proof. reflexivity. Qed.

(* number of LF-terminated lines containing at least one byte other than CR;
   seen = the current line already contains such a byte *)
Example def_nonblank_lines : forall seen bs,
  nonblank_lines seen bs =
  match bs with
  | [] => 0
  | c :: r => if (c =? ch_LF)%N then (if seen then 1 else 0) + nonblank_lines false r
              else nonblank_lines (seen || negb (c =? ch_CR)%N) r
  end.
Proof. intros seen bs. destruct bs; reflexivity. Qed.

(* the flag `seen` after the bytes bs *)
Example def_seen_after : forall seen bs,
  seen_after seen bs =
  match bs with
  | [] => seen
  | c :: r => if (c =? ch_LF)%N then seen_after false r
              else seen_after (seen || negb (c =? ch_CR)%N) r
  end.
Proof. intros seen bs. destruct bs; reflexivity. Qed.


(* the bytes accepted on the output from the command machine (producer tag ATCMD), oldest first, of
   a newest-first list of events *)
Example def_out_cmd : forall t,
  P2.out_cmd t = flat_map (fun e => match e with EWr ATCMD ch true => [ch] | _ => [] end) (rev t).
Proof. reflexivity. Qed.

(* ================================================================== *)
(* P1 and P3: every history from cat_init, arbitrary oracles            *)
(* ================================================================== *)
Section C01s.
Variable D : desc.
Variables ioS muS hS : Type.
Variable io_read : ioS -> ioS * option N.
Variable io_write : ioS -> N -> ioS * bool.
Variable mu_lock : muS -> muS * bool.
Variable mu_unlock : muS -> muS * bool.
Variable h_call : hS -> hreq -> hS * hres.
(* D3: event-side handlers do not return HOLD; events triggered from handlers name pool commands *)
Hypothesis no_uhold : forall hs q, unsol_req q = true -> r_code (snd (h_call hs q)) <> RC_HOLD.
Hypothesis handlers_valid : forall hs q, Forall (valid_icall D) (r_calls (snd (h_call hs q))).

Notation world := (Fsm.world ioS muS hS).
Notation st := (Fsm.st ioS muS hS).
Notation tr := (Fsm.tr ioS muS hS).
Notation step := (Fsm.step D ioS muS hS io_read io_write mu_lock mu_unlock h_call).
Notation run := (Fsm.run D ioS muS hS io_read io_write mu_lock mu_unlock h_call).
Notation reach m x mx h ops := (run (mkWorld ioS muS hS (init_state D m) x mx h []) ops).

(* P1: in the supported domain, at every point of every history, the ghost counter gL is the
   number of non-blank lines in the bytes actually consumed *)
Theorem C01_gL_counts_lines : forall m x mx h ops,
  wf_desc D m -> Forall (valid_op D) ops ->
  let w := reach m x mx h ops in
  gL (st w) = nonblank_lines false (consumed (tr w)).
Proof.
  exact (Lemmas_C01s.C01_gL_counts_lines_proof D ioS muS hS io_read io_write mu_lock mu_unlock h_call
           no_uhold handlers_valid).
Qed.

(* the same for ANY descriptor, as long as no fault has been raised *)
Theorem C01_gL_counts_lines_nofault : forall m x mx h ops,
  let w := reach m x mx h ops in
  fault (st w) = false -> gL (st w) = nonblank_lines false (consumed (tr w)).
Proof.
  exact (Lemmas_C01s.C01_gL_counts_lines_nofault D ioS muS hS io_read io_write mu_lock mu_unlock h_call
           no_uhold).
Qed.

(* the invariant behind P1: whenever the command machine can consume input, it is idle exactly
   when the bytes consumed since the last LF are all CR (the line is blank so far) *)
Theorem C01_idle_iff_blank : forall m x mx h ops,
  wf_desc D m -> Forall (valid_op D) ops ->
  let w := reach m x mx h ops in
  reading_state (k_state (k (st w))) = true ->
  (k_state (k (st w)) = CS_IDLE <-> seen_after false (consumed (tr w)) = false).
Proof.
  exact (Lemmas_C01s.C01_idle_iff_blank_proof D ioS muS hS io_read io_write mu_lock mu_unlock h_call
           no_uhold handlers_valid).
Qed.

(* P3, any world (reachable or not), any operation: new trace events contain a read only if the
   operation is cat_service and the command machine is in one of the seven reading states *)
Theorem C01_read_implies_reading_state : forall (w : world) o evs r,
  tr (step w o) = evs ++ tr w -> In (ERd r) evs ->
  o = OService /\ reading_state (k_state (k (st w))) = true.
Proof.
  exact (Lemmas_C01s.step_read_reading D ioS muS hS io_read io_write mu_lock mu_unlock h_call no_uhold).
Qed.

(* P3, histories: when an operation requests input, all three counters agree *)
Theorem C01_read_only_when_settled_trace : forall m x mx h ops o evs r,
  wf_desc D m -> Forall (valid_op D) ops ->
  let w := reach m x mx h ops in
  tr (step w o) = evs ++ tr w -> In (ERd r) evs ->
  gL (st w) = gR (st w) /\ gS (st w) = gR (st w).
Proof.
  exact (Lemmas_C01s.C01_read_only_when_settled_proof D ioS muS hS io_read io_write mu_lock mu_unlock
           h_call no_uhold handlers_valid).
Qed.

(* P3 + P1: at the moment any input byte is requested, every non-blank line consumed so far has had
   its result code completely emitted (and no further result code has been started) *)
Theorem C01_no_read_ahead : forall m x mx h ops o evs r,
  wf_desc D m -> Forall (valid_op D) ops ->
  let w := reach m x mx h ops in
  tr (step w o) = evs ++ tr w -> In (ERd r) evs ->
  gR (st w) = nonblank_lines false (consumed (tr w)) /\ gS (st w) = gR (st w).
Proof.
  exact (Lemmas_C01s.C01_no_read_ahead_proof D ioS muS hS io_read io_write mu_lock mu_unlock h_call
           no_uhold handlers_valid).
Qed.
End C01s.

Print Assumptions C01_gL_counts_lines.
Print Assumptions C01_gL_counts_lines_nofault.
Print Assumptions C01_idle_iff_blank.
Print Assumptions C01_read_implies_reading_state.
Print Assumptions C01_read_only_when_settled_trace.
Print Assumptions C01_no_read_ahead.

(* ================================================================== *)
(* P2: one increment of gR = exactly the bytes  nl OK/ERROR nl          *)
(* ================================================================== *)
Section C01s_unit.
Variable D : desc.
Variables ioS muS hS : Type.
Variable io_read : ioS -> ioS * option N.
Variable io_write : ioS -> N -> ioS * bool.
Variable mu_lock : muS -> muS * bool.
Variable mu_unlock : muS -> muS * bool.
Variable h_call : hS -> hreq -> hS * hres.

Notation world := (Fsm.world ioS muS hS).
Notation st := (Fsm.st ioS muS hS).
Notation tr := (Fsm.tr ioS muS hS).
Notation step := (Fsm.step D ioS muS hS io_read io_write mu_lock mu_unlock h_call).
Notation run := (Fsm.run D ioS muS hS io_read io_write mu_lock mu_unlock h_call).

(* From ANY world whose state is `ack_ok s` or `ack_error s` (the only places where gS is
   incremented, see C01_gS_changes_only_at_ack below), along ANY list of operations (service calls
   whose mutex may fail, triggers, queries, ...; arbitrary write refusals; the event machine sending
   its own lines in between) during which the command machine stays in the flush of that result
   code and at whose end it is in the continuation CS_AFTER_RESET: the bytes accepted from the
   command machine in that stretch are exactly  newline ++ OK/ERROR ++ newline, gR has been
   incremented exactly once, gS and gL are unchanged.  (length txt < asz s: the working buffer can
   hold the text and its NUL; 6 <= asz in the supported domain.) *)
Theorem C01_result_unit :
  (forall hs q, unsol_req q = true -> r_code (snd (h_call hs q)) <> RC_HOLD) ->
  forall (w0 : world) s txt,
  (st w0 = ack_ok s /\ txt = txt_OK) \/ (st w0 = ack_error s /\ txt = txt_ERROR) ->
  length txt < asz s ->
  forall ops,
  (forall m, m < length ops ->
      k_state (k (st (run w0 (firstn m ops)))) = CS_FLUSH_WAIT \/
      k_state (k (st (run w0 (firstn m ops)))) = CS_FLUSH) ->
  k_state (k (st (run w0 ops))) = CS_AFTER_RESET ->
  exists evs, tr (run w0 ops) = evs ++ tr w0 /\
    P2.out_cmd evs = nl_chars s ++ txt ++ nl_chars s /\
    gR (st (run w0 ops)) = S (gR (st w0)) /\
    gS (st (run w0 ops)) = gS (st w0) /\
    gL (st (run w0 ops)) = gL (st w0).
Proof. exact (Lemmas_C01s.P2.C01_result_unit_proof D ioS muS hS io_read io_write mu_lock mu_unlock h_call). Qed.

(* every operation of the model, in any world, for any oracles: either gS is unchanged, or the state
   after the operation is literally `ack_ok s` / `ack_error s` for a state s with the old gS — i.e.
   every started result code starts in a state to which C01_result_unit applies *)
Theorem C01_gS_changes_only_at_ack : forall (w : world) o,
  gS (st (step w o)) = gS (st w) \/
  exists s, (st (step w o) = ack_ok s \/ st (step w o) = ack_error s) /\ gS s = gS (st w).
Proof. exact (Lemmas_C01s.P2b.gS_changes_only_at_ack D ioS muS hS io_read io_write mu_lock mu_unlock h_call). Qed.
End C01s_unit.
Print Assumptions C01_result_unit.
Print Assumptions C01_gS_changes_only_at_ack.

(* ================================================================== *)
(* P5 (and P1 with script conditions): the scripted environment         *)
(* ================================================================== *)
Local Notation wst := (Fsm.st sio smu shs).
Local Notation wio := (Fsm.io sio smu shs).
Local Notation whs := (Fsm.hs sio smu shs).
Local Notation wtr := (Fsm.tr sio smu shs).
Local Notation srunops D := (Fsm.run D sio smu shs s_read s_write s_lock s_unlock s_call).

(* every history of API calls on a scripted world whose input queue initially holds `input`: the
   bytes consumed so far, followed by the bytes still queued, are the input (no hypothesis) *)
Theorem C01_consumed_prefix : forall D m input rs ws mx h ops,
  let w := srunops D (sinit D m (mkSio input rs ws) mx h) ops in
  consumed (wtr w) ++ inq (wio w) = input.
Proof. exact Lemmas_C01s.consumed_prefix_proof. Qed.
Print Assumptions C01_consumed_prefix.

(* P1 with a condition on the scripts instead of on s_call: no read or test script contains a HOLD
   answer (Lemmas_Inv.no_rt_hold) *)
Theorem C01_gL_counts_lines_scripted : forall D m x mx h ops,
  Lemmas_Inv.no_rt_hold h = true ->
  let w := srunops D (sinit D m x mx h) ops in
  fault (wst w) = false -> gL (wst w) = nonblank_lines false (consumed (wtr w)).
Proof. exact Lemmas_C01s.gL_counts_lines_scripted. Qed.
Print Assumptions C01_gL_counts_lines_scripted.

(* P5: from cat_init with `input` queued, under EVERY finite readiness schedule (rs, ws), no mutex,
   scripts without HOLD whose inner triggers are valid: after finitely many cat_service calls the
   whole input has been consumed, and the number of completely emitted result codes is the number
   of non-blank lines of the input (none started and unfinished; the machine waits for input) *)
Theorem C01_all_lines_answered : forall D m input rs ws h,
  d_mutex D = false -> wf_desc D m ->
  Lemmas_Inv.no_rt_hold h = true -> script_ok (Lemmas_Inv.res_calls_valid D) h = true ->
  script_ok no_hold_res h = true ->
  let w0 := sinit D m (mkSio input rs ws) (mkSmu [] []) h in
  exists n, let w := nsvc D n w0 in
    inq (wio w) = [] /\ consumed (wtr w) = input /\
    gR (wst w) = nonblank_lines false input /\ gS (wst w) = gR (wst w) /\ gL (wst w) = gR (wst w) /\
    reading_state (k_state (k (wst w))) = true.
Proof. exact Lemmas_C01s.C01_all_lines_answered_proof. Qed.
Print Assumptions C01_all_lines_answered.

(* ================================================================== *)
(* P4: the pinned historical defect as a whole-line theorem             *)
(* ================================================================== *)
(* hypotheses as in E2E_unknown_line (Properties_C01e.v); bs: ANY bytes without LF (also CR, NUL,
   values above 255).  After the failed lookup at '=' the machine drains the line (CS_ERROR); a CR
   among the drained bytes selects the CR LF newline.  Exactly one result code, nothing after the
   LF is consumed, no handler or variable callback, memory unchanged, every counter + 1. *)
Theorem E2E_unresolved_write_line : forall D s name bs rest h,
  d_mutex D = false -> 0 < ncmds D -> ncmds D <= 4 * length (cbuf s) -> 6 <= length (cbuf s) ->
  fault s = false ->
  k_state (k s) = CS_IDLE -> k_cr (k s) = false -> k_implicit (k s) = false -> k_hold (k s) = false ->
  u_state (u s) = US_IDLE -> u_count (u s) = 0 ->
  name_ok name = true -> implicit_hit D s (upper name) = false ->
  resolve (upper name) (enabled D s) (cmds D) = None ->          (* unknown, or an ambiguous abbreviation *)
  ~ In ch_LF bs ->
  let nl := if existsb (N.eqb ch_CR) bs then [ch_CR; ch_LF] else [ch_LF] in
  let w0 := mkw s ([ch_A; ch_T] ++ name ++ [ch_EQ] ++ bs ++ [ch_LF] ++ rest) h [] in
  exists calls, let w := nsvc D calls w0 in
    k_state (k (wst w)) = CS_IDLE /\ inq (wio w) = rest /\ whs w = h /\ calls_of (wtr w) = [] /\
    mem (wst w) = mem s /\ fault (wst w) = false /\
    output_of (wtr w) = nl ++ txt_ERROR ++ nl /\
    gL (wst w) = S (gL s) /\ gS (wst w) = S (gS s) /\ gR (wst w) = S (gR s) /\
    k_cr (k (wst w)) = false.
Proof. exact Lemmas_C01s.P4.E2E_unresolved_write_line_proof. Qed.
Print Assumptions E2E_unresolved_write_line.

(* the READ form  AT<name>?<bs> LF : if bs consists of CRs only the name is looked up (and not
   found); otherwise the first other byte sends the machine to the drain state *)
Theorem E2E_unresolved_read_line : forall D s name bs rest h,
  d_mutex D = false -> 0 < ncmds D -> ncmds D <= 4 * length (cbuf s) -> 6 <= length (cbuf s) ->
  fault s = false ->
  k_state (k s) = CS_IDLE -> k_cr (k s) = false -> k_implicit (k s) = false -> k_hold (k s) = false ->
  u_state (u s) = US_IDLE -> u_count (u s) = 0 ->
  name_ok name = true -> implicit_hit D s (upper name) = false ->
  resolve (upper name) (enabled D s) (cmds D) = None ->
  ~ In ch_LF bs ->
  let nl := if existsb (N.eqb ch_CR) bs then [ch_CR; ch_LF] else [ch_LF] in
  let w0 := mkw s ([ch_A; ch_T] ++ name ++ [ch_QM] ++ bs ++ [ch_LF] ++ rest) h [] in
  exists calls, let w := nsvc D calls w0 in
    k_state (k (wst w)) = CS_IDLE /\ inq (wio w) = rest /\ whs w = h /\ calls_of (wtr w) = [] /\
    mem (wst w) = mem s /\ fault (wst w) = false /\
    output_of (wtr w) = nl ++ txt_ERROR ++ nl /\
    gL (wst w) = S (gL s) /\ gS (wst w) = S (gS s) /\ gR (wst w) = S (gR s) /\
    k_cr (k (wst w)) = false.
Proof. exact Lemmas_C01s.P4.E2E_unresolved_read_line_proof. Qed.
Print Assumptions E2E_unresolved_read_line.

(* ================================================================== *)
(* non-vacuity                                                          *)
(* ================================================================== *)
(* the instance E2E_examples of Lemmas_E2E.v: table  +X (int16, string[6], hexbuf[2], uint8; no
   handlers)  and  +XY (run handler), so `+` is an ambiguous abbreviation and `+Q` is unknown;
   buffer of 40 bytes, no mutex *)
Module C01s_examples.
Import Lemmas_E2E.E2E_examples.

(* the input:  LF | CR LF | CR CR LF | AT+=1 CR LF | x LF | AT+Q=AT+XY LF | AT LF | CR (unterminated)
   three blank lines (one empty, two CR-only), an ambiguous abbreviation followed by '=', a bad
   character, an unknown name followed by '=' whose argument text looks like a command, a bare AT *)
Definition ex_input : list N :=
  [10;  13; 10;  13; 13; 10;  65; 84; 43; 61; 49; 13; 10;  120; 10;
   65; 84; 43; 81; 61; 65; 84; 43; 88; 89; 10;  65; 84; 10;  13]%N.

Example C01s_ex_lines : nonblank_lines false ex_input = 4.
Proof. vm_compute. reflexivity. Qed.

Definition ex_w (n : nat) : sworld := nsvc D0 n (sinit D0 m0 (mkSio ex_input [] []) (mkSmu [] []) []).
(* (state, gL, gS, gR, non-blank lines consumed, bytes consumed, bytes still queued, calls, output) *)
Definition ex_obs (n : nat) :=
  let w := ex_w n in
  (k_state (k (wst w)), (gL (wst w), gS (wst w), gR (wst w)),
   nonblank_lines false (consumed (wtr w)), length (consumed (wtr w)), length (inq (wio w))).

(* the counters along the run: nothing is counted for the three blank lines (6 bytes); the line
   AT+=1 CR LF is counted when its LF is consumed (byte 13), after the drain state; at every point
   gL = the number of non-blank lines consumed; at the end 4 lines, 4 result codes *)
Example C01s_ex_run :
  map ex_obs [0; 6; 7; 14; 20; 40; 60; 80; 100] =
  [(CS_IDLE, (0, 0, 0), 0, 0, 30);
   (CS_IDLE, (0, 0, 0), 0, 6, 24);
   (CS_PARSE_PREFIX, (0, 0, 0), 0, 7, 23);
   (CS_ERROR, (0, 0, 0), 0, 10, 20);
   (CS_FLUSH, (1, 1, 0), 1, 13, 17);
   (CS_FLUSH, (2, 2, 1), 2, 15, 15);
   (CS_ERROR, (2, 2, 2), 2, 24, 6);
   (CS_FLUSH, (4, 4, 3), 4, 29, 1);
   (CS_IDLE, (4, 4, 4), 4, 30, 0)].
Proof. vm_compute. reflexivity. Qed.

(* the whole run: no handler call at all (the text AT+XY after `AT+Q=` is not executed), four
   result codes: CR LF ERROR CR LF (the line with CR), then LF ERROR LF, LF ERROR LF, LF OK LF *)
Example C01s_ex_output :
  calls_of (wtr (ex_w 100)) = [] /\
  output_of (wtr (ex_w 100)) =
    [13; 10; 69; 82; 82; 79; 82; 13; 10;  10; 69; 82; 82; 79; 82; 10;  10; 69; 82; 82; 79; 82; 10;
     10; 79; 75; 10]%N /\
  consumed (wtr (ex_w 100)) = ex_input.
Proof. vm_compute. repeat split; reflexivity. Qed.

(* a second input: an overlong argument (the 40-byte buffer overflows), bad characters, CR inside a
   name, a lone '?' and '=' ; P1 checked pointwise after each of the first 400 calls of both runs *)
Definition ex_input2 : list N :=
  [65; 84; 43; 88; 61]%N ++ repeat 55%N 45 ++ [13; 10]%N ++
  [65; 84; 33; 33; 10;  65; 13; 84; 43; 88; 89; 13; 10;  65; 84; 63; 10;  65; 84; 61; 10;  32; 10]%N.
Definition ex_w2 (n : nat) : sworld := nsvc D0 n (sinit D0 m0 (mkSio ex_input2 [] []) (mkSmu [] []) []).

Example C01s_ex_pointwise :
  forallb (fun n => (gL (wst (ex_w n)) =? nonblank_lines false (consumed (wtr (ex_w n)))) &&
                    (gL (wst (ex_w2 n)) =? nonblank_lines false (consumed (wtr (ex_w2 n)))))
          (seq 0 400) = true /\
  nonblank_lines false ex_input2 = 6 /\
  (gL (wst (ex_w2 400)), gS (wst (ex_w2 400)), gR (wst (ex_w2 400))) = (6, 6, 6) /\
  inq (wio (ex_w2 400)) = [].
Proof. vm_compute. repeat split; reflexivity. Qed.

(* the hypotheses of the domain and of the scripted theorems hold for this instance *)
Lemma ex_wf : wf_desc D0 m0.
Proof.
  unfold wf_desc. repeat split; try (cbn; lia).
  - repeat constructor; eexists; (split; [reflexivity | cbn; lia]).
  - repeat constructor; intros _; cbn; lia.
Qed.

Example C01s_ex_hyps :
  d_mutex D0 = false /\ wf_desc D0 m0 /\ Lemmas_Inv.no_rt_hold [] = true /\
  script_ok (Lemmas_Inv.res_calls_valid D0) [] = true /\ script_ok no_hold_res [] = true.
Proof. split; [reflexivity|]. split; [exact ex_wf|]. repeat split; reflexivity. Qed.

(* P5 applied: after some number of calls all 30 bytes are consumed and 4 result codes are complete *)
Example C01s_ex_all_answered :
  exists n, inq (wio (ex_w n)) = [] /\ consumed (wtr (ex_w n)) = ex_input /\ gR (wst (ex_w n)) = 4.
Proof.
  destruct (C01_all_lines_answered D0 m0 ex_input [] [] [] eq_refl ex_wf eq_refl eq_refl eq_refl)
    as (n & A & B & C & _).
  exists n. split; [exact A|]. split; [exact B|]. unfold ex_w. rewrite C. exact C01s_ex_lines.
Qed.

(* the universally quantified oracle hypotheses of the history theorems are satisfiable: a handler
   oracle that always gives the default answer; P1 and P3 for all its histories on D0 *)
Definition ex_h (h : unit) (q : hreq) : unit * hres := (h, default_res q).

Example C01s_ex_oracle_hyps :
  (forall hs q, unsol_req q = true -> r_code (snd (ex_h hs q)) <> RC_HOLD) /\
  (forall hs q, Forall (valid_icall D0) (r_calls (snd (ex_h hs q)))).
Proof. split; intros hs q; destruct q; cbn; try discriminate; constructor. Qed.

Example C01s_ex_history : forall x mx ops, Forall (valid_op D0) ops ->
  let w := Fsm.run D0 sio smu unit s_read s_write s_lock s_unlock ex_h
             (mkWorld sio smu unit (init_state D0 m0) x mx tt []) ops in
  gL (Fsm.st _ _ _ w) = nonblank_lines false (consumed (Fsm.tr _ _ _ w)).
Proof.
  intros x mx ops Hops.
  exact (C01_gL_counts_lines D0 sio smu unit s_read s_write s_lock s_unlock ex_h
           (proj1 C01s_ex_oracle_hyps) (proj2 C01s_ex_oracle_hyps) m0 x mx tt ops ex_wf Hops).
Qed.

(* P4: the hypotheses hold for the names + (ambiguous) and +Q (unknown) on (D0, s0) *)
Example E2E_ex_unres_hyps :
  hyps_ok D0 s0 = true /\
  name_ok [43]%N = true /\ implicit_hit D0 s0 (upper [43]%N) = false /\
  resolve (upper [43]%N) (enabled D0 s0) (cmds D0) = None /\
  name_ok [43; 81]%N = true /\ implicit_hit D0 s0 (upper [43; 81]%N) = false /\
  resolve (upper [43; 81]%N) (enabled D0 s0) (cmds D0) = None.
Proof. vm_compute. repeat split; reflexivity. Qed.

(* AT+=5,"a" CR LF 1 2 3 : after exactly 29 calls the parser is idle, 1 2 3 is still queued, no call,
   the output is CR LF ERROR CR LF (one result code), memory unchanged, counters (1,1,1);
   obs = (state, remaining input, handler scripts, calls, output, memory, fault, (gL, gS, gR)) *)
Example E2E_ex_unres_write_run :
  go s0 ([65; 84; 43; 61; 53; 44; 34; 97; 34; 13; 10; 1; 2; 3]%N) 29 =
    (CS_IDLE, [1; 2; 3]%N, [], [], [13; 10; 69; 82; 82; 79; 82; 13; 10]%N, m0, false, (1, 1, 1)).
Proof. vm_compute. reflexivity. Qed.

(* AT+Q=AT+XY LF AT+XY LF : the argument text AT+XY is NOT executed: when the first line is complete
   (29 calls) there is one ERROR, no handler call, and the second line is still in the queue; when the
   second line is complete as well there is exactly one call of the run handler of +XY (command 1), two
   result codes, counters (2,2,2).  In the original library the first line alone produced ERROR, a
   call of the handler and OK. *)
Example E2E_ex_unres_write_noexec :
  go s0 ([65; 84; 43; 81; 61; 65; 84; 43; 88; 89; 10; 65; 84; 43; 88; 89; 10]%N) 29 =
    (CS_IDLE, [65; 84; 43; 88; 89; 10]%N, [], [], [10; 69; 82; 82; 79; 82; 10]%N, m0, false, (1, 1, 1)) /\
  go s0 ([65; 84; 43; 81; 61; 65; 84; 43; 88; 89; 10; 65; 84; 43; 88; 89; 10]%N) 70 =
    (CS_IDLE, [], [], [(HRun 1, 3%Z)], [10; 69; 82; 82; 79; 82; 10; 10; 79; 75; 10]%N, m0, false, (2, 2, 2)).
Proof. vm_compute. split; reflexivity. Qed.

(* the general theorem applied to the first instance *)
Example E2E_ex_unres_write_apply :
  exists calls,
    let w := nsvc D0 calls (mkw s0 ([65; 84; 43; 61; 53; 44; 34; 97; 34; 13; 10; 1; 2; 3]%N) [] []) in
    k_state (k (wst w)) = CS_IDLE /\ inq (wio w) = [1; 2; 3]%N /\ calls_of (wtr w) = [] /\
    output_of (wtr w) = [13; 10; 69; 82; 82; 79; 82; 13; 10]%N /\ k_cr (k (wst w)) = false.
Proof.
  destruct E2E_ex_unres_hyps as (_ & H2 & H3 & H4 & _).
  assert (Hnl : ~ In ch_LF [53; 44; 34; 97; 34; 13]%N).
  { cbn [In]. intros H. repeat (destruct H as [H|H]; [discriminate H|]). exact H. }
  destruct (E2E_unresolved_write_line D0 s0 [43]%N [53; 44; 34; 97; 34; 13]%N [1; 2; 3]%N []
              eq_refl ltac:(apply Nat.ltb_lt; reflexivity) ltac:(apply Nat.leb_le; reflexivity)
              ltac:(apply Nat.leb_le; reflexivity)
              eq_refl eq_refl eq_refl eq_refl eq_refl eq_refl eq_refl H2 H3 H4 Hnl)
    as (calls & A & B & _ & C & _ & _ & O & _ & _ & _ & R).
  exists calls. cbv zeta. split; [exact A|]. split; [exact B|]. split; [exact C|]. split; [exact O | exact R].
Qed.

(* the READ form:  AT+Q? CR x CR LF 7  (a stray byte after the question mark, 27 calls)  and
   AT+? CR CR LF 7  (only carriage returns: the ambiguous name is looked up, 26 calls) *)
Example E2E_ex_unres_read_run :
  go s0 ([65; 84; 43; 81; 63; 13; 120; 13; 10; 7]%N) 27 =
    (CS_IDLE, [7]%N, [], [], [13; 10; 69; 82; 82; 79; 82; 13; 10]%N, m0, false, (1, 1, 1)) /\
  go s0 ([65; 84; 43; 63; 13; 13; 10; 7]%N) 26 =
    (CS_IDLE, [7]%N, [], [], [13; 10; 69; 82; 82; 79; 82; 13; 10]%N, m0, false, (1, 1, 1)).
Proof. vm_compute. split; reflexivity. Qed.

Example E2E_ex_unres_read_apply :
  exists calls,
    let w := nsvc D0 calls (mkw s0 ([65; 84; 43; 81; 63; 13; 120; 13; 10; 7]%N) [] []) in
    k_state (k (wst w)) = CS_IDLE /\ inq (wio w) = [7]%N /\ calls_of (wtr w) = [] /\
    output_of (wtr w) = [13; 10; 69; 82; 82; 79; 82; 13; 10]%N.
Proof.
  destruct E2E_ex_unres_hyps as (_ & _ & _ & _ & H2 & H3 & H4).
  assert (Hnl : ~ In ch_LF [13; 120; 13]%N).
  { cbn [In]. intros H. repeat (destruct H as [H|H]; [discriminate H|]). exact H. }
  destruct (E2E_unresolved_read_line D0 s0 [43; 81]%N [13; 120; 13]%N [7]%N []
              eq_refl ltac:(apply Nat.ltb_lt; reflexivity) ltac:(apply Nat.leb_le; reflexivity)
              ltac:(apply Nat.leb_le; reflexivity)
              eq_refl eq_refl eq_refl eq_refl eq_refl eq_refl eq_refl H2 H3 H4 Hnl)
    as (calls & A & B & _ & C & _ & _ & O & _).
  exists calls. cbv zeta. split; [exact A|]. split; [exact B|]. split; [exact C | exact O].
Qed.
End C01s_examples.

(* P2: a concrete instance (definitions in Lemmas_C01s.P2): one command "+X" with a read handler, mutex
   in use, separate event buffer; oracles: write readiness and lock success from schedules, every
   handler answers DATA_OK.  c01s_s: a read event has been triggered and the event machine has just
   entered US_FLUSH with its line LF +X= LF; c01s_w0: the command machine starts the result code
   ERROR in that state (ack_error c01s_s); from then on 8 of the first 15 write attempts are refused
   and the third lock fails; c01s_ops: 5 service calls, cat_is_busy, 22 service calls. *)
Module C01s_unit_examples.
Import Lemmas_C01s.P2.
Local Notation ex_run :=
  (Fsm.run c01s_D (list bool) (list bool) unit c01s_read c01s_write c01s_lock c01s_unlock c01s_call).

Example C01s_ex_unit_defs :
  c01s_ops = repeat OService 5 ++ [OIsBusy] ++ repeat OService 22 /\
  Fsm.st _ _ _ c01s_w0 = ack_error c01s_s /\ d_mutex c01s_D = true /\
  u_state (u c01s_s) = US_FLUSH /\ k_cr (k c01s_s) = false /\ asz c01s_s = 16.
Proof. vm_compute. repeat split; reflexivity. Qed.

(* the hypotheses hold: CS_FLUSH_WAIT / CS_FLUSH after every proper prefix (the machine waits in
   CS_FLUSH_WAIT until the 14th operation while the event line is sent), CS_AFTER_RESET at the end;
   the accepted ATCMD bytes of the stretch are LF E R R O R LF although the event line LF + X = LF
   went out in the same stretch; 8 refused writes, 1 failed lock; gR + 1, gS and gL unchanged *)
Example C01s_ex_unit_computed :
  let w := ex_run c01s_w0 c01s_ops in
  forallb (fun m => let x := k_state (k (Fsm.st _ _ _ (ex_run c01s_w0 (firstn m c01s_ops)))) in
                    cstate_beq x CS_FLUSH_WAIT || cstate_beq x CS_FLUSH)
          (seq 0 (length c01s_ops)) = true /\
  map (fun m => k_state (k (Fsm.st _ _ _ (ex_run c01s_w0 (firstn m c01s_ops))))) [0; 6; 13; 14; 27] =
    [CS_FLUSH_WAIT; CS_FLUSH_WAIT; CS_FLUSH_WAIT; CS_FLUSH; CS_FLUSH] /\
  k_state (k (Fsm.st _ _ _ w)) = CS_AFTER_RESET /\
  out_cmd (firstn (length (Fsm.tr _ _ _ w) - length (Fsm.tr _ _ _ c01s_w0)) (Fsm.tr _ _ _ w)) =
    [10; 69; 82; 82; 79; 82; 10]%N /\
  Lemmas_C11.accepted_wr
    (rev (firstn (length (Fsm.tr _ _ _ w) - length (Fsm.tr _ _ _ c01s_w0)) (Fsm.tr _ _ _ w))) =
    [(UNSOL, 10); (UNSOL, 43); (UNSOL, 88); (UNSOL, 61); (UNSOL, 10);
     (ATCMD, 10); (ATCMD, 69); (ATCMD, 82); (ATCMD, 82); (ATCMD, 79); (ATCMD, 82); (ATCMD, 10)]%N /\
  length (filter (fun e => match e with EWr _ _ false => true | _ => false end) (Fsm.tr _ _ _ w)) = 8 /\
  length (filter (fun e => match e with ELock false => true | _ => false end) (Fsm.tr _ _ _ w)) = 1 /\
  (gR (Fsm.st _ _ _ w), gS (Fsm.st _ _ _ w), gL (Fsm.st _ _ _ w)) =
    (S (gR (Fsm.st _ _ _ c01s_w0)), gS (Fsm.st _ _ _ c01s_w0), gL (Fsm.st _ _ _ c01s_w0)).
Proof. vm_compute. repeat split; reflexivity. Qed.

(* the theorem applied to this instance *)
Example C01s_ex_unit_apply :
  exists evs, Fsm.tr _ _ _ (ex_run c01s_w0 c01s_ops) = evs ++ Fsm.tr _ _ _ c01s_w0 /\
    out_cmd evs = nl_chars c01s_s ++ txt_ERROR ++ nl_chars c01s_s /\
    nl_chars c01s_s ++ txt_ERROR ++ nl_chars c01s_s = [10; 69; 82; 82; 79; 82; 10]%N /\
    gR (Fsm.st _ _ _ (ex_run c01s_w0 c01s_ops)) = S (gR (Fsm.st _ _ _ c01s_w0)).
Proof.
  assert (Hend : k_state (k (Fsm.st _ _ _ (ex_run c01s_w0 c01s_ops))) = CS_AFTER_RESET)
    by (vm_compute; reflexivity).
  assert (Hlen : length txt_ERROR < asz c01s_s) by (vm_compute; lia).
  assert (H0 : (Fsm.st _ _ _ c01s_w0 = ack_ok c01s_s /\ txt_ERROR = txt_OK) \/
               (Fsm.st _ _ _ c01s_w0 = ack_error c01s_s /\ txt_ERROR = txt_ERROR))
    by (right; split; reflexivity).
  destruct (C01_result_unit c01s_D (list bool) (list bool) unit c01s_read c01s_write c01s_lock
              c01s_unlock c01s_call c01s_ex_no_hold c01s_w0 c01s_s txt_ERROR H0
              Hlen c01s_ops c01s_ex_prefixes Hend) as (evs & T & O & G & _).
  exists evs. split; [exact T|]. split; [exact O|]. split; [exact c01s_ex_unit_text | exact G].
Qed.

(* the glue: the step that started this result code (any step that changes gS) ends in an ack state *)
Example C01s_ex_glue : forall w o,
  gS (Fsm.st _ _ _ (Fsm.step c01s_D (list bool) (list bool) unit c01s_read c01s_write c01s_lock
                       c01s_unlock c01s_call w o)) <> gS (Fsm.st _ _ _ w) ->
  exists s, Fsm.st _ _ _ (Fsm.step c01s_D (list bool) (list bool) unit c01s_read c01s_write c01s_lock
                            c01s_unlock c01s_call w o) = ack_ok s \/
            Fsm.st _ _ _ (Fsm.step c01s_D (list bool) (list bool) unit c01s_read c01s_write c01s_lock
                            c01s_unlock c01s_call w o) = ack_error s.
Proof.
  intros w o H.
  destruct (C01_gS_changes_only_at_ack c01s_D (list bool) (list bool) unit c01s_read c01s_write
              c01s_lock c01s_unlock c01s_call w o) as [E | (s & Hs & _)]; [contradiction|].
  exists s. exact Hs.
Qed.
End C01s_unit_examples.
