(* Skel.v — the control skeleton of the two state machines: an abstraction of the object
   state to its control fields (states, request type, "last char was LF", CR flag, hold
   fields, flush continuation, implicit flag, ghost counters) and, per state, the relation
   "possible successor" written as a readable table (DESIGN.md Appendix A).  SkelSim.v proves
   that every step of the model (Fsm.v) is a step of this skeleton; the control invariants of
   C01, C11, C14, C15, C18, C20 are then proved on the skeleton.  Definitions only. *)
From Coq Require Import List NArith ZArith Bool Arith.
From CatV Require Import Bytes Defs Codec Fsm.
Import ListNotations.
Local Open Scope nat_scope.

Record ctl := mkCtl { ck : cstate; cty : ctype; clf : bool; ccr : bool; chold : bool; chx : Z; cwa : cstate; cimp : bool; uk : ustate; uwa : ustate; gl : nat; gs : nat; gr : nat }.

Definition w_ck (v : cstate) (c : ctl) : ctl := mkCtl v (cty c) (clf c) (ccr c) (chold c) (chx c) (cwa c) (cimp c) (uk c) (uwa c) (gl c) (gs c) (gr c).
Definition w_cty (v : ctype) (c : ctl) : ctl := mkCtl (ck c) v (clf c) (ccr c) (chold c) (chx c) (cwa c) (cimp c) (uk c) (uwa c) (gl c) (gs c) (gr c).
Definition w_clf (v : bool) (c : ctl) : ctl := mkCtl (ck c) (cty c) v (ccr c) (chold c) (chx c) (cwa c) (cimp c) (uk c) (uwa c) (gl c) (gs c) (gr c).
Definition w_ccr (v : bool) (c : ctl) : ctl := mkCtl (ck c) (cty c) (clf c) v (chold c) (chx c) (cwa c) (cimp c) (uk c) (uwa c) (gl c) (gs c) (gr c).
Definition w_chold (v : bool) (c : ctl) : ctl := mkCtl (ck c) (cty c) (clf c) (ccr c) v (chx c) (cwa c) (cimp c) (uk c) (uwa c) (gl c) (gs c) (gr c).
Definition w_chx (v : Z) (c : ctl) : ctl := mkCtl (ck c) (cty c) (clf c) (ccr c) (chold c) v (cwa c) (cimp c) (uk c) (uwa c) (gl c) (gs c) (gr c).
Definition w_cwa (v : cstate) (c : ctl) : ctl := mkCtl (ck c) (cty c) (clf c) (ccr c) (chold c) (chx c) v (cimp c) (uk c) (uwa c) (gl c) (gs c) (gr c).
Definition w_cimp (v : bool) (c : ctl) : ctl := mkCtl (ck c) (cty c) (clf c) (ccr c) (chold c) (chx c) (cwa c) v (uk c) (uwa c) (gl c) (gs c) (gr c).
Definition w_uk (v : ustate) (c : ctl) : ctl := mkCtl (ck c) (cty c) (clf c) (ccr c) (chold c) (chx c) (cwa c) (cimp c) v (uwa c) (gl c) (gs c) (gr c).
Definition w_uwa (v : ustate) (c : ctl) : ctl := mkCtl (ck c) (cty c) (clf c) (ccr c) (chold c) (chx c) (cwa c) (cimp c) (uk c) v (gl c) (gs c) (gr c).
Definition w_gl (v : nat) (c : ctl) : ctl := mkCtl (ck c) (cty c) (clf c) (ccr c) (chold c) (chx c) (cwa c) (cimp c) (uk c) (uwa c) v (gs c) (gr c).
Definition w_gs (v : nat) (c : ctl) : ctl := mkCtl (ck c) (cty c) (clf c) (ccr c) (chold c) (chx c) (cwa c) (cimp c) (uk c) (uwa c) (gl c) v (gr c).
Definition w_gr (v : nat) (c : ctl) : ctl := mkCtl (ck c) (cty c) (clf c) (ccr c) (chold c) (chx c) (cwa c) (cimp c) (uk c) (uwa c) (gl c) (gs c) v.

Definition ctl_of (s : state) : ctl :=
  mkCtl (k_state (k s)) (k_type (k s)) (k_char (k s) =? ch_LF)%N (k_cr (k s)) (k_hold (k s))
        (k_hold_exit (k s)) (k_wafter (k s)) (k_implicit (k s)) (u_state (u s)) (u_wafter (u s))
        (gL s) (gS s) (gR s).

(* ---------- deterministic pieces (abstract counterparts of the helpers of Fsm.v) ---------- *)
Definition a_start_flush (after : cstate) (c : ctl) : ctl := c |> w_cwa after |> w_ck CS_FLUSH_WAIT.
Definition a_start_flush_u (after : ustate) (c : ctl) : ctl := c |> w_uwa after |> w_uk US_FLUSH_WAIT.
(* ack_ok / ack_error: a result code starts *)
Definition a_ack (c : ctl) : ctl := c |> w_gs (S (gs c)) |> a_start_flush CS_AFTER_RESET.
Definition a_reset (c : ctl) : ctl :=
  (if chold c then c |> w_ck CS_HOLD else c |> w_ck CS_IDLE |> w_ccr false) |> w_cty T_NONE.
Definition a_ureset (c : ctl) : ctl := c |> w_uk US_IDLE.
Definition a_enable_hold (c : ctl) : ctl := c |> w_ck CS_HOLD |> w_chold true |> w_chx 0%Z.
Definition a_end (f : fsm) (c : ctl) : ctl := match f with ATCMD => a_ack c | UNSOL => a_ureset c end.
Definition a_set_loop (f : fsm) (rd : bool) (c : ctl) : ctl :=
  match f with
  | ATCMD => w_ck (if rd then CS_READ_LOOP else CS_TEST_LOOP) c
  | UNSOL => w_uk (if rd then US_READ_LOOP else US_TEST_LOOP) c
  end.
Definition a_set_fmt (f : fsm) (rd : bool) (c : ctl) : ctl :=
  match f with
  | ATCMD => w_ck (if rd then CS_FORMAT_READ_ARGS else CS_FORMAT_TEST_ARGS) c
  | UNSOL => w_uk (if rd then US_FORMAT_READ_ARGS else US_FORMAT_TEST_ARGS) c
  end.
Definition a_flush_after (f : fsm) (ac : cstate) (au : ustate) (c : ctl) : ctl :=
  match f with ATCMD => a_start_flush ac c | UNSOL => a_start_flush_u au c end.
Definition a_flush_after_ok (f : fsm) (c : ctl) : ctl := a_flush_after f CS_AFTER_OK US_AFTER_OK c.
(* the byte just read: "was it LF", and the ghost count of terminated non-blank lines *)
Definition a_read (lf : bool) (c : ctl) : ctl :=
  c |> w_clf lf |> w_gl (if lf && negb (cstate_beq (ck c) CS_IDLE) then S (gl c) else gl c).

(* ---------- nondeterministic pieces ---------- *)
(* what API calls made from inside a handler, cat_hold_exit from the application, or a HOLD_EXIT
   return code can do to the control fields: record a release status, only while held *)
Definition heff (c c1 : ctl) : Prop := c1 = c \/ (chold c = true /\ exists z, c1 = w_chx z c).

(* start_processing_format_read_args *)
Definition spfr (f : fsm) (c c' : ctl) : Prop :=
  c' = c \/ c' = a_end f c \/ c' = a_set_fmt f true c \/ c' = a_set_loop f true c.
(* start_processing_format_test_args (including print_response_test) *)
Definition spft (f : fsm) (c c' : ctl) : Prop :=
  c' = c \/ c' = a_end f c \/ c' = a_set_fmt f false c \/ c' = a_set_loop f false c \/
  c' = a_flush_after_ok f c.
Definition start_list (c c' : ctl) : Prop :=
  c' = a_ack c \/ c' = (c |> w_cty T_NONE |> w_ck CS_PRINT_CMD).

(* format_read_args *)
Definition fra_next (f : fsm) (c c' : ctl) : Prop :=
  exists c1, heff c c1 /\
    (c' = c1 \/ c' = a_end f c1 \/ c' = a_set_loop f true c1 \/ c' = a_flush_after_ok f c1).
(* format_test_args *)
Definition fta_next (f : fsm) (c c' : ctl) : Prop :=
  c' = c \/ c' = a_end f c \/ c' = a_set_loop f false c \/ c' = a_flush_after_ok f c.
(* read / test handler loop; event-side HOLD is excluded (scope decision D3) *)
Definition rt_next (rd : bool) (f : fsm) (c c' : ctl) : Prop :=
  exists c1, heff c c1 /\
    (c' = c1 \/ c' = a_end f c1 \/
     c' = a_flush_after f CS_AFTER_OK US_AFTER_OK c1 \/
     c' = (if rd then a_flush_after f CS_AFTER_FMT_READ US_AFTER_FMT_READ c1
           else a_flush_after f CS_AFTER_FMT_TEST US_AFTER_FMT_TEST c1) \/
     (if rd then spfr f c1 c' else spft f c1 c') \/
     (f = ATCMD /\ c' = a_enable_hold c1) \/
     (exists c2, heff c1 c2 /\ c' = a_end f c2) \/
     (rd = false /\ f = ATCMD /\ start_list c1 c')).

(* ---------- the command machine, state by state ---------- *)
Definition cmd_next (bad : Prop) (c c' : ctl) (r : Z) : Prop :=
  match ck c with
  | CS_IDLE =>
    (r = ST_OK /\ c' = c) \/
    (r = ST_BUSY /\ exists lf, let c1 := a_read lf c in
       (lf = false /\ c' = w_ck CS_PARSE_PREFIX c1) \/ c' = c1 \/ (lf = false /\ c' = w_ck CS_ERROR c1))
  | CS_ERROR =>
    (r = ST_OK /\ c' = c) \/
    (r = ST_BUSY /\ exists lf, let c1 := a_read lf c in
       (lf = true /\ c' = a_ack c1) \/ (lf = false /\ (c' = w_ccr true c1 \/ c' = c1)))
  | CS_PARSE_PREFIX =>
    (r = ST_OK /\ c' = c) \/
    (r = ST_BUSY /\ exists lf, let c1 := a_read lf c in
       (lf = false /\ c' = (c1 |> w_cty T_RUN |> w_ck CS_PARSE_COMMAND_CHAR)) \/
       (lf = true /\ c' = a_ack c1) \/
       (lf = false /\ (c' = w_ccr true c1 \/ c' = w_ck CS_ERROR c1)))
  | CS_PARSE_COMMAND_CHAR =>
    (r = ST_OK /\ c' = c) \/
    (r = ST_BUSY /\ exists lf, let c1 := a_read lf c in
       (lf = true /\ (c' = w_ck CS_SEARCH_COMMAND c1 \/ c' = a_ack c1)) \/
       (lf = false /\ (c' = w_ccr true c1 \/ c' = w_ck CS_ERROR c1 \/
                       c' = (c1 |> w_cty T_READ |> w_ck CS_WAIT_READ_ACK) \/
                       c' = (c1 |> w_cty T_WRITE |> w_ck CS_SEARCH_COMMAND) \/
                       c' = w_ck CS_UPDATE_COMMAND_STATE c1)))
  | CS_UPDATE_COMMAND_STATE =>
    r = ST_BUSY /\ exists i, (cimp c = true -> i = true) /\
      (c' = w_cimp i c \/ (i = false /\ c' = (c |> w_cimp i |> w_ck CS_PARSE_COMMAND_CHAR)) \/
       (i = true /\ c' = (c |> w_cty T_WRITE |> w_ck CS_SEARCH_COMMAND |> w_cimp false)))
  | CS_WAIT_READ_ACK =>
    (r = ST_OK /\ c' = c) \/
    (r = ST_BUSY /\ exists lf, let c1 := a_read lf c in
       (lf = true /\ c' = w_ck CS_SEARCH_COMMAND c1) \/
       (lf = false /\ (c' = w_ccr true c1 \/ c' = w_ck CS_ERROR c1)))
  | CS_SEARCH_COMMAND =>
    r = ST_BUSY /\ (c' = c \/ c' = w_ck CS_COMMAND_FOUND c \/
                    c' = w_ck (if clf c then CS_COMMAND_NOT_FOUND else CS_ERROR) c)
  | CS_COMMAND_FOUND =>
    r = ST_BUSY /\
    (c' = c \/
     match cty c with
     | T_RUN => c' = a_ack c \/ c' = w_ck CS_RUN_LOOP c
     | T_READ => c' = a_ack c \/ spfr ATCMD c c'
     | T_WRITE => c' = w_ck CS_PARSE_COMMAND_ARGS c
     | _ => c' = a_ack c
     end)
  | CS_COMMAND_NOT_FOUND => r = ST_BUSY /\ c' = a_ack c
  | CS_PARSE_COMMAND_ARGS =>
    (r = ST_OK /\ c' = c) \/
    (r = ST_BUSY /\ exists lf, let c1 := a_read lf c in
       (lf = true /\ ((bad /\ c' = c1) \/ c' = a_ack c1 \/ c' = w_ck CS_PARSE_WRITE_ARGS c1 \/ c' = w_ck CS_WRITE_LOOP c1)) \/
       (lf = false /\ (c' = c1 \/ c' = w_ccr true c1 \/ c' = w_ck CS_ERROR c1 \/
                       c' = (c1 |> w_cty T_TEST |> w_ck CS_WAIT_TEST_ACK))))
  | CS_PARSE_WRITE_ARGS =>
    r = ST_BUSY /\ exists c1, heff c c1 /\ (c' = c1 \/ c' = a_ack c1 \/ c' = w_ck CS_WRITE_LOOP c1)
  | CS_FORMAT_READ_ARGS => r = ST_BUSY /\ fra_next ATCMD c c'
  | CS_WAIT_TEST_ACK =>
    (r = ST_OK /\ c' = c) \/
    (r = ST_BUSY /\ exists lf, let c1 := a_read lf c in
       (lf = true /\ ((bad /\ c' = c1) \/ c' = a_end ATCMD c1 \/ c' = a_set_fmt ATCMD false c1 \/
                      c' = a_set_loop ATCMD false c1 \/ c' = a_flush_after_ok ATCMD c1)) \/
       (lf = false /\ (c' = w_ccr true c1 \/ c' = w_ck CS_ERROR c1)))
  | CS_FORMAT_TEST_ARGS => r = ST_BUSY /\ fta_next ATCMD c c'
  | CS_WRITE_LOOP =>
    r = ST_BUSY /\ exists c1, heff c c1 /\ (c' = c1 \/ c' = a_ack c1 \/ c' = a_enable_hold c1)
  | CS_RUN_LOOP =>
    r = ST_BUSY /\ exists c1, heff c c1 /\
      (c' = c1 \/ c' = a_ack c1 \/ c' = a_enable_hold c1 \/ start_list c1 c')
  | CS_READ_LOOP => r = ST_BUSY /\ rt_next true ATCMD c c'
  | CS_TEST_LOOP => r = ST_BUSY /\ rt_next false ATCMD c c'
  | CS_HOLD =>
    r = ST_BUSY /\ ((chx c = 0%Z /\ c' = c) \/ (chx c <> 0%Z /\ c' = a_ack (w_chold false c)))
  | CS_FLUSH_WAIT =>
    r = ST_BUSY /\ (c' = c \/ (uk c <> US_FLUSH /\ c' = w_ck CS_FLUSH c))
  | CS_FLUSH =>
    r = ST_BUSY /\
    (c' = c \/
     c' = (c |> w_ck (cwa c) |> w_gr (if cstate_beq (cwa c) CS_AFTER_RESET then S (gr c) else gr c)))
  | CS_AFTER_RESET => r = ST_BUSY /\ c' = a_reset c
  | CS_AFTER_OK => r = ST_BUSY /\ c' = a_ack c
  | CS_AFTER_FMT_READ => r = ST_BUSY /\ spfr ATCMD c c'
  | CS_AFTER_FMT_TEST => r = ST_BUSY /\ spft ATCMD c c'
  | CS_PRINT_CMD =>
    r = ST_BUSY /\
    (c' = a_ack c \/
     exists t, c' = w_cty t c \/ c' = (c |> w_cty t |> w_ck CS_PRINT_CMD) \/
               c' = (c |> w_cwa CS_PRINT_CMD |> w_ck CS_FLUSH_WAIT |> w_cty t))
  end.

(* ---------- the event machine ---------- *)
(* r = ST_OK means: idle and nothing queued *)
Definition uns_next (c c' : ctl) (r : Z) : Prop :=
  match uk c with
  | US_IDLE =>
    (r = ST_OK /\ c' = c) \/
    (r = ST_BUSY /\ (c' = c \/ spfr UNSOL c c' \/ spft UNSOL c c'))
  | US_FORMAT_READ_ARGS => r = ST_BUSY /\ fra_next UNSOL c c'
  | US_FORMAT_TEST_ARGS => r = ST_BUSY /\ fta_next UNSOL c c'
  | US_READ_LOOP => r = ST_BUSY /\ rt_next true UNSOL c c'
  | US_TEST_LOOP => r = ST_BUSY /\ rt_next false UNSOL c c'
  | US_FLUSH_WAIT => r = ST_BUSY /\ (c' = c \/ (ck c <> CS_FLUSH /\ c' = w_uk US_FLUSH c))
  | US_FLUSH => r = ST_BUSY /\ (c' = c \/ c' = w_uk (uwa c) c)
  | US_AFTER_RESET => r = ST_BUSY /\ c' = a_ureset c
  | US_AFTER_OK => r = ST_BUSY /\ c' = a_ureset c
  | US_AFTER_FMT_READ => r = ST_BUSY /\ spfr UNSOL c c'
  | US_AFTER_FMT_TEST => r = ST_BUSY /\ spft UNSOL c c'
  end.

(* one cat_service call (between lock and unlock) *)
Definition svc_next (bad : Prop) (c c' : ctl) (r : Z) : Prop :=
  exists c1 us rc, uns_next c c1 us /\ cmd_next bad c1 c' rc /\
    r = (if negb (us =? ST_OK)%Z || negb (ustate_beq (uk c') US_IDLE) then ST_BUSY else rc).

(* any public operation *)
Definition op_next (bad : Prop) (o : op) (c c' : ctl) (r : Z) : Prop :=
  match o with
  | OService => (c' = c /\ (r = ST_MUTEX_LOCK)) \/
                (exists r0, svc_next bad c c' r0 /\ (r = r0 \/ r = ST_MUTEX_UNLOCK))
  | OHoldExit _ => heff c c'
  | _ => c' = c
  end.
