(* TraceDefs.v — projections of the event trace used to state the whole-history theorems
   (C13, C16, C17).  The trace `tr w` is newest-first; `hist w` is oldest-first.  No proofs. *)
From Coq Require Import List NArith ZArith Bool Arith.
From CatV Require Import Bytes Defs Codec Fsm.
Import ListNotations.

Section TraceDefs.
Variables ioS muS hS : Type.
Definition hist (w : world ioS muS hS) : list event := rev (tr _ _ _ w).
End TraceDefs.

(* ---- C13: events accepted into the queue, events taken out of it ---- *)
(* a trigger call (from the application or from inside a handler) that returned CAT_STATUS_OK *)
Definition accepted_of (e : event) : list (nat * ctype) :=
  match e with
  | ERet (OTrigger ci t) r => if (r =? ST_OK)%Z then [(ci, t)] else []
  | EInner (ITrigger ci t) r => if (r =? ST_OK)%Z then [(ci, t)] else []
  | _ => []
  end.
(* a trigger call that was refused because the queue was full *)
Definition refused_of (e : event) : list (nat * ctype) :=
  match e with
  | ERet (OTrigger ci t) r => if (r =? ST_BUFFER_FULL)%Z then [(ci, t)] else []
  | EInner (ITrigger ci t) r => if (r =? ST_BUFFER_FULL)%Z then [(ci, t)] else []
  | _ => []
  end.
Definition popped_of (e : event) : list (nat * ctype) :=
  match e with EPop ci t => [(ci, t)] | _ => [] end.

Definition accepted (h : list event) : list (nat * ctype) := flat_map accepted_of h.
Definition popped (h : list event) : list (nat * ctype) := flat_map popped_of h.

(* ---- C16: the lock/unlock discipline ---- *)
(* lock/unlock projection of a history *)
Definition lock_of (e : event) : list (bool * bool) :=     (* (is_lock, succeeded) *)
  match e with ELock ok => [(true, ok)] | EUnlock ok => [(false, ok)] | _ => [] end.
Definition locks (h : list event) : list (bool * bool) := flat_map lock_of h.

(* balanced, never nested: a sequence of  "lock failed"  |  "lock ok ; unlock (ok or failed)",
   possibly ending inside a bracket *)
Fixpoint locks_ok (held : bool) (l : list (bool * bool)) : bool :=
  match l with
  | [] => true
  | (true, ok) :: r => negb held && locks_ok ok r
  | (false, _) :: r => held && locks_ok false r
  end.
