(* Properties_C02.v — final statements of properties C02 (name resolution) and C09 (resolution and
   the enable flags); proofs in Lemmas_C02.v. *)
From Coq Require Import List NArith ZArith Bool Arith.
From CatV Require Import Bytes Defs Codec Spec Fsm ResolveDefs Lemmas_C02.
Import ListNotations.
Local Open Scope nat_scope.

(* 1. lane algebra *)
Theorem C02_lane_algebra : forall b j v, (b < 256)%N -> j < 4 -> (v < 4)%N ->
  lane_get (lane_set b j v) j = v /\ (lane_set b j v < 256)%N /\
  (forall j', j' < 4 -> j' <> j -> lane_get (lane_set b j v) j' = lane_get b j').
Proof. exact Lemmas_C02.C02_lane_algebra. Qed.
Print Assumptions C02_lane_algebra.

(* 2. after the sweeps of the typed characters, every enabled command's lane holds its match status.
   The side condition [typed <> [] \/ c_name c <> []] is necessary: before the first character all
   lanes are PARTIAL, whereas lane_spec [] c = FULL for an empty table name. *)
Theorem C02_lanes : forall D s typed,
  let n := ncmds D in
  0 < n -> n <= 4 * length (cbuf s) -> fault s = false -> k_implicit (k s) = false ->
  implicit_hit D s typed = false ->
  let s1 := fold_left (name_char_step D) typed (prepare_parse_command s) in
  fault s1 = false /\ k_implicit (k s1) = false /\ k_length (k s1) = length typed /\ k_index (k s1) = 0 /\
  (typed <> [] -> k_state (k s1) = CS_PARSE_COMMAND_CHAR) /\
  forall i c, nth_error (cmds D) i = Some c -> enabled D s i = true ->
              (typed <> [] \/ c_name c <> []) ->
              get_cmd_state D s1 i = Some (lane_spec typed c).
Proof. exact Lemmas_C02.C02_lanes. Qed.
Print Assumptions C02_lanes.

(* 3. the whole lookup computes resolve *)
Theorem C02_resolve : forall D s typed term,
  let n := ncmds D in
  0 < n -> n <= 4 * length (cbuf s) -> fault s = false -> k_implicit (k s) = false ->
  typed <> [] -> implicit_hit D s typed = false ->
  let s1 := fold_left (name_char_step D) typed (prepare_parse_command s) in
  let s2 := search_run D n (start_search s1 term) in
  fault s2 = false /\
  match resolve typed (enabled D s) (cmds D) with
  | Some i => k_state (k s2) = CS_COMMAND_FOUND /\ k_cmd (k s2) = Some i
  | None => k_state (k s2) = (if (term =? ch_LF)%N then CS_COMMAND_NOT_FOUND else CS_ERROR)
  end.
Proof. exact Lemmas_C02.C02_resolve. Qed.
Print Assumptions C02_resolve.

(* 4. implicit write *)
Theorem C02_implicit : forall D s typed,
  let n := ncmds D in
  0 < n -> n <= 4 * length (cbuf s) -> fault s = false -> k_implicit (k s) = false ->
  typed <> [] -> implicit_hit D s (removelast typed) = false -> implicit_hit D s typed = true ->
  let s1 := fold_left (name_char_step D) typed (prepare_parse_command s) in
  k_state (k s1) = CS_SEARCH_COMMAND /\ k_type (k s1) = T_WRITE /\ k_implicit (k s1) = false /\
  let s2 := search_run D n s1 in
  fault s2 = false /\ k_state (k s2) = CS_COMMAND_FOUND /\
  k_cmd (k s2) = find_full typed (enabled D s) (cmds D) 0 /\ k_cmd (k s2) <> None.
Proof. exact Lemmas_C02.C02_implicit. Qed.
Print Assumptions C02_implicit.

(* 5. (C09) resolution never selects a disabled command and only depends on the enabled sub-table *)
Theorem C09_resolve_enabled : forall typed en cs i,
  resolve typed en cs = Some i -> en i = true /\ i < length cs.
Proof. exact Lemmas_C02.C09_resolve_enabled. Qed.
Print Assumptions C09_resolve_enabled.

Theorem C09_resolve_ext : forall typed en1 en2 cs,
  (forall i, i < length cs -> en1 i = en2 i) -> resolve typed en1 cs = resolve typed en2 cs.
Proof. exact Lemmas_C02.C09_resolve_ext. Qed.
Print Assumptions C09_resolve_ext.
