(* Lemmas_Inv.v — the history theorems under hypotheses that hold on an INVARIANT of the oracle
   states only.

   The history theorems of this development (J_reachable, J_in_domain, C03_no_fault,
   C03_safe_reachable, C01, C11b, C13, C14, C16, C17, C18 ...) assume that the handler oracle never
   answers HOLD to the event machine / only triggers pool commands / makes no inner call, and that
   the unlock oracle never fails, for EVERY oracle state.  The scripted oracles of Script.v do not
   satisfy that: some script state answers HOLD, some unlock schedule fails.  The proofs only
   need the calls actually made to behave.  Here the theorems are transferred, without being
   proved again, to oracles that behave on an invariant of their state:

     1. (section Transfer) two handler oracles h1 h2 and two unlock oracles ul1 ul2 that agree on
        an invariant HI of the handler state / MI of the mutex state preserved by h1, mu_lock and
        ul1 produce the same run from every world whose oracle states satisfy the invariants;
     2. (section Inv) the sanitised oracle h_san answers like h_call but repairs every answer that
        is not Good (an event-side HOLD becomes ERROR, invalid inner calls are dropped): it
        satisfies no_uhold and handlers_valid for ALL states, and equals h_call on HI;
        likewise h_noinner (drops the inner calls when a mutex is configured) and ul_san (the
        unlock always succeeds);
     3. the `_inv` theorems: apply the existing theorem to the sanitised oracle and rewrite with
        the run equality;
     4. (section Scripted) the invariants of the scripted oracles s_call / s_unlock, and the
        theorems on srun D (sinit D m x mx h) (map SOp ops). *)
From Coq Require Import List NArith ZArith Bool Arith Lia.
From CatV Require Import Bytes Defs Codec Fsm Script Skel SkelInv SkelSim TraceDefs ResolveDefs SchedDefs TermDefs.
From CatV Require Import Lemmas_Ctl Lemmas_C03 Lemmas_Domain Lemmas_C12 Lemmas_C13 Lemmas_C16 Lemmas_C17b Lemmas_C15c.
From CatV Require Properties_C01 Properties_C11b Properties_C14 Properties_C18.
Import ListNotations.
Local Open Scope nat_scope.

(* ================================================================== *)
(* 1. oracles that agree on an invariant produce the same run          *)
(* ================================================================== *)
Section Transfer.
Variable D : desc.
Variables ioS muS hS : Type.
Variable io_read : ioS -> ioS * option N.
Variable io_write : ioS -> N -> ioS * bool.
Variable mu_lock : muS -> muS * bool.
Variables ul1 ul2 : muS -> muS * bool.
Variables h1 h2 : hS -> hreq -> hS * hres.
Variable HI : hS -> Prop.
Variable MI : muS -> Prop.
Hypothesis h_agree : forall hs q, HI hs -> h2 hs q = h1 hs q.
Hypothesis h_pres : forall hs q, HI hs -> HI (fst (h1 hs q)).
Hypothesis m_agree : forall m, MI m -> ul2 m = ul1 m.
Hypothesis m_pres_lock : forall m, MI m -> MI (fst (mu_lock m)).
Hypothesis m_pres_unlock : forall m, MI m -> MI (fst (ul1 m)).

Local Notation world := (Fsm.world ioS muS hS).
Local Notation st := (Fsm.st ioS muS hS).
Local Notation io := (Fsm.io ioS muS hS).
Local Notation mu := (Fsm.mu ioS muS hS).
Local Notation hs := (Fsm.hs ioS muS hS).

(* the oracle states of a world satisfy the invariants *)
Definition WI (w : world) : Prop := HI (hs w) /\ MI (mu w).

Local Notation bracket1 := (Fsm.bracket D ioS muS hS mu_lock ul1).
Local Notation bracket2 := (Fsm.bracket D ioS muS hS mu_lock ul2).
Local Notation apply_icall1 := (Fsm.apply_icall D ioS muS hS mu_lock ul1).
Local Notation apply_icall2 := (Fsm.apply_icall D ioS muS hS mu_lock ul2).
Local Notation call_h1 := (Fsm.call_h D ioS muS hS mu_lock ul1 h1).
Local Notation call_h2 := (Fsm.call_h D ioS muS hS mu_lock ul2 h2).
Local Notation cmd1 := (Fsm.cmd_service D ioS muS hS io_read io_write mu_lock ul1 h1).
Local Notation cmd2 := (Fsm.cmd_service D ioS muS hS io_read io_write mu_lock ul2 h2).
Local Notation uns1 := (Fsm.unsolicited_events_service D ioS muS hS io_write mu_lock ul1 h1).
Local Notation uns2 := (Fsm.unsolicited_events_service D ioS muS hS io_write mu_lock ul2 h2).
Local Notation body1 := (Fsm.service_body D ioS muS hS io_read io_write mu_lock ul1 h1).
Local Notation body2 := (Fsm.service_body D ioS muS hS io_read io_write mu_lock ul2 h2).
Local Notation do_op1 := (Fsm.do_op D ioS muS hS io_read io_write mu_lock ul1 h1).
Local Notation do_op2 := (Fsm.do_op D ioS muS hS io_read io_write mu_lock ul2 h2).
Local Notation step1 := (Fsm.step D ioS muS hS io_read io_write mu_lock ul1 h1).
Local Notation step2 := (Fsm.step D ioS muS hS io_read io_write mu_lock ul2 h2).
Local Notation run1 := (Fsm.run D ioS muS hS io_read io_write mu_lock ul1 h1).
Local Notation run2 := (Fsm.run D ioS muS hS io_read io_write mu_lock ul2 h2).

Ltac wi := unfold WI in *; wcbn; first [assumption | tauto].

(* two bodies that agree on WI worlds, bracketed *)
Lemma bracket_agree : forall (b1 b2 : world -> world * Z),
  (forall w, WI w -> b2 w = b1 w /\ WI (fst (b1 w))) ->
  forall w, WI w -> bracket2 w b2 = bracket1 w b1 /\ WI (fst (bracket1 w b1)).
Proof.
  intros b1 b2 Hb w H. unfold Fsm.bracket. destruct (d_mutex D); [|apply Hb; exact H].
  destruct H as [Hh Hm]. pose proof (m_pres_lock _ Hm) as Hl.
  destruct (mu_lock (mu w)) as [m1 ok]. cbn [fst] in Hl.
  destruct ok; cbn [negb]; [|split; [reflexivity | wi]].
  match goal with |- context [b2 ?x] => destruct (Hb x) as [E W]; [wi|]; rewrite E; clear E end.
  match goal with |- context [b1 ?x] => destruct (b1 x) as [w2 s] end. cbn [fst] in W.
  destruct W as [Wh Wm]. rewrite (m_agree _ Wm). pose proof (m_pres_unlock _ Wm) as Hu.
  destruct (ul1 (mu w2)) as [m2 ok2]. cbn [fst] in Hu.
  destruct ok2; cbn [negb]; split; try reflexivity; wi.
Qed.

Lemma api_trigger_agree : forall w ci t, WI w ->
  Fsm.api_trigger D ioS muS hS mu_lock ul2 w ci t = Fsm.api_trigger D ioS muS hS mu_lock ul1 w ci t /\
  WI (fst (Fsm.api_trigger D ioS muS hS mu_lock ul1 w ci t)).
Proof.
  intros w ci t H. unfold Fsm.api_trigger. apply bracket_agree; [|exact H].
  intros w' H'. cbv beta. split; [reflexivity|].
  destruct (push_unsolicited_cmd D (st w') ci t) as [s' r]. wi.
Qed.

Lemma api_hold_exit_agree : forall w z, WI w ->
  Fsm.api_hold_exit D ioS muS hS mu_lock ul2 w z = Fsm.api_hold_exit D ioS muS hS mu_lock ul1 w z /\
  WI (fst (Fsm.api_hold_exit D ioS muS hS mu_lock ul1 w z)).
Proof.
  intros w z H. unfold Fsm.api_hold_exit. apply bracket_agree; [|exact H].
  intros w' H'. cbv beta. split; [reflexivity|].
  destruct (hold_exit (st w') z) as [s' r]. wi.
Qed.

Lemma apply_icall_agree : forall w c, WI w ->
  apply_icall2 w c = apply_icall1 w c /\ WI (apply_icall1 w c).
Proof.
  intros w c H. unfold Fsm.apply_icall. destruct c as [ci t|z].
  - destruct (api_trigger_agree w ci t H) as [E W]. rewrite E.
    destruct (Fsm.api_trigger D ioS muS hS mu_lock ul1 w ci t) as [w' r]. split; [reflexivity | wi].
  - destruct (api_hold_exit_agree w z H) as [E W]. rewrite E.
    destruct (Fsm.api_hold_exit D ioS muS hS mu_lock ul1 w z) as [w' r]. split; [reflexivity | wi].
Qed.

Lemma fold_icall_agree : forall l w, WI w ->
  fold_left apply_icall2 l w = fold_left apply_icall1 l w /\ WI (fold_left apply_icall1 l w).
Proof.
  induction l as [|c l IH]; intros w H; [split; [reflexivity | exact H]|]. cbn [fold_left].
  destruct (apply_icall_agree w c H) as [E W]. rewrite E. apply IH. exact W.
Qed.

Lemma call_h_agree : forall w q, WI w -> call_h2 w q = call_h1 w q /\ WI (fst (call_h1 w q)).
Proof.
  intros w q H. unfold Fsm.call_h. rewrite (h_agree _ q (proj1 H)).
  pose proof (h_pres _ q (proj1 H)) as P. destruct (h1 (hs w) q) as [h' r]. cbn [fst] in *.
  match goal with |- context [fold_left apply_icall2 ?l ?x] =>
    destruct (fold_icall_agree l x) as [E W]; [wi|]; rewrite E end.
  split; [reflexivity | exact W].
Qed.

(* symbolic evaluation: rewrite the next callback, destruct the next scrutinee *)
Ltac ag_go :=
  repeat first
    [ match goal with
      | |- context [call_h2 ?w ?q] =>
        let E := fresh "E" in let W := fresh "W" in
        destruct (call_h_agree w q) as [E W]; [wi|]; rewrite E; clear E;
        destruct (call_h1 w q) as [? ?]; cbn [fst] in W
      end
    | dm ].
Ltac ag_fin := split; [reflexivity | wi].

Lemma reading_WI : forall w body, WI w -> WI (fst (Fsm.reading ioS muS hS io_read w body)).
Proof.
  intros w body H. unfold Fsm.reading, Fsm.read_cmd_char.
  destruct (io_read (io w)) as [io' [ch|]]; cbn [negb]; wi.
Qed.

Lemma cmd_agree : forall w, WI w -> cmd2 w = cmd1 w /\ WI (fst (cmd1 w)).
Proof.
  intros w H. unfold Fsm.cmd_service.
  destruct (k_state (k (st w)));
    try (split; [reflexivity|];
         first [ apply reading_WI; exact H | wi ]).
  - (* parse_write_args *) unfold Fsm.parse_write_args. cbv zeta. ag_go; ag_fin.
  - (* format_read_args *) unfold Fsm.format_read_args. cbv zeta. ag_go; ag_fin.
  - (* write loop *) unfold Fsm.process_write_loop. cbv zeta. ag_go; ag_fin.
  - unfold Fsm.process_rt_loop. cbv zeta. ag_go; ag_fin.
  - unfold Fsm.process_rt_loop. cbv zeta. ag_go; ag_fin.
  - unfold Fsm.process_run_loop. cbv zeta. ag_go; ag_fin.
  - (* flush *) unfold Fsm.process_io_write. cbv zeta. ag_go; ag_fin.
Qed.

Lemma uns_agree : forall w, WI w -> uns2 w = uns1 w /\ WI (fst (uns1 w)).
Proof.
  intros w H. unfold Fsm.unsolicited_events_service.
  destruct (u_state (u (st w))); try (split; [reflexivity | wi]).
  - ag_go; ag_fin.
  - unfold Fsm.format_read_args. cbv zeta. ag_go; ag_fin.
  - unfold Fsm.process_rt_loop. cbv zeta. ag_go; ag_fin.
  - unfold Fsm.process_rt_loop. cbv zeta. ag_go; ag_fin.
  - unfold Fsm.unsolicited_process_io_write. cbv zeta. ag_go; ag_fin.
Qed.

Lemma body_agree : forall w, WI w -> body2 w = body1 w /\ WI (fst (body1 w)).
Proof.
  intros w H. unfold Fsm.service_body.
  destruct (uns_agree w H) as [E W]. rewrite E. destruct (uns1 w) as [w1 us]. cbn [fst] in W.
  destruct (cmd_agree w1 W) as [E' W']. rewrite E'. destruct (cmd1 w1) as [w2 s]. cbn [fst] in W'.
  destruct (_ || _); split; try reflexivity; exact W'.
Qed.

Lemma do_op_agree : forall w o, WI w -> do_op2 w o = do_op1 w o /\ WI (fst (do_op1 w o)).
Proof.
  intros w o H. destruct o; cbn [Fsm.do_op];
    [ unfold Fsm.api_service; apply bracket_agree; [exact body_agree | exact H]
    | apply api_trigger_agree; exact H
    | apply api_hold_exit_agree; exact H
    | unfold Fsm.api_is_busy; apply bracket_agree; [|exact H]; intros w' H'; cbv beta; split; [reflexivity | wi]
    | unfold Fsm.api_is_hold; apply bracket_agree; [|exact H]; intros w' H'; cbv beta; split; [reflexivity | wi]
    | unfold Fsm.api_is_full; apply bracket_agree; [|exact H]; intros w' H'; cbv beta; split; [reflexivity | wi]
    | split; [reflexivity | wi] .. ].
Qed.

Theorem step_agree : forall w o, WI w -> step2 w o = step1 w o /\ WI (step1 w o).
Proof.
  intros w o H. unfold Fsm.step. destruct (do_op_agree w o H) as [E W]. rewrite E.
  destruct (do_op1 w o) as [w' r]. split; [reflexivity | wi].
Qed.

Theorem run_agree : forall ops w, WI w -> run2 w ops = run1 w ops /\ WI (run1 w ops).
Proof.
  unfold Fsm.run. induction ops as [|o ops IH]; intros w H; [split; [reflexivity | exact H]|].
  cbn [fold_left]. destruct (step_agree w o H) as [E W]. rewrite E. apply IH. exact W.
Qed.

End Transfer.

(* ================================================================== *)
(* 2. the sanitised oracles                                            *)
(* ================================================================== *)

(* valid_icall, decided *)
Definition valid_icallb (D : desc) (c : icall) : bool :=
  match c with
  | ITrigger ci t => (ci <? length (pool D)) && (ctype_beq t T_READ || ctype_beq t T_TEST)
  | IHoldExit _ => true
  end.

Lemma valid_icallb_spec : forall D c, valid_icallb D c = true <-> valid_icall D c.
Proof.
  intros D [ci t|z]; cbn [valid_icallb valid_icall]; [|split; auto].
  unfold valid_trigger. rewrite andb_true_iff, Nat.ltb_lt. split; intros [A B]; (split; [exact A|]).
  - destruct t; cbn in B; try discriminate; auto.
  - destruct B as [-> | ->]; reflexivity.
Qed.

(* what the history theorems need from one answer r to the request q:
   no HOLD to the event machine (scope decision D3), inner triggers name pool commands *)
Definition Good (D : desc) (q : hreq) (r : hres) : Prop :=
  (unsol_req q = true -> r_code r <> RC_HOLD) /\ Forall (valid_icall D) (r_calls r).

Definition goodb (D : desc) (q : hreq) (r : hres) : bool :=
  (negb (unsol_req q) || negb (r_code r =? RC_HOLD)%Z) && forallb (valid_icallb D) (r_calls r).

Lemma forallb_valid : forall D l, forallb (valid_icallb D) l = true <-> Forall (valid_icall D) l.
Proof.
  intros D l. rewrite forallb_forall, Forall_forall.
  split; intros H c Hc; apply valid_icallb_spec; apply H; exact Hc.
Qed.

Lemma goodb_spec : forall D q r, goodb D q r = true <-> Good D q r.
Proof.
  intros D q r. unfold goodb, Good. rewrite andb_true_iff, forallb_valid.
  split; intros [A B]; (split; [|exact B]).
  - intros Hq E. rewrite Hq, E in A. cbn in A. discriminate.
  - destruct (unsol_req q); [|reflexivity]. cbn [negb orb]. apply negb_true_iff, Z.eqb_neq. apply A. reflexivity.
Qed.

(* the repaired answer: an event-side HOLD becomes ERROR, invalid inner calls are dropped *)
Definition fix_res (D : desc) (q : hreq) (r : hres) : hres :=
  if goodb D q r then r
  else mkHres (if unsol_req q && (r_code r =? RC_HOLD)%Z then RC_ERROR else r_code r)
              (r_edit r) (r_pokes r) (filter (valid_icallb D) (r_calls r)).

Lemma fix_res_good : forall D q r, Good D q (fix_res D q r).
Proof.
  intros D q r. unfold fix_res. destruct (goodb D q r) eqn:E; [apply goodb_spec; exact E|].
  split; cbn [r_code r_calls].
  - intros Hq. rewrite Hq. cbn [andb]. destruct (r_code r =? RC_HOLD)%Z eqn:C; [discriminate|].
    apply Z.eqb_neq. exact C.
  - apply Forall_forall. intros c Hc. apply filter_In in Hc. apply valid_icallb_spec. apply Hc.
Qed.

Lemma fix_res_id : forall D q r, Good D q r -> fix_res D q r = r.
Proof. intros D q r H. unfold fix_res. apply goodb_spec in H. rewrite H. reflexivity. Qed.

Definition drop_calls (r : hres) : hres := mkHres (r_code r) (r_edit r) (r_pokes r) [].

Lemma drop_calls_id : forall r, r_calls r = [] -> drop_calls r = r.
Proof. intros [c e p l] H. cbn in H. subst l. reflexivity. Qed.

(* the weaker repair: only the event-side HOLD *)
Definition fix_hold (q : hreq) (r : hres) : hres :=
  if unsol_req q && (r_code r =? RC_HOLD)%Z then mkHres RC_ERROR (r_edit r) (r_pokes r) (r_calls r) else r.

Lemma fix_hold_ok : forall q r, unsol_req q = true -> r_code (fix_hold q r) <> RC_HOLD.
Proof.
  intros q r Hq. unfold fix_hold. rewrite Hq. cbn [andb].
  destruct (r_code r =? RC_HOLD)%Z eqn:C; [discriminate | apply Z.eqb_neq; exact C].
Qed.

Lemma fix_hold_id : forall q r, (unsol_req q = true -> r_code r <> RC_HOLD) -> fix_hold q r = r.
Proof.
  intros q r H. unfold fix_hold. destruct (unsol_req q); [|reflexivity]. cbn [andb].
  destruct (r_code r =? RC_HOLD)%Z eqn:C; [|reflexivity]. apply Z.eqb_eq in C. destruct (H eq_refl C).
Qed.

Section Inv.
Variable D : desc.
Variables ioS muS hS : Type.
Variable io_read : ioS -> ioS * option N.
Variable io_write : ioS -> N -> ioS * bool.
Variable mu_lock : muS -> muS * bool.
Variable mu_unlock : muS -> muS * bool.
Variable h_call : hS -> hreq -> hS * hres.

Local Notation world := (Fsm.world ioS muS hS).
Local Notation st := (Fsm.st ioS muS hS).
Local Notation io := (Fsm.io ioS muS hS).
Local Notation mu := (Fsm.mu ioS muS hS).
Local Notation hs := (Fsm.hs ioS muS hS).
Local Notation tr := (Fsm.tr ioS muS hS).
Local Notation hist := (TraceDefs.hist ioS muS hS).
Local Notation run := (Fsm.run D ioS muS hS io_read io_write mu_lock mu_unlock h_call).
Local Notation step := (Fsm.step D ioS muS hS io_read io_write mu_lock mu_unlock h_call).
Local Notation cmd_service := (Fsm.cmd_service D ioS muS hS io_read io_write mu_lock mu_unlock h_call).
Local Notation reach m x mx h ops := (run (mkWorld ioS muS hS (init_state D m) x mx h []) ops).

(* ---------------- handler oracle: no HOLD to the event machine ---------------- *)
Definition h_sanH (h : hS) (q : hreq) : hS * hres :=
  let (h', r) := h_call h q in (h', fix_hold q r).

Lemma h_sanH_no_uhold : forall h q, unsol_req q = true -> r_code (snd (h_sanH h q)) <> RC_HOLD.
Proof. intros h q. unfold h_sanH. destruct (h_call h q) as [h' r]. apply fix_hold_ok. Qed.

(* ---------------- handler oracle: every answer Good ---------------- *)
Definition h_san (h : hS) (q : hreq) : hS * hres :=
  let (h', r) := h_call h q in (h', fix_res D q r).

Lemma h_san_good : forall h q, Good D q (snd (h_san h q)).
Proof. intros h q. unfold h_san. destruct (h_call h q) as [h' r]. apply fix_res_good. Qed.

(* the two hypotheses of the history theorems, for ALL states *)
Lemma h_san_no_uhold : forall h q, unsol_req q = true -> r_code (snd (h_san h q)) <> RC_HOLD.
Proof. intros h q. apply (h_san_good h q). Qed.
Lemma h_san_valid : forall h q, Forall (valid_icall D) (r_calls (snd (h_san h q))).
Proof. intros h q. apply (h_san_good h q). Qed.
Lemma h_san_icall_ok : forall h q, Forall (icall_ok D) (r_calls (snd (h_san h q))).
Proof.
  intros h q. eapply Forall_impl; [|apply h_san_valid].
  intros [ci t|z] Hc; cbn in *; [apply Hc | exact I].
Qed.

(* ---------------- handler oracle: no inner call under a mutex ---------------- *)
Definition h_noinner (h : hS) (q : hreq) : hS * hres :=
  let (h', r) := h_call h q in (h', if d_mutex D then drop_calls r else r).

Lemma h_noinner_ok : d_mutex D = true -> forall h q, r_calls (snd (h_noinner h q)) = [].
Proof. intros M h q. unfold h_noinner. destruct (h_call h q) as [h' r]. rewrite M. reflexivity. Qed.

(* ---------------- unlock oracle: never fails ---------------- *)
Definition ul_san (m : muS) : muS * bool := (fst (mu_unlock m), true).

Lemma ul_san_ok : unlock_ok D muS ul_san.
Proof. right. intros m. reflexivity. Qed.

(* ================================================================== *)
(* 3. the history theorems on an invariant of the handler state        *)
(* ================================================================== *)

(* ---- 3a. theorems that need no_uhold only ---- *)
Section HInvH.
Variable HI : hS -> Prop.
Hypothesis HI_stepH : forall h q, HI h ->
  HI (fst (h_call h q)) /\ (unsol_req q = true -> r_code (snd (h_call h q)) <> RC_HOLD).

Lemma h_sanH_eq : forall h q, HI h -> h_sanH h q = h_call h q.
Proof.
  intros h q H. destruct (HI_stepH h q H) as [_ G]. unfold h_sanH.
  destruct (h_call h q) as [h' r]. cbn [snd] in G. rewrite (fix_hold_id q r G). reflexivity.
Qed.

Local Notation runH := (Fsm.run D ioS muS hS io_read io_write mu_lock mu_unlock h_sanH).
Local Notation stepH := (Fsm.step D ioS muS hS io_read io_write mu_lock mu_unlock h_sanH).
Local Notation cmd_serviceH := (Fsm.cmd_service D ioS muS hS io_read io_write mu_lock mu_unlock h_sanH).
Local Notation TRH T := (T D ioS muS hS io_read io_write mu_lock mu_unlock mu_unlock h_call h_sanH HI
                           (fun _ : muS => True) h_sanH_eq (fun h q Hh => proj1 (HI_stepH h q Hh))
                           (fun m _ => eq_refl) (fun m _ => I) (fun m _ => I)).

(* the run driven by the sanitised oracle is the run driven by h_call *)
Theorem run_sanH : forall (w : world) ops, HI (hs w) -> runH w ops = run w ops /\ HI (hs (run w ops)).
Proof.
  intros w ops H. destruct (TRH run_agree ops w (conj H I)) as [E W]. split; [exact E | exact (proj1 W)].
Qed.

Theorem step_sanH : forall (w : world) o, HI (hs w) -> stepH w o = step w o /\ HI (hs (step w o)).
Proof.
  intros w o H. destruct (TRH step_agree w o (conj H I)) as [E W]. split; [exact E | exact (proj1 W)].
Qed.

Lemma cmd_sanH : forall w : world, HI (hs w) -> cmd_serviceH w = cmd_service w.
Proof. intros w H. exact (proj1 (TRH cmd_agree w (conj H I))). Qed.

(* the invariant of the handler state along every history *)
Theorem HI_reachable : forall (w : world) ops, HI (hs w) -> HI (hs (run w ops)).
Proof. intros w ops H. exact (proj2 (run_sanH w ops H)). Qed.

(* ---- Lemmas_Ctl ---- *)
Theorem J_reachable_inv : forall m x mx h ops, HI h ->
  let w := reach m x mx h ops in
  fault (st w) = false -> J (ctl_of (st w)).
Proof.
  intros m x mx h ops Hh. cbv zeta.
  rewrite <- (proj1 (run_sanH (mkWorld ioS muS hS (init_state D m) x mx h []) ops Hh)).
  exact (J_reachable D ioS muS hS io_read io_write mu_lock mu_unlock h_sanH h_sanH_no_uhold m x mx h ops).
Qed.

Theorem J_step_inv : forall (w : world) o, HI (hs w) ->
  J (ctl_of (st w)) -> fault (st (step w o)) = false -> J (ctl_of (st (step w o))).
Proof.
  intros w o Hh. rewrite <- (proj1 (step_sanH w o Hh)).
  exact (J_step D ioS muS hS io_read io_write mu_lock mu_unlock h_sanH h_sanH_no_uhold w o).
Qed.

Theorem J_run_inv : forall (w0 : world) ops, HI (hs w0) ->
  J (ctl_of (st w0)) -> fault (st (run w0 ops)) = false -> J (ctl_of (st (run w0 ops))).
Proof.
  intros w0 ops Hh. rewrite <- (proj1 (run_sanH w0 ops Hh)).
  exact (J_run D ioS muS hS io_read io_write mu_lock mu_unlock h_sanH h_sanH_no_uhold w0 ops).
Qed.
End HInvH.

(* ---- 3b. theorems that need no_uhold and handlers_valid ---- *)
Section HInv.
Variable HI : hS -> Prop.
Hypothesis HI_step : forall h q, HI h -> HI (fst (h_call h q)) /\ Good D q (snd (h_call h q)).

Lemma HI_step_weak : forall h q, HI h ->
  HI (fst (h_call h q)) /\ (unsol_req q = true -> r_code (snd (h_call h q)) <> RC_HOLD).
Proof. intros h q H. destruct (HI_step h q H) as [A [B _]]. split; assumption. Qed.

Lemma h_san_eq : forall h q, HI h -> h_san h q = h_call h q.
Proof.
  intros h q H. destruct (HI_step h q H) as [_ G]. unfold h_san.
  destruct (h_call h q) as [h' r]. cbn [snd] in G. rewrite (fix_res_id D q r G). reflexivity.
Qed.

Local Notation run' := (Fsm.run D ioS muS hS io_read io_write mu_lock mu_unlock h_san).
Local Notation step' := (Fsm.step D ioS muS hS io_read io_write mu_lock mu_unlock h_san).
Local Notation TR T := (T D ioS muS hS io_read io_write mu_lock mu_unlock mu_unlock h_call h_san HI
                          (fun _ : muS => True) h_san_eq (fun h q Hh => proj1 (HI_step h q Hh))
                          (fun m _ => eq_refl) (fun m _ => I) (fun m _ => I)).

Theorem run_san : forall (w : world) ops, HI (hs w) -> run' w ops = run w ops /\ HI (hs (run w ops)).
Proof.
  intros w ops H. destruct (TR run_agree ops w (conj H I)) as [E W]. split; [exact E | exact (proj1 W)].
Qed.

Theorem step_san : forall (w : world) o, HI (hs w) -> step' w o = step w o /\ HI (hs (step w o)).
Proof.
  intros w o H. destruct (TR step_agree w o (conj H I)) as [E W]. split; [exact E | exact (proj1 W)].
Qed.

Ltac to_san h ops Hh :=
  rewrite <- (proj1 (run_san (mkWorld ioS muS hS (init_state D _) _ _ h []) ops Hh)).

(* ---- Lemmas_Domain, Lemmas_C03 ---- *)
Theorem J_in_domain_inv : forall m x mx h ops, HI h ->
  wf_desc D m -> Forall (valid_op D) ops ->
  let s := st (reach m x mx h ops) in
  fault s = false /\ J (ctl_of s).
Proof.
  intros m x mx h ops Hh. cbv zeta. to_san h ops Hh.
  exact (J_in_domain D ioS muS hS io_read io_write mu_lock mu_unlock h_san h_san_no_uhold h_san_valid m x mx h ops).
Qed.

Theorem C03_no_fault_inv : forall m x mx h ops, HI h ->
  wf_desc D m -> Forall (valid_op D) ops ->
  fault (st (reach m x mx h ops)) = false.
Proof.
  intros m x mx h ops Hh. to_san h ops Hh.
  exact (C03_no_fault D ioS muS hS io_read io_write mu_lock mu_unlock h_san h_san_valid m x mx h ops).
Qed.

Lemma valid_op_ok : forall ops, Forall (valid_op D) ops -> Forall (op_ok D) ops.
Proof.
  intros ops F. eapply Forall_impl; [|exact F]. intros o Ho. destruct o; cbn in *; try exact I. apply Ho.
Qed.

Theorem C03_safe_reachable_inv : forall m x mx h ops, HI h ->
  wf_desc D m -> Forall (valid_op D) ops ->
  Safe D m (st (reach m x mx h ops)).
Proof.
  intros m x mx h ops Hh WF F. to_san h ops Hh.
  exact (C03_safe_reachable D ioS muS hS io_read io_write mu_lock mu_unlock h_san h_san_icall_ok
           m x mx h ops WF (valid_op_ok ops F)).
Qed.

(* Safe is preserved by every run from a Safe state *)
Theorem run_safe_inv : forall m (w : world) ops, HI (hs w) ->
  wf_desc D m -> Forall (valid_op D) ops -> Safe D m (st w) -> Safe D m (st (run w ops)).
Proof.
  intros m w ops Hh WF F HS. rewrite <- (proj1 (run_san w ops Hh)).
  exact (run_safe D m WF ioS muS hS io_read io_write mu_lock mu_unlock h_san h_san_icall_ok ops w
           (valid_op_ok ops F) HS).
Qed.

Theorem step_safe_inv : forall m (w : world) o, HI (hs w) ->
  wf_desc D m -> valid_op D o -> Safe D m (st w) -> Safe D m (st (step w o)).
Proof.
  intros m w o Hh WF F HS. rewrite <- (proj1 (step_san w o Hh)).
  refine (step_safe D m WF ioS muS hS io_read io_write mu_lock mu_unlock h_san h_san_icall_ok w o _ HS).
  destruct o; cbn in *; try exact I. apply F.
Qed.

(* everything at once: the invariants of a reachable world of the domain *)
Theorem reachable_inv : forall m x mx h ops, HI h ->
  wf_desc D m -> Forall (valid_op D) ops ->
  let w := reach m x mx h ops in
  fault (st w) = false /\ Safe D m (st w) /\ J (ctl_of (st w)) /\ HI (hs w).
Proof.
  intros m x mx h ops Hh WF F. cbv zeta.
  destruct (J_in_domain_inv m x mx h ops Hh WF F) as [A B].
  split; [exact A|]. split; [exact (C03_safe_reachable_inv m x mx h ops Hh WF F)|].
  split; [exact B|]. exact (proj2 (run_san (mkWorld ioS muS hS (init_state D m) x mx h []) ops Hh)).
Qed.
End HInv.
End Inv.

(* ================================================================== *)
(* 3'. the history theorems of C01, C11b, C14, C18 on the invariant    *)
(* ================================================================== *)
Section InvPropsH.
Variable D : desc.
Variables ioS muS hS : Type.
Variable io_read : ioS -> ioS * option N.
Variable io_write : ioS -> N -> ioS * bool.
Variable mu_lock : muS -> muS * bool.
Variable mu_unlock : muS -> muS * bool.
Variable h_call : hS -> hreq -> hS * hres.
Variable HI : hS -> Prop.
Hypothesis HI_stepH : forall h q, HI h ->
  HI (fst (h_call h q)) /\ (unsol_req q = true -> r_code (snd (h_call h q)) <> RC_HOLD).

Local Notation world := (Fsm.world ioS muS hS).
Local Notation st := (Fsm.st ioS muS hS).
Local Notation hs := (Fsm.hs ioS muS hS).
Local Notation run := (Fsm.run D ioS muS hS io_read io_write mu_lock mu_unlock h_call).
Local Notation cmd_service := (Fsm.cmd_service D ioS muS hS io_read io_write mu_lock mu_unlock h_call).
Local Notation reach m x mx h ops := (run (mkWorld ioS muS hS (init_state D m) x mx h []) ops).
Local Notation hsan := (h_sanH hS h_call).
Local Notation NU := (h_sanH_no_uhold hS h_call).
Local Notation ARGS T := (T D ioS muS hS io_read io_write mu_lock mu_unlock hsan).

Ltac to_san h ops Hh :=
  cbv zeta;
  rewrite <- (proj1 (run_sanH D ioS muS hS io_read io_write mu_lock mu_unlock h_call HI HI_stepH
                       (mkWorld ioS muS hS (init_state D _) _ _ h []) ops Hh)).
Ltac to_san_cmd w Hh :=
  cbv zeta;
  rewrite <- (cmd_sanH D ioS muS hS io_read io_write mu_lock mu_unlock h_call HI HI_stepH w Hh).

(* ---- C01 ---- *)
Theorem C01_one_result_per_line_inv : forall m x mx h ops, HI h ->
  let s := st (reach m x mx h ops) in
  fault s = false ->
  gR s <= gL s <= S (gR s) /\ gR s <= gS s <= gL s.
Proof.
  intros m x mx h ops Hh. to_san h ops Hh.
  exact (ARGS Properties_C01.C01_one_result_per_line NU m x mx h ops).
Qed.

Theorem C01_reads_only_when_settled_inv : forall m x mx h ops, HI h ->
  let s := st (reach m x mx h ops) in
  fault s = false -> reading_state (k_state (k s)) = true ->
  gL s = gR s /\ gS s = gR s.
Proof.
  intros m x mx h ops Hh. to_san h ops Hh.
  exact (ARGS Properties_C01.C01_reads_only_when_settled NU m x mx h ops).
Qed.

Theorem C01_result_is_last_inv : forall m x mx h ops, HI h ->
  let s := st (reach m x mx h ops) in
  fault s = false -> gS s = S (gR s) ->
  (k_state (k s) = CS_FLUSH_WAIT \/ k_state (k s) = CS_FLUSH) /\ k_wafter (k s) = CS_AFTER_RESET.
Proof.
  intros m x mx h ops Hh. to_san h ops Hh.
  exact (ARGS Properties_C01.C01_result_is_last NU m x mx h ops).
Qed.

Theorem C01_blank_line_inv : forall w : world, HI (hs w) -> k_state (k (st w)) = CS_IDLE ->
  let s := st w in let s' := st (fst (cmd_service w)) in
  gL s' = gL s /\ gS s' = gS s /\ gR s' = gR s /\
  (k_state (k s') = CS_IDLE \/ k_state (k s') = CS_PARSE_PREFIX \/ k_state (k s') = CS_ERROR).
Proof.
  intros w Hh. to_san_cmd w Hh. exact (ARGS Properties_C01.C01_blank_line NU w).
Qed.

Theorem C01_drain_inv : forall w : world, HI (hs w) -> k_state (k (st w)) = CS_ERROR ->
  let s := st w in let s' := st (fst (cmd_service w)) in
  (k_state (k s') = CS_ERROR /\ gL s' = gL s /\ gS s' = gS s /\ gR s' = gR s) \/
  (k_state (k s') = CS_FLUSH_WAIT /\ k_wafter (k s') = CS_AFTER_RESET /\
   gL s' = S (gL s) /\ gS s' = S (gS s) /\ gR s' = gR s).
Proof.
  intros w Hh. to_san_cmd w Hh. exact (ARGS Properties_C01.C01_drain NU w).
Qed.

Theorem C01_lookup_exits_inv : forall w : world, HI (hs w) -> k_state (k (st w)) = CS_SEARCH_COMMAND ->
  let s := st w in let s' := st (fst (cmd_service w)) in
  gL s' = gL s /\ gS s' = gS s /\ gR s' = gR s /\
  (k_state (k s') = CS_SEARCH_COMMAND \/ k_state (k s') = CS_COMMAND_FOUND \/
   (k_state (k s') = CS_COMMAND_NOT_FOUND /\ k_char (k s) = ch_LF) \/
   (k_state (k s') = CS_ERROR /\ k_char (k s) <> ch_LF)).
Proof.
  intros w Hh. to_san_cmd w Hh. exact (ARGS Properties_C01.C01_lookup_exits NU w).
Qed.

(* ---- C11b ---- *)
Theorem C11_exclusion_history_inv : forall m x mx h ops, HI h ->
  let s := st (reach m x mx h ops) in
  fault s = false -> ~ (k_state (k s) = CS_FLUSH /\ u_state (u s) = US_FLUSH).
Proof.
  intros m x mx h ops Hh. to_san h ops Hh.
  exact (ARGS Properties_C11b.C11_exclusion_history NU m x mx h ops).
Qed.

(* ---- C14 ---- *)
Theorem C14_flag_is_state_inv : forall m x mx h ops, HI h ->
  let s := st (reach m x mx h ops) in
  fault s = false ->
  (k_hold (k s) = true <-> k_state (k s) = CS_HOLD) /\
  (k_state (k s) = CS_HOLD -> gL s = S (gR s) /\ gS s = gR s).
Proof.
  intros m x mx h ops Hh. to_san h ops Hh.
  exact (ARGS Properties_C14.C14_flag_is_state NU m x mx h ops).
Qed.

(* ---- C18 ---- *)
Theorem C18_busy_sound_inv : forall m x mx h ops, HI h ->
  let s := st (reach m x mx h ops) in
  fault s = false -> is_busy s = ST_OK ->
  gL s = gR s /\ gS s = gR s /\
  k_hold (k s) = false /\ k_cr (k s) = false /\ k_implicit (k s) = false /\
  k_state (k s) <> CS_FLUSH /\ k_state (k s) <> CS_FLUSH_WAIT /\
  u_state (u s) <> US_FLUSH /\ u_state (u s) <> US_FLUSH_WAIT.
Proof.
  intros m x mx h ops Hh. to_san h ops Hh.
  exact (ARGS Properties_C18.C18_busy_sound NU m x mx h ops).
Qed.

Theorem C18_hold_exact_inv : forall m x mx h ops, HI h ->
  let s := st (reach m x mx h ops) in
  fault s = false -> (is_hold s = ST_HOLD <-> k_state (k s) = CS_HOLD).
Proof.
  intros m x mx h ops Hh. to_san h ops Hh.
  exact (ARGS Properties_C18.C18_hold_exact NU m x mx h ops).
Qed.
End InvPropsH.

Section InvProps.
Variable D : desc.
Variables ioS muS hS : Type.
Variable io_read : ioS -> ioS * option N.
Variable io_write : ioS -> N -> ioS * bool.
Variable mu_lock : muS -> muS * bool.
Variable mu_unlock : muS -> muS * bool.
Variable h_call : hS -> hreq -> hS * hres.
Variable HI : hS -> Prop.
Hypothesis HI_step : forall h q, HI h -> HI (fst (h_call h q)) /\ Good D q (snd (h_call h q)).

Local Notation st := (Fsm.st ioS muS hS).
Local Notation run := (Fsm.run D ioS muS hS io_read io_write mu_lock mu_unlock h_call).
Local Notation reach m x mx h ops := (run (mkWorld ioS muS hS (init_state D m) x mx h []) ops).
Local Notation hsan := (h_san D hS h_call).
Local Notation NU := (h_san_no_uhold D hS h_call).
Local Notation HV := (h_san_valid D hS h_call).
Local Notation ARGS T := (T D ioS muS hS io_read io_write mu_lock mu_unlock hsan).

Ltac to_san h ops Hh :=
  cbv zeta;
  rewrite <- (proj1 (run_san D ioS muS hS io_read io_write mu_lock mu_unlock h_call HI HI_step
                       (mkWorld ioS muS hS (init_state D _) _ _ h []) ops Hh)).

Theorem C01_in_domain_inv : forall m x mx h ops, HI h ->
  wf_desc D m -> Forall (valid_op D) ops ->
  let s := st (reach m x mx h ops) in
  (gR s <= gL s <= S (gR s) /\ gR s <= gS s <= gL s) /\
  (reading_state (k_state (k s)) = true -> gL s = gR s /\ gS s = gR s) /\
  (gS s = S (gR s) -> (k_state (k s) = CS_FLUSH_WAIT \/ k_state (k s) = CS_FLUSH) /\ k_wafter (k s) = CS_AFTER_RESET).
Proof.
  intros m x mx h ops Hh. to_san h ops Hh.
  exact (ARGS Properties_C01.C01_in_domain NU HV m x mx h ops).
Qed.

Theorem C11_exclusion_in_domain_inv : forall m x mx h ops, HI h ->
  wf_desc D m -> Forall (valid_op D) ops ->
  let s := st (reach m x mx h ops) in
  ~ (k_state (k s) = CS_FLUSH /\ u_state (u s) = US_FLUSH).
Proof.
  intros m x mx h ops Hh. to_san h ops Hh.
  exact (ARGS Properties_C11b.C11_exclusion_in_domain NU HV m x mx h ops).
Qed.

Theorem C14_in_domain_inv : forall m x mx h ops, HI h ->
  wf_desc D m -> Forall (valid_op D) ops ->
  let s := st (reach m x mx h ops) in
  (k_hold (k s) = true <-> k_state (k s) = CS_HOLD) /\
  (k_state (k s) = CS_HOLD -> gL s = S (gR s) /\ gS s = gR s).
Proof.
  intros m x mx h ops Hh. to_san h ops Hh.
  exact (ARGS Properties_C14.C14_in_domain NU HV m x mx h ops).
Qed.

Theorem C18_in_domain_inv : forall m x mx h ops, HI h ->
  wf_desc D m -> Forall (valid_op D) ops ->
  let s := st (reach m x mx h ops) in
  (is_busy s = ST_OK ->
     gL s = gR s /\ gS s = gR s /\ k_hold (k s) = false /\ k_cr (k s) = false /\ k_implicit (k s) = false /\
     k_state (k s) = CS_IDLE /\ u_state (u s) = US_IDLE) /\
  (is_hold s = ST_HOLD <-> k_state (k s) = CS_HOLD).
Proof.
  intros m x mx h ops Hh. to_san h ops Hh.
  exact (ARGS Properties_C18.C18_in_domain NU HV m x mx h ops).
Qed.
End InvProps.

(* ================================================================== *)
(* 3''. C16 on an invariant of the handler state (no inner call)       *)
(* ================================================================== *)
Section InvC16.
Variable D : desc.
Variables ioS muS hS : Type.
Variable io_read : ioS -> ioS * option N.
Variable io_write : ioS -> N -> ioS * bool.
Variable mu_lock : muS -> muS * bool.
Variable mu_unlock : muS -> muS * bool.
Variable h_call : hS -> hreq -> hS * hres.
Variable HN : hS -> Prop.
(* with a mutex configured, the handlers called from HN states make no inner API call *)
Hypothesis HN_step : forall h q, HN h ->
  HN (fst (h_call h q)) /\ (d_mutex D = true -> r_calls (snd (h_call h q)) = []).

Local Notation world := (Fsm.world ioS muS hS).
Local Notation mu := (Fsm.mu ioS muS hS).
Local Notation hs := (Fsm.hs ioS muS hS).
Local Notation tr := (Fsm.tr ioS muS hS).
Local Notation hist := (TraceDefs.hist ioS muS hS).
Local Notation run := (Fsm.run D ioS muS hS io_read io_write mu_lock mu_unlock h_call).
Local Notation do_op := (Fsm.do_op D ioS muS hS io_read io_write mu_lock mu_unlock h_call).
Local Notation reach m x mx h ops := (run (mkWorld ioS muS hS (init_state D m) x mx h []) ops).
Local Notation hni := (h_noinner D hS h_call).

Lemma h_noinner_eq : forall h q, HN h -> hni h q = h_call h q.
Proof.
  intros h q H. destruct (HN_step h q H) as [_ G]. unfold h_noinner.
  destruct (h_call h q) as [h' r]. cbn [snd] in G.
  destruct (Bool.bool_dec (d_mutex D) true) as [M|M].
  - rewrite M. rewrite (drop_calls_id r (G M)). reflexivity.
  - apply not_true_is_false in M. rewrite M. reflexivity.
Qed.

Local Notation TR T := (T D ioS muS hS io_read io_write mu_lock mu_unlock mu_unlock h_call hni HN
                          (fun _ : muS => True) h_noinner_eq (fun h q Hh => proj1 (HN_step h q Hh))
                          (fun m _ => eq_refl) (fun m _ => I) (fun m _ => I)).

Theorem run_noinner : forall (w : world) ops, HN (hs w) ->
  Fsm.run D ioS muS hS io_read io_write mu_lock mu_unlock hni w ops = run w ops /\ HN (hs (run w ops)).
Proof.
  intros w ops H. destruct (TR run_agree ops w (conj H I)) as [E W]. split; [exact E | exact (proj1 W)].
Qed.

Theorem C16_history_inv : forall m x mx h ops, HN h ->
  locks_ok false (locks (hist (reach m x mx h ops))) = true.
Proof.
  intros m x mx h ops Hh.
  rewrite <- (proj1 (run_noinner (mkWorld ioS muS hS (init_state D m) x mx h []) ops Hh)).
  exact (Lemmas_C16.C16_history D ioS muS hS io_read io_write mu_lock mu_unlock hni
           (h_noinner_ok D hS h_call) m x mx h ops).
Qed.

Theorem C16_lock_success_inv : forall (w : world) o, HN (hs w) ->
  d_mutex D = true -> locking_op o = true ->
  snd (mu_lock (mu w)) = true ->
  let (w', r) := do_op w o in
  exists body ok2, tr w' = EUnlock ok2 :: body ++ ELock true :: tr w /\
                   forallb (fun e => negb (is_lock_ev e)) body = true /\
                   (ok2 = false -> r = ST_MUTEX_UNLOCK) /\
                   (ok2 = true -> r <> ST_MUTEX_UNLOCK /\ r <> ST_MUTEX_LOCK).
Proof.
  intros w o Hh. rewrite <- (proj1 (TR do_op_agree w o (conj Hh I))).
  exact (Lemmas_C16.C16_lock_success D ioS muS hS io_read io_write mu_lock mu_unlock hni
           (h_noinner_ok D hS h_call) w o).
Qed.
End InvC16.

(* ================================================================== *)
(* 3'''. C13 / C17 on an invariant of the mutex state (unlock succeeds) *)
(* ================================================================== *)
Section InvMu.
Variable D : desc.
Variables ioS muS hS : Type.
Variable io_read : ioS -> ioS * option N.
Variable io_write : ioS -> N -> ioS * bool.
Variable mu_lock : muS -> muS * bool.
Variable mu_unlock : muS -> muS * bool.
Variable h_call : hS -> hreq -> hS * hres.
Variable MI : muS -> Prop.
Hypothesis MI_lock : forall m, MI m -> MI (fst (mu_lock m)).
Hypothesis MI_unlock : forall m, MI m -> MI (fst (mu_unlock m)) /\ snd (mu_unlock m) = true.

Local Notation world := (Fsm.world ioS muS hS).
Local Notation st := (Fsm.st ioS muS hS).
Local Notation mu := (Fsm.mu ioS muS hS).
Local Notation hist := (TraceDefs.hist ioS muS hS).
Local Notation run := (Fsm.run D ioS muS hS io_read io_write mu_lock mu_unlock h_call).
Local Notation step := (Fsm.step D ioS muS hS io_read io_write mu_lock mu_unlock h_call).
Local Notation reach m x mx h ops := (run (mkWorld ioS muS hS (init_state D m) x mx h []) ops).
Local Notation uls := (ul_san muS mu_unlock).

Lemma ul_san_eq : forall m, MI m -> uls m = mu_unlock m.
Proof.
  intros m H. destruct (MI_unlock m H) as [_ E]. unfold ul_san.
  destruct (mu_unlock m) as [m' b]. cbn [fst snd] in *. rewrite E. reflexivity.
Qed.

Theorem run_ulsan : forall (w : world) ops, MI (mu w) ->
  Fsm.run D ioS muS hS io_read io_write mu_lock uls h_call w ops = run w ops /\ MI (mu (run w ops)).
Proof.
  intros w ops H.
  destruct (run_agree D ioS muS hS io_read io_write mu_lock mu_unlock uls h_call h_call (fun _ => True) MI
              (fun h q _ => eq_refl) (fun h q _ => I) ul_san_eq MI_lock
              (fun m Hm => proj1 (MI_unlock m Hm)) ops w (conj I H)) as [E W].
  split; [exact E | exact (proj2 W)].
Qed.

Theorem C13_exactly_once_inv : forall m x mx h ops,
  0 < d_cap D -> (d_mutex D = false \/ MI mx) ->
  let w := reach m x mx h ops in
  ring_wf D (st w) /\ accepted (hist w) = popped (hist w) ++ ring_items D (st w).
Proof.
  intros m x mx h ops Hc [M|Hm]; cbv zeta.
  - exact (Lemmas_C13.C13_exactly_once D ioS muS hS io_read io_write mu_lock mu_unlock h_call
             m x mx h ops Hc (or_introl M)).
  - rewrite <- (proj1 (run_ulsan (mkWorld ioS muS hS (init_state D m) x mx h []) ops Hm)).
    exact (Lemmas_C13.C13_exactly_once D ioS muS hS io_read io_write mu_lock uls h_call
             m x mx h ops Hc (ul_san_ok D muS mu_unlock)).
Qed.

Theorem C17_per_producer_inv : forall (P : nat * ctype -> bool) m x mx h ops,
  0 < d_cap D -> (d_mutex D = false \/ MI mx) ->
  let w := reach m x mx h ops in
  filter P (accepted (hist w)) = filter P (popped (hist w)) ++ filter P (ring_items D (st w)).
Proof.
  intros P m x mx h ops Hc [M|Hm]; cbv zeta.
  - exact (Lemmas_C13.C17_per_producer D ioS muS hS io_read io_write mu_lock mu_unlock h_call
             P m x mx h ops Hc (or_introl M)).
  - rewrite <- (proj1 (run_ulsan (mkWorld ioS muS hS (init_state D m) x mx h []) ops Hm)).
    exact (Lemmas_C13.C17_per_producer D ioS muS hS io_read io_write mu_lock uls h_call
             P m x mx h ops Hc (ul_san_ok D muS mu_unlock)).
Qed.

(* C17b: threads; the shared world of an all-idle configuration is the run of the linearisation
   (Lemmas_C17b.threads_run, no hypothesis on the oracles), so C17_per_producer_inv applies *)
Theorem C17_threads_exactly_once_inv :
  forall (P : nat * ctype -> bool) m x mx h (tl : list (list op)) lin (c : conf world op),
  0 < d_cap D -> (d_mutex D = false \/ MI mx) ->
  let w0 := mkWorld ioS muS hS (init_state D m) x mx h [] in
  msteps (fun o w => step w o) (start w0 tl) lin c -> all_idle c ->
  let w := shared c in
  w = run w0 (map snd lin) /\
  filter P (accepted (hist w)) = filter P (popped (hist w)) ++ filter P (ring_items D (st w)).
Proof.
  intros P m x mx h tl lin c Hcap Hun w0 Hm Hid w.
  assert (E : w = run w0 (map snd lin)).
  { unfold w. exact (threads_run D ioS muS hS io_read io_write mu_lock mu_unlock h_call
                       (start w0 tl) lin c (start_quiescent _ _ w0 tl) Hm Hid). }
  split; [exact E|]. rewrite E. exact (C17_per_producer_inv P m x mx h (map snd lin) Hcap Hun).
Qed.

(* one step from any world: the queue invariant and the condition on the mutex are preserved *)
Theorem ring_inv_step_inv : forall (w : world) o, (d_mutex D = false \/ MI (mu w)) ->
  ring_inv D ioS muS hS w ->
  ring_inv D ioS muS hS (step w o) /\ (d_mutex D = false \/ MI (mu (step w o))).
Proof.
  intros w o [M|Hm] HR.
  - split; [|left; exact M].
    exact (ring_inv_move D ioS muS hS mu_lock mu_unlock (or_introl M) w (step w o)
             (step_move D ioS muS hS io_read io_write mu_lock mu_unlock h_call w o) HR).
  - destruct (step_agree D ioS muS hS io_read io_write mu_lock mu_unlock uls h_call h_call (fun _ => True) MI
                (fun h q _ => eq_refl) (fun h q _ => I) ul_san_eq MI_lock
                (fun m Hm => proj1 (MI_unlock m Hm)) w o (conj I Hm)) as [E W].
    split; [|right; exact (proj2 W)]. rewrite <- E.
    exact (ring_inv_move D ioS muS hS mu_lock uls (ul_san_ok D muS mu_unlock) w _
             (step_move D ioS muS hS io_read io_write mu_lock uls h_call w o) HR).
Qed.
End InvMu.

(* ================================================================== *)
(* 4. the scripted oracles of Script.v                                 *)
(* ================================================================== *)

(* kinds of script keys (Script.key_of): 0 write, 1 read, 2 run, 3 test handler of a command;
   4 / 5 read / write callback of a variable.  The key does not say which machine asks, so
   `no HOLD to the event machine` has to be: no HOLD in any read or test script *)
Definition rt_kind (k : hkey) : bool := let '(kind, _, _) := k in (kind =? 1) || (kind =? 3).

(* no script of kind read or test contains a HOLD answer (write and run scripts may) *)
Definition no_rt_hold (h : shs) : bool :=
  forallb (fun e => negb (rt_kind (fst e)) || forallb no_hold_res (snd e)) h.

(* every inner call of the answer is a valid trigger (pool command, type READ or TEST) or a hold exit *)
Definition res_calls_valid (D : desc) (r : hres) : bool := forallb (valid_icallb D) (r_calls r).

(* the answer makes no inner call *)
Definition res_no_calls (r : hres) : bool := match r_calls r with [] => true | _ :: _ => false end.

(* the scripted unlock never fails *)
Definition unlock_never_fails (mx : smu) : bool := forallb (fun b : bool => b) (unlock_sched mx).

(* the invariant of the scripted handler state *)
Definition SI (D : desc) (h : shs) : Prop :=
  no_rt_hold h = true /\ script_ok (res_calls_valid D) h = true.

Lemma key_eqb_rt : forall a b, key_eqb a b = true -> rt_kind a = rt_kind b.
Proof.
  intros [[a1 a2] a3] [[b1 b2] b3] H. unfold key_eqb in H.
  apply andb_true_iff in H. destruct H as [H _]. apply andb_true_iff in H. destruct H as [H _].
  apply Nat.eqb_eq in H. subst b1. reflexivity.
Qed.

Lemma unsol_rt : forall q, unsol_req q = true -> rt_kind (key_of q) = true.
Proof. intros q H. destruct q as [| [|] | [|] | | |]; cbn in *; try discriminate; reflexivity. Qed.

Lemma s_call_rt : forall h q, no_rt_hold h = true ->
  no_rt_hold (fst (s_call h q)) = true /\
  (rt_kind (key_of q) = true -> no_hold_res (snd (s_call h q)) = true).
Proof.
  unfold no_rt_hold. induction h as [|[k0 sc] r IH]; intros q H.
  - cbn. split; [reflexivity|]. intros _. destruct q; reflexivity.
  - cbn [s_call]. cbn [forallb fst snd] in H. apply andb_true_iff in H. destruct H as [H1 H2].
    destruct (key_eqb k0 (key_of q)) eqn:K.
    + destruct sc as [|x sc'].
      * cbn [fst snd forallb]. rewrite H2, orb_true_r. split; [reflexivity|]. intros _. destruct q; reflexivity.
      * cbn [fst snd forallb]. rewrite H2. rewrite (key_eqb_rt _ _ K) in *.
        destruct (rt_kind (key_of q)); cbn [negb orb] in *.
        -- cbn [forallb] in H1. apply andb_true_iff in H1. destruct H1 as [Hx Hs]. rewrite Hs.
           split; [reflexivity | intros _; exact Hx].
        -- split; [reflexivity | discriminate].
    + destruct (IH q H2) as [A B]. destruct (s_call r q) as [r' x]. cbn [fst snd] in *.
      cbn [forallb fst snd]. rewrite H1, A. split; [reflexivity | exact B].
Qed.

Lemma no_rt_hold_step : forall h q, no_rt_hold h = true ->
  no_rt_hold (fst (s_call h q)) = true /\
  (unsol_req q = true -> r_code (snd (s_call h q)) <> RC_HOLD).
Proof.
  intros h q H. destruct (s_call_rt h q H) as [A B]. split; [exact A|].
  intros Hq. specialize (B (unsol_rt q Hq)). unfold no_hold_res in B.
  apply negb_true_iff in B. apply Z.eqb_neq. exact B.
Qed.

Lemma SI_step : forall D h q, SI D h -> SI D (fst (s_call h q)) /\ Good D q (snd (s_call h q)).
Proof.
  intros D h q [A B]. destruct (no_rt_hold_step h q A) as [A1 A2].
  destruct (s_call_ok (res_calls_valid D)) with (h := h) (q := q) as [B1 B2];
    [destruct q0; reflexivity | exact B |].
  split; [split; assumption|]. split; [exact A2|]. apply forallb_valid. exact B2.
Qed.

Lemma no_calls_step : forall (P : Prop) h q, (P -> script_ok res_no_calls h = true) ->
  (P -> script_ok res_no_calls (fst (s_call h q)) = true) /\ (P -> r_calls (snd (s_call h q)) = []).
Proof.
  intros P h q H. split; intros HP;
    (destruct (s_call_ok res_no_calls) with (h := h) (q := q) as [B1 B2];
      [destruct q0; reflexivity | exact (H HP) |]); [exact B1|].
  unfold res_no_calls in B2. destruct (r_calls (snd (s_call h q))); [reflexivity | discriminate].
Qed.

Lemma s_lock_unlock_sched : forall x, unlock_sched (fst (s_lock x)) = unlock_sched x.
Proof. intros x. unfold s_lock. destruct (pop_bit (lock_sched x)) as [b r]. reflexivity. Qed.

Lemma MI_s_lock : forall x, unlock_never_fails x = true -> unlock_never_fails (fst (s_lock x)) = true.
Proof. intros x H. unfold unlock_never_fails. rewrite s_lock_unlock_sched. exact H. Qed.

Lemma MI_s_unlock : forall x, unlock_never_fails x = true ->
  unlock_never_fails (fst (s_unlock x)) = true /\ snd (s_unlock x) = true.
Proof.
  intros x H. unfold unlock_never_fails, s_unlock in *. destruct (unlock_sched x) as [|b r]; cbn in *.
  - split; reflexivity.
  - apply andb_true_iff in H. destruct H as [-> H]. split; [exact H | reflexivity].
Qed.

Lemma script_ok_impl : forall (P Q : hres -> bool), (forall r, P r = true -> Q r = true) ->
  forall h, script_ok P h = true -> script_ok Q h = true.
Proof.
  intros P Q HPQ h H. unfold script_ok in *. rewrite forallb_forall in *. intros e He.
  specialize (H e He). rewrite forallb_forall in *. intros r Hr. apply HPQ, H, Hr.
Qed.

Lemma res_calls_valid_ok : forall D r, res_calls_valid D r = true -> res_calls_ok D r = true.
Proof.
  intros D r H. unfold res_calls_valid, res_calls_ok in *. rewrite forallb_forall in *.
  intros c Hc. specialize (H c Hc). destruct c as [ci t|z]; cbn in *; [|reflexivity].
  apply andb_true_iff in H. apply H.
Qed.

(* a scenario made of API calls only is a run of the model *)
Lemma srun_SOp : forall D ops (w : sworld),
  srun D w (map SOp ops) = run D sio smu shs s_read s_write s_lock s_unlock s_call w ops.
Proof.
  intros D. unfold srun, run. induction ops as [|o ops IH]; intros w; [reflexivity|].
  cbn [map fold_left]. rewrite IH. reflexivity.
Qed.

Section Scripted.
Variable D : desc.

Local Notation st := (Fsm.st sio smu shs).
Local Notation io := (Fsm.io sio smu shs).
Local Notation mu := (Fsm.mu sio smu shs).
Local Notation hs := (Fsm.hs sio smu shs).
Local Notation hist := (TraceDefs.hist sio smu shs).
Local Notation SC T := (T D sio smu shs s_read s_write s_lock s_unlock s_call).
Local Notation HIH := (fun h : shs => no_rt_hold h = true).
Local Notation HN := (fun h : shs => d_mutex D = true -> script_ok res_no_calls h = true).
Local Notation MI := (fun x : smu => unlock_never_fails x = true).

Lemma HN_step : forall h q, HN h ->
  HN (fst (s_call h q)) /\ (d_mutex D = true -> r_calls (snd (s_call h q)) = []).
Proof. intros h q H. exact (no_calls_step (d_mutex D = true) h q H). Qed.

(* ---- histories made of API calls ---- *)
Theorem J_reachable_scripted : forall m x mx h ops, no_rt_hold h = true ->
  let w := srun D (sinit D m x mx h) (map SOp ops) in
  fault (st w) = false -> J (ctl_of (st w)).
Proof.
  intros m x mx h ops Hh. cbv zeta. unfold sinit. rewrite srun_SOp.
  exact (SC J_reachable_inv HIH no_rt_hold_step m x mx h ops Hh).
Qed.

Theorem J_in_domain_scripted : forall m x mx h ops,
  wf_desc D m -> Forall (valid_op D) ops ->
  no_rt_hold h = true -> script_ok (res_calls_valid D) h = true ->
  let s := st (srun D (sinit D m x mx h) (map SOp ops)) in
  fault s = false /\ J (ctl_of s).
Proof.
  intros m x mx h ops WF F A B. cbv zeta. unfold sinit. rewrite srun_SOp.
  exact (SC J_in_domain_inv (SI D) (SI_step D) m x mx h ops (conj A B) WF F).
Qed.

Theorem C03_safe_scripted : forall m x mx h ops,
  wf_desc D m -> Forall (valid_op D) ops ->
  no_rt_hold h = true -> script_ok (res_calls_valid D) h = true ->
  let w := srun D (sinit D m x mx h) (map SOp ops) in
  fault (st w) = false /\ Safe D m (st w) /\ J (ctl_of (st w)).
Proof.
  intros m x mx h ops WF F A B. cbv zeta. unfold sinit. rewrite srun_SOp.
  destruct (SC reachable_inv (SI D) (SI_step D) m x mx h ops (conj A B) WF F) as (H1 & H2 & H3 & _).
  split; [exact H1|]. split; [exact H2 | exact H3].
Qed.

(* the script conditions are themselves invariant *)
Theorem scripts_stay_ok : forall m x mx h ops,
  no_rt_hold h = true -> script_ok (res_calls_valid D) h = true ->
  let w := srun D (sinit D m x mx h) (map SOp ops) in
  no_rt_hold (hs w) = true /\ script_ok (res_calls_valid D) (hs w) = true.
Proof.
  intros m x mx h ops A B. cbv zeta. unfold sinit. rewrite srun_SOp.
  exact (proj2 (SC run_san (SI D) (SI_step D) (mkWorld sio smu shs (init_state D m) x mx h []) ops (conj A B))).
Qed.

Theorem C13_exactly_once_scripted : forall m x mx h ops,
  0 < d_cap D -> (d_mutex D = false \/ unlock_never_fails mx = true) ->
  let w := srun D (sinit D m x mx h) (map SOp ops) in
  ring_wf D (st w) /\ accepted (hist w) = popped (hist w) ++ ring_items D (st w).
Proof.
  intros m x mx h ops Hc Hm. cbv zeta. unfold sinit. rewrite srun_SOp.
  exact (SC C13_exactly_once_inv MI MI_s_lock MI_s_unlock m x mx h ops Hc Hm).
Qed.

Theorem C17_per_producer_scripted : forall (P : nat * ctype -> bool) m x mx h ops,
  0 < d_cap D -> (d_mutex D = false \/ unlock_never_fails mx = true) ->
  let w := srun D (sinit D m x mx h) (map SOp ops) in
  filter P (accepted (hist w)) = filter P (popped (hist w)) ++ filter P (ring_items D (st w)).
Proof.
  intros P m x mx h ops Hc Hm. cbv zeta. unfold sinit. rewrite srun_SOp.
  exact (SC C17_per_producer_inv MI MI_s_lock MI_s_unlock P m x mx h ops Hc Hm).
Qed.

Theorem C16_history_scripted : forall m x mx h ops,
  (d_mutex D = true -> script_ok res_no_calls h = true) ->
  locks_ok false (locks (hist (srun D (sinit D m x mx h) (map SOp ops)))) = true.
Proof.
  intros m x mx h ops Hh. unfold sinit. rewrite srun_SOp.
  exact (SC C16_history_inv HN HN_step m x mx h ops Hh).
Qed.

Theorem C01_in_domain_scripted : forall m x mx h ops,
  wf_desc D m -> Forall (valid_op D) ops ->
  no_rt_hold h = true -> script_ok (res_calls_valid D) h = true ->
  let s := st (srun D (sinit D m x mx h) (map SOp ops)) in
  (gR s <= gL s <= S (gR s) /\ gR s <= gS s <= gL s) /\
  (reading_state (k_state (k s)) = true -> gL s = gR s /\ gS s = gR s) /\
  (gS s = S (gR s) -> (k_state (k s) = CS_FLUSH_WAIT \/ k_state (k s) = CS_FLUSH) /\ k_wafter (k s) = CS_AFTER_RESET).
Proof.
  intros m x mx h ops WF F A B. cbv zeta. unfold sinit. rewrite srun_SOp.
  exact (SC C01_in_domain_inv (SI D) (SI_step D) m x mx h ops (conj A B) WF F).
Qed.

Theorem C11_exclusion_in_domain_scripted : forall m x mx h ops,
  wf_desc D m -> Forall (valid_op D) ops ->
  no_rt_hold h = true -> script_ok (res_calls_valid D) h = true ->
  let s := st (srun D (sinit D m x mx h) (map SOp ops)) in
  ~ (k_state (k s) = CS_FLUSH /\ u_state (u s) = US_FLUSH).
Proof.
  intros m x mx h ops WF F A B. cbv zeta. unfold sinit. rewrite srun_SOp.
  exact (SC C11_exclusion_in_domain_inv (SI D) (SI_step D) m x mx h ops (conj A B) WF F).
Qed.

Theorem C14_in_domain_scripted : forall m x mx h ops,
  wf_desc D m -> Forall (valid_op D) ops ->
  no_rt_hold h = true -> script_ok (res_calls_valid D) h = true ->
  let s := st (srun D (sinit D m x mx h) (map SOp ops)) in
  (k_hold (k s) = true <-> k_state (k s) = CS_HOLD) /\
  (k_state (k s) = CS_HOLD -> gL s = S (gR s) /\ gS s = gR s).
Proof.
  intros m x mx h ops WF F A B. cbv zeta. unfold sinit. rewrite srun_SOp.
  exact (SC C14_in_domain_inv (SI D) (SI_step D) m x mx h ops (conj A B) WF F).
Qed.

Theorem C18_in_domain_scripted : forall m x mx h ops,
  wf_desc D m -> Forall (valid_op D) ops ->
  no_rt_hold h = true -> script_ok (res_calls_valid D) h = true ->
  let s := st (srun D (sinit D m x mx h) (map SOp ops)) in
  (is_busy s = ST_OK ->
     gL s = gR s /\ gS s = gR s /\ k_hold (k s) = false /\ k_cr (k s) = false /\ k_implicit (k s) = false /\
     k_state (k s) = CS_IDLE /\ u_state (u s) = US_IDLE) /\
  (is_hold s = ST_HOLD <-> k_state (k s) = CS_HOLD).
Proof.
  intros m x mx h ops WF F A B. cbv zeta. unfold sinit. rewrite srun_SOp.
  exact (SC C18_in_domain_inv (SI D) (SI_step D) m x mx h ops (conj A B) WF F).
Qed.


(* ---- scenarios with new input and application stores (SFeed, SPoke) between the API calls;
        SReinit is excluded: cat_init on a live object keeps the ghost counters and forgets the
        queue, J and the queue equation do not survive it ---- *)
Definition valid_sop (o : sop) : Prop :=
  match o with SOp o => valid_op D o | SReinit => False | _ => True end.
Definition no_reinit (o : sop) : Prop := match o with SReinit => False | _ => True end.

Definition GI (m : list (list N)) (w : sworld) : Prop :=
  Safe D m (st w) /\ J (ctl_of (st w)) /\ SI D (hs w).

Lemma sstep_GI : forall m w o, wf_desc D m -> valid_sop o -> GI m w -> GI m (sstep D w o).
Proof.
  intros m w o WF Ho (HS & HJ & HH). destruct o as [o|bytes|slot bytes|]; cbn [sstep valid_sop] in *.
  - assert (S' : Safe D m (st (step D sio smu shs s_read s_write s_lock s_unlock s_call w o)))
      by exact (SC step_safe_inv (SI D) (SI_step D) m w o HH WF Ho HS).
    split; [exact S'|]. split.
    + exact (SC J_step_inv (SI D) (HI_step_weak D shs s_call (SI D) (SI_step D)) w o HH HJ (safe_fault D m _ S')).
    + exact (proj2 (SC step_san (SI D) (SI_step D) w o HH)).
  - split; [exact HS|]. split; [exact HJ | exact HH].
  - unfold GI, Fsm.upd_st, Fsm.set_st. cbv beta. cbn [Fsm.st Fsm.hs]. split; [apply apply_poke_safe; exact HS|].
    split; [rewrite C_apply_poke; exact HJ | exact HH].
  - destruct Ho.
Qed.

Lemma srun_GI : forall m sops w, wf_desc D m -> Forall valid_sop sops -> GI m w -> GI m (srun D w sops).
Proof.
  intros m. unfold srun. induction sops as [|o sops IH]; intros w WF F H; [exact H|].
  inversion F; subst. cbn [fold_left]. apply IH; [exact WF | assumption |]. apply sstep_GI; assumption.
Qed.

Theorem scenario_inv_scripted : forall m x mx h sops,
  wf_desc D m -> Forall valid_sop sops ->
  no_rt_hold h = true -> script_ok (res_calls_valid D) h = true ->
  let w := srun D (sinit D m x mx h) sops in
  fault (st w) = false /\ Safe D m (st w) /\ J (ctl_of (st w)) /\
  no_rt_hold (hs w) = true /\ script_ok (res_calls_valid D) (hs w) = true.
Proof.
  intros m x mx h sops WF F A B. cbv zeta.
  destruct (srun_GI m sops (sinit D m x mx h) WF F) as (HS & HJ & HH).
  { split; [apply safe_init; exact WF|]. split; [apply J_init | split; assumption]. }
  split; [exact (safe_fault D m _ HS)|]. split; [exact HS|]. split; [exact HJ | exact HH].
Qed.

Definition QI (w : sworld) : Prop :=
  ring_inv D sio smu shs w /\ (d_mutex D = false \/ unlock_never_fails (mu w) = true).

Lemma sstep_QI : forall w o, no_reinit o -> QI w -> QI (sstep D w o).
Proof.
  intros w o Ho [HR HM]. destruct o as [o|bytes|slot bytes|]; cbn [sstep no_reinit] in *.
  - exact (SC ring_inv_step_inv MI MI_s_lock MI_s_unlock w o HM HR).
  - split; [exact HR | exact HM].
  - split; [|exact HM].
    (* a frame move; the move relation of an oracle whose unlock trivially succeeds will do *)
    refine (ring_inv_move D sio smu shs s_lock (fun x => (x, true)) (or_intror (fun _ => eq_refl)) w _ _ HR).
    apply move_upd_st. apply rp_apply_poke.
  - destruct Ho.
Qed.

Lemma srun_QI : forall sops w, Forall no_reinit sops -> QI w -> QI (srun D w sops).
Proof.
  unfold srun. induction sops as [|o sops IH]; intros w F H; [exact H|].
  inversion F; subst. cbn [fold_left]. apply IH; [assumption|]. apply sstep_QI; assumption.
Qed.

Theorem C13_exactly_once_scenario : forall m x mx h sops,
  0 < d_cap D -> (d_mutex D = false \/ unlock_never_fails mx = true) -> Forall no_reinit sops ->
  let w := srun D (sinit D m x mx h) sops in
  ring_wf D (st w) /\ accepted (hist w) = popped (hist w) ++ ring_items D (st w).
Proof.
  intros m x mx h sops Hc Hm F. cbv zeta.
  refine (proj1 (srun_QI sops (sinit D m x mx h) F _)). split; [|exact Hm].
  split; [apply init_wf; exact Hc | reflexivity].
Qed.

Lemma valid_no_reinit : forall sops, Forall valid_sop sops -> Forall no_reinit sops.
Proof. intros sops F. eapply Forall_impl; [|exact F]. intros [| | |] H; cbn in *; auto. Qed.

(* ---- C15 from cat_init: every reachable scripted world whose remaining scripts hold no HOLD
        and whose command is not held reaches quiescence ---- *)
Theorem C15_scenario_reaches_quiescence : forall m x mx h sops,
  d_mutex D = false -> wf_desc D m -> Forall valid_sop sops ->
  no_rt_hold h = true -> script_ok (res_calls_valid D) h = true ->
  let w := srun D (sinit D m x mx h) sops in
  k_state (k (st w)) <> CS_HOLD ->
  script_ok no_hold_res (hs w) = true ->
  exists n, n <= C15_bound D w + sched_left w /\
    inq (io (nsvc D n w)) = [] /\
    snd (do_op D sio smu shs s_read s_write s_lock s_unlock s_call (nsvc D n w) OService) = ST_OK.
Proof.
  intros m x mx h sops M WF F A B w Hk Hn.
  destruct (scenario_inv_scripted m x mx h sops WF F A B) as (_ & HS & HJ & _ & HV). fold w in HS, HJ, HV.
  destruct (C13_exactly_once_scenario m x mx h sops (proj1 WF) (or_introl M) (valid_no_reinit sops F))
    as [(_ & _ & _ & _ & Hc & _) _]. fold w in Hc.
  exact (C15_reaches_quiescence_fair_proof D m w M WF HS HJ Hn Hk
           (script_ok_impl _ _ (res_calls_valid_ok D) _ HV) Hc).
Qed.

Theorem C15_scenario_nothing_left : forall m x mx h sops,
  d_mutex D = false -> wf_desc D m -> Forall valid_sop sops ->
  no_rt_hold h = true -> script_ok (res_calls_valid D) h = true ->
  let w := srun D (sinit D m x mx h) sops in
  k_state (k (st w)) <> CS_HOLD ->
  script_ok no_hold_res (hs w) = true ->
  exists n, n <= C15_bound D w + sched_left w /\
    let w' := nsvc D n w in
    inq (io w') = [] /\
    u_count (u (st w')) = 0 /\ u_state (u (st w')) = US_IDLE /\
    reading_state (k_state (k (st w'))) = true /\ ring_items D (st w') = [] /\
    forall j,
      snd (do_op D sio smu shs s_read s_write s_lock s_unlock s_call (nsvc D j w') OService) = ST_OK /\
      st (nsvc D j w') = st w' /\ hs (nsvc D j w') = hs w'.
Proof.
  intros m x mx h sops M WF F A B w Hk Hn.
  destruct (scenario_inv_scripted m x mx h sops WF F A B) as (_ & HS & HJ & _ & HV). fold w in HS, HJ, HV.
  destruct (C13_exactly_once_scenario m x mx h sops (proj1 WF) (or_introl M) (valid_no_reinit sops F))
    as [(_ & _ & _ & _ & Hc & _) _]. fold w in Hc.
  exact (C15_fair_nothing_left_proof D m w M WF HS HJ Hn Hk
           (script_ok_impl _ _ (res_calls_valid_ok D) _ HV) Hc).
Qed.

Lemma valid_sop_map : forall ops, Forall (valid_op D) ops -> Forall valid_sop (map SOp ops).
Proof. intros ops F. apply Forall_map. exact F. Qed.

(* the requested form: histories of API calls *)
Theorem C15_reachable_reaches_quiescence : forall m x mx h ops0,
  d_mutex D = false -> wf_desc D m -> Forall (valid_op D) ops0 ->
  no_rt_hold h = true -> script_ok (res_calls_valid D) h = true ->
  let w := srun D (sinit D m x mx h) (map SOp ops0) in
  k_state (k (st w)) <> CS_HOLD ->
  script_ok no_hold_res (hs w) = true ->
  exists n, n <= C15_bound D w + sched_left w /\
    inq (io (nsvc D n w)) = [] /\
    snd (do_op D sio smu shs s_read s_write s_lock s_unlock s_call (nsvc D n w) OService) = ST_OK.
Proof.
  intros m x mx h ops0 M WF F.
  exact (C15_scenario_reaches_quiescence m x mx h (map SOp ops0) M WF (valid_sop_map ops0 F)).
Qed.

End Scripted.

Lemma Forall_firstn : forall (A : Type) (P : A -> Prop) n (l : list A), Forall P l -> Forall P (firstn n l).
Proof.
  intros A P. induction n as [|n IH]; intros l F; [constructor|].
  destruct F as [|a l Ha Hl]; [constructor|]. cbn [firstn]. constructor; [exact Ha | apply IH; exact Hl].
Qed.
