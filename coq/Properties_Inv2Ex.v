(* Properties_Inv2Ex.v — capstone examples for Properties_Inv.v / Properties_Inv2.v: two concrete
   scripted runs for which ALL the history theorems are obtained at once by APPLYING the lifted
   theorems (`_scripted` / `_scenario` forms), not by unfolding the model.  The hypotheses — the
   conditions on the scripts, wf_desc, validity of the operations — are discharged by computation
   (vm_compute / reflexivity on the boolean deciders valid_opb / valid_sopb / wf_descb).

   Run 1 (no mutex; history of API calls).  Four commands: "+SET" (one uint8 variable with read and
   write callbacks, write and read handlers), "+GO" (run handler, test handler), "+GET" (run
   handler), and, in a second group, "+GONE" (run handler), disabled by the first operation.
   Input  AT+SET=5 CR LF   AT+G LF   AT+GO LF   AT+SET? LF  : a write with a CRLF line end, an
   ambiguous abbreviation ("+G" matches "+GO" and "+GET": ERROR), a run whose handler answers HOLD
   and triggers a read event of "+SET" from inside, a read.  Events are also triggered by the
   application (before the first line; a test event of "+GO" while the command is held); the hold
   is released by cat_hold_exit(OK).  The read and write schedules refuse several attempts.
   Conclusions (Example cap1): no fault, Safe, J; the accepted output is the concatenation of the
   whole units started (C11); accepted = popped ++ queued (C13); the observers are exact (C13o);
   every command-side callback was made for the command selected in CS_COMMAND_FOUND on its line,
   in the state and for the request type of its kind (C02c), and that command was registered and
   enabled (C09c); gL = number of non-blank lines consumed (C01s); the lock discipline (C16,
   trivial without mutex); quiescence or an unreleased hold is reached within the bound (C15d).

   Run 2 (mutex configured; scenario with SFeed and SPoke).  Same descriptor with a mutex; the lock
   is refused three times, the unlock never fails; the handlers make no inner call.  The input
   arrives in three pieces (SFeed), the application stores 3 into the variable between two lines
   (SPoke), the run handler of "+GO" holds and cat_hold_exit releases it.  Conclusions (Example
   cap2): no fault, Safe, J, the scripts stay good; every io event, handler call and queue pop lies
   inside a lock bracket (C16 guarded), hence the lock discipline; accepted = popped ++ queued
   (C13 with a mutex); the stream decomposition (C11); observers exact; gL counts the lines;
   buffer lengths (C03c); request type in the loops (C02c). *)
From Coq Require Import List NArith ZArith Bool Arith Lia.
From CatV Require Import Bytes Defs Codec Spec Fsm Script Skel SkelInv SkelSim EvSkelSim TraceDefs ResolveDefs SchedDefs TermDefs.
From CatV Require Import Lemmas_Ctl Lemmas_C03 Lemmas_C13 Lemmas_C11 Lemmas_C11s Lemmas_C01s Lemmas_C15c Lemmas_C16
                         Lemmas_C16g Lemmas_Inv Lemmas_Inv2.
From CatV Require Properties_C13o Properties_C02c Properties_C09c Properties_C15d Properties_C16g
                  Properties_Inv Properties_Inv2.
Import ListNotations.
Local Open Scope nat_scope.

Local Notation st := (Fsm.st sio smu shs).
Local Notation io := (Fsm.io sio smu shs).
Local Notation mu := (Fsm.mu sio smu shs).
Local Notation hs := (Fsm.hs sio smu shs).
Local Notation tr := (Fsm.tr sio smu shs).
Local Notation hist := (TraceDefs.hist sio smu shs).
Local Notation in_progress := (Properties_C13o.in_progress sio smu shs).

(* ------------------------------------------------------------------ *)
(* the descriptor                                                       *)
(* ------------------------------------------------------------------ *)
Definition cap_var : var := mkVar None VUint 1 RW true true 0.
Definition c_set : cmd := mkCmd [43; 83; 69; 84]%N None true true false false [cap_var] false false false.
Definition c_go : cmd := mkCmd [43; 71; 79]%N None false false true true [] false false false.
Definition c_get : cmd := mkCmd [43; 71; 69; 84]%N None false false true false [] false false false.
Definition c_gone : cmd := mkCmd [43; 71; 79; 78; 69]%N None false false true false [] false false false.
Definition cap_D (mutex : bool) : desc := mkDesc [[c_set; c_go; c_get]; [c_gone]] [] 32 None 0%N 2 mutex.
Definition cap_m : list (list N) := [[7%N]].

Definition calls (w : sworld) : list hreq :=
  flat_map (fun e => match e with ECall q _ => [q] | _ => [] end) (hist w).
Definition written (w : sworld) : list N :=
  flat_map (fun e => match e with EWr _ ch true => [ch] | _ => [] end) (hist w).
Definition refused (w : sworld) : nat :=
  length (filter (fun e => match e with EWr _ _ false => true | _ => false end) (hist w)).
Definition rets (w : sworld) : list Z :=
  flat_map (fun e => match e with ERet _ r => [r] | _ => [] end) (hist w).

(* ================================================================== *)
(* Run 1: no mutex, a history of API calls                              *)
(* ================================================================== *)
Definition D1 : desc := cap_D false.
(* AT+SET=5 CR LF   AT+G LF   AT+GO LF   AT+SET? LF *)
Definition in1 : list N :=
  [65;84;43;83;69;84;61;53;13;10; 65;84;43;71;10; 65;84;43;71;79;10; 65;84;43;83;69;84;63;10]%N.
Definition x1 : sio :=
  mkSio in1 [true; false; true; true; false]
        [true; false; false; true; true; false; true; false; true; true; true; false; false; true].
Definition mx1 : smu := mkSmu [] [].
(* the run handler of "+GO" answers HOLD and triggers a read event of "+SET" from inside; the read
   handler of "+SET" answers DATA_OK three times (two events, one command) *)
Definition h1 : shs :=
  [((2, 1, 0), [mkHres RC_HOLD None [] [ITrigger 0 T_READ]]);
   ((1, 0, 0), repeat (mkHres RC_DATA_OK None [] []) 3)].
Definition ops1 : list op :=
  [OSetCmdDisable 3 true; OTrigger 0 T_READ] ++ repeat OService 105 ++ [OIsHold; OTrigger 1 T_TEST] ++
  repeat OService 30 ++ [OHoldExit ST_OK] ++ repeat OService 80.
(* notations, not definitions: the statements below then are, syntactically, instances of the
   theorems applied (no unfolding of a world is ever needed to check them) *)
Local Notation w01 := (sinit D1 cap_m x1 mx1 h1).
Local Notation w1 := (srun D1 w01 (map SOp ops1)).

(* ---- the hypotheses, by computation ---- *)
Lemma cap1_wf : wf_desc D1 cap_m.
Proof. apply wf_descb_sound. vm_compute. reflexivity. Qed.
Lemma cap1_valid : Forall (valid_op D1) ops1.
Proof. apply valid_ops_sound. vm_compute. reflexivity. Qed.
Lemma cap1_no_rt_hold : no_rt_hold h1 = true.
Proof. vm_compute. reflexivity. Qed.
Lemma cap1_calls_valid : script_ok (res_calls_valid D1) h1 = true.
Proof. vm_compute. reflexivity. Qed.
(* the one flag change is made while the command machine is idle *)
Lemma cap1_flags : sc_flags_between_lines D1 w01 ops1.
Proof.
  apply flags_between_cons; [intros _; reflexivity|].
  apply no_flag_ops_between. vm_compute. reflexivity.
Qed.
Lemma cap1_not_flushing : k_state (k (st w1)) <> CS_FLUSH /\ u_state (u (st w1)) <> US_FLUSH.
Proof. vm_compute. split; discriminate. Qed.
(* HOLD does occur in the scripts: the `no HOLD any more` theorems of C15b / C15c do not apply *)
Example cap1_holds : script_ok no_hold_res h1 = false.
Proof. vm_compute. reflexivity. Qed.

(* ---- what happened (computed): the callbacks in order, the accepted output, 6 refused writes, the
        hold seen by cat_is_hold (2 = ST_HOLD), the end state ---- *)
Example cap1_observed :
  calls w1 =
    [VRead UNSOL 0 0; HRead UNSOL 0 [43; 83; 69; 84; 61; 55; 0]%N 6 16;
     VWrite 0 0 1 [5%N]; HWrite 0 [53; 0]%N 1 1;
     HRun 1;
     VRead UNSOL 0 0; HRead UNSOL 0 [43; 83; 69; 84; 61; 53; 0]%N 6 16;
     HTest UNSOL 1 [43; 71; 79; 61; 0]%N 4 16;
     VRead ATCMD 0 0; HRead ATCMD 0 [43; 83; 69; 84; 61; 53; 0]%N 6 16] /\
  written w1 =
    [10; 43; 83; 69; 84; 61; 55; 10;              (* event:   +SET=7         *)
     13; 10; 79; 75; 13; 10;                      (* AT+SET=5 CR LF: OK, CRLF newline *)
     10; 69; 82; 82; 79; 82; 10;                  (* AT+G: ambiguous, ERROR *)
     10; 43; 83; 69; 84; 61; 53; 10;              (* event while held: +SET=5 *)
     10; 79; 75; 10;                              (* AT+GO after the release: OK *)
     10; 43; 83; 69; 84; 61; 53; 10; 10; 79; 75; 10]%N /\  (* AT+SET?: +SET=5 OK *)
  refused w1 = 6 /\
  nth 107 (rets w1) 7%Z = ST_HOLD /\
  k_state (k (st (srun D1 w01 (map SOp (firstn 139 ops1))))) = CS_HOLD /\
  k_state (k (st w1)) = CS_IDLE /\ u_state (u (st w1)) = US_IDLE /\ inq (io w1) = [] /\
  mem (st w1) = [[5%N]] /\
  map (is_command_disable D1 (st w1)) [0; 1; 2; 3] = [false; false; false; true].
Proof. vm_compute. repeat split; reflexivity. Qed.

Example cap1_started :
  sc_started D1 w01 ops1 =
    [(UNSOL, [10; 43; 83; 69; 84; 61; 55]); (ATCMD, [13; 10; 79; 75; 13; 10]);
     (ATCMD, [10; 69; 82; 82; 79; 82; 10]); (UNSOL, [10; 43; 83; 69; 84; 61; 53]);
     (ATCMD, [10; 79; 75; 10]); (ATCMD, [10; 43; 83; 69; 84; 61; 53; 10]); (ATCMD, [10; 79; 75; 10])]%N.
Proof. vm_compute. reflexivity. Qed.

(* ---- the capstone: everything at once, by the lifted theorems ---- *)
Example cap1 :
  (* C03 / Ctl: no fault, the safety invariant, the control invariant *)
  (fault (st w1) = false /\ Safe D1 cap_m (st w1) /\ J (ctl_of (st w1))) /\
  (* C11: the accepted output is the concatenation, in order of start, of the units started,
     and each of them is a whole unit *)
  (exists crs, length crs = length (sc_started D1 w01 ops1) /\
     accepted_wr (hist w1) = stream (sc_started D1 w01 ops1) crs) /\
  Forall whole_unit (sc_starts D1 w01 ops1) /\
  (* C13: the queue equation *)
  (ring_wf D1 (st w1) /\ accepted (hist w1) = popped (hist w1) ++ ring_items D1 (st w1)) /\
  (* C13o: the observers are exact *)
  ((forall ci t, is_event_buffered D1 (st w1) ci t = ST_BUSY <->
      exists it, In it (in_progress w1 ++ ring_items D1 (st w1)) /\ ev_match ci t it = true) /\
   get_processed (st w1) UNSOL = match in_progress w1 with [] => (-1)%Z | it :: _ => Z.of_nat (fst it) end) /\
  (* C02c: every command-side callback concerns the command selected on its line *)
  (forall q code, In (ECall q code) (tr w1) -> Properties_C02c.ev_side q = false ->
     exists ops0 opsm ops2, ops1 = ops0 ++ opsm ++ OService :: ops2 /\
       k_state (k (st (srun D1 w01 (map SOp ops0)))) = CS_COMMAND_FOUND /\
       k_cmd (k (st (srun D1 w01 (map SOp ops0)))) = Some (req_cmd q) /\
       (forall n, n <= length opsm ->
          Properties_C02c.needs_cmd (st (srun D1 w01 (map SOp (ops0 ++ firstn n opsm)))) = true) /\
       let s := st (srun D1 w01 (map SOp (ops0 ++ opsm))) in
       k_cmd (k s) = Some (req_cmd q) /\ k_state (k s) = Properties_C02c.call_state q /\
       k_type (k s) = Properties_C02c.kind_type q) /\
  (* C09c: ... and that command was registered and enabled *)
  (forall q code, In (ECall q code) (tr w1) -> Properties_C09c.ev_side q = false ->
     exists opsa opsb evs, ops1 = opsa ++ OService :: opsb /\
       tr (srun D1 w01 (map SOp (opsa ++ [OService]))) = evs ++ tr (srun D1 w01 (map SOp opsa)) /\
       In (ECall q code) evs /\
       let s := st (srun D1 w01 (map SOp opsa)) in
       k_cmd (k s) = Some (req_cmd q) /\ k_state (k s) = Properties_C09c.call_state q /\
       req_cmd q < ncmds D1 /\ is_command_disable D1 s (req_cmd q) = false) /\
  (* C01s: gL is the number of non-blank lines consumed *)
  gL (st w1) = nonblank_lines false (consumed (tr w1)) /\
  (* C16: the lock discipline *)
  locks_ok false (locks (hist w1)) = true /\
  (* C15d: quiescence, or suspension in an unreleased hold, is reached within the bound *)
  (exists n, n <= C15_bound D1 w1 + sched_left w1 /\
     let w' := nsvc D1 n w1 in
     (inq (io w') = [] /\
      snd (do_op D1 sio smu shs s_read s_write s_lock s_unlock s_call w' OService) = ST_OK) \/
     (k_state (k (st w')) = CS_HOLD /\ Defs.k_hold_exit (k (st w')) = 0%Z /\
      u_state (u (st w')) = US_IDLE /\ u_count (u (st w')) = 0)).
Proof.
  pose proof cap1_wf as WF. pose proof cap1_valid as F.
  pose proof cap1_no_rt_hold as A. pose proof cap1_calls_valid as B.
  destruct cap1_not_flushing as [NK NU].
  split; [exact (Properties_Inv.C03_safe_scripted D1 cap_m x1 mx1 h1 ops1 WF F A B)|].
  split; [exact (Properties_Inv2.C11_stream_scripted D1 cap_m x1 mx1 h1 ops1 A NK NU)|].
  split; [exact (Properties_Inv2.C11_started_whole_scripted D1 cap_m x1 mx1 h1 ops1)|].
  split; [exact (Properties_Inv.C13_exactly_once_scripted D1 cap_m x1 mx1 h1 ops1 (proj1 WF) (or_introl eq_refl))|].
  split; [exact (Properties_Inv2.C13_observers_exact_scripted D1 cap_m x1 mx1 h1 ops1 (proj1 WF) F B)|].
  split; [intros q code; exact (Properties_Inv2.C02_calls_selected_scripted D1 cap_m x1 mx1 h1 ops1 q code WF F A B)|].
  split; [intros q code;
          exact (Properties_Inv2.C09_calls_enabled_history_scripted D1 cap_m x1 mx1 h1 ops1 q code
                   (proj1 (proj2 WF)) cap1_flags)|].
  split; [exact (Properties_Inv2.C01_gL_in_domain_scripted D1 cap_m x1 mx1 h1 ops1 WF F A B)|].
  split; [apply (Properties_Inv.C16_history_scripted D1 cap_m x1 mx1 h1 ops1); intros M; discriminate M|].
  exact (Properties_C15d.C15_reachable_quiescence_or_hold D1 cap_m x1 mx1 h1 ops1 eq_refl WF F A B).
Qed.

(* the same theorems at an earlier point of the run, where the command IS held (after 139
   operations, just before cat_hold_exit): the stream invariant in its general form and C15d *)
Example cap1_held :
  let w := srun D1 w01 (map SOp (firstn 139 ops1)) in
  stream_inv (st w) (accepted_wr (hist w)) (sc_started D1 w01 (firstn 139 ops1)) /\
  (exists n, n <= C15_bound D1 w + sched_left w /\
     let w' := nsvc D1 n w in
     (inq (io w') = [] /\
      snd (do_op D1 sio smu shs s_read s_write s_lock s_unlock s_call w' OService) = ST_OK) \/
     (k_state (k (st w')) = CS_HOLD /\ Defs.k_hold_exit (k (st w')) = 0%Z /\
      u_state (u (st w')) = US_IDLE /\ u_count (u (st w')) = 0)).
Proof.
  cbv zeta. pose proof (Forall_firstn _ _ 139 _ cap1_valid) as F.
  split; [exact (Properties_Inv2.C11_stream_any_scripted D1 cap_m x1 mx1 h1 (firstn 139 ops1) cap1_no_rt_hold)|].
  exact (Properties_C15d.C15_reachable_quiescence_or_hold D1 cap_m x1 mx1 h1 (firstn 139 ops1) eq_refl
           cap1_wf F cap1_no_rt_hold cap1_calls_valid).
Qed.

(* ================================================================== *)
(* Run 2: a mutex, a scenario with SFeed and SPoke                      *)
(* ================================================================== *)
Definition D2 : desc := cap_D true.
Definition x2 : sio := mkSio [] [] [true; false; true; true; false; false; true].
(* the lock is refused three times; the unlock never fails *)
Definition mx2 : smu := mkSmu [true; false; true; true; false; true; true; true; false] [].
(* no inner call from the handlers (they would self-deadlock under the mutex) *)
Definition h2 : shs :=
  [((2, 1, 0), [mkHres RC_HOLD None [] []]);
   ((1, 0, 0), repeat (mkHres RC_DATA_OK None [] []) 2)].
Definition svcs (n : nat) : list sop := repeat (SOp OService) n.
Definition sops2 : list sop :=
  [SOp (OTrigger 0 T_READ)] ++ svcs 30 ++
  [SFeed [65;84;43;83;69;84;61;57;13;10]%N] ++ svcs 60 ++            (* AT+SET=9 CR LF *)
  [SPoke 0 [3%N]; SFeed [65;84;43;83;69;84;63;10]%N] ++ svcs 60 ++    (* the application stores 3; AT+SET? *)
  [SFeed [65;84;43;71;79;10]%N] ++ svcs 40 ++                         (* AT+GO: held *)
  [SOp OIsHold; SOp (OHoldExit ST_OK)] ++ svcs 30.
Local Notation w02 := (sinit D2 cap_m x2 mx2 h2).
Local Notation w2 := (srun D2 w02 sops2).

Lemma cap2_wf : wf_desc D2 cap_m.
Proof. apply wf_descb_sound. vm_compute. reflexivity. Qed.
Lemma cap2_valid : Forall (valid_sop D2) sops2.
Proof. apply valid_sops_sound. vm_compute. reflexivity. Qed.
Lemma cap2_no_rt_hold : no_rt_hold h2 = true.
Proof. vm_compute. reflexivity. Qed.
Lemma cap2_calls_valid : script_ok (res_calls_valid D2) h2 = true.
Proof. vm_compute. reflexivity. Qed.
Lemma cap2_no_inner : script_ok res_no_calls h2 = true.
Proof. vm_compute. reflexivity. Qed.
Lemma cap2_unlock : unlock_never_fails mx2 = true.
Proof. vm_compute. reflexivity. Qed.
Lemma cap2_not_flushing : k_state (k (st w2)) <> CS_FLUSH /\ u_state (u (st w2)) <> US_FLUSH.
Proof. vm_compute. split; discriminate. Qed.

Example cap2_observed :
  calls w2 =
    [VRead UNSOL 0 0; HRead UNSOL 0 [43; 83; 69; 84; 61; 55; 0]%N 6 16;
     VWrite 0 0 1 [9%N]; HWrite 0 [57; 0]%N 1 1;
     VRead ATCMD 0 0; HRead ATCMD 0 [43; 83; 69; 84; 61; 51; 0]%N 6 16;
     HRun 1] /\
  written w2 =
    [10; 43; 83; 69; 84; 61; 55; 10;   13; 10; 79; 75; 13; 10;
     10; 43; 83; 69; 84; 61; 51; 10;   10; 79; 75; 10;   10; 79; 75; 10]%N /\
  length (filter (fun r => (r =? ST_MUTEX_LOCK)%Z) (rets w2)) = 3 /\
  nth 191 (rets w2) 7%Z = ST_HOLD /\
  k_state (k (st w2)) = CS_IDLE /\ u_state (u (st w2)) = US_IDLE /\ inq (io w2) = [] /\
  mem (st w2) = [[3%N]].
Proof. vm_compute. repeat split; reflexivity. Qed.

Example cap2 :
  (fault (st w2) = false /\ Safe D2 cap_m (st w2) /\ J (ctl_of (st w2)) /\
   no_rt_hold (hs w2) = true /\ script_ok (res_calls_valid D2) (hs w2) = true) /\
  (* C16: every io event, handler call and pop lies inside a lock bracket; lock discipline *)
  guarded false (hist w2) = true /\
  locks_ok false (locks (hist w2)) = true /\
  (* C13 with a mutex: the queue equation *)
  (ring_wf D2 (st w2) /\ accepted (hist w2) = popped (hist w2) ++ ring_items D2 (st w2)) /\
  (* C11: stream decomposition, whole units *)
  (exists crs, length crs = length (sc_sstarted D2 w02 sops2) /\
     accepted_wr (hist w2) = stream (sc_sstarted D2 w02 sops2) crs) /\
  Forall whole_unit (sc_sstarts D2 w02 sops2) /\
  (* C13o *)
  ((forall ci t, is_event_buffered D2 (st w2) ci t = ST_BUSY <->
      exists it, In it (in_progress w2 ++ ring_items D2 (st w2)) /\ ev_match ci t it = true) /\
   get_processed (st w2) UNSOL = match in_progress w2 with [] => (-1)%Z | it :: _ => Z.of_nat (fst it) end) /\
  (* C01s, C02c, C03c *)
  gL (st w2) = nonblank_lines false (consumed (tr w2)) /\
  Properties_C02c.loop_type (st w2) /\
  (length (cbuf (st w2)) = asz_of D2 /\ length (ubuf (st w2)) = usz_of D2 /\
   length (u_ring (u (st w2))) = d_cap D2 /\ map (@length N) (mem (st w2)) = map (@length N) cap_m).
Proof.
  pose proof cap2_wf as WF. pose proof cap2_valid as F.
  pose proof cap2_no_rt_hold as A. pose proof cap2_calls_valid as B.
  pose proof (valid_no_reinit D2 sops2 F) as NR.
  destruct cap2_not_flushing as [NK NU].
  pose proof (Properties_Inv2.C16_guarded_scenario D2 cap_m x2 mx2 h2 sops2 eq_refl cap2_no_inner) as G.
  split; [exact (Properties_Inv.scenario_inv_scripted D2 cap_m x2 mx2 h2 sops2 WF F A B)|].
  split; [exact G|].
  split; [exact (Properties_C16g.guarded_locks_ok _ _ G)|].
  split; [exact (Properties_Inv.C13_exactly_once_scenario D2 cap_m x2 mx2 h2 sops2 (proj1 WF)
                   (or_intror cap2_unlock) NR)|].
  split; [exact (Properties_Inv2.C11_stream_scenario D2 cap_m x2 mx2 h2 sops2 A NR NK NU)|].
  split; [exact (Properties_Inv2.C11_started_whole_scenario D2 cap_m x2 mx2 h2 sops2 NR)|].
  split; [exact (Properties_Inv2.C13_observers_exact_scenario D2 cap_m x2 mx2 h2 sops2 (proj1 WF) F B)|].
  split; [exact (Properties_Inv2.C01_gL_scenario D2 cap_m x2 mx2 h2 sops2 WF F A B)|].
  split; [exact (Properties_Inv2.C02_loop_type_scenario D2 cap_m x2 mx2 h2 sops2 WF F A B)|].
  exact (Properties_Inv2.C03_lengths_scenario D2 cap_m x2 mx2 h2 sops2 WF F A B).
Qed.

(* ================================================================== *)
(* Run 3: the observer theorems of C13 and `no fault` do not need D3    *)
(* ================================================================== *)
(* the read handler of "+SET" answers HOLD to the EVENT machine (no_rt_hold fails, J is lost, the
   theorems of the supported domain do not apply); the inner calls are valid, and that is all the
   theorems lifted to the invariant `valid inner calls` ask for *)
Definition h3 : shs := [((1, 0, 0), [mkHres RC_HOLD None [] [ITrigger 1 T_TEST]])].
Definition ops3 : list op := [OTrigger 0 T_READ; OTrigger 2 T_READ] ++ repeat OService 20 ++ [OIsBuffered 2 T_NONE].
Local Notation w3 := (srun D1 (sinit D1 cap_m x1 mx1 h3) (map SOp ops3)).

Lemma cap3_valid : Forall (valid_op D1) ops3.
Proof. apply valid_ops_sound. vm_compute. reflexivity. Qed.

Example cap3 :
  no_rt_hold h3 = false /\ script_ok (res_calls_valid D1) h3 = true /\
  k_state (k (st w3)) = CS_HOLD /\
  fault (st w3) = false /\
  Forall (fun it => valid_trigger D1 (fst it) (snd it)) (ring_items D1 (st w3)) /\
  ((forall ci t, is_event_buffered D1 (st w3) ci t = ST_BUSY <->
      exists it, In it (in_progress w3 ++ ring_items D1 (st w3)) /\ ev_match ci t it = true) /\
   get_processed (st w3) UNSOL = match in_progress w3 with [] => (-1)%Z | it :: _ => Z.of_nat (fst it) end) /\
  (length (cbuf (st w3)) = asz_of D1 /\ length (ubuf (st w3)) = usz_of D1 /\
   length (u_ring (u (st w3))) = d_cap D1 /\ map (@length N) (mem (st w3)) = map (@length N) cap_m).
Proof.
  assert (B : script_ok (res_calls_valid D1) h3 = true) by (vm_compute; reflexivity).
  split; [vm_compute; reflexivity|]. split; [exact B|]. split; [vm_compute; reflexivity|].
  split; [exact (Properties_Inv2.C03_no_fault_scripted D1 cap_m x1 mx1 h3 ops3 cap1_wf cap3_valid B)|].
  split; [exact (Properties_Inv2.C13_queue_valid_scripted D1 cap_m x1 mx1 h3 ops3 (proj1 cap1_wf) cap3_valid B)|].
  split; [exact (Properties_Inv2.C13_observers_exact_scripted D1 cap_m x1 mx1 h3 ops3 (proj1 cap1_wf) cap3_valid B)|].
  exact (Properties_Inv2.C03_lengths_reachable_scripted D1 cap_m x1 mx1 h3 ops3 cap1_wf cap3_valid B).
Qed.

Print Assumptions cap1.
Print Assumptions cap3.
Print Assumptions cap1_held.
Print Assumptions cap2.
