(* Properties_C20d.v -- property C20: the chain and concatenation theorems of Properties_C20c.v,
   usable for a WRITE line followed by a line that depends on what it stored.
   Proofs are in Lemmas_C20d.v.

   The defect repaired here.  In Properties_C20c.v, C20_concat2 / C20_chain (chain_ok) ask for the
   premise of line 2 in EVERY state s1 with  line_post l1 s s1.  For l1 = LWrite, line_post gives the
   variables only up to Lemmas_C07.same_value (a string: equal up to its first NUL, same length), while
   line_pre (LRead ...) contains rt_cmd_ok (mem s1): every byte < 256.  A state whose string slot has
   junk behind the NUL satisfies line_post but not that premise, so for WRITE -> READ on a command
   with a string variable the premise of the old theorems is FALSE: C20_old_premise_false below.
   The old theorems remain true (and C20_chain' subsumes C20_chain: C20_chain_ok'_of_chain_ok); they
   just cannot be applied to that sequence.

   Repair.  line_post' = line_post /\ mem s' = line_mem l (mem s): the variables after the line are
   an explicit function of the variables before it (write_mem: every variable of the command gets the
   value written; a string keeps the OLD bytes behind its NUL, as the decoder leaves them).
   C20_line_re' / C20_chain' / C20_concat2' are the old theorems with this post-condition, so the
   premise of the next line is needed only for states with exactly those variables -- or
   (C20_concat2_mem, chain_pre) on ONE computed state.  C20_concat_write_read is the instance
   AT name = args LF  AT name ? LF. *)
From Coq Require Import List NArith ZArith Bool Arith.
From CatV Require Import Bytes Defs Codec Spec Fsm Script ResolveDefs SchedDefs GlueDefs TextDefs.
From CatV Require Lemmas_C07 Lemmas_C07e Lemmas_E2E Lemmas_C20c Lemmas_C20d.
From CatV Require Import Properties_C20c.
Import ListNotations.
Local Open Scope nat_scope.

Local Notation wst := (Fsm.st sio smu shs).
Local Notation wio := (Fsm.io sio smu shs).
Local Notation whs := (Fsm.hs sio smu shs).
Local Notation wtr := (Fsm.tr sio smu shs).

Import Lemmas_C20c Lemmas_C20d.

(* ------------------------------------------------------------------ *)
(* the memory a WRITE line leaves                                       *)
(* ------------------------------------------------------------------ *)
(* what is stored in the slot of variable v when d0 is written over the old contents `old`:
   Lemmas_C07.cstr = the bytes before the first NUL *)
Example stored_def : forall v d0 old, stored v d0 old =
  match v_type v with
  | VBufStr => Lemmas_C07.cstr d0 ++ 0%N :: skipn (S (length (Lemmas_C07.cstr d0))) old
  | _ => d0
  end.
Proof. reflexivity. Qed.

(* m: the memory whose text is written (LWrite name i c m args: args = read_args_text m c);
   m0: the memory before the line *)
Example write_mem_def : forall vs m m0, write_mem vs m m0 =
  fold_left (fun acc v => match nth_error m (v_slot v), nth_error m0 (v_slot v) with
                          | Some d0, Some o => upd acc (v_slot v) (stored v d0 o)
                          | _, _ => acc end) vs m0.
Proof. reflexivity. Qed.

Example line_mem_def : forall l m0, line_mem l m0 =
  match l with LWrite _ _ c m _ => write_mem (c_vars c) m m0 | _ => m0 end.
Proof. reflexivity. Qed.

Example line_post'_def : forall l s s', line_post' l s s' = (line_post l s s' /\ mem s' = line_mem l (mem s)).
Proof. reflexivity. Qed.

(* write_mem slot by slot (distinct storage) *)
Theorem C20_write_mem_values : forall vs m m0, NoDup (map v_slot vs) ->
  (forall v d0 o, In v vs -> nth_error m (v_slot v) = Some d0 -> nth_error m0 (v_slot v) = Some o ->
     nth_error (write_mem vs m m0) (v_slot v) = Some (stored v d0 o)) /\
  (forall sl, ~ In sl (map v_slot vs) -> nth_error (write_mem vs m m0) sl = nth_error m0 sl).
Proof. exact write_mem_values. Qed.
Print Assumptions C20_write_mem_values.

(* what is stored is a well-formed value, has the text of the value written, and is that value in the
   sense of same_value *)
Theorem C20_stored_ok : forall v d0 o,
  length d0 = v_size v -> length o = v_size v ->
  Forall (fun b => (b < 256)%N) d0 -> Forall (fun b => (b < 256)%N) o ->
  (v_type v = VBufStr -> In 0%N d0) ->
  length (stored v d0 o) = v_size v /\ Forall (fun b => (b < 256)%N) (stored v d0 o) /\
  (v_type v = VBufStr -> In 0%N (stored v d0 o)) /\ var_text v (stored v d0 o) = var_text v d0 /\
  Lemmas_C07.same_value v (stored v d0 o) d0.
Proof. exact stored_ok. Qed.
Print Assumptions C20_stored_ok.

(* the codec round trip of Properties_C07.v with the stored bytes spelled out *)
Theorem C20_roundtrip_exact : forall v data data' txt t tail,
  v_access v = RW ->
  Forall (fun b => (b < 256)%N) data -> length data = v_size v -> length data' = v_size v ->
  (v_type v = VBufStr -> In 0%N data) -> (v_type v = VBufHex -> 0 < v_size v) ->
  var_text v data = Some txt -> is_term t = true ->
  exists ws, decode_var v (txt ++ t :: tail) data'
             = (SOk (t =? ch_COMMA)%N, stored v data data', ws, S (length txt)).
Proof. exact roundtrip_exact. Qed.
Print Assumptions C20_roundtrip_exact.

(* ------------------------------------------------------------------ *)
(* the WRITE line with the exact memory                                 *)
(* ------------------------------------------------------------------ *)
Theorem E2E_write_line_exact : forall D s name rest h i c m args,
  d_mutex D = false -> 0 < ncmds D -> ncmds D <= 4 * length (cbuf s) -> 6 <= length (cbuf s) ->
  fault s = false ->
  k_state (k s) = CS_IDLE -> k_cr (k s) = false -> k_implicit (k s) = false -> k_hold (k s) = false ->
  u_state (u s) = US_IDLE -> u_count (u s) = 0 ->
  name_ok name = true -> implicit_hit D s (upper name) = false ->
  resolve (upper name) (enabled D s) (cmds D) = Some i -> nth_error (cmds D) i = Some c ->
  Lemmas_C07e.rt_cmd_ok m c -> Lemmas_C07e.read_args_text m c = Some args ->
  Lemmas_C07e.same_shape m (mem s) -> ~ In ch_CR args -> length args < length (cbuf s) ->
  let w0 := mkw s ([ch_A; ch_T] ++ name ++ [ch_EQ] ++ args ++ [ch_LF] ++ rest) h [] in
  exists calls, let w := nsvc D calls w0 in
    output_of (wtr w) = [ch_LF] ++ txt_OK ++ [ch_LF] /\
    mem (wst w) = write_mem (c_vars c) m (mem s) /\
    re_facts D s rest h w.
Proof. exact E2E_write_line_exact_proof. Qed.
Print Assumptions E2E_write_line_exact.

(* ------------------------------------------------------------------ *)
(* one line, chains, two lines                                          *)
(* ------------------------------------------------------------------ *)
Theorem C20_line_re' : forall D, d_mutex D = false -> forall l s rest h t,
  ready D s -> line_pre D l s ->
  exists calls s' t',
    nsvc D calls (mkw s (line_in l ++ rest) h t) = mkw s' rest h (t' ++ t) /\
    calls_of t' = [] /\ output_of t' = line_out l /\
    ready D s' /\ same_ctx s s' /\ line_post' l s s'.
Proof. exact line_re_world'. Qed.
Print Assumptions C20_line_re'.

(* the premise of each line is needed in the states its predecessors can leave -- now: the states with
   exactly the variables they leave *)
Example chain_ok'_def : forall D s ls, chain_ok' D s ls <->
  match ls with
  | [] => True
  | l :: ls' => line_pre D l s /\
                forall s1, ready D s1 -> same_ctx s s1 -> line_post' l s s1 -> chain_ok' D s1 ls'
  end.
Proof.
  intros D s ls. split.
  - intros H. destruct H; [exact I | split; assumption].
  - destruct ls; intros H; [constructor | destruct H; constructor; assumption].
Qed.

(* weaker than the old premise: whatever C20_chain applies to, C20_chain' applies to *)
Theorem C20_chain_ok'_of_chain_ok : forall D ls s, chain_ok D s ls -> chain_ok' D s ls.
Proof. exact chain_ok'_of_chain_ok. Qed.
Print Assumptions C20_chain_ok'_of_chain_ok.

Theorem C20_chain' : forall D, d_mutex D = false -> forall ls s rest h t,
  ready D s -> chain_ok' D s ls ->
  exists calls s' t',
    nsvc D calls (mkw s (concat (map line_in ls) ++ rest) h t) = mkw s' rest h (t' ++ t) /\
    calls_of t' = [] /\ output_of t' = concat (map line_out ls) /\ ready D s' /\
    mem s' = fold_left (fun m0 l => line_mem l m0) ls (mem s).
Proof. exact chain_world'. Qed.
Print Assumptions C20_chain'.

(* the premises without any quantifier over states: line k's premise on the start state with the
   variables lines 1 .. k-1 leave (line_pre depends on the state through the variables, the disable
   flags and the buffer size only: C20_line_pre_transfer) *)
Example chain_pre_def : forall D s ls, chain_pre D s ls =
  match ls with
  | [] => True
  | l :: ls' => line_pre D l s /\ chain_pre D (set_mem (line_mem l (mem s)) s) ls'
  end.
Proof. intros D s ls. destruct ls; reflexivity. Qed.

Theorem C20_chain_ok'_of_pre : forall D ls s, chain_pre D s ls -> chain_ok' D s ls.
Proof. exact chain_ok'_of_pre. Qed.
Print Assumptions C20_chain_ok'_of_pre.

(* THE CONCATENATION STATEMENT OF C20 for two lines of the covered kinds, premise of line 2 in the
   states that have the variables line 1 leaves; additionally: the variables after each of the three
   runs (w: both lines; wa: line 1 alone; wb: line 2 alone on the FRESH parser, cat_init again) *)
Theorem C20_concat2' : forall D, d_mutex D = false -> forall l1 l2 s rest h,
  length (cbuf s) = asz_of D -> ready D s -> line_pre D l1 s ->
  (forall s1, ready D s1 -> same_ctx s s1 -> line_post' l1 s s1 -> line_pre D l2 s1) ->
  exists c c1 c2,
    let w  := nsvc D c  (mkw s (line_in l1 ++ line_in l2 ++ rest) h []) in
    let wa := nsvc D c1 (mkw s (line_in l1) h []) in
    let wb := nsvc D c2 (mkw (reinit_state D (wst wa)) (line_in l2) h []) in
    output_of (wtr w) = output_of (wtr wa) ++ output_of (wtr wb) /\
    output_of (wtr wa) = line_out l1 /\ output_of (wtr wb) = line_out l2 /\
    inq (wio w) = rest /\ inq (wio wa) = [] /\ inq (wio wb) = [] /\
    calls_of (wtr w) = [] /\ ready D (wst w) /\ ready D (wst wa) /\ ready D (wst wb) /\
    mem (wst wa) = line_mem l1 (mem s) /\ mem (wst w) = line_mem l2 (line_mem l1 (mem s)) /\
    mem (wst wb) = mem (wst w).
Proof. exact concat2'. Qed.
Print Assumptions C20_concat2'.

(* the same with the premise of line 2 on ONE computed state *)
Theorem C20_concat2_mem : forall D, d_mutex D = false -> forall l1 l2 s rest h,
  length (cbuf s) = asz_of D -> ready D s -> line_pre D l1 s ->
  line_pre D l2 (set_mem (line_mem l1 (mem s)) s) ->
  exists c c1 c2,
    let w  := nsvc D c  (mkw s (line_in l1 ++ line_in l2 ++ rest) h []) in
    let wa := nsvc D c1 (mkw s (line_in l1) h []) in
    let wb := nsvc D c2 (mkw (reinit_state D (wst wa)) (line_in l2) h []) in
    output_of (wtr w) = output_of (wtr wa) ++ output_of (wtr wb) /\
    output_of (wtr wa) = line_out l1 /\ output_of (wtr wb) = line_out l2 /\
    inq (wio w) = rest /\ inq (wio wa) = [] /\ inq (wio wb) = [] /\
    calls_of (wtr w) = [] /\ ready D (wst w) /\ ready D (wst wa) /\ ready D (wst wb) /\
    mem (wst wa) = line_mem l1 (mem s) /\ mem (wst w) = line_mem l2 (line_mem l1 (mem s)) /\
    mem (wst wb) = mem (wst w).
Proof. exact concat2_mem. Qed.
Print Assumptions C20_concat2_mem.

(* ------------------------------------------------------------------ *)
(* WRITE line, then READ line on the same command                        *)
(* ------------------------------------------------------------------ *)
Example mem_bytes_def : forall m0, mem_bytes m0 = Forall (Forall (fun b => (b < 256)%N)) m0.
Proof. reflexivity. Qed.

(* the READ premises on the memory a WRITE leaves, and the text read back is the text written *)
Theorem C20_write_mem_readable : forall c m m0,
  Lemmas_C07e.rt_cmd_ok m c -> Lemmas_C07e.same_shape m m0 -> mem_bytes m0 ->
  Lemmas_C07e.rt_cmd_ok (write_mem (c_vars c) m m0) c /\
  Lemmas_C07e.read_args_text (write_mem (c_vars c) m m0) c = Lemmas_C07e.read_args_text m c.
Proof. exact write_mem_rt. Qed.
Print Assumptions C20_write_mem_readable.

(* AT name1 = args LF  AT name2 ? LF  (name1, name2: any spellings that resolve to the same command c,
   all of whose variables are read-write without callbacks: rt_cmd_ok, inside line_pre):
   the second response shows the values the first line stored (the same text args), it equals what a
   FRESH parser holding the stored variables answers (wb), and the variables after the two lines are
   those line 1 left.  Hypotheses beyond those of the two whole-line theorems: mem_bytes (mem s) --
   the variables before the WRITE are bytes (a string keeps its old tail; see
   C20d_ex_mem_bytes_needed) -- and the response fits the buffer. *)
Theorem C20_concat_write_read : forall D, d_mutex D = false -> forall s rest h name1 name2 i c m args,
  length (cbuf s) = asz_of D -> ready D s ->
  line_pre D (LWrite name1 i c m args) s ->
  mem_bytes (mem s) ->
  name_ok name2 = true -> implicit_hit D s (upper name2) = false ->
  resolve (upper name2) (enabled D s) (cmds D) = Some i ->
  length (c_name c ++ [ch_EQ] ++ args) < length (cbuf s) ->
  exists c0 c1 c2,
    let w  := nsvc D c0 (mkw s (([ch_A; ch_T] ++ name1 ++ [ch_EQ] ++ args ++ [ch_LF]) ++
                                ([ch_A; ch_T] ++ name2 ++ [ch_QM; ch_LF]) ++ rest) h []) in
    let wa := nsvc D c1 (mkw s ([ch_A; ch_T] ++ name1 ++ [ch_EQ] ++ args ++ [ch_LF]) h []) in
    let wb := nsvc D c2 (mkw (reinit_state D (wst wa)) ([ch_A; ch_T] ++ name2 ++ [ch_QM; ch_LF]) h []) in
    output_of (wtr w) = output_of (wtr wa) ++ output_of (wtr wb) /\
    output_of (wtr wa) = [ch_LF] ++ txt_OK ++ [ch_LF] /\
    output_of (wtr wb) = [ch_LF] ++ c_name c ++ [ch_EQ] ++ args ++ [ch_LF] ++ [ch_LF] ++ txt_OK ++ [ch_LF] /\
    inq (wio w) = rest /\ inq (wio wa) = [] /\ inq (wio wb) = [] /\
    calls_of (wtr w) = [] /\ ready D (wst w) /\ ready D (wst wa) /\ ready D (wst wb) /\
    mem (wst wa) = write_mem (c_vars c) m (mem s) /\ mem (wst w) = mem (wst wa) /\ mem (wst wb) = mem (wst wa) /\
    Lemmas_C07e.rt_cmd_ok (mem (wst wa)) c /\ Lemmas_C07e.read_args_text (mem (wst wa)) c = Some args.
Proof. exact concat_write_read. Qed.
Print Assumptions C20_concat_write_read.

(* ================================================================== *)
(* non-vacuity: the instance of Lemmas_E2E.E2E_examples                *)
(* (+X : int16, string[6], hexbuf[2], uint8 ; 40-byte buffer)           *)
(* lW = AT+x= args0 LF   lB = AT+x? LF   lA = AT+x? CR LF               *)
(* s1 : all variables hold ones; m0 = the values whose text is args0    *)
(* ================================================================== *)
Import Lemmas_E2E.E2E_examples Lemmas_C20c.Examples Lemmas_C20d.Examples.

(* the premise of the OLD theorems is false for lW ; lB: sbad (string slot A , dquote NUL 999 999) is
   ready, same_ctx, satisfies line_post lW, and does not satisfy line_pre lB *)
Example C20d_ex_sbad : ready D0 sbad /\ same_ctx s1 sbad /\ line_post lW s1 sbad /\ ~ line_pre D0 lB sbad.
Proof. exact ex_sbad. Qed.

Theorem C20_old_premise_false :
  ~ (forall sx, ready D0 sx -> same_ctx s1 sx -> line_post lW s1 sx -> line_pre D0 lB sx).
Proof. exact old_premise_false. Qed.
Print Assumptions C20_old_premise_false.

(* sbad is not a state lW can leave: line_post' excludes it *)
Example C20d_ex_sbad_excluded : ~ line_post' lW s1 sbad.
Proof. exact ex_sbad_not_post'. Qed.

(* the variables lW leaves on the all-ones memory: the string keeps the old bytes behind its NUL *)
Example C20d_ex_line_mem :
  line_mem lW (mem s1) = [[254; 255]; [65; 44; 34; 0; 1; 1]; [10; 255]; [200]; [5]]%N.
Proof. vm_compute. reflexivity. Qed.

(* the hypotheses of C20_concat_write_read are satisfiable ... *)
Example C20d_ex_hyps :
  d_mutex D0 = false /\ length (cbuf s1) = asz_of D0 /\ ready D0 s1 /\ line_pre D0 lW s1 /\ mem_bytes (mem s1) /\
  line_pre D0 lB (set_mem (line_mem lW (mem s1)) s1).
Proof.
  split; [reflexivity|]. split; [reflexivity|]. split; [exact (ex_ready m1)|]. split; [exact ex_pre_write|].
  split; [exact ex_old_ok|].
  apply (write_then_read_pre D0 s1 [43; 120]%N [43; 120]%N 0 c0 m0 args0 ex_pre_write ex_old_ok);
    try (vm_compute; reflexivity).
  apply Nat.ltb_lt. vm_compute. reflexivity.
Qed.

(* ... and mem_bytes is needed for the READ premise: from an old memory with a non-byte behind the
   string's NUL, lW leaves a memory on which line_pre lB fails *)
Example C20d_ex_mem_bytes_needed :
  let mold : list (list N) := [[1; 1]; [1; 1; 1; 1; 999; 999]; [1; 1]; [1]; [5]]%N in
  line_mem lW mold = mbad /\ ~ line_pre D0 lB (set_mem (line_mem lW mold) (init_state D0 mold)).
Proof. exact ex_mem_bytes_needed. Qed.

(* C20_concat_write_read applied: lW then lB *)
Example C20d_ex_write_read : forall rest h,
  exists c c1 c2,
    let w  := nsvc D0 c  (mkw s1 (line_in lW ++ line_in lB ++ rest) h []) in
    let wa := nsvc D0 c1 (mkw s1 (line_in lW) h []) in
    let wb := nsvc D0 c2 (mkw (reinit_state D0 (wst wa)) (line_in lB) h []) in
    output_of (wtr w) = output_of (wtr wa) ++ output_of (wtr wb) /\
    output_of (wtr w) = ([10; 79; 75; 10] ++ [10; 43; 88; 61] ++ args0 ++ [10; 10; 79; 75; 10])%N /\
    inq (wio w) = rest /\ mem (wst w) = m01 /\ mem (wst wb) = m01.
Proof. exact ex_write_read_apply. Qed.

(* C20_chain' applied to three lines, the premises computed on the start state (chain_pre):
   lW ; lB ; lA -- OK, then the values in LF style, then in CR LF style *)
Example C20d_ex_chain : forall rest h,
  exists calls s' t',
    nsvc D0 calls (mkw s1 (concat (map line_in [lW; lB; lA]) ++ rest) h []) = mkw s' rest h (t' ++ []) /\
    output_of t' = ([10; 79; 75; 10] ++ [10; 43; 88; 61] ++ args0 ++ [10; 10; 79; 75; 10] ++
                    [13; 10; 43; 88; 61] ++ args0 ++ [13; 10; 13; 10; 79; 75; 13; 10])%N /\
    ready D0 s' /\ mem s' = m01.
Proof. exact ex_chain_apply. Qed.

(* the same by computation, the three runs of the concatenation statement spelled out:
   AT+x= args0 LF AT+x? LF on the all-ones memory (43 + 53 calls); line 1 alone (43 calls); line 2
   alone after cat_init (53 calls) *)
Example C20d_ex_write_read_run :
  let l1 := line_in lW in let l2 := line_in lB in
  let w  := nsvc D0 (43 + 53) (mkw s1 (l1 ++ l2) [] []) in
  let wa := nsvc D0 43 (mkw s1 l1 [] []) in
  let wb := nsvc D0 53 (mkw (reinit_state D0 (wst wa)) l2 [] []) in
  output_of (wtr w) = output_of (wtr wa) ++ output_of (wtr wb) /\
  output_of (wtr wa) = [10; 79; 75; 10]%N /\
  output_of (wtr wb) = ([10; 43; 88; 61] ++ args0 ++ [10; 10; 79; 75; 10])%N /\
  inq (wio w) = [] /\ mem (wst wa) = m01 /\ mem (wst w) = m01 /\ mem (wst wb) = m01 /\
  k_state (k (wst w)) = CS_IDLE /\ k_cmd (k (wst w)) = None.
Proof. vm_compute. repeat split; reflexivity. Qed.

(* the old bytes behind the NUL really are kept (cat.c parse_buffer_string writes the string and its
   NUL only): the run from a memory whose string slot is 1 1 1 1 1 1 ends with 65 44 34 0 1 1 *)
Example C20d_ex_tail_kept :
  nth_error (mem (wst (nsvc D0 43 (mkw s1 (line_in lW) [] [])))) 1 = Some [65; 44; 34; 0; 1; 1]%N /\
  nth_error m0 1 = Some [65; 44; 34; 0; 7; 7]%N.
Proof. vm_compute. split; reflexivity. Qed.
